//! C09 — a crash at any persistence step never bricks or corrupts the chain.
//!
//! Fault enumeration: every scenario is run once in count mode (hook H1/H2 logs
//! every `crash_point(label)` reached: file append/flush/truncate, temp-file
//! rename, file replace, LMDB commit — each immediately before and after the
//! durable step), then once per crash index in a sacrificial process that
//! aborts there. A fresh process then reopens the directory and checks: opens
//! without repair, head is a block of the previously accepted chain, full
//! validation passes, re-delivery converges to the uninterrupted twin's head and
//! state, and a later block the twin accepts is accepted.

use grin_chain::types::Options;
use grin_chain::{Chain, Tip};
use grin_core::core::hash::{Hash, Hashed};
use grin_core::core::{Block, BlockHeader};
use grin_util::verif_hooks;
use grin_util::ToHex;
use serde_json::{json, Value};
use std::collections::HashMap;
use std::process::{Command, Stdio};
use vcommon::forktree::{hist_from_json, hist_to_json, GenBlock, Hist};
use vcommon::monitor::catch;
use vcommon::snapshot::snapshot;
use vcommon::world::{init_globals, init_thread, open_chain, Coin};
use vcommon::{Prng, Run, Scratch};

const OPTS: Options = Options::SKIP_POW;

// ------------------------------------------------------------------ scenario files

fn hstr(h: &Hash) -> String {
	h.to_hex()
}

fn find<'a>(h: &'a Hist, hex: &str) -> &'a GenBlock {
	h.blocks.iter().find(|b| b.hash.to_hex() == hex).expect("block by hash")
}

/// Run the interrupted operation of a scenario.
fn run_op(chain: &Chain, h: &Hist, op: &Value) -> Result<(), String> {
	match op["kind"].as_str().unwrap_or("") {
		"block" => {
			let b = find(h, op["block"].as_str().unwrap()).block.clone();
			chain.process_block(b, OPTS).map(|_| ()).map_err(|e| format!("{:?}", e))
		}
		"headers" => {
			let hs: Vec<BlockHeader> = op["blocks"]
				.as_array()
				.unwrap()
				.iter()
				.map(|x| find(h, x.as_str().unwrap()).block.header.clone())
				.collect();
			let sh: Tip = chain.header_head().map_err(|e| format!("{:?}", e))?;
			chain.sync_block_headers(&hs, sh, OPTS).map(|_| ()).map_err(|e| format!("{:?}", e))
		}
		"header" => {
			let hd = find(h, op["block"].as_str().unwrap()).block.header.clone();
			chain.process_block_header(&hd, OPTS).map_err(|e| format!("{:?}", e))
		}
		"compact" => chain.compact().map_err(|e| format!("{:?}", e)),
		"compact_then_block" => {
			chain.compact().map_err(|e| format!("{:?}", e))?;
			let b = find(h, op["block"].as_str().unwrap()).block.clone();
			chain.process_block(b, OPTS).map(|_| ()).map_err(|e| format!("{:?}", e))
		}
		k => Err(format!("unknown op {}", k)),
	}
}

fn state_json(chain: &Chain, h: &Hist) -> Value {
	let commits = h.all_commits();
	match snapshot(chain, &commits) {
		Ok(s) => json!({
			"head": hstr(&s.head.0), "height": s.head.1, "header_head": hstr(&s.header_head.0),
			"digest": s.body_digest(),
		}),
		Err(e) => json!({"error": e}),
	}
}

/// Sacrificial process: open the prepared directory, arm, run the op. With
/// crash_at = 0 it runs to completion, prints the labels and the final state.
fn crasher(run: &Run) -> ! {
	init_thread(true);
	let dir = run.arg_value("--dir").unwrap();
	let scen: Value = serde_json::from_str(&std::fs::read_to_string(run.arg_value("--scenario").unwrap()).unwrap()).unwrap();
	let crash_at: u64 = run.arg_value("--crash-at").unwrap().parse().unwrap();
	let log = run.arg_value("--log").unwrap();
	let h = hist_from_json(&scen["hist"]);
	let chain = match open_chain(&dir, &h.genesis) {
		Ok(c) => c,
		Err(e) => {
			println!("@@CRASHER {}", json!({"error": format!("open: {}", e)}));
			std::process::exit(3);
		}
	};
	verif_hooks::crash_arm(crash_at, Some(log));
	let r = run_op(&chain, &h, &scen["op"]);
	let labels = verif_hooks::crash_disarm();
	let st = state_json(&chain, &h);
	println!("@@CRASHER {}", json!({"result": format!("{:?}", r), "labels": labels, "state": st}));
	drop(chain);
	std::process::exit(0);
}

/// Build the pre-state directory of a scenario (its own process).
fn prep(run: &Run) -> ! {
	init_thread(true);
	let dir = run.arg_value("--dir").unwrap();
	let scen: Value = serde_json::from_str(&std::fs::read_to_string(run.arg_value("--scenario").unwrap()).unwrap()).unwrap();
	let h = hist_from_json(&scen["hist"]);
	let chain = open_chain(&dir, &h.genesis).expect("open");
	for x in scen["pre"].as_array().unwrap() {
		let s = x.as_str().unwrap();
		if s == "compact" {
			chain.compact().expect("pre compact");
			continue;
		}
		if let Some(hx) = s.strip_prefix("header:") {
			// header-first announcement: the header chain runs ahead of the body chain
			let hd = find(&h, hx).block.header.clone();
			if let Err(e) = chain.process_block_header(&hd, OPTS) {
				println!("@@PREP {}", json!({"error": format!("pre header {}: {:?}", hx, e)}));
				std::process::exit(3);
			}
			continue;
		}
		let b = find(&h, s).block.clone();
		if let Err(e) = chain.process_block(b, OPTS) {
			println!("@@PREP {}", json!({"error": format!("pre block {}: {:?}", s, e)}));
			std::process::exit(3);
		}
	}
	let st = state_json(&chain, &h);
	println!("@@PREP {}", json!({"state": st}));
	drop(chain);
	std::process::exit(0);
}

fn copy_dir(from: &str, to: &str) {
	let _ = std::fs::remove_dir_all(to);
	let st = Command::new("cp").arg("-r").arg(from).arg(to).status().expect("cp");
	assert!(st.success(), "cp -r failed");
}

fn self_cmd(run: &Run, mode: &str, args: &[(&str, String)]) -> (Option<i32>, bool, String) {
	let exe = std::env::current_exe().unwrap();
	let mut c = Command::new(exe);
	c.arg("--tier").arg(run.tier.name()).arg("--seed").arg(run.seed.to_string()).arg(mode);
	for (k, v) in args {
		c.arg(k).arg(v);
	}
	c.stdout(Stdio::piped()).stderr(Stdio::null());
	let out = c.output().expect("spawn");
	use std::os::unix::process::ExitStatusExt;
	let signalled = out.status.signal().is_some();
	(out.status.code(), signalled, String::from_utf8_lossy(&out.stdout).to_string())
}

fn tagged(out: &str, tag: &str) -> Option<Value> {
	out.lines().find_map(|l| l.strip_prefix(tag).and_then(|j| serde_json::from_str(j.trim()).ok()))
}

// ------------------------------------------------------------------ verification of one crash point

struct Job {
	scen_idx: usize,
	crash_at: u64,
	label: String,
	occurrence: u64,
}

fn verify_crash(run: &Run, scen: &Value, scen_path: &str, pre_dir: &str, job: &Job, sc: &Scratch) {
	let name = scen["name"].as_str().unwrap().to_string();
	let sig_base = format!("C09;scenario={};crash={}#{}", name, job.label, job.occurrence);
	let replay = json!({"scenario": name, "crash_at": job.crash_at, "label": job.label, "occurrence": job.occurrence, "op": scen["op"]});
	let dir = sc.sub(&format!("{}-{}", name, job.crash_at));
	copy_dir(pre_dir, &dir);
	let log = format!("{}.log", dir);
	let (code, signalled, out) = self_cmd(
		run,
		"--crasher",
		&[
			("--dir", dir.clone()),
			("--scenario", scen_path.to_string()),
			("--crash-at", job.crash_at.to_string()),
			("--log", log.clone()),
		],
	);
	let logtxt = std::fs::read_to_string(&log).unwrap_or_default();
	let crashed = logtxt.lines().any(|l| l.starts_with("CRASH "));
	if !signalled || !crashed {
		run.inconclusive(&format!(
			"{}: sacrificial process did not die at the armed point (code {:?}, signalled {}, out {})",
			sig_base,
			code,
			signalled,
			out.chars().take(200).collect::<String>()
		));
		let _ = std::fs::remove_dir_all(&dir);
		let _ = std::fs::remove_file(&log);
		return;
	}
	run.count("crash_points_exercised", 1);
	run.count(&format!("label.{}", job.label), 1);
	run.eval(&format!("{};{}#{}", name, job.label, job.occurrence), true);

	let h = hist_from_json(&scen["hist"]);
	// compaction scenarios are verified twice: with the compaction re-run straight after the restart
	// (path A, below) and, on a second copy of the left-over directory, with the compaction only
	// happening later, after further blocks (path B, `deferred_compaction`) — what a node really does
	let op_kind = scen["op"]["kind"].as_str().unwrap_or("").to_string();
	let dir_b = if op_kind == "compact" || op_kind == "compact_then_block" {
		let d = sc.sub(&format!("{}-{}-B", name, job.crash_at));
		copy_dir(&dir, &d);
		Some(d)
	} else {
		None
	};
	let ok = (|| -> bool {
		// (1) opens without manual repair
		let chain = match catch(|| open_chain(&dir, &h.genesis)) {
			Ok(Ok(c)) => c,
			Ok(Err(e)) => {
				run.violation(&format!("{};reopen_failed", sig_base), &format!("Chain::init on the left-over directory failed: {}", e), replay.clone());
				return false;
			}
			Err(p) => {
				run.violation(
					&format!("{};reopen_panicked@{}", sig_base, p.location),
					&format!("Chain::init panicked: {} at {}", p.message, p.location),
					replay.clone(),
				);
				return false;
			}
		};
		// (2) head is a block of the previously accepted chain
		let head = match chain.head() {
			Ok(t) => t,
			Err(e) => {
				run.violation(&format!("{};head_unreadable", sig_base), &format!("{:?}", e), replay.clone());
				return false;
			}
		};
		let old_head = Hash::from_hex(scen["old_head"].as_str().unwrap()).unwrap();
		let new_head = Hash::from_hex(scen["new_head"].as_str().unwrap()).unwrap();
		let known = h.ledger.blocks.contains_key(&head.last_block_h);
		let allowed = known && (h.ledger.is_ancestor(&head.last_block_h, &old_head) || h.ledger.is_ancestor(&head.last_block_h, &new_head));
		if !allowed {
			run.violation(
				&format!("{};head_not_on_accepted_chain", sig_base),
				&format!("reopened head {} (h {}) is neither the old head, the new head nor an ancestor", head.last_block_h, head.height),
				replay.clone(),
			);
			return false;
		}
		if head.last_block_h == old_head {
			run.count("reopened_at_old_head", 1);
		} else if head.last_block_h == new_head {
			run.count("reopened_at_new_head", 1);
		} else {
			run.count("reopened_at_an_ancestor", 1);
		}
		// (3) full validation of the reopened state
		match catch(|| chain.validate(false)) {
			Ok(Ok(())) => {}
			Ok(Err(e)) => {
				run.violation(&format!("{};validate_failed_after_reopen", sig_base), &format!("validate(false): {:?}", e), replay.clone());
				return false;
			}
			Err(p) => {
				run.violation(&format!("{};validate_panicked@{}", sig_base, p.location), &p.message, replay.clone());
				return false;
			}
		}
		// the reopened state itself must be the replayed state of its head
		{
			let commits = h.all_commits();
			let mut hh = hist_from_json(&scen["hist"]);
			match snapshot(&chain, &commits) {
				Ok(s) => {
					let st = hh.state(&s.head.0);
					if let Some(d) = vcommon::snapshot::compare_with_ref(&s, &st) {
						run.violation(
							&format!("{};reopened_state_vs_replay;{}", sig_base, d.split(':').next().unwrap_or("")),
							&d,
							replay.clone(),
						);
						return false;
					}
				}
				Err(e) => {
					run.violation(&format!("{};state_unreadable_after_reopen", sig_base), &e, replay.clone());
					return false;
				}
			}
		}
		// (4a) observation: does re-delivering the interrupted input ALONE already converge?
		{
			let r0 = catch(|| run_op(&chain, &h, &scen["op"]));
			let st0 = state_json(&chain, &h);
			let twin = &scen["twin_state"];
			let alone = r0.is_ok() && st0["head"] == twin["head"] && st0["digest"] == twin["digest"];
			let where_ = if head.last_block_h == old_head { "old_head" } else if head.last_block_h == new_head { "new_head" } else { "ancestor" };
			run.count(&format!("redelivery_of_the_input_alone.{}.reopened_at_{}.{}", name.split(':').last().unwrap_or(""), where_, if alone { "converged" } else { "did_not_converge" }), 1);
		}
		// (4) re-delivery as a syncing peer would do it: blocks of the accepted chain above the
		// reopened head, then the interrupted input
		let path = h.ledger.ancestry(&old_head);
		for x in path.iter().skip(1) {
			if h.ledger.get(x).height > head.height && h.ledger.is_ancestor(&head.last_block_h, x) {
				let b = h.ledger.get(x).block.clone();
				let _ = chain.process_block(b, OPTS);
			}
		}
		// blocks of the pre-state that are not on the old head's ancestry (fork blocks) are
		// re-offered as well, as peers would
		for x in scen["pre"].as_array().unwrap() {
			if let Some(s) = x.as_str() {
				if let Some(hh) = s.strip_prefix("header:") {
					let hd = find(&h, hh).block.header.clone();
					let _ = chain.process_block_header(&hd, OPTS);
				} else if s != "compact" {
					let b = find(&h, s).block.clone();
					let _ = chain.process_block(b, OPTS);
				}
			}
		}
		let r = catch(|| run_op(&chain, &h, &scen["op"]));
		if let Err(p) = &r {
			run.violation(&format!("{};redelivery_panicked@{}", sig_base, p.location), &p.message, replay.clone());
			return false;
		}
		let st = state_json(&chain, &h);
		let twin = &scen["twin_state"];
		let body_only_equal = st["head"] == twin["head"] && st["digest"] == twin["digest"];
		if !body_only_equal {
			let comp = st["digest"]
				.as_array()
				.and_then(|a| twin["digest"].as_array().and_then(|b| a.iter().zip(b.iter()).find(|(x, y)| x != y).map(|(x, _)| x[0].as_str().unwrap_or("?").to_string())))
				.unwrap_or_else(|| "head".to_string());
			run.violation(
				&format!("{};redelivery_does_not_converge;{}", sig_base, comp),
				&format!(
					"after re-delivering the interrupted input: head {} (twin {}), first differing component {}; redelivery result {:?}",
					st["head"], twin["head"], comp, r
				),
				replay.clone(),
			);
			return false;
		}
		// (5) a later block the twin accepts
		if let Some(a) = scen["after"].as_str() {
			let b = find(&h, a).block.clone();
			if let Err(e) = chain.process_block(b, OPTS) {
				run.violation(
					&format!("{};later_block_rejected", sig_base),
					&format!("block {} accepted by the uninterrupted twin is rejected: {:?}", a, e),
					replay.clone(),
				);
				return false;
			}
		}
		if let Err(e) = chain.validate(true) {
			run.violation(&format!("{};final_validate_failed", sig_base), &format!("{:?}", e), replay.clone());
			return false;
		}
		true
	})();
	if ok {
		run.count("crash_points_recovered", 1);
	}
	if let Some(db) = &dir_b {
		if ok {
			deferred_compaction(run, scen, &h, db, &sig_base, &replay);
		}
		let _ = std::fs::remove_dir_all(db);
	}
	let _ = std::fs::remove_dir_all(&dir);
	let _ = std::fs::remove_file(&log);
}

/// Path B for compaction scenarios (only for crash points that recovered on path A): the node restarts
/// after the crash, keeps accepting blocks, and compacts later. Oracles: every call succeeds, full
/// validation passes after the later compaction, the state equals the reference replay of its head, a
/// further block is accepted and the node reopens cleanly once more.
fn deferred_compaction(run: &Run, scen: &Value, h: &Hist, dir: &str, sig_base: &str, replay: &Value) {
	let sig = |c: &str| format!("{};deferred_compaction;{}", sig_base, c);
	let chain = match catch(|| open_chain(dir, &h.genesis)) {
		Ok(Ok(c)) => c,
		Ok(Err(e)) => {
			run.violation(&sig("reopen_failed"), &e, replay.clone());
			return;
		}
		Err(p) => {
			run.violation(&sig(&format!("reopen_panicked@{}", p.location)), &p.message, replay.clone());
			return;
		}
	};
	let old_head = Hash::from_hex(scen["old_head"].as_str().unwrap()).unwrap();
	let new_head = Hash::from_hex(scen["new_head"].as_str().unwrap()).unwrap();
	// blocks of the accepted chain above the reopened head, the scenario's block (if any), the later block
	let mut feed: Vec<Hash> = h.ledger.ancestry(&old_head).into_iter().skip(1).collect();
	if new_head != old_head {
		feed.push(new_head);
	}
	if let Some(a) = scen["after"].as_str() {
		feed.push(Hash::from_hex(a).unwrap());
	}
	let head0 = match chain.head() {
		Ok(t) => t.last_block_h,
		Err(e) => {
			run.violation(&sig("head_unreadable"), &format!("{:?}", e), replay.clone());
			return;
		}
	};
	for x in feed {
		let gb = h.ledger.get(&x);
		// already part of the reopened chain (compaction may have deleted its body: do not re-offer it)
		if h.ledger.is_ancestor(&x, &head0) {
			continue;
		}
		match catch(|| chain.process_block(gb.block.clone(), OPTS)) {
			Ok(Ok(_)) => {}
			Ok(Err(grin_chain::Error::Unfit(_))) => {}
			Ok(Err(e)) => {
				run.violation(&sig("block_rejected"), &format!("block {} (h {}) rejected after the restart: {:?}", x, gb.height, e), replay.clone());
				return;
			}
			Err(p) => {
				run.violation(&sig(&format!("process_block_panicked@{}", p.location)), &p.message, replay.clone());
				return;
			}
		}
	}
	match catch(|| chain.compact()) {
		Ok(Ok(())) => {}
		Ok(Err(e)) => {
			run.violation(&sig("later_compaction_failed"), &format!("{:?}", e), replay.clone());
			return;
		}
		Err(p) => {
			run.violation(&sig(&format!("later_compaction_panicked@{}", p.location)), &p.message, replay.clone());
			return;
		}
	}
	run.count("deferred_compactions_run", 1);
	let check_state = |chain: &Chain, stage: &str| -> bool {
		match catch(|| chain.validate(false)) {
			Ok(Ok(())) => {}
			Ok(Err(e)) => {
				run.violation(&sig(&format!("{};validate_failed", stage)), &format!("validate(false): {:?}", e), replay.clone());
				return false;
			}
			Err(p) => {
				run.violation(&sig(&format!("{};validate_panicked@{}", stage, p.location)), &p.message, replay.clone());
				return false;
			}
		}
		let commits = h.all_commits();
		let mut hh = hist_from_json(&scen["hist"]);
		match snapshot(chain, &commits) {
			Ok(s) => {
				let st = hh.state(&s.head.0);
				if let Some(d) = vcommon::snapshot::compare_with_ref(&s, &st) {
					run.violation(&sig(&format!("{};state_vs_replay;{}", stage, d.split(':').next().unwrap_or(""))), &d, replay.clone());
					return false;
				}
				true
			}
			Err(e) => {
				run.violation(&sig(&format!("{};state_unreadable", stage)), &e, replay.clone());
				false
			}
		}
	};
	if !check_state(&chain, "after_later_compaction") {
		return;
	}
	drop(chain);
	let chain = match catch(|| open_chain(dir, &h.genesis)) {
		Ok(Ok(c)) => c,
		Ok(Err(e)) => {
			run.violation(&sig("second_reopen_failed"), &e, replay.clone());
			return;
		}
		Err(p) => {
			run.violation(&sig(&format!("second_reopen_panicked@{}", p.location)), &p.message, replay.clone());
			return;
		}
	};
	if check_state(&chain, "after_second_reopen") {
		run.count("deferred_compactions_recovered", 1);
	}
}

// ------------------------------------------------------------------ scenario construction (parent)

struct Scen {
	name: String,
	pre: Vec<String>,
	op: Value,
	old_head: Hash,
	new_head: Hash,
	after: Option<Hash>,
	hist: Value,
}

fn pick_old_coin(h: &mut Hist, tip: &Hash, max_height: u64) -> Option<Coin> {
	let st = h.state(tip);
	let mut v: Vec<(u64, Coin)> = vec![];
	for (c, &i) in &st.utxo {
		if st.outs[i].height <= max_height {
			if let Some(coin) = h.coins.get(&c.0.to_vec()) {
				v.push((st.outs[i].height, coin.clone()));
			}
		}
	}
	v.sort_by(|a, b| a.0.cmp(&b.0).then(a.1.commit.0.cmp(&b.1.commit.0)));
	v.first().map(|x| x.1.clone())
}

fn block_on(h: &mut Hist, parent: &Hash, coins: &[Coin], n_out: usize, difficulty: u64) -> Hash {
	let txs = if coins.is_empty() { vec![] } else { vec![h.spend_tx(coins, n_out, None)] };
	let k = h.fresh_key();
	let w = h.world.clone();
	let mut p = h.prng.fork(31);
	let b = h
		.ledger
		.make_block(&w, &mut p, parent, &txs, &k, vcommon::world::PowMode::Skip { difficulty }, 60)
		.expect("block");
	let fees: u64 = txs.iter().map(|t| t.fee()).sum();
	let cb = w.coin(grin_core::consensus::reward(fees), &k, true);
	h.coins.insert(cb.commit.0.to_vec(), cb);
	let hash = b.hash();
	h.blocks.push(GenBlock {
		hash,
		parent: *parent,
		block: b,
		verdict: Ok(()),
		class: "honest".into(),
		tags: vec![],
	});
	hash
}

fn build_scenarios(seed: u64, long: bool) -> Vec<Scen> {
	let mut out = vec![];
	// ---- short world
	let mut h = Hist::new(seed ^ 0xC09, false);
	let g = h.genesis.hash();
	let mut trunk = vec![g];
	for i in 1..=12u64 {
		let p = *trunk.last().unwrap();
		let coins: Vec<Coin> = if i >= 5 && i % 2 == 1 { h.spendable(&p).into_iter().take(1).collect() } else { vec![] };
		let t = block_on(&mut h, &p, &coins, 2, 10);
		trunk.push(t);
	}
	let t11 = trunk[11];
	let t12 = trunk[12];
	let pre_to = |n: usize| -> Vec<String> { trunk[1..=n].iter().map(hstr).collect() };
	// S1 plain extension without spends
	{
		let b = block_on(&mut h, &t12, &[], 1, 10);
		let after = block_on(&mut h, &b, &[], 1, 10);
		out.push(Scen { name: "plain_extension".into(), pre: pre_to(12), op: json!({"kind": "block", "block": hstr(&b)}), old_head: t12, new_head: b, after: Some(after), hist: Value::Null });
	}
	// S2 extension spending two coins, one of them the oldest output of the chain
	{
		let old = pick_old_coin(&mut h, &t12, 2).into_iter().collect::<Vec<_>>();
		let mut coins = old;
		if let Some(c) = h.spendable(&t12).into_iter().rev().find(|c| !coins.iter().any(|x| x.commit == c.commit)) {
			coins.push(c);
		}
		let b = block_on(&mut h, &t12, &coins, 3, 10);
		let after = block_on(&mut h, &b, &[], 1, 10);
		out.push(Scen { name: "extension_with_old_spend".into(), pre: pre_to(12), op: json!({"kind": "block", "block": hstr(&b)}), old_head: t12, new_head: b, after: Some(after), hist: Value::Null });
	}
	// fork from T10: F1 (low work), F2 (wins), F3
	let t10 = trunk[10];
	let fcoin: Vec<Coin> = h.spendable(&t10).into_iter().take(1).collect();
	let f1 = block_on(&mut h, &t10, &fcoin, 2, 3);
	// S3 fork block that does not become head
	{
		let after = block_on(&mut h, &t12, &[], 1, 10);
		out.push(Scen { name: "fork_block".into(), pre: pre_to(12), op: json!({"kind": "block", "block": hstr(&f1)}), old_head: t12, new_head: t12, after: Some(after), hist: Value::Null });
	}
	// S4 reorg with spends: F2 on F1 with more work than T12
	let f2coin: Vec<Coin> = h.spendable(&f1).into_iter().rev().take(1).collect();
	let f2 = block_on(&mut h, &f1, &f2coin, 2, 40);
	{
		let mut pre = pre_to(12);
		pre.push(hstr(&f1));
		let after = block_on(&mut h, &f2, &[], 1, 10);
		out.push(Scen { name: "reorg_with_spends".into(), pre, op: json!({"kind": "block", "block": hstr(&f2)}), old_head: t12, new_head: f2, after: Some(after), hist: Value::Null });
	}
	// S5 header-only reorg: headers of F1,F2,F3 synced onto a node that has T1..T12
	{
		let f3 = block_on(&mut h, &f2, &[], 1, 10);
		let after = block_on(&mut h, &t12, &[], 1, 10);
		out.push(Scen {
			name: "header_only_reorg".into(),
			pre: pre_to(12),
			op: json!({"kind": "headers", "blocks": [hstr(&f1), hstr(&f2), hstr(&f3)]}),
			old_head: t12,
			new_head: t12,
			after: Some(after),
			hist: Value::Null,
		});
	}
	// S5b / S5c: the header of a block on T12 was announced first (header chain one ahead of the body chain); then a
	// SIBLING with exactly the same cumulative difficulty arrives — as a header only, and as a full block (which
	// becomes the body head while the header chain stays on the first-seen header)
	{
		let announced = block_on(&mut h, &t12, &[], 1, 10);
		let sibling = block_on(&mut h, &t12, &[], 1, 10);
		let after_h = block_on(&mut h, &t12, &[], 1, 10);
		let mut pre = pre_to(12);
		pre.push(format!("header:{}", hstr(&announced)));
		out.push(Scen {
			name: "equal_work_sibling_header_with_header_chain_ahead".into(),
			pre: pre.clone(),
			op: json!({"kind": "header", "block": hstr(&sibling)}),
			old_head: t12,
			new_head: t12,
			after: Some(after_h),
			hist: Value::Null,
		});
		let after_b = block_on(&mut h, &sibling, &[], 1, 10);
		out.push(Scen {
			name: "equal_work_sibling_block_with_header_chain_ahead".into(),
			pre,
			op: json!({"kind": "block", "block": hstr(&sibling)}),
			old_head: t12,
			new_head: sibling,
			after: Some(after_b),
			hist: Value::Null,
		});
	}
	let _ = t11;
	let hist_short = hist_to_json(&h);
	for s in out.iter_mut() {
		s.hist = hist_short.clone();
	}
	if !long {
		return out;
	}
	// ---- long world (compaction needs head >= tail + 80)
	let mut h = Hist::new(seed ^ 0xC0900, false);
	let g = h.genesis.hash();
	let mut trunk = vec![g];
	for i in 1..=88u64 {
		let p = *trunk.last().unwrap();
		let coins: Vec<Coin> = if i >= 6 && i % 3 == 0 { h.spendable(&p).into_iter().take(1).collect() } else { vec![] };
		let t = block_on(&mut h, &p, &coins, 2, 10);
		trunk.push(t);
	}
	let tip = trunk[88];
	let pre_all: Vec<String> = trunk[1..=88].iter().map(hstr).collect();
	let mut long_scens = vec![];
	// S6 compaction
	{
		let after = block_on(&mut h, &tip, &[], 1, 10);
		long_scens.push(Scen { name: "compaction".into(), pre: pre_all.clone(), op: json!({"kind": "compact"}), old_head: tip, new_head: tip, after: Some(after), hist: Value::Null });
	}
	// S7 compaction followed by a block spending an old output
	{
		let old: Vec<Coin> = pick_old_coin(&mut h, &tip, 30).into_iter().collect();
		let b = block_on(&mut h, &tip, &old, 2, 10);
		let after = block_on(&mut h, &b, &[], 1, 10);
		long_scens.push(Scen { name: "compaction_then_block".into(), pre: pre_all.clone(), op: json!({"kind": "compact_then_block", "block": hstr(&b)}), old_head: tip, new_head: b, after: Some(after), hist: Value::Null });
	}
	// S8 block spending an output created before the compaction horizon, on an already compacted node
	{
		let old: Vec<Coin> = pick_old_coin(&mut h, &tip, 40).into_iter().collect();
		let b = block_on(&mut h, &tip, &old, 2, 10);
		let after = block_on(&mut h, &b, &[], 1, 10);
		let mut pre = pre_all.clone();
		pre.push("compact".into());
		long_scens.push(Scen { name: "spend_pre_horizon_output_after_compaction".into(), pre, op: json!({"kind": "block", "block": hstr(&b)}), old_head: tip, new_head: b, after: Some(after), hist: Value::Null });
	}
	let hist_long = hist_to_json(&h);
	for s in long_scens.iter_mut() {
		s.hist = hist_long.clone();
	}
	out.extend(long_scens);
	out
}

fn main() {
	let run = Run::from_env("C09", "fault_enumeration");
	init_globals(true);
	if run.args.iter().any(|a| a == "--crasher") {
		crasher(&run);
	}
	if run.args.iter().any(|a| a == "--prep") {
		prep(&run);
	}
	let work = run.arg_value("--work");
	if let (Some((shard, n)), Some(work)) = (run.worker_shard(), work.clone()) {
		init_thread(true);
		let jobs: Vec<Value> = serde_json::from_str(&std::fs::read_to_string(format!("{}/jobs.json", work)).unwrap()).unwrap();
		let sc = Scratch::new("c09w");
		let mut scen_cache: HashMap<usize, Value> = HashMap::new();
		for (j, job) in jobs.iter().enumerate() {
			if j % n != shard {
				continue;
			}
			let si = job["scenario"].as_u64().unwrap() as usize;
			let scen_path = format!("{}/scen{}.json", work, si);
			let scen = scen_cache
				.entry(si)
				.or_insert_with(|| serde_json::from_str(&std::fs::read_to_string(&scen_path).unwrap()).unwrap())
				.clone();
			let jb = Job {
				scen_idx: si,
				crash_at: job["crash_at"].as_u64().unwrap(),
				label: job["label"].as_str().unwrap().to_string(),
				occurrence: job["occurrence"].as_u64().unwrap(),
			};
			let _ = jb.scen_idx;
			verify_crash(&run, &scen, &scen_path, &format!("{}/pre{}", work, si), &jb, &sc);
		}
		drop(sc);
		run.finish_worker();
	}

	run.set_rule(
		"scenarios: plain extension, extension spending the oldest output, fork block, reorg with spends, header-only reorg \
		 (sync_block_headers onto a heavier fork), compaction, compaction followed by a block spending an old output, block spending a \
		 pre-horizon output on a compacted node. Each scenario is run once in count mode; the hooks report every durable step reached \
		 (aof.flush.pre_truncate/post_truncate/pre_append/torn_append_head/torn_append_tail/post_sync — the two torn points write only the first 5 bytes / all but the last byte of the buffered records before the abort —, aof.write_tmp_pruned.done, aof.replace.pre_remove/ \
		 between_remove_and_rename/post_rename, save_via_temp_file.pre_rename/post_rename, lmdb.commit.pre/post); then EVERY index is \
		 crashed (abort in a sacrificial process on a copy of the prepared directory) and a fresh process checks: Chain::init succeeds, \
		 head is on the previously accepted chain, validate(false) passes, the reopened state equals the replayed state of its head, \
		 re-delivery (accepted chain above the reopened head, fork blocks, then the interrupted input) converges to the uninterrupted \
		 twin's head and best-chain state digest, a later block is accepted, validate(true) passes. Every crash point is one case.",
	);
	run.assume("process death at the hook (abort, no destructors, LMDB environment not closed); the OS page cache survives, so power loss (loss or reordering of completed writes) is out of reach; a write cut short by the death of the process is covered for MMR file appends (two cut positions per append), not for the temp-file writes of leaf set / prune list (never observed half-written: they are renamed into place) nor inside LMDB");
	let sc = Scratch::new("c09");
	let work = sc.path.display().to_string();
	let long = true;
	// The worlds are FIXED (not derived from VERIF_SEED): this is an enumeration of every
	// crash point of fixed scenarios, and recorded findings are keyed by (world, scenario,
	// crash point, failing clause), which must be reproducible bit for bit. The run seed only
	// shuffles the order in which crash points are distributed over the workers.
	let worlds: Vec<(&str, u64)> = run.tier.pick(vec![("wA", 0xA11CE)], vec![("wA", 0xA11CE), ("wB", 0xB0B), ("wC", 0xCA401)]);
	let mut scens: Vec<Scen> = vec![];
	for (tag, ws) in &worlds {
		for mut s in build_scenarios(*ws, long) {
			s.name = format!("{}:{}", tag, s.name);
			scens.push(s);
		}
	}
	run.count("scenario_build_seconds", run.elapsed_s() as u64);
	// write scenario files, prepare pre-state dirs and run count mode (parallel: one thread per scenario driving subprocesses)
	let mut scen_vals: Vec<Value> = vec![];
	for (i, s) in scens.iter().enumerate() {
		let v = json!({
			"name": s.name, "pre": s.pre, "op": s.op, "old_head": hstr(&s.old_head), "new_head": hstr(&s.new_head),
			"after": s.after.map(|h| hstr(&h)), "hist": s.hist,
		});
		std::fs::write(format!("{}/scen{}.json", work, i), serde_json::to_string(&v).unwrap()).unwrap();
		scen_vals.push(v);
	}
	let results: Vec<Option<(Value, Vec<String>)>> = std::thread::scope(|sp| {
		let handles: Vec<_> = (0..scens.len())
			.map(|i| {
				let work = work.clone();
				let run = &run;
				sp.spawn(move || {
					let scen_path = format!("{}/scen{}.json", work, i);
					let pre_dir = format!("{}/pre{}", work, i);
					let (code, _, out) = self_cmd(run, "--prep", &[("--dir", pre_dir.clone()), ("--scenario", scen_path.clone())]);
					if code != Some(0) {
						return None;
					}
					// count mode on a copy
					let cdir = format!("{}/count{}", work, i);
					copy_dir(&pre_dir, &cdir);
					let log = format!("{}/count{}.log", work, i);
					let (code, _, out2) = self_cmd(
						run,
						"--crasher",
						&[("--dir", cdir.clone()), ("--scenario", scen_path), ("--crash-at", "0".to_string()), ("--log", log)],
					);
					let _ = std::fs::remove_dir_all(&cdir);
					let _ = out;
					if code != Some(0) {
						return None;
					}
					let v = tagged(&out2, "@@CRASHER ")?;
					let labels: Vec<String> = v["labels"].as_array()?.iter().filter_map(|x| x.as_str().map(|s| s.to_string())).collect();
					Some((v, labels))
				})
			})
			.collect();
		handles.into_iter().map(|h| h.join().unwrap()).collect()
	});
	let mut jobs = vec![];
	let mut per_scenario = vec![];
	for (i, r) in results.into_iter().enumerate() {
		let name = scens[i].name.clone();
		match r {
			None => run.inconclusive(&format!("scenario {} could not be prepared / counted", name)),
			Some((v, labels)) => {
				if !v["result"].as_str().unwrap_or("").starts_with("Ok") {
					run.inconclusive(&format!("scenario {}: uninterrupted run of the operation failed: {}", name, v["result"]));
					continue;
				}
				// record the twin's final state in the scenario file
				let mut sv = scen_vals[i].clone();
				sv["twin_state"] = v["state"].clone();
				if v["state"]["head"].as_str() != Some(&hstr(&scens[i].new_head)) {
					run.inconclusive(&format!("scenario {}: twin head {} differs from the planned new head", name, v["state"]["head"]));
					continue;
				}
				std::fs::write(format!("{}/scen{}.json", work, i), serde_json::to_string(&sv).unwrap()).unwrap();
				let mut occ: HashMap<String, u64> = HashMap::new();
				for (k, l) in labels.iter().enumerate() {
					let o = occ.entry(l.clone()).or_insert(0);
					*o += 1;
					jobs.push(json!({"scenario": i, "crash_at": k + 1, "label": l, "occurrence": *o}));
				}
				per_scenario.push(json!({"scenario": name, "crash_points": labels.len(), "labels": occ}));
			}
		}
	}
	// interleave jobs of long and short scenarios for balance
	let mut p = Prng::new(run.seed ^ 0x900D);
	p.shuffle(&mut jobs);
	let total_jobs = jobs.len() as u64;
	std::fs::write(format!("{}/jobs.json", work), serde_json::to_string(&jobs).unwrap()).unwrap();
	run.extra("crash_points_per_scenario", json!(per_scenario));
	run.count("crash_points_enumerated", total_jobs);
	run.sample(json!({"enumeration": per_scenario}));
	run.spawn_workers(16, &["--work".to_string(), work.clone()], run.tier.pick(1500, 3000));
	drop(sc);
	run.require("scenarios_counted", per_scenario.len() as u64, 10 * worlds.len() as u64);
	run.require("crash_points_exercised == enumerated", run.counter("crash_points_exercised"), total_jobs.max(100));
	for l in [
		"lmdb.commit.pre", "lmdb.commit.post", "aof.flush.pre_append", "aof.flush.torn_append_head", "aof.flush.torn_append_tail", "aof.flush.post_sync", "aof.flush.pre_truncate",
		"aof.flush.post_truncate", "save_via_temp_file.pre_rename", "save_via_temp_file.post_rename", "aof.replace.pre_remove",
		"aof.replace.between_remove_and_rename", "aof.replace.post_rename", "aof.write_tmp_pruned.done",
	] {
		run.require(&format!("label.{}", l), run.counter(&format!("label.{}", l)), 1);
	}
	run.finish();
}
