//! C02 — every input spends an existing unspent output exactly once, on every fork.
//!
//! Oracle: `RefLedger` replay of the winning chain from genesis (plain
//! bookkeeping) + construction labels of forged blocks. Workload: random fork
//! trees with spends in all placement classes, forged UTXO-rule violations whose
//! header commitments are exactly what an honest node would compute if the spend
//! were legal, random parent-first delivery, interleaved reopen and (long
//! histories) compaction.

use grin_chain::types::Options;
use grin_chain::Chain;
use grin_core::core::hash::{Hash, Hashed};
use grin_core::core::{Inputs, OutputIdentifier};
use serde_json::json;
use std::collections::{HashMap, HashSet};
use std::sync::atomic::{AtomicU64, Ordering};
use vcommon::forktree::{gen_history, shape_sig, GenBlock, Hist, TreeCfg};
use vcommon::snapshot::{compare_with_ref, snapshot};
use vcommon::world::{init_globals, init_thread, open_chain};
use vcommon::{Prng, Run, Scratch};

/// Random topological (parent-first) order over the generated blocks.
fn delivery_order(h: &Hist, prng: &mut Prng) -> Vec<usize> {
	let g = h.genesis.hash();
	let mut delivered: HashSet<Hash> = HashSet::new();
	delivered.insert(g);
	let mut remaining: Vec<usize> = (0..h.blocks.len()).collect();
	let mut order = vec![];
	while !remaining.is_empty() {
		let ready: Vec<usize> = remaining
			.iter()
			.cloned()
			.filter(|&i| delivered.contains(&h.blocks[i].parent))
			.collect();
		let pick = *prng.pick(&ready);
		remaining.retain(|&x| x != pick);
		delivered.insert(h.blocks[pick].hash);
		order.push(pick);
	}
	order
}

struct Outcome {
	deliveries: u64,
	reorgs: u64,
	reopen: u64,
	compactions: u64,
	probes: u64,
	invalid_rejected: HashMap<String, u64>,
}

fn check_state(
	run: &Run,
	chain: &Chain,
	h: &mut Hist,
	accepted: &HashSet<Hash>,
	ctx: &str,
	replay: &serde_json::Value,
	prng: &mut Prng,
	out: &mut Outcome,
) -> bool {
	let (best, unique) = h.ledger.best_tip(accepted);
	let head = match chain.head() {
		Ok(t) => t,
		Err(e) => {
			run.violation(
				&format!("C02;{};head_unreadable", ctx),
				&format!("Chain::head failed: {:?}", e),
				replay.clone(),
			);
			return false;
		}
	};
	if unique && head.last_block_h != best {
		run.violation(
			&format!("C02;{};head_not_reference_winner", ctx),
			&format!(
				"node head {} (h {}) but replay winner {} (h {})",
				head.last_block_h,
				head.height,
				best,
				h.ledger.get(&best).height
			),
			replay.clone(),
		);
		return false;
	}
	let commits = h.all_commits();
	let snap = match snapshot(chain, &commits) {
		Ok(s) => s,
		Err(e) => {
			run.violation(
				&format!("C02;{};snapshot_failed", ctx),
				&format!("reading node state failed: {}", e),
				replay.clone(),
			);
			return false;
		}
	};
	let st = h.state(&head.last_block_h);
	if let Some(d) = compare_with_ref(&snap, &st) {
		let clause = d.split(':').next().unwrap_or("").split('(').next().unwrap_or("").trim().to_string();
		run.violation(
			&format!("C02;{};state_vs_replay;{}", ctx, clause),
			&d,
			replay.clone(),
		);
		return false;
	}
	// the Merkle proofs the node serves for unspent outputs verify against the reference output root
	match vcommon::snapshot::merkle_proof_probe(chain, &st, prng, 3) {
		Ok(n) => run.count("merkle_proofs_of_unspent_outputs_verified", n),
		Err(e) => {
			run.violation(&format!("C02;{};merkle_proof_of_unspent_output", ctx), &e, replay.clone());
			return false;
		}
	}
	// validate_inputs probes: a few unspent and a few spent / foreign coins
	let mut coins: Vec<_> = h.coins.values().cloned().collect();
	coins.sort_by(|a, b| a.commit.0.cmp(&b.commit.0));
	for _ in 0..6.min(coins.len()) {
		let c = prng.pick(&coins).clone();
		let want = st.utxo.get(&c.commit).map(|&i| st.outs[i].features == c.features()).unwrap_or(false);
		let ident = OutputIdentifier::new(c.features(), &c.commit);
		let inputs: Inputs = (&[ident][..]).into();
		let got = chain.validate_inputs(&inputs).is_ok();
		out.probes += 1;
		if got != want {
			run.violation(
				&format!("C02;{};validate_inputs_probe;node={};ref={}", ctx, got, want),
				&format!(
					"validate_inputs({:?}) says spendable={} but replayed unspent set says {}",
					c.commit, got, want
				),
				replay.clone(),
			);
			return false;
		}
	}
	// validate_tx probes ("will let transactions spend"): the transactions of the world's blocks, judged against the
	// replayed state — every input unspent here (with the features the input declares, if it declares any), no output
	// re-creating a commitment that is unspent here
	let n_blocks = h.blocks.len();
	for _ in 0..4.min(n_blocks) {
		let b = &h.blocks[prng.usize_below(n_blocks)].block;
		if b.inputs().is_empty() || !h.blocks.iter().any(|x| x.hash == b.hash() && x.verdict.is_ok()) {
			continue;
		}
		let outs: Vec<_> = b.outputs().iter().filter(|o| !o.is_coinbase()).cloned().collect();
		let kerns: Vec<_> = b.kernels().iter().filter(|k| !k.is_coinbase()).cloned().collect();
		if kerns.iter().any(|k| matches!(k.features, grin_core::core::KernelFeatures::NoRecentDuplicate { .. })) {
			continue;
		}
		let tx = grin_core::core::Transaction::new(b.inputs(), &outs, &kerns);
		let inputs_ok = vcommon::ledger::inputs_vec(&tx.inputs()).iter().all(|(c, f)| match st.utxo.get(c) {
			Some(&i) => f.map(|f| f == st.outs[i].features).unwrap_or(true),
			None => false,
		});
		let outputs_ok = outs.iter().all(|o| !st.utxo.contains_key(&o.commitment()));
		let want = inputs_ok && outputs_ok;
		let got = chain.validate_tx(&tx).is_ok();
		out.probes += 1;
		run.count(if want { "validate_tx_probes.spendable" } else if !inputs_ok { "validate_tx_probes.input_not_unspent" } else { "validate_tx_probes.output_duplicates_unspent" }, 1);
		if got != want {
			run.violation(
				&format!("C02;{};validate_tx_probe;node={};ref={};inputs_unspent={};outputs_fresh={}", ctx, got, want, inputs_ok, outputs_ok),
				&format!("validate_tx on the transaction of block {} says acceptable={} but the replayed unspent set says {} (inputs unspent: {}, outputs not duplicating an unspent commitment: {})", b.hash(), got, want, inputs_ok, outputs_ok),
				replay.clone(),
			);
			return false;
		}
	}
	// a directed probe of the rarest class: inputs that ARE unspent here, with an output that re-creates a commitment
	// that is unspent here (the output, proof included, as the block that created it carried it)
	{
		let dup = h
			.blocks
			.iter()
			.filter(|x| x.verdict.is_ok())
			.flat_map(|x| x.block.outputs().iter().cloned().collect::<Vec<_>>())
			.find(|o| !o.is_coinbase() && st.utxo.contains_key(&o.commitment()));
		let spendable = coins
			.iter()
			.find(|c| !c.coinbase && st.utxo.get(&c.commit).map(|&i| st.outs[i].features == c.features()).unwrap_or(false) && dup.as_ref().map(|o| o.commitment() != c.commit).unwrap_or(false));
		let kern = h.blocks.iter().flat_map(|x| x.block.kernels().iter().cloned().collect::<Vec<_>>()).find(|k| matches!(k.features, grin_core::core::KernelFeatures::Plain { .. }));
		if let (Some(o), Some(c), Some(k)) = (dup, spendable, kern) {
			let ident = OutputIdentifier::new(c.features(), &c.commit);
			let inputs: Inputs = (&[ident][..]).into();
			let tx = grin_core::core::Transaction::new(inputs, &[o], &[k]);
			let got = chain.validate_tx(&tx).is_ok();
			out.probes += 1;
			run.count("validate_tx_probes.output_duplicates_unspent", 1);
			if got {
				run.violation(
					&format!("C02;{};validate_tx_probe;node=true;ref=false;inputs_unspent=true;outputs_fresh=false", ctx),
					&format!("validate_tx accepts a transaction whose output {:?} re-creates a commitment that is unspent in the replayed state", tx.outputs()[0].commitment()),
					replay.clone(),
				);
				return false;
			}
		}
	}
	true
}

fn run_history(run: &Run, idx: u64, seed: u64, cfg: &TreeCfg, long: bool, sc: &Scratch) -> Outcome {
	let mut out = Outcome {
		deliveries: 0,
		reorgs: 0,
		reopen: 0,
		compactions: 0,
		probes: 0,
		invalid_rejected: HashMap::new(),
	};
	let mut h = gen_history(seed, cfg);
	let mut prng = Prng::new(seed ^ 0xC02);
	let sig = shape_sig(&h);
	let dir = sc.sub(&format!("n{}", idx));
	let mut chain = Some(open_chain(&dir, &h.genesis).expect("open chain"));
	let order = delivery_order(&h, &mut prng);
	let mut accepted: HashSet<Hash> = HashSet::new();
	let opts: Options = h.opts();
	let replay = json!({"history_seed": seed, "cfg": format!("{:?}", cfg), "long": long, "shape": sig});
	let mut prev_head = h.genesis.hash();
	let mut ok = true;
	for (n, &i) in order.iter().enumerate() {
		let gb: GenBlock = h.blocks[i].clone();
		let res = chain.as_ref().unwrap().process_block(gb.block.clone(), opts);
		out.deliveries += 1;
		// one evaluation per delivery; shape = (class, placement tags, on best chain or fork, height band, outcome)
		{
			let on_fork = chain.as_ref().unwrap().head().map(|t| t.last_block_h != gb.parent).unwrap_or(false);
			let mut tags = gb.tags.clone();
			tags.sort();
			tags.dedup();
			run.eval(
				&format!(
					"delivery;class={};tags={:?};parent_is_head={};hband={};ins={};res={}",
					gb.class,
					tags,
					!on_fork,
					gb.block.header.height / 3,
					gb.block.inputs().len().min(4),
					match &res {
						Ok(Some(_)) => "head",
						Ok(None) => "fork",
						Err(_) => "refused",
					}
				),
				true,
			);
		}
		let ctx = format!("class={}", gb.class);
		match (&gb.verdict, &res) {
			(Ok(()), Ok(_)) => {
				accepted.insert(gb.hash);
			}
			(Ok(()), Err(e)) => {
				run.violation(
					&format!("C02;{};valid_block_rejected;tags={:?}", ctx, gb.tags),
					&format!(
						"block {} at height {} valid by replay but rejected: {:?}",
						gb.hash, gb.block.header.height, e
					),
					replay.clone(),
				);
				ok = false;
			}
			(Err(r), Ok(_)) => {
				run.violation(
					&format!("C02;{};invalid_block_accepted", ctx),
					&format!(
						"block {} at height {} violates {:?} on its own ancestry but was accepted",
						gb.hash, gb.block.header.height, r
					),
					replay.clone(),
				);
				ok = false;
			}
			(Err(_), Err(_)) => {
				*out.invalid_rejected.entry(gb.class.clone()).or_insert(0) += 1;
			}
		}
		if !ok {
			break;
		}
		let c = chain.as_ref().unwrap();
		if !check_state(run, c, &mut h, &accepted, &ctx, &replay, &mut prng, &mut out) {
			ok = false;
			break;
		}
		let head = c.head().unwrap().last_block_h;
		if head != prev_head && !h.ledger.is_ancestor(&prev_head, &head) {
			out.reorgs += 1;
		}
		prev_head = head;
		// interleaved reopen
		if prng.chance(1, 7) || n + 1 == order.len() {
			chain = None;
			chain = Some(open_chain(&dir, &h.genesis).expect("reopen chain"));
			out.reopen += 1;
			if !check_state(
				run,
				chain.as_ref().unwrap(),
				&mut h,
				&accepted,
				"after_reopen",
				&replay,
				&mut prng,
				&mut out,
			) {
				ok = false;
				break;
			}
		}
		// interleaved compaction (only acts on long histories: head >= tail + 80)
		let head_h = chain.as_ref().unwrap().head().unwrap().height;
		if long && ((head_h >= 82 && out.compactions == 0) || prng.chance(1, 40)) {
			let c = chain.as_ref().unwrap();
			let tail_before = c.tail().ok().map(|t| t.height);
			match c.compact() {
				Ok(()) => {
					if c.tail().ok().map(|t| t.height) != tail_before {
						out.compactions += 1;
					}
					if !check_state(run, c, &mut h, &accepted, "after_compact", &replay, &mut prng, &mut out) {
						ok = false;
						break;
					}
				}
				Err(e) => {
					run.violation(
						"C02;compact_failed",
						&format!("Chain::compact failed: {:?}", e),
						replay.clone(),
					);
					ok = false;
					break;
				}
			}
		}
	}
	// epilogue: a valid sibling of the head that reaches EXACTLY the head's cumulative difficulty and spends something
	// the head does not (the head stays; what can be spent is still what the head's chain says), then a block built
	// elsewhere on the unchanged head, spending again
	if ok && !h.real_pow {
		let c = chain.as_ref().unwrap();
		let head = c.head().unwrap().last_block_h;
		let anc: Vec<Hash> = h.ledger.ancestry(&head).into_iter().rev().collect();
		if anc.len() >= 2 {
			let fp = anc[1];
			let gap = h.ledger.get(&head).total_difficulty - h.ledger.get(&fp).total_difficulty;
			let coins = h.spendable(&fp);
			let txs = match coins.last() {
				Some(cn) => vec![h.spend_tx(&[cn.clone()], 2, None)],
				None => vec![],
			};
			let gb = vcommon::scenarios::mk_block_txs(&mut h, &fp, &txs, gap, "tie_sibling_of_head");
			if gb.verdict.is_ok() {
				match c.process_block(gb.block.clone(), opts) {
					Ok(_) => {
						accepted.insert(gb.hash);
						run.count("tie_siblings_of_the_head_accepted", 1);
						if !txs.is_empty() {
							run.count("tie_siblings_of_the_head_accepted_with_a_spend", 1);
						}
						ok = check_state(run, c, &mut h, &accepted, "after_tie_sibling", &replay, &mut prng, &mut out);
					}
					Err(e) => {
						run.violation(
							"C02;class=tie_sibling_of_head;valid_block_rejected",
							&format!("valid sibling of the head with equal cumulative difficulty rejected: {:?}", e),
							replay.clone(),
						);
						ok = false;
					}
				}
				let now = c.head().unwrap().last_block_h;
				if ok && now == head {
					let coins = h.spendable(&head);
					let txs = match coins.first() {
						Some(cn) => vec![h.spend_tx(&[cn.clone()], 1, None)],
						None => vec![],
					};
					let nb = vcommon::scenarios::mk_block_txs(&mut h, &head, &txs, 10, "honest");
					if nb.verdict.is_ok() {
						match c.process_block(nb.block.clone(), opts) {
							Ok(_) => {
								accepted.insert(nb.hash);
								run.count("blocks_on_the_head_after_a_tie_sibling_accepted", 1);
								ok = check_state(run, c, &mut h, &accepted, "after_tie_sibling_then_next", &replay, &mut prng, &mut out);
							}
							Err(e) => {
								run.violation(
									"C02;class=next_block_after_tie_sibling;valid_block_rejected",
									&format!("valid block on the head rejected after an equal-work sibling of the head had been accepted: {:?}", e),
									replay.clone(),
								);
								ok = false;
							}
						}
					}
				}
			}
		}
	}
	if ok {
		if let Err(e) = chain.as_ref().unwrap().validate(false) {
			run.violation(
				"C02;final_validate_failed",
				&format!("Chain::validate(false) failed at the end: {:?}", e),
				replay.clone(),
			);
		}
	}
	drop(chain);
	let _ = std::fs::remove_dir_all(&dir);
	let nontrivial = out.reorgs > 0 || !out.invalid_rejected.is_empty();
	run.eval(&format!("{};reorgs={};long={}", sig, out.reorgs.min(3), long), nontrivial);
	if idx < 3 {
		run.sample(json!({
			"history_seed": seed,
			"shape": sig,
			"deliveries": out.deliveries,
			"reorgs": out.reorgs,
			"blocks": h.blocks.iter().take(12).map(|b| json!({
				"hash": b.hash.to_string(), "parent": b.parent.to_string(), "height": b.block.header.height,
				"td": b.block.header.total_difficulty().to_num(), "class": b.class, "tags": b.tags,
				"inputs": b.block.inputs().len(), "outputs": b.block.outputs().len(),
				"reference_verdict": format!("{:?}", b.verdict),
			})).collect::<Vec<_>>(),
		}));
	}
	out
}

/// Explicit scenario (compaction × reorg): the block at the head (or one below) spends complete
/// SIBLING PAIRS of old outputs, compaction runs at exactly that head, then that block is
/// reorganised away by a heavier fork that leaves those outputs unspent; later the fork spends them.
fn run_compaction_scenario(run: &Run, idx: u64, seed: u64, sc: &Scratch) -> Outcome {
	use vcommon::forktree::GenBlock;
	use vcommon::world::{Coin, PowMode};
	let mut out = Outcome {
		deliveries: 0,
		reorgs: 0,
		reopen: 0,
		compactions: 0,
		probes: 0,
		invalid_rejected: HashMap::new(),
	};
	let mut prng = Prng::new(seed ^ 0xC02C);
	let mut h = Hist::new(seed, false);
	let g = h.genesis.hash();
	let n_trunk = 82 + prng.below(6);
	let mut tip = g;
	// trunk: mostly coinbase-only blocks (consecutive coinbases are sibling leaves), a few spends
	for i in 1..=n_trunk {
		let gb = h.honest_block(&tip, if i > 10 && i % 7 == 0 { 1000 } else { 0 });
		tip = gb.hash;
	}
	// how many blocks above the fork point get reorganised away; depth 1 (compaction runs at the
	// very block that spent the pairs) is the sharpest case and always part of a run
	// ... and depth = horizon (20): the spender is then the first block above the compaction horizon and the
	// reorg goes back exactly to the horizon block (the deepest reorg that stays inside the horizon)
	let horizon = grin_core::global::cut_through_horizon() as usize;
	let depth = match (idx / 2) % 4 {
		0 => 1,
		1 => horizon,
		2 => 1 + prng.usize_below(3),
		_ => *prng.pick(&[1usize, 2, horizon - 1, horizon]),
	};
	// sibling pairs among old unspent outputs with known openings
	let pairs: Vec<(Coin, Coin)> = {
		let st = h.state(&tip);
		let mut v = vec![];
		let mut k = 0usize;
		while 2 * k + 1 < st.outs.len() {
			let (a, b) = (&st.outs[2 * k], &st.outs[2 * k + 1]);
			if a.spent_at.is_none() && b.spent_at.is_none() && a.height <= 40 && b.height <= 40 {
				if let (Some(ca), Some(cb)) = (h.coins.get(&a.commit.0.to_vec()), h.coins.get(&b.commit.0.to_vec())) {
					if st.utxo.contains_key(&a.commit) && st.utxo.contains_key(&b.commit) {
						v.push((ca.clone(), cb.clone()));
					}
				}
			}
			k += 1;
		}
		v
	};
	let sig = format!("compaction_scenario;trunk={};pairs={};depth={}", n_trunk, pairs.len().min(3), depth);
	let replay = json!({"scenario": "compact_at_head_spending_sibling_pairs_then_reorg", "seed": seed, "trunk": n_trunk, "depth": depth});
	if pairs.is_empty() {
		run.inconclusive("compaction scenario: no unspent sibling pair of old outputs in the world");
		return out;
	}
	let n_pairs = 1 + prng.usize_below(pairs.len().min(2));
	let mut spend: Vec<Coin> = vec![];
	for (a, b) in pairs.iter().take(n_pairs) {
		spend.push(a.clone());
		spend.push(b.clone());
	}
	let mk = |h: &mut Hist, parent: &grin_core::core::hash::Hash, coins: &[Coin], difficulty: u64| -> GenBlock {
		let txs = if coins.is_empty() { vec![] } else { vec![h.spend_tx(coins, 1, None)] };
		let k = h.fresh_key();
		let w = h.world.clone();
		let mut p = h.prng.fork(41);
		let b = h
			.ledger
			.make_block(&w, &mut p, parent, &txs, &k, PowMode::Skip { difficulty }, 60)
			.expect("block");
		let fees: u64 = txs.iter().map(|t| t.fee()).sum();
		let cb = w.coin(grin_core::consensus::reward(fees), &k, true);
		h.coins.insert(cb.commit.0.to_vec(), cb);
		let st = h.ledger.state_at(parent);
		let verdict = st.check_block(&b);
		let gb = GenBlock { hash: b.hash(), parent: *parent, block: b, verdict, class: "honest".into(), tags: vec!["spend_sibling_pair_of_old_outputs".into()] };
		h.blocks.push(gb.clone());
		gb
	};
	// the spending block sits `depth` blocks above the fork point: first the spender, then fillers
	let fork_point = tip;
	let spender = mk(&mut h, &fork_point, &spend, 10);
	let mut main_tip = spender.hash;
	let mut main_blocks = vec![spender];
	for _ in 1..depth {
		let b = mk(&mut h, &main_tip, &[], 10);
		main_tip = b.hash;
		main_blocks.push(b);
	}
	// competing fork from the fork point that does not spend the pairs, with more work
	let fork1 = mk(&mut h, &fork_point, &[], 10 * depth as u64 + 25);
	// and later spends them again on the fork
	let fork2 = mk(&mut h, &fork1.hash, &spend, 10);
	let dir = sc.sub(&format!("cs{}", idx));
	let mut chain = Some(open_chain(&dir, &h.genesis).expect("open chain"));
	let mut accepted: HashSet<Hash> = HashSet::new();
	let opts = h.opts();
	let trunk_blocks: Vec<GenBlock> = h.blocks.iter().filter(|b| h.ledger.is_ancestor(&b.hash, &fork_point)).cloned().collect();
	let mut ok = true;
	let mut step = |chain: &Chain, gb: &GenBlock, h: &mut Hist, accepted: &mut HashSet<Hash>, out: &mut Outcome, what: &str, full: bool, prng: &mut Prng| -> bool {
		out.deliveries += 1;
		match chain.process_block(gb.block.clone(), opts) {
			Ok(_) => {
				accepted.insert(gb.hash);
			}
			Err(e) => {
				run.violation(
					&format!("C02;compaction_scenario;valid_block_rejected;{}", what),
					&format!("block {} (h {}) valid by replay but rejected: {:?}", gb.hash, gb.block.header.height, e),
					replay.clone(),
				);
				return false;
			}
		}
		if full {
			check_state(run, chain, h, accepted, &format!("compaction_scenario;{}", what), &replay, prng, out)
		} else {
			true
		}
	};
	for (i, gb) in trunk_blocks.iter().enumerate() {
		let full = i % 20 == 19;
		if !step(chain.as_ref().unwrap(), gb, &mut h, &mut accepted, &mut out, "trunk", full, &mut prng) {
			ok = false;
			break;
		}
	}
	for gb in &main_blocks {
		if !ok {
			break;
		}
		ok = step(chain.as_ref().unwrap(), gb, &mut h, &mut accepted, &mut out, "spender_branch", true, &mut prng);
	}
	// every second scenario: the headers of the competing (heavier) fork are known before the compaction, so the
	// header chain's head sits on another fork than the body head while the node compacts
	let headers_first = idx % 2 == 1;
	if ok && headers_first {
		let c = chain.as_ref().unwrap();
		for gb in [&fork1, &fork2] {
			if let Err(e) = c.process_block_header(&gb.block.header, opts) {
				run.violation(
					"C02;compaction_scenario;valid_header_rejected",
					&format!("header of fork block {} rejected: {:?}", gb.hash, e),
					replay.clone(),
				);
				ok = false;
			}
		}
		run.count("compaction_scenarios_with_header_chain_on_the_competing_fork", 1);
	}
	if ok {
		let c = chain.as_ref().unwrap();
		let tail_before = c.tail().ok().map(|t| t.height);
		match c.compact() {
			Ok(()) => {
				if c.tail().ok().map(|t| t.height) != tail_before {
					out.compactions += 1;
				}
				ok = check_state(run, c, &mut h, &accepted, "compaction_scenario;after_compact", &replay, &mut prng, &mut out);
			}
			Err(e) => {
				run.violation("C02;compaction_scenario;compact_failed", &format!("{:?}", e), replay.clone());
				ok = false;
			}
		}
	}
	if ok && prng.bool() {
		chain = None;
		chain = Some(open_chain(&dir, &h.genesis).expect("reopen"));
		out.reopen += 1;
	}
	if ok {
		ok = step(chain.as_ref().unwrap(), &fork1, &mut h, &mut accepted, &mut out, "reorg_away_the_spender", true, &mut prng);
		out.reorgs += 1;
	}
	if ok {
		ok = step(chain.as_ref().unwrap(), &fork2, &mut h, &mut accepted, &mut out, "fork_spends_the_pairs_again", true, &mut prng);
	}
	if ok {
		chain = None;
		chain = Some(open_chain(&dir, &h.genesis).expect("reopen"));
		out.reopen += 1;
		ok = check_state(run, chain.as_ref().unwrap(), &mut h, &accepted, "compaction_scenario;after_reopen", &replay, &mut prng, &mut out);
	}
	if ok {
		if let Err(e) = chain.as_ref().unwrap().validate(false) {
			run.violation("C02;compaction_scenario;final_validate_failed", &format!("validate(false): {:?}", e), replay.clone());
		}
	}
	drop(chain);
	let _ = std::fs::remove_dir_all(&dir);
	run.eval(&sig, true);
	run.count("compaction_at_spending_head_scenarios", 1);
	out
}

fn main() {
	let run = Run::from_env("C02", "exploration");
	init_globals(true);
	let san = run.args.iter().any(|a| a == "--san");
	let n_hist: u64 = if san { 4 } else { run.tier.pick(32, 320) };
	let n_long: u64 = if san { 0 } else { run.tier.pick(4, 16) };
	let threads = 16u64;
	let sc = Scratch::new("c02");
	run.set_rule(
		"history = random fork tree (trunk 5, ≤3 branches of depth ≤6 from random fork points, SKIP_POW blocks with pairwise \
		 distinct total difficulties) built by the reference ledger, blocks carry 0-2 transactions spending random matured \
		 coinbases / plain outputs of their own ancestry (so the same output gets spent on several forks, outputs are created \
		 and spent on forks that later lose or win), 1/4 of spends re-create a previously spent commitment; + forged leaves \
		 (double spend, never-created, fork-foreign, duplicate unspent commitment) with reference-computed header commitments; \
		 delivered parent-first in a random order, reopen with p=1/7, long histories (≥85 blocks) with Chain::compact. After \
		 every delivery: accept/reject vs reference verdict, head vs reference winner, full unspent set (get_unspent over every \
		 commitment ever created + unspent_outputs_by_pmmr_index), roots and sizes vs replay from genesis, validate_inputs probes. \
		 One evaluation per block delivery (distinct by class, spend-placement tags, whether the parent is the current head, \
		 height band, number of inputs, outcome) plus one per history (distinct by fork heights, max height, class multiset, \
		 placement tags, reorg count class; non-trivial if it had ≥1 reorg or ≥1 forged block).",
	);
	run.assume("secp256k1-zkp and blake2b are trusted; SKIP_POW delivery (PoW and difficulty rules are C04's)");
	let deliveries = AtomicU64::new(0);
	let reorgs = AtomicU64::new(0);
	let reopen = AtomicU64::new(0);
	let compactions = AtomicU64::new(0);
	let probes = AtomicU64::new(0);
	let inv = std::sync::Mutex::new(HashMap::<String, u64>::new());
	let next = AtomicU64::new(0);
	let total = n_hist + n_long;
	let deadline_s = if san { 600.0 } else { run.tier.pick(400.0, 1200.0) };
	std::thread::scope(|s| {
		for _ in 0..threads {
			s.spawn(|| {
				init_thread(true);
				loop {
					let i = next.fetch_add(1, Ordering::SeqCst);
					if i >= total || run.elapsed_s() > deadline_s {
						break;
					}
					let long = i >= n_hist;
					let mut cfg = TreeCfg::small();
					let mut p = Prng::new(run.seed.wrapping_mul(0x9E37_79B9).wrapping_add(i));
					if long {
						cfg.trunk = 85 + p.usize_below(10);
						cfg.branches = 2;
						cfg.max_depth = 12;
						cfg.tx_per_mille = 250;
						cfg.n_invalid = 3;
						cfg.fork_window = Some(8);
					} else {
						cfg.trunk = 4 + p.usize_below(4);
						cfg.branches = 1 + p.usize_below(3);
						cfg.max_depth = 2 + p.usize_below(7);
						cfg.n_invalid = 2 + p.usize_below(4);
					}
					let o = if long && (i - n_hist) % 2 == 1 {
						run_compaction_scenario(&run, i, p.next_u64(), &sc)
					} else {
						run_history(&run, i, p.next_u64(), &cfg, long, &sc)
					};
					deliveries.fetch_add(o.deliveries, Ordering::SeqCst);
					reorgs.fetch_add(o.reorgs, Ordering::SeqCst);
					reopen.fetch_add(o.reopen, Ordering::SeqCst);
					compactions.fetch_add(o.compactions, Ordering::SeqCst);
					probes.fetch_add(o.probes, Ordering::SeqCst);
					let mut m = inv.lock().unwrap();
					for (k, v) in o.invalid_rejected {
						*m.entry(k).or_insert(0) += v;
					}
				}
			});
		}
	});
	// compaction x reorg where the spent sibling pairs were created in the very block that is the compaction horizon
	// (and one block above / below it): shared scenario, after every step the node is compared with the replayed reference
	std::thread::scope(|s| {
		let variants: Vec<(usize, bool, i64)> = if run.tier.name() == "thorough" {
			vec![(2, false, 0), (5, true, 0), (19, false, 0), (3, false, 1), (3, false, -1), (1, true, 0)]
		} else {
			vec![(2, false, 0), (7, true, 0), (3, false, 1)]
		};
		for (vi, (depth, headers_first, at)) in variants.into_iter().enumerate() {
			let run = &run;
			let sc = &sc;
			s.spawn(move || {
				init_thread(true);
				let dir = sc.sub(&format!("hz{}", vi));
				let seed = run.seed ^ (0xC02E + vi as u64).wrapping_mul(0x9E37_79B9_7F4A_7C15);
				match vcommon::monitor::catch(|| vcommon::scenarios::compaction_reorg_scenario_opts(seed, depth, &dir, headers_first, Some(at))) {
					Ok(Ok(st)) => {
						run.count("compaction_scenarios_with_pairs_created_at_the_horizon_block", 1);
						run.count("compaction_scenarios.old_outputs_whose_sibling_was_pruned_before", st.half_pairs_spent as u64);
						run.count("compaction_scenarios.followers_brought_up_from_the_state_archive", st.follower_state_syncs);
						run.count("block_deliveries_checked", st.blocks_delivered);
						run.eval(&format!("compaction_scenario;pairs_at_horizon{:+};depth={};headers_first={}", at, depth, headers_first), true);
					}
					Ok(Err((clause, what, replay))) => {
						if clause == "inconclusive" {
							run.inconclusive(&what);
						} else {
							run.violation(&format!("C02;compaction_scenario;pairs_at_horizon;{}", clause), &what, replay);
						}
					}
					Err(p) => run.violation(
						&format!("C02;compaction_scenario;pairs_at_horizon;panic@{}", p.location),
						&p.message,
						json!({"depth": depth, "headers_first": headers_first, "pairs_created_relative_to_horizon": at}),
					),
				}
				let _ = std::fs::remove_dir_all(&dir);
			});
		}
	});
	let d = deliveries.load(Ordering::SeqCst);
	run.count("block_deliveries_checked", d);
	run.count("reorgs_observed", reorgs.load(Ordering::SeqCst));
	run.count("reopen_checks", reopen.load(Ordering::SeqCst));
	run.count("compactions_that_moved_tail", compactions.load(Ordering::SeqCst));
	run.count("validate_inputs_probes", probes.load(Ordering::SeqCst));
	let m = inv.lock().unwrap();
	for (k, v) in m.iter() {
		run.count(&format!("forged_rejected.{}", k), *v);
	}
	if !san {
		run.require("block_deliveries_checked", d, run.tier.pick(200, 2000));
		run.require("reorgs_observed", reorgs.load(Ordering::SeqCst), run.tier.pick(10, 100));
		run.require("equal-work siblings of the head carrying a spend, accepted with the state unchanged", run.counter("tie_siblings_of_the_head_accepted_with_a_spend"), run.tier.pick(10, 100));
		run.require("blocks on the head accepted after an equal-work sibling", run.counter("blocks_on_the_head_after_a_tie_sibling_accepted"), run.tier.pick(10, 100));
		run.require("validate_tx_probes.spendable", run.counter("validate_tx_probes.spendable"), run.tier.pick(40, 400));
		run.require("validate_tx_probes.input_not_unspent", run.counter("validate_tx_probes.input_not_unspent"), run.tier.pick(150, 1500));
		run.require("validate_tx_probes.output_duplicates_unspent", run.counter("validate_tx_probes.output_duplicates_unspent"), run.tier.pick(3, 30));
		for k in ["double_spend", "spend_never_created", "spend_fork_foreign", "duplicate_unspent_commitment"] {
			run.require(&format!("forged_rejected.{}", k), *m.get(k).unwrap_or(&0), run.tier.pick(3, 30));
		}
		run.require("compactions_that_moved_tail", compactions.load(Ordering::SeqCst), 2);
		run.require("compaction_at_spending_head_scenarios", run.counter("compaction_at_spending_head_scenarios"), run.tier.pick(2, 8));
		run.require("followers brought up from the state archive of the subject, then fed the blocks above it", run.counter("compaction_scenarios.followers_brought_up_from_the_state_archive"), run.tier.pick(2, 4));
		run.require("compaction scenarios with the spent pairs created at the horizon block", run.counter("compaction_scenarios_with_pairs_created_at_the_horizon_block"), run.tier.pick(3, 6));
		run.require(
			"old outputs spent inside the horizon window whose sibling was pruned long before",
			run.counter("compaction_scenarios.old_outputs_whose_sibling_was_pruned_before"),
			run.tier.pick(1, 3),
		);
	}
	drop(m);
	drop(sc);
	run.finish();
}
