//! C16 — State segments are sound and state sync reproduces the validated state.
//!
//! Part (a), store level: random prunable / non-prunable `PMMRBackend`s driven through the
//! store's usage protocol (appends, prunes, rewinds, `check_compact` at earlier block
//! boundaries with the rewind bitmap, reopen) with an unpruned reference leaf history;
//! at an "archive point" A (a block boundary at or above every compaction cutoff) every
//! `(height 0..=6, idx)` segment is produced through `Segment::from_pmmr` on a
//! `ReadonlyPMMR` of A's size and must validate against the root of `RefMMR` over the
//! full leaf history; every single-element corruption of a part the root depends on
//! (decided by an independent reference analysis of the segment, not by the code under
//! test) must make validation fail.
//!
//! Part (b), chain level: source chains built with `forktree::Hist`, served through
//! `Chain::segmenter()`; headers-only receivers assemble the state through
//! `Chain::desegmenter()` with lowered segment heights in shuffled / duplicated /
//! interleaved arrival orders, or through the zip archive; the result is compared with
//! the source when it was at the archive header (the full-sync twin), with the replayed
//! reference ledger, and — after delivering the remaining blocks — with the source tip.
//!
//! Part (c): hostile segments (part (a)'s operators on real chain segments, segments of
//! a same-shape fork, segments for another archive header, redundant extra hashes) and
//! hostile archives mixed with honest material: the receiver must never finalise a state
//! that differs from the archive header's, and honest material must still succeed.

use croaring::Bitmap;
use grin_chain::txhashset::{BitmapChunk, BitmapSegment, Desegmenter};
use grin_chain::types::Options;
use grin_chain::{Chain, SyncState};
use grin_core::core::hash::{DefaultHashable, Hash, Hashed};
use grin_core::core::pmmr::{ReadablePMMR, ReadonlyPMMR, PMMR};
use grin_core::core::{
	BlockHeader, KernelFeatures, OutputFeatures, OutputIdentifier, Segment, SegmentError,
	SegmentIdentifier, SegmentProof, Transaction, TxKernel,
};
use grin_core::ser::{
	self, DeserializationMode, Error as SerError, PMMRIndexHashable, PMMRable, ProtocolVersion,
	Readable, Reader, Writeable, Writer,
};
use grin_store::pmmr::PMMRBackend;
use grin_util::secp::pedersen::RangeProof;
use grin_util::StopState;
use serde_json::{json, Value};
use std::collections::{BTreeMap, BTreeSet, HashMap};
use std::fmt::Debug;
use std::sync::Arc;
use std::time::Instant;
use vcommon::forktree::{GenBlock, Hist};
use vcommon::ledger::RefState;
use vcommon::monitor::catch;
use vcommon::refmmr::RefMMR;
use vcommon::snapshot::{compare_with_ref, snapshot, Snap};
use vcommon::world::{fee_fields, init_globals, init_thread, open_chain, Coin, PowMode};
use vcommon::{Prng, Run, Scratch};

// ===================================================================== small helpers

fn pv() -> ProtocolVersion {
	ProtocolVersion::local()
}

fn ser_bytes<T: Writeable>(t: &T) -> Vec<u8> {
	ser::ser_vec(t, pv()).expect("ser_vec")
}

fn deser<T: Readable>(bytes: &[u8]) -> Result<T, SerError> {
	ser::deserialize(&mut &bytes[..], pv(), DeserializationMode::default())
}

fn flip_hash(h: &Hash, p: &mut Prng) -> Hash {
	let mut b = h.to_vec();
	let k = p.usize_below(b.len());
	b[k] ^= 1 << p.below(8);
	Hash::from_vec(&b)
}

fn proof_hashes(p: &SegmentProof) -> Vec<Hash> {
	let b = ser_bytes(p);
	let n = u64::from_be_bytes(b[0..8].try_into().unwrap()) as usize;
	(0..n).map(|i| Hash::from_vec(&b[8 + 32 * i..8 + 32 * (i + 1)])).collect()
}

fn make_proof(hs: &[Hash]) -> SegmentProof {
	let mut b = (hs.len() as u64).to_be_bytes().to_vec();
	for h in hs {
		b.extend_from_slice(&h.to_vec());
	}
	deser::<SegmentProof>(&b).expect("proof from bytes")
}

fn ceil_div(a: u64, b: u64) -> u64 {
	(a + b - 1) / b
}

fn hclass(h: u8) -> String {
	format!("h{}", h)
}

fn err_class<E: Debug>(e: &E) -> String {
	let s = format!("{:?}", e);
	let cut = s.find(|c: char| c == '(' || c == '{' || c == ' ').unwrap_or(s.len());
	s[..cut].to_string()
}

/// Location of a panic relative to the repository root (stable across scratch copies).
fn rel_loc(loc: &str) -> String {
	for root in ["chain/src/", "core/src/", "store/src/", "util/src/", "keychain/src/", "pool/src/"] {
		if let Some(i) = loc.find(root) {
			return loc[i..].to_string();
		}
	}
	loc.to_string()
}

// ===================================================================== data mutation

/// A datum that can be changed into another valid value with a different hash.
trait Datum: Clone {
	fn mutated(&self, p: &mut Prng) -> Self;
	fn bytes(&self) -> Vec<u8>;
}

impl Datum for OutputIdentifier {
	fn mutated(&self, p: &mut Prng) -> Self {
		let mut o = *self;
		if p.chance(1, 3) {
			o.features = match o.features {
				OutputFeatures::Plain => OutputFeatures::Coinbase,
				OutputFeatures::Coinbase => OutputFeatures::Plain,
			};
		} else {
			let k = 1 + p.usize_below(32);
			o.commit.0[k] ^= 1 << p.below(8);
		}
		o
	}
	fn bytes(&self) -> Vec<u8> {
		ser_bytes(self)
	}
}

impl Datum for RangeProof {
	fn mutated(&self, p: &mut Prng) -> Self {
		let mut r = *self;
		let k = p.usize_below(r.plen.max(1));
		r.proof[k] ^= 1 << p.below(8);
		r
	}
	fn bytes(&self) -> Vec<u8> {
		ser_bytes(self)
	}
}

impl Datum for TxKernel {
	fn mutated(&self, p: &mut Prng) -> Self {
		let mut k = *self;
		let i = 1 + p.usize_below(32);
		k.excess.0[i] ^= 1 << p.below(8);
		k
	}
	fn bytes(&self) -> Vec<u8> {
		ser_bytes(self)
	}
}

impl Datum for BitmapChunk {
	fn mutated(&self, p: &mut Prng) -> Self {
		let mut c = self.clone();
		let i = p.below(1024);
		let set = self.set_iter(0).any(|x| x as u64 == i);
		c.set(i, !set);
		c
	}
	fn bytes(&self) -> Vec<u8> {
		ser_bytes(self)
	}
}

// ===================================================================== store elements

trait Elem: PMMRable<E = Self> + Datum + PartialEq + Debug + Readable + Writeable + PMMRIndexHashable + Send + Sync + 'static {
	fn gen(p: &mut Prng, serial: u64) -> Self;
}

/// Fixed-size element, 13 bytes.
#[derive(Clone, Debug, PartialEq, Eq)]
struct FixElem {
	serial: u64,
	salt: u32,
	tag: u8,
}

impl DefaultHashable for FixElem {}

impl Writeable for FixElem {
	fn write<W: Writer>(&self, w: &mut W) -> Result<(), SerError> {
		w.write_u64(self.serial)?;
		w.write_u32(self.salt)?;
		w.write_u8(self.tag)
	}
}

impl Readable for FixElem {
	fn read<R: Reader>(r: &mut R) -> Result<FixElem, SerError> {
		Ok(FixElem {
			serial: r.read_u64()?,
			salt: r.read_u32()?,
			tag: r.read_u8()?,
		})
	}
}

impl PMMRable for FixElem {
	type E = Self;
	fn as_elmt(&self) -> Self {
		self.clone()
	}
	fn elmt_size() -> Option<u16> {
		Some(13)
	}
}

impl Datum for FixElem {
	fn mutated(&self, p: &mut Prng) -> Self {
		let mut e = self.clone();
		match p.below(3) {
			0 => e.serial ^= 1 << p.below(64),
			1 => e.salt ^= 1 << p.below(32),
			_ => e.tag ^= 1 << p.below(8),
		}
		e
	}
	fn bytes(&self) -> Vec<u8> {
		ser_bytes(self)
	}
}

impl Elem for FixElem {
	fn gen(p: &mut Prng, serial: u64) -> Self {
		FixElem {
			serial,
			salt: p.next_u32(),
			tag: (serial % 251) as u8,
		}
	}
}

/// Variable-size element (size file): one length byte + 1..=40 payload bytes.
#[derive(Clone, Debug, PartialEq, Eq)]
struct VarElem(Vec<u8>);

impl DefaultHashable for VarElem {}

impl Writeable for VarElem {
	fn write<W: Writer>(&self, w: &mut W) -> Result<(), SerError> {
		w.write_u8(self.0.len() as u8)?;
		w.write_fixed_bytes(&self.0)
	}
}

impl Readable for VarElem {
	fn read<R: Reader>(r: &mut R) -> Result<VarElem, SerError> {
		let n = r.read_u8()? as usize;
		Ok(VarElem(r.read_fixed_bytes(n)?))
	}
}

impl PMMRable for VarElem {
	type E = Self;
	fn as_elmt(&self) -> Self {
		self.clone()
	}
	fn elmt_size() -> Option<u16> {
		None
	}
}

impl Datum for VarElem {
	fn mutated(&self, p: &mut Prng) -> Self {
		let mut e = self.clone();
		let k = p.usize_below(e.0.len());
		e.0[k] ^= 1 << p.below(8);
		e
	}
	fn bytes(&self) -> Vec<u8> {
		ser_bytes(self)
	}
}

impl Elem for VarElem {
	fn gen(p: &mut Prng, serial: u64) -> Self {
		let n = p.range(8, 40) as usize;
		let mut v = p.bytes(n);
		for (i, b) in serial.to_le_bytes().iter().enumerate() {
			v[i] = *b;
		}
		VarElem(v)
	}
}

// ===================================================================== reference tree

/// `RefMMR` plus, per node, the inclusive range of leaf indices below it.
struct RefTree {
	m: RefMMR,
	lo: Vec<u64>,
	hi: Vec<u64>,
}

impl RefTree {
	fn new(m: RefMMR) -> RefTree {
		let n = m.nodes.len();
		let mut lo = vec![0u64; n];
		let mut hi = vec![0u64; n];
		for i in 0..n {
			let nd = &m.nodes[i];
			if let Some(li) = nd.leaf_idx {
				lo[i] = li;
				hi[i] = li;
			} else {
				lo[i] = lo[nd.left.unwrap()];
				hi[i] = hi[nd.right.unwrap()];
			}
		}
		RefTree { m, lo, hi }
	}
	fn n_leaves(&self) -> u64 {
		self.m.n_leaves()
	}
	fn size(&self) -> u64 {
		self.m.size()
	}
	/// h-th ancestor of leaf `li`, if it exists.
	fn anc(&self, li: u64, h: u8) -> Option<usize> {
		let mut cur = self.m.leaf_pos[li as usize];
		for _ in 0..h {
			cur = self.m.nodes[cur].parent?;
		}
		Some(cur)
	}
	fn peak_index_of(&self, node: usize) -> (usize, usize) {
		// (depth below its peak, index of the peak)
		let mut cur = node;
		let mut d = 0;
		while let Some(p) = self.m.nodes[cur].parent {
			cur = p;
			d += 1;
		}
		(d, self.m.peaks.iter().position(|&x| x == cur).expect("peak"))
	}
}

/// What the reference says about one segment: which parts its root depends on.
#[derive(Clone, Debug, Default)]
struct SegInfo {
	lo: u64,
	hi: u64, // exclusive
	full: bool,
	/// positions of leaves whose hash feeds the root
	required: BTreeSet<u64>,
	/// positions of leaves in range that the bitmap marks unspent (all leaves if non-prunable)
	marked: BTreeSet<u64>,
	/// positions of hashes the reconstruction needs from the segment's hash list
	needed_hash: BTreeSet<u64>,
	/// number of proof hashes consumed
	proof_len: usize,
	/// reference cannot explain how this segment validates (needed element absent)
	broken: Option<String>,
	/// fully pruned full segment: position of the ancestor hash that stands for it
	pruned_anchor: Option<u64>,
}

fn leaf_range(n_leaves: u64, h: u8, idx: u64) -> Option<(u64, u64)> {
	if h >= 63 {
		return None;
	}
	let cap = 1u64 << h;
	let lo = idx.checked_mul(cap)?;
	if lo >= n_leaves {
		return None;
	}
	Some((lo, (lo + cap).min(n_leaves)))
}

fn walk(t: &RefTree, node: usize, is_req: &dyn Fn(u64) -> bool, required: &mut BTreeSet<u64>, needed: &mut BTreeSet<u64>) -> bool {
	let nd = &t.m.nodes[node];
	if let Some(li) = nd.leaf_idx {
		let r = is_req(li);
		if r {
			required.insert(node as u64);
		}
		return r;
	}
	let (l, r) = (nd.left.unwrap(), nd.right.unwrap());
	let vl = walk(t, l, is_req, required, needed);
	let vr = walk(t, r, is_req, required, needed);
	match (vl, vr) {
		(false, false) => false,
		(true, true) => true,
		(false, true) => {
			needed.insert(l as u64);
			true
		}
		(true, false) => {
			needed.insert(r as u64);
			true
		}
	}
}

/// Reference analysis of segment (h, idx) of the MMR `t` under the unspent-leaf bitmap `bm`
/// (`None`: non-prunable, every leaf is required). `hash_pos`: the positions of the hashes the
/// segment carries (only used to resolve the fully-pruned case, where the first available
/// ancestor hash stands for the segment).
fn analyze(t: &RefTree, bm: Option<&Bitmap>, h: u8, idx: u64, hash_pos: &[u64]) -> Option<SegInfo> {
	let n = t.n_leaves();
	let (lo, hi) = leaf_range(n, h, idx)?;
	let full = hi - lo == (1u64 << h);
	let last_pos = t.size() - 1;
	let is_req = |li: u64| -> bool {
		match bm {
			None => true,
			Some(b) => {
				if b.contains(li as u32) {
					return true;
				}
				let node = t.m.leaf_pos[li as usize];
				if node as u64 == last_pos {
					return true;
				}
				match t.m.nodes[node].parent {
					None => true,
					Some(p) => {
						let pn = &t.m.nodes[p];
						let sib = if pn.left == Some(node) { pn.right.unwrap() } else { pn.left.unwrap() };
						match t.m.nodes[sib].leaf_idx {
							Some(si) => b.contains(si as u32),
							None => false,
						}
					}
				}
			}
		}
	};
	let mut info = SegInfo {
		lo,
		hi,
		full,
		..Default::default()
	};
	for li in lo..hi {
		if bm.map(|b| b.contains(li as u32)).unwrap_or(true) {
			info.marked.insert(t.m.leaf_pos[li as usize] as u64);
		}
	}
	if full {
		let root = t.anc(lo, h)?;
		let v = walk(t, root, &is_req, &mut info.required, &mut info.needed_hash);
		let mut start = root;
		if !v {
			// fully pruned: the first carried hash on the way up through all-spent ancestors
			let mut cur = root;
			let mut found = None;
			loop {
				if hash_pos.contains(&(cur as u64)) {
					found = Some(cur);
					break;
				}
				match t.m.nodes[cur].parent {
					None => break,
					Some(p) => {
						let card = bm.map(|b| b.range_cardinality(t.lo[p] as u32..(t.hi[p] + 1) as u32)).unwrap_or(1);
						if card > 0 {
							break;
						}
						cur = p;
					}
				}
			}
			match found {
				Some(q) => {
					info.needed_hash.insert(q as u64);
					info.pruned_anchor = Some(q as u64);
					start = q;
				}
				None => info.broken = Some("fully pruned segment without a usable ancestor hash".into()),
			}
		}
		let (depth, pk) = t.peak_index_of(start);
		info.proof_len = depth + if pk + 1 < t.m.peaks.len() { 1 } else { 0 } + pk;
	} else {
		let mut first_pk = None;
		for (k, &pk) in t.m.peaks.iter().enumerate() {
			if t.lo[pk] >= lo {
				if first_pk.is_none() {
					first_pk = Some(k);
				}
				let v = walk(t, pk, &is_req, &mut info.required, &mut info.needed_hash);
				if !v {
					info.needed_hash.insert(pk as u64);
				}
			}
		}
		info.proof_len = first_pk.unwrap_or(0);
	}
	Some(info)
}

// ===================================================================== corruption operators

struct Corrupted<T> {
	class: &'static str,
	/// the statement requires validation to fail
	must_fail: bool,
	seg: Segment<T>,
}

const MUST_FAIL_CLASSES: [&str; 10] = [
	"leaf_datum",
	"leaf_data_swapped",
	"leaf_pos",
	"needed_hash",
	"proof_hash",
	"omit_unspent_leaf",
	"proof_truncated",
	"proof_extended",
	"id_idx",
	"id_height",
];

fn rebuild<T>(
	id: SegmentIdentifier,
	hp: Vec<u64>,
	hs: Vec<Hash>,
	lp: Vec<u64>,
	ld: Vec<T>,
	pr: SegmentProof,
) -> Option<Segment<T>> {
	catch(move || Segment::from_parts(id, hp, hs, lp, ld, pr)).ok()
}

/// Single-element corruptions of `seg`; `per_class` bounds the variants per class.
fn corruptions<T: Datum>(seg: &Segment<T>, info: &SegInfo, t: &RefTree, bm: Option<&Bitmap>, p: &mut Prng, per_class: usize) -> Vec<Corrupted<T>> {
	let mut out = vec![];
	let (id, hp, hs, lp, ld, pr) = seg.clone().parts();
	let prh = proof_hashes(&pr);
	let n = t.n_leaves();
	let mut push = |class: &'static str, must_fail: bool, s: Option<Segment<T>>| {
		if let Some(seg) = s {
			out.push(Corrupted { class, must_fail, seg });
		}
	};
	let req_idx: Vec<usize> = (0..lp.len()).filter(|&j| info.required.contains(&lp[j])).collect();
	let nonreq_idx: Vec<usize> = (0..lp.len()).filter(|&j| !info.required.contains(&lp[j])).collect();
	let pick_some = |v: &Vec<usize>, p: &mut Prng| -> Vec<usize> {
		let mut w = v.clone();
		p.shuffle(&mut w);
		w.truncate(per_class);
		w
	};
	// leaf datum changed
	for j in pick_some(&req_idx, p) {
		let mut d = ld.clone();
		d[j] = d[j].mutated(p);
		if d[j].bytes() != ld[j].bytes() {
			push("leaf_datum", true, rebuild(id, hp.clone(), hs.clone(), lp.clone(), d, pr.clone()));
		}
	}
	for j in pick_some(&nonreq_idx, p).into_iter().take(1) {
		let mut d = ld.clone();
		d[j] = d[j].mutated(p);
		push("redundant_leaf_datum", false, rebuild(id, hp.clone(), hs.clone(), lp.clone(), d, pr.clone()));
	}
	// data of two required leaves swapped (each datum under the other's position)
	if req_idx.len() >= 2 {
		for _ in 0..per_class.min(2) {
			let a = *p.pick(&req_idx);
			let b = *p.pick(&req_idx);
			if a != b && ld[a].bytes() != ld[b].bytes() {
				let mut d = ld.clone();
				d.swap(a, b);
				push("leaf_data_swapped", true, rebuild(id, hp.clone(), hs.clone(), lp.clone(), d, pr.clone()));
			}
		}
	}
	// leaf position changed to another valid leaf position (order kept)
	for j in pick_some(&req_idx, p) {
		let lo_b = if j == 0 { None } else { Some(lp[j - 1]) };
		let hi_b = lp.get(j + 1).cloned();
		// candidate leaf positions: leaves of the MMR and the two that would come next
		let mut cands: Vec<u64> = vec![];
		let li = t.m.nodes[lp[j] as usize].leaf_idx.unwrap_or(0);
		let from = li.saturating_sub(6);
		for c in from..(li + 7).min(n) {
			cands.push(t.m.leaf_pos[c as usize] as u64);
		}
		if li + 7 > n {
			// positions of the next leaves an MMR of this size would get
			let mut ext = t.m.clone();
			for _ in 0..2 {
				cands.push(ext.push_leaf_hash(Hash::from_vec(&[7u8; 32])));
			}
		}
		cands.retain(|&c| c != lp[j] && lo_b.map(|l| c > l).unwrap_or(true) && hi_b.map(|h| c < h).unwrap_or(true) && c != 0);
		if !cands.is_empty() {
			let mut l2 = lp.clone();
			l2[j] = *p.pick(&cands);
			push("leaf_pos", true, rebuild(id, hp.clone(), hs.clone(), l2, ld.clone(), pr.clone()));
		}
	}
	// needed hash flipped / redundant hash flipped
	let needed_idx: Vec<usize> = (0..hp.len()).filter(|&j| info.needed_hash.contains(&hp[j])).collect();
	let red_idx: Vec<usize> = (0..hp.len()).filter(|&j| !info.needed_hash.contains(&hp[j])).collect();
	for j in pick_some(&needed_idx, p) {
		let mut h2 = hs.clone();
		h2[j] = flip_hash(&h2[j], p);
		push("needed_hash", true, rebuild(id, hp.clone(), h2, lp.clone(), ld.clone(), pr.clone()));
	}
	for j in pick_some(&red_idx, p).into_iter().take(1) {
		let mut h2 = hs.clone();
		h2[j] = flip_hash(&h2[j], p);
		push("redundant_hash_flipped", false, rebuild(id, hp.clone(), h2, lp.clone(), ld.clone(), pr.clone()));
	}
	// proof hash flipped
	let used = info.proof_len.min(prh.len());
	let mut ks: Vec<usize> = (0..used).collect();
	p.shuffle(&mut ks);
	for k in ks.into_iter().take(per_class) {
		let mut q = prh.clone();
		q[k] = flip_hash(&q[k], p);
		push("proof_hash", true, rebuild(id, hp.clone(), hs.clone(), lp.clone(), ld.clone(), make_proof(&q)));
	}
	// proof truncated / extended
	if used >= 1 {
		let mut q = prh.clone();
		q.truncate(used - 1);
		push("proof_truncated", true, rebuild(id, hp.clone(), hs.clone(), lp.clone(), ld.clone(), make_proof(&q)));
		if used >= 2 {
			let mut q = prh.clone();
			q.remove(0);
			push("proof_truncated", true, rebuild(id, hp.clone(), hs.clone(), lp.clone(), ld.clone(), make_proof(&q)));
		}
		let mut q = prh.clone();
		q.insert(p.usize_below(used), Hash::from_vec(&p.bytes(32)));
		push("proof_extended", true, rebuild(id, hp.clone(), hs.clone(), lp.clone(), ld.clone(), make_proof(&q)));
	}
	{
		let mut q = prh.clone();
		q.push(Hash::from_vec(&p.bytes(32)));
		push("proof_extra_tail", false, rebuild(id, hp.clone(), hs.clone(), lp.clone(), ld.clone(), make_proof(&q)));
	}
	// unspent leaf omitted / sibling-required leaf omitted
	let marked_idx: Vec<usize> = (0..lp.len()).filter(|&j| info.marked.contains(&lp[j])).collect();
	for j in pick_some(&marked_idx, p) {
		let mut l2 = lp.clone();
		let mut d2 = ld.clone();
		l2.remove(j);
		d2.remove(j);
		push("omit_unspent_leaf", true, rebuild(id, hp.clone(), hs.clone(), l2, d2, pr.clone()));
	}
	let sibreq_idx: Vec<usize> = req_idx.iter().cloned().filter(|&j| !info.marked.contains(&lp[j])).collect();
	for j in pick_some(&sibreq_idx, p).into_iter().take(1) {
		let mut l2 = lp.clone();
		let mut d2 = ld.clone();
		l2.remove(j);
		d2.remove(j);
		push("omit_sibling_required_leaf", false, rebuild(id, hp.clone(), hs.clone(), l2, d2, pr.clone()));
	}
	// identifier changed (only where the new identifier names another leaf range)
	let mut ids: Vec<(&'static str, u8, u64)> = vec![];
	if id.idx > 0 {
		ids.push(("id_idx", id.height, id.idx - 1));
	}
	ids.push(("id_idx", id.height, id.idx + 1));
	let nseg = ceil_div(n, 1u64 << id.height);
	if nseg > 2 {
		ids.push(("id_idx", id.height, p.below(nseg)));
	}
	ids.push(("id_height", id.height + 1, id.idx / 2));
	if id.height > 0 {
		ids.push(("id_height", id.height - 1, id.idx * 2));
		ids.push(("id_height", id.height - 1, id.idx * 2 + 1));
	}
	for (class, h2, i2) in ids {
		let r2 = leaf_range(n, h2, i2);
		if r2 == Some((info.lo, info.hi)) {
			continue;
		}
		// a fully pruned segment is represented by the hash of a spent ancestor subtree: every other
		// fully pruned range below that ancestor has the very same honest segment, so the new
		// identifier describes an honest segment, not a corruption
		if info.pruned_anchor.is_some() {
			if let Some(i2info) = analyze(t, bm, h2, i2, &hp) {
				if i2info.pruned_anchor == info.pruned_anchor {
					continue;
				}
			}
		}
		let id2 = SegmentIdentifier { height: h2, idx: i2 };
		push(class, true, rebuild(id2, hp.clone(), hs.clone(), lp.clone(), ld.clone(), pr.clone()));
	}
	// a fully spent segment claimed to be part of a larger "pruned" subtree that in fact holds unspent
	// leaves: only the (true) hash of that larger ancestor and the proof from there
	if let (Some(q), Some(b)) = (info.pruned_anchor, bm) {
		let mut cur = q as usize;
		let mut k = 0usize;
		let mut target = None;
		while let Some(par) = t.m.nodes[cur].parent {
			cur = par;
			k += 1;
			if b.range_cardinality(t.lo[cur] as u32..(t.hi[cur] + 1) as u32) > 0 {
				target = Some(cur);
				break;
			}
		}
		if let Some(u) = target {
			if k <= prh.len() {
				let q2: Vec<Hash> = prh[k..].to_vec();
				push(
					"pruned_claim_over_unspent",
					true,
					rebuild(id, vec![u as u64], vec![t.m.nodes[u].hash], vec![], vec![], make_proof(&q2)),
				);
			}
		}
	}
	// a spent leaf nobody needs, replaced by a bogus hash at its position (validation may not care;
	// a receiver that applied it would build another MMR: final-state clause)
	{
		let both: Vec<usize> = nonreq_idx.iter().cloned().filter(|&j| !hp.contains(&lp[j]) && !info.needed_hash.contains(&lp[j])).collect();
		for j in pick_some(&both, p).into_iter().take(1) {
			let mut l2 = lp.clone();
			let mut d2 = ld.clone();
			l2.remove(j);
			d2.remove(j);
			let mut h2: Vec<(u64, Hash)> = hp.iter().cloned().zip(hs.iter().cloned()).collect();
			h2.push((lp[j], Hash::from_vec(&p.bytes(32))));
			h2.sort_by_key(|x| x.0);
			let (a, b): (Vec<u64>, Vec<Hash>) = h2.into_iter().unzip();
			push("spent_leaf_replaced_by_bogus_hash", false, rebuild(id, a, b, l2, d2, pr.clone()));
		}
	}
	// a redundant extra hash (not rejected by validation; final-state clause only)
	{
		let cand: Vec<u64> = (t.m.leaf_pos[info.lo as usize] as u64..=t.m.leaf_pos[(info.hi - 1) as usize] as u64)
			.filter(|c| !hp.contains(c) && !info.needed_hash.contains(c))
			.collect();
		if !cand.is_empty() {
			let c = *p.pick(&cand);
			let mut h2: Vec<(u64, Hash)> = hp.iter().cloned().zip(hs.iter().cloned()).collect();
			h2.push((c, Hash::from_vec(&p.bytes(32))));
			h2.sort_by_key(|x| x.0);
			let (a, b): (Vec<u64>, Vec<Hash>) = h2.into_iter().unzip();
			push("extra_hash_added", false, rebuild(id, a, b, lp.clone(), ld.clone(), pr.clone()));
		}
	}
	out
}

/// Counters of one segment-soundness sweep, merged into the run at the end.
#[derive(Default)]
struct SoundStats {
	counts: BTreeMap<String, u64>,
}

impl SoundStats {
	fn add(&mut self, k: &str, n: u64) {
		*self.counts.entry(k.to_string()).or_insert(0) += n;
	}
	fn flush(&mut self, run: &Run) {
		for (k, v) in &self.counts {
			run.count(k, *v);
		}
		self.counts.clear();
	}
}

/// Check one honest segment and its corruptions. `validate` is the validation entry the
/// receiving side uses for this tree; `part`/`tree`/`state` go into signatures.
/// Returns the corrupted variants (for part (c)).
fn check_segment<T: Datum>(
	run: &Run,
	st: &mut SoundStats,
	part: &str,
	tree: &str,
	state: &str,
	seg: &Segment<T>,
	t: &RefTree,
	bm: Option<&Bitmap>,
	validate: &dyn Fn(&Segment<T>) -> Result<(), SegmentError>,
	leaf_truth: &dyn Fn(u64, &T) -> bool,
	p: &mut Prng,
	per_class: usize,
	replay: &Value,
) -> Vec<Corrupted<T>> {
	let id = seg.identifier();
	let hp: Vec<u64> = seg.hash_iter().map(|x| x.0).collect();
	let info = match analyze(t, bm, id.height, id.idx, &hp) {
		Some(i) => i,
		None => return vec![],
	};
	let base = format!("part={};tree={};{};state={}", part, tree, hclass(id.height), state);
	// honest segment: validates, carries the true data
	match catch(|| validate(seg)) {
		Ok(Ok(())) => {
			st.add(&format!("{}.honest_validated.{}", part, tree), 1);
			run.eval(&format!("{};honest;full={};needed_hashes={};proof={}", base, info.full, info.needed_hash.len().min(3), info.proof_len.min(4)), true);
		}
		Ok(Err(e)) => {
			run.violation(
				&format!("{};oracle=honest_segment_validates;event={}", base, err_class(&e)),
				&format!("honest segment (height {}, idx {}) of a {}-leaf MMR does not validate against the reference root: {:?} (reference analysis: {:?})", id.height, id.idx, t.n_leaves(), e, info.broken),
				replay.clone(),
			);
			return vec![];
		}
		Err(pr) => {
			run.violation(
				&format!("{};oracle=honest_segment_validates;event=panic@{}", base, rel_loc(&pr.location)),
				&format!("validation of honest segment ({}, {}) panicked: {}", id.height, id.idx, pr.message),
				replay.clone(),
			);
			return vec![];
		}
	}
	for (pos, d) in seg.leaf_iter() {
		if !leaf_truth(pos, d) {
			run.violation(
				&format!("{};oracle=honest_segment_carries_true_data", base),
				&format!("segment ({}, {}) carries at position {} a datum that is not the leaf appended there", id.height, id.idx, pos),
				replay.clone(),
			);
			return vec![];
		}
	}
	for q in &info.required {
		if seg.leaf_iter().all(|(pos, _)| pos != *q) {
			// validated although a required leaf is absent
			run.violation(
				&format!("{};oracle=required_leaf_present", base),
				&format!("segment ({}, {}) validated but lacks the leaf at position {} that the reference needs", id.height, id.idx, q),
				replay.clone(),
			);
			return vec![];
		}
	}
	let cs = corruptions(seg, &info, t, bm, p, per_class);
	for c in &cs {
		let r = catch(|| validate(&c.seg));
		let outcome = match &r {
			Ok(Ok(())) => "accepted".to_string(),
			Ok(Err(e)) => format!("refused:{}", err_class(e)),
			Err(pr) => format!("panic@{}", rel_loc(&pr.location)),
		};
		run.eval(&format!("{};corruption={};outcome={}", base, c.class, outcome), true);
		if c.must_fail {
			match r {
				Ok(Ok(())) => {
					let cid = c.seg.identifier();
					run.violation(
						&format!("{};oracle=corruption_rejected;class={};event=validated", base, c.class),
						&format!(
							"segment ({}, {}) of a {}-leaf MMR with corruption '{}' (identifier now ({}, {})) still validates",
							id.height, id.idx, t.n_leaves(), c.class, cid.height, cid.idx
						),
						replay.clone(),
					);
				}
				Ok(Err(_)) => st.add(&format!("{}.corruption_refused.{}", part, c.class), 1),
				Err(_) => {
					st.add(&format!("{}.corruption_refused.{}", part, c.class), 1);
					st.add(&format!("{}.corruption_panicked.{}", part, c.class), 1);
				}
			}
		} else {
			st.add(&format!("{}.observation.{}.{}", part, c.class, if outcome == "accepted" { "accepted" } else { "refused" }), 1);
		}
	}
	cs
}

// ===================================================================== part (a): store level

#[derive(Clone)]
struct Leaf<T> {
	data: T,
	/// block number that spent it (on the current history)
	spent: Option<usize>,
}

#[derive(Clone)]
struct Blk {
	n_leaves: usize,
	size: u64,
	spent: Vec<usize>,
}

/// Unpruned leaf history. `blks[0]` is the empty origin.
#[derive(Clone)]
struct Model<T> {
	leaves: Vec<Leaf<T>>,
	mmr: RefMMR,
	blks: Vec<Blk>,
}

impl<T: Elem> Model<T> {
	fn new() -> Model<T> {
		Model {
			leaves: vec![],
			mmr: RefMMR::new(),
			blks: vec![Blk {
				n_leaves: 0,
				size: 0,
				spent: vec![],
			}],
		}
	}
	fn size(&self) -> u64 {
		self.mmr.size()
	}
	fn cur(&self) -> usize {
		self.blks.len() - 1
	}
	fn pos_of(&self, idx: usize) -> u64 {
		self.mmr.leaf_pos[idx] as u64
	}
	fn push(&mut self, e: T) -> u64 {
		let pos = self.mmr.push(&e);
		self.leaves.push(Leaf { data: e, spent: None });
		pos
	}
	fn close_block(&mut self, spent: Vec<usize>) {
		let j = self.blks.len();
		for &i in &spent {
			self.leaves[i].spent = Some(j);
		}
		self.blks.push(Blk {
			n_leaves: self.leaves.len(),
			size: self.mmr.size(),
			spent,
		});
	}
	fn rewind_to(&mut self, k: usize) {
		let keep = self.blks[k].n_leaves;
		for j in (k + 1..self.blks.len()).rev() {
			for &i in &self.blks[j].spent {
				self.leaves[i].spent = None;
			}
		}
		self.leaves.truncate(keep);
		self.mmr = self.mmr.prefix(keep as u64);
		self.blks.truncate(k + 1);
	}
	fn unspent_idx(&self, below: usize) -> Vec<usize> {
		(0..below.min(self.leaves.len())).filter(|&i| self.leaves[i].spent.is_none()).collect()
	}
}

#[derive(Clone, Copy, PartialEq, Eq, Debug)]
enum Kind {
	FixPrunable,
	FixPlain,
	VarPlain,
}

impl Kind {
	fn name(&self) -> &'static str {
		match self {
			Kind::FixPrunable => "store-prunable",
			Kind::FixPlain => "store-fixed-nonprunable",
			Kind::VarPlain => "store-variable-nonprunable",
		}
	}
}

/// Choose the leaves a block removes (indices < `below`, currently unspent).
fn choose_removals<T: Elem>(m: &Model<T>, below: usize, pat: u64, prng: &mut Prng) -> Vec<usize> {
	let uns = m.unspent_idx(below);
	if uns.is_empty() {
		return vec![];
	}
	let is_unspent = |i: usize| i < below && m.leaves[i].spent.is_none();
	let mut out: Vec<usize> = vec![];
	match pat {
		0 => {
			let k = prng.range(1, 10) as usize;
			let mut u = uns.clone();
			prng.shuffle(&mut u);
			out = u.into_iter().take(k).collect();
		}
		1 => {
			// sibling pairs
			let pairs: Vec<usize> = uns.iter().cloned().filter(|&i| i % 2 == 0 && is_unspent(i + 1)).collect();
			if !pairs.is_empty() {
				for _ in 0..prng.range(1, 3) {
					let a = *prng.pick(&pairs);
					out.push(a);
					out.push(a + 1);
				}
			}
		}
		2 => {
			// complete a pair whose other half is already spent
			let c: Vec<usize> = uns.iter().cloned().filter(|&i| (i ^ 1) < below && m.leaves[i ^ 1].spent.is_some()).collect();
			if !c.is_empty() {
				for _ in 0..prng.range(1, 4) {
					out.push(*prng.pick(&c));
				}
			}
		}
		3 => {
			// a whole aligned subtree
			let h = prng.range(2, 5);
			let w = 1usize << h;
			let n_sub = below / w;
			if n_sub > 0 {
				for _ in 0..8 {
					let k = prng.usize_below(n_sub);
					let v: Vec<usize> = (k * w..(k + 1) * w).filter(|&i| is_unspent(i)).collect();
					if !v.is_empty() {
						out = v;
						break;
					}
				}
			}
		}
		4 => {
			// oldest first: long fully spent prefixes
			out = uns.iter().cloned().take(prng.range(4, 24) as usize).collect();
		}
		5 => {
			let s = prng.usize_below(below);
			let par = prng.usize_below(2);
			out = (s..(s + 16).min(below)).filter(|&i| i % 2 == par && is_unspent(i)).take(8).collect();
		}
		6 => {
			if is_unspent(below - 1) {
				out.push(below - 1);
			}
			if below >= 2 && prng.bool() && is_unspent(below - 2) {
				out.push(below - 2);
			}
		}
		_ => {}
	}
	out.sort_unstable();
	out.dedup();
	out
}

fn bitmap_of<T: Elem>(m: &Model<T>, idxs: impl Iterator<Item = usize>) -> Bitmap {
	idxs.map(|i| m.pos_of(i) as u32 + 1).collect()
}

struct ProgOut {
	sweeps: u64,
	compactions: u64,
	max_leaves: u64,
}

/// Every (height 0..=6, idx) segment at archive point `a`.
fn sweep<T: Elem>(
	run: &Run,
	st: &mut SoundStats,
	be: &PMMRBackend<T>,
	m: &Model<T>,
	a: usize,
	kind: Kind,
	compactions: u64,
	prng: &mut Prng,
	replay: &Value,
) {
	let prunable = kind == Kind::FixPrunable;
	let n = m.blks[a].n_leaves as u64;
	if n == 0 {
		return;
	}
	let size = m.blks[a].size;
	let t = RefTree::new(m.mmr.prefix(n));
	if t.size() != size {
		run.inconclusive("store sweep: reference size mismatch (harness)");
		return;
	}
	let root = t.m.root();
	let mut bm = Bitmap::new();
	let mut any_spent = false;
	for i in 0..n as usize {
		match m.leaves[i].spent {
			Some(b) if b <= a => any_spent = true,
			_ => bm.add(i as u32),
		}
	}
	let state = if !prunable {
		"none"
	} else if compactions > 0 {
		"compacted"
	} else if any_spent {
		"pruned"
	} else {
		"none"
	};
	let bmo = if prunable { Some(&bm) } else { None };
	let ro: ReadonlyPMMR<'_, T, PMMRBackend<T>> = ReadonlyPMMR::at(be, size);
	let tree = kind.name();
	for h in 0u8..=6 {
		let nseg = ceil_div(n, 1u64 << h);
		let mut idxs: Vec<u64> = if nseg <= 48 {
			(0..nseg).collect()
		} else {
			let mut v: Vec<u64> = vec![0, 1, nseg - 2, nseg - 1];
			for _ in 0..44 {
				v.push(prng.below(nseg));
			}
			v.sort_unstable();
			v.dedup();
			v
		};
		idxs.push(nseg);
		idxs.push(nseg + 1 + prng.below(5));
		for idx in idxs {
			let id = SegmentIdentifier { height: h, idx };
			let rp = json!({"replay": replay, "archive_block": a, "mmr_leaves": n, "segment": [h, idx]});
			let res = catch(|| Segment::<T>::from_pmmr(id, &ro, prunable));
			let base = format!("part=a;tree={};{};state={}", tree, hclass(h), state);
			match res {
				Err(pr) => {
					run.violation(
						&format!("{};oracle=segment_production;event=panic@{}", base, rel_loc(&pr.location)),
						&format!("Segment::from_pmmr(({}, {})) on a {}-leaf MMR panicked: {}", h, idx, n, pr.message),
						rp,
					);
				}
				Ok(Err(e)) => {
					if idx >= nseg {
						st.add("a.beyond_mmr_refused", 1);
						run.eval(&format!("{};beyond_mmr;outcome=refused:{}", base, err_class(&e)), true);
					} else if prunable && h == 0 {
						// a single-leaf segment needs its sibling leaf's hash through the leaf set: the producer
						// declines when that sibling is spent. Nothing is produced, nothing to validate.
						st.add("a.observation.single_leaf_segment_not_produced", 1);
						run.eval(&format!("{};not_produced:{}", base, err_class(&e)), false);
					} else {
						run.violation(
							&format!("{};oracle=honest_segment_produced;event={}", base, err_class(&e)),
							&format!("Segment::from_pmmr(({}, {})) on a protocol-faithful {}-leaf MMR failed: {:?}", h, idx, n, e),
							rp,
						);
					}
				}
				Ok(Ok(seg)) => {
					if idx >= nseg {
						run.violation(
							&format!("{};oracle=beyond_mmr_refused;event=segment_produced", base),
							&format!("Segment::from_pmmr(({}, {})) produced a segment although the MMR has only {} leaves", h, idx, n),
							rp,
						);
						continue;
					}
					let validate = |s: &Segment<T>| s.validate(size, bmo, root);
					let truth = |pos: u64, d: &T| {
						t.m.nodes.get(pos as usize).and_then(|nd| nd.leaf_idx).map(|li| m.leaves[li as usize].data == *d).unwrap_or(false)
					};
					let per_class = if n > 200 { 1 } else { 2 };
					check_segment(run, st, "a", tree, state, &seg, &t, bmo, &validate, &truth, prng, per_class, &rp);
					// serialisation round trip
					let bytes = ser_bytes(&seg);
					match catch(|| deser::<Segment<T>>(&bytes)) {
						Ok(Ok(s2)) => {
							let again = ser_bytes(&s2);
							if s2 != seg || again != bytes || validate(&s2).is_err() {
								run.violation(
									&format!("{};oracle=serialisation_round_trip", base),
									&format!("segment ({}, {}) differs or no longer validates after ser/deser", h, idx),
									rp,
								);
							} else {
								st.add("a.round_trips", 1);
							}
						}
						other => {
							run.violation(
								&format!("{};oracle=serialisation_round_trip;event=decode_failed", base),
								&format!("honest segment ({}, {}) does not decode: {:?}", h, idx, other.map(|r| r.map(|_| ())).map_err(|p| p.message)),
								rp,
							);
						}
					}
				}
			}
		}
	}
}

/// One random protocol-faithful program on one backend directory.
fn store_program<T: Elem>(run: &Run, st: &mut SoundStats, dir: &str, idx: u64, kind: Kind, seed: u64, max_units: u64) -> Result<ProgOut, String> {
	let prunable = kind == Kind::FixPrunable;
	let mut prng = Prng::new(seed ^ idx.wrapping_mul(0x9E37_79B9_7F4A_7C15) ^ 0xC16A);
	let open = |d: &str| PMMRBackend::<T>::new(d.to_string(), prunable, ProtocolVersion(1), None).map_err(|e| format!("PMMRBackend::new: {:?}", e));
	let mut be = open(dir)?;
	let mut m: Model<T> = Model::new();
	let mut serial = 0u64;
	let mut min_rewind = 0usize;
	let mut compactions = 0u64;
	let mut out = ProgOut {
		sweeps: 0,
		compactions: 0,
		max_leaves: 0,
	};
	let units = prng.range((max_units / 3).max(1), max_units);
	let scale = 1 + prng.below(3);
	let focus = prng.below(7);
	let replay = json!({"part": "a", "program": idx, "kind": kind.name(), "seed": seed});
	for u in 0..units {
		let pre = m.clone();
		let mut size = m.size();
		// optional rewind (before any append of the unit)
		if m.cur() > min_rewind && prng.chance(20, 100) {
			let cur = m.cur();
			let k = cur.saturating_sub(prng.range(1, 3) as usize).max(min_rewind);
			{
				let mut pmmr: PMMR<'_, T, PMMRBackend<T>> = PMMR::at(&mut be, size);
				for j in (k + 1..=cur).rev() {
					let bm = bitmap_of(&m, m.blks[j].spent.iter().cloned());
					pmmr.rewind(m.blks[j - 1].size, &bm).map_err(|e| format!("rewind: {}", e))?;
				}
				size = pmmr.unpruned_size();
			}
			m.rewind_to(k);
		}
		let nblk = 1 + prng.below(3);
		for _b in 0..nblk {
			let below = m.leaves.len();
			let n_app = match prng.below(100) {
				0..=7 => 0,
				8..=90 => prng.range(1, 10 * scale),
				_ => prng.range(12 * scale, 36 * scale),
			};
			let mut spent: Vec<usize> = vec![];
			{
				let mut pmmr: PMMR<'_, T, PMMRBackend<T>> = PMMR::at(&mut be, size);
				for _ in 0..n_app {
					let e = T::gen(&mut prng, serial);
					serial += 1;
					let pos = pmmr.push(&e).map_err(|e| format!("push: {}", e))?;
					let rpos = m.push(e);
					if pos != rpos {
						return Err(format!("push returned pos {} reference {}", pos, rpos));
					}
				}
				if prunable && below > 0 {
					let pat = if prng.chance(40, 100) { focus } else { prng.below(8) };
					spent = choose_removals(&m, below, pat, &mut prng);
					for &i in &spent {
						match pmmr.prune(m.pos_of(i)) {
							Ok(true) => {}
							other => return Err(format!("prune of an unspent leaf returned {:?}", other)),
						}
					}
				}
				size = pmmr.unpruned_size();
			}
			m.close_block(spent);
		}
		out.max_leaves = out.max_leaves.max(m.leaves.len() as u64);
		// commit or discard
		if prng.chance(85, 100) {
			be.sync().map_err(|e| format!("sync: {:?}", e))?;
		} else {
			be.discard();
			m = pre;
		}
		// compaction between units (TxHashSet::compact protocol)
		if prunable && m.cur() > 0 && prng.chance(22, 100) {
			let cur = m.cur();
			let c = if prng.chance(60, 100) {
				cur.saturating_sub(prng.range(0, 5) as usize).max(min_rewind)
			} else {
				prng.range(min_rewind as u64, cur as u64) as usize
			};
			let keep = m.blks[c].n_leaves;
			let rm = bitmap_of(&m, (c + 1..=cur).flat_map(|j| m.blks[j].spent.iter().cloned()).filter(|&i| i < keep));
			be.check_compact(m.blks[c].size, &rm).map_err(|e| format!("check_compact: {:?}", e))?;
			compactions += 1;
			out.compactions += 1;
			min_rewind = c;
		}
		if prng.chance(12, 100) {
			drop(be);
			be = open(dir)?;
		}
		// observation point
		if m.cur() > 0 && (prng.chance(30, 100) || u + 1 == units) {
			let cur = m.cur();
			let a = if prng.bool() { cur } else { prng.range(min_rewind.max(1) as u64, cur as u64) as usize };
			sweep(run, st, &be, &m, a, kind, compactions, &mut prng, &replay);
			out.sweeps += 1;
		}
		if m.leaves.len() > 700 {
			break;
		}
	}
	Ok(out)
}

fn store_worker(run: &Run, sub: usize, n_sub: usize, san: bool) {
	let sc = Scratch::new(&format!("c16s{}", sub));
	let budget = if san { 15.0 } else { run.tier.pick(55.0, 420.0) };
	let cap: u64 = if san { 6 } else { run.tier.pick(600, 12000) };
	let mut st = SoundStats::default();
	let start = Instant::now();
	let mut k = 0u64;
	loop {
		let idx = sub as u64 + k * n_sub as u64;
		k += 1;
		if k > cap || start.elapsed().as_secs_f64() > budget {
			break;
		}
		let kind = match idx % 10 {
			0..=5 => Kind::FixPrunable,
			6 | 7 => Kind::FixPlain,
			_ => Kind::VarPlain,
		};
		let dir = sc.sub(&format!("p{}", idx));
		let _ = std::fs::create_dir_all(&dir);
		let max_units = 6 + (idx % 5) * 6;
		let r = match kind {
			Kind::VarPlain => store_program::<VarElem>(run, &mut st, &dir, idx, kind, run.seed, max_units),
			_ => store_program::<FixElem>(run, &mut st, &dir, idx, kind, run.seed, max_units),
		};
		match r {
			Ok(o) => {
				run.count("a.programs", 1);
				run.count("a.sweeps", o.sweeps);
				run.count("a.compactions", o.compactions);
				run.set_max("max_a_leaves", o.max_leaves);
				if k == 1 {
					run.sample(json!({"part": "a", "program": idx, "kind": kind.name(), "sweeps": o.sweeps, "compactions": o.compactions, "max_leaves": o.max_leaves}));
				}
			}
			Err(e) => run.inconclusive(&format!("store program {} ({}) stopped on a store operation error (C08's domain): {}", idx, kind.name(), e)),
		}
		let _ = std::fs::remove_dir_all(&dir);
		st.flush(run);
		if run.n_violations() > 12 {
			break;
		}
	}
	drop(sc);
}

// ===================================================================== chain level: worlds and sources

const OPTS: Options = Options::SKIP_POW;

#[derive(Clone, Debug)]
struct SrcCfg {
	shard: usize,
	n_blocks: u64,
	/// height at which `Chain::compact()` is called on the source
	compact_at: Option<u64>,
	/// bitmap / output / rangeproof / kernel segment heights used by the receivers
	hts: (u8, u8, u8, u8),
	/// world whose archive header has more than 1024 outputs (two bitmap chunks)
	big: bool,
	/// prepare a same-shape fork and segments for another archive header
	hostile_material: bool,
	/// big world whose archive header commits to EXACTLY 1024 outputs (the last bitmap chunk is full)
	boundary: bool,
	/// big world in which everything older than six blocks is spent: at the archive header the first bitmap chunk
	/// (outputs 0..1023, the genesis output included) is entirely zero and the second is not
	dense: bool,
	/// (C01, forged source) kind of value-creating / unproven element the chain's HEADERS commit to: 0 = the genesis
	/// output (leaf 0) carries another output's range proof, 1 = two range proofs swapped inside block 5, 2 = a kernel
	/// of block 5 carries another kernel's signature. The forged block is installed behind the pipeline.
	forged: Option<u8>,
}

impl SrcCfg {
	fn archive_height(&self) -> u64 {
		let h = self.n_blocks.saturating_sub(20);
		h - h % 10
	}
}

struct WorldB {
	h: Hist,
	/// best-chain block hashes by height (index 0 = genesis)
	hashes: Vec<Hash>,
	/// transactions of each best-chain block by height
	txs: Vec<Vec<Transaction>>,
}

/// Unspent, spendable coins at `tip` with their output index, oldest first.
fn coins_by_age(h: &mut Hist, tip: &Hash) -> Vec<(u64, Coin)> {
	let st = h.state(tip);
	let next_h = st.height + 1;
	let mat = grin_core::global::coinbase_maturity();
	let mut v = vec![];
	for (c, &i) in &st.utxo {
		if let Some(coin) = h.coins.get(&c.0.to_vec()) {
			if coin.coinbase && next_h < st.outs[i].height + mat {
				continue;
			}
			// dust is left alone: a transaction must be able to pay its fee
			if coin.value < 50_000_000 {
				continue;
			}
			v.push((i as u64, coin.clone()));
		}
	}
	v.sort_by_key(|x| x.0);
	v
}

/// Random world: spends of old and recent outputs (oldest-first runs create fully spent
/// subtrees that compaction removes).
fn build_world(seed: u64, n_blocks: u64, style: u64) -> WorldB {
	let mut h = Hist::new(seed, false);
	let mut p = Prng::new(seed ^ 0xB16B);
	let mut hashes = vec![h.genesis.hash()];
	let mut txs_by_h: Vec<Vec<Transaction>> = vec![vec![]];
	let tx_pm = [700, 800, 600][(style % 3) as usize];
	for _ in 1..=n_blocks {
		let tip = *hashes.last().unwrap();
		let mut txs = vec![];
		if p.chance(tx_pm, 1000) {
			let mut avail = coins_by_age(&mut h, &tip);
			let n_tx = 1 + p.usize_below(2);
			for _ in 0..n_tx {
				if avail.is_empty() {
					break;
				}
				let n_in = (1 + p.usize_below(2)).min(avail.len());
				let mut ins = vec![];
				for _ in 0..n_in {
					let k = match p.below(10) {
						0..=4 => 0,                                        // oldest
						5..=7 => p.usize_below(avail.len()),               // anywhere
						_ => avail.len() - 1 - p.usize_below(avail.len().min(3)), // recent
					};
					ins.push(avail.remove(k).1);
				}
				let n_out = match p.below(10) {
					0..=5 => 1,
					6..=8 => 2,
					_ => 3,
				};
				txs.push(h.spend_tx(&ins, n_out, None));
			}
		}
		let gb = h.add_block(&tip, &txs, "honest", vec![]);
		assert!(gb.verdict.is_ok(), "generated block judged invalid by the reference: {:?}", gb.verdict);
		hashes.push(gb.hash);
		txs_by_h.push(txs);
	}
	WorldB { h, hashes, txs: txs_by_h }
}


/// (C01) As `build_world`, but the chain's headers commit to something no block-by-block validation would have let
/// through (see `SrcCfg::forged`). Returns the world and the height of the block that must be installed behind the
/// pipeline (None when the genesis block itself carries the bad proof).
fn build_forged_world(seed: u64, n_blocks: u64, kind: u8) -> (WorldB, Option<u64>) {
	use vcommon::ledger::RefLedger;
	let mut h = Hist::new(seed, false);
	let mut p = Prng::new(seed ^ 0xF0_46ED);
	const F: u64 = 5;
	if kind == 0 {
		// leaf 0 of the output and range-proof MMRs: the genesis output with a proof made for another commitment
		let other = h.world.output(grin_core::consensus::reward(0), &h.world.key(4_000_001));
		let mut g = h.genesis.clone();
		g.body.outputs[0].proof = other.proof;
		h.ledger = RefLedger::new(&g);
		h.genesis = g;
	}
	let mut hashes = vec![h.genesis.hash()];
	let mut txs_by_h: Vec<Vec<Transaction>> = vec![vec![]];
	let mut forged_at = None;
	for height in 1..=n_blocks {
		let tip = *hashes.last().unwrap();
		let mut txs = vec![];
		let force_tx = kind != 0 && height == F;
		if force_tx || p.chance(600, 1000) {
			let mut avail = coins_by_age(&mut h, &tip);
			if kind == 0 {
				// the genesis output must still be unspent at the archive header
				let gc = h.genesis.body.outputs[0].commitment();
				avail.retain(|x| x.1.commit != gc);
			}
			if !avail.is_empty() {
				let c = avail.remove(p.usize_below(avail.len().min(3))).1;
				txs.push(h.spend_tx(&[c], 2, None));
			}
		}
		let gb = h.add_block(&tip, &txs, "honest", vec![]);
		assert!(gb.verdict.is_ok());
		if force_tx && !txs.is_empty() {
			let mut b = gb.block.clone();
			let mut ok = false;
			if kind == 1 && b.body.outputs.len() >= 2 {
				let p0 = b.body.outputs[0].proof;
				b.body.outputs[0].proof = b.body.outputs[1].proof;
				b.body.outputs[1].proof = p0;
				ok = true;
			} else if kind == 2 && b.body.kernels.len() >= 2 {
				let s0 = b.body.kernels[0].excess_sig;
				b.body.kernels[0].excess_sig = b.body.kernels[1].excess_sig;
				b.body.kernels[1].excess_sig = s0;
				ok = true;
			}
			if ok {
				// the headers commit to exactly this body; the block gets an identity (proof of work) of its own
				h.ledger.commit_header(&mut b);
				vcommon::world::skip_pow_proof(&mut b.header, &mut p);
				h.ledger.add(&b);
				// its outputs stay unspent: the archive header's state must still hold them
				for o in b.body.outputs.iter() {
					h.coins.remove(&o.commitment().0.to_vec());
				}
				let last = h.blocks.last_mut().unwrap();
				last.hash = b.hash();
				last.block = b.clone();
				forged_at = Some(height);
				hashes.push(b.hash());
				txs_by_h.push(txs);
				continue;
			}
		}
		hashes.push(gb.hash);
		txs_by_h.push(txs);
	}
	(WorldB { h, hashes, txs: txs_by_h }, forged_at)
}

/// What a node does with a state it did not validate block by block (state sync): extension applied, block, running
/// sums and body head stored — without `pipe::process_block` judging the block.
fn install_behind_pipeline(chain: &Chain, b: &grin_core::core::Block) -> Result<(), String> {
	use grin_chain::txhashset;
	use grin_core::core::committed::Committed;
	chain.process_block_header(&b.header, OPTS).map_err(|e| format!("header: {:?}", e))?;
	let store = chain.store();
	let header_pmmr = chain.header_pmmr();
	let txhashset = chain.txhashset();
	let mut header_pmmr = header_pmmr.write();
	let mut txhashset = txhashset.write();
	let mut batch = store.batch().map_err(|e| format!("{:?}", e))?;
	let prev_sums = batch.get_block_sums(&b.header.prev_hash).map_err(|e| format!("{:?}", e))?;
	let (utxo_sum, kernel_sum) = (prev_sums, b as &dyn Committed)
		.verify_kernel_sums(b.header.overage(), b.header.total_kernel_offset())
		.map_err(|e| format!("sums: {:?}", e))?;
	txhashset::extending(&mut header_pmmr, &mut txhashset, &mut batch, |ext, batch| ext.extension.apply_block(b, ext.header_extension, batch))
		.map_err(|e| format!("apply_block: {:?}", e))?;
	batch.save_block(b).map_err(|e| format!("{:?}", e))?;
	batch
		.save_block_sums(&b.hash(), grin_core::core::block_sums::BlockSums { utxo_sum, kernel_sum })
		.map_err(|e| format!("{:?}", e))?;
	batch.save_body_head(&grin_chain::Tip::from_header(&b.header)).map_err(|e| format!("{:?}", e))?;
	batch.commit().map_err(|e| format!("{:?}", e))?;
	Ok(())
}

/// Big world: block i >= 5 spends the coinbase of block i-4 into 9 outputs, block i >= 12
/// also spends two of the outputs of block i-6; all proofs are built in parallel.
fn build_big_world(seed: u64, n_blocks: u64, boundary: bool, dense: bool) -> WorldB {
	use std::sync::atomic::{AtomicU64, Ordering};
	// outputs of the big transaction of block i
	let outs_of = move |i: u64| -> usize {
		if dense {
			8
		} else if !boundary {
			9
		} else if i < 5 + 72 {
			8
		} else {
			7
		}
	};
	let mut h = Hist::new(seed, false);
	let w = h.world.clone();
	let reward = grin_core::consensus::REWARD;
	let fee1 = |i: u64| -> u64 { if i >= 5 { 1_000_000 * (1 + (i % 3)) } else { 0 } };
	let fee2 = move |i: u64| -> u64 { if i >= 12 || (dense && i >= 11) { 2_000_000 } else { 0 } };
	let fee2d = fee2;
	let cb_key = |i: u64| w.key(10_000 + i as u32);
	let out_key = |i: u64, j: usize| w.key(100_000 + (i as u32) * 16 + j as u32);
	let cb_val = |i: u64| reward + fee1(i) + fee2(i);
	// value of output j of the big transaction of block i
	let out_val = |i: u64, j: usize| -> u64 {
		let total = cb_val(i - 4) - fee1(i);
		let n = outs_of(i);
		let each = total / n as u64;
		if j + 1 == n {
			total - each * (n as u64 - 1)
		} else {
			each
		}
	};
	let (_, gcoin) = w.genesis();
	let mut merged_val: Vec<u64> = vec![0; n_blocks as usize + 1];
	if dense {
		for i in 11..=n_blocks {
			let mut v: u64 = (0..outs_of(i - 6)).map(|j| out_val(i - 6, j)).sum();
			v += if i >= 12 { merged_val[(i - 1) as usize] } else { gcoin.value };
			merged_val[i as usize] = v - fee2(i);
		}
	}
	let merged_val = &merged_val;
	let gcoin = &gcoin;
	let next = AtomicU64::new(1);
	type Built = (Vec<Transaction>, (grin_core::core::Output, TxKernel));
	let built = std::sync::Mutex::new(HashMap::<u64, Built>::new());
	std::thread::scope(|s| {
		for _ in 0..16 {
			s.spawn(|| {
				init_thread(true);
				loop {
					let i = next.fetch_add(1, Ordering::SeqCst);
					if i > n_blocks {
						break;
					}
					let mut p = Prng::new(seed ^ (i.wrapping_mul(0x9E3779B97F4A7C15)));
					let mut txs = vec![];
					if i >= 5 {
						let inp = w.coin(cb_val(i - 4), &cb_key(i - 4), true);
						let outs: Vec<(u64, grin_keychain::Identifier)> = (0..outs_of(i)).map(|j| (out_val(i, j), out_key(i, j))).collect();
						txs.push(w.tx(&mut p, &[inp], &outs, KernelFeatures::Plain { fee: fee_fields(fee1(i)) }).0);
					}
					if dense && i >= 11 {
						// everything block i-6 created, the merged output of block i-1 and (once) the genesis output
						let mut ins: Vec<Coin> = (0..outs_of(i - 6)).map(|j| w.coin(out_val(i - 6, j), &out_key(i - 6, j), false)).collect();
						if i >= 12 {
							ins.push(w.coin(merged_val[(i - 1) as usize], &out_key(i - 1, 10), false));
						} else {
							ins.push(gcoin.clone());
						}
						txs.push(w.tx(&mut p, &ins, &[(merged_val[i as usize], out_key(i, 10))], KernelFeatures::Plain { fee: fee_fields(fee2d(i)) }).0);
					} else if !dense && i >= 12 {
						let a = w.coin(out_val(i - 6, 0), &out_key(i - 6, 0), false);
						let b = w.coin(out_val(i - 6, 1), &out_key(i - 6, 1), false);
						let v = a.value + b.value - fee2(i);
						txs.push(w.tx(&mut p, &[a, b], &[(v, out_key(i, 10))], KernelFeatures::Plain { fee: fee_fields(fee2(i)) }).0);
					}
					let cb = w.coinbase(&cb_key(i), fee1(i) + fee2(i));
					built.lock().unwrap().insert(i, (txs, cb));
				}
			});
		}
	});
	let mut built = built.into_inner().unwrap();
	let mut hashes = vec![h.genesis.hash()];
	let mut txs_by_h: Vec<Vec<Transaction>> = vec![vec![]];
	let mut p = Prng::new(seed ^ 0x7121);
	for i in 1..=n_blocks {
		let (txs, cb) = built.remove(&i).unwrap();
		let tip = *hashes.last().unwrap();
		let b = h
			.ledger
			.make_block_with_reward(&mut p, &tip, &txs, cb, PowMode::Skip { difficulty: 10 }, 60)
			.expect("big world block");
		let cbc = w.coin(cb_val(i), &cb_key(i), true);
		h.coins.insert(cbc.commit.0.to_vec(), cbc);
		if i >= 5 {
			for j in 0..outs_of(i) {
				let c = w.coin(out_val(i, j), &out_key(i, j), false);
				h.coins.insert(c.commit.0.to_vec(), c);
			}
		}
		if dense && i >= 11 {
			let c = w.coin(merged_val[i as usize], &out_key(i, 10), false);
			h.coins.insert(c.commit.0.to_vec(), c);
		} else if !dense && i >= 12 {
			let v = out_val(i - 6, 0) + out_val(i - 6, 1) - fee2(i);
			let c = w.coin(v, &out_key(i, 10), false);
			h.coins.insert(c.commit.0.to_vec(), c);
		}
		hashes.push(b.hash());
		h.blocks.push(GenBlock {
			hash: b.hash(),
			parent: b.header.prev_hash,
			block: b,
			verdict: Ok(()),
			class: "honest".into(),
			tags: vec![],
		});
		txs_by_h.push(txs);
	}
	h.next_key = 2_000_000;
	WorldB { h, hashes, txs: txs_by_h }
}

fn copy_dir(from: &str, to: &str) -> Result<(), String> {
	let _ = std::fs::remove_dir_all(to);
	let st = std::process::Command::new("cp").arg("-r").arg(from).arg(to).status().map_err(|e| format!("cp: {}", e))?;
	if st.success() {
		Ok(())
	} else {
		Err("cp -r failed".into())
	}
}

/// Honest segments of one archive state at given heights.
#[derive(Clone)]
struct SegSet {
	bitmap: Vec<(Segment<BitmapChunk>, Hash)>,
	output: Vec<(Segment<OutputIdentifier>, Hash)>,
	rproof: Vec<Segment<RangeProof>>,
	kernel: Vec<Segment<TxKernel>>,
}

fn fetch_segments(chain: &Chain, archive: &Hash, n_out: u64, n_kern: u64, hts: (u8, u8, u8, u8)) -> Result<SegSet, String> {
	let sg = catch(|| chain.segmenter())
		.map_err(|p| format!("segmenter panicked: {} @{}", p.message, p.location))?
		.map_err(|e| format!("segmenter: {:?}", e))?;
	if sg.header().hash() != *archive {
		return Err(format!("segmenter serves {} (height {}), expected {}", sg.header().hash(), sg.header().height, archive));
	}
	let n_chunks = ceil_div(n_out, 1024);
	let mut s = SegSet {
		bitmap: vec![],
		output: vec![],
		rproof: vec![],
		kernel: vec![],
	};
	for idx in 0..ceil_div(n_chunks, 1 << hts.0) {
		let id = SegmentIdentifier { height: hts.0, idx };
		s.bitmap.push(catch(|| sg.bitmap_segment(id)).map_err(|p| format!("bitmap_segment panic {}", p.location))?.map_err(|e| format!("bitmap_segment({:?}): {:?}", id, e))?);
	}
	for idx in 0..ceil_div(n_out, 1 << hts.1) {
		let id = SegmentIdentifier { height: hts.1, idx };
		s.output.push(catch(|| sg.output_segment(id)).map_err(|p| format!("output_segment panic {}", p.location))?.map_err(|e| format!("output_segment({:?}): {:?}", id, e))?);
	}
	for idx in 0..ceil_div(n_out, 1 << hts.2) {
		let id = SegmentIdentifier { height: hts.2, idx };
		s.rproof.push(catch(|| sg.rangeproof_segment(id)).map_err(|p| format!("rangeproof_segment panic {}", p.location))?.map_err(|e| format!("rangeproof_segment({:?}): {:?}", id, e))?);
	}
	for idx in 0..ceil_div(n_kern, 1 << hts.3) {
		let id = SegmentIdentifier { height: hts.3, idx };
		s.kernel.push(catch(|| sg.kernel_segment(id)).map_err(|p| format!("kernel_segment panic {}", p.location))?.map_err(|e| format!("kernel_segment({:?}): {:?}", id, e))?);
	}
	Ok(s)
}

/// Hostile pieces per tree: (class, segment [, the root that accompanies it on the wire]).
#[derive(Default)]
struct HostilePool {
	bitmap: Vec<(String, Segment<BitmapChunk>, Hash)>,
	output: Vec<(String, Segment<OutputIdentifier>, Hash)>,
	rproof: Vec<(String, Segment<RangeProof>)>,
	kernel: Vec<(String, Segment<TxKernel>)>,
}

impl HostilePool {
	fn len(&self) -> usize {
		self.bitmap.len() + self.output.len() + self.rproof.len() + self.kernel.len()
	}
}

struct Source {
	cfg: SrcCfg,
	w: WorldB,
	chain: Chain,
	dir: String,
	a: u64,
	archive: BlockHeader,
	st_a: Arc<RefState>,
	/// the source when its head was the archive header: the full-sync twin
	twin: Snap,
	tip_snap: Snap,
	state_class: &'static str,
	/// unspent-leaf bitmap at the archive header, from the reference ledger
	bm_ref: Bitmap,
	n_out: u64,
	n_kern: u64,
	t_out: RefTree,
	t_rp: RefTree,
	t_kern: RefTree,
	t_bm: RefTree,
	bm_chunks: Vec<BitmapChunk>,
	other_archive: Option<SegSet>,
	fork_dir: Option<String>,
	commits: Vec<grin_util::secp::pedersen::Commitment>,
}

fn chunks_of(idx: &[u64]) -> Vec<BitmapChunk> {
	let mut v = vec![];
	if let Some(&last) = idx.last() {
		for _ in 0..=last / 1024 {
			v.push(BitmapChunk::new());
		}
		for &i in idx {
			v[(i / 1024) as usize].set(i % 1024, true);
		}
	}
	v
}

/// Build the world, run the source node through it (twin snapshot at the archive header,
/// optional compaction, optional hostile material) up to the tip.
fn build_source(run: &Run, sc: &Scratch, cfg: &SrcCfg) -> Result<Source, String> {
	let t0 = Instant::now();
	let wseed = run.seed ^ (cfg.shard as u64 + 1).wrapping_mul(0xC16_0001);
	let mut forged_at: Option<u64> = None;
	let mut w = if let Some(k) = cfg.forged {
		let (w, f) = build_forged_world(wseed, cfg.n_blocks, k);
		forged_at = f;
		if k != 0 && f.is_none() {
			return Err("forged world: block 5 could not carry the forgery".into());
		}
		w
	} else if cfg.big {
		build_big_world(wseed, cfg.n_blocks, cfg.boundary, cfg.dense)
	} else {
		build_world(wseed, cfg.n_blocks, cfg.shard as u64)
	};
	run.count("b.world_build_ms", t0.elapsed().as_millis() as u64);
	let a = cfg.archive_height();
	let dir = sc.sub(&format!("src{}/db", cfg.shard));
	std::fs::create_dir_all(&dir).map_err(|e| e.to_string())?;
	let mut chain = open_chain(&dir, &w.h.genesis)?;
	let commits = w.h.all_commits();
	let mut twin = None;
	let mut other_archive = None;
	let mut fork_dir = None;
	let mut compacted = false;
	let t1 = Instant::now();
	for i in 1..=cfg.n_blocks {
		let b = w.h.blocks[(i - 1) as usize].block.clone();
		if Some(i) == forged_at {
			install_behind_pipeline(&chain, &b)?;
		} else {
			chain.process_block(b, OPTS).map_err(|e| format!("source rejected block {}: {:?}", i, e))?;
		}
		if i == a {
			let s = snapshot(&chain, &commits)?;
			let st = w.h.state(&w.hashes[a as usize]);
			if let Some(d) = compare_with_ref(&s, &st) {
				return Err(format!("source at the archive header differs from the reference ledger: {}", d));
			}
			twin = Some(s);
			// every third plain source: a fork from the block below the archive header becomes the best chain for a while,
			// long enough for ITS block at the archive height to be the archive header, and the node is asked for its
			// segmenter then; the rest of the chain reorganises the fork away. What the node serves at the end is for the
			// archive header of its chain, not for the one of the same height it served before.
			if !cfg.big && !cfg.hostile_material && cfg.forged.is_none() && cfg.compact_at.is_none() && cfg.n_blocks >= a + 22 && a >= 2 {
				let mut tip = w.hashes[(a - 1) as usize];
				let mut first = None;
				let mut ok = true;
				// the fork's first block outweighs the chain's block at the archive height by one, the twenty others weigh 1:
				// best chain at once, overtaken again once the chain is 22 blocks past the archive height
				let d_main = {
					let hd = &w.h.blocks[(a - 1) as usize].block.header;
					let prev = if a >= 2 { w.h.blocks[(a - 2) as usize].block.header.total_difficulty().to_num() } else { w.h.genesis.header.total_difficulty().to_num() };
					hd.total_difficulty().to_num().saturating_sub(prev)
				};
				for j in 0..21 {
					let gb = vcommon::scenarios::mk_block(&mut w.h, &tip, &[], if j == 0 { d_main + 1 } else { 1 }, "fork");
					if gb.verdict.is_err() || chain.process_block(gb.block.clone(), OPTS).is_err() {
						ok = false;
						break;
					}
					tip = gb.hash;
					if first.is_none() {
						first = Some(gb.hash);
					}
				}
				if ok && chain.head().map(|t| t.last_block_h).ok() == Some(tip) {
					if let Ok(ah) = chain.txhashset_archive_header() {
						if Some(ah.hash()) == first && chain.segmenter().is_ok() {
							run.count("b.sources_asked_for_a_segmenter_on_a_fork_that_is_then_reorganised_away", 1);
						}
					}
				}
			}
		}
		if cfg.hostile_material && a >= 12 && i == a - 2 {
			drop(chain);
			let fd = sc.sub(&format!("src{}/forkdb", cfg.shard));
			copy_dir(&dir, &fd)?;
			fork_dir = Some(fd);
			chain = open_chain(&dir, &w.h.genesis)?;
		}
		if cfg.hostile_material && a >= 20 && i == a + 15 {
			// the source now serves the archive header 10 below the one the receivers will ask for
			let oa = a - 10;
			let st = w.h.state(&w.hashes[oa as usize]);
			match fetch_segments(&chain, &w.hashes[oa as usize], st.outs.len() as u64, st.n_kernels, cfg.hts) {
				Ok(s) => other_archive = Some(s),
				Err(e) => run.inconclusive(&format!("segments for the other archive header not available: {}", e)),
			}
		}
		if Some(i) == cfg.compact_at {
			let tail_before = chain.tail().ok().map(|t| t.height);
			catch(|| chain.compact())
				.map_err(|p| format!("compact panicked: {} @{}", p.message, p.location))?
				.map_err(|e| format!("compact: {:?}", e))?;
			compacted = chain.tail().ok().map(|t| t.height) != tail_before;
		}
	}
	run.count("b.source_process_ms", t1.elapsed().as_millis() as u64);
	let archive = chain.txhashset_archive_header().map_err(|e| format!("archive header: {:?}", e))?;
	if archive.height != a || archive.hash() != w.hashes[a as usize] {
		return Err(format!("archive header at height {} (expected {})", archive.height, a));
	}
	let tip_snap = snapshot(&chain, &commits)?;
	let st_tip = w.h.state(w.hashes.last().unwrap());
	if let Some(d) = compare_with_ref(&tip_snap, &st_tip) {
		return Err(format!("source at the tip differs from the reference ledger: {}", d));
	}
	let st_a = w.h.state(&w.hashes[a as usize]);
	if cfg.boundary {
		run.set_max("max_boundary_source_outputs_at_archive_header", st_a.outs.len() as u64);
		if st_a.outs.len() != 1024 {
			return Err(format!("boundary world: {} outputs at the archive header instead of exactly 1024", st_a.outs.len()));
		}
	}
	let uidx = st_a.unspent_idx();
	if cfg.dense {
		if uidx.first().map(|&i| i < 1024).unwrap_or(true) || st_a.outs.len() <= 1024 {
			return Err(format!("dense world: first unspent output index {:?} of {} outputs (the first bitmap chunk should be all zero)", uidx.first(), st_a.outs.len()));
		}
		run.count("b.sources_whose_first_bitmap_chunk_is_all_zero", 1);
	}
	let bm_ref: Bitmap = uidx.iter().map(|&i| i as u32).collect();
	let any_spent = (uidx.len() as u64) < st_a.outs.len() as u64;
	let state_class = if compacted {
		"compacted"
	} else if any_spent {
		"pruned"
	} else {
		"none"
	};
	let bm_chunks = chunks_of(&uidx);
	let mut bmm = RefMMR::new();
	for c in &bm_chunks {
		bmm.push(c);
	}
	Ok(Source {
		cfg: cfg.clone(),
		chain,
		dir,
		a,
		archive,
		twin: twin.ok_or("no twin snapshot")?,
		tip_snap,
		state_class,
		bm_ref,
		n_out: st_a.outs.len() as u64,
		n_kern: st_a.n_kernels,
		t_out: RefTree::new(st_a.out_mmr.clone()),
		t_rp: RefTree::new(st_a.rp_mmr.clone()),
		t_kern: RefTree::new(st_a.kern_mmr.clone()),
		t_bm: RefTree::new(bmm),
		bm_chunks,
		st_a,
		other_archive,
		fork_dir,
		commits,
		w,
	})
}

/// Sentence 1 at chain level: every served segment validates against the archive header's roots
/// (computed by the reference ledger), and its corruptions do not. Returns the hostile pool.
fn check_chain_segments(run: &Run, src: &Source, set: &SegSet, p: &mut Prng, per_class: usize) -> HostilePool {
	let mut st = SoundStats::default();
	let mut pool = HostilePool::default();
	let r = src.st_a.roots();
	let hdr = &src.archive;
	let osize = r.output_mmr_size;
	let ksize = r.kernel_mmr_size;
	let bsize = src.t_bm.size();
	let state = src.state_class;
	let rp = |tree: &str, id: SegmentIdentifier| json!({"part": "b", "shard": src.cfg.shard, "blocks": src.cfg.n_blocks, "archive_height": src.a, "tree": tree, "segment": [id.height, id.idx]});
	if hdr.output_root != r.output_root_for(hdr.version) || hdr.range_proof_root != r.rproof_root || hdr.kernel_root != r.kernel_root {
		run.inconclusive("archive header commitments differ from the reference ledger (harness)");
		return pool;
	}
	// kernels
	let ks = src.w.h.ledger.kernels_of(&src.archive.hash());
	for seg in &set.kernel {
		let validate = |s: &Segment<TxKernel>| s.validate(ksize, None, hdr.kernel_root);
		let truth = |pos: u64, d: &TxKernel| src.t_kern.m.nodes.get(pos as usize).and_then(|n| n.leaf_idx).map(|li| ser_bytes(&ks[li as usize]) == ser_bytes(d)).unwrap_or(false);
		for c in check_segment(run, &mut st, "b", "kernel", state, seg, &src.t_kern, None, &validate, &truth, p, per_class, &rp("kernel", seg.identifier())) {
			if c.must_fail || c.class == "extra_hash_added" || c.class == "spent_leaf_replaced_by_bogus_hash" {
				pool.kernel.push((c.class.to_string(), c.seg));
			}
		}
	}
	// range proofs
	let outs_of_chain: Vec<grin_core::core::Output> = {
		let mut v = vec![];
		for h in src.w.h.ledger.ancestry(&src.archive.hash()) {
			v.extend_from_slice(src.w.h.ledger.get(&h).block.outputs());
		}
		v
	};
	for seg in &set.rproof {
		let validate = |s: &Segment<RangeProof>| s.validate(osize, Some(&src.bm_ref), hdr.range_proof_root);
		let truth = |pos: u64, d: &RangeProof| src.t_rp.m.nodes.get(pos as usize).and_then(|n| n.leaf_idx).map(|li| outs_of_chain[li as usize].proof == *d).unwrap_or(false);
		for c in check_segment(run, &mut st, "b", "rangeproof", state, seg, &src.t_rp, Some(&src.bm_ref), &validate, &truth, p, per_class, &rp("rangeproof", seg.identifier())) {
			if c.must_fail || c.class == "extra_hash_added" || c.class == "spent_leaf_replaced_by_bogus_hash" {
				pool.rproof.push((c.class.to_string(), c.seg));
			}
		}
	}
	// outputs (merged with the bitmap root)
	for (seg, bitmap_root) in &set.output {
		if *bitmap_root != r.bitmap_root {
			run.violation(
				&format!("part=b;tree=output;state={};oracle=served_bitmap_root_is_archive_bitmap_root", state),
				&format!("Segmenter::output_segment returned bitmap root {} but the unspent set at the archive header commits to {}", bitmap_root, r.bitmap_root),
				rp("output", seg.identifier()),
			);
		}
		let validate = |s: &Segment<OutputIdentifier>| s.validate_with(osize, Some(&src.bm_ref), hdr.output_root, osize, r.bitmap_root, false);
		let truth = |pos: u64, d: &OutputIdentifier| src.t_out.m.nodes.get(pos as usize).and_then(|n| n.leaf_idx).map(|li| outs_of_chain[li as usize].identifier() == *d).unwrap_or(false);
		for c in check_segment(run, &mut st, "b", "output", state, seg, &src.t_out, Some(&src.bm_ref), &validate, &truth, p, per_class, &rp("output", seg.identifier())) {
			if c.must_fail || c.class == "extra_hash_added" || c.class == "spent_leaf_replaced_by_bogus_hash" {
				pool.output.push((c.class.to_string(), c.seg, *bitmap_root));
			}
		}
		// wire round trip
		let bytes = ser_bytes(seg);
		match deser::<Segment<OutputIdentifier>>(&bytes) {
			Ok(s2) if ser_bytes(&s2) == bytes && validate(&s2).is_ok() => st.add("b.round_trips", 1),
			_ => run.violation(&format!("part=b;tree=output;state={};oracle=serialisation_round_trip", state), "output segment differs after ser/deser", rp("output", seg.identifier())),
		}
	}
	// bitmap chunks (merged with the output PMMR root)
	for (seg, out_root) in &set.bitmap {
		if *out_root != r.output_pmmr_root {
			run.violation(
				&format!("part=b;tree=bitmap;state={};oracle=served_output_root_is_archive_output_root", state),
				&format!("Segmenter::bitmap_segment returned output root {} but the reference output PMMR root at the archive header is {}", out_root, r.output_pmmr_root),
				rp("bitmap", seg.identifier()),
			);
		}
		let validate = |s: &Segment<BitmapChunk>| s.validate_with(bsize, None, hdr.output_root, osize, r.output_pmmr_root, true);
		let truth = |pos: u64, d: &BitmapChunk| src.t_bm.m.nodes.get(pos as usize).and_then(|n| n.leaf_idx).map(|li| src.bm_chunks[li as usize] == *d).unwrap_or(false);
		for c in check_segment(run, &mut st, "b", "bitmap", state, seg, &src.t_bm, None, &validate, &truth, p, per_class, &rp("bitmap", seg.identifier())) {
			if c.must_fail {
				pool.bitmap.push((c.class.to_string(), c.seg, *out_root));
			}
		}
		// wire round trip goes through BitmapSegment
		let bs = BitmapSegment::from(seg.clone());
		let bytes = ser_bytes(&bs);
		let back = catch(|| deser::<BitmapSegment>(&bytes).and_then(|b| b.into_segment()));
		match back {
			Ok(Ok(s2)) if validate(&s2).is_ok() && s2.leaf_iter().zip(seg.leaf_iter()).all(|(x, y)| x.0 == y.0 && x.1 == y.1) => st.add("b.round_trips", 1),
			_ => run.violation(&format!("part=b;tree=bitmap;state={};oracle=serialisation_round_trip", state), "bitmap segment differs or fails after BitmapSegment ser/deser", rp("bitmap", seg.identifier())),
		}
	}
	for seg in &set.rproof {
		let bytes = ser_bytes(seg);
		match deser::<Segment<RangeProof>>(&bytes) {
			Ok(s2) if ser_bytes(&s2) == bytes => st.add("b.round_trips", 1),
			_ => run.violation(&format!("part=b;tree=rangeproof;state={};oracle=serialisation_round_trip", state), "rangeproof segment differs after ser/deser", Value::Null),
		}
	}
	for seg in &set.kernel {
		let bytes = ser_bytes(seg);
		match deser::<Segment<TxKernel>>(&bytes) {
			Ok(s2) if ser_bytes(&s2) == bytes => st.add("b.round_trips", 1),
			_ => run.violation(&format!("part=b;tree=kernel;state={};oracle=serialisation_round_trip", state), "kernel segment differs after ser/deser", Value::Null),
		}
	}
	st.flush(run);
	pool
}

// ===================================================================== chain level: receivers

struct Rx {
	chain: Chain,
	root: String,
}

impl Rx {
	fn close(self) {
		let root = self.root.clone();
		drop(self.chain);
		let _ = std::fs::remove_dir_all(&root);
	}
}

/// Fresh node that knows every header of the source chain and no block body.
fn new_receiver(sc: &Scratch, name: &str, src: &Source, p: &mut Prng) -> Result<Rx, String> {
	let root = sc.sub(name);
	let _ = std::fs::remove_dir_all(&root);
	let dir = format!("{}/db", root);
	std::fs::create_dir_all(&dir).map_err(|e| e.to_string())?;
	let chain = open_chain(&dir, &src.w.h.genesis)?;
	let headers: Vec<BlockHeader> = src.w.h.blocks[..src.cfg.n_blocks as usize].iter().map(|b| b.block.header.clone()).collect();
	if p.chance(1, 4) {
		for hd in &headers {
			chain.process_block_header(hd, OPTS).map_err(|e| format!("process_block_header({}): {:?}", hd.height, e))?;
		}
	} else {
		let mut i = 0;
		while i < headers.len() {
			let k = (1 + p.usize_below(32)).min(headers.len() - i);
			let sh = chain.header_head().map_err(|e| format!("{:?}", e))?;
			chain.sync_block_headers(&headers[i..i + k], sh, OPTS).map_err(|e| format!("sync_block_headers: {:?}", e))?;
			i += k;
		}
	}
	let hh = chain.header_head().map_err(|e| format!("{:?}", e))?;
	if hh.last_block_h != *src.w.hashes.last().unwrap() {
		return Err("receiver header head is not the source tip".into());
	}
	Ok(Rx { chain, root })
}

/// First positions at which the receiver's range-proof / output hash files differ from the reference (debug aid).
fn first_hash_diff(src: &Source, chain: &Chain) -> String {
	let t = chain.txhashset();
	let t = t.read();
	let mut out = String::new();
	{
		let pm = t.rangeproof_pmmr_at(&src.archive);
		let mut diffs = vec![];
		for (i, n) in src.t_rp.m.nodes.iter().enumerate() {
			let g = pm.get_from_file(i as u64);
			if g != Some(n.hash) {
				diffs.push(format!("{}:{}", i, if g.is_none() { "none" } else { "other" }));
			}
		}
		out.push_str(&format!("rangeproof_hash_diffs={:?};", &diffs[..diffs.len().min(12)]));
	}
	{
		let pm = t.output_pmmr_at(&src.archive);
		let mut diffs = vec![];
		for (i, n) in src.t_out.m.nodes.iter().enumerate() {
			let g = pm.get_from_file(i as u64);
			if g != Some(n.hash) {
				diffs.push(format!("{}:{}", i, if g.is_none() { "none" } else { "other" }));
			}
		}
		out.push_str(&format!("output_hash_diffs={:?}", &diffs[..diffs.len().min(12)]));
	}
	out
}

/// Which of the receiver's roots differ from the reference roots at the archive header.
fn root_diff(src: &Source, chain: &Chain) -> String {
	let r = src.st_a.roots();
	let t = chain.txhashset();
	let t = t.read();
	match t.roots() {
		Ok(g) => {
			let mut v = vec![];
			if g.output_roots.pmmr_root != r.output_pmmr_root {
				v.push("output");
			}
			if g.output_roots.bitmap_root != r.bitmap_root {
				v.push("bitmap");
			}
			if g.rproof_root != r.rproof_root {
				v.push("rangeproof");
			}
			if g.kernel_root != r.kernel_root {
				v.push("kernel");
			}
			format!("differing_roots={}", v.join("+"))
		}
		Err(e) => format!("roots_unreadable:{:?}", e),
	}
}

fn sizes_of(chain: &Chain) -> (u64, u64, u64) {
	let t = chain.txhashset();
	let t = t.read();
	(t.output_mmr_size(), t.rangeproof_mmr_size(), t.kernel_mmr_size())
}

#[derive(Clone, Debug)]
struct Plan {
	order: &'static str,
	hostile: bool,
	early_tree_segments: bool,
	tip_phase: bool,
	full_validate: bool,
}

const ORDERS: [&str; 6] = ["in_order", "reverse", "shuffled", "shuffled_dups", "tree_by_tree", "interleaved_round_robin"];

#[derive(Clone, Copy, PartialEq, Debug)]
enum It {
	Bm(usize),
	Out(usize),
	Rp(usize),
	Ke(usize),
	HBm(usize),
	HOut(usize),
	HRp(usize),
	HKe(usize),
	Apply,
}

fn tree_items(set: &SegSet, order: &str, p: &mut Prng) -> Vec<It> {
	let o: Vec<It> = (0..set.output.len()).map(It::Out).collect();
	let r: Vec<It> = (0..set.rproof.len()).map(It::Rp).collect();
	let k: Vec<It> = (0..set.kernel.len()).map(It::Ke).collect();
	let mut v: Vec<It> = vec![];
	match order {
		"in_order" => {
			v.extend(o);
			v.extend(r);
			v.extend(k);
		}
		"reverse" => {
			v.extend(o);
			v.extend(r);
			v.extend(k);
			v.reverse();
		}
		"tree_by_tree" => {
			let mut ts = vec![o, r, k];
			p.shuffle(&mut ts);
			for mut t in ts {
				p.shuffle(&mut t);
				v.extend(t);
			}
		}
		"interleaved_round_robin" => {
			let n = o.len().max(r.len()).max(k.len());
			for i in 0..n {
				for t in [&k, &o, &r] {
					if let Some(x) = t.get(i) {
						v.push(*x);
					}
				}
			}
		}
		_ => {
			v.extend(o);
			v.extend(r);
			v.extend(k);
			p.shuffle(&mut v);
		}
	}
	if order == "shuffled_dups" {
		let n = v.len();
		for _ in 0..(n / 2).max(1) {
			let x = v[p.usize_below(n)];
			v.insert(p.usize_below(v.len() + 1), x);
		}
	}
	v
}

struct Delivery<'a> {
	run: &'a Run,
	src: &'a Source,
	set: &'a SegSet,
	pool: &'a HostilePool,
	sig: String,
	honest_refused_after_bitmap: u64,
	hostile_delivered: u64,
	hostile_refused: u64,
	hostile_accepted: Vec<String>,
	apply_errors: Vec<String>,
	panics: Vec<String>,
}

impl<'a> Delivery<'a> {
	/// Deliver one item. `bitmap_final`: the bitmap is complete (honest tree segments must be accepted).
	fn deliver(&mut self, d: &mut Desegmenter, it: It, bitmap_final: bool) {
		let run = self.run;
		let honest = |this: &mut Self, tree: &str, idx: u64, r: Result<Result<(), grin_chain::Error>, vcommon::monitor::PanicReport>| match r {
			Ok(Ok(())) => run.count(&format!("b.honest_accepted.{}", tree), 1),
			Ok(Err(e)) => {
				if bitmap_final || tree == "bitmap" || tree == "kernel" {
					this.honest_refused_after_bitmap += 1;
					run.violation(
						&format!("{};tree={};oracle=honest_segment_accepted_by_desegmenter;event={}", this.sig, tree, err_class(&e)),
						&format!("Desegmenter refused honest {} segment idx {}: {:?}", tree, idx, e),
						json!({"shard": this.src.cfg.shard, "tree": tree, "idx": idx}),
					);
				} else {
					run.count("b.observation.early_tree_segment_refused", 1);
				}
			}
			Err(pr) => {
				this.panics.push(format!("add_{}_segment@{}", tree, rel_loc(&pr.location)));
				run.violation(
					&format!("{};tree={};oracle=honest_segment_accepted_by_desegmenter;event=panic@{}", this.sig, tree, rel_loc(&pr.location)),
					&format!("Desegmenter panicked on honest {} segment idx {}: {}", tree, idx, pr.message),
					json!({"shard": this.src.cfg.shard, "tree": tree, "idx": idx}),
				);
			}
		};
		let hostile = |this: &mut Self, tree: &str, class: &str, r: Result<Result<(), grin_chain::Error>, vcommon::monitor::PanicReport>| {
			this.hostile_delivered += 1;
			let out = match r {
				Ok(Ok(())) => {
					this.hostile_accepted.push(format!("{}:{}", tree, class));
					run.count(&format!("c.hostile_accepted_into_cache.{}", class), 1);
					"accepted".to_string()
				}
				Ok(Err(e)) => {
					this.hostile_refused += 1;
					run.count(&format!("c.hostile_refused.{}", class), 1);
					run.count("c.hostile_pieces_refused", 1);
					format!("refused:{}", err_class(&e))
				}
				Err(pr) => {
					this.hostile_refused += 1;
					run.count("c.hostile_pieces_refused", 1);
					run.count(&format!("c.observation.hostile_panic@{}", rel_loc(&pr.location)), 1);
					format!("panic@{}", rel_loc(&pr.location))
				}
			};
			run.eval(&format!("part=c;tree={};state={};class={};delivery_outcome={}", tree, this.src.state_class, class, out), true);
		};
		match it {
			It::Bm(i) => {
				let (s, r) = self.set.bitmap[i].clone();
				let idx = s.identifier().idx;
				let res = catch(|| d.add_bitmap_segment(s, r));
				honest(self, "bitmap", idx, res);
			}
			It::Out(i) => {
				let (s, r) = self.set.output[i].clone();
				let idx = s.identifier().idx;
				let res = catch(|| d.add_output_segment(s, Some(r)));
				honest(self, "output", idx, res);
			}
			It::Rp(i) => {
				let s = self.set.rproof[i].clone();
				let idx = s.identifier().idx;
				let res = catch(|| d.add_rangeproof_segment(s));
				honest(self, "rangeproof", idx, res);
			}
			It::Ke(i) => {
				let s = self.set.kernel[i].clone();
				let idx = s.identifier().idx;
				let res = catch(|| d.add_kernel_segment(s));
				honest(self, "kernel", idx, res);
			}
			It::HBm(i) => {
				let (c, s, r) = self.pool.bitmap[i].clone();
				let res = catch(|| d.add_bitmap_segment(s, r));
				hostile(self, "bitmap", &c, res);
			}
			It::HOut(i) => {
				let (c, s, r) = self.pool.output[i].clone();
				let res = catch(|| d.add_output_segment(s, Some(r)));
				hostile(self, "output", &c, res);
			}
			It::HRp(i) => {
				let (c, s) = self.pool.rproof[i].clone();
				let res = catch(|| d.add_rangeproof_segment(s));
				hostile(self, "rangeproof", &c, res);
			}
			It::HKe(i) => {
				let (c, s) = self.pool.kernel[i].clone();
				let res = catch(|| d.add_kernel_segment(s));
				hostile(self, "kernel", &c, res);
			}
			It::Apply => match catch(|| d.apply_next_segments()) {
				Ok(Ok(())) => {}
				Ok(Err(e)) => self.apply_errors.push(format!("{:?}", e)),
				Err(pr) => self.panics.push(format!("apply_next_segments@{}", rel_loc(&pr.location))),
			},
		}
	}
}

/// Outcome of one assembly attempt.
enum Assembly {
	/// validate_complete_state returned Ok
	Finalised,
	/// refused somewhere (incomplete, apply error, final validation error)
	Refused(String),
}

/// Hostile items to mix into a delivery: up to `per_class` pieces of every class and tree.
fn hostile_items(pool: &HostilePool, p: &mut Prng, per_class: usize) -> Vec<It> {
	let mut by: BTreeMap<(u8, String), Vec<It>> = BTreeMap::new();
	for (i, x) in pool.output.iter().enumerate() {
		by.entry((0, x.0.clone())).or_default().push(It::HOut(i));
	}
	for (i, x) in pool.rproof.iter().enumerate() {
		by.entry((1, x.0.clone())).or_default().push(It::HRp(i));
	}
	for (i, x) in pool.kernel.iter().enumerate() {
		by.entry((2, x.0.clone())).or_default().push(It::HKe(i));
	}
	let mut v = vec![];
	for (_, mut items) in by {
		p.shuffle(&mut items);
		items.truncate(per_class);
		v.extend(items);
	}
	p.shuffle(&mut v);
	v
}

/// Drive a desegmenter with `set` (+ hostile pieces) in the planned arrival order up to and
/// including `validate_complete_state`.
fn assemble(dl: &mut Delivery, rx: &Rx, d: &mut Desegmenter, plan: &Plan, with_hostile: bool, p: &mut Prng) -> Assembly {
	let src = dl.src;
	let set = dl.set;
	// ---- bitmap phase
	let mut items: Vec<It> = (0..set.bitmap.len()).map(It::Bm).collect();
	match plan.order {
		"reverse" => items.reverse(),
		"in_order" => {}
		_ => p.shuffle(&mut items),
	}
	if plan.order == "shuffled_dups" || set.bitmap.len() == 1 {
		let x = items[p.usize_below(items.len())];
		items.push(x);
	}
	if with_hostile {
		let mut hb: Vec<It> = (0..dl.pool.bitmap.len()).map(It::HBm).collect();
		p.shuffle(&mut hb);
		hb.truncate(12);
		for x in hb {
			items.insert(p.usize_below(items.len() + 1), x);
		}
	}
	if plan.early_tree_segments {
		let mut early = tree_items(set, "shuffled", p);
		early.truncate(4);
		for x in early {
			items.insert(p.usize_below(items.len() + 1), x);
		}
	}
	macro_rules! bail_on_apply_error {
		() => {
			if let Some(e) = dl.apply_errors.first() {
				// state_sync marks the PIBD run as errored on the first apply error and goes to the reset path
				let c = e.split(|c: char| c == '(' || c == '{' || c == ' ').next().unwrap_or("").to_string();
				return Assembly::Refused(format!("apply_error:{},{}", c, e));
			}
			if let Some(e) = dl.panics.first() {
				return Assembly::Refused(format!("panic:{}", e));
			}
		};
	}
	for it in items {
		dl.deliver(d, it, false);
		if p.chance(1, 3) {
			dl.deliver(d, It::Apply, false);
			bail_on_apply_error!();
		}
	}
	for _ in 0..set.bitmap.len() + 2 {
		dl.deliver(d, It::Apply, false);
		bail_on_apply_error!();
	}
	// the bitmap must now be the archive header's
	let got = rx.chain.txhashset().read().roots().map(|r| r.output_roots.bitmap_root);
	let want = src.st_a.bitmap_root();
	match got {
		Ok(g) if g == want => dl.run.count("b.bitmaps_assembled", 1),
		other => {
			if !with_hostile {
				dl.run.violation(
					&format!("{};oracle=assembled_bitmap_is_archive_bitmap", dl.sig),
					&format!("after all honest bitmap segments the receiver's bitmap root is {:?}, the archive header's unspent set commits to {}", other, want),
					json!({"shard": src.cfg.shard}),
				);
			}
			return Assembly::Refused("bitmap_not_assembled".into());
		}
	}
	// ---- the three trees
	let mut items = tree_items(set, plan.order, p);
	if with_hostile {
		for x in hostile_items(dl.pool, p, 3) {
			items.insert(p.usize_below(items.len() + 1), x);
		}
	}
	let apply_pm = match plan.order {
		"in_order" => 150,
		"reverse" => 500,
		_ => 350,
	};
	for it in items {
		dl.deliver(d, it, true);
		if p.chance(apply_pm, 1000) {
			dl.deliver(d, It::Apply, true);
			bail_on_apply_error!();
		}
	}
	// ---- drain
	let target = (src.archive.output_mmr_size, src.archive.output_mmr_size, src.archive.kernel_mmr_size);
	let mut idle = 0;
	let mut redelivered = false;
	let mut rounds = 0;
	loop {
		let before = sizes_of(&rx.chain);
		if before == target {
			break;
		}
		dl.deliver(d, It::Apply, true);
		bail_on_apply_error!();
		rounds += 1;
		if sizes_of(&rx.chain) == before {
			idle += 1;
		} else {
			idle = 0;
		}
		if idle >= 3 {
			if !redelivered {
				// what a node does when a request times out: ask again
				redelivered = true;
				idle = 0;
				dl.run.count("b.redelivery_rounds", 1);
				for it in tree_items(set, "in_order", p) {
					dl.deliver(d, it, true);
				}
				continue;
			}
			break;
		}
		if rounds > 5000 {
			break;
		}
	}
	let got = sizes_of(&rx.chain);
	if got != target {
		return Assembly::Refused(format!("incomplete:sizes={:?},target={:?},apply_errors={:?}", got, target, dl.apply_errors.first()));
	}
	// ---- finalisation as state_sync does it
	let status = Arc::new(SyncState::new());
	let stop = Arc::new(StopState::new());
	match catch(|| d.check_progress(status.clone())) {
		Ok(Ok(true)) => {}
		other => return Assembly::Refused(format!("check_progress:{:?}", other.map_err(|p| p.location).map(|r| r.map_err(|e| err_class(&e))))),
	}
	if let Err(e) = catch(|| d.check_update_leaf_set_state()).map_err(|p| format!("panic@{}", rel_loc(&p.location))).and_then(|r| r.map_err(|e| format!("{:?}", e))) {
		return Assembly::Refused(format!("check_update_leaf_set_state:{}", e));
	}
	match catch(|| d.validate_complete_state(status.clone(), stop.clone())) {
		Ok(Ok(())) => Assembly::Finalised,
		Ok(Err(e)) => Assembly::Refused(format!("validate_complete_state:{},{},{}", err_class(&e), root_diff(src, &rx.chain), if std::env::var("C16_DEBUG").is_ok() { first_hash_diff(src, &rx.chain) } else { String::new() })),
		Err(pr) => Assembly::Refused(format!("validate_complete_state:panic@{}", rel_loc(&pr.location))),
	}
}

/// Compare a finalised receiver with the twin (the source at the archive header) and with the
/// reference ledger. Returns the class of the first difference.
fn compare_at_archive(src: &Source, chain: &Chain, full_validate: bool) -> Option<(String, String)> {
	let head = match chain.head() {
		Ok(h) => h,
		Err(e) => return Some(("head_unreadable".into(), format!("{:?}", e))),
	};
	if head.last_block_h != src.archive.hash() {
		return Some(("head".into(), format!("head {} at {} is not the archive header {}", head.last_block_h, head.height, src.archive.hash())));
	}
	let s = match snapshot(chain, &src.commits) {
		Ok(s) => s,
		Err(e) => return Some(("snapshot_failed".into(), e)),
	};
	if let Some(d) = compare_with_ref(&s, &src.st_a) {
		let class = d.split(|c| c == ':' || c == '(').next().unwrap_or("").trim().replace(' ', "_");
		return Some((format!("vs_reference:{}", class), d));
	}
	let t = &src.twin;
	macro_rules! cmp {
		($f:ident) => {
			if s.$f != t.$f {
				return Some((format!("vs_twin:{}", stringify!($f)), format!("{} differs from the node that processed every block", stringify!($f))));
			}
		};
	}
	cmp!(head);
	cmp!(output_pmmr_root);
	cmp!(bitmap_root);
	cmp!(rproof_root);
	cmp!(kernel_root);
	cmp!(sizes);
	cmp!(unspent);
	cmp!(unspent_enum);
	cmp!(head_sums);
	match catch(|| chain.validate(!full_validate)) {
		Ok(Ok(())) => None,
		Ok(Err(e)) => Some((format!("validate:{}", err_class(&e)), format!("validate({}) failed: {:?}", !full_validate, e))),
		Err(p) => Some((format!("validate:panic@{}", rel_loc(&p.location)), p.message)),
	}
}

/// Deliver the blocks above the archive header and compare with the source at its tip.
fn tip_phase(src: &Source, chain: &Chain) -> Option<(String, String)> {
	for i in src.a + 1..=src.cfg.n_blocks {
		let b = src.w.h.blocks[(i - 1) as usize].block.clone();
		match catch(|| chain.process_block(b, OPTS)) {
			Ok(Ok(_)) => {}
			Ok(Err(e)) => return Some((format!("block_after_sync_rejected:{}", err_class(&e)), format!("block {} on top of the synced state rejected: {:?}", i, e))),
			Err(p) => return Some((format!("block_after_sync:panic@{}", rel_loc(&p.location)), p.message)),
		}
	}
	let s = match snapshot(chain, &src.commits) {
		Ok(s) => s,
		Err(e) => return Some(("tip_snapshot_failed".into(), e)),
	};
	let t = &src.tip_snap;
	macro_rules! cmp {
		($f:ident) => {
			if s.$f != t.$f {
				return Some((format!("tip_vs_source:{}", stringify!($f)), format!("{} differs from the source at the tip", stringify!($f))));
			}
		};
	}
	cmp!(head);
	cmp!(output_pmmr_root);
	cmp!(bitmap_root);
	cmp!(rproof_root);
	cmp!(kernel_root);
	cmp!(sizes);
	cmp!(unspent);
	cmp!(unspent_enum);
	cmp!(head_sums);
	match catch(|| chain.validate(true)) {
		Ok(Ok(())) => None,
		Ok(Err(e)) => Some((format!("tip_validate:{}", err_class(&e)), format!("{:?}", e))),
		Err(p) => Some((format!("tip_validate:panic@{}", rel_loc(&p.location)), p.message)),
	}
}

/// Obtain the desegmenter of a receiver; the construction itself is monitored.
fn get_desegmenter(run: &Run, src: &Source, rx: &Rx) -> Option<Arc<grin_util::RwLock<Option<Desegmenter>>>> {
	let ah = match rx.chain.txhashset_archive_header_header_only() {
		Ok(h) => h,
		Err(e) => {
			run.inconclusive(&format!("receiver archive header: {:?}", e));
			return None;
		}
	};
	if ah.hash() != src.archive.hash() {
		run.inconclusive("receiver and source disagree on the archive header (harness)");
		return None;
	}
	match catch(|| rx.chain.desegmenter(&ah)) {
		Ok(Ok(d)) => Some(d),
		Ok(Err(e)) => {
			run.violation(
				&format!("part=b;oracle=desegmenter_init;event={}", err_class(&e)),
				&format!("Chain::desegmenter failed for the archive header at height {} ({} outputs): {:?}", ah.height, src.n_out, e),
				json!({"shard": src.cfg.shard, "blocks": src.cfg.n_blocks, "archive_height": src.a}),
			);
			None
		}
		Err(pr) => {
			run.count("b.desegmenter_init_panics", 1);
			run.violation(
				&format!("oracle=desegmenter_init;event=panic@{}", rel_loc(&pr.location)),
				&format!(
					"Chain::desegmenter(&archive_header) panicked ({}) for an archive header at height {} with {} outputs (<= 1024: one bitmap chunk) on a headers-only node: state sync from segments cannot start",
					pr.message, ah.height, src.n_out
				),
				json!({"reproducer": "AutomatedTesting chain with consistent genesis, any chain of >= 40 blocks whose archive header has <= 1024 outputs; fresh node, sync all headers, call Chain::desegmenter(&chain.txhashset_archive_header_header_only())",
					"shard": src.cfg.shard, "blocks": src.cfg.n_blocks, "archive_height": src.a, "outputs_at_archive_header": src.n_out}),
			);
			None
		}
	}
}

/// At most one literal sample per worker process, from every third source (the evidence keeps six).
fn sample_slot(shard: usize, kind: usize) -> bool {
	use std::sync::atomic::{AtomicBool, Ordering};
	static TAKEN: AtomicBool = AtomicBool::new(false);
	// kind 0: honest segment sync, 1: hostile segment sync, 2: archive
	shard % 3 == kind && !TAKEN.swap(true, Ordering::SeqCst)
}

/// One receiver synchronising from segments. Returns true if a full state sync completed.
fn segment_sync(run: &Run, sc: &Scratch, src: &Source, set: &SegSet, pool: &HostilePool, plan: &Plan, name: &str, p: &mut Prng) -> bool {
	let rx = match new_receiver(sc, name, src, p) {
		Ok(r) => r,
		Err(e) => {
			run.inconclusive(&format!("receiver setup: {}", e));
			return false;
		}
	};
	let part = if plan.hostile { "c" } else { "b" };
	let sig = format!("part={};state={};hts={:?};order={}", part, src.state_class, src.cfg.hts, plan.order);
	let dlock = match get_desegmenter(run, src, &rx) {
		Some(d) => d,
		None => {
			run.eval(&format!("{};outcome=desegmenter_unavailable", sig), false);
			if sample_slot(src.cfg.shard, if plan.hostile { 1 } else { 0 }) {
				run.sample(json!({"part": part, "shard": src.cfg.shard, "blocks": src.cfg.n_blocks, "archive_height": src.a, "state": src.state_class,
					"outputs_at_archive": src.n_out, "outcome": "desegmenter_unavailable"}));
			}
			rx.close();
			return false;
		}
	};
	let mut guard = dlock.write();
	let d = match guard.as_mut() {
		Some(d) => d,
		None => {
			run.inconclusive("desegmenter slot empty");
			drop(guard);
			rx.close();
			return false;
		}
	};
	d.verif_set_segment_heights(src.cfg.hts.0, src.cfg.hts.1, src.cfg.hts.2, src.cfg.hts.3);
	let mut dl = Delivery {
		run,
		src,
		set,
		pool,
		sig: sig.clone(),
		honest_refused_after_bitmap: 0,
		hostile_delivered: 0,
		hostile_refused: 0,
		hostile_accepted: vec![],
		apply_errors: vec![],
		panics: vec![],
	};
	let replay = json!({"shard": src.cfg.shard, "blocks": src.cfg.n_blocks, "archive_height": src.a, "compact_at": src.cfg.compact_at, "heights": format!("{:?}", src.cfg.hts), "plan": format!("{:?}", plan)});
	let mut done = false;
	let first = assemble(&mut dl, &rx, d, plan, plan.hostile, p);
	let mut outcome;
	match first {
		Assembly::Finalised => {
			outcome = "finalised".to_string();
			match compare_at_archive(src, &rx.chain, plan.full_validate) {
				None => done = true,
				Some((class, detail)) => {
					outcome = format!("finalised_wrong:{}", class);
					run.count("wrong_finalisations", 1);
					run.violation(
						&format!("{};oracle=finalised_state_equals_twin;diff={};hostile_accepted={}", sig, class, !dl.hostile_accepted.is_empty()),
						&format!("validate_complete_state returned Ok but the receiver differs from the node that processed every block up to the archive header: {} (hostile pieces accepted into the cache: {:?})", detail, dl.hostile_accepted),
						replay.clone(),
					);
				}
			}
		}
		Assembly::Refused(why) => {
			let wclass = why.split(|c| c == ',' || c == '=').next().unwrap_or("").to_string();
			outcome = format!("refused:{}", wclass);
			if !plan.hostile {
				run.violation(
					&format!("{};oracle=honest_state_sync_completes;event={}", sig, wclass),
					&format!("honest segments in arrival order '{}' did not lead to a finalised state: {}", plan.order, why),
					replay.clone(),
				);
			} else {
				// the documented way out: reset and start again with honest material
				run.count("c.final_refusals", 1);
				d.reset();
				let r1 = rx.chain.reset_pibd_head();
				let r2 = rx.chain.reset_chain_head_to_genesis();
				let r3 = rx.chain.reset_prune_lists();
				if std::env::var("C16_DEBUG").is_ok() {
					let fl = |f: &str| std::fs::metadata(format!("{}/db/txhashset/{}", rx.root, f)).map(|m| m.len()).unwrap_or(9999999);
					eprintln!(
						"C16_DEBUG after reset: sizes {:?} rp_hash {} rp_data {} rp_prun {} rp_leaf {} out_hash {} out_data {}",
						sizes_of(&rx.chain), fl("rangeproof/pmmr_hash.bin"), fl("rangeproof/pmmr_data.bin"), fl("rangeproof/pmmr_prun.bin"), fl("rangeproof/pmmr_leaf.bin"), fl("output/pmmr_hash.bin"), fl("output/pmmr_data.bin")
					);
				}
				if r1.is_err() || r2.is_err() || r3.is_err() {
					run.violation(
						&format!("{};oracle=recovery_after_hostile;event=reset_failed", sig),
						&format!("reset path failed: {:?} {:?} {:?}", r1, r2, r3),
						replay.clone(),
					);
				} else {
					dl.apply_errors.clear();
					dl.panics.clear();
					let honest_plan = Plan {
						order: "shuffled",
						hostile: false,
						early_tree_segments: false,
						tip_phase: false,
						full_validate: false,
					};
					match assemble(&mut dl, &rx, d, &honest_plan, false, p) {
						Assembly::Finalised => match compare_at_archive(src, &rx.chain, false) {
							None => {
								outcome = format!("{};reset_then_honest_ok", outcome);
								run.count("c.recoveries_through_reset", 1);
								done = true;
							}
							Some((class, detail)) => {
								run.count("wrong_finalisations", 1);
								run.violation(&format!("{};oracle=recovery_after_hostile;diff={}", sig, class), &format!("after reset and honest segments the state differs: {}", detail), replay.clone());
							}
						},
						Assembly::Refused(w2) => {
							run.violation(
								&format!("{};oracle=recovery_after_hostile;event={}", sig, w2.split(|c| c == ',' || c == '=').next().unwrap_or("")),
								&format!("hostile material was refused at the end ({}) but after the reset path honest segments did not complete: {}", why, w2),
								replay.clone(),
							);
						}
					}
				}
			}
		}
	}
	drop(guard);
	if done {
		if plan.hostile {
			run.count("c.hostile_syncs_ending_right", 1);
		} else {
			run.count("b.full_state_syncs_from_segments", 1);
			if src.cfg.boundary {
				run.count("b.full_state_syncs_with_exactly_1024_outputs_at_the_archive_header", 1);
			}
			if src.cfg.dense {
				run.count("b.full_state_syncs_with_an_all_zero_first_bitmap_chunk", 1);
			}
			if set.output.len() >= 2 && set.rproof.len() >= 2 && set.kernel.len() >= 2 {
				run.count("b.full_state_syncs_multi_segment", 1);
			}
			if set.bitmap.len() >= 2 {
				run.count("b.full_state_syncs_multi_bitmap_segment", 1);
			}
		}
		if plan.tip_phase {
			match tip_phase(src, &rx.chain) {
				None => run.count("b.synced_to_tip", 1),
				Some((class, detail)) => {
					outcome = format!("{};tip:{}", outcome, class);
					run.violation(&format!("{};oracle=synced_node_follows_to_tip;diff={}", sig, class), &detail, replay.clone());
				}
			}
		}
	}
	run.eval(
		&format!("{};segs={}/{}/{}/{};hostile_accepted={};outcome={}", sig, set.bitmap.len().min(3), set.output.len().min(9), set.rproof.len().min(9), set.kernel.len().min(9), dl.hostile_accepted.len().min(2), outcome),
		true,
	);
	if sample_slot(src.cfg.shard, if plan.hostile { 1 } else { 0 }) {
	run.sample(json!({"part": part, "shard": src.cfg.shard, "blocks": src.cfg.n_blocks, "archive_height": src.a, "state": src.state_class, "outputs_at_archive": src.n_out,
		"unspent_at_archive": src.bm_ref.cardinality(), "heights": format!("{:?}", src.cfg.hts), "segments": [set.bitmap.len(), set.output.len(), set.rproof.len(), set.kernel.len()],
		"order": plan.order, "hostile_delivered": dl.hostile_delivered, "hostile_refused": dl.hostile_refused, "hostile_accepted": dl.hostile_accepted, "outcome": outcome}));
	}
	rx.close();
	done
}

// ===================================================================== zip path

fn zip_file_list(archive: &Hash) -> Vec<std::path::PathBuf> {
	use std::path::PathBuf;
	vec![
		PathBuf::from("kernel/pmmr_data.bin"),
		PathBuf::from("kernel/pmmr_hash.bin"),
		PathBuf::from("output/pmmr_data.bin"),
		PathBuf::from("output/pmmr_hash.bin"),
		PathBuf::from("output/pmmr_prun.bin"),
		PathBuf::from("rangeproof/pmmr_data.bin"),
		PathBuf::from("rangeproof/pmmr_hash.bin"),
		PathBuf::from("rangeproof/pmmr_prun.bin"),
		PathBuf::from(format!("output/pmmr_leaf.bin.{}", archive)),
		PathBuf::from(format!("rangeproof/pmmr_leaf.bin.{}", archive)),
	]
}

struct ZipKit {
	honest: Vec<u8>,
	/// the honest archive unpacked
	dir: String,
}

fn make_zip_kit(sc: &Scratch, src: &Source) -> Result<ZipKit, String> {
	use std::io::Read;
	let ah = src.archive.hash();
	let (_o, _k, mut f) = catch(|| src.chain.txhashset_read(ah))
		.map_err(|p| format!("txhashset_read panicked: {} @{}", p.message, p.location))?
		.map_err(|e| format!("txhashset_read: {:?}", e))?;
	let mut honest = vec![];
	f.read_to_end(&mut honest).map_err(|e| e.to_string())?;
	let dir = sc.sub(&format!("zipkit{}", src.cfg.shard));
	let _ = std::fs::remove_dir_all(&dir);
	std::fs::create_dir_all(&dir).map_err(|e| e.to_string())?;
	let zp = format!("{}/honest.zip", dir);
	std::fs::write(&zp, &honest).map_err(|e| e.to_string())?;
	let ex = format!("{}/x", dir);
	std::fs::create_dir_all(&ex).map_err(|e| e.to_string())?;
	grin_util::zip::extract_files(std::fs::File::open(&zp).map_err(|e| e.to_string())?, std::path::Path::new(&ex), zip_file_list(&ah)).map_err(|e| format!("extract: {}", e))?;
	Ok(ZipKit { honest, dir })
}

/// Build a hostile archive. Returns (class, bytes) or None if not applicable to this source.
fn hostile_zip(kit: &ZipKit, src: &Source, variant: usize, p: &mut Prng) -> Option<(String, Vec<u8>)> {
	let ah = src.archive.hash();
	let files = zip_file_list(&ah);
	let ex = format!("{}/x", kit.dir);
	let work = format!("{}/w", kit.dir);
	let rezip = |class: String, list: Vec<std::path::PathBuf>, edit: &dyn Fn(&str) -> bool| -> Option<(String, Vec<u8>)> {
		copy_dir(&ex, &work).ok()?;
		if !edit(&work) {
			return None;
		}
		let zp = format!("{}/hostile.zip", kit.dir);
		let f = std::fs::File::create(&zp).ok()?;
		grin_util::zip::create_zip(&f, std::path::Path::new(&work), list).ok()?;
		drop(f);
		let b = std::fs::read(&zp).ok()?;
		Some((class, b))
	};
	let flip_at = |path: String, off: Option<u64>, frac: (u64, u64), bit: u8| {
		move |w: &str| -> bool {
			let fp = format!("{}/{}", w, path);
			match std::fs::read(&fp) {
				Ok(mut b) if !b.is_empty() => {
					let o = off.unwrap_or(b.len() as u64 * frac.0 / frac.1).min(b.len() as u64 - 1) as usize;
					b[o] ^= bit;
					std::fs::write(&fp, b).is_ok()
				}
				_ => false,
			}
		}
	};
	// an unspent and a spent output at the archive header, for targeted edits of the output data file
	let unspent: Vec<u64> = src.st_a.unspent_idx();
	let spent: Vec<u64> = (0..src.n_out).filter(|i| !src.bm_ref.contains(*i as u32)).collect();
	let uncompacted = src.state_class != "compacted";
	match variant {
		0 => {
			let mut b = kit.honest.clone();
			let o = b.len() / 3;
			b[o] ^= 0x10;
			Some(("zip_container_byte_flipped".into(), b))
		}
		1 => {
			let mut b = kit.honest.clone();
			b.truncate(b.len() / 2);
			Some(("zip_truncated".into(), b))
		}
		2 if uncompacted && !unspent.is_empty() => {
			let i = *p.pick(&unspent);
			rezip("output_data_features_of_unspent_flipped".into(), files.clone(), &flip_at("output/pmmr_data.bin".into(), Some(i * 34), (0, 1), 0x01))
		}
		3 if uncompacted && !unspent.is_empty() => {
			let i = *p.pick(&unspent);
			rezip("output_data_commitment_of_unspent_flipped".into(), files.clone(), &flip_at("output/pmmr_data.bin".into(), Some(i * 34 + 1 + p.below(33)), (0, 1), 0x04))
		}
		4 if uncompacted && !spent.is_empty() => {
			let i = *p.pick(&spent);
			rezip("output_data_of_spent_flipped".into(), files.clone(), &flip_at("output/pmmr_data.bin".into(), Some(i * 34 + 5), (0, 1), 0x04))
		}
		5 => rezip("output_hash_file_byte_flipped".into(), files.clone(), &flip_at("output/pmmr_hash.bin".into(), None, (1 + p.below(3), 5), 0x20)),
		6 => rezip("rangeproof_data_byte_flipped".into(), files.clone(), &flip_at("rangeproof/pmmr_data.bin".into(), None, (1 + p.below(3), 5), 0x02)),
		7 => rezip("rangeproof_hash_file_byte_flipped".into(), files.clone(), &flip_at("rangeproof/pmmr_hash.bin".into(), None, (1 + p.below(3), 5), 0x02)),
		8 => rezip("kernel_data_byte_flipped".into(), files.clone(), &flip_at("kernel/pmmr_data.bin".into(), None, (1 + p.below(3), 5), 0x08)),
		9 => rezip("kernel_hash_file_byte_flipped".into(), files.clone(), &flip_at("kernel/pmmr_hash.bin".into(), None, (1 + p.below(3), 5), 0x08)),
		10 => rezip("output_leaf_set_byte_flipped".into(), files.clone(), &flip_at(format!("output/pmmr_leaf.bin.{}", ah), None, (2, 3), 0x01)),
		11 => rezip("rangeproof_leaf_set_byte_flipped".into(), files.clone(), &flip_at(format!("rangeproof/pmmr_leaf.bin.{}", ah), None, (2, 3), 0x01)),
		12 => {
			let mut l = files.clone();
			l.retain(|f| !f.to_string_lossy().starts_with("output/pmmr_leaf"));
			rezip("missing_output_leaf_set".into(), l, &|_| true)
		}
		13 => {
			let mut l = files.clone();
			l.retain(|f| f.to_string_lossy() != "kernel/pmmr_data.bin");
			rezip("missing_kernel_data".into(), l, &|_| true)
		}
		14 => {
			let mut l = files.clone();
			l.retain(|f| f.to_string_lossy() != "rangeproof/pmmr_hash.bin");
			rezip("missing_rangeproof_hash_file".into(), l, &|_| true)
		}
		15 => {
			let mut l = files.clone();
			l.push(std::path::PathBuf::from("output/extra.bin"));
			l.push(std::path::PathBuf::from("extra_top.bin"));
			rezip("extra_files".into(), l, &|w: &str| std::fs::write(format!("{}/output/extra.bin", w), b"extra").is_ok() && std::fs::write(format!("{}/extra_top.bin", w), b"extra").is_ok())
		}
		16 if src.state_class == "compacted" => rezip("output_prune_list_byte_flipped".into(), files.clone(), &flip_at("output/pmmr_prun.bin".into(), None, (1, 2), 0x01)),
		17 => {
			// the leaf sets of the two prunable trees swapped
			rezip("leaf_sets_swapped".into(), files.clone(), &|w: &str| {
				let a = format!("{}/output/pmmr_leaf.bin.{}", w, ah);
				let b = format!("{}/rangeproof/pmmr_leaf.bin.{}", w, ah);
				match (std::fs::read(&a), std::fs::read(&b)) {
					(Ok(x), Ok(y)) => x != y && std::fs::write(&a, y).is_ok() && std::fs::write(&b, x).is_ok(),
					_ => false,
				}
			})
		}
		18 | 19 if uncompacted => {
			// an unspent output re-labelled (features byte) in the data file WITH its leaf hash recomputed in the hash
			// file, so data and leaf hash agree and only the parent hash above (and with it the root) gives it away;
			// 18: its sibling leaf is spent, 19: its sibling leaf is unspent too
			let want_spent_sibling = variant == 18;
			let cand: Vec<u64> = unspent
				.iter()
				.cloned()
				.filter(|i| (i ^ 1) < src.n_out && src.bm_ref.contains((i ^ 1) as u32) != want_spent_sibling)
				.collect();
			if cand.is_empty() {
				return None;
			}
			let i = *p.pick(&cand);
			let class = if want_spent_sibling { "unspent_leaf_relabelled_with_matching_leaf_hash_sibling_spent" } else { "unspent_leaf_relabelled_with_matching_leaf_hash_sibling_unspent" };
			rezip(class.into(), files.clone(), &move |w: &str| {
				use grin_core::core::{OutputFeatures, OutputIdentifier};
				use grin_core::ser::PMMRIndexHashable;
				let dp = format!("{}/output/pmmr_data.bin", w);
				let hp = format!("{}/output/pmmr_hash.bin", w);
				let (mut d, mut hs) = match (std::fs::read(&dp), std::fs::read(&hp)) {
					(Ok(a), Ok(b)) => (a, b),
					_ => return false,
				};
				let o = (i * 34) as usize;
				let pos0 = grin_core::core::pmmr::insertion_to_pmmr_index(i);
				let ho = (pos0 * 32) as usize;
				if o + 34 > d.len() || ho + 32 > hs.len() {
					return false;
				}
				d[o] ^= 1;
				let id = OutputIdentifier {
					features: if d[o] == 1 { OutputFeatures::Coinbase } else { OutputFeatures::Plain },
					commit: grin_util::secp::pedersen::Commitment::from_vec(d[o + 1..o + 34].to_vec()),
				};
				let nh = id.hash_with_index(pos0);
				hs[ho..ho + 32].copy_from_slice(nh.as_bytes());
				std::fs::write(&dp, d).is_ok() && std::fs::write(&hp, hs).is_ok()
			})
		}
		_ => None,
	}
}

const N_ZIP_VARIANTS: usize = 20;

thread_local! {
	/// why the last archive was refused (error class or panic location)
	static ZIP_LAST: std::cell::RefCell<String> = std::cell::RefCell::new(String::new());
	static ZIP_REFUSALS: std::cell::Cell<u64> = std::cell::Cell::new(0);
}

/// Feed one archive to a receiver the way the adapter does. Ok(true): finalised; Ok(false): refused
/// (reason in ZIP_LAST, sandbox cleaned); Err: harness I/O problem.
fn feed_zip(rx: &Rx, src: &Source, bytes: &[u8], tag: &str) -> Result<bool, String> {
	let path = format!("{}/in_{}.zip", rx.root, tag);
	std::fs::write(&path, bytes).map_err(|e| e.to_string())?;
	let f = std::fs::File::open(&path).map_err(|e| e.to_string())?;
	let status = SyncState::new();
	let ah = src.archive.hash();
	let r = catch(|| rx.chain.txhashset_write(ah, f, &status));
	let _ = std::fs::remove_file(&path);
	let why = match r {
		Ok(Ok(false)) => return Ok(true),
		Ok(Ok(true)) => "refused:bad_data_flag".to_string(),
		Ok(Err(e)) => format!("refused:{}", err_class(&e)),
		Err(p) => format!("panic@{}", rel_loc(&p.location)),
	};
	// the node's adapter cleans the unpacking sandbox after a refusal; a node that died during the validation of an
	// archive never got to it. Every second refusal leaves the sandbox as it is: the next archive must not care
	let n = ZIP_REFUSALS.with(|c| {
		c.set(c.get() + 1);
		c.get()
	});
	if n % 2 == 0 {
		rx.chain.clean_txhashset_sandbox();
	}
	ZIP_LAST.with(|l| *l.borrow_mut() = why);
	Ok(false)
}

/// Honest archive → same comparisons as the segment path, then to the tip.
fn zip_sync(run: &Run, sc: &Scratch, src: &Source, kit: &ZipKit, name: &str, tip: bool, p: &mut Prng) -> bool {
	let rx = match new_receiver(sc, name, src, p) {
		Ok(r) => r,
		Err(e) => {
			run.inconclusive(&format!("receiver setup: {}", e));
			return false;
		}
	};
	let sig = format!("part=b;path=zip;state={}", src.state_class);
	let replay = json!({"shard": src.cfg.shard, "blocks": src.cfg.n_blocks, "archive_height": src.a, "compact_at": src.cfg.compact_at});
	let mut ok = false;
	match feed_zip(&rx, src, &kit.honest, "honest") {
		Ok(true) => match compare_at_archive(src, &rx.chain, true) {
			None => {
				ok = true;
				run.count("b.zip_syncs", 1);
				if tip {
					if let Some((class, detail)) = tip_phase(src, &rx.chain) {
						run.violation(&format!("{};oracle=synced_node_follows_to_tip;diff={}", sig, class), &detail, replay.clone());
					} else {
						run.count("b.synced_to_tip", 1);
					}
				}
			}
			Some((class, detail)) => {
				run.count("wrong_finalisations", 1);
				run.violation(&format!("{};oracle=finalised_state_equals_twin;diff={}", sig, class), &format!("txhashset_write accepted the honest archive but: {}", detail), replay.clone());
			}
		},
		Ok(false) => {
			let why = ZIP_LAST.with(|l| l.borrow().clone());
			run.violation(&format!("{};oracle=honest_archive_accepted;event={}", sig, why), &format!("txhashset_write refused the honest archive of the source: {}", why), replay.clone());
		}
		Err(e) => run.inconclusive(&format!("zip feed: {}", e)),
	}
	run.eval(&format!("{};outcome={}", sig, if ok { "finalised_equal" } else { "failed" }), true);
	if sample_slot(src.cfg.shard, 2) {
		run.sample(json!({"part": "b", "path": "zip", "shard": src.cfg.shard, "blocks": src.cfg.n_blocks, "archive_height": src.a, "state": src.state_class,
			"archive_bytes": kit.honest.len(), "outcome": if ok { "finalised, equal to the twin, followed the source to the tip" } else { "failed" }}));
	}
	rx.close();
	ok
}

/// Output PMMR root by definition over the leaf data the finalised node holds (None if some
/// leaf datum is not available, e.g. compacted away).
fn output_root_over_held_data(src: &Source, chain: &Chain) -> Option<Hash> {
	let t = chain.txhashset();
	let t = t.read();
	let pm = t.output_pmmr_at(&src.archive);
	let mut m = RefMMR::new();
	for li in 0..src.n_out as usize {
		let pos = src.t_out.m.leaf_pos[li] as u64;
		let d = pm.get_data_from_file(pos)?;
		m.push(&d);
	}
	Some(m.root())
}

/// Hostile archives against one receiver (fresh one after every finalisation), then the honest one.
fn zip_hostile(run: &Run, sc: &Scratch, src: &Source, kit: &ZipKit, variants: &[usize], name: &str, p: &mut Prng) {
	let mut rx = match new_receiver(sc, name, src, p) {
		Ok(r) => r,
		Err(e) => {
			run.inconclusive(&format!("receiver setup: {}", e));
			return;
		}
	};
	let mut refusals = 0;
	for &v in variants {
		let (class, bytes) = match hostile_zip(kit, src, v, p) {
			Some(x) => x,
			None => continue,
		};
		let sig = format!("part=c;path=zip;state={};class={}", src.state_class, class);
		let replay = json!({"shard": src.cfg.shard, "blocks": src.cfg.n_blocks, "archive_height": src.a, "variant": v, "class": class});
		match feed_zip(&rx, src, &bytes, "hostile") {
			Ok(true) => {
				// finalised: fine only if the state is the twin's
				match compare_at_archive(src, &rx.chain, true) {
					None => {
						run.count(&format!("c.zip_hostile_finalised_right_state.{}", class), 1);
						run.eval(&format!("{};outcome=finalised_equal", sig), true);
					}
					Some((dclass, detail)) => {
						run.count("wrong_finalisations", 1);
						run.eval(&format!("{};outcome=finalised_wrong:{}", sig, dclass), true);
						let want = src.st_a.roots().output_pmmr_root;
						match output_root_over_held_data(src, &rx.chain) {
							Some(r) if r != want => run.violation(
								&format!("part=c;path=zip;class={};oracle=finalised_state_roots_equal_archive_header;event=output_root_over_finalised_leaf_data_differs", class),
								&format!(
									"txhashset_write returned Ok for an archive with '{}': the output PMMR root over the leaf data the node now holds is {}, the archive header commits to {} (the node reports the header's root because it only reads the hash file); consequence: {}",
									class, r, want, detail
								),
								replay,
							),
							_ => run.violation(
								&format!("{};oracle=finalised_state_equals_twin;diff={}", sig, dclass),
								&format!("txhashset_write returned Ok for an archive with '{}' and the resulting state differs from the node that processed every block: {}", class, detail),
								replay,
							),
						}
					}
				}
				rx.close();
				rx = match new_receiver(sc, name, src, p) {
					Ok(r) => r,
					Err(e) => {
						run.inconclusive(&format!("receiver setup: {}", e));
						return;
					}
				};
				refusals = 0;
			}
			Ok(false) => {
				let why = ZIP_LAST.with(|l| l.borrow().clone());
				refusals += 1;
				if sample_slot(src.cfg.shard, 2) {
					run.sample(json!({"part": "c", "path": "zip", "shard": src.cfg.shard, "blocks": src.cfg.n_blocks, "archive_height": src.a, "class": class, "outcome": why}));
				}
				run.count(&format!("c.zip_hostile_refused.{}", class), 1);
				run.count("c.hostile_pieces_refused", 1);
				run.eval(&format!("{};outcome={}", sig, why), true);
				// the refusal must not have touched the node
				match rx.chain.head() {
					Ok(h) if h.height == 0 => {}
					other => run.violation(&format!("{};oracle=refusal_leaves_head", sig), &format!("after a refused archive the head is {:?}", other.map(|h| h.height)), replay),
				}
			}
			Err(e) => run.inconclusive(&format!("zip feed: {}", e)),
		}
	}
	// honest material after the refusals
	if refusals > 0 {
		let sig = format!("part=c;path=zip;state={}", src.state_class);
		match feed_zip(&rx, src, &kit.honest, "honest") {
			Ok(true) => match compare_at_archive(src, &rx.chain, false) {
				None => run.count("c.zip_honest_after_refusals_ok", 1),
				Some((class, detail)) => {
					run.count("wrong_finalisations", 1);
					run.violation(&format!("{};oracle=honest_after_refusals;diff={}", sig, class), &detail, Value::Null)
				}
			},
			Ok(false) => {
				let why = ZIP_LAST.with(|l| l.borrow().clone());
				run.violation(&format!("{};oracle=honest_after_refusals;event={}", sig, why), &format!("after {} refused archives the honest archive is refused: {}", refusals, why), Value::Null);
			}
			Err(e) => run.inconclusive(&format!("zip feed: {}", e)),
		}
	}
	rx.close();
}

// ===================================================================== chain worker

fn src_cfg(run: &Run, shard: usize, san: bool) -> SrcCfg {
	// `shard` here is the source id: worker shard + 13 * round
	let mut p = Prng::new(run.seed ^ (shard as u64 + 7).wrapping_mul(0x5EED_C16));
	let thorough = run.tier.name() == "thorough";
	let hsel = [(0u8, 2u8, 2u8, 2u8), (0, 3, 2, 4), (0, 2, 4, 3), (0, 4, 3, 2), (0, 3, 3, 3), (0, 2, 3, 2)];
	let hts = hsel[(shard + (run.seed % 6) as usize) % hsel.len()];
	if san {
		return SrcCfg { shard, n_blocks: 45, compact_at: None, hts, big: false, hostile_material: false, boundary: false, dense: false, forged: None };
	}
	let compacted = shard % 13 == 0 || (thorough && shard % 13 == 1);
	let big = thorough && shard == 3;
	if big {
		// archive header at 110: 1 + 110 + 9*106 + 99 = 1164 outputs (two bitmap chunks)
		return SrcCfg { shard, n_blocks: 131, compact_at: None, hts: (0, 6, 5, 6), big: true, hostile_material: false, boundary: false, dense: false, forged: None };
	}
	if shard == 5 {
		// archive header at 110: 1 + 110 + (72*8 + 34*7) + 99 = 1024 outputs exactly
		return SrcCfg { shard, n_blocks: 131, compact_at: None, hts: (0, 6, 5, 6), big: true, hostile_material: false, boundary: true, dense: false, forged: None };
	}
	if shard == 6 {
		// archive header at 120: 1159 outputs, everything below index 1099 spent (an all-zero bitmap chunk in front of
		// a non-zero one); 8 outputs per big transaction keep the blocks within the test weight limit
		return SrcCfg { shard, n_blocks: 141, compact_at: if run.seed % 2 == 0 { Some(131) } else { None }, hts: (0, 6, 5, 6), big: true, hostile_material: false, boundary: false, dense: true, forged: None };
	}
	if compacted {
		let hc = 82 + p.below(8);
		let n = hc + 9 + p.below(6);
		return SrcCfg { shard, n_blocks: n, compact_at: Some(hc), hts, big: false, hostile_material: shard % 2 == 1, boundary: false, dense: false, forged: None };
	}
	SrcCfg {
		shard,
		n_blocks: 45 + p.below(26),
		compact_at: None,
		hts,
		big: false,
		hostile_material: shard % 2 == 1,
		boundary: false,
		dense: false,
		forged: None,
	}
}

/// Segments of the same-shape fork (identical up to archive-2, other coinbases above) served by
/// a node on that fork.
fn fork_segments(run: &Run, src: &mut Source) -> Option<SegSet> {
	let fd = src.fork_dir.clone()?;
	let a = src.a;
	let mut tip = src.w.hashes[(a - 2) as usize];
	let mut blocks = vec![];
	for j in a - 1..=a {
		let txs = src.w.txs[j as usize].clone();
		let gb = src.w.h.add_block(&tip, &txs, "fork", vec![]);
		if gb.verdict.is_err() {
			run.inconclusive("fork block not valid by the reference (harness)");
			return None;
		}
		tip = gb.hash;
		blocks.push(gb.block);
	}
	let fork_archive = tip;
	for _ in 0..20 {
		let gb = src.w.h.add_block(&tip, &[], "fork", vec![]);
		tip = gb.hash;
		blocks.push(gb.block);
	}
	let chain = open_chain(&fd, &src.w.h.genesis).ok()?;
	for b in blocks {
		if let Err(e) = chain.process_block(b, OPTS) {
			run.inconclusive(&format!("fork node rejected a fork block: {:?}", e));
			return None;
		}
	}
	let st = src.w.h.state(&fork_archive);
	if st.outs.len() as u64 != src.n_out || st.n_kernels != src.n_kern {
		run.inconclusive("fork does not have the shape of the main chain (harness)");
		return None;
	}
	let r = fetch_segments(&chain, &fork_archive, src.n_out, src.n_kern, src.cfg.hts);
	drop(chain);
	let _ = std::fs::remove_dir_all(&fd);
	// the fork blocks must not count as blocks of the main history
	match r {
		Ok(s) => Some(s),
		Err(e) => {
			run.inconclusive(&format!("fork segments: {}", e));
			None
		}
	}
}

fn chain_worker(run: &Run, shard: usize, san: bool) {
	let start = Instant::now();
	let budget = if san { 200.0 } else { run.tier.pick(80.0, 540.0) };
	let mut round = 0usize;
	loop {
		let id = shard + 13 * round;
		let left = budget - start.elapsed().as_secs_f64();
		if round > 0 && (left < run.tier.pick(40.0, 60.0) || san) {
			break;
		}
		chain_source(run, id, san, left);
		round += 1;
		if run.n_violations() > 8 {
			break;
		}
	}
}

fn chain_source(run: &Run, shard: usize, san: bool, budget: f64) {
	let start = Instant::now();
	let sc = Scratch::new(&format!("c16c{}", shard));
	let cfg = src_cfg(run, shard, san);
	let mut src = match build_source(run, &sc, &cfg) {
		Ok(s) => s,
		Err(e) => {
			run.inconclusive(&format!("source {} ({:?}) could not be built: {}", shard, cfg, e));
			return;
		}
	};
	run.count("b.sources", 1);
	run.count(&format!("b.sources.{}", src.state_class), 1);
	run.set_max("max_outputs_at_archive_header", src.n_out);
	let mut p = Prng::new(run.seed ^ (shard as u64 + 3).wrapping_mul(0xA11CE));
	// served segments: sentence 1 at chain level
	let set = match fetch_segments(&src.chain, &src.archive.hash(), src.n_out, src.n_kern, cfg.hts) {
		Ok(s) => s,
		Err(e) => {
			run.violation(
				&format!("part=b;state={};oracle=source_serves_segments;event={}", src.state_class, e.split(|c| c == '(' || c == ':').next().unwrap_or("")),
				&format!("the source node could not serve a segment of its archive state: {}", e),
				json!({"shard": shard, "cfg": format!("{:?}", cfg)}),
			);
			return;
		}
	};
	let mut pool = check_chain_segments(run, &src, &set, &mut p, if cfg.big { 1 } else { 2 });
	// more segment heights through the same checks (no receiver involved)
	if !san {
		for hts in [(0u8, 0u8, 0u8, 0u8), (1, 1, 1, 1), (0, 5, 5, 5), (2, 6, 6, 6)] {
			if hts.1 == 0 && src.state_class != "none" {
				// single-leaf segments next to a spent sibling cannot be produced (see part (a)); kernels only
				if let Ok(sg) = src.chain.segmenter() {
					let ks: Vec<Segment<TxKernel>> = (0..src.n_kern).filter_map(|idx| sg.kernel_segment(SegmentIdentifier { height: 0, idx }).ok()).collect();
					let s2 = SegSet { bitmap: vec![], output: vec![], rproof: vec![], kernel: ks };
					check_chain_segments(run, &src, &s2, &mut p, 1);
				}
				continue;
			}
			match fetch_segments(&src.chain, &src.archive.hash(), src.n_out, src.n_kern, hts) {
				Ok(s2) => {
					check_chain_segments(run, &src, &s2, &mut p, 1);
				}
				Err(e) => {
					run.violation(
						&format!("part=b;state={};oracle=source_serves_segments;event={}", src.state_class, e.split(|c| c == '(' || c == ':').next().unwrap_or("")),
						&format!("the source node could not serve a segment at heights {:?}: {}", hts, e),
						json!({"shard": shard, "cfg": format!("{:?}", cfg)}),
					);
				}
			}
		}
	}
	// hostile material from other chains / other archive headers
	if let Some(oa) = src.other_archive.clone() {
		for (s, r) in oa.bitmap {
			pool.bitmap.push(("other_archive_header".into(), s, r));
		}
		for (s, r) in oa.output {
			pool.output.push(("other_archive_header".into(), s, r));
		}
		for s in oa.rproof {
			pool.rproof.push(("other_archive_header".into(), s));
		}
		for s in oa.kernel {
			pool.kernel.push(("other_archive_header".into(), s));
		}
	}
	if cfg.hostile_material {
		if let Some(fs) = fork_segments(run, &mut src) {
			for (s, r) in fs.bitmap {
				pool.bitmap.push(("same_shape_fork".into(), s, r));
			}
			for (s, r) in fs.output {
				pool.output.push(("same_shape_fork".into(), s, r));
			}
			for s in fs.rproof {
				pool.rproof.push(("same_shape_fork".into(), s));
			}
			for s in fs.kernel {
				pool.kernel.push(("same_shape_fork".into(), s));
			}
		}
	}
	run.count("c.hostile_pool_size", pool.len() as u64);
	let kit = match make_zip_kit(&sc, &src) {
		Ok(k) => Some(k),
		Err(e) => {
			run.violation(&format!("part=b;path=zip;state={};oracle=source_serves_archive", src.state_class), &format!("txhashset_read of the archive header failed: {}", e), json!({"shard": shard}));
			None
		}
	};
	// receivers
	let mut n = 0usize;
	let mut est = 12.0f64;
	loop {
		let left = budget - start.elapsed().as_secs_f64();
		if n >= 3 && left < est * 1.3 {
			break;
		}
		if n >= run.tier.pick(10, 16) || (san && n >= 3) || (cfg.big && n >= 4) || ((cfg.boundary || cfg.dense) && n >= run.tier.pick(2, 4)) {
			break;
		}
		let t = Instant::now();
		let name = format!("rx{}", n);
		let order = ORDERS[(shard + n * 5 + (run.seed % 6) as usize) % ORDERS.len()];
		match n % 4 {
			0 => {
				let plan = Plan { order, hostile: false, early_tree_segments: n % 8 == 4, tip_phase: true, full_validate: n == 0 };
				segment_sync(run, &sc, &src, &set, &pool, &plan, &name, &mut p);
			}
			1 => {
				let plan = Plan { order, hostile: true, early_tree_segments: false, tip_phase: false, full_validate: false };
				segment_sync(run, &sc, &src, &set, &pool, &plan, &name, &mut p);
			}
			2 => {
				if let Some(k) = &kit {
					if (shard + n / 4) % 2 == 0 {
						zip_sync(run, &sc, &src, k, &name, true, &mut p);
					} else {
						let mut vs: Vec<usize> = (0..N_ZIP_VARIANTS).collect();
						p.shuffle(&mut vs);
						vs.truncate(run.tier.pick(6, 10));
						zip_hostile(run, &sc, &src, k, &vs, &name, &mut p);
					}
				}
			}
			_ => {
				let plan = Plan { order, hostile: false, early_tree_segments: true, tip_phase: n % 8 == 3, full_validate: false };
				segment_sync(run, &sc, &src, &set, &pool, &plan, &name, &mut p);
			}
		}
		est = est.max(t.elapsed().as_secs_f64());
		n += 1;
		if run.n_violations() > 8 {
			break;
		}
	}
	run.count("b.receivers", n as u64);
	let dir = src.dir.clone();
	drop(src);
	let _ = std::fs::remove_dir_all(&dir);
	drop(sc);
}

// ===================================================================== main

// ------------------------------------------------------------------ (C01) forged source: whole-state acceptance through PIBD

const FORGED_KINDS: [&str; 3] = ["genesis_output_with_foreign_range_proof", "range_proofs_swapped_inside_a_block", "kernel_signatures_swapped_inside_a_block"];

/// Run under property C01 (`--forged-for-c01`): a source whose HEADERS commit to an unproven output / unsigned kernel (the
/// block was never judged by the pipeline) serves its state through Segmenter -> Desegmenter. Every segment is honest with
/// respect to the archive header's roots, so nothing can be refused on the way; the receiver's `validate_complete_state`
/// is the only place where the state can be refused, and it must refuse it. Control: the same world without the forgery
/// finalises (run by C16 itself), and `Chain::validate(false)` refuses the forged source.
fn forged_source(run: &Run, id: usize) {
	let kind = (id % 3) as u8;
	let kname = FORGED_KINDS[kind as usize];
	let sc = Scratch::new(&format!("c16f{}", id));
	let mut p = Prng::new(run.seed ^ (id as u64 + 11).wrapping_mul(0xF0_46ED));
	let hsel = [(0u8, 2u8, 2u8, 2u8), (0, 3, 2, 4), (0, 11, 11, 11), (0, 4, 3, 2)];
	let cfg = SrcCfg {
		shard: 1000 + id,
		n_blocks: 45 + p.below(16),
		compact_at: None,
		hts: hsel[id / 3 % hsel.len()],
		big: false,
		hostile_material: false,
		boundary: false,
		dense: false,
		forged: Some(kind),
	};
	let replay = json!({"part": "forged_source", "id": id, "kind": kname, "blocks": cfg.n_blocks, "heights": format!("{:?}", cfg.hts),
		"reproduce": format!("c16 --forged-for-c01 --tier {} --seed {} --forged-source {}", run.tier.name(), run.seed, id)});
	let src = match build_source(run, &sc, &cfg) {
		Ok(s) => s,
		Err(e) => {
			run.inconclusive(&format!("forged source {} ({}) could not be built: {}", id, kname, e));
			return;
		}
	};
	run.count("forged.sources", 1);
	// control: wholesale validation of the source itself
	match catch(|| src.chain.validate(false)) {
		Ok(Err(_)) => run.count("forged.source_refused_by_full_validation", 1),
		Ok(Ok(())) => {
			run.violation(
				&format!("world=pibd;forged_state;kind={};path=validate_false;event=accepted", kname),
				"Chain::validate(false) accepts a state whose headers commit to an unproven output / unsigned kernel",
				replay.clone(),
			);
			return;
		}
		Err(pn) => {
			run.violation(&format!("world=pibd;forged_state;kind={};path=validate_false;event=panic@{}", kname, rel_loc(&pn.location)), &pn.message, replay.clone());
			return;
		}
	}
	let set = match fetch_segments(&src.chain, &src.archive.hash(), src.n_out, src.n_kern, cfg.hts) {
		Ok(s) => s,
		Err(e) => {
			run.inconclusive(&format!("forged source {}: segments not available: {}", id, e));
			return;
		}
	};
	let rx = match new_receiver(&sc, "rxf", &src, &mut p) {
		Ok(r) => r,
		Err(e) => {
			run.inconclusive(&format!("forged source {}: receiver setup: {}", id, e));
			return;
		}
	};
	let dlock = match get_desegmenter(run, &src, &rx) {
		Some(d) => d,
		None => {
			rx.close();
			return;
		}
	};
	let mut guard = dlock.write();
	let d = match guard.as_mut() {
		Some(d) => d,
		None => {
			run.inconclusive("desegmenter slot empty");
			drop(guard);
			rx.close();
			return;
		}
	};
	d.verif_set_segment_heights(cfg.hts.0, cfg.hts.1, cfg.hts.2, cfg.hts.3);
	let pool = HostilePool::default();
	let plan = Plan { order: ORDERS[id % 3], hostile: false, early_tree_segments: false, tip_phase: false, full_validate: false };
	let mut dl = Delivery {
		run,
		src: &src,
		set: &set,
		pool: &pool,
		sig: format!("part=forged;kind={}", kname),
		honest_refused_after_bitmap: 0,
		hostile_delivered: 0,
		hostile_refused: 0,
		hostile_accepted: vec![],
		apply_errors: vec![],
		panics: vec![],
	};
	let out = assemble(&mut dl, &rx, d, &plan, false, &mut p);
	match out {
		Assembly::Finalised => {
			run.eval(&format!("forged;kind={};hts={:?};outcome=finalised", kname, cfg.hts), true);
			run.violation(
				&format!("world=pibd;forged_state;kind={};path=pibd;event=finalised", kname),
				&format!(
					"state sync from segments finalised (validate_complete_state Ok) a state whose headers commit to {}: value can be created by whoever serves such a chain to a syncing node; Chain::validate(false) refuses the very same state",
					kname.replace('_', " ")
				),
				replay.clone(),
			);
		}
		Assembly::Refused(why) => {
			let wclass = why.split(|c| c == ',' || c == '=').next().unwrap_or("").to_string();
			run.eval(&format!("forged;kind={};hts={:?};outcome=refused:{}", kname, cfg.hts, wclass), true);
			if wclass.starts_with("validate_complete_state") {
				run.count("forged.states_refused_by_validate_complete_state", 1);
				run.count(&format!("forged.refused.{}", kname), 1);
			} else {
				// refused earlier than it could legitimately be: the segments are honest with respect to the header roots
				run.inconclusive(&format!("forged source {} ({}): assembly ended before the final validation: {}", id, kname, why));
			}
		}
	}
	drop(guard);
	rx.close();
}

fn main() {
	let forged_mode = std::env::args().any(|a| a == "--forged-for-c01");
	let run = Run::from_env(if forged_mode { "C01" } else { "C16" }, "exploration");
	init_globals(true);
	let san = run.args.iter().any(|a| a == "--san");
	if forged_mode {
		let n_sources: usize = run.tier.pick(12, 60);
		if let Some((i, n)) = run.worker_shard() {
			init_thread(true);
			let only: Option<usize> = run.arg_value("--forged-source").and_then(|x| x.parse().ok());
			for id in 0..n_sources {
				if id % n != i || only.map(|o| o != id).unwrap_or(false) {
					continue;
				}
				forged_source(&run, id);
			}
			run.finish_worker();
		}
		run.set_rule(
			"forged sources: real source chains (45-60 blocks) whose HEADERS commit to something block-by-block validation would never \
			 have let through — the genesis output (leaf 0 of the output / range-proof MMRs) carrying another output's range proof, two range \
			 proofs swapped inside block 5, two kernel signatures swapped inside block 5 (the block installed behind the pipeline, its \
			 outputs unspent at the archive header) — served through Chain::segmenter() at default and lowered segment heights to a \
			 headers-only receiver (Chain::desegmenter), in three arrival orders. Every segment is honest with respect to the header roots; \
			 validate_complete_state must refuse the state (as Chain::validate(false) refuses it on the source). Distinct = (kind, heights, outcome).",
		);
		run.assume("the forged block is installed the way a received state is (extension + block + running sums + body head), without pipe::process_block");
		let only = run.arg_value("--forged-source").is_some();
		run.spawn_workers(if only { 1 } else { n_sources.min(12) }, &[], run.tier.pick(400, 1500));
		if !only {
			run.require("forged.sources", run.counter("forged.sources"), run.tier.pick(9, 45));
			run.require("forged.source_refused_by_full_validation", run.counter("forged.source_refused_by_full_validation"), run.tier.pick(9, 45));
			if run.n_violations() == 0 {
				for k in FORGED_KINDS {
					run.require(&format!("forged.refused.{}", k), run.counter(&format!("forged.refused.{}", k)), run.tier.pick(2, 10));
				}
			}
		}
		run.finish();
	}
	if let Some((i, n)) = run.worker_shard() {
		init_thread(true);
		let n_store = if n <= 2 { 1 } else { 3 };
		if i >= n - n_store {
			store_worker(&run, i - (n - n_store), n_store, san);
		} else {
			chain_worker(&run, i, san);
		}
		run.finish_worker();
	}
	if let Some(id) = run.arg_value("--source") {
		// reproduce one chain-level source (see the "shard" of a replay file) in the foreground
		init_thread(true);
		chain_source(&run, id.parse().unwrap_or(0), san, 3000.0);
		run.finish();
	}
	run.set_rule(
		"(a) store level: random protocol-faithful programs on real PMMRBackends (prunable fixed-size, non-prunable fixed and variable size): \
		 blocks of appends + prunes of older leaves in 8 placement patterns, stepwise rewinds, sync/discard, check_compact at earlier block \
		 boundaries with the rewind bitmap, reopen; at an archive point A (block boundary >= every compaction cutoff, <= head) EVERY \
		 (height 0..=6, idx) [sampled to 48 idx per height above that] goes through Segment::from_pmmr on ReadonlyPMMR::at(size(A)); honest \
		 segments must validate against the RefMMR root over the full leaf history with the bitmap of leaves unspent at A, carry the true \
		 leaf data, survive ser/deser; identifiers beyond the MMR must be refused; per segment up to 2 corruptions of each class (leaf datum, \
		 two data swapped, leaf position moved to another leaf position, needed hash, proof hash, unspent leaf omitted, proof truncated / \
		 extended inside, identifier idx / height naming another leaf range) must fail validation. Which leaves / hashes / proof hashes the \
		 root depends on is decided by an independent analysis over the RefMMR node table and the bitmap; redundant parts are only observed. \
		 (b) chain level: per worker one source chain (45-70 blocks, or 91-104 with Chain::compact() at 82-89; thorough also a world with \
		 > 1024 outputs at the archive header) built with Hist + RefLedger::make_block, spends of oldest / random / recent outputs; every \
		 served segment at the receiver heights and at heights 0,1,5,6 goes through the same soundness checks against the archive header's \
		 roots as computed by the reference ledger; headers-only receivers assemble the state through Chain::desegmenter with lowered heights \
		 in 6 arrival-order classes (duplicates, early tree segments, apply_next_segments at random points) or through txhashset_read -> \
		 txhashset_write, are compared with the source when it stood at the archive header, with the replayed ledger (roots, sizes, unspent \
		 set by two access paths, block sums), validate(), then follow the source to its tip. (c) the same with hostile pieces (corrupted \
		 segments of all classes, same-shape fork, other archive header, redundant extra hashes; 18 hostile archive classes) mixed in; after \
		 a final refusal the reset path + honest segments must succeed. Distinct = (part, tree, height, source state class, corruption or \
		 arrival-order class, outcome).",
	);
	run.assume("AutomatedTesting parameters: horizon 20, archive interval 10; consistent genesis (header MMR sizes 1); SKIP_POW delivery");
	run.assume("compaction cutoff (head-20 at compaction time) <= archive header served, as on mainnet where the horizon (1 week) is always below the archive header (2 days): compacted sources are extended until floor10(head-20) >= compaction height - 20");
	run.assume("segment heights are lowered through Desegmenter::verif_set_segment_heights; the Segmenter accepts any height");
	run.extra(
		"observations",
		json!([
			"Segment::from_pmmr cannot produce a height-0 segment of a prunable MMR whose sibling leaf is not in the leaf set (proof generation reads the sibling through get_hash); real heights are >= 7",
			"redundant parts (extra hashes, hashes of unneeded positions, extra proof hashes at the tail, data of leaves the bitmap does not require) are ignored by validation, as the statement says",
			"Desegmenter::next_desired_segments never requests a final single-node segment (scheduler, outside the statement); the harness requests identifiers itself",
			"a relabelled fully pruned segment validates under every identifier whose range lies below the same spent ancestor: the honest segments of those identifiers are identical"
		]),
	);
	run.extra(
		"reproduce",
		json!("chain-level replay files carry the source id as \"shard\": `c16 --tier <tier> --seed <seed> --source <shard>` rebuilds that source and runs its receivers in the foreground; store-level ones carry the program number (programs are a function of seed and number)"),
	);
	let n_workers = if san { 2 } else { 16 };
	run.spawn_workers(n_workers, &[], run.tier.pick(170, 900));
	if !san {
		let q = |a: u64, b: u64| run.tier.pick(a, b);
		for t in ["store-prunable", "store-fixed-nonprunable", "store-variable-nonprunable"] {
			run.require(&format!("a.honest_validated.{}", t), run.counter(&format!("a.honest_validated.{}", t)), q(5000, 50000));
		}
		for c in MUST_FAIL_CLASSES {
			run.require(&format!("a.corruption_refused.{}", c), run.counter(&format!("a.corruption_refused.{}", c)), q(500, 5000));
			run.require(&format!("b.corruption_refused.{}", c), run.counter(&format!("b.corruption_refused.{}", c)), q(20, 100));
		}
		run.require("a.corruption_refused.pruned_claim_over_unspent", run.counter("a.corruption_refused.pruned_claim_over_unspent"), q(500, 5000));
		run.require("b.corruption_refused.pruned_claim_over_unspent", run.counter("b.corruption_refused.pruned_claim_over_unspent"), q(20, 100));
		run.require("a.compactions", run.counter("a.compactions"), q(100, 1000));
		run.require("a.beyond_mmr_refused", run.counter("a.beyond_mmr_refused"), q(1000, 10000));
		for t in ["bitmap", "output", "rangeproof", "kernel"] {
			run.require(&format!("b.honest_validated.{}", t), run.counter(&format!("b.honest_validated.{}", t)), q(12, 40));
		}
		run.require("b.full_state_syncs_multi_segment", run.counter("b.full_state_syncs_multi_segment"), q(3, 20));
		run.require("b.synced_to_tip", run.counter("b.synced_to_tip"), q(3, 12));
		run.require("b.zip_syncs", run.counter("b.zip_syncs"), q(1, 4));
		run.require("sources asked for a segmenter on a fork that is then reorganised away", run.counter("b.sources_asked_for_a_segmenter_on_a_fork_that_is_then_reorganised_away"), q(2, 4));
		run.require("b.sources.compacted", run.counter("b.sources.compacted"), q(1, 2));
		run.require("c.hostile_pieces_refused", run.counter("c.hostile_pieces_refused"), q(100, 600));
		run.require("c.hostile_syncs_ending_right", run.counter("c.hostile_syncs_ending_right"), q(2, 10));
		run.require(
			"state sync from segments for an archive header whose first 1024 outputs are all spent (all-zero bitmap chunk before a non-zero one)",
			run.counter("b.full_state_syncs_with_an_all_zero_first_bitmap_chunk"),
			1,
		);
		run.require(
			"state sync from segments for an archive header with exactly 1024 outputs (full last bitmap chunk)",
			run.counter("b.full_state_syncs_with_exactly_1024_outputs_at_the_archive_header"),
			1,
		);
		let k = "c.zip_hostile_refused.unspent_leaf_relabelled_with_matching_leaf_hash_sibling_spent";
		run.require(k, run.counter(k), q(2, 10));
	}
	run.finish();
}
