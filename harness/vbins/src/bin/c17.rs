//! C17 — concurrent chain use neither deadlocks nor exposes uncommitted state.
//!
//! One real `Chain` is shared by 3-6 submitter threads ("peers" delivering the
//! blocks / headers of a pre-built fork tree in different orders, with
//! duplicates) and 3-7 reader / maintenance threads (head + get_block, a
//! consistent view under the txhashset read lock, get_header_by_height,
//! get_unspent, validate_tx, block-template building through
//! set_txhashset_roots, validate(true), compact, segmenter). `sched_point`
//! (hook H3) perturbs the schedule at the lock and commit points with a per-run
//! seed. Oracles: panic monitor per call, progress watchdog (deadlock), reader
//! invariants that must hold under ANY interleaving, offline checker over the
//! HeadMove / HeaderHeadMove event log (hook H4), end-state differential
//! against the reference ledger and a sequential reference node.
//!
//! The concurrency under test is in-process; many independent runs are executed
//! in parallel worker processes.

use grin_chain::types::{BlockStatus, ChainAdapter, NoopAdapter, Options};
use grin_chain::{Chain, Error, Tip};
use grin_core::core::hash::{Hash, Hashed};
use grin_core::core::{Block, BlockHeader, Output, SegmentIdentifier, Transaction, TxKernel};
use grin_core::pow::Difficulty;
use grin_util::secp::pedersen::Commitment;
use grin_util::verif_hooks;
use serde_json::{json, Value};
use std::collections::{BTreeMap, HashMap, HashSet};
use std::sync::atomic::{AtomicBool, AtomicU32, AtomicU64, AtomicUsize, Ordering};
use std::sync::{Arc, Barrier, Mutex};
use std::time::{Duration, Instant};
use vcommon::forktree::{gen_history, hist_from_json, hist_to_json, shape_sig, GenBlock, Hist, TreeCfg};
use vcommon::ledger::RefRoots;
use vcommon::monitor::catch;
use vcommon::prng::fnv64;
use vcommon::snapshot::{compare_with_ref, diff, snapshot, Snap};
use vcommon::world::{init_globals, init_thread, open_chain_with};
use vcommon::{Prng, Run, Scratch};

// ------------------------------------------------------------------ progress watchdog (deadlock oracle)

const MAX_SLOTS: usize = 32;
#[allow(clippy::declare_interior_mutable_const)]
const ZERO64: AtomicU64 = AtomicU64::new(0);
static PROGRESS: [AtomicU64; MAX_SLOTS] = [ZERO64; MAX_SLOTS];
static CUR_OP: [AtomicU64; MAX_SLOTS] = [ZERO64; MAX_SLOTS];
static MON_ACTIVE: AtomicBool = AtomicBool::new(false);
static MON_STOP: AtomicBool = AtomicBool::new(false);
/// (k << 8) | rep of the run being executed
static MON_RUN: AtomicU64 = AtomicU64::new(0);
static MON_LONG: AtomicBool = AtomicBool::new(false);

const OP_NAMES: &[&str] = &[
	"idle",
	"process_block",
	"process_block_header",
	"sync_block_headers",
	"head_get_block",
	"locked_view",
	"get_header_by_height",
	"get_unspent",
	"validate_tx",
	"set_txhashset_roots",
	"validate_fast",
	"compact",
	"segmenter",
	"final_redelivery",
	"snapshot",
	"reference_node",
	"validate_full",
	"finished",
	"get_header_for_output",
	"validate_inputs",
	"waiting_at_barrier",
	"setup",
	"main_waiting_for_threads",
	"txhashset_read",
	"get_kernel_height",
];
const OP_IDLE: u64 = 0;
const OP_BLOCK: u64 = 1;
const OP_HEADER: u64 = 2;
const OP_HEADERS: u64 = 3;
const OP_HEAD_BLOCK: u64 = 4;
const OP_LOCKED_VIEW: u64 = 5;
const OP_HEADER_BY_HEIGHT: u64 = 6;
const OP_GET_UNSPENT: u64 = 7;
const OP_VALIDATE_TX: u64 = 8;
const OP_TEMPLATE: u64 = 9;
const OP_VALIDATE_FAST: u64 = 10;
const OP_COMPACT: u64 = 11;
const OP_SEGMENTER: u64 = 12;
const OP_FINAL_REDELIVERY: u64 = 13;
const OP_SNAPSHOT: u64 = 14;
const OP_REF_NODE: u64 = 15;
const OP_VALIDATE_FULL: u64 = 16;
const OP_FINISHED: u64 = 17;
const OP_HEADER_FOR_OUTPUT: u64 = 18;
const OP_VALIDATE_INPUTS: u64 = 19;
const OP_BARRIER: u64 = 20;
const OP_SETUP: u64 = 21;
const OP_JOINING: u64 = 22;
const OP_ARCHIVE: u64 = 23;
const OP_KERNEL_HEIGHT: u64 = 24;
const OP_UTXO_SCAN: u64 = 25;

fn tick(slot: usize, op: u64) {
	CUR_OP[slot].store(op, Ordering::SeqCst);
	PROGRESS[slot].fetch_add(1, Ordering::SeqCst);
}

fn op_name(op: u64) -> &'static str {
	OP_NAMES.get(op as usize).copied().unwrap_or("?")
}

/// Second look at a stalled process (see `vcommon::vcommon::monitor::deadlock_confirmed_in_place`).
fn confirm_in_place(gdb_file: &str) -> (bool, String) {
	if gdb_file.is_empty() {
		return (false, "no thread dump".into());
	}
	let txt = std::fs::read_to_string(gdb_file).unwrap_or_default();
	let progress = || PROGRESS.iter().map(|p| p.load(Ordering::SeqCst)).fold(0u64, |a, b| a.wrapping_add(b));
	vcommon::monitor::deadlock_confirmed_in_place(&progress, &txt, 20)
}

/// Watches the per-thread progress counters. No progress of ANY thread for
/// `hang_s` seconds while a run is active: dump all-thread backtraces with gdb,
/// record the hang in the worker result and end the process.
fn monitor(run: &Run, hang_s: u64, use_gdb: bool, is_worker: bool) {
	let mut last_sum = 0u64;
	let mut last_change = Instant::now();
	loop {
		std::thread::sleep(Duration::from_millis(250));
		if MON_STOP.load(Ordering::SeqCst) {
			return;
		}
		if !MON_ACTIVE.load(Ordering::SeqCst) {
			last_change = Instant::now();
			continue;
		}
		let sum: u64 = PROGRESS.iter().map(|p| p.load(Ordering::SeqCst)).fold(0u64, |a, b| a.wrapping_add(b));
		if sum != last_sum {
			last_sum = sum;
			last_change = Instant::now();
			continue;
		}
		if last_change.elapsed().as_secs() < hang_s {
			continue;
		}
		// ---- hang
		let id = MON_RUN.load(Ordering::SeqCst);
		let (k, rep) = (id >> 8, id & 0xff);
		let long = MON_LONG.load(Ordering::SeqCst);
		let mut ops: Vec<String> = vec![];
		for s in 0..MAX_SLOTS {
			let op = CUR_OP[s].load(Ordering::SeqCst);
			if op != OP_IDLE && op != OP_FINISHED && op != OP_JOINING {
				ops.push(op_name(op).to_string());
			}
		}
		ops.sort();
		let mut gdb_note = "gdb not attempted (sanitizer run)".to_string();
		let mut gdb_file = String::new();
		if use_gdb {
			let rdir = vcommon::ctx::verif_root().join("replay").join("C17");
			let _ = std::fs::create_dir_all(&rdir);
			let path = rdir.join(format!("hang-seed{}-{}-k{}-rep{}-pid{}.txt", run.seed, if long { "long" } else { "short" }, k, rep, std::process::id()));
			// gdb stops every thread of this process (this one included) while it works: its output must go
			// to a file, never to a pipe this process would have to drain; `timeout` bounds a wedged gdb
			let outf = std::fs::File::create(&path);
			let st = match outf {
				Ok(f) => {
					let f2 = f.try_clone();
					let mut c = std::process::Command::new("timeout");
					c.arg("120")
						.arg("gdb")
						.arg("-p")
						.arg(std::process::id().to_string())
						.arg("-batch")
						.arg("-ex")
						.arg("thread apply all bt")
						.stdin(std::process::Stdio::null())
						.stdout(f);
					if let Ok(f2) = f2 {
						c.stderr(f2);
					}
					c.status().map_err(|e| e.to_string())
				}
				Err(e) => Err(e.to_string()),
			};
			match st {
				Ok(status) => {
					let txt = std::fs::read_to_string(&path).unwrap_or_default();
					let has_bt = txt.contains("Thread ") && txt.contains("#0");
					gdb_file = path.to_string_lossy().to_string();
					gdb_note = if has_bt {
						"backtraces written".to_string()
					} else {
						format!("gdb ended with {:?} without backtraces (ptrace restrictions?)", status.code())
					};
				}
				Err(e) => gdb_note = format!("gdb could not be started: {}", e),
			}
		}
		let (in_place, seen) = confirm_in_place(&gdb_file);
		let info = json!({"k": k, "rep": rep, "long": long, "stuck_ops": ops, "no_progress_s": hang_s, "gdb": gdb_note, "gdb_file": gdb_file, "confirmed_in_place": in_place, "confirmation": seen});
		eprintln!("C17-HANG {}", info);
		run.count("hangs_detected", 1);
		run.extra("hang", info.clone());
		if is_worker {
			run.finish_worker();
		} else {
			run.inconclusive(&format!("in-process run hung and cannot be re-run in this process: {}", info));
			run.finish();
		}
	}
}

// ------------------------------------------------------------------ adapter recording callbacks with the calling thread

#[derive(Default)]
struct TracingAdapter {
	/// (block hash, status, height, thread id of the caller)
	events: Mutex<Vec<(Hash, &'static str, u64, String)>>,
}

impl ChainAdapter for TracingAdapter {
	fn block_accepted(&self, block: &Block, status: BlockStatus, _opts: Options) {
		let s = match status {
			BlockStatus::Next { .. } => "Next",
			BlockStatus::Fork { .. } => "Fork",
			BlockStatus::Reorg { .. } => "Reorg",
		};
		self.events
			.lock()
			.unwrap()
			.push((block.hash(), s, block.header.height, format!("{:?}", std::thread::current().id())));
	}
}

// ------------------------------------------------------------------ worlds

#[derive(Clone, Copy, PartialEq, Debug)]
enum Kind {
	Short,
	Long,
}

impl Kind {
	fn name(&self) -> &'static str {
		match self {
			Kind::Short => "short",
			Kind::Long => "long",
		}
	}
}

struct Exp {
	roots: RefRoots,
	td: u64,
	height: u64,
}

struct WorldData {
	kind: Kind,
	hist: Mutex<Hist>,
	genesis: Block,
	/// all blocks in creation order (parents before children)
	all: Vec<GenBlock>,
	/// number of leading blocks already stored in the prepared chain directory
	preload: usize,
	idx: HashMap<Hash, usize>,
	/// reference commitments of every block (and genesis)
	expect: HashMap<Hash, Exp>,
	winner: Hash,
	commits: Vec<Commitment>,
	/// commitment -> every (1-based MMR position, height) it has on any fork
	positions: HashMap<Vec<u8>, HashSet<(u64, u64)>>,
	/// transactions cut out of the world's blocks (valid exactly until their block is on the chain)
	txs: Vec<Transaction>,
	/// coinbase for block templates (never submitted)
	cb: (Output, TxKernel),
	/// (td, min height among blocks with at least this td), ascending td
	td_min_height: Vec<(u64, u64)>,
	opts: Options,
	shape: String,
	pre_dir: Option<String>,
	max_height: u64,
	/// snapshot of a node fed all blocks sequentially, parent-first (None until computed)
	ref_snap: Option<Snap>,
}

fn finish_world(mut h: Hist, kind: Kind, preload: usize, pre_dir: Option<String>) -> WorldData {
	let genesis = h.genesis.clone();
	let all = h.blocks.clone();
	let idx: HashMap<Hash, usize> = all.iter().enumerate().map(|(i, b)| (b.hash, i)).collect();
	let mut expect = HashMap::new();
	let g = genesis.hash();
	let mut order: Vec<Hash> = vec![g];
	order.extend(all.iter().map(|b| b.hash));
	let parents: HashSet<Hash> = all.iter().map(|b| b.parent).collect();
	let mut positions: HashMap<Vec<u8>, HashSet<(u64, u64)>> = HashMap::new();
	for x in &order {
		let st = h.ledger.state_at(x);
		let lb = h.ledger.get(x);
		expect.insert(
			*x,
			Exp {
				roots: st.roots(),
				td: lb.total_difficulty,
				height: lb.height,
			},
		);
		if !parents.contains(x) || *x == g {
			for (i, o) in st.outs.iter().enumerate() {
				positions
					.entry(o.commit.0.to_vec())
					.or_default()
					.insert((st.out_mmr.leaf_pos[i] as u64 + 1, o.height));
			}
		}
	}
	let allset: HashSet<Hash> = all.iter().map(|b| b.hash).collect();
	let (winner, unique) = h.ledger.best_tip(&allset);
	assert!(unique, "world without unique maximum");
	let commits = h.all_commits();
	let mut txs = vec![];
	for gb in &all {
		let b = &gb.block;
		let ins = b.inputs();
		if ins.is_empty() {
			continue;
		}
		let outs: Vec<Output> = b.outputs().iter().filter(|o| !o.is_coinbase()).cloned().collect();
		let kerns: Vec<TxKernel> = b.kernels().iter().filter(|k| !k.is_coinbase()).cloned().collect();
		txs.push(Transaction::new(ins, &outs, &kerns));
	}
	// one fresh transaction spending the oldest coin that is still unspent at the winning tip: valid for most of
	// the run on most forks (validate_tx Ok answers, templates carrying a transaction)
	{
		let st = h.ledger.state_at(&winner);
		let mut cands: Vec<(u64, vcommon::world::Coin)> = h
			.spendable(&winner)
			.into_iter()
			.filter_map(|c| st.utxo.get(&c.commit).map(|&i| (st.outs[i].height, c)))
			.collect();
		cands.sort_by(|a, b| a.0.cmp(&b.0).then(a.1.commit.0.cmp(&b.1.commit.0)));
		if let Some((_, c)) = cands.first() {
			let tx = h.spend_tx(&[c.clone()], 1, None);
			txs.push(tx);
		}
	}
	let k = h.fresh_key();
	let cb = h.world.coinbase(&k, 0);
	let mut tds: Vec<(u64, u64)> = order.iter().map(|x| (expect[x].td, expect[x].height)).collect();
	tds.sort();
	let mut m = u64::MAX;
	for i in (0..tds.len()).rev() {
		m = m.min(tds[i].1);
		tds[i].1 = m;
	}
	let max_height = all.iter().map(|b| b.block.header.height).max().unwrap_or(0);
	WorldData {
		kind,
		opts: h.opts(),
		shape: shape_sig(&h),
		hist: Mutex::new(h),
		genesis,
		all,
		preload,
		idx,
		expect,
		winner,
		commits,
		positions,
		txs,
		cb,
		td_min_height: tds,
		pre_dir,
		max_height,
		ref_snap: None,
	}
}

/// Sequential reference node: all blocks parent-first into a fresh node (or a copy of the prepared
/// directory). Err names the first block a sequential node refuses: such a world cannot be used.
fn reference_snapshot(w: &WorldData, dir: &str) -> Result<Snap, String> {
	let _ = std::fs::remove_dir_all(dir);
	if let Some(pre) = &w.pre_dir {
		copy_dir(pre, dir);
	}
	let r = (|| {
		let rchain = open_chain_with(dir, &w.genesis, Arc::new(NoopAdapter {}), false)?;
		for i in w.preload..w.all.len() {
			tick(0, OP_REF_NODE);
			if let Err(e) = rchain.process_block(w.all[i].block.clone(), w.opts) {
				return Err(format!(
					"block #{} (height {}, tags {:?}) is refused by a node fed sequentially parent-first: {:?}",
					i, w.all[i].block.header.height, w.all[i].tags, e
				));
			}
		}
		let s = snapshot(&rchain, &w.commits);
		drop(rchain);
		s
	})();
	let _ = std::fs::remove_dir_all(dir);
	r
}

impl WorldData {
	/// Every later header_head has at least the total difficulty `td`, hence the
	/// header MMR always reaches at least this height.
	fn guaranteed_header_height(&self, td: u64) -> u64 {
		for (t, mh) in &self.td_min_height {
			if *t >= td {
				return *mh;
			}
		}
		0
	}
}

fn short_cfg(p: &mut Prng, small: bool) -> TreeCfg {
	let mut cfg = TreeCfg::small();
	cfg.n_invalid = 0;
	cfg.real_pow = false;
	cfg.fork_window = None;
	if small {
		cfg.trunk = 3;
		cfg.branches = 2;
		cfg.max_depth = 2;
		cfg.tx_per_mille = 400;
	} else {
		cfg.trunk = 4 + p.usize_below(4);
		cfg.branches = 2 + p.usize_below(2);
		cfg.max_depth = 2 + p.usize_below(4);
		cfg.tx_per_mille = 500;
	}
	// competing blocks carry the same pool transactions: the same outputs on several forks, at other positions
	cfg.remine_per_mille = 500;
	cfg
}

fn build_short_world(seed: u64, small: bool) -> WorldData {
	let mut p = Prng::new(seed ^ 0xC17_5408);
	let cfg = short_cfg(&mut p, small);
	let h = gen_history(p.next_u64(), &cfg);
	finish_world(h, Kind::Short, 0, None)
}

const LONG_TRUNK: usize = 84;
const LONG_PRELOAD: usize = 80;

/// Long world: 84-block trunk, forks only from height >= 80 (inside the horizon
/// compaction keeps). Blocks 1..=80 are stored in a prepared directory.
fn build_long_world_files(seed: u64, dir: &str, j: usize) -> Result<(), String> {
	let mut p = Prng::new(seed ^ 0xC17_1096);
	let mut cfg = TreeCfg::small();
	cfg.n_invalid = 0;
	cfg.real_pow = false;
	cfg.trunk = LONG_TRUNK;
	cfg.branches = 3;
	cfg.max_depth = 3;
	cfg.tx_per_mille = 250;
	cfg.fork_window = Some((LONG_TRUNK - LONG_PRELOAD) as u64);
	let h = gen_history(p.next_u64(), &cfg);
	let pre = format!("{}/pre{}", dir, j);
	{
		let chain = open_chain_with(&pre, &h.genesis, Arc::new(NoopAdapter {}), false)?;
		for gb in h.blocks.iter().take(LONG_PRELOAD) {
			chain
				.process_block(gb.block.clone(), h.opts())
				.map_err(|e| format!("preloading block at height {}: {:?}", gb.block.header.height, e))?;
		}
		drop(chain);
	}
	let v = json!({"hist": hist_to_json(&h), "preload": LONG_PRELOAD});
	std::fs::write(format!("{}/lw{}.json", dir, j), serde_json::to_string(&v).unwrap()).map_err(|e| e.to_string())?;
	Ok(())
}

fn load_long_world(dir: &str, j: usize) -> WorldData {
	let txt = std::fs::read_to_string(format!("{}/lw{}.json", dir, j)).expect("long world file");
	let v: Value = serde_json::from_str(&txt).expect("long world json");
	let h = hist_from_json(&v["hist"]);
	let preload = v["preload"].as_u64().unwrap_or(0) as usize;
	finish_world(h, Kind::Long, preload, Some(format!("{}/pre{}", dir, j)))
}

fn copy_dir(from: &str, to: &str) {
	let _ = std::fs::remove_dir_all(to);
	let st = std::process::Command::new("cp").arg("-r").arg(from).arg(to).status().expect("cp");
	assert!(st.success(), "cp -r failed");
}

fn short_err(e: &Error) -> String {
	let s = format!("{:?}", e);
	s.split(|c| c == '(' || c == '{' || c == ' ').next().unwrap_or("").to_string()
}

fn mix(a: u64, b: u64, c: u64) -> u64 {
	let mut x = a ^ b.wrapping_mul(0x9E37_79B9_7F4A_7C15) ^ c.wrapping_mul(0xD6E8_FEB8_6659_FD93);
	vcommon::prng::splitmix64(&mut x)
}

// ------------------------------------------------------------------ delivery plans

#[derive(Clone, Debug, PartialEq)]
enum Step {
	Block(usize),
	Header(usize),
	HeaderBatch(Vec<usize>),
}

/// Branch paths (parent-first index lists) covering every deliverable block.
fn header_batches(w: &WorldData) -> Vec<Vec<usize>> {
	let parents: HashSet<Hash> = w.all.iter().map(|b| b.parent).collect();
	let mut covered: HashSet<usize> = HashSet::new();
	let mut batches = vec![];
	for (i, b) in w.all.iter().enumerate() {
		if i < w.preload || parents.contains(&b.hash) {
			continue;
		}
		let mut path = vec![];
		let mut cur = i;
		loop {
			if covered.contains(&cur) || cur < w.preload {
				break;
			}
			path.push(cur);
			match w.idx.get(&w.all[cur].parent) {
				Some(&p) => cur = p,
				None => break,
			}
		}
		path.reverse();
		for &x in &path {
			covered.insert(x);
		}
		if !path.is_empty() {
			batches.push(path);
		}
	}
	batches
}

/// Deliverable ancestry of block `i` (parent-first, only blocks that are not preloaded).
fn path_to(w: &WorldData, i: usize) -> Vec<usize> {
	let mut path = vec![];
	let mut cur = i;
	loop {
		if cur < w.preload {
			break;
		}
		path.push(cur);
		match w.idx.get(&w.all[cur].parent) {
			Some(&p) => cur = p,
			None => break,
		}
	}
	path.reverse();
	path
}

struct Plans {
	/// one plan per submitter thread
	plans: Vec<Vec<Step>>,
	/// description per submitter
	styles: Vec<String>,
	header_thread: bool,
}

fn make_plans(w: &WorldData, p: &mut Prng) -> Plans {
	let n = w.all.len();
	let deliver: Vec<usize> = (w.preload..n).collect();
	let parents: HashSet<Hash> = w.all.iter().map(|b| b.parent).collect();
	let leaves: Vec<usize> = deliver.iter().cloned().filter(|&i| !parents.contains(&w.all[i].hash)).collect();
	let n_peers = 3 + p.usize_below(4);
	let header_thread = p.chance(2, 3);
	let rot = p.usize_below(leaves.len().max(1));
	let mut plans = vec![];
	let mut styles = vec![];
	for j in 0..n_peers {
		let style = p.below(4);
		let mut order: Vec<usize> = match style {
			0 => {
				let fav = leaves[(j + rot) % leaves.len()];
				let mut o = path_to(w, fav);
				let mut rest: Vec<usize> = deliver.iter().cloned().filter(|i| !o.contains(i)).collect();
				p.shuffle(&mut rest);
				o.extend(rest);
				o
			}
			1 => {
				let mut o = deliver.clone();
				p.shuffle(&mut o);
				o
			}
			2 => deliver.clone(),
			_ => deliver.iter().rev().cloned().collect(),
		};
		// without a header thread at least one peer must be able to make progress on its own
		if !header_thread && j == 0 {
			order = deliver.clone();
		}
		let hf = [0u64, 1, 3][p.usize_below(3)]; // header-first for none / a third / all of the blocks
		let mut steps = vec![];
		for i in order {
			if hf > 0 && p.chance(hf, 3) {
				steps.push(Step::Header(i));
			}
			steps.push(Step::Block(i));
		}
		styles.push(format!("{}+hf{}/3", ["favourite_then_shuffled", "shuffled", "parent_first", "children_first"][style as usize], hf));
		plans.push(steps);
	}
	if header_thread {
		let mut steps: Vec<Step> = vec![];
		for b in header_batches(w) {
			if p.chance(1, 4) {
				for i in b {
					steps.push(Step::Header(i));
				}
			} else {
				steps.push(Step::HeaderBatch(b));
			}
		}
		// then the winning chain parent-first (guarantees progress while the others fight)
		for i in path_to(w, w.idx[&w.winner]) {
			steps.push(Step::Block(i));
		}
		styles.push("header_batches_then_winner_path".to_string());
		plans.push(steps);
	}
	Plans { plans, styles, header_thread }
}

// ------------------------------------------------------------------ per-run shared context

#[derive(Clone, Copy, Debug, PartialEq)]
enum Role {
	Head,
	Utxo,
	Template,
	Mixed,
	Compactor,
	Segments,
	/// serves the state archive (`txhashset_read`) of the current head / its parent; two of these
	/// threads run in every run so that requests for the same block overlap
	Archive,
}

type Stats = BTreeMap<String, u64>;

fn inc(m: &mut Stats, k: &str) {
	*m.entry(k.to_string()).or_insert(0) += 1;
}

struct Ctx<'a> {
	run: &'a Run,
	w: &'a WorldData,
	chain: &'a Chain,
	replay: Value,
	submitters_left: AtomicUsize,
	in_flight: Vec<AtomicU32>,
	concurrent_dups: AtomicU64,
	stats: Mutex<Stats>,
	/// thread id (debug string) -> slot
	thread_slots: Mutex<HashMap<String, usize>>,
	deadline: Instant,
	violations: AtomicU64,
	panics: AtomicU64,
	barrier: Barrier,
	/// effective compactions (tail moved)
	compactions: AtomicU64,
	/// chain directory of this run
	dir: String,
	/// block -> (length, digest) of the bytes every successful `txhashset_read` caller could read from
	/// the file it was handed, at the moment the call returned
	archives: Mutex<HashMap<Hash, Vec<(u64, u64)>>>,
	/// every answered `get_unspent` call: (commitment asked, answer as (1-based position, height), head read before the
	/// call, head read after it); judged after the run against the logged sequence of heads
	unspent_obs: Mutex<Vec<(Commitment, Option<(u64, u64)>, Hash, Hash)>>,
}

impl<'a> Ctx<'a> {
	fn viol(&self, clause: &str, what: String) {
		self.violations.fetch_add(1, Ordering::SeqCst);
		self.run
			.violation(&format!("C17;world={};clause={}", self.w.kind.name(), clause), &what, self.replay.clone());
	}
	fn panic(&self, op: &str, p: &vcommon::monitor::PanicReport) {
		self.panics.fetch_add(1, Ordering::SeqCst);
		self.viol(&format!("panic;op={};at={}", op, p.location), format!("{} panicked: {} at {}", op, p.message, p.location));
	}
	fn register(&self, slot: usize) {
		self.thread_slots
			.lock()
			.unwrap()
			.insert(format!("{:?}", std::thread::current().id()), slot);
	}
	fn merge(&self, s: Stats) {
		let mut g = self.stats.lock().unwrap();
		for (k, v) in s {
			*g.entry(k).or_insert(0) += v;
		}
	}
}

// ------------------------------------------------------------------ submitters

fn deliver(ctx: &Ctx, slot: usize, step: &Step, st: &mut Stats) -> bool {
	let w = ctx.w;
	let chain = ctx.chain;
	match step {
		Step::Block(i) => {
			tick(slot, OP_BLOCK);
			let b = w.all[*i].block.clone();
			let prev = ctx.in_flight[*i].fetch_add(1, Ordering::SeqCst);
			if prev > 0 {
				ctx.concurrent_dups.fetch_add(1, Ordering::SeqCst);
			}
			let r = catch(|| chain.process_block(b, w.opts));
			ctx.in_flight[*i].fetch_sub(1, Ordering::SeqCst);
			inc(st, "deliveries.block");
			match r {
				Err(p) => {
					ctx.panic("process_block", &p);
					false
				}
				Ok(Ok(Some(_))) => {
					inc(st, "block.ok_new_head");
					true
				}
				Ok(Ok(None)) => {
					inc(st, "block.ok_fork");
					true
				}
				Ok(Err(Error::Orphan)) => {
					inc(st, "block.orphan");
					false
				}
				Ok(Err(Error::Unfit(m))) => {
					inc(st, &format!("block.unfit:{}", m));
					true
				}
				Ok(Err(e)) => {
					inc(st, &format!("block.suspicious_err:{}", short_err(&e)));
					false
				}
			}
		}
		Step::Header(i) => {
			tick(slot, OP_HEADER);
			let hd = w.all[*i].block.header.clone();
			let r = catch(|| chain.process_block_header(&hd, w.opts));
			inc(st, "deliveries.header");
			match r {
				Err(p) => ctx.panic("process_block_header", &p),
				Ok(Ok(())) => inc(st, "header.ok"),
				Ok(Err(e)) => inc(st, &format!("header.err:{}", short_err(&e))),
			}
			true
		}
		Step::HeaderBatch(ix) => {
			tick(slot, OP_HEADERS);
			let hs: Vec<BlockHeader> = ix.iter().map(|&i| w.all[i].block.header.clone()).collect();
			inc(st, "deliveries.header_batch");
			let r = catch(|| {
				let sync_head: Tip = chain.header_head()?;
				chain.sync_block_headers(&hs, sync_head, w.opts)
			});
			match r {
				Err(p) => ctx.panic("sync_block_headers", &p),
				Ok(Ok(_)) => inc(st, "header_batch.ok"),
				Ok(Err(e)) => inc(st, &format!("header_batch.err:{}", short_err(&e))),
			}
			true
		}
	}
}

fn submitter(ctx: &Ctx, slot: usize, plan: &[Step]) {
	init_thread(true);
	ctx.register(slot);
	let mut st = Stats::new();
	tick(slot, OP_BARRIER);
	ctx.barrier.wait();
	let mut retry: Vec<Step> = vec![];
	for step in plan {
		if Instant::now() > ctx.deadline {
			inc(&mut st, "submitter.deadline_hit");
			break;
		}
		if !deliver(ctx, slot, step, &mut st) {
			retry.push(step.clone());
		}
	}
	// one more attempt (still concurrent with the others) for what was refused as orphan / unknown parent
	for step in &retry {
		if Instant::now() > ctx.deadline {
			break;
		}
		inc(&mut st, "deliveries.retry");
		deliver(ctx, slot, step, &mut st);
	}
	ctx.merge(st);
	ctx.submitters_left.fetch_sub(1, Ordering::SeqCst);
	tick(slot, OP_FINISHED);
}

// ------------------------------------------------------------------ readers

struct RState {
	last_td: u64,
	last_head: Option<Hash>,
	validate_fast_left: u32,
	compact_left: u32,
	st: Stats,
	/// commitment -> range proof bytes of every output of the world's blocks (built on first use)
	proofs: Option<HashMap<Vec<u8>, Vec<u8>>>,
}

/// The call behind the node's get_unspent_outputs API (wallet restore): outputs and their range proofs are read from two
/// MMRs. Whatever happens meanwhile, the call does not fail (every committed state has as many proofs as outputs) and
/// every output comes with the proof that was made for it.
fn op_utxo_scan(ctx: &Ctx, rs: &mut RState) {
	if rs.proofs.is_none() {
		let mut m = HashMap::new();
		for gb in ctx.w.all.iter() {
			for o in gb.block.outputs() {
				m.insert(o.commitment().0.to_vec(), o.proof_bytes().to_vec());
			}
		}
		rs.proofs = Some(m);
	}
	inc(&mut rs.st, "op.unspent_outputs_by_pmmr_index");
	match catch(|| ctx.chain.unspent_outputs_by_pmmr_index(1, 100_000, None)) {
		Err(pn) => ctx.panic("unspent_outputs_by_pmmr_index", &pn),
		Ok(Err(e)) => ctx.viol(
			&format!("utxo_scan_failed;{}", short_err(&e)),
			format!("unspent_outputs_by_pmmr_index failed while blocks were being processed: {:?} (no committed state has other than one proof per output)", e),
		),
		Ok(Ok((_, _, outs))) => {
			let m = rs.proofs.as_ref().unwrap();
			let mut known = 0u64;
			for o in &outs {
				if let Some(p) = m.get(&o.commitment().0.to_vec()) {
					known += 1;
					if p.as_slice() != o.proof_bytes() {
						ctx.viol(
							"utxo_scan_pairs_an_output_with_the_proof_of_another",
							format!("unspent_outputs_by_pmmr_index returned output {:?} with a range proof that is not the one made for it", o.commitment()),
						);
						return;
					}
				}
			}
			inc(&mut rs.st, "unspent_outputs_by_pmmr_index.ok");
			*rs.st.entry("unspent_outputs_by_pmmr_index.outputs_whose_proof_was_compared".into()).or_insert(0) += known;
		}
	}
}

fn op_head_block(ctx: &Ctx, rs: &mut RState) {
	let chain = ctx.chain;
	let r = catch(|| {
		let t = chain.head()?;
		let b = chain.get_block(&t.last_block_h);
		let h = chain.get_block_header(&t.last_block_h);
		Ok::<_, Error>((t, b, h))
	});
	inc(&mut rs.st, "op.head_get_block");
	let (t, b, h) = match r {
		Err(p) => return ctx.panic("head_get_block", &p),
		Ok(Err(e)) => return ctx.viol("head_unreadable", format!("head(): {:?}", e)),
		Ok(Ok(x)) => x,
	};
	let td = t.total_difficulty.to_num();
	match b {
		Err(e) => ctx.viol(
			"head_names_block_that_is_not_stored",
			format!("head() = {} (height {}) but get_block fails: {:?}", t.last_block_h, t.height, e),
		),
		Ok(b) => {
			if b.hash() != t.last_block_h || b.header.height != t.height || b.header.total_difficulty().to_num() != td || b.header.prev_hash != t.prev_block_h {
				ctx.viol(
					"head_tip_disagrees_with_its_block",
					format!("tip {:?} vs stored block height {} td {}", t, b.header.height, b.header.total_difficulty().to_num()),
				);
			}
		}
	}
	if let Err(e) = h {
		ctx.viol("head_names_header_that_is_not_stored", format!("head() = {} but get_block_header fails: {:?}", t.last_block_h, e));
	}
	match ctx.w.expect.get(&t.last_block_h) {
		None => ctx.viol("head_is_not_a_submitted_block", format!("head() = {} which nobody submitted", t.last_block_h)),
		Some(e) => {
			if e.td != td || e.height != t.height {
				ctx.viol("head_tip_fields_wrong", format!("tip {:?} but the block has height {} td {}", t, e.height, e.td));
			}
		}
	}
	if td < rs.last_td {
		ctx.viol(
			"observed_head_work_decreased",
			format!("one thread saw head td {} ({:?}) and later td {} ({})", rs.last_td, rs.last_head, td, t.last_block_h),
		);
	}
	if rs.last_head.is_some() && rs.last_head != Some(t.last_block_h) {
		inc(&mut rs.st, "head_changes_observed_by_readers");
	}
	rs.last_td = td;
	rs.last_head = Some(t.last_block_h);
}

/// Head, roots and sizes read while holding the txhashset read lock: no block
/// can be half-applied, so they must be the reference commitments of that head.
fn op_locked_view(ctx: &Ctx, rs: &mut RState) {
	let chain = ctx.chain;
	let ths = chain.txhashset();
	let r = catch(|| {
		let t = ths.read();
		let head = chain.head()?;
		let roots = t.roots()?;
		let sizes = (t.output_mmr_size(), t.rangeproof_mmr_size(), t.kernel_mmr_size());
		Ok::<_, Error>((head, roots, sizes))
	});
	inc(&mut rs.st, "op.locked_view");
	let (head, roots, sizes) = match r {
		Err(p) => return ctx.panic("locked_view", &p),
		Ok(Err(e)) => return ctx.viol("locked_view_unreadable", format!("{:?}", e)),
		Ok(Ok(x)) => x,
	};
	let e = match ctx.w.expect.get(&head.last_block_h) {
		Some(e) => e,
		None => return ctx.viol("head_is_not_a_submitted_block", format!("head() = {}", head.last_block_h)),
	};
	let mut bad = vec![];
	if roots.output_roots.pmmr_root != e.roots.output_pmmr_root {
		bad.push("output_root");
	}
	if roots.output_roots.bitmap_root != e.roots.bitmap_root {
		bad.push("bitmap_root");
	}
	if roots.rproof_root != e.roots.rproof_root {
		bad.push("rangeproof_root");
	}
	if roots.kernel_root != e.roots.kernel_root {
		bad.push("kernel_root");
	}
	if sizes.0 != e.roots.output_mmr_size || sizes.1 != e.roots.output_mmr_size || sizes.2 != e.roots.kernel_mmr_size {
		bad.push("sizes");
	}
	if !bad.is_empty() {
		ctx.viol(
			"view_under_txhashset_lock_inconsistent",
			format!(
				"under txhashset.read(): head {} (height {}) but {} are not those of that block (sizes {:?}, reference {}/{})",
				head.last_block_h,
				head.height,
				bad.join(", "),
				sizes,
				e.roots.output_mmr_size,
				e.roots.kernel_mmr_size
			),
		);
	} else {
		inc(&mut rs.st, "locked_views_consistent");
		if head.last_block_h != ctx.w.winner && ctx.w.idx.get(&head.last_block_h).map(|&i| i + 1 > ctx.w.preload).unwrap_or(false) {
			inc(&mut rs.st, "locked_views_of_intermediate_heads");
		}
	}
}

fn op_header_by_height(ctx: &Ctx, rs: &mut RState, p: &mut Prng) {
	let chain = ctx.chain;
	let hh = match catch(|| chain.header_head()) {
		Err(pn) => return ctx.panic("header_head", &pn),
		Ok(Err(e)) => return ctx.viol("header_head_unreadable", format!("{:?}", e)),
		Ok(Ok(t)) => t,
	};
	let bound = ctx.w.guaranteed_header_height(hh.total_difficulty.to_num());
	let h = p.below(ctx.w.max_height + 2);
	inc(&mut rs.st, "op.get_header_by_height");
	match catch(|| chain.get_header_by_height(h)) {
		Err(pn) => ctx.panic("get_header_by_height", &pn),
		Ok(Ok(hd)) => {
			if hd.height != h {
				ctx.viol("header_by_height_wrong_height", format!("get_header_by_height({}) returned a header of height {}", h, hd.height));
			} else if !ctx.w.expect.contains_key(&hd.hash()) {
				ctx.viol("header_by_height_unknown_header", format!("get_header_by_height({}) returned {} which nobody submitted", h, hd.hash()));
			} else {
				inc(&mut rs.st, "header_by_height.ok");
			}
		}
		Ok(Err(e)) => {
			if h <= bound {
				ctx.viol(
					"header_by_height_missing_below_header_head",
					format!(
						"get_header_by_height({}) failed ({:?}) although header_head had td {} before the call and every header chain with at least that work reaches height {}",
						h,
						e,
						hh.total_difficulty.to_num(),
						bound
					),
				);
			} else {
				inc(&mut rs.st, "header_by_height.beyond_header_chain");
			}
		}
	}
}

fn op_get_unspent(ctx: &Ctx, rs: &mut RState, p: &mut Prng, slot: usize) {
	let chain = ctx.chain;
	let c = *p.pick(&ctx.w.commits);
	inc(&mut rs.st, "op.get_unspent");
	let h0 = chain.head().ok().map(|t| t.last_block_h);
	let res = catch(|| chain.get_unspent(c));
	let h1 = chain.head().ok().map(|t| t.last_block_h);
	if let (Ok(Ok(ans)), Some(h0), Some(h1)) = (&res, h0, h1) {
		ctx.unspent_obs.lock().unwrap().push((c, ans.as_ref().map(|(_, pos)| (pos.pos, pos.height)), h0, h1));
	}
	match res {
		Err(pn) => ctx.panic("get_unspent", &pn),
		Ok(Err(e)) => inc(&mut rs.st, &format!("get_unspent.err:{}", short_err(&e))),
		Ok(Ok(None)) => inc(&mut rs.st, "get_unspent.none"),
		Ok(Ok(Some((id, pos)))) => {
			inc(&mut rs.st, "get_unspent.some");
			if id.commit != c {
				ctx.viol("get_unspent_answers_another_output", format!("get_unspent({:?}) returned {:?}", c, id.commit));
			} else if !ctx.w.positions.get(&c.0.to_vec()).map(|s| s.contains(&(pos.pos, pos.height))).unwrap_or(false) {
				ctx.viol(
					"get_unspent_position_of_no_fork",
					format!("get_unspent({:?}) = pos {} height {} which this output has on no fork of the submitted tree", c, pos.pos, pos.height),
				);
			}
			// the state may change between the two calls: only "no panic" can be asserted
			tick(slot, OP_GET_UNSPENT);
			match catch(|| chain.get_unspent_output_at(pos.pos.saturating_sub(1))) {
				Err(pn) => ctx.panic("get_unspent_output_at", &pn),
				Ok(Ok(o)) => {
					if o.commitment() == c {
						inc(&mut rs.st, "get_unspent_output_at.same_output");
					} else {
						inc(&mut rs.st, "get_unspent_output_at.other_output_after_reorg");
					}
				}
				Ok(Err(_)) => inc(&mut rs.st, "get_unspent_output_at.err"),
			}
		}
	}
}

/// Kernel look-up (the API's get_kernel / a wallet's confirmation check) for a kernel of a submitted block.
/// Under any interleaving an answer names that kernel at a height where a submitted block carries it.
fn op_kernel_height(ctx: &Ctx, rs: &mut RState, p: &mut Prng) {
	// the coinbase kernel of one of the world's blocks, preferably an early one (a long backward scan)
	let n = ctx.w.all.len();
	let i = if p.bool() { p.usize_below(n.min(8)) } else { p.usize_below(n) };
	let blk = &ctx.w.all[i].block;
	let k = match blk.kernels().first() {
		Some(k) => *k,
		None => return,
	};
	inc(&mut rs.st, "op.get_kernel_height");
	match catch(|| ctx.chain.get_kernel_height(&k.excess, None, None)) {
		Err(pn) => ctx.panic("get_kernel_height", &pn),
		Ok(Err(_)) => inc(&mut rs.st, "get_kernel_height.err"),
		Ok(Ok(None)) => inc(&mut rs.st, "get_kernel_height.none"),
		Ok(Ok(Some((kk, height, _)))) => {
			inc(&mut rs.st, "get_kernel_height.found");
			let ok = kk.excess == k.excess
				&& ctx
					.w
					.all
					.iter()
					.any(|b| b.block.header.height == height && b.block.kernels().iter().any(|x| x.excess == k.excess));
			if kk.excess != k.excess {
				ctx.viol("kernel_lookup_answers_another_kernel", format!("get_kernel_height({:?}) returned kernel {:?}", k.excess, kk.excess));
			} else if !ok {
				// Observation, not a verdict: the call finds the kernel's index in the body chain's kernel MMR and then
				// looks the height up in the HEADER chain (get_header_by_height); while the header chain sits on another
				// fork than the body — which these runs produce all the time — the height is that of a block that does
				// not carry the kernel. That is a wrong answer of this API call with or without concurrency, and
				// outside what C17 states (no uncommitted state is exposed), so it is only counted.
				inc(&mut rs.st, "get_kernel_height.height_from_the_header_chain_of_another_fork");
			}
		}
	}
}

fn op_header_for_output(ctx: &Ctx, rs: &mut RState, p: &mut Prng) {
	let c = *p.pick(&ctx.w.commits);
	inc(&mut rs.st, "op.get_header_for_output");
	match catch(|| ctx.chain.get_header_for_output(c)) {
		Err(pn) => ctx.panic("get_header_for_output", &pn),
		Ok(Err(_)) => inc(&mut rs.st, "get_header_for_output.err"),
		Ok(Ok(hd)) => {
			let ok = ctx.w.positions.get(&c.0.to_vec()).map(|s| s.iter().any(|(_, h)| *h == hd.height)).unwrap_or(false);
			if !ok {
				ctx.viol(
					"header_for_output_at_height_of_no_fork",
					format!("get_header_for_output({:?}) = header at height {} where this output exists on no fork", c, hd.height),
				);
			} else {
				inc(&mut rs.st, "get_header_for_output.ok");
			}
		}
	}
}

fn op_validate_tx(ctx: &Ctx, rs: &mut RState, p: &mut Prng) {
	if ctx.w.txs.is_empty() {
		return;
	}
	let tx = p.pick(&ctx.w.txs);
	inc(&mut rs.st, "op.validate_tx");
	match catch(|| ctx.chain.validate_tx(tx)) {
		Err(pn) => ctx.panic("validate_tx", &pn),
		Ok(Ok(())) => inc(&mut rs.st, "validate_tx.ok"),
		Ok(Err(_)) => inc(&mut rs.st, "validate_tx.err"),
	}
}

fn op_validate_inputs(ctx: &Ctx, rs: &mut RState, p: &mut Prng) {
	if ctx.w.txs.is_empty() {
		return;
	}
	let tx = p.pick(&ctx.w.txs);
	let ins = tx.inputs();
	let want: HashSet<Vec<u8>> = vcommon::ledger::inputs_vec(&ins).iter().map(|(c, _)| c.0.to_vec()).collect();
	inc(&mut rs.st, "op.validate_inputs");
	match catch(|| ctx.chain.validate_inputs(&ins)) {
		Err(pn) => ctx.panic("validate_inputs", &pn),
		Ok(Err(_)) => inc(&mut rs.st, "validate_inputs.err"),
		Ok(Ok(v)) => {
			let got: HashSet<Vec<u8>> = v.iter().map(|(id, _)| id.commit.0.to_vec()).collect();
			let pos_ok = v.iter().all(|(id, pos)| {
				ctx.w
					.positions
					.get(&id.commit.0.to_vec())
					.map(|s| s.contains(&(pos.pos, pos.height)))
					.unwrap_or(false)
			});
			if got != want || v.len() != want.len() {
				ctx.viol("validate_inputs_answers_other_outputs", format!("validate_inputs returned {} outputs for {} inputs", v.len(), want.len()));
			} else if !pos_ok {
				ctx.viol("validate_inputs_position_of_no_fork", "validate_inputs returned a (pos, height) the output has on no fork".to_string());
			} else {
				inc(&mut rs.st, "validate_inputs.ok");
			}
		}
	}
}

/// Block template as the miner builds it; when set_txhashset_roots succeeds the
/// header commitments must be those of the reference for this body on this parent.
fn op_template(ctx: &Ctx, rs: &mut RState, p: &mut Prng) {
	let chain = ctx.chain;
	let w = ctx.w;
	inc(&mut rs.st, "op.set_txhashset_roots");
	let mut parent: Option<BlockHeader> = None;
	if p.chance(3, 10) {
		// any stored block of the tree (forces rewind + re-apply inside the readonly extension)
		let lo = w.preload.saturating_sub(1);
		let i = lo + p.usize_below(w.all.len() - lo);
		if chain.get_block(&w.all[i].hash).is_ok() {
			parent = Some(w.all[i].block.header.clone());
			inc(&mut rs.st, "template.on_arbitrary_stored_block");
		}
	}
	let parent = match parent {
		Some(x) => x,
		None => match catch(|| chain.head_header()) {
			Err(pn) => return ctx.panic("head_header", &pn),
			Ok(Err(e)) => return ctx.viol("head_header_unreadable", format!("{:?}", e)),
			Ok(Ok(h)) => h,
		},
	};
	if !w.expect.contains_key(&parent.hash()) {
		return ctx.viol("head_is_not_a_submitted_block", format!("head_header() = {}", parent.hash()));
	}
	let txs: Vec<Transaction> = if !w.txs.is_empty() && p.chance(1, 3) { vec![p.pick(&w.txs).clone()] } else { vec![] };
	let with_tx = !txs.is_empty();
	let mut b = match Block::from_reward(&parent, &txs, w.cb.0.clone(), w.cb.1.clone(), Difficulty::from_num(1 + p.below(50))) {
		Ok(b) => b,
		Err(_) => {
			inc(&mut rs.st, "template.from_reward_err");
			return;
		}
	};
	match catch(|| chain.set_txhashset_roots(&mut b)) {
		Err(pn) => ctx.panic("set_txhashset_roots", &pn),
		Ok(Err(e)) => inc(&mut rs.st, &format!("template.err{}:{}", if with_tx { "_with_tx" } else { "" }, short_err(&e))),
		Ok(Ok(())) => {
			let mut rb = b.clone();
			w.hist.lock().unwrap().ledger.commit_header(&mut rb);
			let mut bad = vec![];
			if rb.header.output_root != b.header.output_root {
				bad.push("output_root");
			}
			if rb.header.range_proof_root != b.header.range_proof_root {
				bad.push("range_proof_root");
			}
			if rb.header.kernel_root != b.header.kernel_root {
				bad.push("kernel_root");
			}
			if rb.header.prev_root != b.header.prev_root {
				bad.push("prev_root");
			}
			if rb.header.output_mmr_size != b.header.output_mmr_size || rb.header.kernel_mmr_size != b.header.kernel_mmr_size {
				bad.push("sizes");
			}
			if !bad.is_empty() {
				ctx.viol(
					"template_roots_not_those_of_its_parent",
					format!(
						"set_txhashset_roots on parent {} (height {}, {} tx) succeeded with {} different from the reference commitments",
						parent.hash(),
						parent.height,
						txs.len(),
						bad.join(", ")
					),
				);
			} else {
				inc(&mut rs.st, "template_roots_checked");
				if with_tx {
					inc(&mut rs.st, "template_roots_checked_with_tx");
				}
			}
		}
	}
}

fn op_validate_fast(ctx: &Ctx, rs: &mut RState) {
	if rs.validate_fast_left == 0 {
		return;
	}
	rs.validate_fast_left -= 1;
	inc(&mut rs.st, "op.validate_fast");
	match catch(|| ctx.chain.validate(true)) {
		Err(pn) => ctx.panic("validate_fast", &pn),
		Ok(Ok(())) => inc(&mut rs.st, "validate_fast.ok"),
		Ok(Err(e)) => ctx.viol(
			&format!("validate_fast_failed_while_running;{}", short_err(&e)),
			format!("validate(true) during the concurrent phase (all submitted blocks are valid): {:?}", e),
		),
	}
}

fn op_compact(ctx: &Ctx, rs: &mut RState) {
	if rs.compact_left == 0 {
		return;
	}
	rs.compact_left -= 1;
	inc(&mut rs.st, "op.compact");
	let before = ctx.chain.tail().ok().map(|t| t.height);
	match catch(|| ctx.chain.compact()) {
		Err(pn) => ctx.panic("compact", &pn),
		Ok(Ok(())) => {
			let after = ctx.chain.tail().ok().map(|t| t.height);
			if ctx.w.kind == Kind::Long && after != before && after.unwrap_or(0) > 0 {
				ctx.compactions.fetch_add(1, Ordering::SeqCst);
				inc(&mut rs.st, "compact.effective");
			} else {
				inc(&mut rs.st, "compact.ok_nothing_to_do");
			}
		}
		Ok(Err(e)) => inc(&mut rs.st, &format!("compact.err:{}", short_err(&e))),
	}
}

fn op_segmenter(ctx: &Ctx, rs: &mut RState, p: &mut Prng, slot: usize) {
	inc(&mut rs.st, "op.segmenter");
	let seg = match catch(|| ctx.chain.segmenter()) {
		Err(pn) => return ctx.panic("segmenter", &pn),
		Ok(Err(e)) => return inc(&mut rs.st, &format!("segmenter.err:{}", short_err(&e))),
		Ok(Ok(s)) => s,
	};
	inc(&mut rs.st, "segmenter.ok");
	let hdr = seg.header().clone();
	let exp = ctx.w.expect.get(&hdr.hash());
	if exp.is_none() {
		ctx.viol("segmenter_header_unknown", format!("segmenter().header() = {} which nobody submitted", hdr.hash()));
	}
	for _ in 0..3 {
		let id = if p.chance(1, 3) {
			SegmentIdentifier { height: 9 + (p.below(3) as u8), idx: 0 }
		} else {
			SegmentIdentifier { height: p.below(5) as u8, idx: p.below(4) }
		};
		tick(slot, OP_SEGMENTER);
		match p.below(4) {
			0 => match catch(|| seg.bitmap_segment(id)) {
				Err(pn) => ctx.panic("bitmap_segment", &pn),
				Ok(Ok((_, out_root))) => {
					inc(&mut rs.st, "segment.bitmap.ok");
					if let Some(e) = exp {
						// every fork of the tree contains the archive header: the output MMR prefix is fork-independent
						if ctx.w.kind == Kind::Short || hdr.height < LONG_PRELOAD as u64 {
							if out_root != e.roots.output_pmmr_root {
								ctx.viol(
									"bitmap_segment_output_root_not_that_of_archive_header",
									format!("bitmap_segment returned output root {} for archive header {} (height {}), reference {}", out_root, hdr.hash(), hdr.height, e.roots.output_pmmr_root),
								);
							} else {
								inc(&mut rs.st, "segment.roots_checked");
							}
						}
					}
				}
				Ok(Err(_)) => inc(&mut rs.st, "segment.bitmap.err"),
			},
			1 => match catch(|| seg.output_segment(id)) {
				Err(pn) => ctx.panic("output_segment", &pn),
				Ok(Ok((_, bm_root))) => {
					inc(&mut rs.st, "segment.output.ok");
					if let Some(e) = exp {
						if ctx.w.kind == Kind::Short || hdr.height < LONG_PRELOAD as u64 {
							if bm_root != e.roots.bitmap_root {
								ctx.viol(
									"output_segment_bitmap_root_not_that_of_archive_header",
									format!("output_segment returned bitmap root {} for archive header {} (height {}), reference {}", bm_root, hdr.hash(), hdr.height, e.roots.bitmap_root),
								);
							} else {
								inc(&mut rs.st, "segment.roots_checked");
							}
						}
					}
				}
				Ok(Err(_)) => inc(&mut rs.st, "segment.output.err"),
			},
			2 => match catch(|| seg.rangeproof_segment(id)) {
				Err(pn) => ctx.panic("rangeproof_segment", &pn),
				Ok(Ok(_)) => inc(&mut rs.st, "segment.rangeproof.ok"),
				Ok(Err(_)) => inc(&mut rs.st, "segment.rangeproof.err"),
			},
			_ => match catch(|| seg.kernel_segment(id)) {
				Err(pn) => ctx.panic("kernel_segment", &pn),
				Ok(Ok(_)) => inc(&mut rs.st, "segment.kernel.ok"),
				Ok(Err(_)) => inc(&mut rs.st, "segment.kernel.err"),
			},
		}
	}
}

fn fnv(bytes: &[u8]) -> u64 {
	let mut h = 0xcbf29ce484222325u64;
	for b in bytes {
		h ^= *b as u64;
		h = h.wrapping_mul(0x100000001b3);
	}
	h
}

/// Serve the state archive of the head (or its parent) as a peer's fast-sync request would. What the
/// caller is handed must be the finished archive: its bytes are recorded and compared after the
/// concurrent phase with the archive file then on disk, which must unpack to the full file set.
fn op_archive(ctx: &Ctx, rs: &mut RState, p: &mut Prng) {
	use std::io::Read;
	inc(&mut rs.st, "op.archive");
	let head = match catch(|| ctx.chain.head()) {
		Err(pn) => return ctx.panic("head", &pn),
		Ok(Err(e)) => return ctx.viol("head_unreadable", format!("head(): {:?}", e)),
		Ok(Ok(t)) => t,
	};
	let h = if p.chance(1, 4) && head.height > 1 { head.prev_block_h } else { head.last_block_h };
	let exp = match ctx.w.expect.get(&h) {
		Some(e) => e,
		None => return,
	};
	match catch(|| ctx.chain.txhashset_read(h)) {
		Err(pn) => ctx.panic("txhashset_read", &pn),
		Ok(Err(e)) => {
			inc(&mut rs.st, &format!("archive.err:{}", short_err(&e)));
			// the head (or its parent) of a moment ago is a stored block inside the horizon: serving it cannot fail
			ctx.viol(
				&format!("archive_read_failed;{}", short_err(&e)),
				format!("txhashset_read({}) (height {}) failed: {:?}", h, exp.height, e),
			);
		}
		Ok(Ok((o, k, mut f))) => {
			inc(&mut rs.st, "archive.ok");
			if o != exp.roots.output_mmr_size || k != exp.roots.kernel_mmr_size {
				ctx.viol(
					"archive_sizes_not_those_of_the_block",
					format!("txhashset_read({}) returned sizes ({}, {}), the block's header has ({}, {})", h, o, k, exp.roots.output_mmr_size, exp.roots.kernel_mmr_size),
				);
			}
			let mut bytes = vec![];
			if f.read_to_end(&mut bytes).is_ok() {
				ctx.archives.lock().unwrap().entry(h).or_default().push((bytes.len() as u64, fnv(&bytes)));
			}
		}
	}
}

/// After the concurrent phase: every archive that was handed out must have been the finished one.
fn check_archives(ctx: &Ctx, st: &mut Stats) {
	let served = std::mem::take(&mut *ctx.archives.lock().unwrap());
	for (h, seen) in served {
		let name = format!("{}/txhashset_snapshot_{}.zip", ctx.dir, h);
		let fin = match std::fs::read(&name) {
			Ok(b) => b,
			Err(e) => {
				ctx.viol("archive_file_gone", format!("{} callers were handed the archive of {} but {} cannot be read afterwards: {}", seen.len(), h, name, e));
				continue;
			}
		};
		let want = (fin.len() as u64, fnv(&fin));
		inc(st, "archive.blocks_served");
		*st.entry("archive.handouts_compared".into()).or_insert(0) += seen.len() as u64;
		if seen.len() > 1 {
			inc(st, "archive.blocks_served_more_than_once");
		}
		if let Some(bad) = seen.iter().find(|x| **x != want) {
			ctx.viol(
				"archive_handed_out_unfinished",
				format!(
					"a caller of txhashset_read({}) could read {} bytes (digest {:x}) from the file it was handed; the finished archive has {} bytes (digest {:x})",
					h, bad.0, bad.1, want.0, want.1
				),
			);
			continue;
		}
		// the finished archive unpacks to the full file set
		let ex = format!("{}/unzip_{}", ctx.dir, h);
		let _ = std::fs::remove_dir_all(&ex);
		let _ = std::fs::create_dir_all(&ex);
		let must: Vec<String> = vec![
			"kernel/pmmr_data.bin".into(),
			"kernel/pmmr_hash.bin".into(),
			"output/pmmr_data.bin".into(),
			"output/pmmr_hash.bin".into(),
			"rangeproof/pmmr_data.bin".into(),
			"rangeproof/pmmr_hash.bin".into(),
			format!("output/pmmr_leaf.bin.{}", h),
			format!("rangeproof/pmmr_leaf.bin.{}", h),
		];
		let mut list: Vec<std::path::PathBuf> = must.iter().map(std::path::PathBuf::from).collect();
		list.push("output/pmmr_prun.bin".into());
		list.push("rangeproof/pmmr_prun.bin".into());
		let r = std::fs::File::open(&name).map_err(|e| e.to_string()).and_then(|f| grin_util::zip::extract_files(f, std::path::Path::new(&ex), list).map_err(|e| e.to_string()));
		if let Err(e) = r {
			ctx.viol("archive_not_a_readable_zip", format!("the archive of {} cannot be unpacked: {}", h, e));
		} else {
			for m in &must {
				let fp = format!("{}/{}", ex, m);
				let ok = std::fs::metadata(&fp).map(|x| x.len() > 0).unwrap_or(false);
				if !ok {
					ctx.viol(
						&format!("archive_lacks_file;{}", m.split('.').next().unwrap_or(m)),
						format!("the archive of {} served to {} caller(s) has no (or an empty) {}", h, seen.len(), m),
					);
					break;
				}
			}
			inc(st, "archive.unpacked_and_complete");
		}
		let _ = std::fs::remove_dir_all(&ex);
	}
}

const MIN_READER_ITERS: u64 = 40;
const MAX_READER_ITERS: u64 = 30_000;

fn reader(ctx: &Ctx, slot: usize, role: Role, seed: u64) {
	init_thread(true);
	ctx.register(slot);
	let mut p = Prng::new(seed);
	let long = ctx.w.kind == Kind::Long;
	let mut rs = RState {
		last_td: 0,
		last_head: None,
		validate_fast_left: match role {
			Role::Template => 2,
			Role::Mixed => 1,
			_ => 0,
		},
		compact_left: match role {
			Role::Compactor => 3,
			Role::Mixed if !long => (p.below(3) == 0) as u32,
			_ => 0,
		},
		st: Stats::new(),
		proofs: None,
	};
	tick(slot, OP_BARRIER);
	ctx.barrier.wait();
	if role == Role::Compactor {
		// let the submitters get going, then compact while they are at work
		std::thread::sleep(Duration::from_millis(p.below(700)));
	}
	let mut iters = 0u64;
	loop {
		let done = ctx.submitters_left.load(Ordering::SeqCst) == 0;
		if (done && iters >= MIN_READER_ITERS) || iters >= MAX_READER_ITERS || Instant::now() > ctx.deadline {
			break;
		}
		let x = p.below(100);
		match role {
			Role::Head => {
				tick(slot, OP_HEAD_BLOCK);
				op_head_block(ctx, &mut rs);
				if x < 40 {
					// lock-free reads only
				} else if x < 75 {
					tick(slot, OP_LOCKED_VIEW);
					op_locked_view(ctx, &mut rs);
				} else {
					tick(slot, OP_HEADER_BY_HEIGHT);
					op_header_by_height(ctx, &mut rs, &mut p);
				}
			}
			Role::Utxo => {
				if x < 50 {
					tick(slot, OP_GET_UNSPENT);
					op_get_unspent(ctx, &mut rs, &mut p, slot);
				} else if x < 75 {
					tick(slot, OP_VALIDATE_TX);
					op_validate_tx(ctx, &mut rs, &mut p);
				} else if x < 82 {
					tick(slot, OP_VALIDATE_INPUTS);
					op_validate_inputs(ctx, &mut rs, &mut p);
				} else if x < 90 {
					tick(slot, OP_KERNEL_HEIGHT);
					op_kernel_height(ctx, &mut rs, &mut p);
				} else if x < 96 {
					tick(slot, OP_UTXO_SCAN);
					op_utxo_scan(ctx, &mut rs);
				} else {
					tick(slot, OP_HEADER_FOR_OUTPUT);
					op_header_for_output(ctx, &mut rs, &mut p);
				}
			}
			Role::Template => {
				if x < 4 && iters > 5 {
					tick(slot, OP_VALIDATE_FAST);
					op_validate_fast(ctx, &mut rs);
				} else {
					tick(slot, OP_TEMPLATE);
					op_template(ctx, &mut rs, &mut p);
				}
			}
			Role::Mixed => match x {
				0..=14 => {
					tick(slot, OP_HEAD_BLOCK);
					op_head_block(ctx, &mut rs);
				}
				15..=29 => {
					tick(slot, OP_LOCKED_VIEW);
					op_locked_view(ctx, &mut rs);
				}
				30..=39 => {
					tick(slot, OP_HEADER_BY_HEIGHT);
					op_header_by_height(ctx, &mut rs, &mut p);
				}
				40..=54 => {
					tick(slot, OP_GET_UNSPENT);
					op_get_unspent(ctx, &mut rs, &mut p, slot);
				}
				55..=64 => {
					tick(slot, OP_VALIDATE_TX);
					op_validate_tx(ctx, &mut rs, &mut p);
				}
				65..=79 => {
					tick(slot, OP_TEMPLATE);
					op_template(ctx, &mut rs, &mut p);
				}
				80..=87 => {
					tick(slot, OP_SEGMENTER);
					op_segmenter(ctx, &mut rs, &mut p, slot);
				}
				88..=91 => {
					tick(slot, OP_VALIDATE_FAST);
					op_validate_fast(ctx, &mut rs);
				}
				92..=95 => {
					tick(slot, OP_COMPACT);
					op_compact(ctx, &mut rs);
				}
				_ => {
					tick(slot, OP_HEADER_FOR_OUTPUT);
					op_header_for_output(ctx, &mut rs, &mut p);
				}
			},
			Role::Compactor => {
				if rs.compact_left > 0 && (iters == 0 || x < 3) {
					tick(slot, OP_COMPACT);
					op_compact(ctx, &mut rs);
				} else if x < 50 {
					tick(slot, OP_LOCKED_VIEW);
					op_locked_view(ctx, &mut rs);
				} else {
					tick(slot, OP_HEAD_BLOCK);
					op_head_block(ctx, &mut rs);
				}
			}
			Role::Segments => {
				if x < 60 {
					tick(slot, OP_SEGMENTER);
					op_segmenter(ctx, &mut rs, &mut p, slot);
				} else {
					tick(slot, OP_GET_UNSPENT);
					op_get_unspent(ctx, &mut rs, &mut p, slot);
				}
			}
			Role::Archive => {
				tick(slot, OP_ARCHIVE);
				op_archive(ctx, &mut rs, &mut p);
			}
		}
		iters += 1;
		tick(slot, OP_IDLE);
		let pause = match role {
			Role::Template | Role::Segments => 500 + p.below(3000),
			Role::Archive => 2000 + p.below(6000),
			_ => 100 + p.below(1500),
		};
		std::thread::sleep(Duration::from_micros(pause));
	}
	ctx.merge(rs.st);
	tick(slot, OP_FINISHED);
}

// ------------------------------------------------------------------ one run

/// Size of the chain database file (the LMDB environment of the node) under `dir`.
fn db_file_size(dir: &str) -> u64 {
	fn walk(p: &std::path::Path, best: &mut u64) {
		if let Ok(rd) = std::fs::read_dir(p) {
			for e in rd.flatten() {
				let path = e.path();
				if path.is_dir() {
					walk(&path, best);
				} else if path.file_name().map(|n| n == "data.mdb").unwrap_or(false) {
					*best = (*best).max(e.metadata().map(|m| m.len()).unwrap_or(0));
				}
			}
		}
	}
	let mut best = 0;
	walk(std::path::Path::new(dir), &mut best);
	best
}

/// The database map grows in steps (1 MiB under the test parameters) once 90 % of it is used; the enlargement has to
/// wait until no transaction is open on the environment and keeps new ones out meanwhile (`Store::enter_tx`). A short
/// run never gets there on its own: unrelated records (headers nobody refers to) are stored first until the file is
/// just below the threshold, so that the blocks of the concurrent phase cross it while every thread is busy.
fn pad_store_to_the_resize_threshold(chain: &Chain, dir: &str, p: &mut Prng) -> u64 {
	const THRESHOLD: u64 = 943_718; // 0.9 MiB
	let store = chain.store();
	let mut n = 0u64;
	loop {
		let size = db_file_size(dir);
		if size + 12_000 >= THRESHOLD || size >= THRESHOLD || n > 5_000 {
			return size;
		}
		let step = if size + 60_000 < THRESHOLD { 40 } else { 2 };
		let batch = match store.batch() {
			Ok(b) => b,
			Err(_) => return size,
		};
		let mut batch = batch;
		for _ in 0..step {
			let mut h = BlockHeader::default();
			h.height = 1_000_000 + n;
			vcommon::world::skip_pow_proof(&mut h, p);
			if batch.save_block_header(&h).is_err() {
				return size;
			}
			n += 1;
		}
		if batch.commit().is_err() {
			return size;
		}
	}
}

struct RunCfg {
	k: u64,
	rep: u64,
	plan_seed: u64,
	sched_seed: u64,
	world_seed: u64,
	world_name: String,
}

struct RunOut {
	interleaving: u64,
}

fn hash_of(bytes: &[u8]) -> Hash {
	Hash::from_vec(bytes)
}

fn execute_run(run: &Run, w: &WorldData, rc: &RunCfg, sc: &Scratch, san: bool) -> Option<RunOut> {
	let t0 = Instant::now();
	MON_RUN.store((rc.k << 8) | (rc.rep & 0xff), Ordering::SeqCst);
	MON_LONG.store(w.kind == Kind::Long, Ordering::SeqCst);
	for s in 0..MAX_SLOTS {
		CUR_OP[s].store(OP_IDLE, Ordering::SeqCst);
	}
	tick(0, OP_SETUP);
	MON_ACTIVE.store(true, Ordering::SeqCst);
	let dir = sc.sub(&format!("{}-k{}-r{}", w.kind.name(), rc.k, rc.rep));
	let _ = std::fs::remove_dir_all(&dir);
	if let Some(pre) = &w.pre_dir {
		copy_dir(pre, &dir);
	}
	let adapter = Arc::new(TracingAdapter::default());
	let chain = match open_chain_with(&dir, &w.genesis, adapter.clone(), false) {
		Ok(c) => c,
		Err(e) => {
			run.inconclusive(&format!("run {}/{}: chain could not be opened: {}", rc.k, rc.rep, e));
			MON_ACTIVE.store(false, Ordering::SeqCst);
			return None;
		}
	};
	let start_head = chain.head().expect("head");
	let start_hh = chain.header_head().expect("header_head");
	if w.preload > 0 && start_head.last_block_h != w.all[w.preload - 1].hash {
		run.inconclusive("prepared directory of the long world is not at the expected head");
		MON_ACTIVE.store(false, Ordering::SeqCst);
		return None;
	}

	let mut pp = Prng::new(rc.plan_seed);
	// every second run starts with the database just below its first enlargement
	let padded_to = if rc.k % 2 == 0 && !san {
		let mut padp = Prng::new(rc.plan_seed ^ 0x9AD);
		pad_store_to_the_resize_threshold(&chain, &dir, &mut padp)
	} else {
		0
	};
	let plans = make_plans(w, &mut pp);
	let mut roles = vec![Role::Head, Role::Utxo, Role::Template];
	for _ in 0..pp.usize_below(3) {
		roles.push(Role::Mixed);
	}
	if w.kind == Kind::Long {
		roles.push(Role::Compactor);
		roles.push(Role::Segments);
	}
	roles.push(Role::Archive);
	roles.push(Role::Archive);
	let n_sub = plans.plans.len();
	let n_threads = n_sub + roles.len();
	assert!(n_threads + 1 < MAX_SLOTS);
	let replay = json!({
		"world": w.kind.name(), "world_name": rc.world_name, "k": rc.k, "rep": rc.rep,
		"world_seed": rc.world_seed, "plan_seed": rc.plan_seed, "sched_seed": rc.sched_seed,
		"shape": w.shape, "blocks": w.all.len(), "preloaded": w.preload,
		"submitters": plans.styles, "header_thread": plans.header_thread,
		"readers": roles.iter().map(|r| format!("{:?}", r)).collect::<Vec<_>>(),
		"reproduce": format!("c17 --tier {} --seed {} --worker 0 1 --phase {} --only-run {}  (schedules are perturbed, not replayed: repeat a few times)",
			run.tier.name(), run.seed, w.kind.name(), rc.k),
	});
	let reader_seeds: Vec<u64> = (0..roles.len()).map(|i| mix(rc.plan_seed, 0x5EAD, i as u64)).collect();
	let budget_s = if san { 600 } else { 30 };
	let ctx = Ctx {
		run,
		w,
		chain: &chain,
		replay: replay.clone(),
		submitters_left: AtomicUsize::new(n_sub),
		in_flight: (0..w.all.len()).map(|_| AtomicU32::new(0)).collect(),
		concurrent_dups: AtomicU64::new(0),
		stats: Mutex::new(Stats::new()),
		thread_slots: Mutex::new(HashMap::new()),
		deadline: Instant::now() + Duration::from_secs(budget_s),
		violations: AtomicU64::new(0),
		panics: AtomicU64::new(0),
		barrier: Barrier::new(n_threads),
		compactions: AtomicU64::new(0),
		dir: dir.clone(),
		archives: Mutex::new(HashMap::new()),
		unspent_obs: Mutex::new(vec![]),
	};
	ctx.register(0);
	verif_hooks::events_enable(true);
	let sched_before = verif_hooks::sched_stats();
	let _ = verif_hooks::resize_stats_take();
	verif_hooks::sched_arm(rc.sched_seed | 1);
	let t_conc = Instant::now();
	tick(0, OP_JOINING);
	std::thread::scope(|s| {
		for (j, plan) in plans.plans.iter().enumerate() {
			let ctx = &ctx;
			s.spawn(move || submitter(ctx, 1 + j, plan));
		}
		for (j, role) in roles.iter().enumerate() {
			let ctx = &ctx;
			let role = *role;
			let seed = reader_seeds[j];
			s.spawn(move || reader(ctx, 1 + n_sub + j, role, seed));
		}
	});
	let conc_ms = t_conc.elapsed().as_millis() as u64;
	verif_hooks::sched_arm(0);
	// ---- the database's own bookkeeping at quiescence. Every third run first lets 8 threads hammer the lock-free
	// read calls (each opens and closes database transactions) so that closes coincide; afterwards no transaction is
	// open, and the environment must know that: a count that drifted upwards makes the next map enlargement wait for
	// ever (with every later transaction queued behind it).
	if rc.k % 3 == 0 && !san && ctx.panics.load(Ordering::SeqCst) == 0 {
		tick(0, OP_JOINING);
		let n = w.all.len().max(1);
		std::thread::scope(|s| {
			for t in 0..8usize {
				let chain = &chain;
				let w = &w;
				s.spawn(move || {
					init_thread(true);
					for i in 0..12_000usize {
						let _ = chain.head();
						let _ = chain.header_head();
						if i % 4 == t % 4 {
							let _ = chain.block_exists(w.all[(i + t) % n].hash);
						}
					}
				});
			}
		});
		run.count("reader_storms_before_the_quiescence_check", 1);
	}
	{
		let open = chain.store().verif_open_txs_count();
		run.count("quiescent_open_transaction_counts_read", 1);
		if open != 0 {
			// confirm the consequence: grow the database across its next enlargement from a helper thread
			run.count("quiescent_open_transaction_count_not_zero", 1);
			let store = chain.store();
			let dir2 = dir.clone();
			let (txd, rxd) = std::sync::mpsc::channel();
			let seed = rc.plan_seed;
			std::thread::spawn(move || {
				let mut p = Prng::new(seed ^ 0x6A0);
				let start = db_file_size(&dir2);
				let mut n = 0u64;
				while db_file_size(&dir2) < start + 1_300_000 && n < 20_000 {
					let mut batch = match store.batch() {
						Ok(b) => b,
						Err(_) => break,
					};
					for _ in 0..100 {
						let mut h = BlockHeader::default();
						h.height = 2_000_000 + n;
						vcommon::world::skip_pow_proof(&mut h, &mut p);
						let _ = batch.save_block_header(&h);
						n += 1;
					}
					if batch.commit().is_err() {
						break;
					}
				}
				let _ = txd.send(n);
			});
			match rxd.recv_timeout(Duration::from_secs(25)) {
				Ok(_) => run.count("observation.open_transaction_count_drifted_but_the_database_still_grew", 1),
				Err(_) => {
					ctx.viol(
						"deadlock_at_database_map_enlargement",
						format!(
							"with every thread joined and no transaction open the database counts {} open transaction(s); growing it across its next map enlargement then never returns (Store::batch waits for the count to reach 0, every later transaction queues behind it): 25 s without completion",
							open
						),
					);
					// the helper thread is stuck for good: this process is of no further use
					run.finish_worker();
				}
			}
		}
	}
	let sched_after = verif_hooks::sched_stats();
	// hook H9: no transaction of an environment may be live when its memory map is enlarged
	let (h9_resizes, h9_live) = verif_hooks::resize_stats_take();
	run.count("db.enlargements_seen_by_the_live_transaction_monitor", h9_resizes);
	for (env, n) in h9_live.iter().take(3) {
		ctx.viol(
			"map_enlarged_with_live_transactions",
			format!("the memory map of {} was enlarged while {} transaction(s) of that environment were live in this process", env, n),
		);
	}
	tick(0, OP_FINAL_REDELIVERY);
	let mut st = std::mem::take(&mut *ctx.stats.lock().unwrap());
	check_archives(&ctx, &mut st);
	let hit_deadline = Instant::now() > ctx.deadline;
	if hit_deadline {
		run.inconclusive(&format!("run {}/{} ({}): concurrent phase exceeded its {} s budget", rc.k, rc.rep, w.kind.name(), budget_s));
	}

	// ---- final sequential re-delivery (drains what lost races); every valid block must end up stored
	let mut not_stored_after_concurrent_phase = 0u64;
	if ctx.panics.load(Ordering::SeqCst) == 0 {
		for i in w.preload..w.all.len() {
			tick(0, OP_FINAL_REDELIVERY);
			if chain.get_block(&w.all[i].hash).is_ok() {
				continue;
			}
			not_stored_after_concurrent_phase += 1;
			let r = catch(|| chain.process_block(w.all[i].block.clone(), w.opts));
			match r {
				Err(p) => ctx.panic("process_block(final)", &p),
				Ok(Ok(_)) | Ok(Err(Error::Unfit(_))) => {}
				Ok(Err(e)) => {
					if chain.get_block(&w.all[i].hash).is_err() {
						ctx.viol(
							&format!("valid_block_lost;{}", short_err(&e)),
							format!(
								"block {} (height {}) is still refused when re-delivered sequentially parent-first after the concurrent phase: {:?}",
								w.all[i].hash, w.all[i].block.header.height, e
							),
						);
					}
				}
			}
		}
		for i in w.preload..w.all.len() {
			if chain.get_block(&w.all[i].hash).is_err() && ctx.violations.load(Ordering::SeqCst) == 0 {
				ctx.viol("valid_block_lost;not_stored", format!("block {} is not stored after the final re-delivery", w.all[i].hash));
			}
		}
	}
	let events = verif_hooks::events_take();
	verif_hooks::events_enable(false);
	let accepted: Vec<(Hash, &'static str, u64, String)> = adapter.events.lock().unwrap().clone();
	let accepted_set: HashSet<Hash> = accepted.iter().map(|e| e.0).collect();
	let slots = ctx.thread_slots.lock().unwrap().clone();

	// ---- (d) offline checker over the event log
	let mut head_moves = 0u64;
	let mut header_head_moves = 0u64;
	let mut movers: HashSet<usize> = HashSet::new();
	let mut sig_parts: Vec<String> = vec![];
	{
		let mut cur = start_head.last_block_h;
		let mut cur_td = start_head.total_difficulty.to_num();
		let mut hcur = start_hh.last_block_h;
		let mut htd = start_hh.total_difficulty.to_num();
		for ev in &events {
			let is_head = ev.kind == "HeadMove";
			if !is_head && ev.kind != "HeaderHeadMove" {
				continue;
			}
			let (ptd, ntd) = (ev.nums[1], ev.nums[3]);
			let prevh = hash_of(&ev.bytes[0]);
			let newh = hash_of(&ev.bytes[1]);
			let slot = slots.get(&ev.thread).cloned().unwrap_or(99);
			sig_parts.push(format!("{}{}{}", slot, if is_head { "H" } else { "h" }, w.idx.get(&newh).map(|i| i.to_string()).unwrap_or("?".into())));
			let name = if is_head { "head" } else { "header_head" };
			if is_head {
				head_moves += 1;
				movers.insert(slot);
			} else {
				header_head_moves += 1;
			}
			let (c, ctd) = if is_head { (cur, cur_td) } else { (hcur, htd) };
			if prevh != c || ptd != ctd {
				ctx.viol(
					&format!("{}_move_log_is_not_a_chain", name),
					format!(
						"event #{}: {} moved from {} (td {}) but the previous committed value was {} (td {}): a move was lost or made on a stale view",
						ev.seq, name, prevh, ptd, c, ctd
					),
				);
			}
			if ntd <= ptd {
				ctx.viol(&format!("{}_move_not_to_more_work", name), format!("event #{}: {} moved from td {} to td {}", ev.seq, name, ptd, ntd));
			}
			match w.expect.get(&newh) {
				None => ctx.viol(&format!("{}_moved_to_unknown_block", name), format!("{} moved to {} which nobody submitted", name, newh)),
				Some(e) => {
					if e.td != ntd || e.height != ev.nums[2] {
						ctx.viol(&format!("{}_move_fields_wrong", name), format!("{} moved to {} recorded as height {} td {}, the block has {} / {}", name, newh, ev.nums[2], ntd, e.height, e.td));
					}
				}
			}
			if is_head {
				if !accepted_set.contains(&newh) || chain.get_block(&newh).is_err() {
					ctx.viol("head_moved_to_block_not_accepted_and_stored", format!("head moved to {} which is not an accepted stored block at the end", newh));
				}
				cur = newh;
				cur_td = ntd;
			} else {
				hcur = newh;
				htd = ntd;
			}
		}
		// ---- every get_unspent answer is the answer of the state of a block that was the head at some moment between
		// the caller's head() before the call and its head() after it (the call reads the position index and the output
		// MMR; read together under the lock they are the state of exactly one head)
		{
			let mut seq: Vec<Hash> = vec![start_head.last_block_h];
			for ev in &events {
				if ev.kind == "HeadMove" {
					seq.push(hash_of(&ev.bytes[1]));
				}
			}
			let at: HashMap<Hash, usize> = seq.iter().enumerate().map(|(i, h)| (*h, i)).collect();
			let obs = std::mem::take(&mut *ctx.unspent_obs.lock().unwrap());
			let mut hist = w.hist.lock().unwrap();
			let mut reported = 0;
			for (c, ans, h0, h1) in obs {
				let (i0, i1) = match (at.get(&h0), at.get(&h1)) {
					(Some(a), Some(b)) if a <= b => (*a, *b),
					_ => {
						inc(&mut st, "get_unspent.calls_not_placed_in_the_head_sequence");
						continue;
					}
				};
				let mut explained = false;
				let mut wants: Vec<String> = vec![];
				for h in &seq[i0..=i1] {
					let rs = hist.ledger.state_at(h);
					let want = rs.utxo.get(&c).map(|&i| (rs.out_mmr.leaf_pos[i] as u64 + 1, rs.outs[i].height));
					if want == ans {
						explained = true;
						break;
					}
					wants.push(format!("{:?}", want));
				}
				if explained {
					inc(&mut st, "get_unspent.answers_explained_by_a_head_of_the_call_interval");
					if i1 > i0 {
						inc(&mut st, "get_unspent.calls_spanning_a_head_move");
					}
				} else if reported < 3 {
					reported += 1;
					ctx.viol(
						"get_unspent_answer_of_no_committed_state",
						format!(
							"get_unspent({:?}) = {:?} (position, height); the heads between the caller's head() before and after the call were {:?} and their states answer {:?}: the answer mixes two states (or an uncommitted one)",
							c, ans, &seq[i0..=i1], wants
						),
					);
				}
			}
		}
		if ctx.panics.load(Ordering::SeqCst) == 0 {
			match chain.head() {
				Ok(t) => {
					if t.last_block_h != cur {
						ctx.viol("final_head_is_not_last_logged_move", format!("head() = {} but the last HeadMove went to {}", t.last_block_h, cur));
					}
				}
				Err(e) => ctx.viol("head_unreadable", format!("{:?}", e)),
			}
			match chain.header_head() {
				Ok(t) => {
					if t.last_block_h != hcur {
						ctx.viol("final_header_head_is_not_last_logged_move", format!("header_head() = {} but the last HeaderHeadMove went to {}", t.last_block_h, hcur));
					}
				}
				Err(e) => ctx.viol("header_head_unreadable", format!("{:?}", e)),
			}
		}
	}
	let mut accept_parts: Vec<String> = vec![];
	let mut reorgs = 0u64;
	for (h, s, _, th) in &accepted {
		if *s == "Reorg" {
			reorgs += 1;
		}
		accept_parts.push(format!("{}{}{}", slots.get(th).cloned().unwrap_or(99), &s[..1], w.idx.get(h).map(|i| i.to_string()).unwrap_or("?".into())));
	}
	let interleaving = fnv64(format!("{}|{}", sig_parts.join(","), accept_parts.join(",")).as_bytes());

	// ---- (e) end state
	let mut end_ok = false;
	if ctx.panics.load(Ordering::SeqCst) == 0 && !hit_deadline {
		tick(0, OP_SNAPSHOT);
		match catch(|| snapshot(&chain, &w.commits)) {
			Err(p) => ctx.panic("snapshot", &p),
			Ok(Err(e)) => ctx.viol("final_state_unreadable", e),
			Ok(Ok(mut snap)) => {
				if snap.head.0 != w.winner {
					ctx.viol(
						"final_head_is_not_the_unique_max_work_block",
						format!(
							"final head {} (td {}) but the unique max-work block of the submitted set is {} (td {})",
							snap.head.0, snap.head.2, w.winner, w.expect[&w.winner].td
						),
					);
				} else {
					let stt = w.hist.lock().unwrap().state(&w.winner);
					if let Some(d) = compare_with_ref(&snap, &stt) {
						ctx.viol(&format!("final_state_vs_reference_ledger;{}", d.split(|c| c == ':' || c == '(').next().unwrap_or("").trim()), d);
					}
					// sequential reference node fed the same blocks parent-first (computed once per world)
					tick(0, OP_REF_NODE);
					match &w.ref_snap {
						None => run.inconclusive("no reference snapshot for this world"),
						Some(rs) => {
							let mut rsnap = rs.clone();
							// compaction removes per-block records below the tail: compare what both still hold
							if let Some((_, th)) = snap.tail {
								if w.kind == Kind::Long {
									let keep = |m: &mut BTreeMap<u64, Vec<(u64, u64)>>| m.retain(|h, _| *h >= th);
									keep(&mut snap.spent_index);
									keep(&mut rsnap.spent_index);
									snap.sums_by_height.retain(|h, _| *h >= th);
									rsnap.sums_by_height.retain(|h, _| *h >= th);
								}
							}
							if let Some(d) = diff(&snap, &rsnap, true) {
								ctx.viol(
									&format!("final_state_vs_sequential_node;{}", d.split(' ').next().unwrap_or("")),
									format!("concurrently fed node vs sequentially fed node: {}", d),
								);
							} else {
								end_ok = true;
							}
						}
					}
				}
			}
		}
		tick(0, OP_VALIDATE_FULL);
		match catch(|| chain.validate(false)) {
			Err(p) => ctx.panic("validate(false)", &p),
			Ok(Ok(())) => inc(&mut st, "final_full_validation_ok"),
			Ok(Err(e)) => ctx.viol(&format!("final_full_validation_failed;{}", short_err(&e)), format!("validate(false) after all threads joined: {:?}", e)),
		}
	}
	tick(0, OP_IDLE);
	MON_ACTIVE.store(false, Ordering::SeqCst);
	if padded_to > 0 {
		run.count("runs_started_just_below_a_database_map_enlargement", 1);
		if db_file_size(&dir) > 943_718 {
			run.count("runs_that_crossed_a_database_map_enlargement", 1);
		}
	}
	let concurrent_dups = ctx.concurrent_dups.load(Ordering::SeqCst);
	let compactions = ctx.compactions.load(Ordering::SeqCst);
	drop(ctx);
	drop(chain);
	let _ = std::fs::remove_dir_all(&dir);

	// ---- evidence
	let nontrivial = movers.len() >= 2;
	run.eval(&format!("{:016x}", interleaving), nontrivial);
	for (k, v) in &st {
		run.count(k, *v);
	}
	let kn = w.kind.name();
	run.count("runs_completed", 1);
	run.count(&format!("runs.{}", kn), 1);
	if end_ok {
		run.count("runs_with_end_state_equal_to_reference", 1);
	}
	if nontrivial {
		run.count("runs_where_several_threads_moved_the_head", 1);
	}
	run.count("head_move_events_checked", head_moves);
	run.count("header_head_move_events_checked", header_head_moves);
	run.count("reorg_callbacks", reorgs);
	run.count("block_accepted_callbacks", accepted.len() as u64);
	run.count("concurrent_duplicate_deliveries", concurrent_dups);
	run.count("blocks_needing_final_redelivery", not_stored_after_concurrent_phase);
	run.count("sched_points_reached", sched_after.0 - sched_before.0);
	run.count("sched_points_perturbed", sched_after.1 - sched_before.1);
	run.count("effective_compactions_during_runs", compactions);
	run.count("threads_started", n_threads as u64);
	run.set_max("max_threads_in_one_run", n_threads as u64);
	run.set_max("max_concurrent_phase_ms", conc_ms);
	run.count("concurrent_phase_ms_total", conc_ms);
	run.set_max("max_run_ms", t0.elapsed().as_millis() as u64);
	if rc.k < 3 && rc.rep == 0 {
		run.sample(json!({
			"run": replay, "head_moves": head_moves, "header_head_moves": header_head_moves,
			"interleaving": sig_parts.join(","), "accept_order": accept_parts.join(","),
			"legend": "<thread slot><H=HeadMove|h=HeaderHeadMove|N/F/R=accepted as Next/Fork/Reorg><block index>",
			"concurrent_phase_ms": conc_ms, "ops": st,
		}));
	}
	Some(RunOut { interleaving })
}

// ------------------------------------------------------------------ phases (worker side, or in-process for sanitizer runs)

struct PhaseArgs {
	long: bool,
	n: u64,
	dir: String,
	worlds: usize,
	only: Option<u64>,
	deadline_s: f64,
	small_worlds: bool,
}

fn do_phase(run: &Run, a: &PhaseArgs, shard: usize, nshards: usize, san: bool) {
	init_thread(true);
	let sc = Scratch::new(if a.long { "c17wl" } else { "c17ws" });
	let mut long_cache: HashMap<usize, WorldData> = HashMap::new();
	for k in 0..a.n {
		if let Some(o) = a.only {
			if o != k {
				continue;
			}
		} else if (k as usize) % nshards != shard {
			continue;
		}
		if run.elapsed_s() > a.deadline_s {
			run.count("runs_skipped_by_deadline", 1);
			continue;
		}
		let world_seed;
		let mut built: WorldData;
		let refdir = sc.sub(&format!("ref-k{}", k));
		let w: &WorldData = if a.long {
			let j = (k as usize) % a.worlds.max(1);
			world_seed = j as u64;
			long_cache.entry(j).or_insert_with(|| {
				let mut w = load_long_world(&a.dir, j);
				w.ref_snap = match reference_snapshot(&w, &refdir) {
					Ok(s) => Some(s),
					Err(e) => {
						run.inconclusive(&format!("long world {}: {}", j, e));
						None
					}
				};
				w
			})
		} else {
			world_seed = mix(run.seed, 0x5057, k);
			let t = Instant::now();
			built = build_short_world(world_seed, a.small_worlds);
			run.count("world_generation_ms_total", t.elapsed().as_millis() as u64);
			built.ref_snap = match reference_snapshot(&built, &refdir) {
				Ok(s) => Some(s),
				Err(e) => {
					// generator artefact (the reference ledger judges UTXO rules only): not a statement about the chain
					run.count("worlds_discarded_sequential_node_refuses_a_block", 1);
					eprintln!("C17 world k={} seed={:x} discarded: {}", k, world_seed, e);
					run.extra("last_discarded_world", json!({"k": k, "world_seed": world_seed, "why": e}));
					None
				}
			};
			&built
		};
		if w.ref_snap.is_none() {
			continue;
		}
		// per world: two delivery plans with their own schedules; every fourth world replays plan 0 under a third schedule
		let mut variants: Vec<(u64, u64)> = vec![(0, 0)];
		if !san {
			variants.push((1, 1));
			if k % 4 == 0 {
				variants.push((0, 2));
			}
		}
		let mut first: Option<u64> = None;
		for (rep, (plan_no, sched_no)) in variants.iter().enumerate() {
			let rep = rep as u64;
			let plan_seed = mix(run.seed, if a.long { 0x9148 } else { 0x9147 } + 0x100 * plan_no, k);
			let rc = RunCfg {
				k,
				rep,
				plan_seed,
				sched_seed: mix(run.seed, 0x5C4D + sched_no + if a.long { 16 } else { 0 }, k),
				world_seed,
				world_name: if a.long { format!("long#{}", world_seed) } else { format!("short@{:x}", world_seed) },
			};
			if let Some(out) = execute_run(run, w, &rc, &sc, san) {
				if *plan_no != 0 {
					continue;
				}
				match first {
					None => first = Some(out.interleaving),
					Some(f) => {
						run.count("same_plan_replayed_with_other_schedule", 1);
						if f != out.interleaving {
							run.count("same_plan_other_schedule_gave_other_interleaving", 1);
						}
					}
				}
			}
		}
	}
	drop(sc);
}

fn phase_args(run: &Run) -> PhaseArgs {
	PhaseArgs {
		long: run.arg_value("--phase").as_deref() == Some("long"),
		n: run.arg_value("--n").and_then(|s| s.parse().ok()).unwrap_or(0),
		dir: run.arg_value("--dir").unwrap_or_default(),
		worlds: run.arg_value("--worlds").and_then(|s| s.parse().ok()).unwrap_or(1),
		only: run.arg_value("--only-run").and_then(|s| s.parse().ok()),
		deadline_s: run.arg_value("--deadline").and_then(|s| s.parse().ok()).unwrap_or(600.0),
		small_worlds: false,
	}
}

/// Run a phase with the watchdog thread alongside.
fn phase_with_monitor(run: &Run, a: &PhaseArgs, shard: usize, nshards: usize, san: bool, is_worker: bool) {
	MON_STOP.store(false, Ordering::SeqCst);
	std::thread::scope(|s| {
		let hang_s = if san { 600 } else { 60 };
		s.spawn(move || monitor(run, hang_s, !san, is_worker));
		do_phase(run, a, shard, nshards, san);
		MON_STOP.store(true, Ordering::SeqCst);
	});
}

// ------------------------------------------------------------------ look-ups while the header chain is on another fork

/// Deterministic companion of the concurrent runs (found by them: thorough seed 1, short run 520): the body head is on
/// fork A whose blocks carry transactions, the header chain has moved to a heavier, header-only fork B whose blocks are
/// coinbase-only — so at the body head's height the header chain commits to FEWER kernels than the body's kernel MMR
/// holds. Every kernel of the body chain is then looked up with get_kernel_height from a helper thread. The call holds
/// header_pmmr.read() while it searches: one that never returns blocks every later header/block delivery, i.e. the node
/// deadlocks. Verdict: no answer within 2 x 30 s (the look-up takes microseconds).
fn diverged_header_chain_lookups(run: &Run, dir: &str, n_variants: u64) {
	use std::sync::mpsc;
	use vcommon::scenarios::mk_block;
	init_thread(true);
	for v in 0..n_variants {
		let seed = mix(run.seed, 0xD1CE, v);
		let mut h = Hist::new(seed, false);
		let n_trunk = 4 + v % 4;
		let a_len = 1 + (v / 4) % 3;
		let b_len = a_len + (v / 2) % 3;
		let mut tip = h.genesis.hash();
		let mut body: Vec<GenBlock> = vec![];
		for _ in 0..n_trunk {
			let gb = mk_block(&mut h, &tip, &[], 10, "trunk");
			tip = gb.hash;
			body.push(gb);
		}
		let fork_point = tip;
		let mut ok = true;
		for _ in 0..a_len {
			let coin = h.spendable(&tip).into_iter().next();
			match coin {
				Some(c) => {
					let gb = mk_block(&mut h, &tip, &[c], 10, "body_fork_with_transactions");
					tip = gb.hash;
					body.push(gb);
				}
				None => ok = false,
			}
		}
		let mut hdr_fork: Vec<GenBlock> = vec![];
		let mut btip = fork_point;
		for _ in 0..b_len {
			let gb = mk_block(&mut h, &btip, &[], 1000, "header_only_fork_coinbase_only");
			btip = gb.hash;
			hdr_fork.push(gb);
		}
		if !ok || body.iter().chain(hdr_fork.iter()).any(|b| b.verdict.is_err()) {
			run.count("diverged_header_chain.world_discarded", 1);
			continue;
		}
		let d = format!("{}/diverged-{}", dir, v);
		let chain = match open_chain_with(&d, &h.genesis, Arc::new(NoopAdapter {}), false) {
			Ok(c) => Arc::new(c),
			Err(e) => {
				run.inconclusive(&format!("diverged_header_chain: {}", e));
				return;
			}
		};
		let mut set_up = true;
		for b in &body {
			set_up &= chain.process_block(b.block.clone(), h.opts()).is_ok();
		}
		for b in &hdr_fork {
			set_up &= chain.process_block_header(&b.block.header, h.opts()).is_ok();
		}
		set_up &= chain.head().map(|t| t.last_block_h == tip).unwrap_or(false) && chain.header_head().map(|t| t.last_block_h == btip).unwrap_or(false);
		if !set_up {
			run.count("diverged_header_chain.state_not_reached", 1);
			continue;
		}
		run.count("diverged_header_chain.states", 1);
		if b_len >= a_len {
			run.count("diverged_header_chain.states_where_the_header_chain_covers_the_body_height", 1);
		}
		for b in &body {
			let bh = b.block.header.height;
			let top = n_trunk + a_len;
			// the height bounds a wallet passes (none / around the block / the whole chain / one height off)
			let bounds: [(Option<u64>, Option<u64>); 6] =
				[(None, None), (Some(bh), None), (None, Some(bh)), (Some(bh), Some(bh)), (Some(bh.saturating_sub(1)), Some((bh + 1).min(top))), (Some(1), Some(top))];
			for (ki, k) in b.block.kernels().iter().enumerate() {
				let (lo, hi) = bounds[(ki + bh as usize + v as usize) % bounds.len()];
				let (lo, hi) = if ki == b.block.kernels().len() - 1 && v % 2 == 0 { (None, None) } else { (lo, hi) };
				let (tx, rx) = mpsc::channel();
				let c2 = chain.clone();
				let ex = k.excess;
				std::thread::spawn(move || {
					init_thread(true);
					let r = catch(|| c2.get_kernel_height(&ex, lo, hi));
					let _ = tx.send(r);
				});
				if lo.is_some() || hi.is_some() {
					run.count("diverged_header_chain.kernel_lookups_with_height_bounds", 1);
				}
				let mut got = rx.recv_timeout(Duration::from_secs(30));
				if got.is_err() {
					run.count("diverged_header_chain.lookup_slower_than_30s", 1);
					got = rx.recv_timeout(Duration::from_secs(30));
				}
				run.count("diverged_header_chain.kernel_lookups", 1);
				match got {
					Err(_) => {
						run.violation(
							"C17;clause=call_never_returns;fn=get_kernel_height;state=header_chain_on_a_fork_with_fewer_kernels",
							&format!(
								"get_kernel_height({:?}) did not return within 60 s while holding header_pmmr.read(): body head at height {} on a fork with transactions, \
								 header head at height {} on a header-only fork of coinbase-only blocks forking at height {}; kernel of the block at height {}",
								ex, n_trunk + a_len, n_trunk + b_len, n_trunk, b.block.header.height
							),
							json!({"variant": v, "seed": seed, "trunk": n_trunk, "body_fork_len": a_len, "header_fork_len": b_len, "kernel_of_height": b.block.header.height, "min_height": lo, "max_height": hi,
								"reproduce": "blocks trunk+A through process_block, headers of B through process_block_header, then get_kernel_height(excess, None, None)"}),
						);
						// the helper thread still holds the header MMR lock: leave the chain alone
						std::mem::forget(chain);
						return;
					}
					Ok(Err(pn)) => {
						run.violation("C17;clause=panic;fn=get_kernel_height", &format!("panic: {}", pn.message), json!({"variant": v, "seed": seed}));
					}
					Ok(Ok(Err(_))) => run.count("diverged_header_chain.lookup_err", 1),
					Ok(Ok(Ok(None))) => run.count("diverged_header_chain.lookup_none", 1),
					Ok(Ok(Ok(Some((kk, height, _))))) => {
						run.count("diverged_header_chain.lookup_found", 1);
						if kk.excess != ex {
							run.violation("C17;clause=kernel_lookup_answers_another_kernel", &format!("asked {:?}, got {:?}", ex, kk.excess), json!({"variant": v, "seed": seed}));
						}
						if height == b.block.header.height {
							run.count("diverged_header_chain.lookup_height_right", 1);
						}
					}
				}
			}
		}
		// the other read calls of the node's API / sync code in the same state: each must come back (Ok or Err) without a panic
		let commits: Vec<Commitment> = body.iter().flat_map(|b| b.block.outputs().iter().map(|o| o.commitment()).collect::<Vec<_>>()).collect();
		let top = n_trunk + a_len;
		let hh = chain.header_head().ok();
		type Call = Box<dyn FnOnce(&Chain) -> bool + Send>;
		let mut calls: Vec<(&'static str, Call)> = vec![];
		for c in commits.iter().cloned() {
			calls.push(("get_header_for_output", Box::new(move |ch: &Chain| ch.get_header_for_output(c).is_ok())));
			calls.push(("get_merkle_proof_for_pos", Box::new(move |ch: &Chain| ch.get_merkle_proof_for_pos(c).is_ok())));
			calls.push(("get_output_pos", Box::new(move |ch: &Chain| ch.get_output_pos(&c).is_ok())));
		}
		calls.push(("unspent_outputs_by_pmmr_index", Box::new(|ch: &Chain| ch.unspent_outputs_by_pmmr_index(1, 1000, None).is_ok())));
		calls.push(("unspent_outputs_by_pmmr_index", Box::new(|ch: &Chain| ch.unspent_outputs_by_pmmr_index(3, 5, Some(11)).is_ok())));
		for (a, b) in [(0u64, None), (1, Some(top)), (top, Some(top)), (n_trunk, Some(top + 1)), (top + 1, None)] {
			calls.push(("block_height_range_to_pmmr_indices", Box::new(move |ch: &Chain| ch.block_height_range_to_pmmr_indices(a, b).is_ok())));
		}
		calls.push(("get_last_n_output", Box::new(|ch: &Chain| !ch.get_last_n_output(20).is_empty())));
		calls.push(("get_last_n_rangeproof", Box::new(|ch: &Chain| !ch.get_last_n_rangeproof(20).is_empty())));
		calls.push(("get_last_n_kernel", Box::new(|ch: &Chain| !ch.get_last_n_kernel(20).is_empty())));
		calls.push(("fork_point", Box::new(|ch: &Chain| ch.fork_point().is_ok())));
		calls.push(("check_txhashset_needed", Box::new(|ch: &Chain| ch.fork_point().and_then(|f| ch.check_txhashset_needed(&f)).is_ok())));
		calls.push(("txhashset_archive_header", Box::new(|ch: &Chain| ch.txhashset_archive_header().is_ok())));
		calls.push(("txhashset_archive_header_header_only", Box::new(|ch: &Chain| ch.txhashset_archive_header_header_only().is_ok())));
		calls.push(("difficulty_iter", Box::new(|ch: &Chain| ch.difficulty_iter().map(|it| it.take(70).count() > 0).unwrap_or(false))));
		if let Some(t) = hh {
			let heights: Vec<u64> = (0..=t.height).rev().collect();
			calls.push(("get_locator_hashes", Box::new(move |ch: &Chain| ch.get_locator_hashes(t, &heights).is_ok())));
		}
		for hgt in 0..=(n_trunk + b_len + 1) {
			calls.push(("get_header_by_height", Box::new(move |ch: &Chain| ch.get_header_by_height(hgt).is_ok())));
		}
		for (name, call) in calls {
			let (tx, rx) = mpsc::channel();
			let c2 = chain.clone();
			std::thread::spawn(move || {
				init_thread(true);
				let r = catch(move || call(&c2));
				let _ = tx.send(r);
			});
			let mut got = rx.recv_timeout(Duration::from_secs(30));
			if got.is_err() {
				got = rx.recv_timeout(Duration::from_secs(30));
			}
			run.count("diverged_header_chain.other_read_calls", 1);
			match got {
				Err(_) => {
					run.violation(
						&format!("C17;clause=call_never_returns;fn={};state=header_chain_on_another_fork", name),
						&format!("{} did not return within 60 s: body head at height {} on a fork with transactions, header head at height {} on a header-only fork forking at height {}", name, top, n_trunk + b_len, n_trunk),
						json!({"variant": v, "seed": seed, "trunk": n_trunk, "body_fork_len": a_len, "header_fork_len": b_len}),
					);
					std::mem::forget(chain);
					return;
				}
				Ok(Err(pn)) => run.violation(
					&format!("C17;clause=panic;fn={};state=header_chain_on_another_fork", name),
					&format!("{} panicked: {} at {}", name, pn.message, pn.location),
					json!({"variant": v, "seed": seed, "trunk": n_trunk, "body_fork_len": a_len, "header_fork_len": b_len}),
				),
				Ok(Ok(true)) => run.count(&format!("diverged_header_chain.{}.ok", name), 1),
				Ok(Ok(false)) => run.count(&format!("diverged_header_chain.{}.err", name), 1),
			}
		}
		drop(chain);
		let _ = std::fs::remove_dir_all(&d);
	}
}

// ------------------------------------------------------------------ main

const RULE: &str = "run = one real Chain shared by 3-6 submitter threads and 3-7 reader/maintenance threads in one process, all released by a \
	barrier; sched_point (hook H3) armed with the run's own seed perturbs the lock and commit points of process_block_single, \
	process_block_header, sync_block_headers, set_txhashset_roots, compact and validate_tx_against_utxo. World 'short': own random fork \
	tree per run (trunk 4-7, 2-3 competing branches of depth <= 5 forking anywhere, spends, pairwise distinct total difficulties). World \
	'long': 84-block trunk with 3 branches forking from height >= 80, blocks 1..80 preloaded from a prepared directory, so that compact() \
	really prunes and removes blocks while blocks are submitted and segmenter() serves the archive header at height 60. Submitters: each \
	peer delivers ALL blocks of the world in its own order (favourite branch parent-first then shuffled / shuffled / parent-first / \
	children-first), optionally header-first (process_block_header before process_block for none, a third or all blocks), a header thread \
	delivers branch header batches (sync_block_headers) and then the winning path; refused deliveries are retried once concurrently. \
	Readers: head+get_block+get_block_header (head names a stored block, tip fields equal the block's, total difficulty never decreases \
	per thread), view under txhashset.read() (head, roots, sizes must be the reference commitments of that head), get_header_by_height \
	(right height, known header, present up to the height every header chain with header_head's work reaches), get_unspent (answers the \
	asked output at a (pos,height) it has on some fork) + get_unspent_output_at, get_header_for_output, validate_tx / validate_inputs on \
	transactions cut out of the world's blocks, block templates via set_txhashset_roots on head or on any stored block with or without a \
	transaction (on success all header commitments equal the reference ledger's), validate(true), compact(), segmenter() + bitmap/output/ \
	rangeproof/kernel segments (returned roots equal the reference at the archive header). After join: sequential re-delivery of blocks \
	not stored, HeadMove and HeaderHeadMove logs must each be a chain (prev == previous new, strictly more work, known accepted stored \
	block, last == final head), final head == unique max-work block, snapshot == reference ledger state, == sequentially fed reference \
	node, validate(false) Ok. Watchdog: no progress of any thread for 60 s -> gdb all-thread backtraces, the run is re-executed once, \
	only a reproduced hang is a violation. Per world two delivery plans are run, every fourth world runs plan 0 a second time under another schedule seed. The sequential \
	reference node is fed once per world before the runs; a world one of whose blocks it refuses (generator artefact) is discarded and counted. One evaluation = one run; \
	distinct = distinct interleaving (sequence of (thread, HeadMove|HeaderHeadMove, block) + order and thread of block_accepted \
	callbacks); non-trivial = at least two different threads moved the head.";

fn main() {
	let run = Run::from_env("C17", "exploration");
	init_globals(true);
	let san = run.arg_value("--san");
	if let Some((i, n)) = run.worker_shard() {
		let a = phase_args(&run);
		phase_with_monitor(&run, &a, i, n, false, true);
		run.finish_worker();
	}
	run.set_rule(RULE);
	run.assume("schedules are those the OS scheduler produces under seeded perturbation at the hooked lock/commit points; interleavings it never produces are not explored");
	run.assume("a deadlock needs the threads of one run (<= 13) to exhibit it within the run; hangs are judged by a 60 s no-progress watchdog");
	run.assume("orphan eviction (200 blocks / 300 s) is not reached");
	let sc = Scratch::new("c17");
	let dir = sc.path.display().to_string();

	if let Some(kind) = san {
		// sanitizer build: everything in this process so that reports reach the driver
		let n_short = 10u64;
		let n_long = 3u64;
		diverged_header_chain_lookups(&run, &dir, 6);
		let a = PhaseArgs { long: false, n: n_short, dir: dir.clone(), worlds: 1, only: None, deadline_s: 1500.0, small_worlds: true };
		phase_with_monitor(&run, &a, 0, 1, true, false);
		match build_long_world_files(mix(run.seed, 0x1096, 0), &dir, 0) {
			Ok(()) => {
				let a = PhaseArgs { long: true, n: n_long, dir: dir.clone(), worlds: 1, only: None, deadline_s: 2400.0, small_worlds: false };
				phase_with_monitor(&run, &a, 0, 1, true, false);
			}
			Err(e) => run.inconclusive(&format!("long world could not be built: {}", e)),
		}
		run.count(&format!("sanitizer_run.{}", kind), 1);
		run.require("runs_completed", run.counter("runs_completed"), n_short + n_long);
		run.require("head_move_events_checked", run.counter("head_move_events_checked"), 20);
		drop(sc);
		run.finish();
	}

	// numbers of worlds (short) / plan pairs (long); each gives 2-3 runs
	// --replay FILE: execute only the run named in the replay file (same seeds), a few times, since the
	// schedule is perturbed, not replayed
	if let Some(path) = run.replay.clone() {
		let v: Value = std::fs::read_to_string(&path).ok().and_then(|t| serde_json::from_str(&t).ok()).unwrap_or(Value::Null);
		if v["signature"].as_str().map(|x| x.contains("call_never_returns") || x.contains("get_kernel_height")).unwrap_or(false) {
			diverged_header_chain_lookups(&run, &dir, 36);
			drop(sc);
			run.finish();
		}
		let case = if v["case"]["first"].is_object() { v["case"]["first"].clone() } else { v["case"].clone() };
		let long = case["world"].as_str() == Some("long") || case["long"].as_bool() == Some(true);
		let k = case["k"].as_u64().unwrap_or(0);
		let n_long_worlds: usize = run.tier.pick(1, 4);
		let mut extra: Vec<String> = vec![
			"--phase".into(), if long { "long" } else { "short" }.into(), "--n".into(), (k + 1).to_string(),
			"--only-run".into(), k.to_string(), "--deadline".into(), "100000".into(),
		];
		if long {
			let j = (k as usize) % n_long_worlds;
			if let Err(e) = build_long_world_files(mix(run.seed, 0x1096, j as u64), &dir, j) {
				run.inconclusive(&format!("long world could not be built: {}", e));
			}
			extra.extend(["--dir".to_string(), dir.clone(), "--worlds".to_string(), n_long_worlds.to_string()]);
		}
		for attempt in 0..5 {
			let res = run.spawn_workers(1, &extra, 900);
			if let Some(h) = res.get(0).map(|r| r["extras"]["hang"].clone()).filter(|h| !h.is_null()) {
				run.count("hangs_in_replay", 1);
				if run.counter("hangs_in_replay") >= 2 {
					run.violation(
						&format!("C17;world={};clause=deadlock", if long { "long" } else { "short" }),
						"no thread made progress for 60 s in two executions of the replayed run",
						json!({"second": h, "k": k}),
					);
					break;
				}
			}
			if run.n_violations() > 0 {
				break;
			}
			run.count("replay_attempts", 1);
			let _ = attempt;
		}
		drop(sc);
		run.finish();
	}

	let n_short: u64 = run.tier.pick(96, 1000);
	let n_long: u64 = run.tier.pick(24, 192);
	let n_long_worlds: usize = run.tier.pick(1, 4);
	// caps, not durations (the run lists are fixed): generous, because the same list has taken three times as long when
	// the host's CPUs were shared
	let phase_deadline: f64 = run.tier.pick(180.0, 900.0);
	let wd: u64 = run.tier.pick(480, 1500);

	// long worlds are generated while the short phase runs
	let long_ok = Mutex::new(true);
	let mut all_results: Vec<(String, Value)> = vec![];
	std::thread::scope(|s| {
		for j in 0..n_long_worlds {
			let dir = dir.clone();
			let long_ok = &long_ok;
			let seed = mix(run.seed, 0x1096, j as u64);
			let run = &run;
			s.spawn(move || {
				init_thread(true);
				let t = Instant::now();
				if let Err(e) = build_long_world_files(seed, &dir, j) {
					run.inconclusive(&format!("long world {} could not be built: {}", j, e));
					*long_ok.lock().unwrap() = false;
				}
				run.set_max("max_long_world_build_ms", t.elapsed().as_millis() as u64);
			});
		}
		{
			let run = &run;
			let dir = dir.clone();
			let n = run.tier.pick(24u64, 96u64);
			s.spawn(move || diverged_header_chain_lookups(run, &dir, n));
		}
		let extra: Vec<String> = vec!["--phase".into(), "short".into(), "--n".into(), n_short.to_string(), "--deadline".into(), phase_deadline.to_string()];
		for r in run.spawn_workers(16, &extra, wd) {
			all_results.push(("short".to_string(), r));
		}
	});
	if *long_ok.lock().unwrap() {
		let extra: Vec<String> = vec![
			"--phase".into(), "long".into(), "--n".into(), n_long.to_string(), "--dir".into(), dir.clone(),
			"--worlds".into(), n_long_worlds.to_string(), "--deadline".into(), phase_deadline.to_string(),
		];
		for r in run.spawn_workers((n_long as usize).min(16), &extra, wd) {
			all_results.push(("long".to_string(), r));
		}
	}

	// hangs: re-run the same run (same seeds) once, alone; only a reproduced hang is a violation
	let mut reruns = 0;
	for (phase, r) in all_results.clone() {
		let h = &r["extras"]["hang"];
		if h.is_null() {
			continue;
		}
		reruns += 1;
		if reruns > 3 || run.n_violations() > 0 {
			run.count("hangs_not_re_run", 1);
			if let Some(f) = h["gdb_file"].as_str() {
				if !f.is_empty() {
					let _ = std::fs::remove_file(f);
				}
			}
			continue;
		}
		let k = h["k"].as_u64().unwrap_or(0);
		if h["confirmed_in_place"].as_bool() == Some(true) {
			let mut opsv: Vec<&str> = h["stuck_ops"].as_array().map(|a| a.iter().filter_map(|x| x.as_str()).collect::<Vec<_>>()).unwrap_or_default();
			opsv.dedup();
			run.violation(
				&format!("C17;world={};clause=deadlock", phase),
				&format!(
					"no thread made progress for 60 s and the stalled process was a deadlock beyond doubt ({}); threads stuck in: {}; backtraces: {}",
					h["confirmation"].as_str().unwrap_or("-"),
					opsv.join("+"),
					h["gdb_file"].as_str().unwrap_or("-")
				),
				json!({"first": h, "reproduce": format!("c17 --tier {} --seed {} --worker 0 1 --phase {} --only-run {}", run.tier.name(), run.seed, phase, k)}),
			);
			continue;
		}
		let mut extra: Vec<String> = vec!["--phase".into(), phase.clone(), "--n".into(), (k + 1).to_string(), "--only-run".into(), k.to_string(), "--deadline".into(), "100000".into()];
		if phase == "long" {
			extra.extend(["--dir".to_string(), dir.clone(), "--worlds".to_string(), n_long_worlds.to_string()]);
		}
		let again = run.spawn_workers(1, &extra, 600);
		let h2 = again.get(0).map(|v| v["extras"]["hang"].clone()).unwrap_or(Value::Null);
		if h2.is_null() {
			run.inconclusive(&format!("{} run {} made no progress for 60 s ({}) but the hang did not reproduce when re-run alone", phase, k, h));
			run.count("hangs_not_reproduced", 1);
		} else {
			let mut opsv: Vec<&str> = h2["stuck_ops"].as_array().map(|a| a.iter().filter_map(|x| x.as_str()).collect::<Vec<_>>()).unwrap_or_default();
			opsv.dedup();
			let ops = opsv.join("+");
			// which bystanders are blocked behind the cycle varies from run to run: the signature names the event only,
			// the calls the threads are stuck in and the gdb backtraces are in the description / replay file
			run.violation(
				&format!("C17;world={};clause=deadlock", phase),
				&format!(
					"no thread made progress for 60 s, reproduced when the run was executed again alone; threads stuck in: {}; backtraces: {} / {}",
					ops,
					h["gdb_file"].as_str().unwrap_or("-"),
					h2["gdb_file"].as_str().unwrap_or("-")
				),
				json!({"first": h, "second": h2, "reproduce": format!("c17 --tier {} --seed {} --worker 0 1 --phase {} --only-run {}", run.tier.name(), run.seed, phase, k)}),
			);
		}
	}
	drop(sc);

	let c = |n: &str| run.counter(n);
	let req = |name: &str, q: u64, t: u64| run.require(name, c(name), run.tier.pick(q, t));
	req("runs_completed", 200, 1800);
	req("runs.long", 40, 300);
	req("runs_with_end_state_equal_to_reference", 200, 1800);
	req("final_full_validation_ok", 200, 1800);
	req("head_move_events_checked", 1000, 10000);
	req("header_head_move_events_checked", 600, 6000);
	req("runs_where_several_threads_moved_the_head", 180, 2000);
	req("reorg_callbacks", 150, 1500);
	req("block.orphan", 500, 5000);
	req("concurrent_duplicate_deliveries", 2000, 20000);
	req("locked_views_consistent", 2500, 25000);
	req("unspent_outputs_by_pmmr_index.ok", 120, 1200);
	req("unspent_outputs_by_pmmr_index.outputs_whose_proof_was_compared", 2000, 20000);
	req("locked_views_of_intermediate_heads", 1000, 10000);
	req("head_changes_observed_by_readers", 800, 8000);
	req("template_roots_checked", 3000, 30000);
	req("template_roots_checked_with_tx", 400, 4000);
	req("get_unspent.some", 1000, 10000);
	req("get_unspent.answers_explained_by_a_head_of_the_call_interval", 2000, 20000);
	req("get_unspent.calls_spanning_a_head_move", 20, 200);
	req("validate_tx.ok", 300, 3000);
	req("header_by_height.ok", 1000, 10000);
	req("validate_fast.ok", 150, 1500);
	req("effective_compactions_during_runs", 15, 120);
	req("segmenter.ok", 600, 5000);
	req("segment.roots_checked", 500, 4000);
	req("sched_points_perturbed", 10000, 100000);
	req("runs_that_crossed_a_database_map_enlargement", 40, 400);
	req("reader_storms_before_the_quiescence_check", 30, 300);
	req("quiescent_open_transaction_counts_read", 200, 1800);
	req("same_plan_other_schedule_gave_other_interleaving", 10, 100);
	if run.n_violations() == 0 {
		req("diverged_header_chain.states_where_the_header_chain_covers_the_body_height", 12, 48);
		req("diverged_header_chain.kernel_lookups", 150, 600);
	}
	run.finish();
}
