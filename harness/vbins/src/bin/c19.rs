//! C19 — Peer message framing is faithful under fragmentation and enforces size limits.
//!
//! Runtime monitoring of the real `Codec` / `conn::listen` / `Handshake` over
//! loopback TCP socket pairs:
//!   1. faithfulness: message sequences written in chosen fragments are read back as the
//!      identical typed sequence (type + re-encoded body, header batches re-joined,
//!      attachment bytes identical, byte accounting exact, no phantom message);
//!   2. unknown message types are skipped and the following message is intact;
//!   3. wrong magic / over-limit lengths are refused after at most the 11 header bytes
//!      and without allocating the announced size; contradictory item counts are refused
//!      without count-proportional allocation (run in a worker subprocess so that an
//!      over-cap allocation can be classified);
//!   4. handshake: min(local, remote) version, different genesis refused, own nonce refused.

#![allow(clippy::too_many_arguments, clippy::type_complexity)]

use chrono::{DateTime, Utc};
use grin_chain::txhashset::{BitmapChunk, BitmapSegment};
use grin_core::consensus;
use grin_core::core::hash::Hash;
use grin_core::core::pmmr;
use grin_core::core::{
	Block, BlockHeader, CompactBlock, KernelFeatures, Segment, SegmentIdentifier, SegmentProof,
	Transaction,
};
use grin_core::global;
use grin_core::pow::{self, Difficulty};
use grin_core::ser::{self, DeserializationMode, ProtocolVersion, Writeable};
use grin_keychain::BlindingFactor;
use grin_p2p::handshake::Handshake;
use grin_p2p::msg::{
	write_message, BanReason, Consumed, GetPeerAddrs, Headers, Locator, Message, Msg,
	OutputBitmapSegmentResponse, OutputSegmentResponse, PeerAddrs, Ping, Pong, SegmentRequest,
	SegmentResponse, TxHashSetArchive, TxHashSetRequest, Type,
};
use grin_p2p::types::AttachmentMeta;
use grin_p2p::verif_export::{listen, Codec, MessageHandler, Tracker};
use grin_p2p::{Capabilities, Error, P2PConfig, PeerAddr, ReasonForBan};
use serde_json::{json, Value};
use std::collections::BTreeMap;
use std::fs::File;
use std::io::{Read, Write};
use std::net::{Shutdown, SocketAddr, TcpListener, TcpStream};
use std::path::PathBuf;
use std::sync::atomic::{AtomicBool, AtomicU64, AtomicUsize, Ordering};
use std::sync::{mpsc, Arc, Mutex};
use std::thread;
use std::time::{Duration, Instant};
use vcommon::monitor::{self, track_alloc, TrackingAlloc};
use vcommon::world::{fee_fields, height_locked, init_globals, World};
use vcommon::{Prng, Run, Scratch};

#[global_allocator]
static ALLOC: TrackingAlloc = TrackingAlloc;

const VERSIONS: [u32; 4] = [1, 2, 3, 1000];
/// Network magic of every chain type other than mainnet / testnet (own constant, from the protocol definition).
/// network magic of the chain type this process runs under (AutomatedTesting / UserTesting: [73, 43];
/// the limits worker run with Mainnet parameters switches it to [97, 61])
static MAGIC_BYTES: std::sync::atomic::AtomicU16 = std::sync::atomic::AtomicU16::new(73 * 256 + 43);
#[allow(non_snake_case)]
fn MAGIC() -> [u8; 2] {
	let v = MAGIC_BYTES.load(Ordering::Relaxed);
	[(v >> 8) as u8, (v & 255) as u8]
}
const HDR_LEN: usize = 11;
const ATT_CHUNK: usize = 48_000;

const TYPE_NAMES: [&str; 29] = [
	"Error",
	"Hand",
	"Shake",
	"Ping",
	"Pong",
	"GetPeerAddrs",
	"PeerAddrs",
	"GetHeaders",
	"Header",
	"Headers",
	"GetBlock",
	"Block",
	"GetCompactBlock",
	"CompactBlock",
	"StemTransaction",
	"Transaction",
	"TxHashSetRequest",
	"TxHashSetArchive",
	"BanReason",
	"GetTransaction",
	"TransactionKernel",
	"GetOutputBitmapSegment",
	"OutputBitmapSegment",
	"GetOutputSegment",
	"OutputSegment",
	"GetRangeProofSegment",
	"RangeProofSegment",
	"GetKernelSegment",
	"KernelSegment",
];

fn type_name(t: u8) -> String {
	if (t as usize) < TYPE_NAMES.len() {
		TYPE_NAMES[t as usize].to_string()
	} else {
		format!("Unknown{}", t)
	}
}

/// Own table of the nominal per-type limits (from the protocol definition); the
/// code under test refuses above 4x nominal.
fn max_block_size() -> u64 {
	global::max_block_weight() / consensus::OUTPUT_WEIGHT * 708
}

fn nominal_limit(t: u8) -> u64 {
	let mbs = max_block_size();
	match t {
		0 => 0,
		1 => 128,
		2 => 88,
		3 | 4 => 16,
		5 => 4,
		6 => 4 + (1 + 16 + 2) * 256,
		7 => 1 + 32 * 20,
		8 => 365,
		9 => 2 + 365 * 512,
		10 | 12 => 32,
		11 => mbs,
		13 => mbs / 10,
		14 | 15 => mbs,
		16 => 40,
		17 | 18 => 64,
		19 | 20 => 32,
		21 | 23 | 25 | 27 => 41,
		22 | 24 | 26 | 28 => 2 * mbs,
		_ => mbs,
	}
}

fn frame_header(magic: [u8; 2], ty: u8, len: u64) -> Vec<u8> {
	let mut v = Vec::with_capacity(HDR_LEN);
	v.extend_from_slice(&magic);
	v.push(ty);
	v.extend_from_slice(&len.to_be_bytes());
	v
}

fn frame(ty: u8, body: &[u8]) -> Vec<u8> {
	let mut v = frame_header(MAGIC(), ty, body.len() as u64);
	v.extend_from_slice(body);
	v
}

fn short(s: String) -> String {
	s.split(|c| c == '(' || c == '{' || c == ' ')
		.next()
		.unwrap_or("")
		.to_string()
}

fn err_class(e: &Error) -> String {
	match e {
		Error::Serialization(se) => format!("Serialization:{}", short(format!("{:?}", se))),
		Error::Connection(io) => format!("Connection:{:?}", io.kind()),
		other => short(format!("{:?}", other)),
	}
}

fn is_timeout(e: &Error) -> bool {
	match e {
		Error::Connection(io) => {
			io.kind() == std::io::ErrorKind::TimedOut || io.kind() == std::io::ErrorKind::WouldBlock
		}
		_ => false,
	}
}

fn pv(vi: usize) -> ProtocolVersion {
	ProtocolVersion(VERSIONS[vi])
}

// ---------------------------------------------------------------- fixtures

struct Entry {
	name: &'static str,
	ty: u8,
	bodies: Vec<Vec<u8>>, // per VERSIONS index
}

struct Fx {
	hdr_bytes: Vec<Vec<u8>>,
	hdr_eb: Vec<u8>,
	entries: Vec<Entry>,
	writer_mismatches: Vec<String>,
}

impl Fx {
	fn e(&self, name: &str) -> usize {
		self.entries
			.iter()
			.position(|e| e.name == name)
			.unwrap_or_else(|| panic!("no catalog entry {}", name))
	}
}

fn ts(secs: i64) -> DateTime<Utc> {
	DateTime::<Utc>::from_timestamp(secs, 0).expect("timestamp")
}

fn rnd_hash(p: &mut Prng) -> Hash {
	Hash::from_vec(&p.bytes(32))
}

fn mine_header(p: &mut Prng, height: u64, eb: u8) -> BlockHeader {
	let mut h = BlockHeader::default();
	h.height = height;
	h.version = consensus::header_version(height);
	h.timestamp = ts(1_600_000_000 + 60 * height as i64);
	h.prev_hash = rnd_hash(p);
	h.prev_root = rnd_hash(p);
	h.output_root = rnd_hash(p);
	h.range_proof_root = rnd_hash(p);
	h.kernel_root = rnd_hash(p);
	h.total_kernel_offset = BlindingFactor::from_slice(&p.bytes(32));
	h.output_mmr_size = pmmr::insertion_to_pmmr_index(height + 1);
	h.kernel_mmr_size = pmmr::insertion_to_pmmr_index(height + 1);
	h.pow.total_difficulty = Difficulty::from_num(p.range(1, 1 << 40));
	h.pow.secondary_scaling = p.next_u32();
	h.pow.nonce = p.next_u64();
	pow::pow_size(&mut h, Difficulty::zero(), global::proofsize(), eb).expect("pow_size");
	// the solver labels its proofs with the minimum edge bits; the cycle was found in the 2^eb graph
	h.pow.proof.edge_bits = eb;
	h
}

/// Mine `n` headers in parallel; edge bits chosen per header by `eb_of(i)`.
fn mine_pool(seed: u64, ebs: Vec<u8>) -> Vec<BlockHeader> {
	let n = ebs.len();
	let next = AtomicUsize::new(0);
	let out: Mutex<Vec<Option<BlockHeader>>> = Mutex::new(vec![None; n]);
	thread::scope(|s| {
		for _ in 0..16 {
			s.spawn(|| loop {
				let i = next.fetch_add(1, Ordering::SeqCst);
				if i >= n {
					break;
				}
				let mut p = Prng::new(seed ^ (0xC19_0000 + i as u64).wrapping_mul(0x9E37_79B9));
				let h = mine_header(&mut p, 1 + (i as u64 % 40), ebs[i]);
				out.lock().unwrap()[i] = Some(h);
			});
		}
	});
	out.into_inner()
		.unwrap()
		.into_iter()
		.map(|h| h.expect("mined"))
		.collect()
}

fn mk_entry<T: Writeable>(name: &'static str, ty: Type, val: &T, mism: &mut Vec<String>) -> Entry {
	let mut bodies = vec![];
	for v in VERSIONS {
		let body = ser::ser_vec(val, ProtocolVersion(v)).expect("ser_vec");
		// cross-check of the real writer against the frame definition
		match Msg::new(ty, val, ProtocolVersion(v)) {
			Ok(m) => {
				let mut w: Vec<u8> = vec![];
				match write_message(&mut w, &m, Arc::new(Tracker::new())) {
					Ok(()) => {
						if w != frame(ty as u8, &body) {
							mism.push(format!("{} v{}", name, v));
						}
					}
					Err(e) => mism.push(format!("{} v{}: write_message {:?}", name, v, e)),
				}
			}
			Err(e) => mism.push(format!("{} v{}: Msg::new {:?}", name, v, e)),
		}
		bodies.push(body);
	}
	Entry {
		name,
		ty: ty as u8,
		bodies,
	}
}

fn build_fx(seed: u64, n_pool: usize) -> Fx {
	let mut p = Prng::new(seed ^ 0xF1C5);
	// header pool: mostly the minimum edge bits, a mix of larger ones (header size = 247 + edge_bits)
	let choices: [u8; 8] = [10, 10, 10, 11, 11, 12, 13, 14];
	let mut ebs: Vec<u8> = (0..n_pool).map(|_| *p.pick(&choices)).collect();
	// the first few are fixed so that named fixtures are stable
	let fixed: [u8; 12] = [10, 11, 10, 13, 16, 10, 12, 10, 15, 10, 10, 14];
	for (i, e) in fixed.iter().enumerate() {
		if i < ebs.len() {
			ebs[i] = *e;
		}
	}
	let pool = mine_pool(seed, ebs.clone());
	let mut hdr_bytes = vec![];
	for h in &pool {
		// fixture sanity: every pool header must pass the read-time validation on its own
		{
			let b = ser::ser_vec(h, ProtocolVersion(1000)).unwrap();
			let r: Result<grin_core::core::UntrustedBlockHeader, _> =
				ser::deserialize(&mut &b[..], ProtocolVersion(1000), DeserializationMode::default());
			assert!(r.is_ok(), "fixture header (edge bits {}) does not pass UntrustedBlockHeader::read: {:?}", h.pow.edge_bits(), r.err());
		}
		let b = ser::ser_vec(h, ProtocolVersion(1000)).expect("ser header");
		for v in VERSIONS {
			assert_eq!(b, ser::ser_vec(h, ProtocolVersion(v)).unwrap());
		}
		assert_eq!(b.len(), global::header_size_bytes(h.pow.edge_bits()));
		hdr_bytes.push(b);
	}

	let mut mism = vec![];
	let mut entries = vec![];
	let w = World::new(seed ^ 0x77);
	let hash_a = rnd_hash(&mut p);
	let hash_b = rnd_hash(&mut p);
	let hash_c = rnd_hash(&mut p);

	// simple fixed-size messages
	entries.push(mk_entry(
		"Ping",
		Type::Ping,
		&Ping {
			total_difficulty: Difficulty::from_num(123_456),
			height: 42,
		},
		&mut mism,
	));
	entries.push(mk_entry(
		"PingMax",
		Type::Ping,
		&Ping {
			total_difficulty: Difficulty::from_num(u64::MAX),
			height: u64::MAX,
		},
		&mut mism,
	));
	entries.push(mk_entry(
		"Pong",
		Type::Pong,
		&Pong {
			total_difficulty: Difficulty::from_num(9),
			height: 7,
		},
		&mut mism,
	));
	entries.push(mk_entry(
		"GetPeerAddrs",
		Type::GetPeerAddrs,
		&GetPeerAddrs {
			capabilities: Capabilities::PEER_LIST | Capabilities::HEADER_HIST,
		},
		&mut mism,
	));
	let a4 = |s: &str| PeerAddr(s.parse::<SocketAddr>().unwrap());
	entries.push(mk_entry("PeerAddrs0", Type::PeerAddrs, &PeerAddrs { peers: vec![] }, &mut mism));
	entries.push(mk_entry(
		"PeerAddrs1",
		Type::PeerAddrs,
		&PeerAddrs {
			peers: vec![a4("10.1.2.3:3414")],
		},
		&mut mism,
	));
	entries.push(mk_entry(
		"PeerAddrs3",
		Type::PeerAddrs,
		&PeerAddrs {
			peers: vec![
				a4("192.168.0.1:13414"),
				a4("[2001:db8::1:2]:3414"),
				a4("8.8.4.4:1"),
			],
		},
		&mut mism,
	));
	let many: Vec<PeerAddr> = (0..256u32)
		.map(|i| {
			if i % 3 == 0 {
				a4(&format!("[2001:db8::{:x}]:{}", i + 1, 1000 + i))
			} else {
				a4(&format!("10.0.{}.{}:{}", i / 200, i % 200 + 1, 2000 + i))
			}
		})
		.collect();
	entries.push(mk_entry("PeerAddrs256", Type::PeerAddrs, &PeerAddrs { peers: many }, &mut mism));
	entries.push(mk_entry("GetHeaders0", Type::GetHeaders, &Locator { hashes: vec![] }, &mut mism));
	entries.push(mk_entry(
		"GetHeaders1",
		Type::GetHeaders,
		&Locator { hashes: vec![hash_a] },
		&mut mism,
	));
	entries.push(mk_entry(
		"GetHeaders20",
		Type::GetHeaders,
		&Locator {
			hashes: (0..20).map(|_| rnd_hash(&mut p)).collect(),
		},
		&mut mism,
	));
	entries.push(mk_entry("Header", Type::Header, &pool[0], &mut mism));
	entries.push(mk_entry("HeaderEb16", Type::Header, &pool[4], &mut mism));
	entries.push(mk_entry("GetBlock", Type::GetBlock, &hash_a, &mut mism));
	entries.push(mk_entry("GetCompactBlock", Type::GetCompactBlock, &hash_b, &mut mism));
	entries.push(mk_entry("TransactionKernel", Type::TransactionKernel, &hash_c, &mut mism));
	entries.push(mk_entry("GetTransaction", Type::GetTransaction, &hash_b, &mut mism));
	entries.push(mk_entry(
		"TxHashSetRequest",
		Type::TxHashSetRequest,
		&TxHashSetRequest {
			hash: hash_c,
			height: 77,
		},
		&mut mism,
	));
	entries.push(mk_entry(
		"BanReason",
		Type::BanReason,
		&BanReason {
			ban_reason: ReasonForBan::BadBlockHeader,
		},
		&mut mism,
	));
	entries.push(mk_entry(
		"BanReason7",
		Type::BanReason,
		&BanReason {
			ban_reason: ReasonForBan::BadHandshake,
		},
		&mut mism,
	));

	// transactions, blocks
	let c0 = w.coin(60_000_000_000, &w.key(1), true);
	let c1 = w.coin(50_000_000_000, &w.key(2), false);
	let c2 = w.coin(7_000_000_000, &w.key(3), false);
	// the builder yields commit-only inputs (v3 wire form); v1/v2 peers carry features + commitment
	let with_features = |tx: Transaction, coins: &[vcommon::world::Coin]| -> Transaction {
		let mut ins: Vec<grin_core::core::Input> = coins.iter().map(|c| c.input()).collect();
		ins.sort_unstable();
		Transaction {
			offset: tx.offset.clone(),
			body: tx.body.clone().replace_inputs(grin_core::core::transaction::Inputs::from(ins.as_slice())),
		}
	};
	let (tx1, _) = w.tx(
		&mut p,
		&[c0.clone()],
		&[(59_000_000_000, w.key(4))],
		KernelFeatures::Plain {
			fee: fee_fields(1_000_000_000),
		},
	);
	let tx1 = with_features(tx1, &[c0]);
	let (tx2, _) = w.tx(
		&mut p,
		&[c1.clone(), c2.clone()],
		&[(30_000_000_000, w.key(5)), (26_000_000_000, w.key(6))],
		height_locked(1_000_000_000, 7),
	);
	let tx2 = with_features(tx2, &[c1, c2]);
	entries.push(mk_entry("Transaction", Type::Transaction, &tx1, &mut mism));
	entries.push(mk_entry("Transaction2", Type::Transaction, &tx2, &mut mism));
	entries.push(mk_entry("StemTransaction", Type::StemTransaction, &tx2, &mut mism));

	let mk_block = |txs: &[Transaction], key: u32, eb: u8| -> Block {
		let prev = BlockHeader::default();
		let fees: u64 = txs.iter().map(|t| t.fee()).sum();
		let (out, kern) = w.coinbase(&w.key(key), fees);
		let mut b = Block::from_reward(&prev, txs, out, kern, Difficulty::from_num(5)).expect("from_reward");
		b.header.timestamp = ts(1_600_000_500);
		pow::pow_size(&mut b.header, Difficulty::zero(), global::proofsize(), eb).expect("pow block");
		b.header.pow.proof.edge_bits = eb;
		b
	};
	let b1 = mk_block(&[], 10, 10);
	let b2 = mk_block(&[tx1.clone()], 11, 12);
	entries.push(mk_entry("Block", Type::Block, &b1, &mut mism));
	entries.push(mk_entry("BlockTx", Type::Block, &b2, &mut mism));
	let cb1: CompactBlock = b1.clone().into();
	let cb2: CompactBlock = b2.clone().into();
	entries.push(mk_entry("CompactBlock", Type::CompactBlock, &cb1, &mut mism));
	entries.push(mk_entry("CompactBlockTx", Type::CompactBlock, &cb2, &mut mism));

	// PIBD messages
	let id = |height: u8, idx: u64| SegmentIdentifier { height, idx };
	for (name, ty, ident) in [
		("GetOutputBitmapSegment", Type::GetOutputBitmapSegment, id(9, 0)),
		("GetOutputSegment", Type::GetOutputSegment, id(11, 3)),
		("GetRangeProofSegment", Type::GetRangeProofSegment, id(11, u64::MAX)),
		("GetKernelSegment", Type::GetKernelSegment, id(255, 1 << 40)),
	] {
		entries.push(mk_entry(
			name,
			ty,
			&SegmentRequest {
				block_hash: rnd_hash(&mut p),
				identifier: ident,
			},
			&mut mism,
		));
	}
	let mut proof_bytes = 2u64.to_be_bytes().to_vec();
	proof_bytes.extend(p.bytes(64));
	let proof: SegmentProof =
		ser::deserialize(&mut &proof_bytes[..], ProtocolVersion(1000), DeserializationMode::default())
			.expect("segment proof");
	let outs = tx2.outputs();
	let out_seg = Segment::from_parts(
		id(2, 1),
		vec![4, 9],
		vec![rnd_hash(&mut p), rnd_hash(&mut p)],
		vec![7, 8],
		vec![outs[0].identifier(), outs[1].identifier()],
		proof.clone(),
	);
	entries.push(mk_entry(
		"OutputSegment",
		Type::OutputSegment,
		&OutputSegmentResponse {
			response: SegmentResponse {
				block_hash: rnd_hash(&mut p),
				segment: out_seg,
			},
			output_bitmap_root: rnd_hash(&mut p),
		},
		&mut mism,
	));
	let rp_seg = Segment::from_parts(
		id(1, 2),
		vec![],
		vec![],
		vec![7, 8],
		vec![outs[0].proof(), outs[1].proof()],
		proof.clone(),
	);
	entries.push(mk_entry(
		"RangeProofSegment",
		Type::RangeProofSegment,
		&SegmentResponse {
			block_hash: rnd_hash(&mut p),
			segment: rp_seg,
		},
		&mut mism,
	));
	let k_seg = Segment::from_parts(
		id(1, 0),
		vec![2],
		vec![rnd_hash(&mut p)],
		vec![3, 4],
		vec![tx1.kernels()[0].clone(), tx2.kernels()[0].clone()],
		proof.clone(),
	);
	entries.push(mk_entry(
		"KernelSegment",
		Type::KernelSegment,
		&SegmentResponse {
			block_hash: rnd_hash(&mut p),
			segment: k_seg,
		},
		&mut mism,
	));
	let mut ch1 = BitmapChunk::new();
	ch1.set(3, true);
	ch1.set(1000, true);
	let mut ch2 = BitmapChunk::new();
	for i in 0..1024u64 {
		if i % 3 != 0 {
			ch2.set(i, true);
		}
	}
	let mut ch3 = BitmapChunk::new();
	ch3.set(0, true);
	let b_seg = Segment::from_parts(id(2, 0), vec![], vec![], vec![0, 1, 3], vec![ch1, ch2, ch3], proof);
	let bm: BitmapSegment = b_seg.into();
	entries.push(mk_entry(
		"OutputBitmapSegment",
		Type::OutputBitmapSegment,
		&OutputBitmapSegmentResponse {
			block_hash: rnd_hash(&mut p),
			segment: bm,
			output_root: rnd_hash(&mut p),
		},
		&mut mism,
	));
	// header lists: the real writer against the definition (count u16 + headers)
	for n in [1usize, 3] {
		let hs: Vec<BlockHeader> = pool[..n].to_vec();
		let e = mk_entry("HeadersCheck", Type::Headers, &Headers { headers: hs }, &mut mism);
		let mut want = (n as u16).to_be_bytes().to_vec();
		for b in &hdr_bytes[..n] {
			want.extend_from_slice(b);
		}
		if e.bodies[3] != want {
			mism.push(format!("Headers n={} body layout", n));
		}
	}

	Fx {
		hdr_bytes,
		hdr_eb: ebs,
		entries,
		writer_mismatches: mism,
	}
}

// ---------------------------------------------------------------- items and streams

#[derive(Clone, Debug)]
enum Item {
	/// catalog entry index
	Plain(usize),
	/// header list: indices into the header pool
	Headers(Vec<usize>),
	/// unknown type byte with a body of `len` pseudo-random bytes
	Unknown(u8, usize),
	/// TxHashSetArchive followed by a streamed attachment of `len` bytes
	Archive(usize, u64),
}

fn archive_body(len: usize, seed: u64) -> Vec<u8> {
	let mut p = Prng::new(seed ^ 0xA7C4);
	let mut b = p.bytes(32); // hash
	b.extend_from_slice(&(seed % 100_000).to_be_bytes()); // height
	b.extend_from_slice(&(len as u64).to_be_bytes()); // bytes
	b
}

fn archive_attachment(len: usize, seed: u64) -> Vec<u8> {
	Prng::new(seed ^ 0xA77A).bytes(len)
}

impl Item {
	fn name(&self, fx: &Fx) -> String {
		match self {
			Item::Plain(i) => fx.entries[*i].name.to_string(),
			Item::Headers(h) => {
				if h.is_empty() {
					"Headers0".to_string()
				} else {
					"Headers".to_string()
				}
			}
			Item::Unknown(_, _) => "Unknown".to_string(),
			Item::Archive(_, _) => "TxHashSetArchive+Attachment".to_string(),
		}
	}
	fn label(&self, fx: &Fx) -> String {
		match self {
			Item::Plain(i) => fx.entries[*i].name.to_string(),
			Item::Headers(h) => format!("Headers[{}]", h.len()),
			Item::Unknown(t, l) => format!("Unknown({},{})", t, l),
			Item::Archive(l, _) => format!("Archive[{}]", l),
		}
	}
	fn encode(&self, fx: &Fx, vi: usize) -> Vec<u8> {
		match self {
			Item::Plain(i) => frame(fx.entries[*i].ty, &fx.entries[*i].bodies[vi]),
			Item::Headers(h) => {
				let mut body = (h.len() as u16).to_be_bytes().to_vec();
				for i in h {
					body.extend_from_slice(&fx.hdr_bytes[*i]);
				}
				frame(9, &body)
			}
			Item::Unknown(t, l) => frame(*t, &Prng::new(*t as u64 * 7919 + *l as u64).bytes(*l)),
			Item::Archive(l, s) => {
				let mut f = frame(17, &archive_body(*l, *s));
				f.extend_from_slice(&archive_attachment(*l, *s));
				f
			}
		}
	}
}

struct Stream {
	name: String,
	vi: usize,
	items: Vec<Item>,
	bytes: Vec<u8>,
	item_ends: Vec<usize>,
}

fn mk_stream(fx: &Fx, name: &str, vi: usize, items: Vec<Item>) -> Arc<Stream> {
	let mut bytes = vec![];
	let mut item_ends = vec![];
	for it in &items {
		bytes.extend(it.encode(fx, vi));
		item_ends.push(bytes.len());
	}
	Arc::new(Stream {
		name: name.to_string(),
		vi,
		items,
		bytes,
		item_ends,
	})
}

fn reencode(m: Message, v: ProtocolVersion) -> Result<(u8, Vec<u8>), String> {
	fn s<T: Writeable>(t: u8, x: &T, v: ProtocolVersion) -> Result<(u8, Vec<u8>), String> {
		ser::ser_vec(x, v)
			.map(|b| (t, b))
			.map_err(|e| format!("re-encode failed: {:?}", e))
	}
	match m {
		Message::Ping(x) => s(3, &x, v),
		Message::Pong(x) => s(4, &x, v),
		Message::GetPeerAddrs(x) => s(5, &x, v),
		Message::PeerAddrs(x) => s(6, &x, v),
		Message::GetHeaders(x) => s(7, &x, v),
		Message::Header(x) => {
			let h: BlockHeader = x.into();
			s(8, &h, v)
		}
		Message::GetBlock(x) => s(10, &x, v),
		Message::Block(x) => {
			let b: Block = x.into();
			s(11, &b, v)
		}
		Message::GetCompactBlock(x) => s(12, &x, v),
		Message::CompactBlock(x) => {
			let b: CompactBlock = x.into();
			s(13, &b, v)
		}
		Message::StemTransaction(x) => s(14, &x, v),
		Message::Transaction(x) => s(15, &x, v),
		Message::TxHashSetRequest(x) => s(16, &x, v),
		Message::TxHashSetArchive(x) => s(17, &x, v),
		Message::BanReason(x) => s(18, &x, v),
		Message::GetTransaction(x) => s(19, &x, v),
		Message::TransactionKernel(x) => s(20, &x, v),
		Message::GetOutputBitmapSegment(x) => s(21, &x, v),
		Message::OutputBitmapSegment(x) => s(22, &x, v),
		Message::GetOutputSegment(x) => s(23, &x, v),
		Message::OutputSegment(x) => s(24, &x, v),
		Message::GetRangeProofSegment(x) => s(25, &x, v),
		Message::RangeProofSegment(x) => s(26, &x, v),
		Message::GetKernelSegment(x) => s(27, &x, v),
		Message::KernelSegment(x) => s(28, &x, v),
		Message::Headers(_) => Err("headers batch".into()),
		Message::Attachment(_, _) => Err("attachment chunk".into()),
		Message::Unknown(t) => Err(format!("unknown({})", t)),
	}
}

enum Step {
	Continue,
	NeedAttachment(Arc<AttachmentMeta>),
	Done,
	Fail(String, String), // (event class, description)
}

/// Sent-vs-received comparison, shared by the codec path and the conn::listen path.
struct Checker {
	fx: Arc<Fx>,
	st: Arc<Stream>,
	listen: bool,
	idx: usize,
	hdr_got: usize,
	in_att: bool,
	att_got: Vec<u8>,
	att_count: usize,
	att_path: PathBuf,
	msgs: u64,
	batches: u64,
	chunks: u64,
	per_type: BTreeMap<String, u64>,
}

impl Checker {
	fn new(fx: Arc<Fx>, st: Arc<Stream>, listen: bool, att_path: PathBuf) -> Checker {
		Checker {
			fx,
			st,
			listen,
			idx: 0,
			hdr_got: 0,
			in_att: false,
			att_got: vec![],
			att_count: 0,
			att_path,
			msgs: 0,
			batches: 0,
			chunks: 0,
			per_type: BTreeMap::new(),
		}
	}

	fn skip_unknown(&mut self) {
		if self.listen {
			while self.idx < self.st.items.len() {
				if let Item::Unknown(_, _) = self.st.items[self.idx] {
					self.idx += 1;
				} else {
					break;
				}
			}
		}
	}

	fn done(&mut self) -> bool {
		self.skip_unknown();
		self.idx >= self.st.items.len()
	}

	fn cur_name(&mut self) -> String {
		self.skip_unknown();
		if self.idx < self.st.items.len() {
			self.st.items[self.idx].name(&self.fx)
		} else {
			"<end>".to_string()
		}
	}

	fn advance(&mut self) -> Step {
		self.idx += 1;
		self.hdr_got = 0;
		self.in_att = false;
		self.att_got.clear();
		self.att_count = 0;
		if self.done() {
			Step::Done
		} else {
			Step::Continue
		}
	}

	fn on_msg(&mut self, m: Message) -> Step {
		if self.done() {
			return Step::Fail("phantom_message".into(), format!("message '{}' after the end of the stream", m));
		}
		self.msgs += 1;
		let v = pv(self.st.vi);
		let item = self.st.items[self.idx].clone();
		let disp = format!("{}", m);
		*self.per_type.entry(disp.clone()).or_insert(0) += 1;
		match (item, m) {
			(Item::Unknown(t, _), Message::Unknown(g)) => {
				if g == t {
					self.advance()
				} else {
					Step::Fail("unknown_type_byte".into(), format!("Unknown({}) expected, got Unknown({})", t, g))
				}
			}
			(Item::Headers(hs), Message::Headers(hd)) => {
				self.batches += 1;
				if hd.headers.is_empty() && !hs.is_empty() {
					return Step::Fail("empty_batch".into(), "empty header batch for a non-empty list".into());
				}
				for h in &hd.headers {
					if self.hdr_got >= hs.len() {
						return Step::Fail("extra_header".into(), format!("more than the {} headers sent", hs.len()));
					}
					let b = match ser::ser_vec(h, v) {
						Ok(b) => b,
						Err(e) => return Step::Fail("reencode".into(), format!("{:?}", e)),
					};
					if b != self.fx.hdr_bytes[hs[self.hdr_got]] {
						return Step::Fail(
							"header_mismatch".into(),
							format!("header #{} of {} differs from the one sent", self.hdr_got, hs.len()),
						);
					}
					self.hdr_got += 1;
				}
				let want_rem = (hs.len() - self.hdr_got) as u64;
				if hd.remaining != want_rem {
					return Step::Fail(
						"remaining_mismatch".into(),
						format!("remaining={} after {} of {} headers", hd.remaining, self.hdr_got, hs.len()),
					);
				}
				if want_rem == 0 {
					self.advance()
				} else {
					Step::Continue
				}
			}
			(Item::Archive(len, seed), Message::TxHashSetArchive(a)) if !self.in_att => {
				let meta = AttachmentMeta {
					size: a.bytes as usize,
					hash: a.hash,
					height: a.height,
					start_time: Utc::now(),
					path: self.att_path.clone(),
				};
				match ser::ser_vec(&a, v) {
					Ok(b) if b == archive_body(len, seed) => {}
					_ => return Step::Fail("body_mismatch".into(), "TxHashSetArchive body differs".into()),
				}
				self.in_att = true;
				Step::NeedAttachment(Arc::new(meta))
			}
			(Item::Archive(len, seed), Message::Attachment(up, bytes)) if self.in_att => {
				self.chunks += 1;
				if up.read > ATT_CHUNK {
					return Step::Fail("chunk_size".into(), format!("attachment chunk of {} bytes", up.read));
				}
				match bytes {
					Some(b) => {
						if self.listen {
							return Step::Fail("attachment_bytes".into(), "listen path passed chunk bytes to the handler".into());
						}
						if b.len() != up.read {
							return Step::Fail("chunk_len".into(), format!("update.read={} but {} bytes", up.read, b.len()));
						}
						self.att_got.extend_from_slice(&b[..]);
					}
					None => {
						if !self.listen {
							return Step::Fail("attachment_bytes".into(), "codec returned a chunk without bytes".into());
						}
					}
				}
				self.att_count += up.read;
				if self.att_count > len || up.left != len - self.att_count {
					return Step::Fail(
						"attachment_left".into(),
						format!("left={} after {} of {} bytes", up.left, self.att_count, len),
					);
				}
				if up.left == 0 {
					let got = if self.listen {
						std::fs::read(&self.att_path).unwrap_or_default()
					} else {
						std::mem::take(&mut self.att_got)
					};
					if self.listen {
						let _ = std::fs::remove_file(&self.att_path);
					}
					if got != archive_attachment(len, seed) {
						return Step::Fail(
							"attachment_mismatch".into(),
							format!("attachment of {} bytes differs ({} bytes received)", len, got.len()),
						);
					}
					self.advance()
				} else {
					Step::Continue
				}
			}
			(Item::Plain(e), m) => {
				let ent = &self.fx.entries[e];
				match reencode(m, v) {
					Ok((t, b)) => {
						if t != ent.ty {
							Step::Fail(
								"type_mismatch".into(),
								format!("sent {} got {}", type_name(ent.ty), type_name(t)),
							)
						} else if b != ent.bodies[self.st.vi] {
							Step::Fail("body_mismatch".into(), format!("{}: re-encoded body differs from the body sent", ent.name))
						} else {
							self.advance()
						}
					}
					Err(what) => Step::Fail("type_mismatch".into(), format!("sent {} got {}", ent.name, what)),
				}
			}
			(it, _) => Step::Fail(
				"type_mismatch".into(),
				format!("expected {} got '{}'", it.label(&self.fx), disp),
			),
		}
	}
}

// ---------------------------------------------------------------- stream jobs

struct Job {
	st: Arc<Stream>,
	cuts: Vec<usize>,
	delays_ms: Vec<u16>,
	gap_us: u64,
	listen: bool,
	class: &'static str,
	group: Option<usize>,
}

struct OkStats {
	msgs: u64,
	batches: u64,
	chunks: u64,
	per_type: BTreeMap<String, u64>,
}

enum Out {
	Ok(OkStats),
	Fail { item: String, event: String, what: String },
	Stall { item: String, what: String },
	Inconclusive(String),
}

fn send_frags(c: &TcpStream, bytes: &[u8], cuts: &[usize], delays: &[u16], gap_us: u64) {
	let mut w = c;
	let mut prev = 0usize;
	for (i, &cut) in cuts.iter().enumerate() {
		if w.write_all(&bytes[prev..cut]).is_err() {
			return;
		}
		prev = cut;
		let d = delays.get(i).copied().unwrap_or(0);
		if d > 0 {
			thread::sleep(Duration::from_millis(d as u64));
		} else if gap_us > 0 {
			thread::sleep(Duration::from_micros(gap_us));
		} else {
			thread::yield_now();
		}
	}
	let _ = w.write_all(&bytes[prev..]);
}

fn socket_pair(listener: &TcpListener) -> Result<(TcpStream, TcpStream), String> {
	let addr = listener.local_addr().map_err(|e| e.to_string())?;
	let client = TcpStream::connect(addr).map_err(|e| format!("connect: {}", e))?;
	let (server, _) = listener.accept().map_err(|e| format!("accept: {}", e))?;
	let _ = client.set_nodelay(true);
	let _ = server.set_nodelay(true);
	// no sender of the harness may block for ever on a receiver that stopped reading
	let _ = client.set_write_timeout(Some(Duration::from_secs(15)));
	Ok((client, server))
}

fn run_codec_job(fx: &Arc<Fx>, job: &Job, listener: &TcpListener) -> Out {
	let (client, server) = match socket_pair(listener) {
		Ok(p) => p,
		Err(e) => return Out::Inconclusive(e),
	};
	let sender_done = AtomicBool::new(false);
	let total_delay: u64 = job.delays_ms.iter().map(|d| *d as u64).sum();
	let deadline = Instant::now() + Duration::from_millis(total_delay + 20_000);
	thread::scope(|s| {
		let sd = &sender_done;
		let cl = &client;
		s.spawn(move || {
			send_frags(cl, &job.st.bytes, &job.cuts, &job.delays_ms, job.gap_us);
			sd.store(true, Ordering::SeqCst);
			let _ = cl.shutdown(Shutdown::Write);
		});
		let mut codec = Codec::new(pv(job.st.vi), server);
		let mut chk = Checker::new(fx.clone(), job.st.clone(), false, PathBuf::new());
		let mut total = 0u64;
		loop {
			let was_done = sender_done.load(Ordering::SeqCst);
			let item = chk.cur_name();
			let (res, n) = match monitor::catch(|| codec.read()) {
				Ok(x) => x,
				Err(pr) => {
					return Out::Fail {
						item,
						event: format!("panic@{}", pr.location),
						what: pr.message,
					}
				}
			};
			total += n;
			match res {
				Ok(m) => match chk.on_msg(m) {
					Step::Continue => {}
					Step::NeedAttachment(meta) => {
						if let Err(pr) = monitor::catch(|| codec.expect_attachment(meta)) {
							return Out::Fail {
								item,
								event: format!("panic@{}", pr.location),
								what: pr.message,
							};
						}
					}
					Step::Done => break,
					Step::Fail(event, what) => return Out::Fail { item, event, what },
				},
				Err(e) if is_timeout(&e) => {
					if was_done {
						return Out::Stall {
							item,
							what: format!(
								"read timed out although the whole stream ({} bytes) had been written before the read started; {} bytes consumed so far",
								job.st.bytes.len(),
								total
							),
						};
					}
					if Instant::now() > deadline {
						return Out::Inconclusive("job deadline exceeded".into());
					}
				}
				Err(e) => {
					return Out::Fail {
						item,
						event: format!("error:{}", err_class(&e)),
						what: format!("codec returned {:?} after {} stream bytes", e, total),
					}
				}
			}
		}
		if total != job.st.bytes.len() as u64 {
			return Out::Fail {
				item: "<stream>".into(),
				event: "bytes_accounting".into(),
				what: format!("codec reported {} bytes read for a stream of {} bytes", total, job.st.bytes.len()),
			};
		}
		// nothing may follow: the next read must be an error (EOF / timeout), never a message
		match monitor::catch(|| codec.read()) {
			Ok((Ok(m), _)) => {
				return Out::Fail {
					item: "<end>".into(),
					event: "phantom_message".into(),
					what: format!("message '{}' read after the end of the stream", m),
				}
			}
			Ok((Err(_), _)) => {}
			Err(pr) => {
				return Out::Fail {
					item: "<end>".into(),
					event: format!("panic@{}", pr.location),
					what: pr.message,
				}
			}
		}
		Out::Ok(OkStats {
			msgs: chk.msgs,
			batches: chk.batches,
			chunks: chk.chunks,
			per_type: std::mem::take(&mut chk.per_type),
		})
	})
}

struct LState {
	chk: Checker,
	out: Option<Result<(), (String, String, String)>>,
}

struct RecHandler(Arc<Mutex<LState>>);

impl MessageHandler for RecHandler {
	fn consume(&self, m: Message) -> Result<Consumed, Error> {
		let mut st = self.0.lock().unwrap();
		if let Some(o) = &st.out {
			if o.is_ok() {
				st.out = Some(Err((
					"<end>".into(),
					"phantom_message".into(),
					format!("handler received '{}' after the end of the stream", m),
				)));
			}
			return Ok(Consumed::None);
		}
		let item = st.chk.cur_name();
		match st.chk.on_msg(m) {
			Step::Continue => Ok(Consumed::None),
			Step::NeedAttachment(meta) => {
				let f = File::create(&meta.path)?;
				Ok(Consumed::Attachment(meta, f))
			}
			Step::Done => {
				st.out = Some(Ok(()));
				Ok(Consumed::None)
			}
			Step::Fail(e, w) => {
				st.out = Some(Err((item, e, w)));
				Ok(Consumed::None)
			}
		}
	}
}

fn run_listen_job(fx: &Arc<Fx>, job: &Job, listener: &TcpListener, att_path: PathBuf) -> Out {
	let (client, server) = match socket_pair(listener) {
		Ok(p) => p,
		Err(e) => return Out::Inconclusive(e),
	};
	let state = Arc::new(Mutex::new(LState {
		chk: Checker::new(fx.clone(), job.st.clone(), true, att_path),
		out: None,
	}));
	if state.lock().unwrap().chk.done() {
		return Out::Inconclusive("nothing to observe on the listen path".into());
	}
	let (handle, mut stop) = match listen(
		server,
		pv(job.st.vi),
		Arc::new(Tracker::new()),
		RecHandler(state.clone()),
	) {
		Ok(x) => x,
		Err(e) => return Out::Inconclusive(format!("listen: {}", e)),
	};
	let sender_done = AtomicBool::new(false);
	let total_delay: u64 = job.delays_ms.iter().map(|d| *d as u64).sum();
	let deadline = Instant::now() + Duration::from_millis(total_delay + 20_000);
	let mut stalled = false;
	let mut timed_out = false;
	let mut dropped = false;
	let _ = client.set_read_timeout(Some(Duration::from_millis(1)));
	thread::scope(|s| {
		let sd = &sender_done;
		let cl = &client;
		s.spawn(move || {
			send_frags(cl, &job.st.bytes, &job.cuts, &job.delays_ms, job.gap_us);
			sd.store(true, Ordering::SeqCst);
		});
		let mut done_at: Option<Instant> = None;
		loop {
			if state.lock().unwrap().out.is_some() {
				break;
			}
			// the reader thread shuts the socket down when it gives up on the connection
			let mut one = [0u8; 1];
			if let Ok(0) = client.peek(&mut one) {
				// final look: the handler may have finished just before the shutdown
				if state.lock().unwrap().out.is_none() {
					dropped = true;
				}
				break;
			}
			if done_at.is_none() && sender_done.load(Ordering::SeqCst) {
				done_at = Some(Instant::now());
			}
			if let Some(t) = done_at {
				// the reader loop polls with a 2 s header timeout; 5 s without completion
				// after everything was written means the reader thread stalled or gave up
				if t.elapsed() > Duration::from_secs(5) {
					stalled = true;
					break;
				}
			}
			if Instant::now() > deadline {
				timed_out = true;
				break;
			}
			thread::sleep(Duration::from_micros(300));
		}
		// closing our end gives the reader thread EOF (covers the phantom-message check)
		let _ = client.shutdown(Shutdown::Both);
	});
	stop.stop();
	drop(handle);
	stop.wait();
	let mut st = state.lock().unwrap();
	let item = st.chk.cur_name();
	match st.out.take() {
		Some(Ok(())) => Out::Ok(OkStats {
			msgs: st.chk.msgs,
			batches: st.chk.batches,
			chunks: st.chk.chunks,
			per_type: std::mem::take(&mut st.chk.per_type),
		}),
		Some(Err((item, event, what))) => Out::Fail { item, event, what },
		None => {
			if dropped {
				Out::Fail {
					item,
					event: "connection_dropped".into(),
					what: "the conn::listen reader thread shut the connection down before delivering the remaining messages".into(),
				}
			} else if stalled {
				Out::Stall {
					item,
					what: "conn::listen reader did not deliver the remaining messages within 5 s after the whole stream was written".into(),
				}
			} else if timed_out {
				Out::Inconclusive("listen job deadline exceeded".into())
			} else {
				Out::Inconclusive("listen job ended without outcome".into())
			}
		}
	}
}

fn type_of(t: u8) -> Option<Type> {
	[
		Type::Error, Type::Hand, Type::Shake, Type::Ping, Type::Pong, Type::GetPeerAddrs, Type::PeerAddrs, Type::GetHeaders,
		Type::Header, Type::Headers, Type::GetBlock, Type::Block, Type::GetCompactBlock, Type::CompactBlock,
		Type::StemTransaction, Type::Transaction, Type::TxHashSetRequest, Type::TxHashSetArchive, Type::BanReason,
		Type::GetTransaction, Type::TransactionKernel, Type::GetOutputBitmapSegment, Type::OutputBitmapSegment,
		Type::GetOutputSegment, Type::OutputSegment, Type::GetRangeProofSegment, Type::RangeProofSegment,
		Type::GetKernelSegment, Type::KernelSegment,
	]
	.into_iter()
	.find(|x| *x as u8 == t)
}

/// Raw body bytes as a message payload.
struct RawBody(Vec<u8>);
impl Writeable for RawBody {
	fn write<W: ser::Writer>(&self, w: &mut W) -> Result<(), ser::Error> {
		w.write_fixed_bytes(&self.0)
	}
}

struct NullHandler;
impl MessageHandler for NullHandler {
	fn consume(&self, _m: Message) -> Result<Consumed, Error> {
		Ok(Consumed::None)
	}
}

/// Both ends are real connections: the items of the stream are handed to `ConnHandle::send` of a `conn::listen`
/// connection (its writer thread calls `write_message`, attachments are streamed from a file) and read by `conn::listen`
/// on the other end with the recording handler. Nothing the harness writes is on the wire.
fn run_real_writer_job(fx: &Arc<Fx>, job: &Job, listener: &TcpListener, att_path: PathBuf, att_src: PathBuf) -> Out {
	let (client, server) = match socket_pair(listener) {
		Ok(p) => p,
		Err(e) => return Out::Inconclusive(e),
	};
	let vi = job.st.vi;
	let state = Arc::new(Mutex::new(LState {
		chk: Checker::new(fx.clone(), job.st.clone(), true, att_path),
		out: None,
	}));
	if state.lock().unwrap().chk.done() {
		return Out::Inconclusive("nothing to observe on the listen path".into());
	}
	let (rx_handle, mut rx_stop) = match listen(server, pv(vi), Arc::new(Tracker::new()), RecHandler(state.clone())) {
		Ok(x) => x,
		Err(e) => return Out::Inconclusive(format!("listen: {}", e)),
	};
	let probe = match client.try_clone() {
		Ok(c) => c,
		Err(e) => return Out::Inconclusive(format!("try_clone: {}", e)),
	};
	let (tx_handle, mut tx_stop) = match listen(client, pv(vi), Arc::new(Tracker::new()), NullHandler) {
		Ok(x) => x,
		Err(e) => return Out::Inconclusive(format!("listen (sender): {}", e)),
	};
	let mut harness_err: Option<String> = None;
	// the writer thread streams an attachment from its file some time after send(): one source file per archive item
	let mut src_files: Vec<PathBuf> = vec![];
	for (item_no, it) in job.st.items.iter().enumerate() {
		let msg = match it {
			Item::Plain(i) => {
				let e = &fx.entries[*i];
				match type_of(e.ty) {
					Some(t) => Msg::new(t, RawBody(e.bodies[vi].clone()), pv(vi)),
					None => {
						harness_err = Some("catalog entry with an unknown type".into());
						break;
					}
				}
			}
			Item::Headers(h) => {
				let mut body = (h.len() as u16).to_be_bytes().to_vec();
				for i in h {
					body.extend_from_slice(&fx.hdr_bytes[*i]);
				}
				Msg::new(Type::Headers, RawBody(body), pv(vi))
			}
			Item::Archive(l, sd) => {
				let src = PathBuf::from(format!("{}.{}", att_src.display(), item_no));
				if std::fs::write(&src, archive_attachment(*l, *sd)).is_err() {
					harness_err = Some("cannot write the attachment source file".into());
					break;
				}
				src_files.push(src.clone());
				match (Msg::new(Type::TxHashSetArchive, RawBody(archive_body(*l, *sd)), pv(vi)), File::open(&src)) {
					(Ok(mut m), Ok(f)) => {
						m.add_attachment(f);
						Ok(m)
					}
					(Err(e), _) => Err(e),
					(_, Err(e)) => {
						harness_err = Some(format!("open attachment: {}", e));
						break;
					}
				}
			}
			Item::Unknown(_, _) => {
				harness_err = Some("unknown type in a real_writer stream".into());
				break;
			}
		};
		match msg {
			Ok(m) => {
				if let Err(e) = tx_handle.send(m) {
					harness_err = Some(format!("ConnHandle::send: {:?}", e));
					break;
				}
			}
			Err(e) => {
				harness_err = Some(format!("Msg::new: {:?}", e));
				break;
			}
		}
	}
	// write_message spaces messages 150 ms apart
	let deadline = Instant::now() + Duration::from_millis(20_000 + 200 * job.st.items.len() as u64);
	let mut dropped = false;
	let mut timed_out = false;
	if harness_err.is_none() {
		let _ = probe.set_read_timeout(Some(Duration::from_millis(1)));
		loop {
			if state.lock().unwrap().out.is_some() {
				break;
			}
			let mut one = [0u8; 1];
			if let Ok(0) = probe.peek(&mut one) {
				if state.lock().unwrap().out.is_none() {
					dropped = true;
				}
				break;
			}
			if Instant::now() > deadline {
				timed_out = true;
				break;
			}
			thread::sleep(Duration::from_millis(2));
		}
	}
	let _ = probe.shutdown(Shutdown::Both);
	tx_stop.stop();
	rx_stop.stop();
	drop(tx_handle);
	drop(rx_handle);
	tx_stop.wait();
	rx_stop.wait();
	for f in &src_files {
		let _ = std::fs::remove_file(f);
	}
	if let Some(e) = harness_err {
		return Out::Inconclusive(e);
	}
	let mut st = state.lock().unwrap();
	let item = st.chk.cur_name();
	match st.out.take() {
		Some(Ok(())) => Out::Ok(OkStats {
			msgs: st.chk.msgs,
			batches: st.chk.batches,
			chunks: st.chk.chunks,
			per_type: std::mem::take(&mut st.chk.per_type),
		}),
		Some(Err((item, event, what))) => Out::Fail { item, event, what },
		None => {
			if dropped {
				Out::Fail {
					item,
					event: "connection_dropped".into(),
					what: "the receiving conn::listen shut the connection down before the messages written by the sending conn::listen were all delivered".into(),
				}
			} else if timed_out {
				Out::Stall {
					item,
					what: "messages handed to ConnHandle::send were not all delivered by the receiving connection within 20 s".into(),
				}
			} else {
				Out::Inconclusive("real_writer job ended without outcome".into())
			}
		}
	}
}

struct Group {
	name: String,
	total: usize,
	left: AtomicUsize,
}

fn job_replay(fx: &Fx, job: &Job) -> Value {
	json!({
		"class": job.class,
		"path": if job.listen { "listen" } else { "codec" },
		"stream": job.st.name,
		"protocol_version": VERSIONS[job.st.vi],
		"items": job.st.items.iter().map(|i| i.label(fx)).collect::<Vec<_>>(),
		"stream_len": job.st.bytes.len(),
		"cuts": if job.cuts.len() <= 64 { json!(job.cuts) } else { json!(format!("{} cuts, first {:?}", job.cuts.len(), &job.cuts[..8])) },
		"delays_ms": job.delays_ms,
		"gap_us": job.gap_us,
	})
}

fn run_jobs(
	run: &Run,
	fx: &Arc<Fx>,
	jobs: &[Job],
	groups: &[Group],
	deadline: Instant,
	scratch: &Scratch,
	workers: usize,
) {
	let next = AtomicUsize::new(0);
	let att_id = AtomicU64::new(0);
	thread::scope(|s| {
		for _ in 0..workers {
			s.spawn(|| {
				let listener = match TcpListener::bind("127.0.0.1:0") {
					Ok(l) => l,
					Err(e) => {
						run.inconclusive(&format!("bind: {}", e));
						return;
					}
				};
				let mut per_type: BTreeMap<String, u64> = BTreeMap::new();
				loop {
					let i = next.fetch_add(1, Ordering::SeqCst);
					if i >= jobs.len() {
						break;
					}
					if Instant::now() > deadline {
						run.count("jobs_skipped_by_time_budget", 1);
						continue;
					}
					let job = &jobs[i];
					let exec = |job: &Job| -> Out {
						if job.class == "real_writer" {
							let id = att_id.fetch_add(1, Ordering::SeqCst);
							let p = PathBuf::from(scratch.sub(&format!("att-{}.bin", id)));
							let src = PathBuf::from(scratch.sub(&format!("att-src-{}.bin", id)));
							run_real_writer_job(fx, job, &listener, p, src)
						} else if job.listen {
							let p = PathBuf::from(scratch.sub(&format!(
								"att-{}.bin",
								att_id.fetch_add(1, Ordering::SeqCst)
							)));
							run_listen_job(fx, job, &listener, p)
						} else {
							run_codec_job(fx, job, &listener)
						}
					};
					let mut out = exec(job);
					if let Out::Stall { .. } = out {
						// only a reproduced stall counts
						let second = exec(job);
						match second {
							Out::Stall { .. } => out = second,
							other => {
								run.count("stalls_not_reproduced", 1);
								run.inconclusive(&format!("stall not reproduced: {} {}", job.class, job.st.name));
								out = other;
							}
						}
					}
					let path = if job.class == "real_writer" { "writer_to_listen" } else if job.listen { "listen" } else { "codec" };
					let cutsig = if job.cuts.len() == 1 {
						format!("{}", job.cuts[0])
					} else {
						format!("n{}#{:x}", job.cuts.len(), vcommon::prng::fnv64(format!("{:?}{:?}", job.cuts, job.delays_ms).as_bytes()))
					};
					run.eval(
						&format!("{}|{}|{}|v{}|{}", job.class, path, job.st.name, VERSIONS[job.st.vi], cutsig),
						true,
					);
					match out {
						Out::Ok(st) => {
							run.count("streams_ok", 1);
							run.count(&format!("streams_ok.{}", job.class), 1);
							run.count(&format!("streams_ok.path_{}", path), 1);
							run.count("messages_sent", job.st.items.len() as u64);
							run.count("messages_received", st.msgs);
							run.count("header_batches_received", st.batches);
							run.count("attachment_chunks_received", st.chunks);
							run.count("fragments_written", job.cuts.len() as u64 + 1);
							run.count("split_points_exercised", job.cuts.len() as u64);
							if job.delays_ms.iter().any(|d| *d > 0) {
								run.count("streams_with_delays", 1);
							}
							for (k, v) in st.per_type {
								*per_type.entry(k).or_insert(0) += v;
							}
							if let Some(g) = job.group {
								groups[g].left.fetch_sub(1, Ordering::SeqCst);
							}
						}
						Out::Fail { item, event, what } => {
							run.count("streams_failed", 1);
							run.violation(
								&format!("oracle=faithful;path={};item={};event={}", path, item, event),
								&format!("{} [{} {} v{}]", what, job.class, job.st.name, VERSIONS[job.st.vi]),
								job_replay(fx, job),
							);
						}
						Out::Stall { item, what } => {
							run.count("streams_failed", 1);
							run.violation(
								&format!("oracle=faithful;path={};item={};event=stall", path, item),
								&format!("{} (reproduced twice) [{} {}]", what, job.class, job.st.name),
								job_replay(fx, job),
							);
						}
						Out::Inconclusive(w) => {
							run.count("streams_inconclusive", 1);
							run.inconclusive(&format!("{} {}: {}", job.class, job.st.name, w));
						}
					}
				}
				for (k, v) in per_type {
					run.count(&format!("received.{}", k.replace(' ', "_")), v);
				}
			});
		}
	});
}

// ---------------------------------------------------------------- workload generation

fn rand_delays(p: &mut Prng, n: usize) -> Vec<u16> {
	(0..n)
		.map(|_| match p.below(100) {
			0..=49 => 0,
			50..=79 => p.range(1, 5) as u16,
			80..=94 => p.range(5, 30) as u16,
			_ => p.range(30, 100) as u16,
		})
		.collect()
}

fn rand_cuts(p: &mut Prng, len: usize, k: usize) -> Vec<usize> {
	let mut c: Vec<usize> = vec![];
	if len < 2 {
		return c;
	}
	for _ in 0..k {
		c.push(1 + p.usize_below(len - 1));
	}
	c.sort_unstable();
	c.dedup();
	c
}

struct Gen<'a> {
	fx: &'a Arc<Fx>,
	jobs: Vec<Job>,
	groups: Vec<Group>,
}

impl<'a> Gen<'a> {
	fn plain(&self, n: &str) -> Item {
		Item::Plain(self.fx.e(n))
	}
	fn push(&mut self, st: &Arc<Stream>, class: &'static str, cuts: Vec<usize>, delays_ms: Vec<u16>, gap_us: u64, listen: bool, group: Option<usize>) {
		self.jobs.push(Job {
			st: st.clone(),
			cuts,
			delays_ms,
			gap_us,
			listen,
			class,
			group,
		});
	}
	/// every single split point of the stream (2 fragments at each offset) + the unsplit stream
	fn exhaustive1(&mut self, st: &Arc<Stream>) {
		let g = self.groups.len();
		let n = st.bytes.len();
		self.groups.push(Group {
			name: format!("{}|v{}", st.name, VERSIONS[st.vi]),
			total: n,
			left: AtomicUsize::new(n),
		});
		self.push(st, "unsplit", vec![], vec![], 0, false, Some(g));
		for c in 1..n {
			self.push(st, "exhaustive1", vec![c], vec![], 250, false, Some(g));
		}
	}
	fn dribble(&mut self, st: &Arc<Stream>, listen: bool) {
		let cuts: Vec<usize> = (1..st.bytes.len()).collect();
		self.push(st, "dribble1", cuts, vec![], 0, listen, None);
	}
	fn random_splits(&mut self, p: &mut Prng, st: &Arc<Stream>, class: &'static str, variants: usize, listen: bool) {
		for _ in 0..variants {
			let k = 1 + p.usize_below(12);
			let cuts = rand_cuts(p, st.bytes.len(), k);
			let delays = rand_delays(p, cuts.len());
			self.push(st, class, cuts, delays, 100, listen, None);
		}
	}
	/// cuts at every item boundary and one byte around it, plus the given extra positions
	fn boundary_cuts(&mut self, st: &Arc<Stream>, class: &'static str, extra: &[usize], listen: bool) {
		let n = st.bytes.len();
		let mut pts: Vec<usize> = vec![];
		let mut start = 0usize;
		for e in &st.item_ends {
			for c in [start + HDR_LEN - 1, start + HDR_LEN, start + HDR_LEN + 1, start + HDR_LEN + 2, *e - 1, *e, *e + 1] {
				pts.push(c);
			}
			start = *e;
		}
		pts.extend_from_slice(extra);
		pts.sort_unstable();
		pts.dedup();
		for c in pts {
			if c >= 1 && c < n {
				self.push(st, class, vec![c], vec![], 300, listen, None);
			}
		}
	}
	/// One long silence inside the BODY of each item (never inside the 11 header bytes): the frame's body, the
	/// items of a header list or the bytes of an attachment arrive in two fragments 2.6 s apart - longer than the
	/// 2 s the codec waits for a frame header, far below the 60 s it allows a body. (A silence of that length
	/// inside a frame header is outside the statement's premise: the header timeout then fires mid-header.)
	fn stall_in_body(&mut self, p: &mut Prng, st: &Arc<Stream>, listen: bool, max_jobs: usize) {
		let mut start = 0usize;
		let mut made = 0;
		for e in &st.item_ends {
			let lo = start + HDR_LEN + 1; // at least one body byte already delivered
			if *e > lo + 1 && made < max_jobs {
				let c = lo + p.usize_below(*e - lo - 1);
				if c > start + HDR_LEN && c < *e {
					self.push(st, "stall_in_body", vec![c], vec![2600], 0, listen, None);
					made += 1;
				}
			}
			start = *e;
		}
	}
	fn chunked(&mut self, st: &Arc<Stream>, class: &'static str, chunk: usize, gap_us: u64, listen: bool) {
		let cuts: Vec<usize> = (1..).map(|i| i * chunk).take_while(|c| *c < st.bytes.len()).collect();
		self.push(st, class, cuts, vec![], gap_us, listen, None);
	}
}

/// scale: 0 = sanitizer run, 1 = quick, 2 = thorough
fn gen_jobs(fx: &Arc<Fx>, seed: u64, scale: u32) -> (Vec<Job>, Vec<Group>) {
	let mut p = Prng::new(seed ^ 0x10B5);
	let mut g = Gen {
		fx,
		jobs: vec![],
		groups: vec![],
	};
	let all_v: Vec<usize> = vec![0, 1, 2, 3];
	let pick_v = |quick: &[usize]| -> Vec<usize> {
		match scale {
			0 => vec![3],
			1 => quick.to_vec(),
			_ => all_v.clone(),
		}
	};

	// ---- short sequences: every single split point
	let ctl_a = vec![
		g.plain("Ping"),
		g.plain("GetHeaders1"),
		g.plain("Pong"),
		g.plain("GetPeerAddrs"),
		g.plain("PeerAddrs3"),
		g.plain("BanReason"),
		g.plain("GetBlock"),
		Item::Unknown(200, 5),
		g.plain("TxHashSetRequest"),
		g.plain("Ping"),
	];
	let ctl_b = vec![
		g.plain("TransactionKernel"),
		g.plain("GetTransaction"),
		g.plain("GetCompactBlock"),
		g.plain("GetOutputBitmapSegment"),
		g.plain("GetOutputSegment"),
		g.plain("GetRangeProofSegment"),
		g.plain("GetKernelSegment"),
		g.plain("PeerAddrs0"),
		g.plain("GetHeaders0"),
		g.plain("BanReason7"),
		g.plain("PingMax"),
		g.plain("PeerAddrs1"),
	];
	let hdr = vec![g.plain("Header"), Item::Headers(vec![1, 2]), g.plain("HeaderEb16"), g.plain("Ping")];
	let tx = vec![g.plain("Transaction"), g.plain("KernelSegment"), g.plain("Pong")];
	let blk = vec![g.plain("BlockTx"), g.plain("Ping")];
	let cblk = vec![g.plain("CompactBlockTx"), g.plain("OutputSegment"), g.plain("Pong")];
	let pibd = vec![g.plain("RangeProofSegment"), g.plain("OutputBitmapSegment"), g.plain("Ping")];
	let stem = vec![g.plain("StemTransaction"), g.plain("Block"), g.plain("CompactBlock"), g.plain("Transaction2")];
	let att100 = vec![Item::Archive(100, 1), g.plain("Ping")];
	let att0 = vec![g.plain("Pong"), Item::Archive(0, 2), g.plain("Ping")];
	let att1 = vec![Item::Archive(1, 3), g.plain("Pong")];
	let unk = vec![g.plain("Ping"), Item::Unknown(29, 0), Item::Unknown(255, 100), Item::Unknown(77, 1), g.plain("Pong")];
	let big = vec![g.plain("GetHeaders20"), g.plain("PeerAddrs256")];
	let short_sets: Vec<(&str, Vec<Item>, Vec<usize>)> = vec![
		("ctl-a", ctl_a.clone(), pick_v(&[0, 1, 2, 3])),
		("ctl-b", ctl_b, pick_v(&[0, 1, 2, 3])),
		("hdr", hdr.clone(), pick_v(&[0, 1, 2, 3])),
		("unk", unk.clone(), pick_v(&[0, 1, 2, 3])),
		("att100", att100, pick_v(&[0, 1, 2, 3])),
		("att0", att0, pick_v(&[0, 1, 2, 3])),
		("att1", att1, pick_v(&[0, 1, 2, 3])),
		("tx", tx.clone(), pick_v(&[0, 1, 2, 3])),
		("blk", blk, pick_v(&[0, 1, 2, 3])),
		("cblk", cblk, pick_v(&[0, 1, 2, 3])),
		("pibd", pibd, pick_v(&[0, 1, 2, 3])),
		("stem", stem, pick_v(&[1, 2])),
		("big", big, pick_v(&[3])),
	];
	let mut short_streams: Vec<Arc<Stream>> = vec![];
	for (name, items, vs) in &short_sets {
		for vi in vs {
			let st = mk_stream(fx, name, *vi, items.clone());
			if scale == 0 {
				// sanitizer run: every 7th split point only
				g.push(&st, "unsplit", vec![], vec![], 0, false, None);
				let mut c = 1 + p.usize_below(7);
				while c < st.bytes.len() {
					g.push(&st, "sampled1", vec![c], vec![], 250, false, None);
					c += 7;
				}
			} else {
				g.exhaustive1(&st);
				if scale >= 2 {
					// second pass with back-to-back fragments (coalescing race instead of a pause)
					for c in 1..st.bytes.len() {
						g.push(&st, "exhaustive1_nogap", vec![c], vec![], 0, false, None);
					}
				}
			}
			short_streams.push(st);
		}
	}

	// ---- the empty header list (what an up-to-date peer answers to GetHeaders)
	for vi in pick_v(&[0, 3]) {
		let st = mk_stream(fx, "hdr0", vi, vec![g.plain("Ping"), Item::Headers(vec![]), g.plain("Pong")]);
		g.push(&st, "unsplit", vec![], vec![], 0, false, None);
		g.boundary_cuts(&st, "boundary", &[], false);
		g.push(&st, "unsplit", vec![], vec![], 0, true, None);
	}

	// ---- all pairs of split points of a tiny stream
	{
		let st = mk_stream(fx, "pairs", 3, vec![g.plain("Ping"), g.plain("GetHeaders1"), g.plain("Pong")]);
		let n = st.bytes.len();
		let step = if scale == 0 { 9 } else { 1 };
		let mut a = 1;
		while a < n {
			let mut b = a + 1;
			while b < n {
				g.push(&st, "exhaustive2", vec![a, b], vec![], 150, false, None);
				b += step;
			}
			a += step;
		}
		if scale >= 2 {
			let st = mk_stream(fx, "pairs-hdr", 3, vec![Item::Headers(vec![0]), g.plain("Ping")]);
			let n = st.bytes.len();
			for a in 1..n {
				for b in (a + 1)..n {
					g.push(&st, "exhaustive2", vec![a, b], vec![], 120, false, None);
				}
			}
		}
	}

	// ---- 1-byte dribble for short streams
	for st in &short_streams {
		if st.bytes.len() <= 3000 || scale >= 2 {
			g.dribble(st, false);
		}
	}

	// ---- header lists
	let pool_n = fx.hdr_bytes.len();
	let min_idx: Vec<usize> = (0..pool_n).filter(|i| fx.hdr_eb[*i] == 10).collect();
	let mut sizes: Vec<usize> = vec![1, 31, 32, 33, 64, 65];
	if pool_n >= 512 {
		sizes.push(512);
	}
	for (si, n) in sizes.iter().enumerate() {
		let n = *n;
		let mut patterns: Vec<(&str, Vec<usize>)> = vec![];
		// mixed edge bits in pool order from a random offset
		let off = p.usize_below(pool_n - n + 1);
		patterns.push(("mixed", (off..off + n).collect()));
		if min_idx.len() >= n {
			patterns.push(("min", min_idx[..n].to_vec()));
		}
		let mut asc: Vec<usize> = (0..n).collect();
		asc.sort_by_key(|i| fx.hdr_eb[*i]);
		patterns.push(("asc", asc.clone()));
		asc.reverse();
		patterns.push(("desc", asc));
		let mut sh: Vec<usize> = (0..pool_n).collect();
		p.shuffle(&mut sh);
		sh.truncate(n);
		patterns.push(("shuffled", sh));
		for (pi, (pname, idx)) in patterns.into_iter().enumerate() {
			let vi = if scale == 0 { 3 } else { (si + pi) % 4 };
			let st = mk_stream(
				fx,
				&format!("hdrs{}-{}", n, pname),
				vi,
				vec![g.plain("Ping"), Item::Headers(idx.clone()), g.plain("Pong")],
			);
			g.push(&st, "unsplit", vec![], vec![], 0, false, None);
			g.random_splits(&mut p, &st, "random", if scale >= 2 { 6 } else { 2 }, false);
			// cuts at every header boundary (one job per boundary offset family)
			let base = 27 + HDR_LEN + 2;
			for delta in [0isize, 1, -1] {
				let mut pos = base;
				let mut cuts = vec![];
				for i in &idx {
					pos += fx.hdr_bytes[*i].len();
					let c = pos as isize + delta;
					if c > 0 && (c as usize) < st.bytes.len() {
						cuts.push(c as usize);
					}
				}
				g.push(&st, "hdr_boundaries", cuts, vec![], if n > 100 { 0 } else { 100 }, false, None);
			}
			g.chunked(&st, "chunked", 1000, 0, false);
			g.chunked(&st, "chunked", 310, 0, false);
			if n <= 33 && (scale >= 2 || pi == 0) {
				g.dribble(&st, false);
			}
			if pi < 2 && scale >= 1 {
				g.push(&st, "unsplit", vec![], vec![], 0, true, None);
				g.random_splits(&mut p, &st, "random", 1, true);
			}
			// every single split point of a 33-header list: whole stream in thorough, the
			// regions around the batch boundary and both ends in quick
			if n == 33 && pi == 0 && scale >= 1 {
				if scale >= 1 {
					g.exhaustive1(&st);
				} else {
					let len = st.bytes.len();
					let h32: usize = base + idx[..32].iter().map(|i| fx.hdr_bytes[*i].len()).sum::<usize>();
					let mut pts: Vec<usize> = (1..700).collect();
					pts.extend(h32 - 350..(h32 + 350).min(len));
					pts.extend(len - 100..len);
					pts.sort_unstable();
					pts.dedup();
					for c in pts {
						if c < len {
							g.push(&st, "region1", vec![c], vec![], 250, false, None);
						}
					}
				}
			}
		}
	}

	// ---- attachments
	let att_sizes: Vec<usize> = if scale == 0 {
		vec![0, 1, 48_000, 48_001]
	} else {
		vec![0, 1, 47_999, 48_000, 48_001, 96_000, 200_000]
	};
	for (ai, sz) in att_sizes.iter().enumerate() {
		let sz = *sz;
		let vi = if scale == 0 { 3 } else { ai % 4 };
		let st = mk_stream(
			fx,
			&format!("att{}", sz),
			vi,
			vec![g.plain("Ping"), Item::Archive(sz, 100 + ai as u64), g.plain("Pong")],
		);
		g.push(&st, "unsplit", vec![], vec![], 0, false, None);
		g.random_splits(&mut p, &st, "random", if scale >= 2 { 8 } else { 3 }, false);
		let a0 = 27 + HDR_LEN + 48; // first attachment byte
		let mut extra = vec![];
		let mut k = 0;
		while k * ATT_CHUNK <= sz {
			for d in [-1isize, 0, 1] {
				let c = (a0 + k * ATT_CHUNK) as isize + d;
				if c > 0 {
					extra.push(c as usize);
				}
			}
			k += 1;
		}
		g.boundary_cuts(&st, "boundary", &extra, false);
		g.chunked(&st, "chunked", 8000, 0, false);
		g.chunked(&st, "chunked", 1460, 0, false);
		if scale >= 1 {
			g.push(&st, "unsplit", vec![], vec![], 0, true, None);
			g.chunked(&st, "chunked", 8000, 50, true);
			g.random_splits(&mut p, &st, "random", 2, true);
		}
		let st2 = mk_stream(
			fx,
			&format!("att{}+1", sz),
			(vi + 1) % 4,
			vec![Item::Archive(sz, 200 + ai as u64), Item::Archive(1, 300 + ai as u64), g.plain("Ping")],
		);
		g.push(&st2, "unsplit", vec![], vec![], 0, false, None);
		g.random_splits(&mut p, &st2, "random", 2, false);
	}

	// ---- unknown type bytes
	let mbs = max_block_size() as usize;
	let utypes: Vec<u8> = if scale == 0 { vec![29, 255] } else { vec![29, 30, 64, 100, 200, 254, 255] };
	for (ui, t) in utypes.iter().enumerate() {
		for (li, l) in [0usize, 1, 100, mbs, 4 * mbs].iter().enumerate() {
			let vi = (ui + li) % 4;
			let st = mk_stream(
				fx,
				&format!("unk{}-{}", t, l),
				vi,
				vec![g.plain("Ping"), Item::Unknown(*t, *l), g.plain("GetHeaders1"), g.plain("Pong")],
			);
			g.push(&st, "unsplit", vec![], vec![], 0, false, None);
			g.boundary_cuts(&st, "boundary", &[27 + HDR_LEN + l / 2], false);
			g.random_splits(&mut p, &st, "random", 2, false);
			if scale >= 1 && li % 2 == 0 {
				g.push(&st, "unsplit", vec![], vec![], 0, true, None);
				g.random_splits(&mut p, &st, "random", 1, true);
			}
		}
	}

	// ---- conn::listen path on the short sequences
	if scale >= 1 {
		for st in &short_streams {
			g.push(st, "unsplit", vec![], vec![], 0, true, None);
			g.random_splits(&mut p, st, "random", 2, true);
			if st.bytes.len() <= 1500 {
				g.dribble(st, true);
			}
		}
	}

	// ---- a silence longer than the header timeout inside a body (known and unknown types, header lists, attachments)
	{
		let sets: Vec<(&str, Vec<Item>)> = vec![
			("stall-ctl", vec![g.plain("Ping"), g.plain("TransactionKernel"), g.plain("GetHeaders1"), g.plain("PeerAddrs3"), g.plain("Pong")]),
			("stall-unk", vec![g.plain("Ping"), Item::Unknown(255, 100), Item::Unknown(77, 1700), g.plain("Pong")]),
			("stall-hdr", vec![Item::Headers(vec![1, 2, 3]), g.plain("Ping"), Item::Headers((0..40.min(pool_n)).collect()), g.plain("Pong")]),
			("stall-att", vec![Item::Archive(100, 5), g.plain("Ping"), Item::Archive(60_000, 6), g.plain("Pong")]),
			("stall-tx", vec![g.plain("Transaction"), g.plain("CompactBlockTx"), g.plain("Ping")]),
		];
		let take = match scale {
			0 => 1,
			1 => 5,
			_ => 5,
		};
		for (k, (name, items)) in sets.into_iter().enumerate().take(take) {
			let vs: Vec<usize> = if scale >= 2 { vec![0, 1, 2, 3] } else { vec![[3usize, 0, 2, 1, 3][k]] };
			for vi in vs {
				let st = mk_stream(fx, name, vi, items.clone());
				g.stall_in_body(&mut p, &st, false, if scale == 0 { 2 } else { 8 });
				if scale >= 1 && st.items.iter().any(|i| !matches!(i, Item::Unknown(_, _))) {
					g.stall_in_body(&mut p, &st, true, 8);
				}
			}
		}
	}

	// ---- random sequences of 1-12 messages, random multi-splits with delays
	let n_rand = match scale {
		0 => 60,
		1 => 5000,
		_ => 100000,
	};
	let n_entries = fx.entries.len();
	for r in 0..n_rand {
		let n_items = 1 + p.usize_below(12);
		let mut items = vec![];
		let mut weight = 0usize;
		for _ in 0..n_items {
			let it = match p.below(20) {
				0 | 1 => {
					let kmax = if p.chance(1, 8) { 70 } else { 6 };
					let k = 1 + p.usize_below(kmax);
					let off = p.usize_below(pool_n - k + 1);
					Item::Headers((off..off + k).collect())
				}
				2 => Item::Unknown(*p.pick(&[29u8, 31, 99, 128, 255]), *p.pick(&[0usize, 1, 17, 500])),
				3 => Item::Archive(*p.pick(&[0usize, 1, 10, 5000, 48_001]), p.next_u64()),
				_ => {
					let mut e = p.usize_below(n_entries);
					if fx.entries[e].name == "HeadersCheck" {
						e = 0;
					}
					Item::Plain(e)
				}
			};
			weight += match &it {
				Item::Headers(h) => h.len() * 260,
				Item::Archive(l, _) => *l,
				_ => 500,
			};
			items.push(it);
			if weight > 150_000 {
				break;
			}
		}
		let vi = p.usize_below(4);
		let st = mk_stream(fx, &format!("rnd{}", r), vi, items);
		let listen = scale >= 1 && r % 10 == 9 && st.items.iter().any(|i| !matches!(i, Item::Unknown(_, _)));
		let class = "random_seq";
		let k = 1 + p.usize_below(12);
		let cuts = rand_cuts(&mut p, st.bytes.len(), k);
		let delays = rand_delays(&mut p, cuts.len());
		g.push(&st, class, cuts, delays, 100, listen, None);
	}
	// ---- the SENDING half of a real connection: the same sequences handed to conn::listen's ConnHandle::send on
	// one end (writer thread, write_message, attachment streaming) and read by conn::listen on the other
	{
		let mut seen: Vec<(String, usize)> = vec![];
		let mut picked: Vec<Arc<Stream>> = vec![];
		for j in &g.jobs {
			let key = (j.st.name.clone(), j.st.vi);
			if seen.contains(&key) {
				continue;
			}
			seen.push(key);
			let sendable = !j.st.items.is_empty()
				&& j.st.items.len() <= 14
				&& j.st.items.iter().all(|i| match i {
					Item::Unknown(_, _) => false,
					Item::Archive(l, _) => *l <= 200_000,
					_ => true,
				});
			if sendable {
				picked.push(j.st.clone());
			}
		}
		let want = match scale {
			0 => 3,
			1 => 36,
			_ => 200,
		};
		let step = (picked.len() / want.max(1)).max(1);
		for st in picked.iter().step_by(step).take(want) {
			g.push(st, "real_writer", vec![], vec![], 0, true, None);
		}
	}
	(g.jobs, g.groups)
}

// ---------------------------------------------------------------- limits (worker subprocess)

const MARK_LEN: usize = 32;

fn mark(id: u64) -> Vec<u8> {
	Prng::new(id ^ 0x4D41_524B).bytes(MARK_LEN)
}

fn ping_frame() -> Vec<u8> {
	let mut b = 0x1122_3344_5566_7788u64.to_be_bytes().to_vec();
	b.extend_from_slice(&0x0102_0304_0506_0708u64.to_be_bytes());
	frame(3, &b)
}

fn is_sentinel_ping(m: &Message) -> bool {
	match m {
		Message::Ping(p) => p.total_difficulty.to_num() == 0x1122_3344_5566_7788 && p.height == 0x0102_0304_0506_0708,
		_ => false,
	}
}

#[derive(Clone)]
struct LCase {
	id: u64,
	/// refuse_len | refuse_magic | accept_len | count_over | count_under
	class: &'static str,
	ty: u8,
	boundary: String,
	len: u64,
	head: Vec<u8>,
	/// bytes following the header for accept / count cases (the announced body)
	body: Vec<u8>,
	/// for Headers count cases: serialized headers present in the body, in order
	present: Vec<Vec<u8>>,
	vi: usize,
}

fn limit_cases(scale: u32, hdrs: &[Vec<u8>], mainnet: bool) -> Vec<LCase> {
	let mut v: Vec<LCase> = vec![];
	let mut id = 1u64;
	let mut types: Vec<u8> = (0u8..=28).collect();
	types.extend_from_slice(&[29, 77, 255]);
	if scale == 0 {
		types = vec![0, 3, 6, 9, 11, 17, 28, 29, 255];
	}
	for t in &types {
		let l = nominal_limit(*t);
		let mut bounds: Vec<(String, u64)> = vec![
			("0".into(), 0),
			("limit".into(), l),
			("limit+1".into(), l + 1),
			("4xlimit".into(), 4 * l),
			("4xlimit+1".into(), 4 * l + 1),
			("4xlimit+2".into(), 4 * l + 2),
			("8xlimit".into(), 8 * l + 8),
			("2^31".into(), 1 << 31),
			("2^32".into(), 1 << 32),
			("2^32+len".into(), (1u64 << 32) + l.min(16)),
			("2^40".into(), 1 << 40),
			("2^63".into(), 1 << 63),
			("u64max".into(), u64::MAX),
		];
		if scale == 0 {
			bounds.retain(|(n, _)| ["limit", "4xlimit", "4xlimit+1", "2^32", "u64max"].contains(&n.as_str()));
		}
		for (bn, len) in bounds {
			let accept = len <= 4 * l;
			v.push(LCase {
				id,
				class: if accept { "accept_len" } else { "refuse_len" },
				ty: *t,
				boundary: bn,
				len,
				head: frame_header(MAGIC(), *t, len),
				body: if accept { vec![0u8; len as usize] } else { vec![] },
				present: vec![],
				vi: (id % 4) as usize,
			});
			id += 1;
		}
	}
	// wrong magic
	let mut magics: [[u8; 2]; 7] = [[0, 0], [73, 44], [74, 43], [43, 73], [83, 59], [97, 61], [255, 255]];
	if mainnet {
		// under Mainnet parameters [97, 61] is the right magic and the test networks' one is wrong
		magics[5] = [73, 43];
	}
	for (mi, m) in magics.iter().enumerate() {
		for (t, len) in [(3u8, 16u64), (9, 2 + 257), (11, 1 << 20), (200, 5), (17, 48), (6, u64::MAX)] {
			if scale == 0 && (mi + t as usize) % 3 != 0 {
				continue;
			}
			v.push(LCase {
				id,
				class: "refuse_magic",
				ty: t,
				boundary: format!("magic[{},{}]/len{}", m[0], m[1], len),
				len,
				head: frame_header(*m, t, len),
				body: vec![],
				present: vec![],
				vi: (id % 4) as usize,
			});
			id += 1;
		}
	}
	if mainnet {
		// the count cases need mined headers of the chain type; the Mainnet pass is about the length limits
		// (which are 170x larger there: bodies above the 48 000-byte attachment chunk size exist only here)
		// plus unknown-type bodies around the chunk size
		for t in [29u8, 200, 255] {
			for len in [47_999u64, 48_000, 48_001, 96_000, 96_001, 1_000_000] {
				v.push(LCase {
					id,
					class: "accept_len",
					ty: t,
					boundary: format!("len{}", len),
					len,
					head: frame_header(MAGIC(), t, len),
					body: Prng::new(len ^ t as u64).bytes(len as usize),
					present: vec![],
					vi: (id % 4) as usize,
				});
				id += 1;
			}
		}
		return v;
	}
	// item counts contradicting the (within-limit) length
	let mut cc = |class: &'static str, ty: u8, desc: &str, body: Vec<u8>, present: Vec<Vec<u8>>| {
		v.push(LCase {
			id,
			class,
			ty,
			boundary: desc.to_string(),
			len: body.len() as u64,
			head: frame_header(MAGIC(), ty, body.len() as u64),
			body,
			present,
			vi: (id % 4) as usize,
		});
		id += 1;
	};
	let hl = |count: u16, present: usize| -> (Vec<u8>, Vec<Vec<u8>>) {
		let mut b = count.to_be_bytes().to_vec();
		let mut pr = vec![];
		for i in 0..present {
			b.extend_from_slice(&hdrs[i % hdrs.len()]);
			pr.push(hdrs[i % hdrs.len()].clone());
		}
		(b, pr)
	};
	for (count, present) in [(2u16, 1usize), (33, 32), (34, 33), (65, 64), (512, 3), (65535, 1), (65535, 40), (1, 0), (32, 31)] {
		let (b, pr) = hl(count, present);
		cc("count_over", 9, &format!("count={},present={}", count, present), b, pr);
	}
	for (count, present) in [(1u16, 2usize), (32, 33), (33, 34), (31, 32), (0, 1), (0, 33), (0, 70), (64, 65)] {
		let (b, pr) = hl(count, present);
		cc("count_under", 9, &format!("count={},present={}", count, present), b, pr);
	}
	cc("count_over", 9, "len=0(no count)", vec![], vec![]);
	cc("count_over", 9, "len=1(half count)", vec![0], vec![]);
	// PeerAddrs: u32 count + (0,ip4,port)*
	let addr = |i: u8| -> Vec<u8> { vec![0, 10, 0, 0, i, 0x0d, 0x56] };
	let pa = |count: u32, present: usize| -> Vec<u8> {
		let mut b = count.to_be_bytes().to_vec();
		for i in 0..present {
			b.extend(addr((i % 250) as u8 + 1));
		}
		b
	};
	for (count, present) in [(2u32, 1usize), (256, 0), (256, 255), (257, 0), (1 << 16, 3), (u32::MAX, 0), (u32::MAX, 200), (1, 0)] {
		cc("count_over", 6, &format!("count={},present={}", count, present), pa(count, present), vec![]);
	}
	for (count, present) in [(1u32, 2usize), (0, 1), (255, 256), (10, 200)] {
		cc("count_under", 6, &format!("count={},present={}", count, present), pa(count, present), vec![]);
	}
	// Locator: u8 count + hashes
	let loc = |count: u8, present: usize| -> Vec<u8> {
		let mut b = vec![count];
		b.extend(Prng::new(count as u64 * 31 + present as u64).bytes(32 * present));
		b
	};
	for (count, present) in [(21u8, 21usize), (21, 0), (255, 20), (255, 80), (20, 19), (2, 1), (1, 0)] {
		cc("count_over", 7, &format!("count={},present={}", count, present), loc(count, present), vec![]);
	}
	for (count, present) in [(1u8, 2usize), (0, 1), (19, 20), (5, 80)] {
		cc("count_under", 7, &format!("count={},present={}", count, present), loc(count, present), vec![]);
	}
	// Transaction / StemTransaction / Block bodies: (inputs, outputs, kernels) counts with nothing behind
	let txb = |i: u64, o: u64, k: u64, pad: usize| -> Vec<u8> {
		let mut b = vec![0u8; 32]; // offset
		b.extend_from_slice(&i.to_be_bytes());
		b.extend_from_slice(&o.to_be_bytes());
		b.extend_from_slice(&k.to_be_bytes());
		b.extend(vec![0u8; pad]);
		b
	};
	for t in [14u8, 15] {
		for (i, o, k, pad) in [
			(0u64, 11u64, 0u64, 0usize),
			(200, 0, 1, 0),
			(1, 1, 1, 40),
			(0, 0, 80, 100),
			(1 << 20, 1 << 20, 1 << 20, 0),
			(1 << 40, 0, 0, 0),
			(u64::MAX, u64::MAX, u64::MAX, 64),
			(0, 1 << 62, 1, 0),
		] {
			cc("count_over", t, &format!("iok={}/{}/{},pad={}", i, o, k, pad), txb(i, o, k, pad), vec![]);
		}
	}
	if !hdrs.is_empty() {
		for (i, o, k, pad) in [(0u64, 11u64, 1u64, 0usize), (5, 5, 5, 100), (u64::MAX, 1, 1, 0), (1 << 20, 1 << 20, 0, 50)] {
			// Block: header + counts
			let mut b = hdrs[0].clone();
			b.extend_from_slice(&i.to_be_bytes());
			b.extend_from_slice(&o.to_be_bytes());
			b.extend_from_slice(&k.to_be_bytes());
			b.extend(vec![0u8; pad]);
			cc("count_over", 11, &format!("iok={}/{}/{},pad={}", i, o, k, pad), b, vec![]);
			// CompactBlock: header + nonce + (out_full, kern_full, kern_ids)
			let mut b = hdrs[0].clone();
			b.extend_from_slice(&7u64.to_be_bytes());
			b.extend_from_slice(&i.min(1_000_000).to_be_bytes());
			b.extend_from_slice(&o.min(1_000_000).to_be_bytes());
			b.extend_from_slice(&k.max(1).to_be_bytes());
			b.extend(vec![0u8; pad]);
			cc("count_over", 13, &format!("okk={}/{}/{},pad={}", i.min(1_000_000), o.min(1_000_000), k.max(1), pad), b, vec![]);
		}
	}
	// PIBD segments: block hash + identifier + n_hashes ...
	for t in [24u8, 26, 28] {
		for (n, pad) in [(1u64, 0usize), (1_000_000, 0), (1_000_000, 64), (1_000_001, 0), (1 << 40, 8), (u64::MAX, 0), (3, 16)] {
			let mut b = vec![7u8; 32];
			b.push(3);
			b.extend_from_slice(&5u64.to_be_bytes());
			b.extend_from_slice(&n.to_be_bytes());
			for q in 0..(pad / 8) {
				b.extend_from_slice(&(q as u64 + 1).to_be_bytes());
			}
			cc("count_over", t, &format!("n_hashes={},pad={}", n, pad), b, vec![]);
		}
	}
	for (n, pad) in [(1u16, 0usize), (0, 10), (65535, 0), (2, 3)] {
		let mut b = vec![7u8; 32];
		b.push(2);
		b.extend_from_slice(&0u64.to_be_bytes());
		b.extend_from_slice(&n.to_be_bytes());
		b.extend(vec![0u8; pad]);
		cc("count_over", 22, &format!("n_blocks={},pad={}", n, pad), b, vec![]);
	}
	v
}

/// Observations of one limit case (made in the worker, judged there as well).
fn run_limit_case(c: &LCase, listener: &TcpListener) -> Value {
	let mut obs = json!({
		"id": c.id, "class": c.class, "type": type_name(c.ty), "ty": c.ty, "boundary": c.boundary,
		"len": c.len.to_string(), "version": VERSIONS[c.vi],
	});
	let (client, server) = match socket_pair(listener) {
		Ok(p) => p,
		Err(e) => {
			obs["inconclusive"] = json!(e);
			return obs;
		}
	};
	let refuse = c.class.starts_with("refuse");
	let mk = mark(c.id);
	let mut out = c.head.clone();
	if refuse {
		out.extend_from_slice(&mk);
	} else {
		out.extend_from_slice(&c.body);
		out.extend_from_slice(&ping_frame());
	}
	let server_for_shutdown = server.try_clone().ok();
	let (tx, rx) = mpsc::channel::<Value>();
	let case = c.clone();
	// a receiver that stops reading early (an error, or a defect) must not block the harness in send():
	// bounded writes; what the receiver did is judged from its own observations
	let _ = client.set_write_timeout(Some(Duration::from_secs(10)));
	let sender = thread::spawn(move || {
		let mut w = &client;
		let _ = w.write_all(&out);
		client
	});
	let reader = thread::spawn(move || {
		let c = case;
		let mut r = json!({});
		let mut codec = Codec::new(pv(c.vi), server);
		let t0 = Instant::now();
		let mut consumed = 0u64;
		let mut max_single = 0usize;
		let mut peak = 0usize;
		let mut reads = 0u64;
		let mut batches_ok = 0u64;
		let mut hdr_seen = 0usize;
		let mut viol: Vec<(String, String)> = vec![];
		let mut outcome;
		let sig = |class: &str, ev: &str, c: &LCase| -> String {
			if class == "count_under" {
				// one defect class: the decoder result is accepted without checking that the body was used up
				format!("oracle=count_vs_length;class=count_below_content;type={};event={}", type_name(c.ty), ev)
			} else if class.starts_with("count") {
				format!("oracle=count_vs_length;class=count_above_content;type={};event={}", type_name(c.ty), ev)
			} else {
				format!("oracle=limits;class={};type={};boundary={};event={}", class, type_name(c.ty), c.boundary.split('/').next().unwrap_or(""), ev)
			}
		};
		loop {
			reads += 1;
			let (res, st) = track_alloc(c.id, || monitor::catch(|| codec.read()));
			max_single = max_single.max(st.max_single);
			peak = peak.max(st.peak_live);
			let (res, n) = match res {
				Ok(x) => x,
				Err(pr) => {
					viol.push((sig(c.class, &format!("panic@{}", pr.location), &c), pr.message));
					outcome = "panic".into();
					break;
				}
			};
			consumed += n;
			match res {
				Err(e) => {
					outcome = format!("err:{}", err_class(&e));
					if is_timeout(&e) && reads == 1 && consumed == 0 {
						outcome = "timeout_before_header".into();
					}
					break;
				}
				Ok(Message::Headers(hd)) if c.ty == 9 && hd.remaining != 0 => {
					// a non-final batch of a streamed header list: allowed before the
					// contradiction can be known, but it must be a prefix of what was sent
					batches_ok += 1;
					for h in &hd.headers {
						let b = ser::ser_vec(h, pv(c.vi)).unwrap_or_default();
						if hdr_seen >= c.present.len() || b != c.present[hdr_seen] {
							viol.push((sig(c.class, "batch_not_a_prefix", &c), format!("header #{} delivered is not header #{} of the body", hdr_seen, hdr_seen)));
						}
						hdr_seen += 1;
					}
					if reads > 4000 {
						outcome = "too_many_reads".into();
						break;
					}
				}
				Ok(m) => {
					outcome = format!("ok:{}", m);
					r["sentinel_is_msg"] = json!(is_sentinel_ping(&m));
					break;
				}
			}
		}
		r["outcome"] = json!(outcome);
		r["consumed"] = json!(consumed);
		r["max_single"] = json!(max_single);
		r["peak_live"] = json!(peak);
		r["batches_before_error"] = json!(batches_ok);
		r["elapsed_ms"] = json!(t0.elapsed().as_millis() as u64);
		let is_err = outcome.starts_with("err:");
		match c.class {
			"refuse_len" | "refuse_magic" => {
				if !is_err {
					viol.push((sig(c.class, "not_refused", &c), format!("frame with announced length {} gave outcome {}", c.len, outcome)));
				}
				if consumed > HDR_LEN as u64 {
					viol.push((sig(c.class, "consumed_more_than_header", &c), format!("codec reported {} bytes read before refusing", consumed)));
				}
				// the bytes after the header must still be in the socket
				let mut s = codec.stream();
				let _ = s.set_read_timeout(Some(Duration::from_millis(3000)));
				let mut buf = vec![0u8; MARK_LEN];
				let intact = s.read_exact(&mut buf).is_ok() && buf == mark(c.id);
				r["mark_intact"] = json!(intact);
				if !intact && is_err {
					viol.push((sig(c.class, "bytes_after_header_consumed", &c), "the bytes following the refused header were no longer in the socket".into()));
				}
				let cap = c.len.min(1 << 20);
				if (c.len >= 4096 && max_single as u64 >= cap) || max_single >= (1 << 20) {
					viol.push((sig(c.class, "allocated_announced_size", &c), format!("single allocation request of {} bytes while refusing an announced length of {}", max_single, c.len)));
				}
			}
			"accept_len" => {
				// header within 4x nominal: must not be refused at the header
				let hdr_refused = is_err && consumed <= HDR_LEN as u64 && c.len > 0 && outcome.contains("TooLargeReadErr");
				if hdr_refused {
					viol.push((sig(c.class, "refused_within_limit", &c), format!("length {} <= 4x nominal refused with {}", c.len, outcome)));
				}
				if c.ty != 9 && !outcome.starts_with("panic") && consumed != HDR_LEN as u64 + c.len && !hdr_refused {
					viol.push((sig(c.class, "body_not_consumed", &c), format!("{} bytes consumed for a frame of 11+{} bytes (outcome {})", consumed, c.len, outcome)));
				}
				if outcome.starts_with("ok:") {
					// the frame was accepted as a message: the stream must still be in sync
					let (res, _) = codec.read();
					let ok = matches!(&res, Ok(m) if is_sentinel_ping(m));
					r["next_intact"] = json!(ok);
					if !ok {
						viol.push((sig(c.class, "desync_after_frame", &c), format!("message after the frame read as {:?}", res.map(|m| format!("{}", m)))));
					}
				} else if is_err && c.ty != 9 {
					let (res, _) = codec.read();
					r["next_intact_after_error"] = json!(matches!(&res, Ok(m) if is_sentinel_ping(m)));
				}
			}
			_ => {
				// count cases: the frame must end in an error, never in a (final) message
				if outcome.starts_with("ok:") {
					viol.push((sig(c.class, "message_yielded", &c), format!("{} frame with {} read as message '{}'", type_name(c.ty), c.boundary, &outcome[3..])));
				}
				if max_single as u64 > c.len + 65_536 {
					viol.push((sig(c.class, "count_proportional_allocation", &c), format!("single allocation request of {} bytes for a body of {} bytes ({})", max_single, c.len, c.boundary)));
				}
			}
		}
		r["violations"] = json!(viol);
		let _ = tx.send(r);
	});
	let got = rx.recv_timeout(Duration::from_secs(8));
	let mut hang = false;
	let r = match got {
		Ok(r) => r,
		Err(_) => {
			hang = true;
			if let Some(s) = &server_for_shutdown {
				let _ = s.shutdown(Shutdown::Both);
			}
			rx.recv_timeout(Duration::from_secs(5)).unwrap_or(json!({"outcome": "hang_unrecoverable"}))
		}
	};
	let _ = reader.join();
	if let Ok(cl) = sender.join() {
		let _ = cl.shutdown(Shutdown::Both);
	}
	for (k, v) in r.as_object().cloned().unwrap_or_default() {
		obs[k] = v;
	}
	obs["hang"] = json!(hang);
	if hang && refuse {
		let mut vs = obs["violations"].as_array().cloned().unwrap_or_default();
		vs.push(json!([
			format!("oracle=limits;class={};type={};boundary={};event=blocked_reading_body", c.class, type_name(c.ty), c.boundary.split('/').next().unwrap_or("")),
			"codec.read() did not return within 8 s for a header-only frame that must be refused".to_string()
		]));
		obs["violations"] = json!(vs);
	}
	obs
}

/// Mainnet parameters only: a frame larger than any the test networks allow, and IMMEDIATELY after it a header list of
/// k headers (more than one batch of 32 for most k), then a ping. Headers must carry a proof of work that verifies under
/// Mainnet parameters: the two production genesis headers, in an order-sensitive pattern. What the codec hands out must
/// be the big frame's message, exactly the k headers in order, and the ping.
fn mainnet_sequences(listener: &TcpListener, first_id: u64) -> Vec<Value> {
	let gm = grin_core::genesis::genesis_main().header;
	let gt = grin_core::genesis::genesis_test().header;
	let enc = |h: &BlockHeader, vi: usize| ser::ser_vec(h, pv(vi)).unwrap_or_default();
	let mut out = vec![];
	let mut id = first_id;
	for big in [1_000u64, 70_000, 200_000, 1_000_000] {
		for k in [1usize, 32, 33, 40, 64, 65] {
			let vi = (id % 4) as usize;
			// order-sensitive pattern
			let pat: Vec<bool> = (0..k).map(|i| (i * 7 + i / 3) % 3 == 0).collect();
			let sent: Vec<Vec<u8>> = pat.iter().map(|t| if *t { enc(&gt, vi) } else { enc(&gm, vi) }).collect();
			let mut body = (k as u16).to_be_bytes().to_vec();
			for b in &sent {
				body.extend_from_slice(b);
			}
			let mut bytes = frame_header(MAGIC(), 200, big);
			bytes.extend(Prng::new(big ^ k as u64).bytes(big as usize));
			bytes.extend(frame_header(MAGIC(), 9, body.len() as u64));
			bytes.extend_from_slice(&body);
			bytes.extend_from_slice(&ping_frame());
			let mut obs = json!({"id": id, "class": "accept_seq", "type": "Headers", "ty": 9, "boundary": format!("after_unknown_{}_bytes/{}_headers", big, k),
				"len": body.len().to_string(), "version": VERSIONS[vi]});
			id += 1;
			let (client, server) = match socket_pair(listener) {
				Ok(p) => p,
				Err(e) => {
					obs["inconclusive"] = json!(e);
					out.push(obs);
					continue;
				}
			};
			let _ = client.set_write_timeout(Some(Duration::from_secs(20)));
			let sender = thread::spawn(move || {
				let mut w = &client;
				let _ = w.write_all(&bytes);
				client
			});
			let mut codec = Codec::new(pv(vi), server);
			let mut viol: Vec<(String, String)> = vec![];
			let mut got_hdrs = 0usize;
			let mut first_seen = false;
			let mut ping_seen = false;
			let mut outcome = "incomplete".to_string();
			for _ in 0..200 {
				match monitor::catch(|| codec.read()) {
					Err(pr) => {
						viol.push((format!("oracle=sequence;class=large_frame_then_headers;event=panic@{}", pr.location), pr.message));
						outcome = "panic".into();
						break;
					}
					Ok((Err(e), _)) => {
						outcome = format!("err:{}", err_class(&e));
						break;
					}
					Ok((Ok(m), _)) => {
						if !first_seen {
							first_seen = true;
							if matches!(m, Message::Headers(_)) || is_sentinel_ping(&m) {
								viol.push(("oracle=sequence;class=large_frame_then_headers;event=first_message_missing".into(), format!("the first message handed out is {}", m)));
								break;
							}
							continue;
						}
						match m {
							Message::Headers(hd) => {
								for h in &hd.headers {
									let b = ser::ser_vec(h, pv(vi)).unwrap_or_default();
									if got_hdrs >= sent.len() || b != sent[got_hdrs] {
										viol.push(("oracle=sequence;class=large_frame_then_headers;event=header_differs".into(), format!("header #{} handed out is not header #{} of the list sent", got_hdrs, got_hdrs)));
									}
									got_hdrs += 1;
								}
							}
							m if is_sentinel_ping(&m) => {
								ping_seen = true;
								outcome = "ok".into();
								break;
							}
							m => {
								viol.push(("oracle=sequence;class=large_frame_then_headers;event=foreign_message".into(), format!("a message that was never sent: {}", m)));
								break;
							}
						}
					}
				}
			}
			if viol.is_empty() && (got_hdrs != k || !ping_seen) {
				viol.push((
					"oracle=sequence;class=large_frame_then_headers;event=list_not_delivered_whole".into(),
					format!("a {}-byte frame, then a list of {} headers, then a ping were sent: {} headers handed out, ping seen: {}, reading ended with {}", big, k, got_hdrs, ping_seen, outcome),
				));
			}
			obs["outcome"] = json!(outcome);
			obs["headers_handed_out"] = json!(got_hdrs);
			obs["next_intact"] = json!(ping_seen);
			obs["consumed"] = json!(0);
			obs["violations"] = json!(viol.iter().map(|(a, b)| json!([a, b])).collect::<Vec<_>>());
			drop(codec);
			let _ = sender.join();
			out.push(obs);
		}
	}
	out
}

fn worker_limits(seed: u64, scale: u32, mainnet: bool) {
	let hdrs: Vec<Vec<u8>> = if mainnet {
		use grin_core::global::{self, ChainTypes};
		global::set_global_chain_type(ChainTypes::Mainnet);
		global::set_local_chain_type(ChainTypes::Mainnet);
		global::set_global_nrd_enabled(false);
		global::set_local_nrd_enabled(false);
		global::set_global_accept_fee_base(global::DEFAULT_ACCEPT_FEE_BASE);
		global::set_global_future_time_limit(global::DEFAULT_FUTURE_TIME_LIMIT);
		MAGIC_BYTES.store(97 * 256 + 61, Ordering::Relaxed);
		vec![]
	} else {
		init_globals(false);
		let hdr_pool = mine_pool(seed ^ 0x11, vec![10, 11, 10, 12, 10, 13, 10, 10]);
		hdr_pool
			.iter()
			.map(|h| ser::ser_vec(h, ProtocolVersion(1000)).unwrap())
			.collect()
	};
	let cases = limit_cases(scale, &hdrs, mainnet);
	let next = AtomicUsize::new(0);
	let outl = Mutex::new(std::io::stdout());
	thread::scope(|s| {
		for _ in 0..8 {
			s.spawn(|| {
				let listener = TcpListener::bind("127.0.0.1:0").expect("bind");
				loop {
					let i = next.fetch_add(1, Ordering::SeqCst);
					if i >= cases.len() {
						break;
					}
					let c = &cases[i];
					{
						let mut o = outl.lock().unwrap();
						let _ = writeln!(o, "CASE {}", json!({"id": c.id, "class": c.class, "type": type_name(c.ty), "boundary": c.boundary, "len": c.len.to_string()}));
						let _ = o.flush();
					}
					let obs = run_limit_case(c, &listener);
					let mut o = outl.lock().unwrap();
					let _ = writeln!(o, "RES {}", obs);
					let _ = o.flush();
				}
			});
		}
	});
	if mainnet {
		let listener = TcpListener::bind("127.0.0.1:0").expect("bind");
		for obs in mainnet_sequences(&listener, 1_000_000) {
			println!("RES {}", obs);
		}
	}
	println!("WORKER-DONE {}", cases.len());
}

fn parent_limits(run: &Run, scale: u32, mainnet: bool) {
	let exe = match std::env::current_exe() {
		Ok(e) => e,
		Err(e) => {
			run.inconclusive(&format!("current_exe: {}", e));
			return;
		}
	};
	let out = std::process::Command::new(exe)
		.arg("--worker-limits")
		.arg(if mainnet { "--mainnet-params" } else { "--testing-params" })
		.arg("--seed")
		.arg(format!("{}", run.seed))
		.arg("--scale")
		.arg(format!("{}", scale))
		.output();
	let out = match out {
		Ok(o) => o,
		Err(e) => {
			run.inconclusive(&format!("limits worker spawn: {}", e));
			return;
		}
	};
	let stdout = String::from_utf8_lossy(&out.stdout).to_string();
	let stderr = String::from_utf8_lossy(&out.stderr).to_string();
	// forward the worker's stderr (sanitizer reports of the worker must reach the driver)
	if !stderr.trim().is_empty() {
		eprintln!("{}", stderr);
	}
	let mut started: BTreeMap<u64, Value> = BTreeMap::new();
	let mut table: BTreeMap<String, BTreeMap<String, Value>> = BTreeMap::new();
	let mut done = false;
	let mut max_consumed_refused = 0u64;
	let mut max_alloc_refused = 0u64;
	let mut max_alloc_count = 0u64;
	let mut below: Vec<(String, String)> = vec![];
	for line in stdout.lines() {
		if let Some(j) = line.strip_prefix("CASE ") {
			if let Ok(v) = serde_json::from_str::<Value>(j) {
				started.insert(v["id"].as_u64().unwrap_or(0), v);
			}
		} else if let Some(j) = line.strip_prefix("RES ") {
			let v: Value = match serde_json::from_str(j) {
				Ok(v) => v,
				Err(_) => continue,
			};
			started.remove(&v["id"].as_u64().unwrap_or(0));
			let class = v["class"].as_str().unwrap_or("?").to_string();
			let ty = v["type"].as_str().unwrap_or("?").to_string();
			let bd = v["boundary"].as_str().unwrap_or("?").to_string();
			let outcome = v["outcome"].as_str().unwrap_or("?").to_string();
			run.eval(&format!("limits|{}|{}|{}", class, ty, bd), true);
			if let Some(w) = v.get("inconclusive") {
				run.inconclusive(&format!("limits case {} {} {}: {}", class, ty, bd, w));
				continue;
			}
			run.count(&format!("limits.{}", class), 1);
			if mainnet {
				run.count("limit_cases_under_mainnet_parameters", 1);
				if class == "accept_len" && ty.starts_with("Unknown") && v["next_intact"].as_bool() == Some(true) {
					run.count("mainnet_unknown_frames_followed_by_intact_message", 1);
				}
			}
			let consumed = v["consumed"].as_u64().unwrap_or(0);
			let ms = v["max_single"].as_u64().unwrap_or(0);
			match class.as_str() {
				"refuse_len" | "refuse_magic" => {
					if outcome.starts_with("err:") && consumed <= HDR_LEN as u64 && v["mark_intact"].as_bool() == Some(true) {
						run.count("frames_refused_before_body", 1);
						if class == "refuse_len" {
							run.count(&format!("frames_refused.{}", ty), 1);
						}
					}
					max_consumed_refused = max_consumed_refused.max(consumed);
					max_alloc_refused = max_alloc_refused.max(ms);
					table.entry(ty.clone()).or_default().insert(
						bd.clone(),
						json!({"outcome": outcome, "consumed": consumed, "max_alloc": ms}),
					);
				}
				"accept_seq" => {
					if v["next_intact"].as_bool() == Some(true) {
						run.count("mainnet_large_frame_then_header_list_delivered_whole", 1);
					}
				}
				"accept_len" => {
					if consumed > HDR_LEN as u64 || v["len"].as_str() == Some("0") {
						run.count("frames_within_limit_accepted", 1);
					}
					if v["next_intact"].as_bool() == Some(true) {
						run.count("frames_within_limit_followed_by_intact_message", 1);
					}
					table.entry(ty.clone()).or_default().insert(
						bd.clone(),
						json!({"outcome": outcome, "consumed": consumed}),
					);
				}
				_ => {
					if outcome.starts_with("err:") {
						run.count("count_contradictions_refused", 1);
					}
					run.count(&format!("count_cases.{}", ty), 1);
					max_alloc_count = max_alloc_count.max(ms);
				}
			}
			if let Some(vs) = v["violations"].as_array() {
				for x in vs {
					let s = x[0].as_str().unwrap_or("?");
					let w = x[1].as_str().unwrap_or("");
					if s.contains("class=count_below_content;") && s.ends_with("event=message_yielded") {
						below.push((s.to_string(), format!("{} {}", ty, bd)));
						continue;
					}
					run.violation(s, &format!("{} [{} {} {} len={}]", w, class, ty, bd, v["len"]), v.clone());
				}
			}
		} else if line.starts_with("WORKER-DONE") {
			done = true;
		}
	}
	if !below.is_empty() {
		// one violation per message type (the signature names the type: the recorded finding covers the types whose
		// decoders ignore trailing bytes on the unchanged tree and no other)
		below.sort();
		let sigs: std::collections::BTreeSet<String> = below.iter().map(|(s, _)| s.clone()).collect();
		for sg in sigs {
			let cases: Vec<String> = below.iter().filter(|(s, _)| *s == sg).map(|(_, c)| c.clone()).collect();
			run.violation(
				&sg,
				&format!(
					"frames whose item count is smaller than the items present in the (within-limit) body are read as messages, the trailing bytes are ignored (codec::decode_message does not check that the decoder used the whole body): {}",
					cases.join("; ")
				),
				json!({"cases": cases}),
			);
		}
	}
	run.set_max("refusal_max_bytes_consumed", max_consumed_refused);
	run.set_max("refusal_max_single_allocation", max_alloc_refused);
	run.set_max("count_case_max_single_allocation", max_alloc_count);
	run.extra(if mainnet { "limits_table_mainnet_parameters" } else { "limits_table" }, json!(table));
	let code = out.status.code();
	if code == Some(monitor::EXIT_ALLOC_OVER_CAP) {
		// the allocation monitor stopped the worker: a request above 1 GiB while handling a frame
		let mut case_id = 0u64;
		let mut size = String::new();
		for l in stderr.lines() {
			if let Some(rest) = l.strip_prefix("ALLOC-OVER-CAP case=") {
				let mut it = rest.split(" size=");
				case_id = it.next().and_then(|x| x.trim().parse().ok()).unwrap_or(0);
				size = it.next().unwrap_or("").trim().to_string();
			}
		}
		let c = started.get(&case_id).cloned().unwrap_or(json!({"id": case_id}));
		run.violation(
			&format!(
				"oracle=limits;class={};type={};boundary={};event=alloc_over_cap",
				c["class"].as_str().unwrap_or("?"),
				c["type"].as_str().unwrap_or("?"),
				c["boundary"].as_str().unwrap_or("?").split('/').next().unwrap_or("")
			),
			&format!("allocation request of {} bytes (> 1 GiB) while reading a frame header/body", size),
			c,
		);
	} else if !done {
		let tail: String = stderr.lines().rev().take(5).collect::<Vec<_>>().join(" | ");
		run.inconclusive(&format!(
			"limits worker ended abnormally (status {:?}); unfinished cases: {:?}; stderr tail: {}",
			out.status,
			started.values().take(3).collect::<Vec<_>>(),
			tail
		));
	}
}

// ---------------------------------------------------------------- handshake

fn addr_bytes(a: &SocketAddr) -> Vec<u8> {
	match a {
		SocketAddr::V4(x) => {
			let mut b = vec![0u8];
			b.extend_from_slice(&x.ip().octets());
			b.extend_from_slice(&x.port().to_be_bytes());
			b
		}
		SocketAddr::V6(x) => {
			let mut b = vec![1u8];
			for s in x.ip().segments() {
				b.extend_from_slice(&s.to_be_bytes());
			}
			b.extend_from_slice(&x.port().to_be_bytes());
			b
		}
	}
}

fn hand_body(version: u32, caps: u32, nonce: u64, td: u64, sender: &SocketAddr, receiver: &SocketAddr, ua: &str, genesis: &[u8]) -> Vec<u8> {
	let mut b = version.to_be_bytes().to_vec();
	b.extend_from_slice(&caps.to_be_bytes());
	b.extend_from_slice(&nonce.to_be_bytes());
	b.extend_from_slice(&td.to_be_bytes());
	b.extend(addr_bytes(sender));
	b.extend(addr_bytes(receiver));
	b.extend_from_slice(&(ua.len() as u64).to_be_bytes());
	b.extend_from_slice(ua.as_bytes());
	b.extend_from_slice(genesis);
	b
}

fn shake_body(version: u32, caps: u32, td: u64, ua: &str, genesis: &[u8]) -> Vec<u8> {
	let mut b = version.to_be_bytes().to_vec();
	b.extend_from_slice(&caps.to_be_bytes());
	b.extend_from_slice(&td.to_be_bytes());
	b.extend_from_slice(&(ua.len() as u64).to_be_bytes());
	b.extend_from_slice(ua.as_bytes());
	b.extend_from_slice(genesis);
	b
}

struct Cur<'a>(&'a [u8], usize);
impl<'a> Cur<'a> {
	fn take(&mut self, n: usize) -> Option<&'a [u8]> {
		if self.1 + n > self.0.len() {
			return None;
		}
		let s = &self.0[self.1..self.1 + n];
		self.1 += n;
		Some(s)
	}
	fn u32(&mut self) -> Option<u32> {
		self.take(4).map(|b| u32::from_be_bytes([b[0], b[1], b[2], b[3]]))
	}
	fn u64(&mut self) -> Option<u64> {
		self.take(8).map(|b| {
			let mut a = [0u8; 8];
			a.copy_from_slice(b);
			u64::from_be_bytes(a)
		})
	}
	fn addr(&mut self) -> Option<Vec<u8>> {
		let f = self.take(1)?[0];
		let n = if f == 0 { 6 } else { 18 };
		let mut v = vec![f];
		v.extend_from_slice(self.take(n)?);
		Some(v)
	}
}

struct ParsedHand {
	version: u32,
	caps: u32,
	nonce: u64,
	td: u64,
	sender: Vec<u8>,
	receiver: Vec<u8>,
	genesis: Vec<u8>,
}

fn parse_hand(b: &[u8]) -> Option<ParsedHand> {
	let mut c = Cur(b, 0);
	let version = c.u32()?;
	let caps = c.u32()?;
	let nonce = c.u64()?;
	let td = c.u64()?;
	let sender = c.addr()?;
	let receiver = c.addr()?;
	let ual = c.u64()? as usize;
	c.take(ual)?;
	let genesis = c.take(32)?.to_vec();
	Some(ParsedHand {
		version,
		caps,
		nonce,
		td,
		sender,
		receiver,
		genesis,
	})
}

/// (version, caps, td, genesis)
fn parse_shake(b: &[u8]) -> Option<(u32, u32, u64, Vec<u8>)> {
	let mut c = Cur(b, 0);
	let version = c.u32()?;
	let caps = c.u32()?;
	let td = c.u64()?;
	let ual = c.u64()? as usize;
	c.take(ual)?;
	let genesis = c.take(32)?.to_vec();
	Some((version, caps, td, genesis))
}

/// read one frame (type, body) from a raw socket; None on EOF / timeout / malformed
fn read_frame(s: &mut TcpStream, timeout_ms: u64) -> Option<(u8, Vec<u8>)> {
	let _ = s.set_read_timeout(Some(Duration::from_millis(timeout_ms)));
	let mut h = [0u8; HDR_LEN];
	s.read_exact(&mut h).ok()?;
	if h[0..2] != MAGIC() {
		return None;
	}
	let mut l = [0u8; 8];
	l.copy_from_slice(&h[3..11]);
	let len = u64::from_be_bytes(l);
	if len > 4096 {
		return None;
	}
	let mut body = vec![0u8; len as usize];
	s.read_exact(&mut body).ok()?;
	Some((h[2], body))
}

fn write_dribbled(s: &TcpStream, bytes: &[u8], mode: u64) {
	let mut w = s;
	match mode % 3 {
		0 => {
			let _ = w.write_all(bytes);
		}
		1 => {
			for b in bytes.chunks(1) {
				let _ = w.write_all(b);
			}
		}
		_ => {
			let cut = (bytes.len() / 2).max(1).min(bytes.len());
			let _ = w.write_all(&bytes[..cut]);
			thread::sleep(Duration::from_millis(3));
			let _ = w.write_all(&bytes[cut..]);
		}
	}
}

const LOCAL_VERSION: u32 = 1000;

fn handshake_phase(run: &Run, seed: u64, scale: u32) {
	let mut p = Prng::new(seed ^ 0x4853);
	let listener = match TcpListener::bind("127.0.0.1:0") {
		Ok(l) => l,
		Err(e) => {
			run.inconclusive(&format!("bind: {}", e));
			return;
		}
	};
	let laddr = listener.local_addr().unwrap();
	let genesis = rnd_hash(&mut p);
	let gbytes = genesis.to_vec();
	let mut other = gbytes.clone();
	other[31] ^= 1;
	let self_addr: SocketAddr = "127.0.0.1:5000".parse().unwrap();
	let caps = Capabilities::default();
	let remote_versions: Vec<u32> = if scale == 0 {
		vec![1, 1000, 2000, u32::MAX]
	} else {
		vec![0, 1, 2, 3, 999, 1000, 1001, 2000, u32::MAX]
	};
	let mut matrix: Vec<Value> = vec![];
	let hviol = |clause: &str, what: String, replay: Value| {
		run.violation(&format!("oracle=handshake;clause={}", clause), &what, replay);
	};

	// ---- initiate against a scripted peer
	let mut captured_nonce: Option<(Arc<Handshake>, u64)> = None;
	for (i, rv) in remote_versions.iter().enumerate() {
		for wrong_genesis in [false, true] {
			let hs = Arc::new(Handshake::new(genesis, P2PConfig::default()));
			let hs2 = hs.clone();
			let td_local = p.range(1, 1 << 50);
			let td_remote = p.range(1, 1 << 50);
			let t = thread::spawn(move || {
				let mut c = TcpStream::connect(laddr).expect("connect");
				let r = hs2.initiate(caps, Difficulty::from_num(td_local), PeerAddr(self_addr), &mut c);
				(r, c)
			});
			let (mut srv, peer) = listener.accept().expect("accept");
			let hand = read_frame(&mut srv, 5000);
			let parsed = match &hand {
				Some((1, b)) => parse_hand(b),
				_ => None,
			};
			let replay = json!({"side": "initiate", "remote_version": rv, "wrong_genesis": wrong_genesis});
			run.eval(&format!("handshake|initiate|rv{}|wg{}", rv, wrong_genesis), true);
			match &parsed {
				Some(h) => {
					if h.version != LOCAL_VERSION || h.genesis != gbytes || h.sender != addr_bytes(&self_addr) || h.receiver != addr_bytes(&laddr) || h.caps != caps.bits() || h.td != td_local {
						hviol("hand_fields", format!("Hand sent by initiate carries version={} caps={:#x} td={} sender={:?} receiver={:?}", h.version, h.caps, h.td, h.sender, h.receiver), replay.clone());
					}
					if !wrong_genesis && captured_nonce.is_none() {
						captured_nonce = Some((hs.clone(), h.nonce));
					}
				}
				None => {
					run.inconclusive(&format!("no Hand frame from initiate (rv {})", rv));
				}
			}
			let g = if wrong_genesis { &other } else { &gbytes };
			let sb = frame(2, &shake_body(*rv, 0x2f, td_remote, "scripted/1.0", g));
			write_dribbled(&srv, &sb, i as u64 + wrong_genesis as u64);
			let (r, _c) = t.join().expect("initiate thread");
			let _ = peer;
			let want = (*rv).min(LOCAL_VERSION);
			match r {
				Ok(info) => {
					matrix.push(json!({"side": "initiate", "remote": rv, "wrong_genesis": wrong_genesis, "result": format!("Ok(version={})", info.version.value())}));
					if wrong_genesis {
						hviol("genesis_initiate", "initiate accepted a Shake with a different genesis".into(), replay);
					} else {
						run.count("handshake_ok", 1);
						if info.version.value() != want {
							hviol("version_initiate", format!("local {} remote {} negotiated {} (expected {})", LOCAL_VERSION, rv, info.version.value(), want), replay.clone());
						}
						if info.capabilities.bits() != 0x2f || info.live_info.read().total_difficulty.to_num() != td_remote {
							hviol("peer_info_initiate", "PeerInfo does not carry the capabilities / difficulty of the Shake".into(), replay);
						}
					}
				}
				Err(e) => {
					matrix.push(json!({"side": "initiate", "remote": rv, "wrong_genesis": wrong_genesis, "result": format!("Err({})", err_class(&e))}));
					if wrong_genesis {
						if matches!(e, Error::GenesisMismatch { .. }) {
							run.count("handshake_genesis_refused", 1);
						} else {
							run.count("handshake_refused_other_error", 1);
						}
					} else if parsed.is_some() {
						hviol("initiate_failed", format!("initiate failed with {:?} against a well-formed Shake (remote version {})", e, rv), replay);
					}
				}
			}
		}
	}

	// ---- handshake followed by traffic on the SAME stream: whatever the peer writes right behind its
	// Shake (resp. Hand), coalesced with it or cut anywhere, must be read as the next message by the
	// codec that takes over the stream (faithfulness covers the whole byte stream of a connection)
	{
		let ping_body: Vec<u8> = {
			let mut b = vec![];
			b.extend_from_slice(&0x1122_3344_5566_7788u64.to_be_bytes());
			b.extend_from_slice(&0x0102_0304_0506_0708u64.to_be_bytes());
			b
		};
		let ping = frame(3, &ping_body);
		let is_our_ping = |m: &Message| -> bool {
			match m {
				Message::Ping(p) => p.total_difficulty.to_num() == 0x1122_3344_5566_7788 && p.height == 0x0102_0304_0506_0708,
				_ => false,
			}
		};
		let read_after = |stream: TcpStream, version: ProtocolVersion| -> Result<bool, String> {
			let mut codec = Codec::new(version, stream);
			let t0 = Instant::now();
			loop {
				let (r, _) = codec.read();
				match r {
					Ok(m) => return Ok(is_our_ping(&m)),
					Err(Error::Connection(ref e)) if (e.kind() == std::io::ErrorKind::WouldBlock || e.kind() == std::io::ErrorKind::TimedOut) && t0.elapsed() < Duration::from_secs(4) => continue,
					Err(e) => return Err(format!("{:?}", e)),
				}
			}
		};
		// initiate side: peer answers Shake || Ping
		let shake = frame(2, &shake_body(LOCAL_VERSION, 0x2f, 77, "scripted/1.0", &gbytes));
		let mut stream_bytes = shake.clone();
		stream_bytes.extend_from_slice(&ping);
		let cuts: Vec<usize> = if scale == 0 { vec![0, 1, shake.len() - 1, shake.len(), shake.len() + 1, stream_bytes.len() - 1] } else { (0..stream_bytes.len()).collect() };
		for &cut in &cuts {
			let hs = Arc::new(Handshake::new(genesis, P2PConfig::default()));
			let hs2 = hs.clone();
			let t = thread::spawn(move || {
				let mut c = TcpStream::connect(laddr).expect("connect");
				let r = hs2.initiate(caps, Difficulty::from_num(5), PeerAddr(self_addr), &mut c);
				(r, c)
			});
			let (mut srv, _) = listener.accept().expect("accept");
			let _ = srv.set_nodelay(true);
			let _ = read_frame(&mut srv, 5000);
			{
				let mut w = &srv;
				if cut == 0 {
					let _ = w.write_all(&stream_bytes);
				} else {
					let _ = w.write_all(&stream_bytes[..cut]);
					thread::sleep(Duration::from_millis(2));
					let _ = w.write_all(&stream_bytes[cut..]);
				}
			}
			let (r, c) = t.join().expect("initiate thread");
			run.eval(&format!("handshake_then_traffic|initiate|cut_class{}", if cut == 0 { 0 } else if cut < shake.len() { 1 } else if cut == shake.len() { 2 } else { 3 }), true);
			let replay = json!({"side": "initiate", "stream": "Shake||Ping", "cut": cut, "shake_len": shake.len()});
			match r {
				Ok(info) => match read_after(c, info.version) {
					Ok(true) => run.count("handshake_then_traffic_ok", 1),
					Ok(false) => hviol("traffic_after_shake_altered", format!("first message after the Shake is not the Ping that was sent (cut {})", cut), replay),
					Err(e) => hviol("traffic_after_shake_lost", format!("Ping written right behind the Shake (cut at {} of {}) never arrives: {}", cut, stream_bytes.len(), e), replay),
				},
				Err(e) => hviol("initiate_failed_with_pipelined_traffic", format!("initiate failed with {:?} when the Shake was followed by a Ping (cut {})", e, cut), replay),
			}
			drop(srv);
		}
		// accept side: peer pipelines Hand || Ping
		let hand = frame(1, &hand_body(LOCAL_VERSION, 0x0f, p.next_u64(), 9, &"10.9.8.7:13414".parse().unwrap(), &laddr, "scripted/1.0", &gbytes));
		let mut stream_bytes = hand.clone();
		stream_bytes.extend_from_slice(&ping);
		let cuts: Vec<usize> = if scale == 0 { vec![0, 1, hand.len(), stream_bytes.len() - 1] } else { (0..stream_bytes.len()).step_by(3).chain([hand.len() - 1, hand.len(), hand.len() + 1]).collect() };
		for &cut in &cuts {
			let hs = Arc::new(Handshake::new(genesis, P2PConfig::default()));
			let client = TcpStream::connect(laddr).expect("connect");
			let _ = client.set_nodelay(true);
			let (mut srv, _) = listener.accept().expect("accept");
			let t = thread::spawn(move || {
				let r = hs.accept(caps, Difficulty::from_num(4242), &mut srv);
				(r, srv)
			});
			{
				let mut w = &client;
				if cut == 0 {
					let _ = w.write_all(&stream_bytes);
				} else {
					let _ = w.write_all(&stream_bytes[..cut]);
					thread::sleep(Duration::from_millis(2));
					let _ = w.write_all(&stream_bytes[cut..]);
				}
			}
			let mut c = client;
			let _shake = read_frame(&mut c, 4000);
			let (r, srv) = t.join().expect("accept thread");
			run.eval(&format!("handshake_then_traffic|accept|cut_class{}", if cut == 0 { 0 } else if cut < hand.len() { 1 } else if cut == hand.len() { 2 } else { 3 }), true);
			let replay = json!({"side": "accept", "stream": "Hand||Ping", "cut": cut, "hand_len": hand.len()});
			match r {
				Ok(info) => match read_after(srv, info.version) {
					Ok(true) => run.count("handshake_then_traffic_ok", 1),
					Ok(false) => hviol("traffic_after_hand_altered", format!("first message after the Hand is not the Ping that was sent (cut {})", cut), replay),
					Err(e) => hviol("traffic_after_hand_lost", format!("Ping pipelined behind the Hand (cut at {} of {}) never arrives: {}", cut, stream_bytes.len(), e), replay),
				},
				Err(e) => hviol("accept_failed_with_pipelined_traffic", format!("accept failed with {:?} when the Hand was followed by a Ping (cut {})", e, cut), replay),
			}
		}
	}

	// ---- accept against a scripted peer
	let accept_case = |hs: &Arc<Handshake>, hand: Vec<u8>, mode: u64| -> (Result<grin_p2p::PeerInfo, Error>, Option<(u8, Vec<u8>)>) {
		let hs2 = hs.clone();
		let client = TcpStream::connect(laddr).expect("connect");
		let _ = client.set_nodelay(true);
		let (mut srv, _) = listener.accept().expect("accept");
		let t = thread::spawn(move || {
			let r = hs2.accept(caps, Difficulty::from_num(4242), &mut srv);
			let _ = srv.shutdown(Shutdown::Both);
			r
		});
		write_dribbled(&client, &frame(1, &hand), mode);
		let mut c = client;
		let reply = read_frame(&mut c, 4000);
		let r = t.join().expect("accept thread");
		(r, reply)
	};
	let peer_claimed: SocketAddr = "10.9.8.7:13414".parse().unwrap();
	for (i, rv) in remote_versions.iter().enumerate() {
		for wrong_genesis in [false, true] {
			let hs = Arc::new(Handshake::new(genesis, P2PConfig::default()));
			let g = if wrong_genesis { &other } else { &gbytes };
			let nonce = p.next_u64();
			let td = p.range(1, 1 << 50);
			let hand = hand_body(*rv, 0x0f, nonce, td, &peer_claimed, &laddr, "scripted/1.0", g);
			let (r, reply) = accept_case(&hs, hand, i as u64 + 1 + wrong_genesis as u64);
			let replay = json!({"side": "accept", "remote_version": rv, "wrong_genesis": wrong_genesis});
			run.eval(&format!("handshake|accept|rv{}|wg{}", rv, wrong_genesis), true);
			let want = (*rv).min(LOCAL_VERSION);
			match r {
				Ok(info) => {
					matrix.push(json!({"side": "accept", "remote": rv, "wrong_genesis": wrong_genesis, "result": format!("Ok(version={})", info.version.value())}));
					if wrong_genesis {
						hviol("genesis_accept", "accept accepted a Hand with a different genesis".into(), replay);
					} else {
						run.count("handshake_ok", 1);
						if info.version.value() != want {
							hviol("version_accept", format!("local {} remote {} negotiated {} (expected {})", LOCAL_VERSION, rv, info.version.value(), want), replay.clone());
						}
						match reply.as_ref().and_then(|(t, b)| if *t == 2 { parse_shake(b) } else { None }) {
							Some((v, c, tdl, gen)) => {
								if v != LOCAL_VERSION || gen != gbytes || c != caps.bits() || tdl != 4242 {
									hviol("shake_fields", format!("Shake reply carries version={} caps={:#x} td={}", v, c, tdl), replay);
								}
							}
							None => hviol("shake_missing", "accept returned Ok but no well-formed Shake reached the peer".into(), replay),
						}
					}
				}
				Err(e) => {
					matrix.push(json!({"side": "accept", "remote": rv, "wrong_genesis": wrong_genesis, "result": format!("Err({})", err_class(&e))}));
					if wrong_genesis {
						if matches!(e, Error::GenesisMismatch { .. }) {
							run.count("handshake_genesis_refused", 1);
						} else {
							run.count("handshake_refused_other_error", 1);
						}
						if reply.is_some() {
							hviol("genesis_accept_reply", "a reply frame was sent to a peer with a different genesis".into(), replay);
						}
					} else {
						hviol("accept_failed", format!("accept failed with {:?} for a well-formed Hand (remote version {})", e, rv), replay);
					}
				}
			}
		}
	}

	// ---- own nonce replayed / self connection
	if let Some((hs, nonce)) = captured_nonce {
		for k in 0..(if scale == 0 { 1 } else { 3 }) {
			let hand = hand_body(LOCAL_VERSION, 0x0f, nonce, 5, &peer_claimed, &laddr, "scripted/1.0", &gbytes);
			let (r, reply) = accept_case(&hs, hand, k);
			run.eval(&format!("handshake|replay_nonce|{}", k), true);
			let replay = json!({"side": "accept", "case": "own nonce replayed"});
			match r {
				Err(Error::PeerWithSelf) => {
					run.count("handshake_self_refused", 1);
					matrix.push(json!({"side": "accept", "case": "own_nonce", "result": "Err(PeerWithSelf)"}));
					if reply.is_some() {
						hviol("self_reply", "a reply frame was sent on a self connection".into(), replay);
					}
				}
				Err(e) => {
					run.count("handshake_refused_other_error", 1);
					matrix.push(json!({"side": "accept", "case": "own_nonce", "result": format!("Err({})", err_class(&e))}));
				}
				Ok(_) => {
					matrix.push(json!({"side": "accept", "case": "own_nonce", "result": "Ok"}));
					hviol("self_nonce", "accept accepted a Hand carrying a nonce this Handshake generated itself".into(), replay);
				}
			}
			// control: a nonce never generated here is accepted by the same object
			let hand = hand_body(LOCAL_VERSION, 0x0f, nonce ^ (1 << (k + 1)), 5, &peer_claimed, &laddr, "scripted/1.0", &gbytes);
			let (r, _) = accept_case(&hs, hand, k + 1);
			run.eval(&format!("handshake|foreign_nonce|{}", k), true);
			match r {
				Ok(_) => run.count("handshake_ok", 1),
				Err(e) => hviol("foreign_nonce", format!("accept refused a foreign nonce with {:?}", e), json!({"case": "foreign nonce control"})),
			}
		}
	} else {
		run.inconclusive("no nonce captured from initiate");
	}
	for k in 0..(if scale == 0 { 2 } else { 4 }) {
		// the same Handshake object on both ends of one socket — on a fresh object, and after it has initiated
		// 1 / 99 / 150 outbound handshakes with another node (a node remembers a bounded number of its own nonces)
		let hs = Arc::new(Handshake::new(genesis, P2PConfig::default()));
		let n_prior = [0usize, 150, 99, 1][k % 4];
		if n_prior > 0 {
			let other = Handshake::new(genesis, P2PConfig::default());
			let mut done = 0usize;
			for _ in 0..n_prior {
				let hs_o = hs.clone();
				let t = thread::spawn(move || {
					let mut c = TcpStream::connect(laddr).expect("connect");
					let _ = c.set_read_timeout(Some(Duration::from_secs(10)));
					hs_o.initiate(caps, Difficulty::from_num(1), PeerAddr(self_addr), &mut c).is_ok()
				});
				let (mut srv, _) = listener.accept().expect("accept");
				let _ = srv.set_read_timeout(Some(Duration::from_secs(10)));
				let ra = other.accept(caps, Difficulty::from_num(1), &mut srv);
				drop(srv);
				if t.join().unwrap_or(false) && ra.is_ok() {
					done += 1;
				}
			}
			run.count("handshake_ok", done as u64);
			run.set_max("max_outbound_handshakes_before_a_self_connection", done as u64);
		}
		let hs_i = hs.clone();
		let t = thread::spawn(move || {
			let mut c = TcpStream::connect(laddr).expect("connect");
			hs_i.initiate(caps, Difficulty::from_num(1), PeerAddr(self_addr), &mut c).map(|i| i.version.value())
		});
		let (mut srv, _) = listener.accept().expect("accept");
		let ra = hs.accept(caps, Difficulty::from_num(1), &mut srv);
		drop(srv);
		let ri = t.join().expect("self initiate");
		run.eval(&format!("handshake|self_loop|{}", k), true);
		let replay = json!({"case": "initiate and accept of the same Handshake connected to each other", "outbound_handshakes_before": n_prior});
		match &ra {
			Err(Error::PeerWithSelf) => run.count("handshake_self_refused", 1),
			Err(e) => {
				run.count("handshake_refused_other_error", 1);
				run.inconclusive(&format!("self loop accept: {:?}", e));
			}
			Ok(_) => hviol("self_loop_accept", "accept accepted a connection initiated by the same Handshake".into(), replay.clone()),
		}
		if ri.is_ok() {
			hviol("self_loop_initiate", "initiate succeeded on a connection to itself".into(), replay);
		}
		matrix.push(json!({"case": "self_loop", "accept": format!("{:?}", ra.map(|i| i.version.value()).map_err(|e| err_class(&e))), "initiate": format!("{:?}", ri.map_err(|e| err_class(&e)))}));
	}
	// Hand header with wrong magic / over-limit length
	for (k, (magic, len)) in [([0u8, 0u8], 100u64), (MAGIC(), 513), (MAGIC(), u64::MAX)].iter().enumerate() {
		let hs = Arc::new(Handshake::new(genesis, P2PConfig::default()));
		let hs2 = hs.clone();
		let client = TcpStream::connect(laddr).expect("connect");
		let (mut srv, _) = listener.accept().expect("accept");
		let t = thread::spawn(move || hs2.accept(caps, Difficulty::from_num(1), &mut srv).map(|i| i.version.value()));
		let mut w = &client;
		let _ = w.write_all(&frame_header(*magic, 1, *len));
		let t0 = Instant::now();
		let mut r = None;
		while t0.elapsed() < Duration::from_secs(6) {
			if t.is_finished() {
				r = Some(t.join().expect("join"));
				break;
			}
			thread::sleep(Duration::from_millis(2));
		}
		run.eval(&format!("handshake|bad_hand_header|{}", k), true);
		match r {
			Some(Err(_)) => run.count("handshake_bad_header_refused", 1),
			Some(Ok(_)) => hviol("bad_hand_header", format!("accept succeeded on a Hand header with magic {:?} len {}", magic, len), json!({"magic": magic, "len": len.to_string()})),
			None => {
				let _ = client.shutdown(Shutdown::Both);
				hviol("bad_hand_header_blocked", format!("accept kept reading after a Hand header with magic {:?} len {} (header only sent)", magic, len), json!({"magic": magic, "len": len.to_string()}));
			}
		}
	}
	run.extra("handshake_matrix", json!(matrix));
}

// ---------------------------------------------------------------- main

/// The real writer with an attachment file against the frame definition.
fn writer_attachment_check(run: &Run, scratch: &Scratch, sizes: &[usize]) {
	for (i, sz) in sizes.iter().enumerate() {
		let seed = 900 + i as u64;
		let path = scratch.sub(&format!("wr-att-{}.bin", i));
		let att = archive_attachment(*sz, seed);
		if std::fs::write(&path, &att).is_err() {
			run.inconclusive("cannot write attachment scratch file");
			continue;
		}
		let body = archive_body(*sz, seed);
		let arch: Result<TxHashSetArchive, _> =
			ser::deserialize(&mut &body[..], ProtocolVersion(1000), DeserializationMode::default());
		let arch = match arch {
			Ok(a) => a,
			Err(e) => {
				run.inconclusive(&format!("archive body: {:?}", e));
				continue;
			}
		};
		let v = ProtocolVersion(VERSIONS[i % 4]);
		let mut m = match Msg::new(Type::TxHashSetArchive, &arch, v) {
			Ok(m) => m,
			Err(e) => {
				run.inconclusive(&format!("Msg::new: {:?}", e));
				continue;
			}
		};
		match File::open(&path) {
			Ok(f) => m.add_attachment(f),
			Err(e) => {
				run.inconclusive(&format!("open attachment: {}", e));
				continue;
			}
		}
		let mut w: Vec<u8> = vec![];
		let r = write_message(&mut w, &m, Arc::new(Tracker::new()));
		let mut want = frame(17, &body);
		want.extend_from_slice(&att);
		run.eval(&format!("writer|attachment|{}", sz), true);
		if r.is_err() || w != want {
			run.violation(
				"oracle=writer;item=TxHashSetArchive+Attachment;event=frame_mismatch",
				&format!("write_message output for an archive with a {}-byte attachment differs from header+body+attachment ({:?})", sz, r.err()),
				json!({"attachment_len": sz}),
			);
		} else {
			run.count("writer_frames_checked", 1);
		}
		let _ = std::fs::remove_file(&path);
	}
}

fn arg_value(args: &[String], name: &str) -> Option<String> {
	args.iter().position(|a| a == name).and_then(|i| args.get(i + 1).cloned())
}

fn main() {
	let raw: Vec<String> = std::env::args().collect();
	if raw.iter().any(|a| a == "--worker-limits") {
		let seed = arg_value(&raw, "--seed").and_then(|s| s.parse().ok()).unwrap_or(1u64);
		let scale = arg_value(&raw, "--scale").and_then(|s| s.parse().ok()).unwrap_or(1u32);
		worker_limits(seed, scale, raw.iter().any(|a| a == "--mainnet-params"));
		return;
	}
	let run = Run::from_env("C19", "exploration");
	init_globals(false);
	let san = run.args.iter().any(|a| a == "--san") || std::env::var("VERIF_SAN").is_ok();
	let scale: u32 = if san { 0 } else { run.tier.pick(1, 2) };
	run.set_rule(
		"Loopback TCP pairs; receiver = real Codec::read loop (or conn::listen + recording MessageHandler), sender = harness writing \
		 frames (2 magic bytes, type byte, u64 BE length, body; cross-checked once per message against the real Msg::new/write_message) \
		 in chosen fragments with TCP_NODELAY and 0-100 ms gaps. Streams: fixed short sequences covering every msg::Type the codec decodes \
		 (Ping..KernelSegment, real mined headers/blocks, real txs, PIBD segments) at protocol versions 1/2/3/1000 with EVERY single split \
		 point (class exhaustive1; a stream group is complete only if all its split jobs passed), all split pairs of a tiny stream \
		 (exhaustive2), 1-byte dribble, header lists of 1/31/32/33/64/65/512 headers with mixed edge bits (cuts at every header boundary, \
		 +-1, fixed chunks, random), TxHashSetArchive + attachment of 0/1/47999/48000/48001/96000/200000 bytes, unknown type bytes with \
		 bodies up to 4x the default limit, random sequences of 1-12 items with random multi-splits and delays. Oracle per stream: \
		 same sequence of (type, re-encoded body), header batches re-joined in order with consistent `remaining`, attachment bytes equal, \
		 sum of Codec::read byte counts == stream length, no message after the end. Limits (worker subprocess, allocation monitor): per type x \
		 {0, limit, limit+1, 4xlimit | 4xlimit+1, +2, 8x, 2^31, 2^32, 2^40, 2^63, u64::MAX}, wrong magics, contradictory item counts. \
		 Handshake: real initiate/accept against a scripted peer over remote versions {0,1,2,3,999,1000,1001,2000,u32::MAX}, wrong genesis, \
		 replayed own nonce, self loop. A case is distinct by (class, path, stream, version, cut set) / (limit class, type, boundary) / handshake cell.",
	);
	run.assume("the effective per-type limit is 4x the nominal max_msg_size (MsgHeaderWrapper::read); lengths <= 4x nominal must be accepted at the header, lengths above must be refused");
	run.assume("fragment delays stay far below the codec I/O timeouts (2 s header / 60 s body), as the property's premise requires");
	run.assume("a streamed header list with a contradictory count may deliver non-final batches (prefix of the body) before the frame is refused; it must never complete");
	run.assume("local protocol version is fixed at 1000 (ProtocolVersion::local()); only the remote version varies in the handshake matrix");
	if !monitor::alloc_monitor_installed() {
		run.inconclusive("allocation monitor not installed");
	}

	let scratch = Scratch::new("c19");
	let t0 = Instant::now();
	let n_pool = match scale {
		0 => 80,
		_ => 560,
	};
	let fx = Arc::new(build_fx(run.seed, n_pool));
	run.count("fixture_headers_mined", fx.hdr_bytes.len() as u64);
	run.count("fixture_catalog_entries", fx.entries.len() as u64);
	run.count("writer_frames_checked", (fx.entries.len() * 4) as u64);
	for m in &fx.writer_mismatches {
		run.violation(
			&format!("oracle=writer;item={};event=frame_mismatch", m.split(' ').next().unwrap_or("?")),
			&format!("Msg::new + write_message output differs from magic|type|len|body for {}", m),
			json!({"entry": m}),
		);
	}
	// every catalog body must decode on its own (fixture sanity, not an oracle)
	eprintln!("[C19] fixtures built in {:.1}s", t0.elapsed().as_secs_f64());
	writer_attachment_check(&run, &scratch, &[0, 1, 7999, 8000, 8001, 48_001]);

	// phase: faithfulness
	let (jobs, groups) = gen_jobs(&fx, run.seed, scale);
	// a cap, not a duration: an idle machine is through the quick job list in about a minute; under load (or with the
	// host's CPU shared) the same list has taken four times as long, and a truncated list falls short of the
	// minimum observations below (exit 2)
	let budget = match scale {
		0 => 120,
		1 => 240,
		_ => 900,
	};
	let deadline = Instant::now() + Duration::from_secs(budget);
	run.count("stream_jobs_generated", jobs.len() as u64);
	run_jobs(&run, &fx, &jobs, &groups, deadline, &scratch, 16);
	let complete = groups.iter().filter(|g| g.left.load(Ordering::SeqCst) == 0).count();
	run.count("exhaustive_stream_groups", groups.len() as u64);
	run.count("exhaustive_stream_groups_complete", complete as u64);
	run.extra(
		"exhaustive_streams",
		json!(groups
			.iter()
			.map(|g| json!({"stream": g.name, "split_jobs": g.total, "complete": g.left.load(Ordering::SeqCst) == 0}))
			.collect::<Vec<_>>()),
	);
	run.set_exhaustive(false);
	eprintln!("[C19] streams done at {:.1}s", t0.elapsed().as_secs_f64());

	// samples
	for j in jobs.iter().filter(|j| j.class == "exhaustive1").take(1) {
		run.sample(job_replay(&fx, j));
	}
	for c in ["random_seq", "hdr_boundaries", "chunked", "dribble1"] {
		if let Some(j) = jobs.iter().find(|j| j.class == c) {
			run.sample(job_replay(&fx, j));
		}
	}

	// phase: limits
	parent_limits(&run, scale, false);
	// the same limit cases under Mainnet parameters (limits 170x larger: only there can a body exceed the
	// 48 000-byte chunk the codec reads at a time), in a process of its own because the chain type is global
	parent_limits(&run, scale, true);
	eprintln!("[C19] limits done at {:.1}s", t0.elapsed().as_secs_f64());

	// phase: handshake
	handshake_phase(&run, run.seed, scale);
	eprintln!("[C19] handshake done at {:.1}s", t0.elapsed().as_secs_f64());

	// minimum observations
	let q = |a: u64, b: u64, c: u64| -> u64 {
		match scale {
			0 => a,
			1 => b,
			_ => c,
		}
	};
	run.require("streams read back identically", run.counter("streams_ok"), q(2_000, 40_000, 150_000));
	run.require("messages received", run.counter("messages_received"), q(5_000, 150_000, 500_000));
	run.require("exhaustive single-split stream groups complete", complete as u64, q(0, 40, 50));
	run.require("header batches received", run.counter("header_batches_received"), q(200, 5_000, 30_000));
	run.require("attachment chunks received", run.counter("attachment_chunks_received"), q(100, 1_000, 5_000));
	run.require("unknown-type frames skipped", run.counter("received.unknown"), q(200, 4_000, 10_000));
	run.require("streams through conn::listen", run.counter("streams_ok.path_listen"), q(0, 400, 1_500));
	run.require("streams with a 2.6 s silence inside a body (longer than the header timeout) read back identically", run.counter("streams_ok.stall_in_body"), q(1, 25, 100));
	run.require("streams written by a real connection (ConnHandle::send -> writer thread) and read by another", run.counter("streams_ok.real_writer"), q(2, 25, 120));
	run.require("frames refused before the body", run.counter("frames_refused_before_body"), q(30, 250, 250));
	run.require("within-limit frames accepted", run.counter("frames_within_limit_accepted"), q(15, 100, 100));
	run.require("limit cases under Mainnet parameters", run.counter("limit_cases_under_mainnet_parameters"), q(20, 200, 200));
	run.require("a large frame, then a header list, then a ping delivered whole (Mainnet parameters)", run.counter("mainnet_large_frame_then_header_list_delivered_whole"), q(4, 20, 20));
	run.require("unknown-type frames around / above the chunk size skipped in sync (Mainnet parameters)", run.counter("mainnet_unknown_frames_followed_by_intact_message"), q(6, 18, 18));
	run.require("self connection attempted after more than 100 outbound handshakes of the same node", run.counter("max_outbound_handshakes_before_a_self_connection"), 101);
	run.require("contradictory counts refused", run.counter("count_contradictions_refused"), q(40, 40, 40));
	run.require("successful handshakes", run.counter("handshake_ok"), q(6, 18, 18));
	run.require("different genesis refused", run.counter("handshake_genesis_refused"), q(6, 18, 18));
	run.require("self connection refused", run.counter("handshake_self_refused"), q(2, 6, 6));
	drop(scratch);
	run.finish();
}
