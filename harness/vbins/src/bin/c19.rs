//! C19 — Peer message framing is faithful under fragmentation and enforces size limits.
//!
//! Runtime monitoring of the real `Codec` / `conn::listen` / `Handshake` over
//! loopback TCP socket pairs:
//!   1. faithfulness: message sequences written in chosen fragments are read back as the
//!      identical typed sequence (type + re-encoded body, header batches re-joined,
//!      attachment bytes identical, byte accounting exact, no phantom message);
//!   2. unknown message types are skipped and the following message is intact;
//!   3. wrong magic / over-limit lengths are refused after at most the 11 header bytes
//!      and without allocating the announced size; contradictory item counts are refused
//!      without count-proportional allocation (run in a worker subprocess so that an
//!      over-cap allocation can be classified);
//!   4. handshake: min(local, remote) version, different genesis refused, own nonce refused.

#![allow(clippy::too_many_arguments, clippy::type_complexity)]

use chrono::{DateTime, Utc};
use grin_chain::txhashset::{BitmapChunk, BitmapSegment};
use grin_core::consensus;
use grin_core::core::hash::Hash;
use grin_core::core::pmmr;
use grin_core::core::{
	Block, BlockHeader, CompactBlock, KernelFeatures, Segment, SegmentIdentifier, SegmentProof,
	Transaction,
};
use grin_core::global;
use grin_core::pow::{self, Difficulty};
use grin_core::ser::{self, DeserializationMode, ProtocolVersion, Writeable};
use grin_keychain::BlindingFactor;
use grin_p2p::handshake::Handshake;
use grin_p2p::msg::{
	self, write_message, BanReason, Consumed, GetPeerAddrs, Headers, Locator, Message, Msg,
	OutputBitmapSegmentResponse, OutputSegmentResponse, PeerAddrs, Ping, Pong, SegmentRequest,
	SegmentResponse, TxHashSetArchive, TxHashSetRequest, Type,
};
use grin_p2p::types::AttachmentMeta;
use grin_p2p::verif_export::{listen, Codec, MessageHandler, Tracker};
use grin_p2p::{Capabilities, Error, P2PConfig, PeerAddr, ReasonForBan};
use serde_json::{json, Value};
use std::collections::BTreeMap;
use std::fs::File;
use std::io::{Read, Write};
use std::net::{Shutdown, SocketAddr, TcpListener, TcpStream};
use std::path::PathBuf;
use std::sync::atomic::{AtomicBool, AtomicU64, AtomicUsize, Ordering};
use std::sync::{mpsc, Arc, Mutex};
use std::thread;
use std::time::{Duration, Instant};
use vcommon::monitor::{self, track_alloc, TrackingAlloc};
use vcommon::world::{fee_fields, height_locked, init_globals, World};
use vcommon::{Prng, Run, Scratch};

#[global_allocator]
static ALLOC: TrackingAlloc = TrackingAlloc;

const VERSIONS: [u32; 4] = [1, 2, 3, 1000];
/// Network magic of every chain type other than mainnet / testnet (own constant, from the protocol definition).
const MAGIC: [u8; 2] = [73, 43];
const HDR_LEN: usize = 11;
const BATCH: usize = 32;
const ATT_CHUNK: usize = 48_000;

const TYPE_NAMES: [&str; 29] = [
	"Error",
	"Hand",
	"Shake",
	"Ping",
	"Pong",
	"GetPeerAddrs",
	"PeerAddrs",
	"GetHeaders",
	"Header",
	"Headers",
	"GetBlock",
	"Block",
	"GetCompactBlock",
	"CompactBlock",
	"StemTransaction",
	"Transaction",
	"TxHashSetRequest",
	"TxHashSetArchive",
	"BanReason",
	"GetTransaction",
	"TransactionKernel",
	"GetOutputBitmapSegment",
	"OutputBitmapSegment",
	"GetOutputSegment",
	"OutputSegment",
	"GetRangeProofSegment",
	"RangeProofSegment",
	"GetKernelSegment",
	"KernelSegment",
];

fn type_name(t: u8) -> String {
	if (t as usize) < TYPE_NAMES.len() {
		TYPE_NAMES[t as usize].to_string()
	} else {
		format!("Unknown{}", t)
	}
}

/// Own table of the nominal per-type limits (from the protocol definition); the
/// code under test refuses above 4x nominal.
fn max_block_size() -> u64 {
	global::max_block_weight() / consensus::OUTPUT_WEIGHT * 708
}

fn nominal_limit(t: u8) -> u64 {
	let mbs = max_block_size();
	match t {
		0 => 0,
		1 => 128,
		2 => 88,
		3 | 4 => 16,
		5 => 4,
		6 => 4 + (1 + 16 + 2) * 256,
		7 => 1 + 32 * 20,
		8 => 365,
		9 => 2 + 365 * 512,
		10 | 12 => 32,
		11 => mbs,
		13 => mbs / 10,
		14 | 15 => mbs,
		16 => 40,
		17 | 18 => 64,
		19 | 20 => 32,
		21 | 23 | 25 | 27 => 41,
		22 | 24 | 26 | 28 => 2 * mbs,
		_ => mbs,
	}
}

fn frame_header(magic: [u8; 2], ty: u8, len: u64) -> Vec<u8> {
	let mut v = Vec::with_capacity(HDR_LEN);
	v.extend_from_slice(&magic);
	v.push(ty);
	v.extend_from_slice(&len.to_be_bytes());
	v
}

fn frame(ty: u8, body: &[u8]) -> Vec<u8> {
	let mut v = frame_header(MAGIC, ty, body.len() as u64);
	v.extend_from_slice(body);
	v
}

fn short(s: String) -> String {
	s.split(|c| c == '(' || c == '{' || c == ' ')
		.next()
		.unwrap_or("")
		.to_string()
}

fn err_class(e: &Error) -> String {
	match e {
		Error::Serialization(se) => format!("Serialization:{}", short(format!("{:?}", se))),
		Error::Connection(io) => format!("Connection:{:?}", io.kind()),
		other => short(format!("{:?}", other)),
	}
}

fn is_timeout(e: &Error) -> bool {
	match e {
		Error::Connection(io) => {
			io.kind() == std::io::ErrorKind::TimedOut || io.kind() == std::io::ErrorKind::WouldBlock
		}
		_ => false,
	}
}

fn vi_of(version: u32) -> usize {
	VERSIONS.iter().position(|v| *v == version).unwrap_or(3)
}

fn pv(vi: usize) -> ProtocolVersion {
	ProtocolVersion(VERSIONS[vi])
}

// ---------------------------------------------------------------- fixtures

struct Entry {
	name: &'static str,
	ty: u8,
	bodies: Vec<Vec<u8>>, // per VERSIONS index
}

struct Fx {
	hdr_bytes: Vec<Vec<u8>>,
	hdr_eb: Vec<u8>,
	entries: Vec<Entry>,
	writer_mismatches: Vec<String>,
}

impl Fx {
	fn e(&self, name: &str) -> usize {
		self.entries
			.iter()
			.position(|e| e.name == name)
			.unwrap_or_else(|| panic!("no catalog entry {}", name))
	}
}

fn ts(secs: i64) -> DateTime<Utc> {
	DateTime::<Utc>::from_timestamp(secs, 0).expect("timestamp")
}

fn rnd_hash(p: &mut Prng) -> Hash {
	Hash::from_vec(&p.bytes(32))
}

fn mine_header(p: &mut Prng, height: u64, eb: u8) -> BlockHeader {
	let mut h = BlockHeader::default();
	h.height = height;
	h.version = consensus::header_version(height);
	h.timestamp = ts(1_600_000_000 + 60 * height as i64);
	h.prev_hash = rnd_hash(p);
	h.prev_root = rnd_hash(p);
	h.output_root = rnd_hash(p);
	h.range_proof_root = rnd_hash(p);
	h.kernel_root = rnd_hash(p);
	h.total_kernel_offset = BlindingFactor::from_slice(&p.bytes(32));
	h.output_mmr_size = pmmr::insertion_to_pmmr_index(height + 1);
	h.kernel_mmr_size = pmmr::insertion_to_pmmr_index(height + 1);
	h.pow.total_difficulty = Difficulty::from_num(p.range(1, 1 << 40));
	h.pow.secondary_scaling = p.next_u32();
	h.pow.nonce = p.next_u64();
	pow::pow_size(&mut h, Difficulty::zero(), global::proofsize(), eb).expect("pow_size");
	h
}

/// Mine `n` headers in parallel; edge bits chosen per header by `eb_of(i)`.
fn mine_pool(seed: u64, ebs: Vec<u8>) -> Vec<BlockHeader> {
	let n = ebs.len();
	let next = AtomicUsize::new(0);
	let out: Mutex<Vec<Option<BlockHeader>>> = Mutex::new(vec![None; n]);
	thread::scope(|s| {
		for _ in 0..16 {
			s.spawn(|| loop {
				let i = next.fetch_add(1, Ordering::SeqCst);
				if i >= n {
					break;
				}
				let mut p = Prng::new(seed ^ (0xC19_0000 + i as u64).wrapping_mul(0x9E37_79B9));
				let h = mine_header(&mut p, 1 + (i as u64 % 40), ebs[i]);
				out.lock().unwrap()[i] = Some(h);
			});
		}
	});
	out.into_inner()
		.unwrap()
		.into_iter()
		.map(|h| h.expect("mined"))
		.collect()
}

fn mk_entry<T: Writeable>(name: &'static str, ty: Type, val: &T, mism: &mut Vec<String>) -> Entry {
	let mut bodies = vec![];
	for v in VERSIONS {
		let body = ser::ser_vec(val, ProtocolVersion(v)).expect("ser_vec");
		// cross-check of the real writer against the frame definition
		match Msg::new(ty, val, ProtocolVersion(v)) {
			Ok(m) => {
				let mut w: Vec<u8> = vec![];
				match write_message(&mut w, &m, Arc::new(Tracker::new())) {
					Ok(()) => {
						if w != frame(ty as u8, &body) {
							mism.push(format!("{} v{}", name, v));
						}
					}
					Err(e) => mism.push(format!("{} v{}: write_message {:?}", name, v, e)),
				}
			}
			Err(e) => mism.push(format!("{} v{}: Msg::new {:?}", name, v, e)),
		}
		bodies.push(body);
	}
	Entry {
		name,
		ty: ty as u8,
		bodies,
	}
}

fn build_fx(seed: u64, n_pool: usize) -> Fx {
	let mut p = Prng::new(seed ^ 0xF1C5);
	// header pool: mostly the minimum edge bits, a mix of larger ones (header size = 247 + edge_bits)
	let choices: [u8; 8] = [10, 10, 10, 11, 12, 13, 15, 17];
	let mut ebs: Vec<u8> = (0..n_pool).map(|_| *p.pick(&choices)).collect();
	// the first few are fixed so that named fixtures are stable
	let fixed: [u8; 12] = [10, 11, 10, 13, 19, 10, 12, 10, 15, 10, 10, 17];
	for (i, e) in fixed.iter().enumerate() {
		if i < ebs.len() {
			ebs[i] = *e;
		}
	}
	let pool = mine_pool(seed, ebs.clone());
	let mut hdr_bytes = vec![];
	for h in &pool {
		let b = ser::ser_vec(h, ProtocolVersion(1000)).expect("ser header");
		for v in VERSIONS {
			assert_eq!(b, ser::ser_vec(h, ProtocolVersion(v)).unwrap());
		}
		assert_eq!(b.len(), global::header_size_bytes(h.pow.edge_bits()));
		hdr_bytes.push(b);
	}

	let mut mism = vec![];
	let mut entries = vec![];
	let w = World::new(seed ^ 0x77);
	let hash_a = rnd_hash(&mut p);
	let hash_b = rnd_hash(&mut p);
	let hash_c = rnd_hash(&mut p);

	// simple fixed-size messages
	entries.push(mk_entry(
		"Ping",
		Type::Ping,
		&Ping {
			total_difficulty: Difficulty::from_num(123_456),
			height: 42,
		},
		&mut mism,
	));
	entries.push(mk_entry(
		"PingMax",
		Type::Ping,
		&Ping {
			total_difficulty: Difficulty::from_num(u64::MAX),
			height: u64::MAX,
		},
		&mut mism,
	));
	entries.push(mk_entry(
		"Pong",
		Type::Pong,
		&Pong {
			total_difficulty: Difficulty::from_num(9),
			height: 7,
		},
		&mut mism,
	));
	entries.push(mk_entry(
		"GetPeerAddrs",
		Type::GetPeerAddrs,
		&GetPeerAddrs {
			capabilities: Capabilities::PEER_LIST | Capabilities::HEADER_HIST,
		},
		&mut mism,
	));
	let a4 = |s: &str| PeerAddr(s.parse::<SocketAddr>().unwrap());
	entries.push(mk_entry("PeerAddrs0", Type::PeerAddrs, &PeerAddrs { peers: vec![] }, &mut mism));
	entries.push(mk_entry(
		"PeerAddrs1",
		Type::PeerAddrs,
		&PeerAddrs {
			peers: vec![a4("10.1.2.3:3414")],
		},
		&mut mism,
	));
	entries.push(mk_entry(
		"PeerAddrs3",
		Type::PeerAddrs,
		&PeerAddrs {
			peers: vec![
				a4("192.168.0.1:13414"),
				a4("[2001:db8::1:2]:3414"),
				a4("8.8.4.4:1"),
			],
		},
		&mut mism,
	));
	let many: Vec<PeerAddr> = (0..256u32)
		.map(|i| {
			if i % 3 == 0 {
				a4(&format!("[2001:db8::{:x}]:{}", i + 1, 1000 + i))
			} else {
				a4(&format!("10.0.{}.{}:{}", i / 200, i % 200 + 1, 2000 + i))
			}
		})
		.collect();
	entries.push(mk_entry("PeerAddrs256", Type::PeerAddrs, &PeerAddrs { peers: many }, &mut mism));
	entries.push(mk_entry("GetHeaders0", Type::GetHeaders, &Locator { hashes: vec![] }, &mut mism));
	entries.push(mk_entry(
		"GetHeaders1",
		Type::GetHeaders,
		&Locator { hashes: vec![hash_a] },
		&mut mism,
	));
	entries.push(mk_entry(
		"GetHeaders20",
		Type::GetHeaders,
		&Locator {
			hashes: (0..20).map(|_| rnd_hash(&mut p)).collect(),
		},
		&mut mism,
	));
	entries.push(mk_entry("Header", Type::Header, &pool[0], &mut mism));
	entries.push(mk_entry("HeaderEb19", Type::Header, &pool[4], &mut mism));
	entries.push(mk_entry("GetBlock", Type::GetBlock, &hash_a, &mut mism));
	entries.push(mk_entry("GetCompactBlock", Type::GetCompactBlock, &hash_b, &mut mism));
	entries.push(mk_entry("TransactionKernel", Type::TransactionKernel, &hash_c, &mut mism));
	entries.push(mk_entry("GetTransaction", Type::GetTransaction, &hash_b, &mut mism));
	entries.push(mk_entry(
		"TxHashSetRequest",
		Type::TxHashSetRequest,
		&TxHashSetRequest {
			hash: hash_c,
			height: 77,
		},
		&mut mism,
	));
	entries.push(mk_entry(
		"BanReason",
		Type::BanReason,
		&BanReason {
			ban_reason: ReasonForBan::BadBlockHeader,
		},
		&mut mism,
	));
	entries.push(mk_entry(
		"BanReason7",
		Type::BanReason,
		&BanReason {
			ban_reason: ReasonForBan::BadHandshake,
		},
		&mut mism,
	));

	// transactions, blocks
	let c0 = w.coin(60_000_000_000, &w.key(1), true);
	let c1 = w.coin(50_000_000_000, &w.key(2), false);
	let c2 = w.coin(7_000_000_000, &w.key(3), false);
	let (tx1, _) = w.tx(
		&mut p,
		&[c0],
		&[(59_000_000_000, w.key(4))],
		KernelFeatures::Plain {
			fee: fee_fields(1_000_000_000),
		},
	);
	let (tx2, _) = w.tx(
		&mut p,
		&[c1, c2],
		&[(30_000_000_000, w.key(5)), (26_000_000_000, w.key(6))],
		height_locked(1_000_000_000, 7),
	);
	entries.push(mk_entry("Transaction", Type::Transaction, &tx1, &mut mism));
	entries.push(mk_entry("Transaction2", Type::Transaction, &tx2, &mut mism));
	entries.push(mk_entry("StemTransaction", Type::StemTransaction, &tx2, &mut mism));

	let mk_block = |txs: &[Transaction], key: u32, eb: u8| -> Block {
		let prev = BlockHeader::default();
		let fees: u64 = txs.iter().map(|t| t.fee()).sum();
		let (out, kern) = w.coinbase(&w.key(key), fees);
		let mut b = Block::from_reward(&prev, txs, out, kern, Difficulty::from_num(5)).expect("from_reward");
		b.header.timestamp = ts(1_600_000_500);
		pow::pow_size(&mut b.header, Difficulty::zero(), global::proofsize(), eb).expect("pow block");
		b
	};
	let b1 = mk_block(&[], 10, 10);
	let b2 = mk_block(&[tx1.clone()], 11, 12);
	entries.push(mk_entry("Block", Type::Block, &b1, &mut mism));
	entries.push(mk_entry("BlockTx", Type::Block, &b2, &mut mism));
	let cb1: CompactBlock = b1.clone().into();
	let cb2: CompactBlock = b2.clone().into();
	entries.push(mk_entry("CompactBlock", Type::CompactBlock, &cb1, &mut mism));
	entries.push(mk_entry("CompactBlockTx", Type::CompactBlock, &cb2, &mut mism));

	// PIBD messages
	let id = |height: u8, idx: u64| SegmentIdentifier { height, idx };
	for (name, ty, ident) in [
		("GetOutputBitmapSegment", Type::GetOutputBitmapSegment, id(9, 0)),
		("GetOutputSegment", Type::GetOutputSegment, id(11, 3)),
		("GetRangeProofSegment", Type::GetRangeProofSegment, id(11, u64::MAX)),
		("GetKernelSegment", Type::GetKernelSegment, id(255, 1 << 40)),
	] {
		entries.push(mk_entry(
			name,
			ty,
			&SegmentRequest {
				block_hash: rnd_hash(&mut p),
				identifier: ident,
			},
			&mut mism,
		));
	}
	let mut proof_bytes = 2u64.to_be_bytes().to_vec();
	proof_bytes.extend(p.bytes(64));
	let proof: SegmentProof =
		ser::deserialize(&mut &proof_bytes[..], ProtocolVersion(1000), DeserializationMode::default())
			.expect("segment proof");
	let outs = tx2.outputs();
	let out_seg = Segment::from_parts(
		id(2, 1),
		vec![4, 9],
		vec![rnd_hash(&mut p), rnd_hash(&mut p)],
		vec![7, 8],
		vec![outs[0].identifier(), outs[1].identifier()],
		proof.clone(),
	);
	entries.push(mk_entry(
		"OutputSegment",
		Type::OutputSegment,
		&OutputSegmentResponse {
			response: SegmentResponse {
				block_hash: rnd_hash(&mut p),
				segment: out_seg,
			},
			output_bitmap_root: rnd_hash(&mut p),
		},
		&mut mism,
	));
	let rp_seg = Segment::from_parts(
		id(1, 2),
		vec![],
		vec![],
		vec![7, 8],
		vec![outs[0].proof(), outs[1].proof()],
		proof.clone(),
	);
	entries.push(mk_entry(
		"RangeProofSegment",
		Type::RangeProofSegment,
		&SegmentResponse {
			block_hash: rnd_hash(&mut p),
			segment: rp_seg,
		},
		&mut mism,
	));
	let k_seg = Segment::from_parts(
		id(1, 0),
		vec![2],
		vec![rnd_hash(&mut p)],
		vec![3, 4],
		vec![tx1.kernels()[0].clone(), tx2.kernels()[0].clone()],
		proof.clone(),
	);
	entries.push(mk_entry(
		"KernelSegment",
		Type::KernelSegment,
		&SegmentResponse {
			block_hash: rnd_hash(&mut p),
			segment: k_seg,
		},
		&mut mism,
	));
	let mut ch1 = BitmapChunk::new();
	ch1.set(3, true);
	ch1.set(1000, true);
	let mut ch2 = BitmapChunk::new();
	for i in 0..1024u64 {
		if i % 3 != 0 {
			ch2.set(i, true);
		}
	}
	let mut ch3 = BitmapChunk::new();
	ch3.set(0, true);
	let b_seg = Segment::from_parts(id(2, 0), vec![], vec![], vec![0, 1, 3], vec![ch1, ch2, ch3], proof);
	let bm: BitmapSegment = b_seg.into();
	entries.push(mk_entry(
		"OutputBitmapSegment",
		Type::OutputBitmapSegment,
		&OutputBitmapSegmentResponse {
			block_hash: rnd_hash(&mut p),
			segment: bm,
			output_root: rnd_hash(&mut p),
		},
		&mut mism,
	));
	// header lists: the real writer against the definition (count u16 + headers)
	for n in [1usize, 3] {
		let hs: Vec<BlockHeader> = pool[..n].to_vec();
		let e = mk_entry("HeadersCheck", Type::Headers, &Headers { headers: hs }, &mut mism);
		let mut want = (n as u16).to_be_bytes().to_vec();
		for b in &hdr_bytes[..n] {
			want.extend_from_slice(b);
		}
		if e.bodies[3] != want {
			mism.push(format!("Headers n={} body layout", n));
		}
	}

	Fx {
		hdr_bytes,
		hdr_eb: ebs,
		entries,
		writer_mismatches: mism,
	}
}

// ---------------------------------------------------------------- items and streams

#[derive(Clone, Debug)]
enum Item {
	/// catalog entry index
	Plain(usize),
	/// header list: indices into the header pool
	Headers(Vec<usize>),
	/// unknown type byte with a body of `len` pseudo-random bytes
	Unknown(u8, usize),
	/// TxHashSetArchive followed by a streamed attachment of `len` bytes
	Archive(usize, u64),
}

fn archive_body(len: usize, seed: u64) -> Vec<u8> {
	let mut p = Prng::new(seed ^ 0xA7C4);
	let mut b = p.bytes(32); // hash
	b.extend_from_slice(&(seed % 100_000).to_be_bytes()); // height
	b.extend_from_slice(&(len as u64).to_be_bytes()); // bytes
	b
}

fn archive_attachment(len: usize, seed: u64) -> Vec<u8> {
	Prng::new(seed ^ 0xA77A).bytes(len)
}

impl Item {
	fn name(&self, fx: &Fx) -> String {
		match self {
			Item::Plain(i) => fx.entries[*i].name.to_string(),
			Item::Headers(h) => {
				if h.is_empty() {
					"Headers0".to_string()
				} else {
					"Headers".to_string()
				}
			}
			Item::Unknown(_, _) => "Unknown".to_string(),
			Item::Archive(_, _) => "TxHashSetArchive+Attachment".to_string(),
		}
	}
	fn label(&self, fx: &Fx) -> String {
		match self {
			Item::Plain(i) => fx.entries[*i].name.to_string(),
			Item::Headers(h) => format!("Headers[{}]", h.len()),
			Item::Unknown(t, l) => format!("Unknown({},{})", t, l),
			Item::Archive(l, _) => format!("Archive[{}]", l),
		}
	}
	fn encode(&self, fx: &Fx, vi: usize) -> Vec<u8> {
		match self {
			Item::Plain(i) => frame(fx.entries[*i].ty, &fx.entries[*i].bodies[vi]),
			Item::Headers(h) => {
				let mut body = (h.len() as u16).to_be_bytes().to_vec();
				for i in h {
					body.extend_from_slice(&fx.hdr_bytes[*i]);
				}
				frame(9, &body)
			}
			Item::Unknown(t, l) => frame(*t, &Prng::new(*t as u64 * 7919 + *l as u64).bytes(*l)),
			Item::Archive(l, s) => {
				let mut f = frame(17, &archive_body(*l, *s));
				f.extend_from_slice(&archive_attachment(*l, *s));
				f
			}
		}
	}
	/// messages the receiver is expected to see for this item
	fn n_reads(&self) -> u64 {
		match self {
			Item::Plain(_) | Item::Unknown(_, _) => 1,
			Item::Headers(h) => ((h.len() + BATCH - 1) / BATCH).max(1) as u64,
			Item::Archive(l, _) => 1 + ((*l + ATT_CHUNK - 1) / ATT_CHUNK).max(1) as u64,
		}
	}
}

struct Stream {
	name: String,
	vi: usize,
	items: Vec<Item>,
	bytes: Vec<u8>,
	item_ends: Vec<usize>,
}

fn mk_stream(fx: &Fx, name: &str, vi: usize, items: Vec<Item>) -> Arc<Stream> {
	let mut bytes = vec![];
	let mut item_ends = vec![];
	for it in &items {
		bytes.extend(it.encode(fx, vi));
		item_ends.push(bytes.len());
	}
	Arc::new(Stream {
		name: name.to_string(),
		vi,
		items,
		bytes,
		item_ends,
	})
}

fn reencode(m: Message, v: ProtocolVersion) -> Result<(u8, Vec<u8>), String> {
	fn s<T: Writeable>(t: u8, x: &T, v: ProtocolVersion) -> Result<(u8, Vec<u8>), String> {
		ser::ser_vec(x, v)
			.map(|b| (t, b))
			.map_err(|e| format!("re-encode failed: {:?}", e))
	}
	match m {
		Message::Ping(x) => s(3, &x, v),
		Message::Pong(x) => s(4, &x, v),
		Message::GetPeerAddrs(x) => s(5, &x, v),
		Message::PeerAddrs(x) => s(6, &x, v),
		Message::GetHeaders(x) => s(7, &x, v),
		Message::Header(x) => {
			let h: BlockHeader = x.into();
			s(8, &h, v)
		}
		Message::GetBlock(x) => s(10, &x, v),
		Message::Block(x) => {
			let b: Block = x.into();
			s(11, &b, v)
		}
		Message::GetCompactBlock(x) => s(12, &x, v),
		Message::CompactBlock(x) => {
			let b: CompactBlock = x.into();
			s(13, &b, v)
		}
		Message::StemTransaction(x) => s(14, &x, v),
		Message::Transaction(x) => s(15, &x, v),
		Message::TxHashSetRequest(x) => s(16, &x, v),
		Message::TxHashSetArchive(x) => s(17, &x, v),
		Message::BanReason(x) => s(18, &x, v),
		Message::GetTransaction(x) => s(19, &x, v),
		Message::TransactionKernel(x) => s(20, &x, v),
		Message::GetOutputBitmapSegment(x) => s(21, &x, v),
		Message::OutputBitmapSegment(x) => s(22, &x, v),
		Message::GetOutputSegment(x) => s(23, &x, v),
		Message::OutputSegment(x) => s(24, &x, v),
		Message::GetRangeProofSegment(x) => s(25, &x, v),
		Message::RangeProofSegment(x) => s(26, &x, v),
		Message::GetKernelSegment(x) => s(27, &x, v),
		Message::KernelSegment(x) => s(28, &x, v),
		Message::Headers(_) => Err("headers batch".into()),
		Message::Attachment(_, _) => Err("attachment chunk".into()),
		Message::Unknown(t) => Err(format!("unknown({})", t)),
	}
}

enum Step {
	Continue,
	NeedAttachment(Arc<AttachmentMeta>),
	Done,
	Fail(String, String), // (event class, description)
}

/// Sent-vs-received comparison, shared by the codec path and the conn::listen path.
struct Checker {
	fx: Arc<Fx>,
	st: Arc<Stream>,
	listen: bool,
	idx: usize,
	hdr_got: usize,
	in_att: bool,
	att_got: Vec<u8>,
	att_count: usize,
	att_path: PathBuf,
	msgs: u64,
	batches: u64,
	chunks: u64,
	per_type: BTreeMap<String, u64>,
}

impl Checker {
	fn new(fx: Arc<Fx>, st: Arc<Stream>, listen: bool, att_path: PathBuf) -> Checker {
		Checker {
			fx,
			st,
			listen,
			idx: 0,
			hdr_got: 0,
			in_att: false,
			att_got: vec![],
			att_count: 0,
			att_path,
			msgs: 0,
			batches: 0,
			chunks: 0,
			per_type: BTreeMap::new(),
		}
	}

	fn skip_unknown(&mut self) {
		if self.listen {
			while self.idx < self.st.items.len() {
				if let Item::Unknown(_, _) = self.st.items[self.idx] {
					self.idx += 1;
				} else {
					break;
				}
			}
		}
	}

	fn done(&mut self) -> bool {
		self.skip_unknown();
		self.idx >= self.st.items.len()
	}

	fn cur_name(&mut self) -> String {
		self.skip_unknown();
		if self.idx < self.st.items.len() {
			self.st.items[self.idx].name(&self.fx)
		} else {
			"<end>".to_string()
		}
	}

	fn advance(&mut self) -> Step {
		self.idx += 1;
		self.hdr_got = 0;
		self.in_att = false;
		self.att_got.clear();
		self.att_count = 0;
		if self.done() {
			Step::Done
		} else {
			Step::Continue
		}
	}

	fn on_msg(&mut self, m: Message) -> Step {
		if self.done() {
			return Step::Fail("phantom_message".into(), format!("message '{}' after the end of the stream", m));
		}
		self.msgs += 1;
		let v = pv(self.st.vi);
		let item = self.st.items[self.idx].clone();
		let disp = format!("{}", m);
		*self.per_type.entry(disp.clone()).or_insert(0) += 1;
		match (item, m) {
			(Item::Unknown(t, _), Message::Unknown(g)) => {
				if g == t {
					self.advance()
				} else {
					Step::Fail("unknown_type_byte".into(), format!("Unknown({}) expected, got Unknown({})", t, g))
				}
			}
			(Item::Headers(hs), Message::Headers(hd)) => {
				self.batches += 1;
				if hd.headers.is_empty() && !hs.is_empty() {
					return Step::Fail("empty_batch".into(), "empty header batch for a non-empty list".into());
				}
				for h in &hd.headers {
					if self.hdr_got >= hs.len() {
						return Step::Fail("extra_header".into(), format!("more than the {} headers sent", hs.len()));
					}
					let b = match ser::ser_vec(h, v) {
						Ok(b) => b,
						Err(e) => return Step::Fail("reencode".into(), format!("{:?}", e)),
					};
					if b != self.fx.hdr_bytes[hs[self.hdr_got]] {
						return Step::Fail(
							"header_mismatch".into(),
							format!("header #{} of {} differs from the one sent", self.hdr_got, hs.len()),
						);
					}
					self.hdr_got += 1;
				}
				let want_rem = (hs.len() - self.hdr_got) as u64;
				if hd.remaining != want_rem {
					return Step::Fail(
						"remaining_mismatch".into(),
						format!("remaining={} after {} of {} headers", hd.remaining, self.hdr_got, hs.len()),
					);
				}
				if want_rem == 0 {
					self.advance()
				} else {
					Step::Continue
				}
			}
			(Item::Archive(len, seed), Message::TxHashSetArchive(a)) if !self.in_att => {
				let meta = AttachmentMeta {
					size: a.bytes as usize,
					hash: a.hash,
					height: a.height,
					start_time: Utc::now(),
					path: self.att_path.clone(),
				};
				match ser::ser_vec(&a, v) {
					Ok(b) if b == archive_body(len, seed) => {}
					_ => return Step::Fail("body_mismatch".into(), "TxHashSetArchive body differs".into()),
				}
				self.in_att = true;
				Step::NeedAttachment(Arc::new(meta))
			}
			(Item::Archive(len, seed), Message::Attachment(up, bytes)) if self.in_att => {
				self.chunks += 1;
				if up.read > ATT_CHUNK {
					return Step::Fail("chunk_size".into(), format!("attachment chunk of {} bytes", up.read));
				}
				match bytes {
					Some(b) => {
						if self.listen {
							return Step::Fail("attachment_bytes".into(), "listen path passed chunk bytes to the handler".into());
						}
						if b.len() != up.read {
							return Step::Fail("chunk_len".into(), format!("update.read={} but {} bytes", up.read, b.len()));
						}
						self.att_got.extend_from_slice(&b[..]);
					}
					None => {
						if !self.listen {
							return Step::Fail("attachment_bytes".into(), "codec returned a chunk without bytes".into());
						}
					}
				}
				self.att_count += up.read;
				if self.att_count > len || up.left != len - self.att_count {
					return Step::Fail(
						"attachment_left".into(),
						format!("left={} after {} of {} bytes", up.left, self.att_count, len),
					);
				}
				if up.left == 0 {
					let got = if self.listen {
						std::fs::read(&self.att_path).unwrap_or_default()
					} else {
						std::mem::take(&mut self.att_got)
					};
					if self.listen {
						let _ = std::fs::remove_file(&self.att_path);
					}
					if got != archive_attachment(len, seed) {
						return Step::Fail(
							"attachment_mismatch".into(),
							format!("attachment of {} bytes differs ({} bytes received)", len, got.len()),
						);
					}
					self.advance()
				} else {
					Step::Continue
				}
			}
			(Item::Plain(e), m) => {
				let ent = &self.fx.entries[e];
				match reencode(m, v) {
					Ok((t, b)) => {
						if t != ent.ty {
							Step::Fail(
								"type_mismatch".into(),
								format!("sent {} got {}", type_name(ent.ty), type_name(t)),
							)
						} else if b != ent.bodies[self.st.vi] {
							Step::Fail("body_mismatch".into(), format!("{}: re-encoded body differs from the body sent", ent.name))
						} else {
							self.advance()
						}
					}
					Err(what) => Step::Fail("type_mismatch".into(), format!("sent {} got {}", ent.name, what)),
				}
			}
			(it, _) => Step::Fail(
				"type_mismatch".into(),
				format!("expected {} got '{}'", it.label(&self.fx), disp),
			),
		}
	}
}

// ---------------------------------------------------------------- stream jobs

struct Job {
	st: Arc<Stream>,
	cuts: Vec<usize>,
	delays_ms: Vec<u16>,
	gap_us: u64,
	listen: bool,
	class: &'static str,
	group: Option<usize>,
}

struct OkStats {
	msgs: u64,
	batches: u64,
	chunks: u64,
	per_type: BTreeMap<String, u64>,
}

enum Out {
	Ok(OkStats),
	Fail { item: String, event: String, what: String },
	Stall { item: String, what: String },
	Inconclusive(String),
}

fn send_frags(c: &TcpStream, bytes: &[u8], cuts: &[usize], delays: &[u16], gap_us: u64) {
	let mut w = c;
	let mut prev = 0usize;
	for (i, &cut) in cuts.iter().enumerate() {
		if w.write_all(&bytes[prev..cut]).is_err() {
			return;
		}
		prev = cut;
		let d = delays.get(i).copied().unwrap_or(0);
		if d > 0 {
			thread::sleep(Duration::from_millis(d as u64));
		} else if gap_us > 0 {
			thread::sleep(Duration::from_micros(gap_us));
		} else {
			thread::yield_now();
		}
	}
	let _ = w.write_all(&bytes[prev..]);
}

fn socket_pair(listener: &TcpListener) -> Result<(TcpStream, TcpStream), String> {
	let addr = listener.local_addr().map_err(|e| e.to_string())?;
	let client = TcpStream::connect(addr).map_err(|e| format!("connect: {}", e))?;
	let (server, _) = listener.accept().map_err(|e| format!("accept: {}", e))?;
	let _ = client.set_nodelay(true);
	let _ = server.set_nodelay(true);
	Ok((client, server))
}

fn run_codec_job(fx: &Arc<Fx>, job: &Job, listener: &TcpListener) -> Out {
	let (client, server) = match socket_pair(listener) {
		Ok(p) => p,
		Err(e) => return Out::Inconclusive(e),
	};
	let sender_done = AtomicBool::new(false);
	let total_delay: u64 = job.delays_ms.iter().map(|d| *d as u64).sum();
	let deadline = Instant::now() + Duration::from_millis(total_delay + 20_000);
	thread::scope(|s| {
		let sd = &sender_done;
		let cl = &client;
		s.spawn(move || {
			send_frags(cl, &job.st.bytes, &job.cuts, &job.delays_ms, job.gap_us);
			sd.store(true, Ordering::SeqCst);
			let _ = cl.shutdown(Shutdown::Write);
		});
		let mut codec = Codec::new(pv(job.st.vi), server);
		let mut chk = Checker::new(fx.clone(), job.st.clone(), false, PathBuf::new());
		let mut total = 0u64;
		loop {
			let was_done = sender_done.load(Ordering::SeqCst);
			let item = chk.cur_name();
			let (res, n) = match monitor::catch(|| codec.read()) {
				Ok(x) => x,
				Err(pr) => {
					return Out::Fail {
						item,
						event: format!("panic@{}", pr.location),
						what: pr.message,
					}
				}
			};
			total += n;
			match res {
				Ok(m) => match chk.on_msg(m) {
					Step::Continue => {}
					Step::NeedAttachment(meta) => {
						if let Err(pr) = monitor::catch(|| codec.expect_attachment(meta)) {
							return Out::Fail {
								item,
								event: format!("panic@{}", pr.location),
								what: pr.message,
							};
						}
					}
					Step::Done => break,
					Step::Fail(event, what) => return Out::Fail { item, event, what },
				},
				Err(e) if is_timeout(&e) => {
					if was_done {
						return Out::Stall {
							item,
							what: format!(
								"read timed out although the whole stream ({} bytes) had been written before the read started; {} bytes consumed so far",
								job.st.bytes.len(),
								total
							),
						};
					}
					if Instant::now() > deadline {
						return Out::Inconclusive("job deadline exceeded".into());
					}
				}
				Err(e) => {
					return Out::Fail {
						item,
						event: format!("error:{}", err_class(&e)),
						what: format!("codec returned {:?} after {} stream bytes", e, total),
					}
				}
			}
		}
		if total != job.st.bytes.len() as u64 {
			return Out::Fail {
				item: "<stream>".into(),
				event: "bytes_accounting".into(),
				what: format!("codec reported {} bytes read for a stream of {} bytes", total, job.st.bytes.len()),
			};
		}
		// nothing may follow: the next read must be an error (EOF / timeout), never a message
		match monitor::catch(|| codec.read()) {
			Ok((Ok(m), _)) => {
				return Out::Fail {
					item: "<end>".into(),
					event: "phantom_message".into(),
					what: format!("message '{}' read after the end of the stream", m),
				}
			}
			Ok((Err(_), _)) => {}
			Err(pr) => {
				return Out::Fail {
					item: "<end>".into(),
					event: format!("panic@{}", pr.location),
					what: pr.message,
				}
			}
		}
		Out::Ok(OkStats {
			msgs: chk.msgs,
			batches: chk.batches,
			chunks: chk.chunks,
			per_type: std::mem::take(&mut chk.per_type),
		})
	})
}

struct LState {
	chk: Checker,
	out: Option<Result<(), (String, String, String)>>,
}

struct RecHandler(Arc<Mutex<LState>>);

impl MessageHandler for RecHandler {
	fn consume(&self, m: Message) -> Result<Consumed, Error> {
		let mut st = self.0.lock().unwrap();
		if let Some(o) = &st.out {
			if o.is_ok() {
				st.out = Some(Err((
					"<end>".into(),
					"phantom_message".into(),
					format!("handler received '{}' after the end of the stream", m),
				)));
			}
			return Ok(Consumed::None);
		}
		let item = st.chk.cur_name();
		match st.chk.on_msg(m) {
			Step::Continue => Ok(Consumed::None),
			Step::NeedAttachment(meta) => {
				let f = File::create(&meta.path)?;
				Ok(Consumed::Attachment(meta, f))
			}
			Step::Done => {
				st.out = Some(Ok(()));
				Ok(Consumed::None)
			}
			Step::Fail(e, w) => {
				st.out = Some(Err((item, e, w)));
				Ok(Consumed::None)
			}
		}
	}
}

fn run_listen_job(fx: &Arc<Fx>, job: &Job, listener: &TcpListener, att_path: PathBuf) -> Out {
	let (client, server) = match socket_pair(listener) {
		Ok(p) => p,
		Err(e) => return Out::Inconclusive(e),
	};
	let state = Arc::new(Mutex::new(LState {
		chk: Checker::new(fx.clone(), job.st.clone(), true, att_path),
		out: None,
	}));
	if state.lock().unwrap().chk.done() {
		return Out::Inconclusive("nothing to observe on the listen path".into());
	}
	let (handle, mut stop) = match listen(
		server,
		pv(job.st.vi),
		Arc::new(Tracker::new()),
		RecHandler(state.clone()),
	) {
		Ok(x) => x,
		Err(e) => return Out::Inconclusive(format!("listen: {}", e)),
	};
	let sender_done = AtomicBool::new(false);
	let total_delay: u64 = job.delays_ms.iter().map(|d| *d as u64).sum();
	let deadline = Instant::now() + Duration::from_millis(total_delay + 20_000);
	let mut stalled = false;
	let mut timed_out = false;
	thread::scope(|s| {
		let sd = &sender_done;
		let cl = &client;
		s.spawn(move || {
			send_frags(cl, &job.st.bytes, &job.cuts, &job.delays_ms, job.gap_us);
			sd.store(true, Ordering::SeqCst);
		});
		let mut done_at: Option<Instant> = None;
		loop {
			if state.lock().unwrap().out.is_some() {
				break;
			}
			if done_at.is_none() && sender_done.load(Ordering::SeqCst) {
				done_at = Some(Instant::now());
			}
			if let Some(t) = done_at {
				// the reader loop polls with a 2 s header timeout; 5 s without completion
				// after everything was written means the reader thread stalled or gave up
				if t.elapsed() > Duration::from_secs(5) {
					stalled = true;
					break;
				}
			}
			if Instant::now() > deadline {
				timed_out = true;
				break;
			}
			thread::sleep(Duration::from_micros(300));
		}
		// closing our end gives the reader thread EOF (covers the phantom-message check)
		let _ = client.shutdown(Shutdown::Both);
	});
	stop.stop();
	drop(handle);
	stop.wait();
	let mut st = state.lock().unwrap();
	let item = st.chk.cur_name();
	match st.out.take() {
		Some(Ok(())) => Out::Ok(OkStats {
			msgs: st.chk.msgs,
			batches: st.chk.batches,
			chunks: st.chk.chunks,
			per_type: std::mem::take(&mut st.chk.per_type),
		}),
		Some(Err((item, event, what))) => Out::Fail { item, event, what },
		None => {
			if stalled {
				Out::Stall {
					item,
					what: "conn::listen reader did not deliver the remaining messages within 5 s after the whole stream was written".into(),
				}
			} else if timed_out {
				Out::Inconclusive("listen job deadline exceeded".into())
			} else {
				Out::Inconclusive("listen job ended without outcome".into())
			}
		}
	}
}

struct Group {
	name: String,
	total: usize,
	left: AtomicUsize,
}

fn job_replay(fx: &Fx, job: &Job) -> Value {
	json!({
		"class": job.class,
		"path": if job.listen { "listen" } else { "codec" },
		"stream": job.st.name,
		"protocol_version": VERSIONS[job.st.vi],
		"items": job.st.items.iter().map(|i| i.label(fx)).collect::<Vec<_>>(),
		"stream_len": job.st.bytes.len(),
		"cuts": if job.cuts.len() <= 64 { json!(job.cuts) } else { json!(format!("{} cuts, first {:?}", job.cuts.len(), &job.cuts[..8])) },
		"delays_ms": job.delays_ms,
		"gap_us": job.gap_us,
	})
}

fn run_jobs(
	run: &Run,
	fx: &Arc<Fx>,
	jobs: &[Job],
	groups: &[Group],
	deadline: Instant,
	scratch: &Scratch,
	workers: usize,
) {
	let next = AtomicUsize::new(0);
	let att_id = AtomicU64::new(0);
	thread::scope(|s| {
		for _ in 0..workers {
			s.spawn(|| {
				let listener = match TcpListener::bind("127.0.0.1:0") {
					Ok(l) => l,
					Err(e) => {
						run.inconclusive(&format!("bind: {}", e));
						return;
					}
				};
				let mut per_type: BTreeMap<String, u64> = BTreeMap::new();
				loop {
					let i = next.fetch_add(1, Ordering::SeqCst);
					if i >= jobs.len() {
						break;
					}
					if Instant::now() > deadline {
						run.count("jobs_skipped_by_time_budget", 1);
						continue;
					}
					let job = &jobs[i];
					let exec = |job: &Job| -> Out {
						if job.listen {
							let p = PathBuf::from(scratch.sub(&format!(
								"att-{}.bin",
								att_id.fetch_add(1, Ordering::SeqCst)
							)));
							run_listen_job(fx, job, &listener, p)
						} else {
							run_codec_job(fx, job, &listener)
						}
					};
					let mut out = exec(job);
					if let Out::Stall { .. } = out {
						// only a reproduced stall counts
						let second = exec(job);
						match second {
							Out::Stall { .. } => out = second,
							other => {
								run.count("stalls_not_reproduced", 1);
								run.inconclusive(&format!("stall not reproduced: {} {}", job.class, job.st.name));
								out = other;
							}
						}
					}
					let path = if job.listen { "listen" } else { "codec" };
					let cutsig = if job.cuts.len() == 1 {
						format!("{}", job.cuts[0])
					} else {
						format!("n{}#{:x}", job.cuts.len(), vcommon::prng::fnv64(format!("{:?}{:?}", job.cuts, job.delays_ms).as_bytes()))
					};
					run.eval(
						&format!("{}|{}|{}|v{}|{}", job.class, path, job.st.name, VERSIONS[job.st.vi], cutsig),
						true,
					);
					match out {
						Out::Ok(st) => {
							run.count("streams_ok", 1);
							run.count(&format!("streams_ok.{}", job.class), 1);
							run.count(&format!("streams_ok.path_{}", path), 1);
							run.count("messages_sent", job.st.items.len() as u64);
							run.count("messages_received", st.msgs);
							run.count("header_batches_received", st.batches);
							run.count("attachment_chunks_received", st.chunks);
							run.count("fragments_written", job.cuts.len() as u64 + 1);
							run.count("split_points_exercised", job.cuts.len() as u64);
							if job.delays_ms.iter().any(|d| *d > 0) {
								run.count("streams_with_delays", 1);
							}
							for (k, v) in st.per_type {
								*per_type.entry(k).or_insert(0) += v;
							}
							if let Some(g) = job.group {
								groups[g].left.fetch_sub(1, Ordering::SeqCst);
							}
						}
						Out::Fail { item, event, what } => {
							run.count("streams_failed", 1);
							run.violation(
								&format!("oracle=faithful;path={};item={};event={}", path, item, event),
								&format!("{} [{} {} v{}]", what, job.class, job.st.name, VERSIONS[job.st.vi]),
								job_replay(fx, job),
							);
						}
						Out::Stall { item, what } => {
							run.count("streams_failed", 1);
							run.violation(
								&format!("oracle=faithful;path={};item={};event=stall", path, item),
								&format!("{} (reproduced twice) [{} {}]", what, job.class, job.st.name),
								job_replay(fx, job),
							);
						}
						Out::Inconclusive(w) => {
							run.count("streams_inconclusive", 1);
							run.inconclusive(&format!("{} {}: {}", job.class, job.st.name, w));
						}
					}
				}
				for (k, v) in per_type {
					run.count(&format!("received.{}", k.replace(' ', "_")), v);
				}
			});
		}
	});
}
