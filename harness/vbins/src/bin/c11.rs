//! C11 - Decoding untrusted bytes never panics, aborts, hangs or over-allocates.
//!
//! Parent process: builds a deterministic corpus of valid encodings (seeds) with
//! their field layout (recorded by a layout-recording `Writer`), writes it to a
//! scratch file and spawns 16 single-threaded worker subprocesses of itself.
//! Every case of the (deterministic) case space is a function of its id:
//! id -> (decoder, version, net, seed, mutation class, parameter) -> bytes.
//! Workers run each case through the decoder's entry points and the stateless
//! post-decode checks under three monitors (panic, allocation, watchdog) and
//! report findings / counters as JSON lines. The parent aggregates, interprets
//! worker exit statuses (86 = over-cap allocation, 87 = hang, signal = abort),
//! restarts shards and confirms hangs / aborts by re-running the single case.

use grin_chain::txhashset::{BitmapAccumulator, BitmapChunk, BitmapSegment};
use grin_core::consensus;
use grin_core::core::hash::{Hash, Hashed};
use grin_core::core::merkle_proof::MerkleProof;
use grin_core::core::pmmr::{self, ReadablePMMR, ReadonlyPMMR, VecBackend, PMMR};
use grin_core::core::{
	Block, BlockHeader, FeeFields, KernelFeatures, NRDRelativeHeight, Output, OutputFeatures,
	OutputIdentifier, Segment, SegmentIdentifier, SegmentProof, Transaction, TransactionBody,
	TxKernel, UntrustedBlock, UntrustedBlockHeader, UntrustedCompactBlock, Weighting,
};
use grin_core::global::{self, ChainTypes};
use grin_core::pow::{Difficulty, Proof, ProofOfWork};
use grin_core::ser::{
	self, BufReader, DeserializationMode, PMMRIndexHashable, PMMRable, ProtocolVersion, Readable,
	SerializationMode, Writeable, Writer,
};
use grin_p2p::msg::{
	BanReason, GetPeerAddrs, Hand, Headers, Locator, Message, MsgHeaderWrapper,
	OutputBitmapSegmentResponse, OutputSegmentResponse, PeerAddrs, PeerError, Ping, Pong,
	SegmentRequest, SegmentResponse, Shake, TxHashSetArchive, TxHashSetRequest, Type,
};
use grin_p2p::verif_export::Codec;
use grin_p2p::{Capabilities, PeerAddr, ReasonForBan};
use grin_util::secp::pedersen::{Commitment, RangeProof};
use grin_util::secp::Signature;
use grin_util::ToHex;
use serde_json::{json, Value};
use std::collections::{BTreeMap, BTreeSet, HashMap, HashSet};
use std::io::{BufRead, Read, Write};
use std::net::{Shutdown, SocketAddr, TcpListener, TcpStream};
use std::process::{Command, Stdio};
use std::sync::mpsc;
use std::time::{Duration, Instant, SystemTime, UNIX_EPOCH};
use vcommon::ctx::{Run, Scratch, Tier};
use vcommon::monitor::{
	self, alloc_monitor_installed, catch, track_alloc, watchdog_enter, watchdog_leave,
	watchdog_start, TrackingAlloc, EXIT_ALLOC_OVER_CAP, EXIT_HANG,
};
use vcommon::prng::{fnv64, splitmix64, Prng};
use vcommon::world::{self, World};

#[global_allocator]
static A: TrackingAlloc = TrackingAlloc;

const NSHARDS: u64 = 16;
const VERSIONS: [u32; 4] = [1, 2, 3, 1000];
const HARD_CAP_BYTES: u64 = 256 << 20;
const CASE_BUDGET_MS: u64 = 20_000;
const MIB: u64 = 1 << 20;

/// Allocation oracle: largest single request / live high-water allowed for an input of `len` bytes.
fn single_budget(len: u64) -> u64 {
	16 * len + 2 * MIB
}
fn peak_budget(len: u64) -> u64 {
	64 * len + 8 * MIB
}

// ------------------------------------------------------------------ decoders

const D_MSGHEADER: usize = 0;
const D_HANDMSG: usize = 1;
const D_SHAKEMSG: usize = 2;
const D_HAND: usize = 3;
const D_SHAKE: usize = 4;
const D_PING: usize = 5;
const D_PONG: usize = 6;
const D_GETPEERADDRS: usize = 7;
const D_PEERADDRS: usize = 8;
const D_PEERERROR: usize = 9;
const D_LOCATOR: usize = 10;
const D_BANREASON: usize = 11;
const D_TXHSREQ: usize = 12;
const D_TXHSARCH: usize = 13;
const D_HASH: usize = 14;
const D_SEGREQ: usize = 15;
const D_SEGID: usize = 16;
const D_SEGPROOF: usize = 17;
const D_SEG_OUT: usize = 18;
const D_SEG_RP: usize = 19;
const D_SEG_KERN: usize = 20;
const D_SEG_CHUNK: usize = 21;
const D_BITMAPSEG: usize = 22;
const D_OUTSEGRESP: usize = 23;
const D_RPSEGRESP: usize = 24;
const D_KERNSEGRESP: usize = 25;
const D_BITMAPSEGRESP: usize = 26;
const D_UHEADER: usize = 27;
const D_UBLOCK: usize = 28;
const D_UCOMPACT: usize = 29;
const D_TX: usize = 30;
const D_TXBODY: usize = 31;
const D_PROOF: usize = 32;
const D_POW: usize = 33;
const D_MERKLE: usize = 34;
const D_MERKLE_HEXBIN: usize = 35;
const D_MERKLE_HEXSTR: usize = 36;
const D_CODEC: usize = 37;
const D_API_OUTPUT_PRINTABLE: usize = 38;
const D_API_OUTPUT: usize = 39;
const D_JSON_TX: usize = 40;
const NDEC: usize = 41;

const DECODERS: [&str; NDEC] = [
	"MsgHeaderWrapper",
	"read_message<Hand>",
	"read_message<Shake>",
	"Hand",
	"Shake",
	"Ping",
	"Pong",
	"GetPeerAddrs",
	"PeerAddrs",
	"PeerError",
	"Locator",
	"BanReason",
	"TxHashSetRequest",
	"TxHashSetArchive",
	"Hash",
	"SegmentRequest",
	"SegmentIdentifier",
	"SegmentProof",
	"Segment<OutputIdentifier>",
	"Segment<RangeProof>",
	"Segment<TxKernel>",
	"Segment<BitmapChunk>",
	"BitmapSegment",
	"OutputSegmentResponse",
	"SegmentResponse<RangeProof>",
	"SegmentResponse<TxKernel>",
	"OutputBitmapSegmentResponse",
	"UntrustedBlockHeader",
	"UntrustedBlock",
	"UntrustedCompactBlock",
	"Transaction",
	"TransactionBody",
	"Proof",
	"ProofOfWork",
	"MerkleProof::read",
	"MerkleProof::from_hex(hex(bytes))",
	"MerkleProof::from_hex(str)",
	"Codec::read",
	"api::OutputPrintable(json)",
	"api::Output(json)",
	"Transaction(json)",
];

/// Decoder name used in violation signatures (the two from_hex drivers are one entry point).
fn sig_dec(dec: usize) -> &'static str {
	match dec {
		D_MERKLE_HEXBIN | D_MERKLE_HEXSTR => "MerkleProof::from_hex",
		d => DECODERS[d],
	}
}

fn ascii(s: &str) -> String {
	s.chars()
		.map(|c| if c.is_ascii() && !c.is_ascii_control() { c } else { '?' })
		.collect()
}

/// Fixture kind used by the segment post-decode checks of a decoder.
const FX_OUT: u8 = 0;
const FX_RP: u8 = 1;
const FX_KERN: u8 = 2;
const FX_BITMAP: u8 = 3;

fn fx_kind(dec: usize) -> Option<u8> {
	match dec {
		D_SEG_OUT | D_OUTSEGRESP => Some(FX_OUT),
		D_SEG_RP | D_RPSEGRESP => Some(FX_RP),
		D_SEG_KERN | D_KERNSEGRESP => Some(FX_KERN),
		D_SEG_CHUNK | D_BITMAPSEG | D_BITMAPSEGRESP => Some(FX_BITMAP),
		_ => None,
	}
}

fn is_framed(dec: usize) -> bool {
	matches!(dec, D_MSGHEADER | D_HANDMSG | D_SHAKEMSG | D_CODEC)
}

/// Decoders whose behaviour depends on the chain type (magic, PoW contexts, weights):
/// their decoder-level (seedless) cases are run under both parameter sets.
fn both_nets(dec: usize) -> bool {
	matches!(
		dec,
		D_MSGHEADER | D_CODEC | D_UHEADER | D_UBLOCK | D_UCOMPACT | D_TX | D_TXBODY
	)
}

fn set_net(net: u8) {
	global::set_local_chain_type(if net == 1 {
		ChainTypes::Mainnet
	} else {
		ChainTypes::AutomatedTesting
	});
	global::set_local_nrd_enabled(true);
}

fn magic_for(net: u8) -> [u8; 2] {
	if net == 1 {
		[97, 61]
	} else {
		[73, 43]
	}
}

// ------------------------------------------------------------------ layout-recording writer

#[derive(Clone, Copy, Debug)]
struct Field {
	off: u32,
	len: u32,
	/// 0 = blob, otherwise the width in bytes of a big-endian integer field
	kind: u8,
}

struct RecWriter {
	buf: Vec<u8>,
	fields: Vec<Field>,
	ver: u32,
}

impl RecWriter {
	fn new(ver: u32) -> RecWriter {
		RecWriter {
			buf: vec![],
			fields: vec![],
			ver,
		}
	}
	fn rec(&mut self, len: usize, kind: u8) {
		self.fields.push(Field {
			off: self.buf.len() as u32,
			len: len as u32,
			kind,
		});
	}
}

impl Writer for RecWriter {
	fn serialization_mode(&self) -> SerializationMode {
		SerializationMode::Full
	}
	fn protocol_version(&self) -> ProtocolVersion {
		ProtocolVersion(self.ver)
	}
	fn write_u8(&mut self, n: u8) -> Result<(), ser::Error> {
		self.rec(1, 1);
		self.buf.push(n);
		Ok(())
	}
	fn write_u16(&mut self, n: u16) -> Result<(), ser::Error> {
		self.rec(2, 2);
		self.buf.extend_from_slice(&n.to_be_bytes());
		Ok(())
	}
	fn write_u32(&mut self, n: u32) -> Result<(), ser::Error> {
		self.rec(4, 4);
		self.buf.extend_from_slice(&n.to_be_bytes());
		Ok(())
	}
	fn write_i32(&mut self, n: i32) -> Result<(), ser::Error> {
		self.rec(4, 4);
		self.buf.extend_from_slice(&n.to_be_bytes());
		Ok(())
	}
	fn write_u64(&mut self, n: u64) -> Result<(), ser::Error> {
		self.rec(8, 8);
		self.buf.extend_from_slice(&n.to_be_bytes());
		Ok(())
	}
	fn write_i64(&mut self, n: i64) -> Result<(), ser::Error> {
		self.rec(8, 8);
		self.buf.extend_from_slice(&n.to_be_bytes());
		Ok(())
	}
	fn write_fixed_bytes<T: AsRef<[u8]>>(&mut self, bytes: T) -> Result<(), ser::Error> {
		let b = bytes.as_ref();
		self.rec(b.len(), 0);
		self.buf.extend_from_slice(b);
		Ok(())
	}
}

// ------------------------------------------------------------------ corpus

#[derive(Clone, Debug)]
struct Seed {
	dec: u16,
	ver: u32,
	net: u8,
	/// fixture index for segment post-checks (u32::MAX = none)
	aux: u32,
	/// run the enumerated classes (field / tag / truncation) for this (seed, version)
	enumerate: bool,
	/// the honest encoding is expected to decode successfully
	expect_ok: bool,
	label: String,
	bytes: Vec<u8>,
	fields: Vec<Field>,
}

#[derive(Clone, Debug)]
struct Fixture {
	kind: u8,
	n_leaves: u64,
	size: u64,
	root: Hash,
	other: Hash,
	final_root: Hash,
	hash_last_pos: u64,
}

struct Corpus {
	seeds: Vec<Seed>,
	fixtures: Vec<Fixture>,
}

fn put_u32(v: &mut Vec<u8>, x: u32) {
	v.extend_from_slice(&x.to_le_bytes());
}
fn put_u64(v: &mut Vec<u8>, x: u64) {
	v.extend_from_slice(&x.to_le_bytes());
}
fn put_bytes(v: &mut Vec<u8>, b: &[u8]) {
	put_u32(v, b.len() as u32);
	v.extend_from_slice(b);
}

struct Cur<'a> {
	b: &'a [u8],
	p: usize,
}
impl<'a> Cur<'a> {
	fn u8(&mut self) -> u8 {
		let x = self.b[self.p];
		self.p += 1;
		x
	}
	fn u32(&mut self) -> u32 {
		let mut a = [0u8; 4];
		a.copy_from_slice(&self.b[self.p..self.p + 4]);
		self.p += 4;
		u32::from_le_bytes(a)
	}
	fn u64(&mut self) -> u64 {
		let mut a = [0u8; 8];
		a.copy_from_slice(&self.b[self.p..self.p + 8]);
		self.p += 8;
		u64::from_le_bytes(a)
	}
	fn bytes(&mut self) -> Vec<u8> {
		let n = self.u32() as usize;
		let v = self.b[self.p..self.p + n].to_vec();
		self.p += n;
		v
	}
}

impl Corpus {
	fn to_bytes(&self) -> Vec<u8> {
		let mut v = vec![];
		put_u32(&mut v, self.seeds.len() as u32);
		for s in &self.seeds {
			put_u32(&mut v, s.dec as u32);
			put_u32(&mut v, s.ver);
			v.push(s.net);
			put_u32(&mut v, s.aux);
			v.push(s.enumerate as u8);
			v.push(s.expect_ok as u8);
			put_bytes(&mut v, s.label.as_bytes());
			put_bytes(&mut v, &s.bytes);
			put_u32(&mut v, s.fields.len() as u32);
			for f in &s.fields {
				put_u32(&mut v, f.off);
				put_u32(&mut v, f.len);
				v.push(f.kind);
			}
		}
		put_u32(&mut v, self.fixtures.len() as u32);
		for f in &self.fixtures {
			v.push(f.kind);
			put_u64(&mut v, f.n_leaves);
			put_u64(&mut v, f.size);
			v.extend_from_slice(f.root.as_bytes());
			v.extend_from_slice(f.other.as_bytes());
			v.extend_from_slice(f.final_root.as_bytes());
			put_u64(&mut v, f.hash_last_pos);
		}
		v
	}

	fn from_bytes(b: &[u8]) -> Corpus {
		let mut c = Cur { b, p: 0 };
		let n = c.u32();
		let mut seeds = vec![];
		for _ in 0..n {
			let dec = c.u32() as u16;
			let ver = c.u32();
			let net = c.u8();
			let aux = c.u32();
			let enumerate = c.u8() != 0;
			let expect_ok = c.u8() != 0;
			let label = String::from_utf8_lossy(&c.bytes()).to_string();
			let bytes = c.bytes();
			let nf = c.u32();
			let mut fields = vec![];
			for _ in 0..nf {
				let off = c.u32();
				let len = c.u32();
				let kind = c.u8();
				fields.push(Field { off, len, kind });
			}
			seeds.push(Seed {
				dec,
				ver,
				net,
				aux,
				enumerate,
				expect_ok,
				label,
				bytes,
				fields,
			});
		}
		let nfx = c.u32();
		let mut fixtures = vec![];
		for _ in 0..nfx {
			let kind = c.u8();
			let n_leaves = c.u64();
			let size = c.u64();
			let h = |c: &mut Cur| {
				let x = Hash::from_vec(&c.b[c.p..c.p + 32]);
				c.p += 32;
				x
			};
			let root = h(&mut c);
			let other = h(&mut c);
			let final_root = h(&mut c);
			let hash_last_pos = c.u64();
			fixtures.push(Fixture {
				kind,
				n_leaves,
				size,
				root,
				other,
				final_root,
				hash_last_pos,
			});
		}
		Corpus { seeds, fixtures }
	}
}

// ------------------------------------------------------------------ corpus builder

struct Builder {
	seeds: Vec<Seed>,
	fixtures: Vec<Fixture>,
	ordinal: usize,
}

fn fixed_ts(offset_secs: i64) -> chrono::DateTime<chrono::Utc> {
	chrono::DateTime::<chrono::Utc>::from_timestamp(1_600_000_000 + offset_secs, 0).unwrap()
}

fn rnd_hash(p: &mut Prng) -> Hash {
	Hash::from_vec(&p.bytes(32))
}
fn rnd_commit(p: &mut Prng) -> Commitment {
	let mut b = p.bytes(33);
	b[0] = 8 | (b[0] & 1);
	Commitment::from_vec(b)
}
fn rnd_sig(p: &mut Prng) -> Signature {
	let mut a = [0u8; 64];
	p.fill(&mut a);
	Signature::from_raw_data(&a).expect("sig from raw")
}
fn rnd_rproof(p: &mut Prng) -> RangeProof {
	let mut proof = [0u8; grin_util::secp::constants::MAX_PROOF_SIZE];
	p.fill(&mut proof);
	RangeProof {
		proof,
		plen: grin_util::secp::constants::MAX_PROOF_SIZE,
	}
}
fn rnd_kernel(p: &mut Prng, i: u64) -> TxKernel {
	let fee = FeeFields::new(0, 1 + p.below(1 << 30)).unwrap();
	let features = match i % 4 {
		0 => KernelFeatures::Plain { fee },
		1 => KernelFeatures::Coinbase,
		2 => KernelFeatures::HeightLocked {
			fee,
			lock_height: p.below(1 << 20),
		},
		_ => KernelFeatures::NoRecentDuplicate {
			fee,
			relative_height: NRDRelativeHeight::new(1 + p.below(1000)).unwrap(),
		},
	};
	TxKernel {
		features,
		excess: rnd_commit(p),
		excess_sig: rnd_sig(p),
	}
}
fn rnd_outid(p: &mut Prng, i: u64) -> OutputIdentifier {
	OutputIdentifier {
		features: if i % 5 == 0 {
			OutputFeatures::Coinbase
		} else {
			OutputFeatures::Plain
		},
		commit: rnd_commit(p),
	}
}

fn build_mmr<T: PMMRable>(items: &[T]) -> (VecBackend<T>, u64, Hash) {
	let mut ba = VecBackend::new();
	{
		let mut m = PMMR::new(&mut ba);
		for it in items {
			m.push(it).expect("mmr push");
		}
	}
	let size = ba.size();
	let root = ReadonlyPMMR::at(&ba, size).root().expect("mmr root");
	(ba, size, root)
}

/// Mirror of the compact block wire layout (the body type has no public constructor
/// taking an explicit nonce, and `From<Block>` draws a random one).
struct CbEnc {
	header: BlockHeader,
	nonce: u64,
	out_full: Vec<Output>,
	kern_full: Vec<TxKernel>,
	kern_ids: Vec<grin_core::core::ShortId>,
}
impl Writeable for CbEnc {
	fn write<W: Writer>(&self, w: &mut W) -> Result<(), ser::Error> {
		self.header.write(w)?;
		w.write_u64(self.nonce)?;
		w.write_u64(self.out_full.len() as u64)?;
		w.write_u64(self.kern_full.len() as u64)?;
		w.write_u64(self.kern_ids.len() as u64)?;
		self.out_full.write(w)?;
		self.kern_full.write(w)?;
		self.kern_ids.write(w)?;
		Ok(())
	}
}

/// Encoding of a `Segment<BitmapChunk>` as `Segment::read` consumes it (`BitmapChunk::read`
/// reads no bytes).
struct ChunkSegEnc(Segment<BitmapChunk>);
impl Writeable for ChunkSegEnc {
	fn write<W: Writer>(&self, w: &mut W) -> Result<(), ser::Error> {
		let s = &self.0;
		s.id().write(w)?;
		let hashes: Vec<(u64, Hash)> = s.hash_iter().collect();
		w.write_u64(hashes.len() as u64)?;
		for (p, _) in &hashes {
			w.write_u64(1 + p)?;
		}
		for (_, h) in &hashes {
			h.write(w)?;
		}
		let leaves: Vec<u64> = s.leaf_iter().map(|(p, _)| p).collect();
		w.write_u64(leaves.len() as u64)?;
		for p in &leaves {
			w.write_u64(1 + p)?;
		}
		s.proof().write(w)?;
		Ok(())
	}
}

struct Framed<'a, W: Writeable> {
	net: u8,
	ty: u8,
	body: &'a W,
}
impl<'a, W: Writeable> Writeable for Framed<'a, W> {
	fn write<WR: Writer>(&self, w: &mut WR) -> Result<(), ser::Error> {
		let body = ser::ser_vec(self.body, w.protocol_version())?;
		let m = magic_for(self.net);
		w.write_u8(m[0])?;
		w.write_u8(m[1])?;
		w.write_u8(self.ty)?;
		w.write_u64(body.len() as u64)?;
		self.body.write(w)
	}
}

struct Two<'a, A: Writeable, B: Writeable>(&'a A, &'a B);
impl<'a, A: Writeable, B: Writeable> Writeable for Two<'a, A, B> {
	fn write<W: Writer>(&self, w: &mut W) -> Result<(), ser::Error> {
		self.0.write(w)?;
		self.1.write(w)
	}
}

struct RawBytes(Vec<u8>);
impl Writeable for RawBytes {
	fn write<W: Writer>(&self, w: &mut W) -> Result<(), ser::Error> {
		for b in &self.0 {
			w.write_fixed_bytes(&[*b])?;
		}
		Ok(())
	}
}

impl Builder {
	fn add<W: Writeable>(
		&mut self,
		dec: usize,
		net: u8,
		aux: u32,
		expect_ok: bool,
		label: &str,
		thing: &W,
	) {
		set_net(net);
		let mut encs: Vec<(u32, Vec<u8>, Vec<Field>)> = vec![];
		for v in VERSIONS.iter() {
			let mut w = RecWriter::new(*v);
			if thing.write(&mut w).is_ok() {
				encs.push((*v, w.buf, w.fields));
			}
		}
		set_net(0);
		let n = encs.len();
		for i in 0..n {
			// identical encodings at several versions: enumerate at one of them only
			let same: Vec<usize> = (0..n).filter(|j| encs[*j].1 == encs[i].1).collect();
			let chosen = same[self.ordinal % same.len()];
			let (v, bytes, fields) = encs[i].clone();
			self.seeds.push(Seed {
				dec: dec as u16,
				ver: v,
				net,
				aux,
				enumerate: chosen == i,
				expect_ok,
				label: label.to_string(),
				bytes,
				fields,
			});
		}
		self.ordinal += 1;
	}

	fn framed<W: Writeable>(
		&mut self,
		dec: usize,
		net: u8,
		aux: u32,
		expect_ok: bool,
		label: &str,
		ty: u8,
		body: &W,
	) {
		self.add(dec, net, aux, expect_ok, label, &Framed { net, ty, body });
	}

	fn fixture(&mut self, f: Fixture) -> u32 {
		self.fixtures.push(f);
		(self.fixtures.len() - 1) as u32
	}
}

/// Segment seeds of one leaf type over a few MMR sizes; returns (segment, fixture, label).
fn seg_family<T>(
	b: &mut Builder,
	p: &mut Prng,
	kind: u8,
	dec: usize,
	prunable: bool,
	mk: &dyn Fn(&mut Prng, u64) -> T,
) -> Vec<(Segment<T>, u32, String)>
where
	T: PMMRable<E = T> + Readable + Writeable + std::fmt::Debug,
{
	let shapes: [(u64, u8, u64); 9] = [
		(1, 0, 0),
		(6, 1, 1),
		(6, 2, 1),
		(13, 2, 0),
		(13, 2, 3),
		(40, 3, 2),
		(40, 5, 1),
		(40, 0, 39),
		(40, 6, 0),
	];
	let mut out = vec![];
	for n in [1u64, 6, 13, 40, 700] {
		let items: Vec<T> = (0..n).map(|i| mk(p, i)).collect();
		let (ba, size, root) = build_mmr(&items);
		let other = rnd_hash(p);
		let final_root = (root, other).hash_with_index(size);
		let fx = b.fixture(Fixture {
			kind,
			n_leaves: n,
			size,
			root,
			other,
			final_root,
			hash_last_pos: size,
		});
		let ro = ReadonlyPMMR::at(&ba, size);
		for (sn, h, idx) in shapes.iter() {
			if *sn != n {
				continue;
			}
			let id = SegmentIdentifier {
				height: *h,
				idx: *idx,
			};
			if let Ok(seg) = Segment::from_pmmr(id, &ro, prunable) {
				let label = format!("n={} h={} idx={}", n, h, idx);
				b.add(dec, 0, fx, true, &label, &seg);
				out.push((seg, fx, label));
			}
		}
	}
	out
}

fn build_corpus(seed: u64) -> Corpus {
	world::init_globals(true);
	set_net(0);
	let mut b = Builder {
		seeds: vec![],
		fixtures: vec![],
		ordinal: 0,
	};
	let mut p = Prng::new(seed ^ 0xC11_5EED);
	let w = World::new(seed);

	// ---- transactions (real bulletproofs), blocks (real PoW at the testing edge bits)
	let det_tx = |tx: Transaction, p: &mut Prng| -> Transaction {
		let mut ks = tx.kernels().to_vec();
		for k in ks.iter_mut() {
			k.excess_sig = rnd_sig(p);
		}
		let outs = tx.outputs().to_vec();
		let mut t = Transaction::new(tx.inputs(), &outs, &ks);
		t.offset = tx.offset.clone();
		t
	};
	let coin = |n: u32, v: u64, cb: bool| w.coin(v, &w.key(n), cb);
	let (tx1, _) = w.tx(
		&mut p,
		&[coin(1, 60_000_000_000, true)],
		&[(20_000_000_000, w.key(10)), (39_000_000_000, w.key(11))],
		KernelFeatures::Plain {
			fee: world::fee_fields(1_000_000_000),
		},
	);
	let tx1 = det_tx(tx1, &mut p);
	let (tx2, _) = w.tx(
		&mut p,
		&[coin(2, 5_000_000_000, false), coin(3, 7_000_000_000, false)],
		&[(4_000_000_000, w.key(12)), (7_500_000_000, w.key(13))],
		world::height_locked(500_000_000, 7),
	);
	let tx2 = det_tx(tx2, &mut p);
	let (tx3, _) = w.tx(
		&mut p,
		&[coin(4, 3_000_000_000, false)],
		&[(2_900_000_000, w.key(14))],
		world::nrd(100_000_000, 5),
	);
	let tx3 = det_tx(tx3, &mut p);
	let agg = grin_core::core::transaction::aggregate(&[tx1.clone(), tx2.clone(), tx3.clone()])
		.expect("aggregate");

	let mut prev = BlockHeader::default();
	prev.timestamp = fixed_ts(0);
	let mk_block = |txs: &[Transaction], key: u32, prev: &BlockHeader, p: &mut Prng| -> Block {
		let fees: u64 = txs.iter().map(|t| t.fee()).sum();
		let (out, mut kern) = w.coinbase(&w.key(key), fees);
		kern.excess_sig = rnd_sig(p);
		let mut blk =
			Block::from_reward(prev, txs, out, kern, Difficulty::min_dma()).expect("from_reward");
		blk.header.timestamp = fixed_ts(60 * (blk.header.height as i64));
		blk.header.pow.proof.edge_bits = global::min_edge_bits();
		world::mine(&mut blk.header, prev.total_difficulty()).expect("mine");
		blk
	};
	let blk_small = mk_block(&[], 20, &prev, &mut p);
	let blk_med = mk_block(
		&[tx1.clone(), tx2.clone(), tx3.clone()],
		21,
		&blk_small.header,
		&mut p,
	);
	let mut chain_headers = vec![blk_small.header.clone(), blk_med.header.clone()];
	{
		// a run of mined empty headers for the Headers message (crosses the batch size of 32)
		let mut prevh = blk_med.header.clone();
		for _ in 0..33 {
			let mut h = BlockHeader::default();
			h.height = prevh.height + 1;
			h.version = consensus::header_version(h.height);
			h.prev_hash = prevh.hash();
			h.timestamp = fixed_ts(60 * h.height as i64);
			h.pow.total_difficulty = prevh.total_difficulty() + Difficulty::min_dma();
			h.pow.proof.edge_bits = global::min_edge_bits();
			world::mine(&mut h, prevh.total_difficulty()).expect("mine header");
			chain_headers.push(h.clone());
			prevh = h;
		}
	}

	// ---- headers with a genuine proof of work and field values no honest chain has: only a header whose proof verifies
	// gets past the PoW check of the untrusted reader to the bounds evaluated after it (global weight against the height)
	let mut mined_extreme: Vec<(String, BlockHeader)> = vec![];
	for (i, height) in [1u64 << 50, (1u64 << 59) + 1, 1u64 << 63, u64::MAX - 1, u64::MAX, 461_168_601_842_739, 461_168_601_842_738].iter().enumerate() {
		for (j, (osz, ksz)) in [(1u64, 1u64), (u64::MAX, u64::MAX), (1u64 << 62, 3), (7, 1u64 << 63)].iter().enumerate() {
			let mut h = BlockHeader::default();
			h.height = *height;
			h.version = consensus::header_version(*height);
			h.prev_hash = rnd_hash(&mut p);
			h.prev_root = rnd_hash(&mut p);
			h.timestamp = fixed_ts(60 * (1000 + i as i64));
			h.output_mmr_size = *osz;
			h.kernel_mmr_size = *ksz;
			h.pow.total_difficulty = blk_med.header.total_difficulty() + Difficulty::min_dma();
			h.pow.proof.edge_bits = global::min_edge_bits();
			if world::mine(&mut h, blk_med.header.total_difficulty()).is_ok() {
				mined_extreme.push((format!("mined header height={} sizes#{}", height, j), h));
			}
		}
	}
	for (label, h) in &mined_extreme {
		b.add(D_UHEADER, 0, u32::MAX, false, label, h);
	}
	if let Some((_, h)) = mined_extreme.first() {
		let xb = Block { header: h.clone(), body: blk_small.body.clone() };
		b.add(D_UBLOCK, 0, u32::MAX, false, "block under a mined header with an extreme height", &xb);
	}

	b.add(D_TX, 0, u32::MAX, true, "1in-2out plain", &tx1);
	b.add(D_TX, 0, u32::MAX, true, "2in-2out height-locked", &tx2);
	b.add(D_TX, 0, u32::MAX, true, "aggregate 4in-5out-3kern", &agg);
	b.add(D_TXBODY, 0, u32::MAX, true, "body of tx1", &tx1.body);
	b.add(D_TXBODY, 0, u32::MAX, true, "body of medium block", &blk_med.body);
	b.add(D_UBLOCK, 0, u32::MAX, true, "coinbase-only block", &blk_small);
	b.add(D_UBLOCK, 0, u32::MAX, true, "block with 3 txs", &blk_med);
	b.add(D_UHEADER, 0, u32::MAX, true, "mined header h=1", &blk_small.header);
	b.add(D_UHEADER, 0, u32::MAX, true, "mined header h=2", &blk_med.header);
	b.add(D_POW, 0, u32::MAX, true, "pow of header", &blk_med.header.pow);
	b.add(D_PROOF, 0, u32::MAX, true, "proof of header", &blk_med.header.pow.proof);

	let mk_cb = |blk: &Block, nonce: u64| -> CbEnc {
		use grin_core::core::id::ShortIdentifiable;
		let hh = blk.header.hash();
		let mut out_full: Vec<Output> = blk
			.outputs()
			.iter()
			.filter(|o| o.is_coinbase())
			.cloned()
			.collect();
		let mut kern_full = vec![];
		let mut kern_ids = vec![];
		for k in blk.kernels() {
			if k.is_coinbase() {
				kern_full.push(k.clone());
			} else {
				kern_ids.push(k.short_id(&hh, nonce));
			}
		}
		out_full.sort_unstable();
		kern_full.sort_unstable();
		kern_ids.sort_unstable();
		CbEnc {
			header: blk.header.clone(),
			nonce,
			out_full,
			kern_full,
			kern_ids,
		}
	};
	let cb_small = mk_cb(&blk_small, p.next_u64());
	let cb_med = mk_cb(&blk_med, p.next_u64());
	b.add(D_UCOMPACT, 0, u32::MAX, true, "compact of coinbase-only", &cb_small);
	b.add(D_UCOMPACT, 0, u32::MAX, true, "compact of 3-tx block", &cb_med);

	// ---- mainnet-shaped headers (valid encoding, random proof: reach the PoW verifiers)
	set_net(1);
	let mut mainnet_headers = vec![];
	for (height, eb) in [
		(100u64, 29u8),
		(300_000, 29),
		(600_000, 29),
		(900_000, 29),
		(2_000_000, 32),
		(2_000_001, 31),
	] {
		let mut h = BlockHeader::default();
		h.height = height;
		h.version = consensus::header_version(height);
		h.timestamp = fixed_ts(height as i64);
		h.prev_hash = rnd_hash(&mut p);
		h.prev_root = rnd_hash(&mut p);
		h.output_root = rnd_hash(&mut p);
		h.range_proof_root = rnd_hash(&mut p);
		h.kernel_root = rnd_hash(&mut p);
		h.output_mmr_size = pmmr::insertion_to_pmmr_index(height + 10);
		h.kernel_mmr_size = pmmr::insertion_to_pmmr_index(height + 5);
		h.pow.total_difficulty = Difficulty::from_num(1 << 40);
		h.pow.secondary_scaling = 1856;
		h.pow.nonce = p.next_u64();
		let mut nonces: BTreeSet<u64> = BTreeSet::new();
		while nonces.len() < 42 {
			nonces.insert(p.below(1u64 << eb));
		}
		let mut pr = Proof::new(nonces.into_iter().collect());
		pr.edge_bits = eb;
		h.pow.proof = pr;
		mainnet_headers.push(h);
	}
	set_net(0);
	for h in &mainnet_headers {
		let label = format!("mainnet header h={} eb={}", h.height, h.pow.proof.edge_bits);
		b.add(D_UHEADER, 1, u32::MAX, false, &label, h);
	}
	let mn_block = Block {
		header: mainnet_headers[4].clone(),
		body: blk_med.body.clone(),
	};
	b.add(D_UBLOCK, 1, u32::MAX, false, "mainnet block", &mn_block);
	let mut mn_cb = mk_cb(&blk_med, p.next_u64());
	mn_cb.header = mainnet_headers[3].clone();
	b.add(D_UCOMPACT, 1, u32::MAX, false, "mainnet compact block", &mn_cb);
	b.add(D_POW, 1, u32::MAX, true, "mainnet pow", &mainnet_headers[4].pow);
	b.add(D_PROOF, 1, u32::MAX, true, "mainnet proof", &mainnet_headers[0].pow.proof);

	// ---- small p2p bodies
	let v4 = PeerAddr(SocketAddr::from(([10, 1, 2, 3], 3414)));
	let v6 = PeerAddr(SocketAddr::from((
		[0x2001, 0xdb8, 0, 0, 0, 0xff00, 0x42, 0x8329],
		13414,
	)));
	let hand = Hand {
		version: ProtocolVersion(3),
		capabilities: Capabilities::from_bits_truncate(0x4f),
		nonce: p.next_u64(),
		genesis: rnd_hash(&mut p),
		total_difficulty: Difficulty::from_num(123_456),
		sender_addr: v4,
		receiver_addr: v6,
		user_agent: "MW/Grin 5.3.0".to_string(),
	};
	let hand2 = Hand {
		version: ProtocolVersion(1000),
		capabilities: Capabilities::from_bits_truncate(0xffff_ffff),
		nonce: 0,
		genesis: rnd_hash(&mut p),
		total_difficulty: Difficulty::from_num(u64::MAX),
		sender_addr: v6,
		receiver_addr: v4,
		user_agent: "x".repeat(40),
	};
	let shake = Shake {
		version: ProtocolVersion(2),
		capabilities: Capabilities::from_bits_truncate(0x0f),
		genesis: rnd_hash(&mut p),
		total_difficulty: Difficulty::from_num(99),
		user_agent: "MW/Grin 5.3.0.abcdef".to_string(),
	};
	b.add(D_HAND, 0, u32::MAX, true, "hand v4/v6", &hand);
	b.add(D_HAND, 0, u32::MAX, true, "hand v6/v4 long agent", &hand2);
	b.add(D_SHAKE, 0, u32::MAX, true, "shake", &shake);
	b.framed(D_HANDMSG, 0, u32::MAX, true, "framed hand", Type::Hand as u8, &hand);
	b.framed(D_HANDMSG, 0, u32::MAX, false, "framed shake as hand", Type::Shake as u8, &shake);
	b.framed(D_SHAKEMSG, 0, u32::MAX, true, "framed shake", Type::Shake as u8, &shake);
	let ping = Ping {
		total_difficulty: Difficulty::from_num(777),
		height: 1234,
	};
	let pong = Pong {
		total_difficulty: Difficulty::from_num(778),
		height: 1235,
	};
	b.add(D_PING, 0, u32::MAX, true, "ping", &ping);
	b.add(D_PONG, 0, u32::MAX, true, "pong", &pong);
	let gpa = GetPeerAddrs {
		capabilities: Capabilities::from_bits_truncate(0x0f),
	};
	b.add(D_GETPEERADDRS, 0, u32::MAX, true, "getpeeraddrs", &gpa);
	let pa0 = PeerAddrs { peers: vec![] };
	let pa3 = PeerAddrs {
		peers: vec![v4, v6, v4],
	};
	let pa_many = PeerAddrs {
		peers: (0..200u32)
			.map(|i| {
				if i % 3 == 0 {
					v6
				} else {
					PeerAddr(SocketAddr::from(([10, 0, (i >> 8) as u8, i as u8], 3414)))
				}
			})
			.collect(),
	};
	b.add(D_PEERADDRS, 0, u32::MAX, true, "0 peers", &pa0);
	b.add(D_PEERADDRS, 0, u32::MAX, true, "3 peers", &pa3);
	b.add(D_PEERADDRS, 0, u32::MAX, true, "200 peers", &pa_many);
	let perr = PeerError {
		code: 7,
		message: "something went wrong".to_string(),
	};
	b.add(D_PEERERROR, 0, u32::MAX, true, "peer error", &perr);
	let loc0 = Locator { hashes: vec![] };
	let loc1 = Locator {
		hashes: vec![rnd_hash(&mut p)],
	};
	let loc20 = Locator {
		hashes: (0..20).map(|_| rnd_hash(&mut p)).collect(),
	};
	b.add(D_LOCATOR, 0, u32::MAX, true, "0 hashes", &loc0);
	b.add(D_LOCATOR, 0, u32::MAX, true, "1 hash", &loc1);
	b.add(D_LOCATOR, 0, u32::MAX, true, "20 hashes", &loc20);
	let ban = BanReason {
		ban_reason: ReasonForBan::BadBlock,
	};
	b.add(D_BANREASON, 0, u32::MAX, true, "ban reason", &ban);
	let thr = TxHashSetRequest {
		hash: rnd_hash(&mut p),
		height: 4242,
	};
	let tha = TxHashSetArchive {
		hash: rnd_hash(&mut p),
		height: 4242,
		bytes: 1_000_000,
	};
	b.add(D_TXHSREQ, 0, u32::MAX, true, "txhashset request", &thr);
	b.add(D_TXHSARCH, 0, u32::MAX, true, "txhashset archive", &tha);
	let some_hash = rnd_hash(&mut p);
	b.add(D_HASH, 0, u32::MAX, true, "hash", &some_hash);

	// ---- Merkle proofs
	let mp0 = MerkleProof::empty();
	let mp1 = MerkleProof {
		mmr_size: 3,
		path: vec![rnd_hash(&mut p)],
	};
	let mp10 = MerkleProof {
		mmr_size: 1500,
		path: (0..10).map(|_| rnd_hash(&mut p)).collect(),
	};
	for (l, m) in [("empty", &mp0), ("1 hash", &mp1), ("10 hashes", &mp10)] {
		b.add(D_MERKLE, 0, u32::MAX, true, l, m);
		b.add(D_MERKLE_HEXBIN, 0, u32::MAX, true, l, m);
		b.add(
			D_MERKLE_HEXSTR,
			0,
			u32::MAX,
			true,
			l,
			&RawBytes(m.to_hex().into_bytes()),
		);
	}
	b.add(
		D_MERKLE_HEXSTR,
		0,
		u32::MAX,
		true,
		"upper-case hex",
		&RawBytes(mp1.to_hex().to_uppercase().into_bytes()),
	);

	// ---- API-facing JSON (hand-written Deserialize impls of the api crate): the valid document, and for every
	// key the document without it, with null, and with a value of another JSON type
	{
		let op = grin_api::OutputPrintable {
			output_type: grin_api::OutputType::Transaction,
			commit: rnd_commit(&mut p),
			spent: false,
			proof: Some("0a0b0c".to_string()),
			proof_hash: rnd_hash(&mut p).to_hex(),
			block_height: Some(1234),
			merkle_proof: Some(mp1.clone()),
			mmr_index: 77,
		};
		let o = grin_api::Output::new(&rnd_commit(&mut p), 55, 66);
		for (label, proof) in [
			("empty proof", "".to_string()),
			("one byte proof", "0a".to_string()),
			("674 byte proof", "ab".repeat(674)),
			("675 byte proof", "ab".repeat(675)),
			("676 byte proof", "ab".repeat(676)),
			("5000 byte proof", "cd".repeat(5000)),
			("odd number of digits", "abc".to_string()),
		] {
			let mut v = op.clone();
			v.proof = Some(proof);
			b.add(D_API_OUTPUT_PRINTABLE, 0, u32::MAX, true, label, &RawBytes(serde_json::to_value(&v).expect("json").to_string().into_bytes()));
		}
		for (dec, doc) in [
			(D_API_OUTPUT_PRINTABLE, serde_json::to_value(&op).expect("json")),
			(D_API_OUTPUT, serde_json::to_value(&o).expect("json")),
		] {
			b.add(dec, 0, u32::MAX, true, "valid document", &RawBytes(doc.to_string().into_bytes()));
			if let Some(obj) = doc.as_object() {
				for k in obj.keys() {
					let mut without = obj.clone();
					without.remove(k);
					b.add(dec, 0, u32::MAX, false, &format!("without key {}", k), &RawBytes(serde_json::Value::Object(without).to_string().into_bytes()));
					for (what, v) in [
						("null", serde_json::Value::Null),
						("number", json!(7)),
						("string", json!("zz")),
						("array", json!([1, 2])),
						("object", json!({"a": 1})),
						("bool", json!(true)),
					] {
						let mut m = obj.clone();
						m.insert(k.clone(), v);
						b.add(dec, 0, u32::MAX, false, &format!("key {} = {}", k, what), &RawBytes(serde_json::Value::Object(m).to_string().into_bytes()));
					}
					let mut dup = doc.to_string();
					dup.pop();
					dup.push_str(&format!(",\"{}\":{}}}", k, obj[k]));
					b.add(dec, 0, u32::MAX, false, &format!("key {} twice", k), &RawBytes(dup.into_bytes()));
				}
			}
		}
	}

	// ---- the JSON form of a transaction (what the node's foreign API takes in push_transaction): the valid document, and
	// every string / number leaf of it replaced by strings that are not what the field's hex reader expects
	{
		fn leaves(v: &serde_json::Value, path: &mut Vec<String>, out: &mut Vec<Vec<String>>) {
			match v {
				serde_json::Value::Object(o) => {
					for (k, x) in o {
						path.push(k.clone());
						leaves(x, path, out);
						path.pop();
					}
				}
				serde_json::Value::Array(a) => {
					for (i, x) in a.iter().enumerate().take(2) {
						path.push(i.to_string());
						leaves(x, path, out);
						path.pop();
					}
				}
				_ => out.push(path.clone()),
			}
		}
		fn set(v: &mut serde_json::Value, path: &[String], nv: serde_json::Value) {
			if path.is_empty() {
				*v = nv;
				return;
			}
			match v {
				serde_json::Value::Object(o) => {
					if let Some(x) = o.get_mut(&path[0]) {
						set(x, &path[1..], nv)
					}
				}
				serde_json::Value::Array(a) => {
					if let Some(x) = path[0].parse::<usize>().ok().and_then(|i| a.get_mut(i)) {
						set(x, &path[1..], nv)
					}
				}
				_ => {}
			}
		}
		for (name, tx) in [("1in-2out plain", &tx1), ("2in-2out height-locked", &tx2)] {
			let doc = serde_json::to_value(tx).expect("tx json");
			b.add(D_JSON_TX, 0, u32::MAX, true, &format!("valid document {}", name), &RawBytes(doc.to_string().into_bytes()));
			let mut ls = vec![];
			leaves(&doc, &mut vec![], &mut ls);
			for path in ls {
				for (what, nv) in [
					("not hex", json!("zz")),
					("empty", json!("")),
					("odd number of digits", json!("abc")),
					("multi-byte character", json!("\u{e9}0")),
					("31 bytes", json!("ab".repeat(31))),
					("33 bytes", json!("ab".repeat(33))),
					("65 bytes", json!("ab".repeat(65))),
					("5000 bytes", json!("cd".repeat(5000))),
					("number", json!(7)),
					("huge number", json!(u64::MAX)),
					("negative", json!(-1)),
					("null", serde_json::Value::Null),
					("array", json!([1, 2])),
					("object", json!({"Plain": {"fee": "zz"}})),
				] {
					let mut d = doc.clone();
					set(&mut d, &path, nv);
					b.add(D_JSON_TX, 0, u32::MAX, false, &format!("{}: {} = {}", name, path.join("."), what), &RawBytes(d.to_string().into_bytes()));
				}
			}
		}
	}

	// ---- segments
	let out_segs = seg_family::<OutputIdentifier>(&mut b, &mut p, FX_OUT, D_SEG_OUT, true, &|p, i| {
		rnd_outid(p, i)
	});
	let rp_segs = seg_family::<RangeProof>(&mut b, &mut p, FX_RP, D_SEG_RP, true, &|p, _| {
		rnd_rproof(p)
	});
	let kern_segs = seg_family::<TxKernel>(&mut b, &mut p, FX_KERN, D_SEG_KERN, false, &|p, i| {
		rnd_kernel(p, i)
	});
	for (i, (seg, fx, label)) in out_segs.iter().enumerate() {
		if i % 3 == 1 {
			let r = OutputSegmentResponse {
				response: SegmentResponse {
					block_hash: rnd_hash(&mut p),
					segment: seg.clone(),
				},
				output_bitmap_root: rnd_hash(&mut p),
			};
			b.add(D_OUTSEGRESP, 0, *fx, true, label, &r);
		}
	}
	for (i, (seg, fx, label)) in rp_segs.iter().enumerate() {
		if i % 4 == 1 {
			let r = SegmentResponse {
				block_hash: rnd_hash(&mut p),
				segment: seg.clone(),
			};
			b.add(D_RPSEGRESP, 0, *fx, true, label, &r);
		}
	}
	for (i, (seg, fx, label)) in kern_segs.iter().enumerate() {
		if i % 3 == 1 {
			let r = SegmentResponse {
				block_hash: rnd_hash(&mut p),
				segment: seg.clone(),
			};
			b.add(D_KERNSEGRESP, 0, *fx, true, label, &r);
		}
	}
	b.add(
		D_SEGPROOF,
		0,
		u32::MAX,
		true,
		"proof of a kernel segment",
		&Two(kern_segs[5].0.proof(), &RawBytes(vec![])),
	);
	b.add(
		D_SEGPROOF,
		0,
		u32::MAX,
		true,
		"empty-ish proof",
		&Two(kern_segs[0].0.proof(), &RawBytes(vec![])),
	);
	for (h, idx) in [(0u8, 0u64), (3, 2), (9, 1_000_000), (13, 5)] {
		let id = SegmentIdentifier { height: h, idx };
		b.add(D_SEGID, 0, u32::MAX, true, &format!("h={} idx={}", h, idx), &id);
		let rq = SegmentRequest {
			block_hash: rnd_hash(&mut p),
			identifier: id,
		};
		b.add(D_SEGREQ, 0, u32::MAX, true, &format!("h={} idx={}", h, idx), &rq);
	}

	// ---- bitmap segments
	let mut bitmap_seeds: Vec<(BitmapSegment, u32, String)> = vec![];
	let bshapes: [(u64, u8, u64); 7] = [
		(1, 0, 0),
		(5, 1, 1),
		(5, 2, 1),
		(20, 2, 2),
		(20, 4, 1),
		(20, 3, 0),
		(70, 6, 0),
	];
	for n in [1u64, 5, 20, 70] {
		let bits = n * 1024 - 100;
		let idx: Vec<u64> = (0..bits)
			.filter(|i| {
				let c = i / 1024;
				match c % 3 {
					0 => i % 97 == 0,
					1 => i % 89 != 0,
					_ => i % 2 == 0,
				}
			})
			.collect();
		let mut acc = BitmapAccumulator::new();
		acc.init(idx.into_iter(), bits).expect("bitmap init");
		let ro = acc.readonly_pmmr();
		let size = ro.unpruned_size();
		let root = acc.root();
		let other = rnd_hash(&mut p);
		let hash_last_pos = pmmr::insertion_to_pmmr_index(bits);
		let final_root = (other, root).hash_with_index(hash_last_pos);
		let fx = b.fixture(Fixture {
			kind: FX_BITMAP,
			n_leaves: pmmr::n_leaves(size),
			size,
			root,
			other,
			final_root,
			hash_last_pos,
		});
		for (sn, h, i) in bshapes.iter() {
			if *sn != n {
				continue;
			}
			let id = SegmentIdentifier {
				height: *h,
				idx: *i,
			};
			if let Ok(seg) = Segment::from_pmmr(id, &ro, false) {
				let label = format!("chunks={} h={} idx={}", n, h, i);
				b.add(D_SEG_CHUNK, 0, fx, true, &label, &ChunkSegEnc(seg.clone()));
				let bs = BitmapSegment::from(seg);
				b.add(D_BITMAPSEG, 0, fx, true, &label, &bs);
				bitmap_seeds.push((bs, fx, label));
			}
		}
	}
	for (i, (bs, fx, label)) in bitmap_seeds.iter().enumerate() {
		if i % 2 == 1 {
			let r = OutputBitmapSegmentResponse {
				block_hash: rnd_hash(&mut p),
				segment: bs.clone(),
				output_root: rnd_hash(&mut p),
			};
			b.add(D_BITMAPSEGRESP, 0, *fx, true, label, &r);
		}
	}

	// ---- message headers
	for net in [0u8, 1] {
		for (ty, len) in [(3u8, 16u64), (11, 5000), (9, 2 + 365 * 3), (200, 10), (24, 100_000)] {
			let label = format!("type={} len={}", ty, len);
			b.add(
				D_MSGHEADER,
				net,
				u32::MAX,
				!(net == 0 && ty == 24),
				&label,
				&Framed {
					net,
					ty,
					body: &RawBytes(vec![]),
				}
				.with_len(len),
			);
		}
	}

	// ---- codec (socket) seeds: one framed message per type
	{
		let c = D_CODEC;
		let x = u32::MAX;
		b.framed(c, 0, x, true, "Ping", Type::Ping as u8, &ping);
		b.framed(c, 1, x, true, "Ping (mainnet)", Type::Ping as u8, &ping);
		b.framed(c, 0, x, true, "Pong", Type::Pong as u8, &pong);
		b.framed(c, 0, x, true, "BanReason", Type::BanReason as u8, &ban);
		b.framed(c, 0, x, true, "TransactionKernel", Type::TransactionKernel as u8, &some_hash);
		b.framed(c, 0, x, true, "GetTransaction", Type::GetTransaction as u8, &some_hash);
		b.framed(c, 0, x, true, "Transaction", Type::Transaction as u8, &tx1);
		b.framed(c, 0, x, true, "StemTransaction", Type::StemTransaction as u8, &tx2);
		b.framed(c, 1, x, true, "Transaction agg (mainnet)", Type::Transaction as u8, &agg);
		b.framed(c, 0, x, true, "GetBlock", Type::GetBlock as u8, &some_hash);
		b.framed(c, 0, x, true, "Block small", Type::Block as u8, &blk_small);
		b.framed(c, 0, x, true, "Block medium", Type::Block as u8, &blk_med);
		b.framed(c, 1, x, false, "Block (mainnet)", Type::Block as u8, &mn_block);
		b.framed(c, 0, x, true, "GetCompactBlock", Type::GetCompactBlock as u8, &some_hash);
		b.framed(c, 0, x, true, "CompactBlock", Type::CompactBlock as u8, &cb_med);
		b.framed(c, 1, x, false, "CompactBlock (mainnet)", Type::CompactBlock as u8, &mn_cb);
		b.framed(c, 0, x, true, "GetHeaders", Type::GetHeaders as u8, &loc20);
		b.framed(c, 0, x, true, "Header", Type::Header as u8, &blk_med.header);
		b.framed(c, 1, x, false, "Header (mainnet)", Type::Header as u8, &mainnet_headers[4]);
		let hs3 = Headers {
			headers: chain_headers[0..3].to_vec(),
		};
		let hs35 = Headers {
			headers: chain_headers.clone(),
		};
		let hs_mn = Headers {
			headers: mainnet_headers[0..3].to_vec(),
		};
		b.framed(c, 0, x, true, "Headers x3", Type::Headers as u8, &hs3);
		b.framed(c, 0, x, true, "Headers x35", Type::Headers as u8, &hs35);
		b.framed(c, 1, x, false, "Headers x3 (mainnet)", Type::Headers as u8, &hs_mn);
		b.framed(c, 0, x, true, "GetPeerAddrs", Type::GetPeerAddrs as u8, &gpa);
		b.framed(c, 0, x, true, "PeerAddrs", Type::PeerAddrs as u8, &pa3);
		b.framed(c, 0, x, true, "TxHashSetRequest", Type::TxHashSetRequest as u8, &thr);
		b.framed(c, 0, x, true, "TxHashSetArchive", Type::TxHashSetArchive as u8, &tha);
		let rq = SegmentRequest {
			block_hash: some_hash,
			identifier: SegmentIdentifier { height: 9, idx: 3 },
		};
		for t in [
			Type::GetOutputBitmapSegment,
			Type::GetOutputSegment,
			Type::GetRangeProofSegment,
			Type::GetKernelSegment,
		] {
			b.framed(c, 0, x, true, &format!("{:?}", t), t as u8, &rq);
		}
		let (bs, bfx, _) = &bitmap_seeds[2];
		b.framed(
			c,
			0,
			*bfx,
			true,
			"OutputBitmapSegment",
			Type::OutputBitmapSegment as u8,
			&OutputBitmapSegmentResponse {
				block_hash: some_hash,
				segment: bs.clone(),
				output_root: rnd_hash(&mut p),
			},
		);
		let (os, ofx, _) = &out_segs[2];
		b.framed(
			c,
			0,
			*ofx,
			true,
			"OutputSegment",
			Type::OutputSegment as u8,
			&OutputSegmentResponse {
				response: SegmentResponse {
					block_hash: some_hash,
					segment: os.clone(),
				},
				output_bitmap_root: rnd_hash(&mut p),
			},
		);
		let (os, ofx, _) = &out_segs[6];
		b.framed(
			c,
			1,
			*ofx,
			true,
			"OutputSegment (mainnet)",
			Type::OutputSegment as u8,
			&OutputSegmentResponse {
				response: SegmentResponse {
					block_hash: some_hash,
					segment: os.clone(),
				},
				output_bitmap_root: rnd_hash(&mut p),
			},
		);
		let (rs, rfx, _) = &rp_segs[1];
		b.framed(
			c,
			0,
			*rfx,
			true,
			"RangeProofSegment",
			Type::RangeProofSegment as u8,
			&SegmentResponse {
				block_hash: some_hash,
				segment: rs.clone(),
			},
		);
		let (ks, kfx, _) = &kern_segs[3];
		b.framed(
			c,
			0,
			*kfx,
			true,
			"KernelSegment",
			Type::KernelSegment as u8,
			&SegmentResponse {
				block_hash: some_hash,
				segment: ks.clone(),
			},
		);
		// types the codec must refuse, an unknown type, and two messages back to back
		b.framed(c, 0, x, false, "Hand (unexpected)", Type::Hand as u8, &hand);
		b.framed(c, 0, x, false, "Shake (unexpected)", Type::Shake as u8, &shake);
		b.framed(c, 0, x, false, "Error (unexpected)", Type::Error as u8, &RawBytes(vec![]));
		b.framed(c, 0, x, true, "unknown type 200", 200, &RawBytes(vec![1, 2, 3, 4, 5]));
		b.add(
			c,
			0,
			x,
			true,
			"Ping+Pong",
			&Two(
				&Framed {
					net: 0,
					ty: Type::Ping as u8,
					body: &ping,
				},
				&Framed {
					net: 0,
					ty: Type::Pong as u8,
					body: &pong,
				},
			),
		);
	}

	Corpus {
		seeds: b.seeds,
		fixtures: b.fixtures,
	}
}

/// A bare message header announcing `len` bytes.
struct HeaderOnly {
	net: u8,
	ty: u8,
	len: u64,
}
impl Writeable for HeaderOnly {
	fn write<W: Writer>(&self, w: &mut W) -> Result<(), ser::Error> {
		let m = magic_for(self.net);
		w.write_u8(m[0])?;
		w.write_u8(m[1])?;
		w.write_u8(self.ty)?;
		w.write_u64(self.len)
	}
}
impl<'a, W: Writeable> Framed<'a, W> {
	fn with_len(&self, len: u64) -> HeaderOnly {
		HeaderOnly {
			net: self.net,
			ty: self.ty,
			len,
		}
	}
}

// ------------------------------------------------------------------ case space

#[derive(Clone, Copy, PartialEq, Eq, Debug)]
enum Class {
	Honest = 0,
	Field = 1,
	Tag = 2,
	Trunc = 3,
	Splice = 4,
	Bitflip = 5,
	Havoc = 6,
	Random = 7,
	Fill = 8,
}
const CLASS_NAMES: [&str; 9] = [
	"honest", "field", "tag", "trunc", "splice", "bitflip", "havoc", "random", "fill",
];

struct Group {
	seed: u32,
	dec: u16,
	ver: u32,
	net: u8,
	class: Class,
	start: u64,
	count: u64,
	/// Field/Tag: (field index, number of values); Trunc: (offset, 1)
	items: Vec<(u32, u32)>,
}

struct Space {
	groups: Vec<Group>,
	total: u64,
}

struct Budget {
	splice: u64,
	bitflip: u64,
	havoc: u64,
	random: u64,
}

fn budget(tier: Tier) -> Budget {
	match tier {
		Tier::Quick => Budget {
			splice: 48,
			bitflip: 64,
			havoc: 96,
			random: 384,
		},
		Tier::Thorough => Budget {
			splice: 600,
			bitflip: 900,
			havoc: 1500,
			random: 4000,
		},
	}
}

const FILL_VALS: [u8; 4] = [0x00, 0xff, 0x01, 0x80];
const FILL_LENS: [usize; 49] = [
	0, 1, 2, 3, 4, 5, 6, 7, 8, 9, 10, 11, 12, 13, 14, 15, 16, 17, 18, 19, 20, 21, 22, 23, 24, 25, 26,
	27, 28, 29, 30, 31, 32, 33, 40, 48, 64, 65, 100, 128, 255, 256, 257, 512, 1024, 2048, 4095,
	4096, 3000,
];

const MAGIC_VALUES: [u64; 16] = [
	255, 256, 675, 676, 1023, 1024, 1025, 65535, 65537, 100_000, 100_001, 1_000_000, 1_000_001,
	40_000, 250, 21,
];

fn width_max(width: u8) -> u64 {
	if width >= 8 {
		u64::MAX
	} else {
		(1u64 << (8 * width as u32)) - 1
	}
}

/// Values an integer field of `width` bytes (current value `actual`) is set to.
fn field_values(width: u8, actual: u64) -> Vec<u64> {
	let bits = 8 * width as u32;
	let max = width_max(width);
	let mut v: Vec<u64> = vec![
		0,
		1,
		actual.wrapping_sub(1) & max,
		actual.wrapping_add(1) & max,
		max,
		max - 1,
	];
	for k in 1..bits {
		v.push(1u64 << k);
	}
	for k in 2..bits {
		v.push((1u64 << k) - 1);
	}
	for k in [8u32, 16, 32, 59, 63] {
		if k < bits {
			v.push((1u64 << k) + 1);
		}
	}
	for m in MAGIC_VALUES.iter() {
		if *m <= max {
			v.push(*m);
		}
	}
	if width == 8 {
		// the ends of the calendar the header timestamp is decoded into (and a day / an hour / a second inside
		// and outside of them): arithmetic on a decoded time may leave the representable range
		let lo = chrono::NaiveDate::MIN.and_hms_opt(0, 0, 0).unwrap().and_utc().timestamp();
		let hi = chrono::NaiveDate::MAX.and_hms_opt(0, 0, 0).unwrap().and_utc().timestamp();
		for b in [lo, hi] {
			for d in [-86_400i64, -3_600, -1, 0, 1, 3_600, 86_399, 86_400] {
				v.push(b.wrapping_add(d) as u64);
			}
		}
	}
	let mut seen = HashSet::new();
	v.retain(|x| *x != actual && seen.insert(*x));
	v
}

fn read_be(bytes: &[u8], off: usize, width: usize) -> u64 {
	let mut x = 0u64;
	for i in 0..width {
		x = (x << 8) | *bytes.get(off + i).unwrap_or(&0) as u64;
	}
	x
}

fn write_be(bytes: &mut [u8], off: usize, width: usize, v: u64) {
	for i in 0..width {
		if off + i < bytes.len() {
			bytes[off + i] = (v >> (8 * (width - 1 - i))) as u8;
		}
	}
}

fn pick_spread(idx: Vec<usize>, max: usize) -> Vec<usize> {
	if idx.len() <= max {
		return idx;
	}
	let head = max / 2;
	let tail = max / 5;
	let mid = max - head - tail;
	let mut out: Vec<usize> = idx[..head].to_vec();
	let m = &idx[head..idx.len() - tail];
	for i in 0..mid {
		out.push(m[i * m.len() / mid]);
	}
	out.extend_from_slice(&idx[idx.len() - tail..]);
	out
}

/// (max integer fields, max tag bytes, max truncation offsets) enumerated per seed
fn caps(dec: usize, tier: Tier) -> (usize, usize, usize) {
	match (dec == D_CODEC, tier) {
		(true, Tier::Quick) => (12, 5, 96),
		(false, Tier::Quick) => (64, 16, 1024),
		(true, Tier::Thorough) => (24, 8, 192),
		(false, Tier::Thorough) => (128, 32, 2048),
	}
}

fn build_space(corpus: &Corpus, tier: Tier) -> Space {
	let bud = budget(tier);
	let mut groups: Vec<Group> = vec![];
	let mut start = 0u64;
	let mut push = |groups: &mut Vec<Group>,
	                seed: u32,
	                dec: u16,
	                ver: u32,
	                net: u8,
	                class: Class,
	                count: u64,
	                items: Vec<(u32, u32)>| {
		if count == 0 {
			return;
		}
		groups.push(Group {
			seed,
			dec,
			ver,
			net,
			class,
			start,
			count,
			items,
		});
		start += count;
	};
	for (si, s) in corpus.seeds.iter().enumerate() {
		let si = si as u32;
		let (max_int, max_tag, max_trunc) = caps(s.dec as usize, tier);
		push(&mut groups, si, s.dec, s.ver, s.net, Class::Honest, 1, vec![]);
		if s.enumerate {
			let ints: Vec<usize> = (0..s.fields.len())
				.filter(|i| s.fields[*i].kind >= 2)
				.collect();
			let items: Vec<(u32, u32)> = pick_spread(ints, max_int)
				.into_iter()
				.map(|i| {
					let f = s.fields[i];
					let actual = read_be(&s.bytes, f.off as usize, f.kind as usize);
					(i as u32, field_values(f.kind, actual).len() as u32)
				})
				.collect();
			let count = items.iter().map(|x| x.1 as u64).sum();
			push(&mut groups, si, s.dec, s.ver, s.net, Class::Field, count, items);

			let tags: Vec<usize> = (0..s.fields.len())
				.filter(|i| s.fields[*i].kind == 1 || (s.fields[*i].kind == 0 && s.fields[*i].len == 1))
				.collect();
			let items: Vec<(u32, u32)> = pick_spread(tags, max_tag)
				.into_iter()
				.map(|i| (i as u32, 256))
				.collect();
			let count = items.iter().map(|x| x.1 as u64).sum();
			push(&mut groups, si, s.dec, s.ver, s.net, Class::Tag, count, items);

			let offs: Vec<usize> = (0..s.bytes.len()).collect();
			let items: Vec<(u32, u32)> = pick_spread(offs, max_trunc)
				.into_iter()
				.map(|o| (o as u32, 1))
				.collect();
			let count = items.len() as u64;
			push(&mut groups, si, s.dec, s.ver, s.net, Class::Trunc, count, items);
		}
		push(&mut groups, si, s.dec, s.ver, s.net, Class::Splice, bud.splice, vec![]);
		push(&mut groups, si, s.dec, s.ver, s.net, Class::Bitflip, bud.bitflip, vec![]);
		push(&mut groups, si, s.dec, s.ver, s.net, Class::Havoc, bud.havoc, vec![]);
	}
	for dec in 0..NDEC {
		for ver in VERSIONS.iter() {
			let nets: &[u8] = if both_nets(dec) { &[0, 1] } else { &[0] };
			for net in nets {
				push(
					&mut groups,
					u32::MAX,
					dec as u16,
					*ver,
					*net,
					Class::Random,
					bud.random,
					vec![],
				);
				push(
					&mut groups,
					u32::MAX,
					dec as u16,
					*ver,
					*net,
					Class::Fill,
					(FILL_VALS.len() * FILL_LENS.len()) as u64,
					vec![],
				);
			}
		}
	}
	Space {
		groups,
		total: start,
	}
}

struct Case {
	id: u64,
	dec: usize,
	ver: u32,
	net: u8,
	class: Class,
	seed: u32,
	aux: u32,
	bytes: Vec<u8>,
	desc: String,
}

fn case_prng(run_seed: u64, id: u64) -> Prng {
	let mut x = id ^ 0xC11C_A5E0;
	let h = splitmix64(&mut x);
	Prng::new(run_seed.wrapping_mul(0x2545_F491_4F6C_DD1D) ^ h)
}

fn field_at<'a>(s: &'a Seed, p: &mut Prng) -> Option<&'a Field> {
	if s.fields.is_empty() {
		None
	} else {
		Some(&s.fields[p.usize_below(s.fields.len())])
	}
}

/// Replace / insert / overwrite a run of fields of `s` with a run of fields of another seed.
fn op_splice(bytes: &mut Vec<u8>, s: &Seed, corpus: &Corpus, p: &mut Prng) -> String {
	let donor = &corpus.seeds[p.usize_below(corpus.seeds.len())];
	if donor.fields.is_empty() || donor.bytes.is_empty() {
		return "splice(noop)".into();
	}
	let i = p.usize_below(donor.fields.len());
	let j = (i + 1 + p.usize_below(3)).min(donor.fields.len());
	let a = donor.fields[i].off as usize;
	let e = (donor.fields[j - 1].off + donor.fields[j - 1].len) as usize;
	let chunk = &donor.bytes[a..e.min(a + 2048).min(donor.bytes.len())];
	let (toff, tlen) = match field_at(s, p) {
		Some(f) => (f.off as usize, f.len as usize),
		None => (p.usize_below(bytes.len() + 1), 0),
	};
	let toff = toff.min(bytes.len());
	let mode = p.below(3);
	match mode {
		0 => {
			let end = (toff + tlen).min(bytes.len());
			bytes.splice(toff..end, chunk.iter().cloned());
		}
		1 => {
			bytes.splice(toff..toff, chunk.iter().cloned());
		}
		_ => {
			for (k, c) in chunk.iter().enumerate() {
				if toff + k < bytes.len() {
					bytes[toff + k] = *c;
				}
			}
		}
	}
	format!(
		"splice(mode={} at={} donor={}/{}@v{} fields {}..{} len={})",
		mode,
		toff,
		DECODERS[donor.dec as usize],
		donor.label,
		donor.ver,
		i,
		j,
		chunk.len()
	)
}

fn op_bitflip(bytes: &mut Vec<u8>, s: &Seed, p: &mut Prng) -> String {
	if bytes.is_empty() {
		return "bitflip(noop)".into();
	}
	let pos = if p.bool() {
		// inside an integer field if there is one
		let ints: Vec<&Field> = s.fields.iter().filter(|f| f.kind >= 1).collect();
		if ints.is_empty() {
			p.usize_below(bytes.len())
		} else {
			let f = ints[p.usize_below(ints.len())];
			(f.off as usize + p.usize_below(f.len.max(1) as usize)).min(bytes.len() - 1)
		}
	} else {
		p.usize_below(bytes.len())
	};
	let bit = p.below(8);
	bytes[pos] ^= 1 << bit;
	format!("flip({}.{})", pos, bit)
}

fn op_havoc(bytes: &mut Vec<u8>, s: &Seed, corpus: &Corpus, p: &mut Prng) -> String {
	match p.below(9) {
		0 => op_bitflip(bytes, s, p),
		1 => {
			let ints: Vec<&Field> = s.fields.iter().filter(|f| f.kind >= 2).collect();
			if ints.is_empty() {
				return op_bitflip(bytes, s, p);
			}
			let f = ints[p.usize_below(ints.len())];
			let v = p.interesting_u64() & width_max(f.kind);
			write_be(bytes, f.off as usize, f.kind as usize, v);
			format!("int@{}={}", f.off, v)
		}
		2 => {
			if bytes.is_empty() {
				return "del(noop)".into();
			}
			let a = p.usize_below(bytes.len());
			let n = (1 + p.usize_below(64)).min(bytes.len() - a);
			bytes.drain(a..a + n);
			format!("del({}+{})", a, n)
		}
		3 => {
			if bytes.is_empty() {
				return "dup(noop)".into();
			}
			let (a, n) = match field_at(s, p) {
				Some(f) => (f.off as usize, f.len as usize),
				None => (p.usize_below(bytes.len()), 8),
			};
			let a = a.min(bytes.len());
			let e = (a + n).min(bytes.len());
			let chunk: Vec<u8> = bytes[a..e].to_vec();
			bytes.splice(e..e, chunk.into_iter());
			format!("dup({}+{})", a, e - a)
		}
		4 => {
			let a = p.usize_below(bytes.len() + 1);
			let n = 1 + p.usize_below(32);
			let r = p.bytes(n);
			bytes.splice(a..a, r.into_iter());
			format!("ins({}+{})", a, n)
		}
		5 => {
			let a = p.usize_below(bytes.len() + 1);
			bytes.truncate(a);
			format!("trunc({})", a)
		}
		6 => op_splice(bytes, s, corpus, p),
		7 => {
			if bytes.is_empty() {
				return "set(noop)".into();
			}
			let a = p.usize_below(bytes.len());
			let n = (1 + p.usize_below(16)).min(bytes.len() - a);
			let v = if p.bool() { 0xff } else { 0x00 };
			for b in bytes[a..a + n].iter_mut() {
				*b = v;
			}
			format!("set({}+{}={:#x})", a, n, v)
		}
		_ => {
			if s.fields.len() < 2 {
				return op_bitflip(bytes, s, p);
			}
			let f1 = s.fields[p.usize_below(s.fields.len())];
			let f2 = s.fields[p.usize_below(s.fields.len())];
			let n = f1.len.min(f2.len) as usize;
			for k in 0..n {
				let (a, b) = (f1.off as usize + k, f2.off as usize + k);
				if a < bytes.len() && b < bytes.len() {
					bytes.swap(a, b);
				}
			}
			format!("swap({},{}x{})", f1.off, f2.off, n)
		}
	}
}

/// Give seedless bytes a valid frame prefix so that they get past the magic check.
fn frame_fix(bytes: &mut Vec<u8>, dec: usize, net: u8, p: &mut Prng) {
	let m = magic_for(net);
	if bytes.len() >= 2 {
		bytes[0] = m[0];
		bytes[1] = m[1];
	}
	if bytes.len() >= 3 {
		bytes[2] = match dec {
			D_HANDMSG => {
				if p.below(8) == 0 {
					p.below(32) as u8
				} else {
					1
				}
			}
			D_SHAKEMSG => {
				if p.below(8) == 0 {
					p.below(32) as u8
				} else {
					2
				}
			}
			_ => {
				if p.below(4) == 0 {
					bytes[2]
				} else {
					p.below(30) as u8
				}
			}
		};
	}
	if bytes.len() >= 11 {
		let rest = (bytes.len() - 11) as u64;
		let l = match p.below(4) {
			0 => rest,
			1 => p.below(2 * rest + 2),
			2 => p.below(1 << 16),
			_ => read_be(bytes, 3, 8),
		};
		write_be(bytes, 3, 8, l);
	}
}

fn default_fixture(corpus: &Corpus, dec: usize, pick: u64) -> u32 {
	match fx_kind(dec) {
		None => u32::MAX,
		Some(k) => {
			let c: Vec<usize> = (0..corpus.fixtures.len())
				.filter(|i| corpus.fixtures[*i].kind == k)
				.collect();
			if c.is_empty() {
				u32::MAX
			} else {
				c[(pick % c.len() as u64) as usize] as u32
			}
		}
	}
}

fn make_case(corpus: &Corpus, space: &Space, run_seed: u64, id: u64) -> Case {
	let gi = match space.groups.binary_search_by(|g| {
		if id < g.start {
			std::cmp::Ordering::Greater
		} else if id >= g.start + g.count {
			std::cmp::Ordering::Less
		} else {
			std::cmp::Ordering::Equal
		}
	}) {
		Ok(i) => i,
		Err(_) => panic!("case id {} outside the case space", id),
	};
	let g = &space.groups[gi];
	let p = id - g.start;
	let mut prng = case_prng(run_seed, id);
	let dec = g.dec as usize;
	let mut c = Case {
		id,
		dec,
		ver: g.ver,
		net: g.net,
		class: g.class,
		seed: g.seed,
		aux: u32::MAX,
		bytes: vec![],
		desc: String::new(),
	};
	if g.seed != u32::MAX {
		let s = &corpus.seeds[g.seed as usize];
		c.aux = s.aux;
		c.bytes = s.bytes.clone();
		let head = format!("seed[{}]", s.label);
		let d = match g.class {
			Class::Honest => "honest".to_string(),
			Class::Field | Class::Tag => {
				let mut k = p;
				let mut out = String::new();
				for (fi, n) in g.items.iter() {
					if k < *n as u64 {
						let f = s.fields[*fi as usize];
						if g.class == Class::Tag {
							c.bytes[f.off as usize] = k as u8;
							out = format!("byte@{}: {:#04x} -> {:#04x}", f.off, s.bytes[f.off as usize], k);
						} else {
							let actual = read_be(&s.bytes, f.off as usize, f.kind as usize);
							let v = field_values(f.kind, actual)[k as usize];
							write_be(&mut c.bytes, f.off as usize, f.kind as usize, v);
							out = format!("u{}@{}: {} -> {}", 8 * f.kind as u32, f.off, actual, v);
						}
						break;
					}
					k -= *n as u64;
				}
				out
			}
			Class::Trunc => {
				let off = g.items[p as usize].0 as usize;
				c.bytes.truncate(off);
				format!("truncated to {} of {}", off, s.bytes.len())
			}
			Class::Splice => op_splice(&mut c.bytes, s, corpus, &mut prng),
			Class::Bitflip => {
				let n = 1 + prng.below(4);
				let mut v = vec![];
				for _ in 0..n {
					v.push(op_bitflip(&mut c.bytes, s, &mut prng));
				}
				v.join(",")
			}
			Class::Havoc => {
				let n = 2 + prng.below(5);
				let mut v = vec![];
				for _ in 0..n {
					v.push(op_havoc(&mut c.bytes, s, corpus, &mut prng));
				}
				v.join(",")
			}
			_ => unreachable!(),
		};
		c.desc = format!("{} {}", head, d);
	} else {
		c.aux = default_fixture(corpus, dec, p);
		match g.class {
			Class::Random => {
				let len = if p < 48 {
					p as usize
				} else {
					prng.usize_below(4097)
				};
				let style = prng.below(4);
				let mut b = prng.bytes(len);
				match style {
					0 | 1 => {}
					2 => {
						// small values: counts and tags tend to be plausible
						for x in b.iter_mut() {
							*x = match *x % 8 {
								0 => 1,
								1 => 2,
								2 => 0xff,
								3 => *x % 16,
								_ => 0,
							};
						}
					}
					_ => {
						// mostly zero with a few random bytes
						let keep = prng.below(8) + 1;
						let r = b.clone();
						for x in b.iter_mut() {
							*x = 0;
						}
						for _ in 0..keep {
							if !b.is_empty() {
								let i = prng.usize_below(b.len());
								b[i] = r[i];
							}
						}
					}
				}
				c.bytes = b;
				if is_framed(dec) && p % 4 != 0 {
					frame_fix(&mut c.bytes, dec, g.net, &mut prng);
				}
				if dec == D_MERKLE_HEXSTR && p % 2 == 1 {
					// printable hex-ish text
					const CH: &[u8] = b"0123456789abcdefABCDEFgxz -";
					for x in c.bytes.iter_mut() {
						*x = CH[(*x as usize) % CH.len()];
					}
				}
				c.desc = format!("random len={} style={}", len, style);
			}
			Class::Fill => {
				let val = FILL_VALS[(p as usize) / FILL_LENS.len()];
				let len = FILL_LENS[(p as usize) % FILL_LENS.len()];
				c.bytes = vec![val; len];
				if is_framed(dec) && val != 0x00 {
					frame_fix(&mut c.bytes, dec, g.net, &mut prng);
				}
				if dec == D_MERKLE_HEXSTR {
					let ch = [b'0', b'f', b'z', b'F'][(p as usize) / FILL_LENS.len()];
					c.bytes = vec![ch; len];
				}
				c.desc = format!("fill {:#04x} x {}", val, len);
			}
			_ => unreachable!(),
		}
	}
	c
}

// ------------------------------------------------------------------ monitors

struct Finding {
	ctx: String,
	sig: String,
	event: &'static str,
	stage: &'static str,
	msg: String,
	loc: String,
	max_single: u64,
	peak: u64,
}

struct StageResult {
	stage: &'static str,
	decode: bool,
	/// "ok", "err:<kind>", "viol:<event>"
	outcome: String,
}

struct Mon {
	id: u64,
	dec: usize,
	len: u64,
	code_decode: u64,
	code_post: u64,
	results: Vec<StageResult>,
	findings: Vec<Finding>,
	harness_errors: Vec<String>,
	max_single: u64,
	max_peak: u64,
	prng: Prng,
	/// arguments of the post-decode stage being run (for reproducers)
	ctx: String,
}

fn norm_loc(loc: &str) -> (String, bool) {
	// returns (normalised location, inside the code under test)
	if let Some(i) = loc.find("/repo/") {
		return (loc[i + 6..].to_string(), true);
	}
	if let Some(i) = loc.find("/library/") {
		return (format!("std:{}", &loc[i + 1..]), false);
	}
	if let Some(i) = loc.find("/registry/src/") {
		let rest = &loc[i + 14..];
		let rest = rest.splitn(2, '/').nth(1).unwrap_or(rest);
		return (format!("dep:{}", rest), false);
	}
	(loc.to_string(), false)
}

fn ek<E: std::fmt::Debug>(e: E) -> String {
	let s = format!("{:?}", e);
	let mut end = s.len();
	for (i, ch) in s.char_indices() {
		if ch == '"' || ch == '{' || ch == '[' || i >= 48 {
			end = i;
			break;
		}
	}
	ascii(s[..end].trim_end_matches(|c: char| c == '(' || c == ' ' || c == ','))
}

fn stage_key(id: u64, code: u64) -> u64 {
	(id << 8) | code.min(255)
}

impl Mon {
	fn new(id: u64, dec: usize, len: u64, prng: Prng) -> Mon {
		Mon {
			id,
			dec,
			len,
			code_decode: 0,
			code_post: 16,
			results: vec![],
			findings: vec![],
			harness_errors: vec![],
			max_single: 0,
			max_peak: 0,
			prng,
			ctx: String::new(),
		}
	}

	/// Run one monitored stage: watchdog + allocation tracking + panic capture.
	fn stage<T>(
		&mut self,
		name: &'static str,
		decode: bool,
		f: impl FnOnce() -> Result<T, String>,
	) -> Option<T> {
		let code = if decode {
			let c = self.code_decode.min(15);
			self.code_decode += 1;
			c
		} else {
			let c = self.code_post.min(255);
			self.code_post += 1;
			c
		};
		let key = stage_key(self.id, code);
		watchdog_enter(key);
		let (res, st) = track_alloc(key, || catch(f));
		watchdog_leave();
		let coarse = if decode { "decode" } else { "post" };
		self.max_single = self.max_single.max(st.max_single as u64);
		self.max_peak = self.max_peak.max(st.peak_live as u64);
		let mut outcome;
		let mut value = None;
		match res {
			Err(pr) => {
				let (loc, in_repo) = norm_loc(&pr.location);
				if pr.location.contains("c11.rs") || pr.location.contains("vcommon") {
					self.harness_errors
						.push(format!("harness panic in stage {}: {} @ {}", name, ascii(&pr.message), loc));
					outcome = "err:harness-panic".into();
				} else {
					let sig = if in_repo {
						format!("event=panic@{}", loc)
					} else {
						format!(
							"event=panic@{};decoder={};stage={}",
							loc, sig_dec(self.dec), coarse
						)
					};
					self.findings.push(Finding {
						ctx: if decode { String::new() } else { self.ctx.clone() },
						sig,
						event: "panic",
						stage: name,
						msg: ascii(&pr.message).chars().take(200).collect(),
						loc,
						max_single: st.max_single as u64,
						peak: st.peak_live as u64,
					});
					outcome = "viol:panic".into();
				}
			}
			Ok(r) => {
				match r {
					Ok(v) => {
						outcome = "ok".into();
						value = Some(v);
					}
					Err(k) => {
						outcome = format!("err:{}", k);
					}
				}
			}
		}
		if st.max_single as u64 > single_budget(self.len) || st.peak_live as u64 > peak_budget(self.len)
		{
			self.findings.push(Finding {
				ctx: if decode { String::new() } else { self.ctx.clone() },
				sig: format!("event=over-alloc;decoder={};stage={}", sig_dec(self.dec), coarse),
				event: "over-alloc",
				stage: name,
				msg: format!(
					"max single request {} (budget {}), peak live {} (budget {}) for input budget length {}",
					st.max_single,
					single_budget(self.len),
					st.peak_live,
					peak_budget(self.len),
					self.len
				),
				loc: String::new(),
				max_single: st.max_single as u64,
				peak: st.peak_live as u64,
			});
			if !outcome.starts_with("viol") {
				outcome = "viol:over-alloc".into();
			}
		}
		self.results.push(StageResult {
			stage: name,
			decode,
			outcome,
		});
		value
	}
}

// ------------------------------------------------------------------ decoders and post-decode checks

fn dec_buf<T: Readable>(b: &[u8], v: u32) -> Result<T, String> {
	let mut s: &[u8] = b;
	let mut r = BufReader::new(&mut s, ProtocolVersion(v));
	r.body::<T>().map_err(ek)
}

fn dec_bin<T: Readable>(b: &[u8], v: u32) -> Result<T, String> {
	let mut s: &[u8] = b;
	ser::deserialize::<T, _>(&mut s, ProtocolVersion(v), DeserializationMode::default()).map_err(ek)
}

macro_rules! both {
	($m:expr, $t:ty, $b:expr, $v:expr, $post:expr) => {{
		if let Some(x) = $m.stage("decode/BufReader", true, || dec_buf::<$t>($b, $v)) {
			$post(&mut *$m, x);
		}
		if let Some(x) = $m.stage("decode/BinReader", true, || dec_bin::<$t>($b, $v)) {
			$post(&mut *$m, x);
		}
	}};
}

struct WCtx {
	corpus: Corpus,
	space: Space,
	run_seed: u64,
	listener: TcpListener,
	addr: SocketAddr,
	kern_mmr: (VecBackend<TxKernel>, u64),
	out_mmr: (VecBackend<OutputIdentifier>, u64),
}

/// Own table of the protocol's per-type body limits (bytes, before the x4 slack), written
/// from the protocol definition; used only to compute the allocation budget of framed input.
fn my_limit(ty: u8) -> u64 {
	let mbs = global::max_block_weight() / 21 * 708;
	let base = match ty {
		0 => 0,
		1 => 128,
		2 => 88,
		3 | 4 => 16,
		5 => 4,
		6 => 4 + 19 * 256,
		7 => 1 + 32 * 20,
		8 => 365,
		9 => 2 + 365 * 512,
		10 | 12 | 19 | 20 => 32,
		11 | 14 | 15 => mbs,
		13 => mbs / 10,
		16 => 40,
		17 | 18 => 64,
		21 | 23 | 25 | 27 => 41,
		22 | 24 | 26 | 28 => 2 * mbs,
		_ => mbs,
	};
	4 * base
}

/// Largest within-limit announced body length of the frames the codec would walk.
fn announced_len(data: &[u8], net: u8) -> u64 {
	let m = magic_for(net);
	let mut o = 0usize;
	let mut best = 0u64;
	let mut n = 0;
	while o + 11 <= data.len() && n < 128 {
		if data[o] != m[0] || data[o + 1] != m[1] {
			break;
		}
		let l = read_be(data, o + 3, 8);
		if l > my_limit(data[o + 2]) {
			break;
		}
		best = best.max(l);
		match (o + 11).checked_add(l as usize) {
			Some(x) if x <= data.len() => o = x,
			_ => break,
		}
		n += 1;
	}
	best
}

fn make_bitmap(p: &mut Prng, n_leaves: u64) -> (croaring::Bitmap, String) {
	let n = n_leaves.min(5000) as u32;
	let mut b = croaring::Bitmap::new();
	let pat = p.below(7);
	match pat {
		0 => {
			for i in 0..n {
				b.add(i);
			}
		}
		1 => {}
		2 => {
			for i in (0..n).step_by(2) {
				b.add(i);
			}
		}
		3 => {
			for i in (1..n).step_by(2) {
				b.add(i);
			}
		}
		4 => {
			b.add(0);
		}
		5 => {
			if n > 0 {
				b.add(n - 1);
			}
		}
		_ => {
			for i in 0..n {
				if p.below(3) == 0 {
					b.add(i);
				}
			}
		}
	}
	let d = format!(
		"{} over {} leaves ({} set)",
		["all", "none", "even", "odd", "first", "last", "random"][pat as usize],
		n,
		b.cardinality()
	);
	(b, d)
}

fn seg_err(e: grin_core::core::SegmentError) -> String {
	ek(e)
}

/// The stateless checks a received segment goes through before it is cached by the
/// desegmenter: `root` / `first_unpruned_parent` / `validate` or `validate_with` against a
/// (root, size) pair as found in an archive header.
fn seg_post<T: PMMRIndexHashable>(m: &mut Mon, w: &WCtx, seg: &Segment<T>, kind: u8, aux: u32) {
	let fxs = &w.corpus.fixtures;
	let same: Vec<usize> = (0..fxs.len()).filter(|i| fxs[*i].kind == kind).collect();
	if same.is_empty() {
		return;
	}
	let mut chosen: Vec<usize> = vec![];
	if (aux as usize) < fxs.len() && fxs[aux as usize].kind == kind {
		chosen.push(aux as usize);
	}
	let o = same[m.prng.usize_below(same.len())];
	if !chosen.contains(&o) {
		chosen.push(o);
	}
	if m.prng.below(8) == 0 {
		let o = same[m.prng.usize_below(same.len())];
		if !chosen.contains(&o) {
			chosen.push(o);
		}
	}
	for fi in chosen {
		let f = &fxs[fi];
		let mut bitmaps: Vec<(Option<croaring::Bitmap>, String)> = vec![(None, "None".to_string())];
		if kind == FX_OUT || kind == FX_RP {
			let (b1, d1) = make_bitmap(&mut m.prng, f.n_leaves);
			bitmaps.push((Some(b1), d1));
			let (b2, d2) = make_bitmap(&mut m.prng, f.n_leaves);
			bitmaps.push((Some(b2), d2));
		}
		for (bm, bdesc) in bitmaps.iter() {
			let bm = bm.as_ref();
			m.ctx = format!(
				"mmr_size={} ({} leaves) bitmap={} root={:?}",
				f.size, f.n_leaves, bdesc, f.root
			);
			m.stage("Segment::root", false, || {
				seg.root(f.size, bm).map(|_| ()).map_err(seg_err)
			});
			m.stage("Segment::first_unpruned_parent", false, || {
				seg.first_unpruned_parent(f.size, bm).map(|_| ()).map_err(seg_err)
			});
			match kind {
				FX_OUT => {
					m.stage("Segment::validate_with", false, || {
						seg.validate_with(f.size, bm, f.final_root, f.hash_last_pos, f.other, false)
							.map_err(seg_err)
					});
				}
				FX_BITMAP => {
					m.stage("Segment::validate_with", false, || {
						seg.validate_with(f.size, None, f.final_root, f.hash_last_pos, f.other, true)
							.map_err(seg_err)
					});
				}
				_ => {
					m.stage("Segment::validate", false, || {
						seg.validate(f.size, bm, f.root).map_err(seg_err)
					});
				}
			}
		}
	}
}

fn bitmapseg_post(m: &mut Mon, w: &WCtx, bs: BitmapSegment, aux: u32) {
	// the network path: protocol.rs converts with `into_segment()?` before `receive_bitmap_segment`
	if let Some(seg) = m.stage("BitmapSegment::into_segment", false, || {
		bs.into_segment().map_err(ek)
	}) {
		seg_post(m, w, &seg, FX_BITMAP, aux);
	}
}

/// What a serving node computes from a requested identifier before reading its MMRs.
fn segid_post(m: &mut Mon, w: &WCtx, id: SegmentIdentifier) {
	for size in [1u64, 4, 7, w.kern_mmr.1, 1_000_003] {
		m.ctx = format!("mmr_size={}", size);
		m.stage("SegmentIdentifier::segment_pos_range", false, || {
			let (a, b) = id.segment_pos_range(size);
			std::hint::black_box((a, b, id.segment_capacity()));
			Ok(())
		});
	}
	m.ctx = format!("VecBackend MMR of 40 leaves (size {})", w.kern_mmr.1);
	m.stage("Segment::from_pmmr(non-prunable)", false, || {
		let ro = ReadonlyPMMR::at(&w.kern_mmr.0, w.kern_mmr.1);
		Segment::from_pmmr(id, &ro, false).map(|_| ()).map_err(seg_err)
	});
	m.stage("Segment::from_pmmr(prunable)", false, || {
		let ro = ReadonlyPMMR::at(&w.out_mmr.0, w.out_mmr.1);
		Segment::from_pmmr(id, &ro, true).map(|_| ()).map_err(seg_err)
	});
}

fn body_post(m: &mut Mon, body: &TransactionBody) {
	m.stage("TransactionBody::validate_read(AsBlock)", false, || {
		body.validate_read(Weighting::AsBlock).map_err(ek)
	});
	m.stage("TransactionBody::validate_read(AsTransaction)", false, || {
		body.validate_read(Weighting::AsTransaction).map_err(ek)
	});
}

fn tx_post(m: &mut Mon, tx: &Transaction) {
	m.stage("Transaction::validate_read", false, || tx.validate_read().map_err(ek));
	body_post(m, &tx.body);
}

fn block_post(m: &mut Mon, blk: &Block) {
	m.stage("Block::validate_read", false, || blk.validate_read().map_err(ek));
	body_post(m, &blk.body);
}

fn message_post(m: &mut Mon, w: &WCtx, msg: Message, aux: u32) {
	match msg {
		Message::Transaction(tx) | Message::StemTransaction(tx) => tx_post(m, &tx),
		Message::Block(b) => {
			let blk: Block = b.into();
			block_post(m, &blk);
		}
		Message::CompactBlock(cb) => {
			let cb: grin_core::core::CompactBlock = cb.into();
			std::hint::black_box(cb.kern_ids().len());
		}
		Message::OutputBitmapSegment(r) => bitmapseg_post(m, w, r.segment, aux),
		Message::OutputSegment(r) => seg_post(m, w, &r.response.segment, FX_OUT, aux),
		Message::RangeProofSegment(r) => seg_post(m, w, &r.segment, FX_RP, aux),
		Message::KernelSegment(r) => seg_post(m, w, &r.segment, FX_KERN, aux),
		Message::GetOutputBitmapSegment(r)
		| Message::GetOutputSegment(r)
		| Message::GetRangeProofSegment(r)
		| Message::GetKernelSegment(r) => segid_post(m, w, r.identifier),
		_ => {}
	}
}

fn codec_case(m: &mut Mon, w: &WCtx, c: &Case) {
	let client = match TcpStream::connect(w.addr) {
		Ok(s) => s,
		Err(e) => {
			m.harness_errors.push(format!("loopback connect: {}", e));
			return;
		}
	};
	let server = match w.listener.accept() {
		Ok((s, _)) => s,
		Err(e) => {
			m.harness_errors.push(format!("loopback accept: {}", e));
			return;
		}
	};
	let mut writer;
	if c.bytes.len() <= 32 * 1024 {
		let mut cl = client;
		if let Err(e) = cl.write_all(&c.bytes) {
			m.harness_errors.push(format!("loopback write: {}", e));
			return;
		}
		let _ = cl.shutdown(Shutdown::Write);
		writer = Some((cl, None));
	} else {
		let data = c.bytes.clone();
		let mut cl2 = match client.try_clone() {
			Ok(x) => x,
			Err(e) => {
				m.harness_errors.push(format!("loopback clone: {}", e));
				return;
			}
		};
		let h = std::thread::spawn(move || {
			let _ = cl2.write_all(&data);
			let _ = cl2.shutdown(Shutdown::Write);
		});
		writer = Some((client, Some(h)));
	}
	let mut codec = Codec::new(ProtocolVersion(c.ver), server);
	for _ in 0..72 {
		let r = m.stage("Codec::read", true, || {
			let (r, _n) = codec.read();
			r.map_err(ek)
		});
		match r {
			Some(msg) => message_post(m, w, msg, c.aux),
			None => break,
		}
	}
	drop(codec);
	if let Some((cl, h)) = writer.take() {
		drop(cl);
		if let Some(h) = h {
			let _ = h.join();
		}
	}
}

fn exec_case(w: &WCtx, c: &Case, m: &mut Mon) {
	let b: &[u8] = &c.bytes;
	let v = c.ver;
	let aux = c.aux;
	match c.dec {
		D_MSGHEADER => both!(m, MsgHeaderWrapper, b, v, |_m: &mut Mon, _x| {}),
		D_HANDMSG => {
			m.stage("read_message<Hand>", true, || {
				let mut s: &[u8] = b;
				grin_p2p::msg::read_message::<Hand, _>(&mut s, ProtocolVersion(v), Type::Hand)
					.map(|_| ())
					.map_err(ek)
			});
		}
		D_SHAKEMSG => {
			m.stage("read_message<Shake>", true, || {
				let mut s: &[u8] = b;
				grin_p2p::msg::read_message::<Shake, _>(&mut s, ProtocolVersion(v), Type::Shake)
					.map(|_| ())
					.map_err(ek)
			});
		}
		D_HAND => both!(m, Hand, b, v, |_m: &mut Mon, _x| {}),
		D_SHAKE => both!(m, Shake, b, v, |_m: &mut Mon, _x| {}),
		D_PING => both!(m, Ping, b, v, |_m: &mut Mon, _x| {}),
		D_PONG => both!(m, Pong, b, v, |_m: &mut Mon, _x| {}),
		D_GETPEERADDRS => both!(m, GetPeerAddrs, b, v, |_m: &mut Mon, _x| {}),
		D_PEERADDRS => both!(m, PeerAddrs, b, v, |_m: &mut Mon, _x| {}),
		D_PEERERROR => both!(m, PeerError, b, v, |_m: &mut Mon, _x| {}),
		D_LOCATOR => both!(m, Locator, b, v, |_m: &mut Mon, _x| {}),
		D_BANREASON => both!(m, BanReason, b, v, |_m: &mut Mon, _x| {}),
		D_TXHSREQ => both!(m, TxHashSetRequest, b, v, |_m: &mut Mon, _x| {}),
		D_TXHSARCH => both!(m, TxHashSetArchive, b, v, |_m: &mut Mon, _x| {}),
		D_HASH => both!(m, Hash, b, v, |_m: &mut Mon, _x| {}),
		D_SEGREQ => both!(m, SegmentRequest, b, v, |m: &mut Mon, x: SegmentRequest| {
			segid_post(m, w, x.identifier)
		}),
		D_SEGID => both!(m, SegmentIdentifier, b, v, |m: &mut Mon, x: SegmentIdentifier| {
			segid_post(m, w, x)
		}),
		D_SEGPROOF => both!(m, SegmentProof, b, v, |_m: &mut Mon, _x| {}),
		D_SEG_OUT => both!(
			m,
			Segment<OutputIdentifier>,
			b,
			v,
			|m: &mut Mon, x: Segment<OutputIdentifier>| seg_post(m, w, &x, FX_OUT, aux)
		),
		D_SEG_RP => both!(
			m,
			Segment<RangeProof>,
			b,
			v,
			|m: &mut Mon, x: Segment<RangeProof>| seg_post(m, w, &x, FX_RP, aux)
		),
		D_SEG_KERN => both!(
			m,
			Segment<TxKernel>,
			b,
			v,
			|m: &mut Mon, x: Segment<TxKernel>| seg_post(m, w, &x, FX_KERN, aux)
		),
		D_SEG_CHUNK => both!(
			m,
			Segment<BitmapChunk>,
			b,
			v,
			|m: &mut Mon, x: Segment<BitmapChunk>| seg_post(m, w, &x, FX_BITMAP, aux)
		),
		D_BITMAPSEG => both!(m, BitmapSegment, b, v, |m: &mut Mon, x: BitmapSegment| {
			bitmapseg_post(m, w, x, aux)
		}),
		D_OUTSEGRESP => both!(
			m,
			OutputSegmentResponse,
			b,
			v,
			|m: &mut Mon, x: OutputSegmentResponse| seg_post(m, w, &x.response.segment, FX_OUT, aux)
		),
		D_RPSEGRESP => both!(
			m,
			SegmentResponse<RangeProof>,
			b,
			v,
			|m: &mut Mon, x: SegmentResponse<RangeProof>| seg_post(m, w, &x.segment, FX_RP, aux)
		),
		D_KERNSEGRESP => both!(
			m,
			SegmentResponse<TxKernel>,
			b,
			v,
			|m: &mut Mon, x: SegmentResponse<TxKernel>| seg_post(m, w, &x.segment, FX_KERN, aux)
		),
		D_BITMAPSEGRESP => both!(
			m,
			OutputBitmapSegmentResponse,
			b,
			v,
			|m: &mut Mon, x: OutputBitmapSegmentResponse| bitmapseg_post(m, w, x.segment, aux)
		),
		D_UHEADER => both!(m, UntrustedBlockHeader, b, v, |_m: &mut Mon, x: UntrustedBlockHeader| {
			let h: BlockHeader = x.into();
			std::hint::black_box(h.height);
		}),
		D_UBLOCK => both!(m, UntrustedBlock, b, v, |m: &mut Mon, x: UntrustedBlock| {
			let blk: Block = x.into();
			block_post(m, &blk)
		}),
		D_UCOMPACT => both!(m, UntrustedCompactBlock, b, v, |_m: &mut Mon, x: UntrustedCompactBlock| {
			let cb: grin_core::core::CompactBlock = x.into();
			std::hint::black_box(cb.kern_ids().len());
		}),
		D_TX => both!(m, Transaction, b, v, |m: &mut Mon, x: Transaction| tx_post(m, &x)),
		D_TXBODY => both!(m, TransactionBody, b, v, |m: &mut Mon, x: TransactionBody| {
			body_post(m, &x)
		}),
		D_PROOF => both!(m, Proof, b, v, |_m: &mut Mon, _x| {}),
		D_POW => both!(m, ProofOfWork, b, v, |_m: &mut Mon, _x| {}),
		D_MERKLE => both!(m, MerkleProof, b, v, |_m: &mut Mon, _x| {}),
		D_MERKLE_HEXBIN => {
			let hex = b.to_vec().to_hex();
			m.stage("MerkleProof::from_hex", true, || {
				MerkleProof::from_hex(&hex).map(|_| ()).map_err(|_| "deserialize".to_string())
			});
		}
		D_MERKLE_HEXSTR => {
			let s = String::from_utf8_lossy(b).to_string();
			m.stage("MerkleProof::from_hex", true, || {
				MerkleProof::from_hex(&s).map(|_| ()).map_err(|_| "deserialize".to_string())
			});
		}
		D_CODEC => codec_case(m, w, c),
		D_API_OUTPUT_PRINTABLE => {
			let s = String::from_utf8_lossy(b).to_string();
			let mut decoded = None;
			m.stage("serde_json::from_str::<api::OutputPrintable>", true, || {
				serde_json::from_str::<grin_api::OutputPrintable>(&s).map(|v| decoded = Some(v)).map_err(|_| "deserialize".to_string())
			});
			// the stateless accessors a client runs on the decoded document
			if let Some(v) = decoded {
				m.stage("api::OutputPrintable::range_proof", false, || v.range_proof().map(|_| ()).map_err(|_| "range_proof".to_string()));
				m.stage("api::OutputPrintable::commit", false, || v.commit().map(|_| ()).map_err(|_| "commit".to_string()));
			}
		}
		D_JSON_TX => {
			let s = String::from_utf8_lossy(b).to_string();
			let mut decoded = None;
			m.stage("serde_json::from_str::<Transaction>", true, || {
				serde_json::from_str::<Transaction>(&s).map(|v| decoded = Some(v)).map_err(|_| "deserialize".to_string())
			});
			if let Some(tx) = decoded {
				m.stage("Transaction::validate_read", false, || tx.validate_read().map_err(|_| "validate_read".to_string()));
			}
		}
		D_API_OUTPUT => {
			let s = String::from_utf8_lossy(b).to_string();
			m.stage("serde_json::from_str::<api::Output>", true, || {
				serde_json::from_str::<grin_api::Output>(&s).map(|_| ()).map_err(|_| "deserialize".to_string())
			});
		}
		_ => {}
	}
}

fn budget_len(c: &Case) -> u64 {
	let len = c.bytes.len() as u64;
	if is_framed(c.dec) {
		len + announced_len(&c.bytes, c.net)
	} else {
		len
	}
}

// ------------------------------------------------------------------ worker

fn now_ms() -> u64 {
	SystemTime::now()
		.duration_since(UNIX_EPOCH)
		.map(|d| d.as_millis() as u64)
		.unwrap_or(0)
}

fn arg_val(args: &[String], name: &str) -> Option<String> {
	args.iter()
		.position(|a| a == name)
		.and_then(|i| args.get(i + 1).cloned())
}

fn parse_ids(s: &str) -> Vec<u64> {
	s.split(',').filter_map(|x| x.trim().parse().ok()).collect()
}

fn hex_of(b: &[u8]) -> String {
	b.to_vec().to_hex()
}

struct WorkerAgg {
	counts: HashMap<String, u64>,
	sigs: HashSet<u64>,
	fsig_counts: HashMap<String, u64>,
	best_len: HashMap<String, usize>,
	honest_max_single: u64,
	honest_max_peak: u64,
	cases: u64,
	evals: u64,
}

fn worker_main(args: &[String]) {
	let wi = args.iter().position(|a| a == "--worker").unwrap();
	let shard: u64 = args[wi + 1].parse().expect("shard");
	let nshards: u64 = args[wi + 2].parse().expect("nshards");
	let tier = match arg_val(args, "--tier").as_deref() {
		Some("thorough") => Tier::Thorough,
		_ => Tier::Quick,
	};
	let run_seed: u64 = arg_val(args, "--seed").and_then(|s| s.parse().ok()).unwrap_or(1);
	let corpus_path = arg_val(args, "--corpus").expect("--corpus");
	let from: u64 = arg_val(args, "--from").and_then(|s| s.parse().ok()).unwrap_or(0);
	let stride: u64 = arg_val(args, "--stride").and_then(|s| s.parse().ok()).unwrap_or(1).max(1);
	let deadline: u64 = arg_val(args, "--deadline").and_then(|s| s.parse().ok()).unwrap_or(u64::MAX);
	let skip: HashSet<u64> = arg_val(args, "--skip").map(|s| parse_ids(&s)).unwrap_or_default().into_iter().collect();
	let ids: Option<Vec<u64>> = arg_val(args, "--ids").map(|s| parse_ids(&s));
	let trace = args.iter().any(|a| a == "--trace");

	world::init_globals(true);
	set_net(0);
	let raw = std::fs::read(&corpus_path).expect("read corpus");
	let corpus = Corpus::from_bytes(&raw);
	drop(raw);
	let space = build_space(&corpus, tier);
	let listener = TcpListener::bind("127.0.0.1:0").expect("bind loopback");
	let addr = listener.local_addr().expect("local addr");
	let mut fp = Prng::new(0xF1C5);
	let kerns: Vec<TxKernel> = (0..40).map(|i| rnd_kernel(&mut fp, i)).collect();
	let outs: Vec<OutputIdentifier> = (0..40).map(|i| rnd_outid(&mut fp, i)).collect();
	let (kb, ks, _) = build_mmr(&kerns);
	let (ob, os, _) = build_mmr(&outs);
	let w = WCtx {
		corpus,
		space,
		run_seed,
		listener,
		addr,
		kern_mmr: (kb, ks),
		out_mmr: (ob, os),
	};

	monitor::HARD_CAP.store(HARD_CAP_BYTES, std::sync::atomic::Ordering::SeqCst);
	monitor::install_panic_hook();
	let installed = alloc_monitor_installed();
	watchdog_start(CASE_BUDGET_MS);

	let stdout = std::io::stdout();
	let emit = |v: Value| {
		let mut l = stdout.lock();
		let _ = writeln!(l, "{}", v);
		let _ = l.flush();
	};
	emit(json!({"t": "s", "shard": shard, "alloc_monitor": installed, "total": w.space.total, "seeds": w.corpus.seeds.len()}));

	let mut agg = WorkerAgg {
		counts: HashMap::new(),
		sigs: HashSet::new(),
		fsig_counts: HashMap::new(),
		best_len: HashMap::new(),
		honest_max_single: 0,
		honest_max_peak: 0,
		cases: 0,
		evals: 0,
	};
	let flush = |agg: &mut WorkerAgg, next: u64, done: bool, timeout: bool| {
		let counts: serde_json::Map<String, Value> =
			agg.counts.drain().map(|(k, v)| (k, json!(v))).collect();
		let fs: serde_json::Map<String, Value> =
			agg.fsig_counts.drain().map(|(k, v)| (k, json!(v))).collect();
		let sigs: Vec<u64> = agg.sigs.drain().collect();
		emit(json!({
			"t": "p", "next": next, "done": done, "timeout": timeout,
			"counts": counts, "fsig": fs, "sigs": sigs,
			"cases": agg.cases, "evals": agg.evals,
			"honest_max_single": agg.honest_max_single, "honest_max_peak": agg.honest_max_peak,
		}));
		agg.cases = 0;
		agg.evals = 0;
	};

	let selftest: Option<(String, u64)> = std::env::var("C11_SELFTEST").ok().and_then(|v| {
		let mut it = v.splitn(2, ':');
		let a = it.next()?.to_string();
		let b = it.next()?.parse().ok()?;
		Some((a, b))
	});
	let total = w.space.total;
	let id_list: Vec<u64> = match &ids {
		Some(v) => v.iter().cloned().filter(|i| *i < total).collect(),
		None => vec![],
	};
	let mut cursor = if ids.is_some() { 0 } else { from };
	let mut last_flush = Instant::now();
	let mut since_flush = 0u64;
	let mut timed_out = false;
	loop {
		// next case id of this shard
		let id = if ids.is_some() {
			if (cursor as usize) >= id_list.len() {
				break;
			}
			let x = id_list[cursor as usize];
			cursor += 1;
			x
		} else {
			while cursor < total
				&& (cursor % nshards != shard || (cursor / nshards) % stride != 0 || skip.contains(&cursor))
			{
				cursor += 1;
			}
			if cursor >= total {
				break;
			}
			let x = cursor;
			cursor += 1;
			x
		};
		if since_flush % 64 == 0 && now_ms() > deadline {
			timed_out = true;
			if ids.is_none() {
				cursor = id;
			}
			break;
		}
		if trace {
			eprintln!("TRACE {}", id);
		}
		let c = make_case(&w.corpus, &w.space, w.run_seed, id);
		if let Some((what, sid)) = &selftest {
			// fault injection for testing the parent's exit-status handling (inert unless the env var is set)
			if *sid == id {
				match what.as_str() {
					"hang" => {
						watchdog_enter(stage_key(id, 0));
						loop {
							std::thread::sleep(Duration::from_millis(100));
						}
					}
					"abort" => std::process::abort(),
					"exit3" => std::process::exit(3),
					_ => {}
				}
			}
		}
		set_net(c.net);
		let mut m = Mon::new(id, c.dec, budget_len(&c), case_prng(run_seed ^ 0x51, id));
		if c.dec == D_MERKLE_HEXBIN {
			m.len = 2 * c.bytes.len() as u64;
		}
		exec_case(&w, &c, &mut m);
		set_net(0);

		// aggregate
		agg.cases += 1;
		let dname = DECODERS[c.dec];
		let cname = CLASS_NAMES[c.class as usize];
		*agg.counts.entry(format!("cases.dec.{}", dname)).or_insert(0) += 1;
		*agg.counts.entry(format!("cases.class.{}", cname)).or_insert(0) += 1;
		if c.dec == D_CODEC {
			*agg.counts.entry("cases.socket".into()).or_insert(0) += 1;
		}
		for r in &m.results {
			agg.evals += 1;
			let o = if r.outcome == "ok" {
				"ok"
			} else if r.outcome.starts_with("err") {
				"err"
			} else {
				"viol"
			};
			if r.decode {
				*agg.counts.entry(format!("dec.{}.{}", dname, o)).or_insert(0) += 1;
				*agg.counts.entry(format!("class.{}.{}", cname, o)).or_insert(0) += 1;
			} else {
				*agg.counts.entry(format!("post.{}.{}", r.stage, o)).or_insert(0) += 1;
			}
			let sig = format!("{}|{}|{}|{}|v{}|n{}", dname, cname, r.stage, r.outcome, c.ver, c.net);
			agg.sigs.insert(fnv64(sig.as_bytes()));
		}
		if c.class == Class::Honest {
			agg.honest_max_single = agg.honest_max_single.max(m.max_single);
			agg.honest_max_peak = agg.honest_max_peak.max(m.max_peak);
			let s = &w.corpus.seeds[c.seed as usize];
			let first_ok = m.results.iter().find(|r| r.decode).map(|r| r.outcome == "ok").unwrap_or(false);
			let all_decode_ok = m.results.iter().filter(|r| r.decode).all(|r| r.outcome == "ok");
			if s.expect_ok && !(first_ok && (c.dec == D_CODEC || all_decode_ok)) {
				*agg.counts.entry("honest.unexpected_err".into()).or_insert(0) += 1;
				let outs: Vec<String> = m.results.iter().map(|r| format!("{}={}", r.stage, r.outcome)).collect();
				emit(json!({"t": "h", "id": id, "dec": dname, "ver": c.ver, "net": c.net, "label": s.label, "results": outs}));
			} else if s.expect_ok {
				*agg.counts.entry("honest.ok".into()).or_insert(0) += 1;
			}
			if m.findings.iter().any(|f| f.event == "over-alloc") {
				*agg.counts.entry("honest.alloc_oracle_trips".into()).or_insert(0) += 1;
			}
		}
		for e in &m.harness_errors {
			emit(json!({"t": "e", "id": id, "what": e}));
		}
		for f in &m.findings {
			*agg
				.fsig_counts
				.entry(format!("{}\u{1}{}\u{1}{}\u{1}{}", f.sig, dname, cname, f.stage))
				.or_insert(0) += 1;
			let better = match agg.best_len.get(&f.sig) {
				None => true,
				Some(l) => c.bytes.len() < *l,
			};
			if better {
				agg.best_len.insert(f.sig.clone(), c.bytes.len());
				let shown = c.bytes.len().min(4096);
				emit(json!({
					"t": "f", "sig": f.sig, "id": id, "dec": dname, "stage": f.stage, "class": cname,
					"ver": c.ver, "net": c.net, "len": c.bytes.len(), "event": f.event,
					"msg": f.msg, "loc": f.loc, "max_single": f.max_single, "peak": f.peak, "ctx": f.ctx,
					"desc": c.desc, "hex": hex_of(&c.bytes[..shown]), "hex_truncated": shown < c.bytes.len(),
				}));
			}
		}
		since_flush += 1;
		if since_flush >= 4000 || last_flush.elapsed() > Duration::from_millis(700) {
			flush(&mut agg, cursor, false, false);
			since_flush = 0;
			last_flush = Instant::now();
		}
	}
	flush(&mut agg, cursor, !timed_out, timed_out);
}

// ------------------------------------------------------------------ parent

enum PMsg {
	Line(usize, String),
	Exit(usize, Option<i32>, Option<i32>, String),
}

#[derive(Default)]
struct FInfo {
	count: u64,
	decs: BTreeSet<String>,
	stages: BTreeSet<String>,
	classes: BTreeSet<String>,
	ids: Vec<u64>,
	best: Option<Value>,
}

#[derive(Default)]
struct Agg {
	counts: BTreeMap<String, u64>,
	sigs: HashSet<u64>,
	evals: u64,
	cases: u64,
	findings: BTreeMap<String, FInfo>,
	honest_max_single: u64,
	honest_max_peak: u64,
	alloc_monitor_ok: bool,
	alloc_monitor_seen: bool,
	notes: Vec<String>,
}

impl Agg {
	fn add_finding(&mut self, sig: &str, v: &Value, n: u64) {
		let fi = self.findings.entry(sig.to_string()).or_default();
		fi.count += n;
		if let Some(d) = v.get("dec").and_then(|x| x.as_str()) {
			fi.decs.insert(d.to_string());
		}
		if let Some(d) = v.get("stage").and_then(|x| x.as_str()) {
			fi.stages.insert(d.to_string());
		}
		if let Some(d) = v.get("class").and_then(|x| x.as_str()) {
			fi.classes.insert(d.to_string());
		}
		if let Some(id) = v.get("id").and_then(|x| x.as_u64()) {
			if fi.ids.len() < 8 && !fi.ids.contains(&id) {
				fi.ids.push(id);
			}
		}
		let len = v.get("len").and_then(|x| x.as_u64()).unwrap_or(u64::MAX);
		let idv = v.get("id").and_then(|x| x.as_u64()).unwrap_or(u64::MAX);
		let better = match &fi.best {
			None => true,
			Some(b) => {
				let bl = b.get("len").and_then(|x| x.as_u64()).unwrap_or(u64::MAX);
				let bi = b.get("id").and_then(|x| x.as_u64()).unwrap_or(u64::MAX);
				len < bl || (len == bl && idv < bi)
			}
		};
		if better && v.get("len").is_some() {
			fi.best = Some(v.clone());
		}
	}

	fn line(&mut self, line: &str, count_progress: bool) -> Option<Value> {
		let v: Value = match serde_json::from_str(line) {
			Ok(v) => v,
			Err(_) => return None,
		};
		match v.get("t").and_then(|x| x.as_str()) {
			Some("s") => {
				let ok = v.get("alloc_monitor").and_then(|x| x.as_bool()).unwrap_or(false);
				self.alloc_monitor_ok = if self.alloc_monitor_seen {
					self.alloc_monitor_ok && ok
				} else {
					ok
				};
				self.alloc_monitor_seen = true;
			}
			Some("p") => {
				if count_progress {
					if let Some(c) = v.get("counts").and_then(|x| x.as_object()) {
						for (k, n) in c {
							*self.counts.entry(k.clone()).or_insert(0) += n.as_u64().unwrap_or(0);
						}
					}
					if let Some(c) = v.get("sigs").and_then(|x| x.as_array()) {
						for s in c {
							if let Some(s) = s.as_u64() {
								self.sigs.insert(s);
							}
						}
					}
					self.evals += v.get("evals").and_then(|x| x.as_u64()).unwrap_or(0);
					self.cases += v.get("cases").and_then(|x| x.as_u64()).unwrap_or(0);
					self.honest_max_single = self
						.honest_max_single
						.max(v.get("honest_max_single").and_then(|x| x.as_u64()).unwrap_or(0));
					self.honest_max_peak = self
						.honest_max_peak
						.max(v.get("honest_max_peak").and_then(|x| x.as_u64()).unwrap_or(0));
				}
				if let Some(c) = v.get("fsig").and_then(|x| x.as_object()) {
					for (k, n) in c {
						let parts: Vec<&str> = k.split('\u{1}').collect();
						let fi = self.findings.entry(parts[0].to_string()).or_default();
						if count_progress {
							fi.count += n.as_u64().unwrap_or(0);
						}
						if parts.len() == 4 {
							fi.decs.insert(parts[1].to_string());
							fi.classes.insert(parts[2].to_string());
							fi.stages.insert(parts[3].to_string());
						}
					}
				}
			}
			Some("f") => {
				if let Some(sig) = v.get("sig").and_then(|x| x.as_str()) {
					let sig = sig.to_string();
					self.add_finding(&sig, &v, 0);
				}
			}
			Some("h") => {
				if self.notes.len() < 40 {
					self.notes.push(format!("honest seed did not decode: {}", v));
				}
			}
			Some("e") => {
				if self.notes.len() < 40 {
					self.notes.push(format!("harness error: {}", v));
				}
			}
			_ => {}
		}
		Some(v)
	}
}

struct Spawn {
	exe: std::path::PathBuf,
	corpus_path: String,
	tier: Tier,
	seed: u64,
	stride: u64,
	deadline: u64,
}

impl Spawn {
	fn cmd(&self, shard: u64, from: u64, skip: &[u64], ids: Option<&[u64]>, trace: bool) -> Command {
		let mut c = Command::new(&self.exe);
		c.arg("--worker")
			.arg(shard.to_string())
			.arg(NSHARDS.to_string())
			.arg("--corpus")
			.arg(&self.corpus_path)
			.arg("--tier")
			.arg(self.tier.name())
			.arg("--seed")
			.arg(self.seed.to_string())
			.arg("--from")
			.arg(from.to_string())
			.arg("--stride")
			.arg(self.stride.to_string())
			.arg("--deadline")
			.arg(self.deadline.to_string());
		if !skip.is_empty() {
			let s: Vec<String> = skip.iter().map(|x| x.to_string()).collect();
			c.arg("--skip").arg(s.join(","));
		}
		if let Some(ids) = ids {
			let s: Vec<String> = ids.iter().map(|x| x.to_string()).collect();
			c.arg("--ids").arg(s.join(","));
		}
		if trace {
			c.arg("--trace");
		}
		c.stdin(Stdio::null()).stdout(Stdio::piped()).stderr(Stdio::piped());
		c
	}

	fn start(&self, slot: usize, mut c: Command, tx: mpsc::Sender<PMsg>) -> Result<(), String> {
		let mut child = c.spawn().map_err(|e| format!("spawn worker: {}", e))?;
		let stdout = child.stdout.take().unwrap();
		let mut stderr = child.stderr.take().unwrap();
		let eh = std::thread::spawn(move || {
			// keep the tail only (trace mode prints one line per case)
			let mut tail: Vec<u8> = vec![];
			let mut buf = [0u8; 8192];
			loop {
				match stderr.read(&mut buf) {
					Ok(0) | Err(_) => break,
					Ok(n) => {
						tail.extend_from_slice(&buf[..n]);
						if tail.len() > 16384 {
							let cut = tail.len() - 8192;
							tail.drain(..cut);
						}
					}
				}
			}
			String::from_utf8_lossy(&tail).to_string()
		});
		std::thread::spawn(move || {
			let rd = std::io::BufReader::new(stdout);
			for l in rd.lines() {
				match l {
					Ok(l) => {
						let _ = tx.send(PMsg::Line(slot, l));
					}
					Err(_) => break,
				}
			}
			let err = eh.join().unwrap_or_default();
			use std::os::unix::process::ExitStatusExt;
			match child.wait() {
				Ok(st) => {
					let _ = tx.send(PMsg::Exit(slot, st.code(), st.signal(), err));
				}
				Err(e) => {
					let _ = tx.send(PMsg::Exit(slot, Some(-1), None, format!("wait: {} {}", e, err)));
				}
			}
		});
		Ok(())
	}

	/// Run one worker over an explicit list of case ids and wait for it.
	fn run_ids(&self, ids: &[u64], trace: bool, agg: Option<&mut Agg>) -> (Option<i32>, Option<i32>, String) {
		let (tx, rx) = mpsc::channel();
		let mut me = Spawn {
			exe: self.exe.clone(),
			corpus_path: self.corpus_path.clone(),
			tier: self.tier,
			seed: self.seed,
			stride: 1,
			deadline: u64::MAX,
		};
		me.stride = 1;
		let c = me.cmd(0, 0, &[], Some(ids), trace);
		if let Err(e) = me.start(0, c, tx) {
			return (Some(-1), None, e);
		}
		let mut agg = agg;
		loop {
			match rx.recv() {
				Ok(PMsg::Line(_, l)) => {
					if let Some(a) = agg.as_deref_mut() {
						a.line(&l, true);
					}
				}
				Ok(PMsg::Exit(_, code, sig, err)) => return (code, sig, err),
				Err(_) => return (Some(-1), None, "worker channel closed".into()),
			}
		}
	}
}

fn parse_marker(stderr: &str, marker: &str) -> Option<(u64, u64)> {
	// "<marker> case=<key> size=<n>" or "<marker> case=<key>"
	let i = stderr.rfind(marker)?;
	let rest = &stderr[i + marker.len()..];
	let num = |s: &str, key: &str| -> Option<u64> {
		let j = s.find(key)?;
		let t: String = s[j + key.len()..].chars().take_while(|c| c.is_ascii_digit()).collect();
		t.parse().ok()
	};
	let line = rest.lines().next().unwrap_or("");
	let key = num(line, "case=")?;
	Some((key, num(line, "size=").unwrap_or(0)))
}

fn last_trace(stderr: &str) -> Option<u64> {
	stderr
		.lines()
		.rev()
		.find_map(|l| l.strip_prefix("TRACE ").and_then(|x| x.trim().parse().ok()))
}

fn case_json(c: &Case) -> Value {
	let shown = c.bytes.len().min(4096);
	json!({
		"id": c.id, "dec": DECODERS[c.dec], "class": CLASS_NAMES[c.class as usize], "ver": c.ver, "net": c.net,
		"len": c.bytes.len(), "desc": c.desc, "hex": hex_of(&c.bytes[..shown]), "hex_truncated": shown < c.bytes.len(),
	})
}

struct Shard {
	next: u64,
	skip: Vec<u64>,
	done: bool,
	complete: bool,
	restarts: u32,
	trace: bool,
	got_final: bool,
	last_death: Option<(Option<i32>, Option<i32>)>,
	attributed: bool,
}

fn parent_main() {
	let run = Run::from_env("C11", "exploration");
	let t0 = Instant::now();
	let incs = std::cell::RefCell::new(Vec::<String>::new());
	let inc = |m: &str| {
		run.inconclusive(m);
		incs.borrow_mut().push(m.to_string());
	};
	let san = run
		.args
		.iter()
		.position(|a| a == "--san")
		.and_then(|i| run.args.get(i + 1).cloned());
	let stride: u64 = match san.as_deref() {
		None => 1,
		Some("valgrind") => 400,
		Some(_) => 10,
	};
	run.set_rule(
		"case id -> (decoder, protocol version in {1,2,3,1000}, chain parameters {testing, mainnet}, seed encoding, \
		 mutation class, parameter) -> bytes, deterministic in (tier, seed). Seeds: valid encodings of every p2p message \
		 body / block / tx / segment / Merkle proof type with their field layout recorded by a layout-recording Writer. \
		 Classes: honest; field (every integer field := 0,1,actual+-1,2^k,2^k-1,max,protocol boundary constants); tag (every \
		 1-byte field swept 0..=255); trunc (every offset); splice (field runs of other messages); bitflip; havoc (stacked \
		 operators); random (0..4096 bytes, four styles); fill (0x00/0xff/0x01/0x80 repeated). Every case is run through the \
		 BufReader and BinReader entry points (or read_message / Codec::read over a loopback socket / from_hex) and, when it \
		 decodes, through the stateless post-decode checks (validate_read, BitmapSegment::into_segment, Segment::root / \
		 first_unpruned_parent / validate / validate_with against (root,size) pairs, segment_pos_range / from_pmmr for \
		 requested identifiers), each stage under the panic, allocation (single request > 16*len+2MiB or live > 64*len+8MiB; \
		 for framed input len += announced within-limit length) and watchdog (20 s) monitors. A shape is non-trivial/distinct \
		 per (decoder, class, stage, outcome kind, version, net).",
	);
	run.assume("trusted base: the harness' allocator wrapper, panic hook and watchdog; Linux loopback sockets");
	run.assume("MerkleProof::verify, API JSON layers and chain-bound segment application are outside this check");

	let corpus = build_corpus(run.seed);
	let space = build_space(&corpus, run.tier);
	let sc = Scratch::new("c11");
	let corpus_path = sc.sub("corpus.bin");
	std::fs::write(&corpus_path, corpus.to_bytes()).expect("write corpus");
	run.count("corpus.seeds", corpus.seeds.len() as u64);
	run.count("corpus.bytes_fnv_low32", fnv64(&corpus.to_bytes()) & 0xffff_ffff);
	run.count("space.total_cases", space.total);
	let build_s = t0.elapsed().as_secs_f64();

	let explore_budget_ms: u64 = run.tier.pick(66_000, 600_000);
	let sp = Spawn {
		exe: std::env::current_exe().expect("current_exe"),
		corpus_path: corpus_path.clone(),
		tier: run.tier,
		seed: run.seed,
		stride,
		deadline: now_ms() + explore_budget_ms,
	};
	let mut agg = Agg::default();
	let mut hangs: Vec<u64> = vec![];
	let mut aborts: Vec<(u64, String)> = vec![];
	let mut explored_all = true;

	if let Some(rp) = &run.replay {
		// replay: re-run only the recorded case ids (same seed / tier as the recording run)
		let ids: Vec<u64> = std::fs::read_to_string(rp)
			.ok()
			.and_then(|s| serde_json::from_str::<Value>(&s).ok())
			.and_then(|v| v.get("case").and_then(|c| c.get("case_ids")).cloned())
			.and_then(|v| v.as_array().map(|a| a.iter().filter_map(|x| x.as_u64()).collect()))
			.unwrap_or_default();
		if ids.is_empty() {
			inc("replay file has no case ids");
		}
		for id in ids {
			let (code, sig, err) = sp.run_ids(&[id], false, Some(&mut agg));
			classify_single(&corpus, &space, run.seed, id, code, sig, &err, &mut agg, &mut hangs, &mut aborts);
		}
	} else {
		let (tx, rx) = mpsc::channel();
		let mut shards: Vec<Shard> = (0..NSHARDS)
			.map(|_| Shard {
				next: 0,
				skip: vec![],
				done: false,
				complete: false,
				restarts: 0,
				trace: false,
				got_final: false,
				last_death: None,
				attributed: false,
			})
			.collect();
		for s in 0..NSHARDS as usize {
			let c = sp.cmd(s as u64, 0, &[], None, false);
			if let Err(e) = sp.start(s, c, tx.clone()) {
				inc(&e);
				shards[s].done = true;
			}
		}
		while shards.iter().any(|s| !s.done) {
			let msg = match rx.recv_timeout(Duration::from_secs(CASE_BUDGET_MS / 1000 + 60)) {
				Ok(m) => m,
				Err(_) => {
					inc("no message from any worker for too long; giving up on the remaining shards");
					explored_all = false;
					break;
				}
			};
			match msg {
				PMsg::Line(s, l) => {
					if let Some(v) = agg.line(&l, true) {
						if v.get("t").and_then(|x| x.as_str()) == Some("p") {
							if let Some(n) = v.get("next").and_then(|x| x.as_u64()) {
								shards[s].next = n;
							}
							if v.get("done").and_then(|x| x.as_bool()) == Some(true) {
								shards[s].got_final = true;
								shards[s].complete = true;
							}
							if v.get("timeout").and_then(|x| x.as_bool()) == Some(true) {
								shards[s].got_final = true;
							}
						}
					}
				}
				PMsg::Exit(s, code, sig, err) => {
					let sh = &mut shards[s];
					let mut restart = false;
					if code == Some(0) {
						if !sh.got_final {
							inc(&format!("shard {} exited 0 without a final summary", s));
						}
						if !sh.complete {
							explored_all = false;
						}
						sh.done = true;
					} else if code == Some(EXIT_ALLOC_OVER_CAP) {
						match parse_marker(&err, "ALLOC-OVER-CAP") {
							Some((key, size)) => {
								let id = key >> 8;
								let code = key & 255;
								let c = make_case(&corpus, &space, run.seed, id);
								let stage = if code < 16 { "decode" } else { "post" };
								let sigs = format!("event=over-alloc;decoder={};stage={}", sig_dec(c.dec), stage);
								let mut v = case_json(&c);
								v["stage"] = json!(format!("{} (stage code {})", stage, code));
								v["event"] = json!("over-alloc");
								v["msg"] = json!(format!(
									"single allocation request of {} bytes (> hard cap {}; budget for this input {})",
									size, HARD_CAP_BYTES, single_budget(budget_len(&c))
								));
								v["max_single"] = json!(size);
								agg.add_finding(&sigs, &v, 1);
								*agg.counts.entry("worker.over_cap_exits".into()).or_insert(0) += 1;
								*agg.counts.entry(format!("dec.{}.viol", DECODERS[c.dec])).or_insert(0) += 1;
								sh.skip.push(id);
								restart = true;
							}
							None => {
								inc(&format!("shard {}: exit 86 without ALLOC-OVER-CAP marker: {}", s, tail(&err)));
								sh.done = true;
								explored_all = false;
							}
						}
					} else if code == Some(EXIT_HANG) {
						match parse_marker(&err, "HANG") {
							Some((key, _)) => {
								let id = key >> 8;
								hangs.push(id);
								*agg.counts.entry("worker.hang_exits".into()).or_insert(0) += 1;
								sh.skip.push(id);
								restart = true;
							}
							None => {
								inc(&format!("shard {}: exit 87 without HANG marker", s));
								sh.done = true;
								explored_all = false;
							}
						}
					} else {
						// death by signal or an unexpected exit code: attribute with a traced re-run
						*agg.counts.entry("worker.abnormal_exits".into()).or_insert(0) += 1;
						if sh.trace {
							match last_trace(&err) {
								Some(id) => {
									sh.attributed = true;
									if sig.is_some() {
										aborts.push((id, format!("signal {:?}", sig)));
									} else {
										inc(&format!(
											"worker failed (exit code {:?}) while running case {}: {}",
											code, id, tail(&err)
										));
									}
									sh.skip.push(id);
									restart = true;
								}
								None => {
									inc(&format!("shard {}: worker died ({:?}/{:?}) before any case: {}", s, code, sig, tail(&err)));
									sh.done = true;
									explored_all = false;
								}
							}
						} else {
							sh.trace = true;
							sh.last_death = Some((code, sig));
							restart = true;
						}
					}
					if restart {
						sh.restarts += 1;
						sh.got_final = false;
						if sh.restarts > 5000 || now_ms() > sp.deadline {
							inc(&format!("shard {}: restart/time budget exhausted at case {}", s, sh.next));
							sh.done = true;
							explored_all = false;
						} else {
							let c = sp.cmd(s as u64, sh.next, &sh.skip, None, sh.trace);
							if let Err(e) = sp.start(s, c, tx.clone()) {
								inc(&e);
								sh.done = true;
								explored_all = false;
							}
						}
					}
				}
			}
		}
		for (s, sh) in shards.iter().enumerate() {
			if sh.trace && sh.last_death.is_some() && !sh.attributed {
				agg.notes.push(format!(
					"shard {}: one worker death ({:?}) did not reproduce in the traced re-run",
					s, sh.last_death
				));
			}
		}
	}
	let explore_s = t0.elapsed().as_secs_f64() - build_s;

	// ---- confirmations: a hang / abort is a violation only if the single case reproduces it alone
	hangs.sort();
	hangs.dedup();
	for id in hangs.iter().take(6) {
		let c = make_case(&corpus, &space, run.seed, *id);
		let (code, _sig, err) = sp.run_ids(&[*id], false, None);
		if code == Some(EXIT_HANG) {
			let (key, _) = parse_marker(&err, "HANG").unwrap_or((0, 0));
			let stage = if key & 255 < 16 { "decode" } else { "post" };
			let sigs = format!("event=hang;decoder={};stage={}", sig_dec(c.dec), stage);
			let mut v = case_json(&c);
			v["stage"] = json!(stage);
			v["event"] = json!("hang");
			v["msg"] = json!(format!("no return within {} ms, reproduced alone in a fresh worker", CASE_BUDGET_MS));
			agg.add_finding(&sigs, &v, 1);
		} else {
			inc(&format!("case {} exceeded the case budget once but not when re-run alone", id));
		}
	}
	if hangs.len() > 6 {
		inc(&format!("{} further hang candidates not re-run (time)", hangs.len() - 6));
	}
	for (id, how) in aborts.iter().take(6) {
		let c = make_case(&corpus, &space, run.seed, *id);
		let (code, sig, _err) = sp.run_ids(&[*id], true, None);
		if sig.is_some() {
			let sigs = format!("event=abort(signal {});decoder={}", sig.unwrap(), sig_dec(c.dec));
			let mut v = case_json(&c);
			v["stage"] = json!("?");
			v["event"] = json!("abort");
			v["msg"] = json!(format!("worker killed by {} on this case, reproduced alone", how));
			agg.add_finding(&sigs, &v, 1);
		} else {
			inc(&format!("case {}: worker death ({}) did not reproduce alone (exit {:?})", id, how, code));
		}
	}

	// ---- verdicts
	for (sig, fi) in agg.findings.iter() {
		if fi.best.is_none() {
			inc(&format!("finding {} reported without an example", sig));
			continue;
		}
		let b = fi.best.as_ref().unwrap();
		let g = |k: &str| b.get(k).map(|x| x.to_string()).unwrap_or_default();
		let hex = b.get("hex").and_then(|x| x.as_str()).unwrap_or("");
		let what = format!(
			"{} occurrence(s); decoders {:?}; stages {:?}; classes {:?}. Minimal reproducer: decoder={} version={} net={} class={} [{}] len={} bytes={}{} -> {} {} {}{}",
			fi.count.max(1),
			fi.decs,
			fi.stages,
			fi.classes,
			g("dec"),
			g("ver"),
			g("net"),
			g("class"),
			b.get("desc").and_then(|x| x.as_str()).unwrap_or(""),
			g("len"),
			&hex[..hex.len().min(600)],
			if hex.len() > 600 { "..." } else { "" },
			g("event"),
			b.get("msg").and_then(|x| x.as_str()).unwrap_or(""),
			b.get("loc").and_then(|x| x.as_str()).unwrap_or(""),
			match b.get("ctx").and_then(|x| x.as_str()) {
				Some(c) if !c.is_empty() => format!(" [stage {} with {}]", g("stage"), c),
				_ => String::new(),
			},
		);
		run.violation(sig, &what, json!({"case_ids": fi.ids, "min": b}));
	}
	for n in agg.notes.iter() {
		inc(n);
	}
	run.require(
		"worker failures, unconfirmed hangs/aborts, harness errors (must be none)",
		incs.borrow().is_empty() as u64,
		1,
	);

	// ---- evidence
	for (k, v) in agg.counts.iter() {
		run.count(k, *v);
	}
	run.count("honest.max_single_request", agg.honest_max_single);
	run.count("honest.max_peak_live", agg.honest_max_peak);
	run.count("wall.build_corpus_ms", (build_s * 1000.0) as u64);
	run.count("wall.explore_ms", (explore_s * 1000.0) as u64);
	run.eval_bulk(agg.evals, agg.sigs.iter().cloned());
	let mut sampled = 0;
	for (dec, class) in [
		(D_UBLOCK, Class::Honest),
		(D_MERKLE, Class::Field),
		(D_TX, Class::Trunc),
		(D_SEG_KERN, Class::Tag),
		(D_CODEC, Class::Splice),
		(D_BITMAPSEG, Class::Random),
	] {
		if let Some(g) = space.groups.iter().find(|g| g.dec as usize == dec && g.class == class) {
			let id = g.start + g.count / 2;
			let c = make_case(&corpus, &space, run.seed, id);
			let mut v = case_json(&c);
			if let Some(h) = v.get("hex").and_then(|x| x.as_str()).map(|s| s[..s.len().min(160)].to_string()) {
				v["hex"] = json!(h);
			}
			run.sample(v);
			sampled += 1;
		}
	}
	let _ = sampled;

	if run.replay.is_none() {
		let cnt = |k: &str| *agg.counts.get(k).unwrap_or(&0);
		let scale = stride;
		run.require("alloc monitor installed in workers", agg.alloc_monitor_ok as u64, 1);
		run.require(
			"cases explored (permille of the case space)",
			if explored_all { 1000 } else { agg.cases * stride * 1000 / space.total.max(1) },
			if stride == 1 { 1000 } else { 900 },
		);
		let min_cases = (run.tier.pick(300, 1500) / scale).max(3);
		for d in 0..NDEC {
			let n = cnt(&format!("cases.dec.{}", DECODERS[d]));
			run.require(&format!("cases for decoder {}", DECODERS[d]), n, min_cases);
			run.require(&format!("Ok outcomes for decoder {}", DECODERS[d]), cnt(&format!("dec.{}.ok", DECODERS[d])), 1);
			run.require(
				&format!("Err outcomes for decoder {}", DECODERS[d]),
				cnt(&format!("dec.{}.err", DECODERS[d])),
				1,
			);
		}
		for c in CLASS_NAMES.iter() {
			run.require(&format!("cases of class {}", c), cnt(&format!("cases.class.{}", c)), (50 / scale).max(1));
		}
		run.require("socket (Codec::read) cases", cnt("cases.socket"), (2000 / scale).max(5));
		run.require("honest seeds decoded", cnt("honest.ok"), (100 / scale).max(2));
		if cnt("honest.unexpected_err") > 0 {
			inc("some honest seeds expected to decode did not (see notes): seed generator out of sync with the tree");
		}
		if stride == 1 {
			run.require("honest segments validated (Segment::validate ok)", cnt("post.Segment::validate.ok"), 10);
			run.require("honest segments validated (Segment::validate_with ok)", cnt("post.Segment::validate_with.ok"), 10);
			run.require("segments rejected by validate", cnt("post.Segment::validate.err"), 100);
			run.require("validate_read accepted", cnt("post.Transaction::validate_read.ok"), 10);
			run.require("Block::validate_read rejected", cnt("post.Block::validate_read.err"), 10);
			run.require("honest inputs tripping the allocation oracle (must be 0)", (cnt("honest.alloc_oracle_trips") == 0) as u64, 1);
			run.require("bitmap segments converted", cnt("post.BitmapSegment::into_segment.ok"), 10);
		}
	}
	drop(sc);
	run.finish();
}

fn tail(s: &str) -> String {
	let t: Vec<&str> = s.lines().rev().take(6).collect();
	t.into_iter().rev().collect::<Vec<_>>().join(" | ")
}

/// Replay helper: interpret the exit of a single-case worker.
fn classify_single(
	corpus: &Corpus,
	space: &Space,
	seed: u64,
	id: u64,
	code: Option<i32>,
	sig: Option<i32>,
	err: &str,
	agg: &mut Agg,
	hangs: &mut Vec<u64>,
	aborts: &mut Vec<(u64, String)>,
) {
	if code == Some(0) {
		return;
	}
	let c = make_case(corpus, space, seed, id);
	if code == Some(EXIT_ALLOC_OVER_CAP) {
		let (key, size) = parse_marker(err, "ALLOC-OVER-CAP").unwrap_or((0, 0));
		let stage = if key & 255 < 16 { "decode" } else { "post" };
		let sigs = format!("event=over-alloc;decoder={};stage={}", sig_dec(c.dec), stage);
		let mut v = case_json(&c);
		v["stage"] = json!(stage);
		v["event"] = json!("over-alloc");
		v["msg"] = json!(format!("single allocation request of {} bytes (> hard cap)", size));
		agg.add_finding(&sigs, &v, 1);
	} else if code == Some(EXIT_HANG) {
		hangs.push(id);
	} else if sig.is_some() {
		aborts.push((id, format!("signal {:?}", sig)));
	} else {
		agg.notes.push(format!("replay of case {}: worker exit {:?}: {}", id, code, tail(err)));
	}
}

fn main() {
	let args: Vec<String> = std::env::args().collect();
	if args.iter().any(|a| a == "--worker") {
		worker_main(&args);
	} else {
		parent_main();
	}
}
