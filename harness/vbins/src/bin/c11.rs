//! C11 - Decoding untrusted bytes never panics, aborts, hangs or over-allocates.
//!
//! Parent process: builds a deterministic corpus of valid encodings (seeds) with
//! their field layout (recorded by a layout-recording `Writer`), writes it to a
//! scratch file and spawns 16 single-threaded worker subprocesses of itself.
//! Every case of the (deterministic) case space is a function of its id:
//! id -> (decoder, version, net, seed, mutation class, parameter) -> bytes.
//! Workers run each case through the decoder's entry points and the stateless
//! post-decode checks under three monitors (panic, allocation, watchdog) and
//! report findings / counters as JSON lines. The parent aggregates, interprets
//! worker exit statuses (86 = over-cap allocation, 87 = hang, signal = abort),
//! restarts shards and confirms hangs / aborts by re-running the single case.

use grin_chain::txhashset::{BitmapAccumulator, BitmapChunk, BitmapSegment};
use grin_core::consensus;
use grin_core::core::hash::{Hash, Hashed};
use grin_core::core::merkle_proof::MerkleProof;
use grin_core::core::pmmr::{self, ReadablePMMR, ReadonlyPMMR, VecBackend, PMMR};
use grin_core::core::{
	Block, BlockHeader, FeeFields, KernelFeatures, NRDRelativeHeight, Output, OutputFeatures,
	OutputIdentifier, Segment, SegmentIdentifier, SegmentProof, Transaction, TransactionBody,
	TxKernel, UntrustedBlock, UntrustedBlockHeader, UntrustedCompactBlock, Weighting,
};
use grin_core::global::{self, ChainTypes};
use grin_core::pow::{Difficulty, Proof, ProofOfWork};
use grin_core::ser::{
	self, BufReader, DeserializationMode, PMMRIndexHashable, PMMRable, ProtocolVersion, Readable,
	SerializationMode, Writeable, Writer,
};
use grin_p2p::msg::{
	BanReason, GetPeerAddrs, Hand, Headers, Locator, Message, MsgHeader, MsgHeaderWrapper,
	OutputBitmapSegmentResponse, OutputSegmentResponse, PeerAddrs, PeerError, Ping, Pong,
	SegmentRequest, SegmentResponse, Shake, TxHashSetArchive, TxHashSetRequest, Type,
};
use grin_p2p::verif_export::Codec;
use grin_p2p::{Capabilities, PeerAddr, ReasonForBan};
use grin_util::secp::pedersen::{Commitment, RangeProof};
use grin_util::secp::Signature;
use grin_util::ToHex;
use serde_json::{json, Value};
use std::collections::{BTreeMap, BTreeSet, HashMap, HashSet};
use std::io::{BufRead, Read, Write};
use std::net::{Shutdown, SocketAddr, TcpListener, TcpStream};
use std::process::{Command, Stdio};
use std::sync::mpsc;
use std::time::{Duration, Instant, SystemTime, UNIX_EPOCH};
use vcommon::ctx::{Run, Scratch, Tier};
use vcommon::monitor::{
	self, alloc_monitor_installed, catch, track_alloc, watchdog_enter, watchdog_leave,
	watchdog_start, TrackingAlloc, EXIT_ALLOC_OVER_CAP, EXIT_HANG,
};
use vcommon::prng::{fnv64, splitmix64, Prng};
use vcommon::world::{self, World};

#[global_allocator]
static A: TrackingAlloc = TrackingAlloc;

const NSHARDS: u64 = 16;
const VERSIONS: [u32; 4] = [1, 2, 3, 1000];
const HARD_CAP_BYTES: u64 = 256 << 20;
const CASE_BUDGET_MS: u64 = 20_000;
const MIB: u64 = 1 << 20;

/// Allocation oracle: largest single request / live high-water allowed for an input of `len` bytes.
fn single_budget(len: u64) -> u64 {
	16 * len + 2 * MIB
}
fn peak_budget(len: u64) -> u64 {
	64 * len + 8 * MIB
}

// ------------------------------------------------------------------ decoders

const D_MSGHEADER: usize = 0;
const D_HANDMSG: usize = 1;
const D_SHAKEMSG: usize = 2;
const D_HAND: usize = 3;
const D_SHAKE: usize = 4;
const D_PING: usize = 5;
const D_PONG: usize = 6;
const D_GETPEERADDRS: usize = 7;
const D_PEERADDRS: usize = 8;
const D_PEERERROR: usize = 9;
const D_LOCATOR: usize = 10;
const D_BANREASON: usize = 11;
const D_TXHSREQ: usize = 12;
const D_TXHSARCH: usize = 13;
const D_HASH: usize = 14;
const D_SEGREQ: usize = 15;
const D_SEGID: usize = 16;
const D_SEGPROOF: usize = 17;
const D_SEG_OUT: usize = 18;
const D_SEG_RP: usize = 19;
const D_SEG_KERN: usize = 20;
const D_SEG_CHUNK: usize = 21;
const D_BITMAPSEG: usize = 22;
const D_OUTSEGRESP: usize = 23;
const D_RPSEGRESP: usize = 24;
const D_KERNSEGRESP: usize = 25;
const D_BITMAPSEGRESP: usize = 26;
const D_UHEADER: usize = 27;
const D_UBLOCK: usize = 28;
const D_UCOMPACT: usize = 29;
const D_TX: usize = 30;
const D_TXBODY: usize = 31;
const D_PROOF: usize = 32;
const D_POW: usize = 33;
const D_MERKLE: usize = 34;
const D_MERKLE_HEXBIN: usize = 35;
const D_MERKLE_HEXSTR: usize = 36;
const D_CODEC: usize = 37;
const NDEC: usize = 38;

const DECODERS: [&str; NDEC] = [
	"MsgHeaderWrapper",
	"read_message<Hand>",
	"read_message<Shake>",
	"Hand",
	"Shake",
	"Ping",
	"Pong",
	"GetPeerAddrs",
	"PeerAddrs",
	"PeerError",
	"Locator",
	"BanReason",
	"TxHashSetRequest",
	"TxHashSetArchive",
	"Hash",
	"SegmentRequest",
	"SegmentIdentifier",
	"SegmentProof",
	"Segment<OutputIdentifier>",
	"Segment<RangeProof>",
	"Segment<TxKernel>",
	"Segment<BitmapChunk>",
	"BitmapSegment",
	"OutputSegmentResponse",
	"SegmentResponse<RangeProof>",
	"SegmentResponse<TxKernel>",
	"OutputBitmapSegmentResponse",
	"UntrustedBlockHeader",
	"UntrustedBlock",
	"UntrustedCompactBlock",
	"Transaction",
	"TransactionBody",
	"Proof",
	"ProofOfWork",
	"MerkleProof::read",
	"MerkleProof::from_hex(hex(bytes))",
	"MerkleProof::from_hex(str)",
	"Codec::read",
];

/// Fixture kind used by the segment post-decode checks of a decoder.
const FX_OUT: u8 = 0;
const FX_RP: u8 = 1;
const FX_KERN: u8 = 2;
const FX_BITMAP: u8 = 3;

fn fx_kind(dec: usize) -> Option<u8> {
	match dec {
		D_SEG_OUT | D_OUTSEGRESP => Some(FX_OUT),
		D_SEG_RP | D_RPSEGRESP => Some(FX_RP),
		D_SEG_KERN | D_KERNSEGRESP => Some(FX_KERN),
		D_SEG_CHUNK | D_BITMAPSEG | D_BITMAPSEGRESP => Some(FX_BITMAP),
		_ => None,
	}
}

fn is_framed(dec: usize) -> bool {
	matches!(dec, D_MSGHEADER | D_HANDMSG | D_SHAKEMSG | D_CODEC)
}

/// Decoders whose behaviour depends on the chain type (magic, PoW contexts, weights):
/// their decoder-level (seedless) cases are run under both parameter sets.
fn both_nets(dec: usize) -> bool {
	matches!(
		dec,
		D_MSGHEADER | D_CODEC | D_UHEADER | D_UBLOCK | D_UCOMPACT | D_TX | D_TXBODY
	)
}

fn set_net(net: u8) {
	global::set_local_chain_type(if net == 1 {
		ChainTypes::Mainnet
	} else {
		ChainTypes::AutomatedTesting
	});
	global::set_local_nrd_enabled(true);
}

fn magic_for(net: u8) -> [u8; 2] {
	if net == 1 {
		[97, 61]
	} else {
		[73, 43]
	}
}

// ------------------------------------------------------------------ layout-recording writer

#[derive(Clone, Copy, Debug)]
struct Field {
	off: u32,
	len: u32,
	/// 0 = blob, otherwise the width in bytes of a big-endian integer field
	kind: u8,
}

struct RecWriter {
	buf: Vec<u8>,
	fields: Vec<Field>,
	ver: u32,
}

impl RecWriter {
	fn new(ver: u32) -> RecWriter {
		RecWriter {
			buf: vec![],
			fields: vec![],
			ver,
		}
	}
	fn rec(&mut self, len: usize, kind: u8) {
		self.fields.push(Field {
			off: self.buf.len() as u32,
			len: len as u32,
			kind,
		});
	}
}

impl Writer for RecWriter {
	fn serialization_mode(&self) -> SerializationMode {
		SerializationMode::Full
	}
	fn protocol_version(&self) -> ProtocolVersion {
		ProtocolVersion(self.ver)
	}
	fn write_u8(&mut self, n: u8) -> Result<(), ser::Error> {
		self.rec(1, 1);
		self.buf.push(n);
		Ok(())
	}
	fn write_u16(&mut self, n: u16) -> Result<(), ser::Error> {
		self.rec(2, 2);
		self.buf.extend_from_slice(&n.to_be_bytes());
		Ok(())
	}
	fn write_u32(&mut self, n: u32) -> Result<(), ser::Error> {
		self.rec(4, 4);
		self.buf.extend_from_slice(&n.to_be_bytes());
		Ok(())
	}
	fn write_i32(&mut self, n: i32) -> Result<(), ser::Error> {
		self.rec(4, 4);
		self.buf.extend_from_slice(&n.to_be_bytes());
		Ok(())
	}
	fn write_u64(&mut self, n: u64) -> Result<(), ser::Error> {
		self.rec(8, 8);
		self.buf.extend_from_slice(&n.to_be_bytes());
		Ok(())
	}
	fn write_i64(&mut self, n: i64) -> Result<(), ser::Error> {
		self.rec(8, 8);
		self.buf.extend_from_slice(&n.to_be_bytes());
		Ok(())
	}
	fn write_fixed_bytes<T: AsRef<[u8]>>(&mut self, bytes: T) -> Result<(), ser::Error> {
		let b = bytes.as_ref();
		self.rec(b.len(), 0);
		self.buf.extend_from_slice(b);
		Ok(())
	}
}

// ------------------------------------------------------------------ corpus

#[derive(Clone, Debug)]
struct Seed {
	dec: u16,
	ver: u32,
	net: u8,
	/// fixture index for segment post-checks (u32::MAX = none)
	aux: u32,
	/// run the enumerated classes (field / tag / truncation) for this (seed, version)
	enumerate: bool,
	/// the honest encoding is expected to decode successfully
	expect_ok: bool,
	label: String,
	bytes: Vec<u8>,
	fields: Vec<Field>,
}

#[derive(Clone, Debug)]
struct Fixture {
	kind: u8,
	n_leaves: u64,
	size: u64,
	root: Hash,
	other: Hash,
	final_root: Hash,
	hash_last_pos: u64,
}

struct Corpus {
	seeds: Vec<Seed>,
	fixtures: Vec<Fixture>,
}

fn put_u32(v: &mut Vec<u8>, x: u32) {
	v.extend_from_slice(&x.to_le_bytes());
}
fn put_u64(v: &mut Vec<u8>, x: u64) {
	v.extend_from_slice(&x.to_le_bytes());
}
fn put_bytes(v: &mut Vec<u8>, b: &[u8]) {
	put_u32(v, b.len() as u32);
	v.extend_from_slice(b);
}

struct Cur<'a> {
	b: &'a [u8],
	p: usize,
}
impl<'a> Cur<'a> {
	fn u8(&mut self) -> u8 {
		let x = self.b[self.p];
		self.p += 1;
		x
	}
	fn u32(&mut self) -> u32 {
		let mut a = [0u8; 4];
		a.copy_from_slice(&self.b[self.p..self.p + 4]);
		self.p += 4;
		u32::from_le_bytes(a)
	}
	fn u64(&mut self) -> u64 {
		let mut a = [0u8; 8];
		a.copy_from_slice(&self.b[self.p..self.p + 8]);
		self.p += 8;
		u64::from_le_bytes(a)
	}
	fn bytes(&mut self) -> Vec<u8> {
		let n = self.u32() as usize;
		let v = self.b[self.p..self.p + n].to_vec();
		self.p += n;
		v
	}
}

impl Corpus {
	fn to_bytes(&self) -> Vec<u8> {
		let mut v = vec![];
		put_u32(&mut v, self.seeds.len() as u32);
		for s in &self.seeds {
			put_u32(&mut v, s.dec as u32);
			put_u32(&mut v, s.ver);
			v.push(s.net);
			put_u32(&mut v, s.aux);
			v.push(s.enumerate as u8);
			v.push(s.expect_ok as u8);
			put_bytes(&mut v, s.label.as_bytes());
			put_bytes(&mut v, &s.bytes);
			put_u32(&mut v, s.fields.len() as u32);
			for f in &s.fields {
				put_u32(&mut v, f.off);
				put_u32(&mut v, f.len);
				v.push(f.kind);
			}
		}
		put_u32(&mut v, self.fixtures.len() as u32);
		for f in &self.fixtures {
			v.push(f.kind);
			put_u64(&mut v, f.n_leaves);
			put_u64(&mut v, f.size);
			v.extend_from_slice(f.root.as_bytes());
			v.extend_from_slice(f.other.as_bytes());
			v.extend_from_slice(f.final_root.as_bytes());
			put_u64(&mut v, f.hash_last_pos);
		}
		v
	}

	fn from_bytes(b: &[u8]) -> Corpus {
		let mut c = Cur { b, p: 0 };
		let n = c.u32();
		let mut seeds = vec![];
		for _ in 0..n {
			let dec = c.u32() as u16;
			let ver = c.u32();
			let net = c.u8();
			let aux = c.u32();
			let enumerate = c.u8() != 0;
			let expect_ok = c.u8() != 0;
			let label = String::from_utf8_lossy(&c.bytes()).to_string();
			let bytes = c.bytes();
			let nf = c.u32();
			let mut fields = vec![];
			for _ in 0..nf {
				let off = c.u32();
				let len = c.u32();
				let kind = c.u8();
				fields.push(Field { off, len, kind });
			}
			seeds.push(Seed {
				dec,
				ver,
				net,
				aux,
				enumerate,
				expect_ok,
				label,
				bytes,
				fields,
			});
		}
		let nfx = c.u32();
		let mut fixtures = vec![];
		for _ in 0..nfx {
			let kind = c.u8();
			let n_leaves = c.u64();
			let size = c.u64();
			let mut h = |c: &mut Cur| {
				let x = Hash::from_vec(&c.b[c.p..c.p + 32]);
				c.p += 32;
				x
			};
			let root = h(&mut c);
			let other = h(&mut c);
			let final_root = h(&mut c);
			let hash_last_pos = c.u64();
			fixtures.push(Fixture {
				kind,
				n_leaves,
				size,
				root,
				other,
				final_root,
				hash_last_pos,
			});
		}
		Corpus { seeds, fixtures }
	}
}

// ------------------------------------------------------------------ corpus builder

struct Builder {
	seeds: Vec<Seed>,
	fixtures: Vec<Fixture>,
	ordinal: usize,
}

fn fixed_ts(offset_secs: i64) -> chrono::DateTime<chrono::Utc> {
	chrono::DateTime::<chrono::Utc>::from_timestamp(1_600_000_000 + offset_secs, 0).unwrap()
}

fn rnd_hash(p: &mut Prng) -> Hash {
	Hash::from_vec(&p.bytes(32))
}
fn rnd_commit(p: &mut Prng) -> Commitment {
	let mut b = p.bytes(33);
	b[0] = 8 | (b[0] & 1);
	Commitment::from_vec(b)
}
fn rnd_sig(p: &mut Prng) -> Signature {
	let mut a = [0u8; 64];
	p.fill(&mut a);
	Signature::from_raw_data(&a).expect("sig from raw")
}
fn rnd_rproof(p: &mut Prng) -> RangeProof {
	let mut proof = [0u8; grin_util::secp::constants::MAX_PROOF_SIZE];
	p.fill(&mut proof);
	RangeProof {
		proof,
		plen: grin_util::secp::constants::MAX_PROOF_SIZE,
	}
}
fn rnd_kernel(p: &mut Prng, i: u64) -> TxKernel {
	let fee = FeeFields::new(0, 1 + p.below(1 << 30)).unwrap();
	let features = match i % 4 {
		0 => KernelFeatures::Plain { fee },
		1 => KernelFeatures::Coinbase,
		2 => KernelFeatures::HeightLocked {
			fee,
			lock_height: p.below(1 << 20),
		},
		_ => KernelFeatures::NoRecentDuplicate {
			fee,
			relative_height: NRDRelativeHeight::new(1 + p.below(1000)).unwrap(),
		},
	};
	TxKernel {
		features,
		excess: rnd_commit(p),
		excess_sig: rnd_sig(p),
	}
}
fn rnd_outid(p: &mut Prng, i: u64) -> OutputIdentifier {
	OutputIdentifier {
		features: if i % 5 == 0 {
			OutputFeatures::Coinbase
		} else {
			OutputFeatures::Plain
		},
		commit: rnd_commit(p),
	}
}

fn build_mmr<T: PMMRable>(items: &[T]) -> (VecBackend<T>, u64, Hash) {
	let mut ba = VecBackend::new();
	{
		let mut m = PMMR::new(&mut ba);
		for it in items {
			m.push(it).expect("mmr push");
		}
	}
	let size = ba.size();
	let root = ReadonlyPMMR::at(&ba, size).root().expect("mmr root");
	(ba, size, root)
}

/// Mirror of the compact block wire layout (the body type has no public constructor
/// taking an explicit nonce, and `From<Block>` draws a random one).
struct CbEnc {
	header: BlockHeader,
	nonce: u64,
	out_full: Vec<Output>,
	kern_full: Vec<TxKernel>,
	kern_ids: Vec<grin_core::core::ShortId>,
}
impl Writeable for CbEnc {
	fn write<W: Writer>(&self, w: &mut W) -> Result<(), ser::Error> {
		self.header.write(w)?;
		w.write_u64(self.nonce)?;
		w.write_u64(self.out_full.len() as u64)?;
		w.write_u64(self.kern_full.len() as u64)?;
		w.write_u64(self.kern_ids.len() as u64)?;
		self.out_full.write(w)?;
		self.kern_full.write(w)?;
		self.kern_ids.write(w)?;
		Ok(())
	}
}

/// Encoding of a `Segment<BitmapChunk>` as `Segment::read` consumes it (`BitmapChunk::read`
/// reads no bytes).
struct ChunkSegEnc(Segment<BitmapChunk>);
impl Writeable for ChunkSegEnc {
	fn write<W: Writer>(&self, w: &mut W) -> Result<(), ser::Error> {
		let s = &self.0;
		s.id().write(w)?;
		let hashes: Vec<(u64, Hash)> = s.hash_iter().collect();
		w.write_u64(hashes.len() as u64)?;
		for (p, _) in &hashes {
			w.write_u64(1 + p)?;
		}
		for (_, h) in &hashes {
			h.write(w)?;
		}
		let leaves: Vec<u64> = s.leaf_iter().map(|(p, _)| p).collect();
		w.write_u64(leaves.len() as u64)?;
		for p in &leaves {
			w.write_u64(1 + p)?;
		}
		s.proof().write(w)?;
		Ok(())
	}
}

struct Framed<'a, W: Writeable> {
	net: u8,
	ty: u8,
	body: &'a W,
}
impl<'a, W: Writeable> Writeable for Framed<'a, W> {
	fn write<WR: Writer>(&self, w: &mut WR) -> Result<(), ser::Error> {
		let body = ser::ser_vec(self.body, w.protocol_version())?;
		let m = magic_for(self.net);
		w.write_u8(m[0])?;
		w.write_u8(m[1])?;
		w.write_u8(self.ty)?;
		w.write_u64(body.len() as u64)?;
		self.body.write(w)
	}
}

struct Two<'a, A: Writeable, B: Writeable>(&'a A, &'a B);
impl<'a, A: Writeable, B: Writeable> Writeable for Two<'a, A, B> {
	fn write<W: Writer>(&self, w: &mut W) -> Result<(), ser::Error> {
		self.0.write(w)?;
		self.1.write(w)
	}
}

struct RawBytes(Vec<u8>);
impl Writeable for RawBytes {
	fn write<W: Writer>(&self, w: &mut W) -> Result<(), ser::Error> {
		for b in &self.0 {
			w.write_fixed_bytes(&[*b])?;
		}
		Ok(())
	}
}

impl Builder {
	fn add<W: Writeable>(
		&mut self,
		dec: usize,
		net: u8,
		aux: u32,
		expect_ok: bool,
		label: &str,
		thing: &W,
	) {
		set_net(net);
		let mut encs: Vec<(u32, Vec<u8>, Vec<Field>)> = vec![];
		for v in VERSIONS.iter() {
			let mut w = RecWriter::new(*v);
			if thing.write(&mut w).is_ok() {
				encs.push((*v, w.buf, w.fields));
			}
		}
		set_net(0);
		let n = encs.len();
		for i in 0..n {
			// identical encodings at several versions: enumerate at one of them only
			let same: Vec<usize> = (0..n).filter(|j| encs[*j].1 == encs[i].1).collect();
			let chosen = same[self.ordinal % same.len()];
			let (v, bytes, fields) = encs[i].clone();
			self.seeds.push(Seed {
				dec: dec as u16,
				ver: v,
				net,
				aux,
				enumerate: chosen == i,
				expect_ok,
				label: label.to_string(),
				bytes,
				fields,
			});
		}
		self.ordinal += 1;
	}

	fn framed<W: Writeable>(
		&mut self,
		dec: usize,
		net: u8,
		aux: u32,
		expect_ok: bool,
		label: &str,
		ty: u8,
		body: &W,
	) {
		self.add(dec, net, aux, expect_ok, label, &Framed { net, ty, body });
	}

	fn fixture(&mut self, f: Fixture) -> u32 {
		self.fixtures.push(f);
		(self.fixtures.len() - 1) as u32
	}
}

/// Segment seeds of one leaf type over a few MMR sizes; returns (segment, fixture, label).
fn seg_family<T>(
	b: &mut Builder,
	p: &mut Prng,
	kind: u8,
	dec: usize,
	prunable: bool,
	mk: &dyn Fn(&mut Prng, u64) -> T,
) -> Vec<(Segment<T>, u32, String)>
where
	T: PMMRable<E = T> + Readable + Writeable + std::fmt::Debug,
{
	let shapes: [(u64, u8, u64); 9] = [
		(1, 0, 0),
		(6, 1, 1),
		(6, 2, 1),
		(13, 2, 0),
		(13, 2, 3),
		(40, 3, 2),
		(40, 5, 1),
		(40, 0, 39),
		(40, 6, 0),
	];
	let mut out = vec![];
	for n in [1u64, 6, 13, 40, 700] {
		let items: Vec<T> = (0..n).map(|i| mk(p, i)).collect();
		let (ba, size, root) = build_mmr(&items);
		let other = rnd_hash(p);
		let final_root = (root, other).hash_with_index(size);
		let fx = b.fixture(Fixture {
			kind,
			n_leaves: n,
			size,
			root,
			other,
			final_root,
			hash_last_pos: size,
		});
		let ro = ReadonlyPMMR::at(&ba, size);
		for (sn, h, idx) in shapes.iter() {
			if *sn != n {
				continue;
			}
			let id = SegmentIdentifier {
				height: *h,
				idx: *idx,
			};
			if let Ok(seg) = Segment::from_pmmr(id, &ro, prunable) {
				let label = format!("n={} h={} idx={}", n, h, idx);
				b.add(dec, 0, fx, true, &label, &seg);
				out.push((seg, fx, label));
			}
		}
	}
	out
}

fn build_corpus(seed: u64) -> Corpus {
	world::init_globals(true);
	set_net(0);
	let mut b = Builder {
		seeds: vec![],
		fixtures: vec![],
		ordinal: 0,
	};
	let mut p = Prng::new(seed ^ 0xC11_5EED);
	let w = World::new(seed);

	// ---- transactions (real bulletproofs), blocks (real PoW at the testing edge bits)
	let det_tx = |tx: Transaction, p: &mut Prng| -> Transaction {
		let mut ks = tx.kernels().to_vec();
		for k in ks.iter_mut() {
			k.excess_sig = rnd_sig(p);
		}
		let outs = tx.outputs().to_vec();
		let mut t = Transaction::new(tx.inputs(), &outs, &ks);
		t.offset = tx.offset.clone();
		t
	};
	let coin = |n: u32, v: u64, cb: bool| w.coin(v, &w.key(n), cb);
	let (tx1, _) = w.tx(
		&mut p,
		&[coin(1, 60_000_000_000, true)],
		&[(20_000_000_000, w.key(10)), (39_000_000_000, w.key(11))],
		KernelFeatures::Plain {
			fee: world::fee_fields(1_000_000_000),
		},
	);
	let tx1 = det_tx(tx1, &mut p);
	let (tx2, _) = w.tx(
		&mut p,
		&[coin(2, 5_000_000_000, false), coin(3, 7_000_000_000, false)],
		&[(4_000_000_000, w.key(12)), (7_500_000_000, w.key(13))],
		world::height_locked(500_000_000, 7),
	);
	let tx2 = det_tx(tx2, &mut p);
	let (tx3, _) = w.tx(
		&mut p,
		&[coin(4, 3_000_000_000, false)],
		&[(2_900_000_000, w.key(14))],
		world::nrd(100_000_000, 5),
	);
	let tx3 = det_tx(tx3, &mut p);
	let agg = grin_core::core::transaction::aggregate(&[tx1.clone(), tx2.clone(), tx3.clone()])
		.expect("aggregate");

	let mut prev = BlockHeader::default();
	prev.timestamp = fixed_ts(0);
	let mk_block = |txs: &[Transaction], key: u32, prev: &BlockHeader, p: &mut Prng| -> Block {
		let fees: u64 = txs.iter().map(|t| t.fee()).sum();
		let (out, mut kern) = w.coinbase(&w.key(key), fees);
		kern.excess_sig = rnd_sig(p);
		let mut blk =
			Block::from_reward(prev, txs, out, kern, Difficulty::min_dma()).expect("from_reward");
		blk.header.timestamp = fixed_ts(60 * (blk.header.height as i64));
		blk.header.pow.proof.edge_bits = global::min_edge_bits();
		world::mine(&mut blk.header, prev.total_difficulty()).expect("mine");
		blk
	};
	let blk_small = mk_block(&[], 20, &prev, &mut p);
	let blk_med = mk_block(
		&[tx1.clone(), tx2.clone(), tx3.clone()],
		21,
		&blk_small.header,
		&mut p,
	);
	let mut chain_headers = vec![blk_small.header.clone(), blk_med.header.clone()];
	{
		// a run of mined empty headers for the Headers message (crosses the batch size of 32)
		let mut prevh = blk_med.header.clone();
		for _ in 0..33 {
			let mut h = BlockHeader::default();
			h.height = prevh.height + 1;
			h.version = consensus::header_version(h.height);
			h.prev_hash = prevh.hash();
			h.timestamp = fixed_ts(60 * h.height as i64);
			h.pow.total_difficulty = prevh.total_difficulty() + Difficulty::min_dma();
			h.pow.proof.edge_bits = global::min_edge_bits();
			world::mine(&mut h, prevh.total_difficulty()).expect("mine header");
			chain_headers.push(h.clone());
			prevh = h;
		}
	}

	b.add(D_TX, 0, u32::MAX, true, "1in-2out plain", &tx1);
	b.add(D_TX, 0, u32::MAX, true, "2in-2out height-locked", &tx2);
	b.add(D_TX, 0, u32::MAX, true, "aggregate 4in-5out-3kern", &agg);
	b.add(D_TXBODY, 0, u32::MAX, true, "body of tx1", &tx1.body);
	b.add(D_TXBODY, 0, u32::MAX, true, "body of medium block", &blk_med.body);
	b.add(D_UBLOCK, 0, u32::MAX, true, "coinbase-only block", &blk_small);
	b.add(D_UBLOCK, 0, u32::MAX, true, "block with 3 txs", &blk_med);
	b.add(D_UHEADER, 0, u32::MAX, true, "mined header h=1", &blk_small.header);
	b.add(D_UHEADER, 0, u32::MAX, true, "mined header h=2", &blk_med.header);
	b.add(D_POW, 0, u32::MAX, true, "pow of header", &blk_med.header.pow);
	b.add(D_PROOF, 0, u32::MAX, true, "proof of header", &blk_med.header.pow.proof);

	let mk_cb = |blk: &Block, nonce: u64| -> CbEnc {
		use grin_core::core::id::ShortIdentifiable;
		let hh = blk.header.hash();
		let mut out_full: Vec<Output> = blk
			.outputs()
			.iter()
			.filter(|o| o.is_coinbase())
			.cloned()
			.collect();
		let mut kern_full = vec![];
		let mut kern_ids = vec![];
		for k in blk.kernels() {
			if k.is_coinbase() {
				kern_full.push(k.clone());
			} else {
				kern_ids.push(k.short_id(&hh, nonce));
			}
		}
		out_full.sort_unstable();
		kern_full.sort_unstable();
		kern_ids.sort_unstable();
		CbEnc {
			header: blk.header.clone(),
			nonce,
			out_full,
			kern_full,
			kern_ids,
		}
	};
	let cb_small = mk_cb(&blk_small, p.next_u64());
	let cb_med = mk_cb(&blk_med, p.next_u64());
	b.add(D_UCOMPACT, 0, u32::MAX, true, "compact of coinbase-only", &cb_small);
	b.add(D_UCOMPACT, 0, u32::MAX, true, "compact of 3-tx block", &cb_med);

	// ---- mainnet-shaped headers (valid encoding, random proof: reach the PoW verifiers)
	set_net(1);
	let mut mainnet_headers = vec![];
	for (height, eb) in [
		(100u64, 29u8),
		(300_000, 29),
		(600_000, 29),
		(900_000, 29),
		(2_000_000, 32),
		(2_000_001, 31),
	] {
		let mut h = BlockHeader::default();
		h.height = height;
		h.version = consensus::header_version(height);
		h.timestamp = fixed_ts(height as i64);
		h.prev_hash = rnd_hash(&mut p);
		h.prev_root = rnd_hash(&mut p);
		h.output_root = rnd_hash(&mut p);
		h.range_proof_root = rnd_hash(&mut p);
		h.kernel_root = rnd_hash(&mut p);
		h.output_mmr_size = pmmr::insertion_to_pmmr_index(height + 10);
		h.kernel_mmr_size = pmmr::insertion_to_pmmr_index(height + 5);
		h.pow.total_difficulty = Difficulty::from_num(1 << 40);
		h.pow.secondary_scaling = 1856;
		h.pow.nonce = p.next_u64();
		let mut nonces: BTreeSet<u64> = BTreeSet::new();
		while nonces.len() < 42 {
			nonces.insert(p.below(1u64 << eb));
		}
		let mut pr = Proof::new(nonces.into_iter().collect());
		pr.edge_bits = eb;
		h.pow.proof = pr;
		mainnet_headers.push(h);
	}
	set_net(0);
	for h in &mainnet_headers {
		let label = format!("mainnet header h={} eb={}", h.height, h.pow.proof.edge_bits);
		b.add(D_UHEADER, 1, u32::MAX, false, &label, h);
	}
	let mn_block = Block {
		header: mainnet_headers[4].clone(),
		body: blk_med.body.clone(),
	};
	b.add(D_UBLOCK, 1, u32::MAX, false, "mainnet block", &mn_block);
	let mut mn_cb = mk_cb(&blk_med, p.next_u64());
	mn_cb.header = mainnet_headers[3].clone();
	b.add(D_UCOMPACT, 1, u32::MAX, false, "mainnet compact block", &mn_cb);
	b.add(D_POW, 1, u32::MAX, true, "mainnet pow", &mainnet_headers[4].pow);
	b.add(D_PROOF, 1, u32::MAX, true, "mainnet proof", &mainnet_headers[0].pow.proof);

	// ---- small p2p bodies
	let v4 = PeerAddr(SocketAddr::from(([10, 1, 2, 3], 3414)));
	let v6 = PeerAddr(SocketAddr::from((
		[0x2001, 0xdb8, 0, 0, 0, 0xff00, 0x42, 0x8329],
		13414,
	)));
	let hand = Hand {
		version: ProtocolVersion(3),
		capabilities: Capabilities::from_bits_truncate(0x4f),
		nonce: p.next_u64(),
		genesis: rnd_hash(&mut p),
		total_difficulty: Difficulty::from_num(123_456),
		sender_addr: v4,
		receiver_addr: v6,
		user_agent: "MW/Grin 5.3.0".to_string(),
	};
	let hand2 = Hand {
		version: ProtocolVersion(1000),
		capabilities: Capabilities::from_bits_truncate(0xffff_ffff),
		nonce: 0,
		genesis: rnd_hash(&mut p),
		total_difficulty: Difficulty::from_num(u64::MAX),
		sender_addr: v6,
		receiver_addr: v4,
		user_agent: "x".repeat(40),
	};
	let shake = Shake {
		version: ProtocolVersion(2),
		capabilities: Capabilities::from_bits_truncate(0x0f),
		genesis: rnd_hash(&mut p),
		total_difficulty: Difficulty::from_num(99),
		user_agent: "MW/Grin 5.3.0.abcdef".to_string(),
	};
	b.add(D_HAND, 0, u32::MAX, true, "hand v4/v6", &hand);
	b.add(D_HAND, 0, u32::MAX, true, "hand v6/v4 long agent", &hand2);
	b.add(D_SHAKE, 0, u32::MAX, true, "shake", &shake);
	b.framed(D_HANDMSG, 0, u32::MAX, true, "framed hand", Type::Hand as u8, &hand);
	b.framed(D_HANDMSG, 0, u32::MAX, false, "framed shake as hand", Type::Shake as u8, &shake);
	b.framed(D_SHAKEMSG, 0, u32::MAX, true, "framed shake", Type::Shake as u8, &shake);
	let ping = Ping {
		total_difficulty: Difficulty::from_num(777),
		height: 1234,
	};
	let pong = Pong {
		total_difficulty: Difficulty::from_num(778),
		height: 1235,
	};
	b.add(D_PING, 0, u32::MAX, true, "ping", &ping);
	b.add(D_PONG, 0, u32::MAX, true, "pong", &pong);
	let gpa = GetPeerAddrs {
		capabilities: Capabilities::from_bits_truncate(0x0f),
	};
	b.add(D_GETPEERADDRS, 0, u32::MAX, true, "getpeeraddrs", &gpa);
	let pa0 = PeerAddrs { peers: vec![] };
	let pa3 = PeerAddrs {
		peers: vec![v4, v6, v4],
	};
	let pa_many = PeerAddrs {
		peers: (0..200u32)
			.map(|i| {
				if i % 3 == 0 {
					v6
				} else {
					PeerAddr(SocketAddr::from(([10, 0, (i >> 8) as u8, i as u8], 3414)))
				}
			})
			.collect(),
	};
	b.add(D_PEERADDRS, 0, u32::MAX, true, "0 peers", &pa0);
	b.add(D_PEERADDRS, 0, u32::MAX, true, "3 peers", &pa3);
	b.add(D_PEERADDRS, 0, u32::MAX, true, "200 peers", &pa_many);
	let perr = PeerError {
		code: 7,
		message: "something went wrong".to_string(),
	};
	b.add(D_PEERERROR, 0, u32::MAX, true, "peer error", &perr);
	let loc0 = Locator { hashes: vec![] };
	let loc1 = Locator {
		hashes: vec![rnd_hash(&mut p)],
	};
	let loc20 = Locator {
		hashes: (0..20).map(|_| rnd_hash(&mut p)).collect(),
	};
	b.add(D_LOCATOR, 0, u32::MAX, true, "0 hashes", &loc0);
	b.add(D_LOCATOR, 0, u32::MAX, true, "1 hash", &loc1);
	b.add(D_LOCATOR, 0, u32::MAX, true, "20 hashes", &loc20);
	let ban = BanReason {
		ban_reason: ReasonForBan::BadBlock,
	};
	b.add(D_BANREASON, 0, u32::MAX, true, "ban reason", &ban);
	let thr = TxHashSetRequest {
		hash: rnd_hash(&mut p),
		height: 4242,
	};
	let tha = TxHashSetArchive {
		hash: rnd_hash(&mut p),
		height: 4242,
		bytes: 1_000_000,
	};
	b.add(D_TXHSREQ, 0, u32::MAX, true, "txhashset request", &thr);
	b.add(D_TXHSARCH, 0, u32::MAX, true, "txhashset archive", &tha);
	let some_hash = rnd_hash(&mut p);
	b.add(D_HASH, 0, u32::MAX, true, "hash", &some_hash);

	// ---- Merkle proofs
	let mp0 = MerkleProof::empty();
	let mp1 = MerkleProof {
		mmr_size: 3,
		path: vec![rnd_hash(&mut p)],
	};
	let mp10 = MerkleProof {
		mmr_size: 1500,
		path: (0..10).map(|_| rnd_hash(&mut p)).collect(),
	};
	for (l, m) in [("empty", &mp0), ("1 hash", &mp1), ("10 hashes", &mp10)] {
		b.add(D_MERKLE, 0, u32::MAX, true, l, m);
		b.add(D_MERKLE_HEXBIN, 0, u32::MAX, true, l, m);
		b.add(
			D_MERKLE_HEXSTR,
			0,
			u32::MAX,
			true,
			l,
			&RawBytes(m.to_hex().into_bytes()),
		);
	}
	b.add(
		D_MERKLE_HEXSTR,
		0,
		u32::MAX,
		true,
		"upper-case hex",
		&RawBytes(mp1.to_hex().to_uppercase().into_bytes()),
	);

	// ---- segments
	let out_segs = seg_family::<OutputIdentifier>(&mut b, &mut p, FX_OUT, D_SEG_OUT, true, &|p, i| {
		rnd_outid(p, i)
	});
	let rp_segs = seg_family::<RangeProof>(&mut b, &mut p, FX_RP, D_SEG_RP, true, &|p, _| {
		rnd_rproof(p)
	});
	let kern_segs = seg_family::<TxKernel>(&mut b, &mut p, FX_KERN, D_SEG_KERN, false, &|p, i| {
		rnd_kernel(p, i)
	});
	for (i, (seg, fx, label)) in out_segs.iter().enumerate() {
		if i % 3 == 1 {
			let r = OutputSegmentResponse {
				response: SegmentResponse {
					block_hash: rnd_hash(&mut p),
					segment: seg.clone(),
				},
				output_bitmap_root: rnd_hash(&mut p),
			};
			b.add(D_OUTSEGRESP, 0, *fx, true, label, &r);
		}
	}
	for (i, (seg, fx, label)) in rp_segs.iter().enumerate() {
		if i % 4 == 1 {
			let r = SegmentResponse {
				block_hash: rnd_hash(&mut p),
				segment: seg.clone(),
			};
			b.add(D_RPSEGRESP, 0, *fx, true, label, &r);
		}
	}
	for (i, (seg, fx, label)) in kern_segs.iter().enumerate() {
		if i % 3 == 1 {
			let r = SegmentResponse {
				block_hash: rnd_hash(&mut p),
				segment: seg.clone(),
			};
			b.add(D_KERNSEGRESP, 0, *fx, true, label, &r);
		}
	}
	b.add(
		D_SEGPROOF,
		0,
		u32::MAX,
		true,
		"proof of a kernel segment",
		&Two(kern_segs[5].0.proof(), &RawBytes(vec![])),
	);
	b.add(
		D_SEGPROOF,
		0,
		u32::MAX,
		true,
		"empty-ish proof",
		&Two(kern_segs[0].0.proof(), &RawBytes(vec![])),
	);
	for (h, idx) in [(0u8, 0u64), (3, 2), (9, 1_000_000), (13, 5)] {
		let id = SegmentIdentifier { height: h, idx };
		b.add(D_SEGID, 0, u32::MAX, true, &format!("h={} idx={}", h, idx), &id);
		let rq = SegmentRequest {
			block_hash: rnd_hash(&mut p),
			identifier: id,
		};
		b.add(D_SEGREQ, 0, u32::MAX, true, &format!("h={} idx={}", h, idx), &rq);
	}

	// ---- bitmap segments
	let mut bitmap_seeds: Vec<(BitmapSegment, u32, String)> = vec![];
	let bshapes: [(u64, u8, u64); 7] = [
		(1, 0, 0),
		(5, 1, 1),
		(5, 2, 1),
		(20, 2, 2),
		(20, 4, 1),
		(20, 3, 0),
		(70, 6, 0),
	];
	for n in [1u64, 5, 20, 70] {
		let bits = n * 1024 - 100;
		let idx: Vec<u64> = (0..bits)
			.filter(|i| {
				let c = i / 1024;
				match c % 3 {
					0 => i % 97 == 0,
					1 => i % 89 != 0,
					_ => i % 2 == 0,
				}
			})
			.collect();
		let mut acc = BitmapAccumulator::new();
		acc.init(idx.into_iter(), bits).expect("bitmap init");
		let ro = acc.readonly_pmmr();
		let size = ro.unpruned_size();
		let root = acc.root();
		let other = rnd_hash(&mut p);
		let hash_last_pos = pmmr::insertion_to_pmmr_index(bits);
		let final_root = (other, root).hash_with_index(hash_last_pos);
		let fx = b.fixture(Fixture {
			kind: FX_BITMAP,
			n_leaves: pmmr::n_leaves(size),
			size,
			root,
			other,
			final_root,
			hash_last_pos,
		});
		for (sn, h, i) in bshapes.iter() {
			if *sn != n {
				continue;
			}
			let id = SegmentIdentifier {
				height: *h,
				idx: *i,
			};
			if let Ok(seg) = Segment::from_pmmr(id, &ro, false) {
				let label = format!("chunks={} h={} idx={}", n, h, i);
				b.add(D_SEG_CHUNK, 0, fx, true, &label, &ChunkSegEnc(seg.clone()));
				let bs = BitmapSegment::from(seg);
				b.add(D_BITMAPSEG, 0, fx, true, &label, &bs);
				bitmap_seeds.push((bs, fx, label));
			}
		}
	}
	for (i, (bs, fx, label)) in bitmap_seeds.iter().enumerate() {
		if i % 2 == 1 {
			let r = OutputBitmapSegmentResponse {
				block_hash: rnd_hash(&mut p),
				segment: bs.clone(),
				output_root: rnd_hash(&mut p),
			};
			b.add(D_BITMAPSEGRESP, 0, *fx, true, label, &r);
		}
	}

	// ---- message headers
	for net in [0u8, 1] {
		for (ty, len) in [(3u8, 16u64), (11, 5000), (9, 2 + 365 * 3), (200, 10), (24, 100_000)] {
			let label = format!("type={} len={}", ty, len);
			b.add(
				D_MSGHEADER,
				net,
				u32::MAX,
				!(net == 0 && ty == 24),
				&label,
				&Framed {
					net,
					ty,
					body: &RawBytes(vec![]),
				}
				.with_len(len),
			);
		}
	}

	// ---- codec (socket) seeds: one framed message per type
	{
		let c = D_CODEC;
		let x = u32::MAX;
		b.framed(c, 0, x, true, "Ping", Type::Ping as u8, &ping);
		b.framed(c, 1, x, true, "Ping (mainnet)", Type::Ping as u8, &ping);
		b.framed(c, 0, x, true, "Pong", Type::Pong as u8, &pong);
		b.framed(c, 0, x, true, "BanReason", Type::BanReason as u8, &ban);
		b.framed(c, 0, x, true, "TransactionKernel", Type::TransactionKernel as u8, &some_hash);
		b.framed(c, 0, x, true, "GetTransaction", Type::GetTransaction as u8, &some_hash);
		b.framed(c, 0, x, true, "Transaction", Type::Transaction as u8, &tx1);
		b.framed(c, 0, x, true, "StemTransaction", Type::StemTransaction as u8, &tx2);
		b.framed(c, 1, x, true, "Transaction agg (mainnet)", Type::Transaction as u8, &agg);
		b.framed(c, 0, x, true, "GetBlock", Type::GetBlock as u8, &some_hash);
		b.framed(c, 0, x, true, "Block small", Type::Block as u8, &blk_small);
		b.framed(c, 0, x, true, "Block medium", Type::Block as u8, &blk_med);
		b.framed(c, 1, x, false, "Block (mainnet)", Type::Block as u8, &mn_block);
		b.framed(c, 0, x, true, "GetCompactBlock", Type::GetCompactBlock as u8, &some_hash);
		b.framed(c, 0, x, true, "CompactBlock", Type::CompactBlock as u8, &cb_med);
		b.framed(c, 1, x, false, "CompactBlock (mainnet)", Type::CompactBlock as u8, &mn_cb);
		b.framed(c, 0, x, true, "GetHeaders", Type::GetHeaders as u8, &loc20);
		b.framed(c, 0, x, true, "Header", Type::Header as u8, &blk_med.header);
		b.framed(c, 1, x, false, "Header (mainnet)", Type::Header as u8, &mainnet_headers[4]);
		let hs3 = Headers {
			headers: chain_headers[0..3].to_vec(),
		};
		let hs35 = Headers {
			headers: chain_headers.clone(),
		};
		let hs_mn = Headers {
			headers: mainnet_headers[0..3].to_vec(),
		};
		b.framed(c, 0, x, true, "Headers x3", Type::Headers as u8, &hs3);
		b.framed(c, 0, x, true, "Headers x35", Type::Headers as u8, &hs35);
		b.framed(c, 1, x, false, "Headers x3 (mainnet)", Type::Headers as u8, &hs_mn);
		b.framed(c, 0, x, true, "GetPeerAddrs", Type::GetPeerAddrs as u8, &gpa);
		b.framed(c, 0, x, true, "PeerAddrs", Type::PeerAddrs as u8, &pa3);
		b.framed(c, 0, x, true, "TxHashSetRequest", Type::TxHashSetRequest as u8, &thr);
		b.framed(c, 0, x, true, "TxHashSetArchive", Type::TxHashSetArchive as u8, &tha);
		let rq = SegmentRequest {
			block_hash: some_hash,
			identifier: SegmentIdentifier { height: 9, idx: 3 },
		};
		for t in [
			Type::GetOutputBitmapSegment,
			Type::GetOutputSegment,
			Type::GetRangeProofSegment,
			Type::GetKernelSegment,
		] {
			b.framed(c, 0, x, true, &format!("{:?}", t), t as u8, &rq);
		}
		let (bs, bfx, _) = &bitmap_seeds[2];
		b.framed(
			c,
			0,
			*bfx,
			true,
			"OutputBitmapSegment",
			Type::OutputBitmapSegment as u8,
			&OutputBitmapSegmentResponse {
				block_hash: some_hash,
				segment: bs.clone(),
				output_root: rnd_hash(&mut p),
			},
		);
		let (os, ofx, _) = &out_segs[2];
		b.framed(
			c,
			0,
			*ofx,
			true,
			"OutputSegment",
			Type::OutputSegment as u8,
			&OutputSegmentResponse {
				response: SegmentResponse {
					block_hash: some_hash,
					segment: os.clone(),
				},
				output_bitmap_root: rnd_hash(&mut p),
			},
		);
		let (os, ofx, _) = &out_segs[6];
		b.framed(
			c,
			1,
			*ofx,
			true,
			"OutputSegment (mainnet)",
			Type::OutputSegment as u8,
			&OutputSegmentResponse {
				response: SegmentResponse {
					block_hash: some_hash,
					segment: os.clone(),
				},
				output_bitmap_root: rnd_hash(&mut p),
			},
		);
		let (rs, rfx, _) = &rp_segs[1];
		b.framed(
			c,
			0,
			*rfx,
			true,
			"RangeProofSegment",
			Type::RangeProofSegment as u8,
			&SegmentResponse {
				block_hash: some_hash,
				segment: rs.clone(),
			},
		);
		let (ks, kfx, _) = &kern_segs[3];
		b.framed(
			c,
			0,
			*kfx,
			true,
			"KernelSegment",
			Type::KernelSegment as u8,
			&SegmentResponse {
				block_hash: some_hash,
				segment: ks.clone(),
			},
		);
		// types the codec must refuse, an unknown type, and two messages back to back
		b.framed(c, 0, x, false, "Hand (unexpected)", Type::Hand as u8, &hand);
		b.framed(c, 0, x, false, "Shake (unexpected)", Type::Shake as u8, &shake);
		b.framed(c, 0, x, false, "Error (unexpected)", Type::Error as u8, &RawBytes(vec![]));
		b.framed(c, 0, x, true, "unknown type 200", 200, &RawBytes(vec![1, 2, 3, 4, 5]));
		b.add(
			c,
			0,
			x,
			true,
			"Ping+Pong",
			&Two(
				&Framed {
					net: 0,
					ty: Type::Ping as u8,
					body: &ping,
				},
				&Framed {
					net: 0,
					ty: Type::Pong as u8,
					body: &pong,
				},
			),
		);
	}

	Corpus {
		seeds: b.seeds,
		fixtures: b.fixtures,
	}
}

/// A bare message header announcing `len` bytes.
struct HeaderOnly {
	net: u8,
	ty: u8,
	len: u64,
}
impl Writeable for HeaderOnly {
	fn write<W: Writer>(&self, w: &mut W) -> Result<(), ser::Error> {
		let m = magic_for(self.net);
		w.write_u8(m[0])?;
		w.write_u8(m[1])?;
		w.write_u8(self.ty)?;
		w.write_u64(self.len)
	}
}
impl<'a, W: Writeable> Framed<'a, W> {
	fn with_len(&self, len: u64) -> HeaderOnly {
		HeaderOnly {
			net: self.net,
			ty: self.ty,
			len,
		}
	}
}
