fn main() {}
