//! C10 - Encoding round-trips and object hashes are version-independent and canonical.
//!
//! Runtime monitoring of the real (de)serialisers of grin: generators produce
//! values of every consensus / wire type, every value is encoded at protocol
//! versions 1, 2, 3 and 1000 (local; db versions are 1 and 3), decoded with two
//! different reader implementations (BinReader with a sentinel behind the
//! encoding, BufReader with its byte counter), compared field by field with the
//! original, re-encoded (must be byte-identical), carried across versions and
//! hashed (identity hashes must not move and must equal the hash of the v1
//! definition bytes produced by an independent reference encoder).
//! A second half perturbs valid encodings so that they break a canonical-form
//! rule of the format (by construction) and requires the decoders to refuse.

use chrono::{DateTime, NaiveDate, Utc};
use grin_chain::linked_list::{ListEntry, ListWrapper};
use grin_chain::txhashset::{BitmapAccumulator, BitmapChunk, BitmapSegment};
use grin_chain::types::{CommitPos, Tip};
use grin_core::consensus;
use grin_core::core::hash::{Hash, Hashed, ZERO_HASH};
use grin_core::core::id::ShortIdentifiable;
use grin_core::core::merkle_proof::MerkleProof;
use grin_core::core::pmmr::{self, ReadablePMMR, ReadonlyPMMR, VecBackend, PMMR};
use grin_core::core::{
	Block, BlockHeader, BlockSums, CommitWrapper, CompactBlock, FeeFields, HeaderVersion, Input,
	Inputs, KernelFeatures, NRDRelativeHeight, Output, OutputFeatures, OutputIdentifier, Segment,
	SegmentIdentifier, SegmentProof, ShortId, Transaction, TransactionBody, TxKernel,
	UntrustedBlock, UntrustedBlockHeader, UntrustedCompactBlock,
};
use grin_core::genesis;
use grin_core::global::{self, ChainTypes};
use grin_core::pow::{Difficulty, Proof, ProofOfWork};
use grin_core::ser::{
	self, BufReader, DeserializationMode, PMMRable, ProtocolVersion, Readable, Reader, Writeable,
};
use grin_keychain::BlindingFactor;
use grin_p2p::msg::{
	BanReason, GetPeerAddrs, Hand, Headers, Locator, MsgHeader, MsgHeaderWrapper,
	OutputBitmapSegmentResponse, OutputSegmentResponse, PeerAddrs, PeerError, Ping, Pong,
	SegmentRequest, SegmentResponse, Shake, TxHashSetArchive, TxHashSetRequest, Type,
};
use grin_p2p::types::{Capabilities, PeerAddr, ReasonForBan};
use grin_p2p::{PeerData, State};
use grin_util::secp::key::SecretKey;
use grin_util::secp::pedersen::{Commitment, RangeProof};
use grin_util::secp::{ContextFlag, Secp256k1, Signature};
use serde_json::{json, Value};
use std::collections::{BTreeMap, HashSet, VecDeque};
use std::net::{Ipv4Addr, Ipv6Addr, SocketAddr, SocketAddrV4, SocketAddrV6};
use std::sync::{Arc, Mutex};
use std::time::{Duration, Instant};
use vcommon::monitor::{catch, PanicReport};
use vcommon::prng::fnv64;
use vcommon::world::{init_globals, init_thread, World};
use vcommon::{Prng, Run};

const VERSIONS: [u32; 4] = [1, 2, 3, 1000];
const SENT: [u8; 7] = [0xA5, 0x5A, 0xC3, 0x3C, 0x96, 0x69, 0xF0];
const FEE_MASK: u64 = (1u64 << 40) - 1;
const CHAINS: [ChainTypes; 4] = [
	ChainTypes::AutomatedTesting,
	ChainTypes::UserTesting,
	ChainTypes::Testnet,
	ChainTypes::Mainnet,
];

fn pv(v: u32) -> ProtocolVersion {
	ProtocolVersion(v)
}

fn ct_name(ct: ChainTypes) -> &'static str {
	match ct {
		ChainTypes::AutomatedTesting => "AutomatedTesting",
		ChainTypes::UserTesting => "UserTesting",
		ChainTypes::Testnet => "Testnet",
		ChainTypes::Mainnet => "Mainnet",
	}
}

fn hx(b: &[u8]) -> String {
	const MAX: usize = 6000;
	let mut s = String::with_capacity(2 * b.len().min(MAX) + 16);
	for x in b.iter().take(MAX) {
		s.push_str(&format!("{:02x}", x));
	}
	if b.len() > MAX {
		s.push_str(&format!("...(+{} bytes)", b.len() - MAX));
	}
	s
}

fn short(s: String) -> String {
	if s.len() > 400 {
		let mut e = 400;
		while !s.is_char_boundary(e) {
			e -= 1;
		}
		format!("{}...", &s[..e])
	} else {
		s
	}
}

fn be64(v: u64) -> [u8; 8] {
	v.to_be_bytes()
}

/// blake2b-256 of raw bytes through the hash primitive of the code base.
fn h_of(bytes: &[u8]) -> Hash {
	bytes.to_vec().hash()
}

// ------------------------------------------------------------------ context

struct Cx<'a> {
	run: &'a Run,
	ct: &'static str,
	counts: BTreeMap<String, u64>,
	evals: u64,
	sigs: HashSet<u64>,
	deadline: Instant,
	first_only_armed: bool,
	task: String,
	seq: u64,
}

static VIOLS: Mutex<BTreeMap<String, ((String, u64), String, Value)>> = Mutex::new(BTreeMap::new());

impl<'a> Cx<'a> {
	fn new(run: &'a Run, ct: ChainTypes, deadline: Instant) -> Cx<'a> {
		global::set_local_chain_type(ct);
		global::set_local_nrd_enabled(true);
		Cx {
			run,
			ct: ct_name(ct),
			counts: BTreeMap::new(),
			evals: 0,
			sigs: HashSet::new(),
			deadline,
			first_only_armed: true,
			task: String::new(),
			seq: 0,
		}
	}
	fn named(mut self, task: &str) -> Self {
		self.task = task.to_string();
		self
	}
	fn bump(&mut self, k: &str) {
		self.bump_n(k, 1);
	}
	fn bump_n(&mut self, k: &str, n: u64) {
		*self.counts.entry(k.to_string()).or_insert(0) += n;
	}
	fn eval(&mut self, sig: &str) {
		self.evals += 1;
		self.sigs.insert(fnv64(sig.as_bytes()));
	}
	fn expired(&mut self) -> bool {
		if Instant::now() > self.deadline {
			self.bump("budget.loops_cut_by_time");
			true
		} else {
			false
		}
	}
	fn flush(&mut self) {
		for (k, v) in std::mem::take(&mut self.counts) {
			self.run.count(&k, v);
		}
		let sigs: Vec<u64> = self.sigs.drain().collect();
		self.run.eval_bulk(self.evals, sigs);
		self.evals = 0;
	}
	fn violation(&mut self, sig: &str, what: &str, replay: Value) {
		self.bump("violations.raised");
		self.seq += 1;
		// collected and submitted in a deterministic order at the end (independent of thread timing)
		let mut v = VIOLS.lock().unwrap();
		let key = (self.task.clone(), self.seq);
		match v.get(sig) {
			Some((k, _, _)) if *k <= key => {}
			_ => {
				v.insert(sig.to_string(), (key, what.to_string(), replay));
			}
		}
	}
	/// Inside one round-trip evaluation only the first failing oracle clause is reported, so that
	/// one defect maps to one signature (later clauses fail as a consequence of the first).
	fn violation_first(&mut self, sig: &str, what: &str, replay: Value) {
		if self.first_only_armed {
			self.first_only_armed = false;
			self.violation(sig, what, replay);
		} else {
			self.bump("violations.consequential_clauses_suppressed");
		}
	}
}

impl<'a> Drop for Cx<'a> {
	fn drop(&mut self) {
		self.flush();
	}
}

// ------------------------------------------------------------------ decoding helpers

enum Dec<T> {
	Ok(T, usize),
	Err(ser::Error),
	Panic(PanicReport),
}

/// Decode with the BinReader (`ser::deserialize`); reports how many bytes were consumed.
fn dec_bin<T: Readable>(bytes: &[u8], v: u32) -> Dec<T> {
	let mut cur: &[u8] = bytes;
	let r = catch(|| ser::deserialize::<T, _>(&mut cur, pv(v), DeserializationMode::default()));
	match r {
		Err(p) => Dec::Panic(p),
		Ok(Err(e)) => Dec::Err(e),
		Ok(Ok(y)) => Dec::Ok(y, bytes.len() - cur.len()),
	}
}

/// Decode with the BufReader (the reader of the p2p codec); consumption from its own counter.
fn dec_buf<T: Readable>(bytes: &[u8], v: u32) -> Dec<T> {
	let mut b: &[u8] = bytes;
	let r = catch(|| {
		let mut rd = BufReader::new(&mut b, pv(v));
		let res = rd.body::<T>();
		(res, rd.bytes_read() as usize)
	});
	match r {
		Err(p) => Dec::Panic(p),
		Ok((Err(e), _)) => Dec::Err(e),
		Ok((Ok(y), n)) => Dec::Ok(y, n),
	}
}

// ------------------------------------------------------------------ reference encoders
// Written from the format definition (comments of the code base / RFCs), not from the writers.

fn kfeat_parts(f: &KernelFeatures) -> (u8, Option<u64>, Option<u64>, Option<u16>) {
	match f {
		KernelFeatures::Plain { fee } => (0, Some(u64::from(*fee)), None, None),
		KernelFeatures::Coinbase => (1, None, None, None),
		KernelFeatures::HeightLocked { fee, lock_height } => {
			(2, Some(u64::from(*fee)), Some(*lock_height), None)
		}
		KernelFeatures::NoRecentDuplicate {
			fee,
			relative_height,
		} => (
			3,
			Some(u64::from(*fee)),
			None,
			Some(u64::from(*relative_height) as u16),
		),
	}
}

fn ref_kfeat(f: &KernelFeatures, v: u32) -> Vec<u8> {
	let (tag, fee, lock, rel) = kfeat_parts(f);
	let mut o = vec![tag];
	if v <= 1 {
		// fixed size: tag, 8 bytes fee fields (0 if unused), 8 bytes feature data (0 if unused)
		o.extend_from_slice(&be64(fee.unwrap_or(0)));
		if let Some(l) = lock {
			o.extend_from_slice(&be64(l));
		} else if let Some(r) = rel {
			o.extend_from_slice(&[0u8; 6]);
			o.extend_from_slice(&r.to_be_bytes());
		} else {
			o.extend_from_slice(&[0u8; 8]);
		}
	} else {
		if let Some(f) = fee {
			o.extend_from_slice(&be64(f));
		}
		if let Some(l) = lock {
			o.extend_from_slice(&be64(l));
		}
		if let Some(r) = rel {
			o.extend_from_slice(&r.to_be_bytes());
		}
	}
	o
}

fn ref_kernel(k: &TxKernel, v: u32) -> Vec<u8> {
	let mut o = ref_kfeat(&k.features, v);
	o.extend_from_slice(&k.excess.0);
	o.extend_from_slice(k.excess_sig.as_ref());
	o
}

fn ref_outid(f: OutputFeatures, c: &Commitment) -> Vec<u8> {
	let mut o = vec![f as u8];
	o.extend_from_slice(&c.0);
	o
}

fn ref_output(x: &Output) -> Vec<u8> {
	let mut o = ref_outid(x.identifier.features, &x.identifier.commit);
	o.extend_from_slice(&be64(x.proof.plen as u64));
	o.extend_from_slice(&x.proof.proof[..x.proof.plen]);
	o
}

/// Pack nonces at their exact bit width, little endian bit order, zero padded to a byte.
fn ref_pack(nonces: &[u64], eb: u8) -> Vec<u8> {
	let bits = nonces.len() * eb as usize;
	let mut o = vec![0u8; (bits + 7) / 8];
	for (i, n) in nonces.iter().enumerate() {
		for b in 0..eb as usize {
			if (n >> b) & 1 == 1 {
				let pos = i * eb as usize + b;
				o[pos / 8] |= 1 << (pos % 8);
			}
		}
	}
	o
}

fn ref_proof(p: &Proof) -> Vec<u8> {
	let mut o = vec![p.edge_bits];
	o.extend_from_slice(&ref_pack(&p.nonces, p.edge_bits));
	o
}

fn ref_pow(p: &ProofOfWork) -> Vec<u8> {
	let mut o = vec![];
	o.extend_from_slice(&be64(p.total_difficulty.to_num()));
	o.extend_from_slice(&p.secondary_scaling.to_be_bytes());
	o.extend_from_slice(&be64(p.nonce));
	o.extend_from_slice(&ref_proof(&p.proof));
	o
}

fn ref_header(h: &BlockHeader) -> Vec<u8> {
	let mut o = vec![];
	o.extend_from_slice(&h.version.0.to_be_bytes());
	o.extend_from_slice(&be64(h.height));
	o.extend_from_slice(&h.timestamp.timestamp().to_be_bytes());
	o.extend_from_slice(h.prev_hash.as_bytes());
	o.extend_from_slice(h.prev_root.as_bytes());
	o.extend_from_slice(h.output_root.as_bytes());
	o.extend_from_slice(h.range_proof_root.as_bytes());
	o.extend_from_slice(h.kernel_root.as_bytes());
	o.extend_from_slice(h.total_kernel_offset.as_ref());
	o.extend_from_slice(&be64(h.output_mmr_size));
	o.extend_from_slice(&be64(h.kernel_mmr_size));
	o.extend_from_slice(&ref_pow(&h.pow));
	o
}

/// Element chunks of a body in canonical order for protocol version `v`.
struct BodyParts {
	ins: Vec<Vec<u8>>,
	outs: Vec<Vec<u8>>,
	kers: Vec<Vec<u8>>,
	/// identity hashes (sort keys) of the chunks, from the definition
	ins_key: Vec<Hash>,
	outs_key: Vec<Hash>,
	kers_key: Vec<Hash>,
}

fn body_parts(b: &TransactionBody, v: u32) -> Option<BodyParts> {
	let mut ins: Vec<(Hash, Vec<u8>)> = vec![];
	match &b.inputs {
		Inputs::FeaturesAndCommit(xs) => {
			if v <= 2 {
				for i in xs {
					let c = ref_outid(i.features, &i.commit);
					ins.push((h_of(&c), c));
				}
			} else {
				for i in xs {
					ins.push((h_of(&i.commit.0), i.commit.0.to_vec()));
				}
				// commit-only inputs are ordered by the hash of the commitment
				ins.sort_by(|a, b| a.0.cmp(&b.0));
			}
		}
		Inputs::CommitOnly(xs) => {
			if v <= 2 && !xs.is_empty() {
				return None;
			}
			for c in xs {
				let c = c.commitment();
				ins.push((h_of(&c.0), c.0.to_vec()));
			}
		}
	}
	let mut p = BodyParts {
		ins: vec![],
		outs: vec![],
		kers: vec![],
		ins_key: vec![],
		outs_key: vec![],
		kers_key: vec![],
	};
	for (k, c) in ins {
		p.ins_key.push(k);
		p.ins.push(c);
	}
	for o in &b.outputs {
		p.outs_key
			.push(h_of(&ref_outid(o.identifier.features, &o.identifier.commit)));
		p.outs.push(ref_output(o));
	}
	for k in &b.kernels {
		p.kers_key.push(h_of(&ref_kernel(k, 1)));
		p.kers.push(ref_kernel(k, v));
	}
	Some(p)
}

fn strictly_increasing(k: &[Hash]) -> bool {
	k.windows(2).all(|w| w[0] < w[1])
}

fn assemble3(prefix: &[u8], counts: [u64; 3], lists: [&Vec<Vec<u8>>; 3]) -> Vec<u8> {
	let mut o = prefix.to_vec();
	for c in counts.iter() {
		o.extend_from_slice(&be64(*c));
	}
	for l in lists.iter() {
		for c in l.iter() {
			o.extend_from_slice(c);
		}
	}
	o
}

fn ref_body(b: &TransactionBody, v: u32) -> Option<Vec<u8>> {
	let p = body_parts(b, v)?;
	Some(assemble3(
		&[],
		[p.ins.len() as u64, p.outs.len() as u64, p.kers.len() as u64],
		[&p.ins, &p.outs, &p.kers],
	))
}

// ------------------------------------------------------------------ the Case trait

trait Case: Writeable + Readable + Sized {
	fn fam() -> &'static str;
	/// None when `got` (decoded after transport at version `v`) equals self in the sense of the property.
	fn diff(&self, got: &Self, v: u32) -> Option<String>;
	/// Identity hash that must survive any transport.
	fn id_hash(&self) -> Option<Hash> {
		None
	}
	/// The same hash computed from the definition with the reference encoder.
	fn ref_hash(&self) -> Option<Hash> {
		None
	}
	/// Can version `v` encode this value at all.
	fn carried(&self, _v: u32) -> bool {
		true
	}
	/// Can the decoder of version `v` accept the encoding (format limit, not a defect).
	fn decodable(&self, _v: u32) -> bool {
		true
	}
	fn ref_bytes(&self, _v: u32) -> Option<Vec<u8>> {
		None
	}
	/// Encoding class of version v (part of violation signatures).
	fn enc_class(_v: u32) -> &'static str {
		"any"
	}
	/// Value class (part of violation signatures).
	fn val_class(&self) -> String {
		String::new()
	}
}

fn dbg_diff<T: std::fmt::Debug>(a: &T, b: &T) -> Option<String> {
	Some(short(format!("{:?} != {:?}", a, b)))
}

macro_rules! case_eq {
	($t:ty, $fam:expr) => {
		impl Case for $t {
			fn fam() -> &'static str {
				$fam
			}
			fn diff(&self, g: &Self, _v: u32) -> Option<String> {
				if self == g {
					None
				} else {
					dbg_diff(self, g)
				}
			}
		}
	};
}

fn kclass(v: u32) -> &'static str {
	if v <= 1 {
		"v1"
	} else {
		"v2"
	}
}

fn bclass(v: u32) -> &'static str {
	match v {
		0..=1 => "v1",
		2 => "v2",
		_ => "v3",
	}
}

impl Case for KernelFeatures {
	fn fam() -> &'static str {
		"KernelFeatures"
	}
	fn diff(&self, g: &Self, _v: u32) -> Option<String> {
		if self == g {
			None
		} else {
			dbg_diff(self, g)
		}
	}
	fn ref_bytes(&self, v: u32) -> Option<Vec<u8>> {
		Some(ref_kfeat(self, v))
	}
	fn enc_class(v: u32) -> &'static str {
		kclass(v)
	}
}

fn diff_kernel(a: &TxKernel, b: &TxKernel) -> Option<String> {
	if a.features != b.features || a.excess != b.excess || a.excess_sig != b.excess_sig || a != b {
		dbg_diff(a, b)
	} else {
		None
	}
}

impl Case for TxKernel {
	fn fam() -> &'static str {
		"TxKernel"
	}
	fn diff(&self, g: &Self, _v: u32) -> Option<String> {
		diff_kernel(self, g)
	}
	fn id_hash(&self) -> Option<Hash> {
		Some(self.hash())
	}
	fn ref_hash(&self) -> Option<Hash> {
		Some(h_of(&ref_kernel(self, 1)))
	}
	fn ref_bytes(&self, v: u32) -> Option<Vec<u8>> {
		Some(ref_kernel(self, v))
	}
	fn enc_class(v: u32) -> &'static str {
		kclass(v)
	}
}

impl Case for Input {
	fn fam() -> &'static str {
		"Input"
	}
	fn diff(&self, g: &Self, _v: u32) -> Option<String> {
		if self.features != g.features || self.commit != g.commit {
			dbg_diff(self, g)
		} else {
			None
		}
	}
	fn id_hash(&self) -> Option<Hash> {
		Some(self.hash())
	}
	fn ref_hash(&self) -> Option<Hash> {
		Some(h_of(&ref_outid(self.features, &self.commit)))
	}
	fn ref_bytes(&self, _v: u32) -> Option<Vec<u8>> {
		Some(ref_outid(self.features, &self.commit))
	}
}

impl Case for CommitWrapper {
	fn fam() -> &'static str {
		"CommitWrapper"
	}
	fn diff(&self, g: &Self, _v: u32) -> Option<String> {
		if self.commitment() != g.commitment() {
			dbg_diff(self, g)
		} else {
			None
		}
	}
	fn id_hash(&self) -> Option<Hash> {
		Some(self.hash())
	}
	fn ref_hash(&self) -> Option<Hash> {
		Some(h_of(&self.commitment().0))
	}
	fn ref_bytes(&self, _v: u32) -> Option<Vec<u8>> {
		Some(self.commitment().0.to_vec())
	}
}

impl Case for OutputIdentifier {
	fn fam() -> &'static str {
		"OutputIdentifier"
	}
	fn diff(&self, g: &Self, _v: u32) -> Option<String> {
		if self.features != g.features || self.commit != g.commit {
			dbg_diff(self, g)
		} else {
			None
		}
	}
	fn id_hash(&self) -> Option<Hash> {
		Some(self.hash())
	}
	fn ref_hash(&self) -> Option<Hash> {
		Some(h_of(&ref_outid(self.features, &self.commit)))
	}
	fn ref_bytes(&self, _v: u32) -> Option<Vec<u8>> {
		Some(ref_outid(self.features, &self.commit))
	}
}

fn diff_output(a: &Output, b: &Output) -> Option<String> {
	if a.identifier.features != b.identifier.features
		|| a.identifier.commit != b.identifier.commit
		|| a.proof.plen != b.proof.plen
		|| a.proof.proof[..] != b.proof.proof[..]
	{
		dbg_diff(a, b)
	} else {
		None
	}
}

impl Case for Output {
	fn fam() -> &'static str {
		"Output"
	}
	fn diff(&self, g: &Self, _v: u32) -> Option<String> {
		diff_output(self, g)
	}
	fn id_hash(&self) -> Option<Hash> {
		Some(self.identifier().hash())
	}
	fn ref_hash(&self) -> Option<Hash> {
		Some(h_of(&ref_outid(
			self.identifier.features,
			&self.identifier.commit,
		)))
	}
	fn ref_bytes(&self, _v: u32) -> Option<Vec<u8>> {
		Some(ref_output(self))
	}
}

impl Case for RangeProof {
	fn fam() -> &'static str {
		"RangeProof"
	}
	fn diff(&self, g: &Self, _v: u32) -> Option<String> {
		if self.plen != g.plen || self.proof[..] != g.proof[..] {
			Some("range proof bytes differ".into())
		} else {
			None
		}
	}
}

fn commits_by_hash(xs: &[Input]) -> Vec<Commitment> {
	let mut c: Vec<Commitment> = xs.iter().map(|i| i.commit).collect();
	c.sort_by_key(|c| h_of(&c.0));
	c
}

fn diff_inputs(x: &Inputs, y: &Inputs, v: u32) -> Option<String> {
	if x.len() == 0 {
		return if y.len() == 0 {
			None
		} else {
			Some("decoded inputs not empty".into())
		};
	}
	match (x, y) {
		(Inputs::FeaturesAndCommit(a), Inputs::FeaturesAndCommit(b)) if v <= 2 => {
			if a.len() != b.len()
				|| a.iter()
					.zip(b.iter())
					.any(|(p, q)| p.features != q.features || p.commit != q.commit)
			{
				Some(short(format!("inputs differ: {:?} != {:?}", a, b)))
			} else {
				None
			}
		}
		(Inputs::FeaturesAndCommit(a), Inputs::CommitOnly(b)) if v >= 3 => {
			let want = commits_by_hash(a);
			let got: Vec<Commitment> = b.iter().map(|c| c.commitment()).collect();
			if want != got {
				Some(short(format!(
					"inputs differ by commitment: {:?} != {:?}",
					want, got
				)))
			} else {
				None
			}
		}
		(Inputs::CommitOnly(a), Inputs::CommitOnly(b)) => {
			let p: Vec<Commitment> = a.iter().map(|c| c.commitment()).collect();
			let q: Vec<Commitment> = b.iter().map(|c| c.commitment()).collect();
			if p != q {
				Some(short(format!("commit-only inputs differ: {:?} != {:?}", p, q)))
			} else {
				None
			}
		}
		_ => Some(format!(
			"unexpected inputs variant after transport at v{}: {} -> {}",
			v,
			x.version_str(),
			y.version_str()
		)),
	}
}

fn diff_body(x: &TransactionBody, y: &TransactionBody, v: u32) -> Option<String> {
	if let Some(d) = diff_inputs(&x.inputs, &y.inputs, v) {
		return Some(d);
	}
	if x.outputs.len() != y.outputs.len() {
		return Some("output count differs".into());
	}
	for (a, b) in x.outputs.iter().zip(y.outputs.iter()) {
		if let Some(d) = diff_output(a, b) {
			return Some(d);
		}
	}
	if x.kernels.len() != y.kernels.len() {
		return Some("kernel count differs".into());
	}
	for (a, b) in x.kernels.iter().zip(y.kernels.iter()) {
		if let Some(d) = diff_kernel(a, b) {
			return Some(d);
		}
	}
	None
}

fn body_carried(b: &TransactionBody, v: u32) -> bool {
	match &b.inputs {
		Inputs::CommitOnly(xs) => xs.is_empty() || v >= 3,
		_ => true,
	}
}

fn inputs_class(i: &Inputs) -> &'static str {
	match i {
		_ if i.len() == 0 => "noinputs",
		Inputs::CommitOnly(_) => "commit_only",
		Inputs::FeaturesAndCommit(_) => "features_and_commit",
	}
}

impl Case for TransactionBody {
	fn fam() -> &'static str {
		"TransactionBody"
	}
	fn diff(&self, g: &Self, v: u32) -> Option<String> {
		diff_body(self, g, v)
	}
	fn carried(&self, v: u32) -> bool {
		body_carried(self, v)
	}
	fn ref_bytes(&self, v: u32) -> Option<Vec<u8>> {
		ref_body(self, v)
	}
	fn enc_class(v: u32) -> &'static str {
		bclass(v)
	}
	fn val_class(&self) -> String {
		inputs_class(&self.inputs).into()
	}
}

impl Case for Transaction {
	fn fam() -> &'static str {
		"Transaction"
	}
	fn diff(&self, g: &Self, v: u32) -> Option<String> {
		if self.offset != g.offset {
			return Some("offset differs".into());
		}
		diff_body(&self.body, &g.body, v)
	}
	fn id_hash(&self) -> Option<Hash> {
		// the tx hash covers the inputs as held in memory, so it is only an
		// invariant when the transport cannot change the inputs variant
		match &self.body.inputs {
			Inputs::FeaturesAndCommit(x) if !x.is_empty() => None,
			_ => Some(self.hash()),
		}
	}
	fn carried(&self, v: u32) -> bool {
		body_carried(&self.body, v)
	}
	fn ref_bytes(&self, v: u32) -> Option<Vec<u8>> {
		let mut o = self.offset.as_ref().to_vec();
		o.extend_from_slice(&ref_body(&self.body, v)?);
		Some(o)
	}
	fn enc_class(v: u32) -> &'static str {
		bclass(v)
	}
	fn val_class(&self) -> String {
		inputs_class(&self.body.inputs).into()
	}
}

fn proof_decodable(p: &Proof) -> bool {
	p.edge_bits >= 1 && p.edge_bits <= 63 && Proof::pack_len(p.edge_bits) >= 8
}

impl Case for Proof {
	fn fam() -> &'static str {
		"Proof"
	}
	fn diff(&self, g: &Self, _v: u32) -> Option<String> {
		if self == g {
			None
		} else {
			dbg_diff(self, g)
		}
	}
	fn id_hash(&self) -> Option<Hash> {
		Some(self.hash())
	}
	fn ref_hash(&self) -> Option<Hash> {
		Some(h_of(&ref_pack(&self.nonces, self.edge_bits)))
	}
	fn decodable(&self, _v: u32) -> bool {
		proof_decodable(self)
	}
	fn ref_bytes(&self, _v: u32) -> Option<Vec<u8>> {
		Some(ref_proof(self))
	}
}

impl Case for ProofOfWork {
	fn fam() -> &'static str {
		"ProofOfWork"
	}
	fn diff(&self, g: &Self, _v: u32) -> Option<String> {
		if self == g {
			None
		} else {
			dbg_diff(self, g)
		}
	}
	fn decodable(&self, _v: u32) -> bool {
		proof_decodable(&self.proof)
	}
	fn ref_bytes(&self, _v: u32) -> Option<Vec<u8>> {
		Some(ref_pow(self))
	}
}

impl Case for BlockHeader {
	fn fam() -> &'static str {
		"BlockHeader"
	}
	fn diff(&self, g: &Self, _v: u32) -> Option<String> {
		if self == g {
			None
		} else {
			dbg_diff(self, g)
		}
	}
	fn id_hash(&self) -> Option<Hash> {
		Some(self.hash())
	}
	fn ref_hash(&self) -> Option<Hash> {
		Some(h_of(&ref_pack(&self.pow.proof.nonces, self.pow.proof.edge_bits)))
	}
	fn decodable(&self, _v: u32) -> bool {
		proof_decodable(&self.pow.proof)
	}
	fn ref_bytes(&self, _v: u32) -> Option<Vec<u8>> {
		Some(ref_header(self))
	}
}

impl Case for Block {
	fn fam() -> &'static str {
		"Block"
	}
	fn diff(&self, g: &Self, v: u32) -> Option<String> {
		if self.header != g.header {
			return dbg_diff(&self.header, &g.header);
		}
		diff_body(&self.body, &g.body, v)
	}
	fn id_hash(&self) -> Option<Hash> {
		Some(self.hash())
	}
	fn ref_hash(&self) -> Option<Hash> {
		self.header.ref_hash()
	}
	fn carried(&self, v: u32) -> bool {
		body_carried(&self.body, v)
	}
	fn decodable(&self, _v: u32) -> bool {
		proof_decodable(&self.header.pow.proof)
	}
	fn ref_bytes(&self, v: u32) -> Option<Vec<u8>> {
		let mut o = ref_header(&self.header);
		o.extend_from_slice(&ref_body(&self.body, v)?);
		Some(o)
	}
	fn enc_class(v: u32) -> &'static str {
		bclass(v)
	}
	fn val_class(&self) -> String {
		inputs_class(&self.body.inputs).into()
	}
}

fn ref_compact(cb: &CompactBlock, v: u32) -> Vec<u8> {
	let outs: Vec<Vec<u8>> = cb.out_full().iter().map(ref_output).collect();
	let kers: Vec<Vec<u8>> = cb.kern_full().iter().map(|k| ref_kernel(k, v)).collect();
	let ids: Vec<Vec<u8>> = cb.kern_ids().iter().map(|i| i.as_ref().to_vec()).collect();
	let mut pre = ref_header(&cb.header);
	pre.extend_from_slice(&be64(cb.nonce));
	assemble3(
		&pre,
		[outs.len() as u64, kers.len() as u64, ids.len() as u64],
		[&outs, &kers, &ids],
	)
}

impl Case for CompactBlock {
	fn fam() -> &'static str {
		"CompactBlock"
	}
	fn diff(&self, g: &Self, _v: u32) -> Option<String> {
		if self.header != g.header {
			return dbg_diff(&self.header, &g.header);
		}
		if self.nonce != g.nonce {
			return Some("nonce differs".into());
		}
		if self.out_full().len() != g.out_full().len()
			|| self.kern_full().len() != g.kern_full().len()
			|| self.kern_ids().len() != g.kern_ids().len()
		{
			return Some("compact body lengths differ".into());
		}
		for (a, b) in self.out_full().iter().zip(g.out_full()) {
			if let Some(d) = diff_output(a, b) {
				return Some(d);
			}
		}
		for (a, b) in self.kern_full().iter().zip(g.kern_full()) {
			if let Some(d) = diff_kernel(a, b) {
				return Some(d);
			}
		}
		for (a, b) in self.kern_ids().iter().zip(g.kern_ids()) {
			if a.as_ref() != b.as_ref() {
				return dbg_diff(a, b);
			}
		}
		None
	}
	fn id_hash(&self) -> Option<Hash> {
		Some(self.hash())
	}
	fn ref_hash(&self) -> Option<Hash> {
		self.header.ref_hash()
	}
	fn decodable(&self, _v: u32) -> bool {
		proof_decodable(&self.header.pow.proof)
	}
	fn ref_bytes(&self, v: u32) -> Option<Vec<u8>> {
		Some(ref_compact(self, v))
	}
	fn enc_class(v: u32) -> &'static str {
		kclass(v)
	}
}

impl Case for ShortId {
	fn fam() -> &'static str {
		"ShortId"
	}
	fn diff(&self, g: &Self, _v: u32) -> Option<String> {
		if self.as_ref() != g.as_ref() {
			dbg_diff(self, g)
		} else {
			None
		}
	}
	fn id_hash(&self) -> Option<Hash> {
		Some(self.hash())
	}
	fn ref_hash(&self) -> Option<Hash> {
		Some(h_of(self.as_ref()))
	}
	fn ref_bytes(&self, _v: u32) -> Option<Vec<u8>> {
		Some(self.as_ref().to_vec())
	}
}

case_eq!(Hash, "Hash");
case_eq!(Difficulty, "Difficulty");
case_eq!(SegmentIdentifier, "SegmentIdentifier");
case_eq!(SegmentProof, "SegmentProof");
case_eq!(BitmapSegment, "BitmapSegment");
case_eq!(MerkleProof, "MerkleProof");
case_eq!(CommitPos, "CommitPos");
case_eq!(ListWrapper<CommitPos>, "ListWrapper");

impl Case for Tip {
	fn fam() -> &'static str {
		"Tip"
	}
	fn diff(&self, g: &Self, _v: u32) -> Option<String> {
		if self == g {
			None
		} else {
			dbg_diff(self, g)
		}
	}
	fn id_hash(&self) -> Option<Hash> {
		Some(self.hash())
	}
	fn ref_bytes(&self, _v: u32) -> Option<Vec<u8>> {
		let mut o = be64(self.height).to_vec();
		o.extend_from_slice(self.last_block_h.as_bytes());
		o.extend_from_slice(self.prev_block_h.as_bytes());
		o.extend_from_slice(&be64(self.total_difficulty.to_num()));
		Some(o)
	}
}

impl Case for BlockSums {
	fn fam() -> &'static str {
		"BlockSums"
	}
	fn diff(&self, g: &Self, _v: u32) -> Option<String> {
		if self.utxo_sum != g.utxo_sum || self.kernel_sum != g.kernel_sum {
			dbg_diff(self, g)
		} else {
			None
		}
	}
}

impl Case for ListEntry<CommitPos> {
	fn fam() -> &'static str {
		"ListEntry"
	}
	fn diff(&self, g: &Self, _v: u32) -> Option<String> {
		let same = match (self, g) {
			(ListEntry::Head { pos: a, next: b }, ListEntry::Head { pos: c, next: d }) => {
				a == c && b == d
			}
			(ListEntry::Tail { pos: a, prev: b }, ListEntry::Tail { pos: c, prev: d }) => {
				a == c && b == d
			}
			(
				ListEntry::Middle {
					pos: a,
					next: b,
					prev: c,
				},
				ListEntry::Middle {
					pos: d,
					next: e,
					prev: f,
				},
			) => a == d && b == e && c == f,
			_ => false,
		};
		if same {
			None
		} else {
			Some("list entry differs".into())
		}
	}
}

macro_rules! case_segment {
	($t:ty, $fam:expr, $cls:expr) => {
		impl Case for Segment<$t> {
			fn fam() -> &'static str {
				$fam
			}
			fn diff(&self, g: &Self, _v: u32) -> Option<String> {
				if self == g {
					None
				} else {
					dbg_diff(self, g)
				}
			}
			fn enc_class(v: u32) -> &'static str {
				if $cls {
					kclass(v)
				} else {
					"any"
				}
			}
		}
	};
}
case_segment!(OutputIdentifier, "Segment<OutputIdentifier>", false);
case_segment!(RangeProof, "Segment<RangeProof>", false);
case_segment!(TxKernel, "Segment<TxKernel>", true);

// ---- p2p messages (no PartialEq in the code base: field by field)

fn addr_class(a: &PeerAddr) -> String {
	match a.0 {
		SocketAddr::V4(_) => "v4".into(),
		SocketAddr::V6(s) => {
			let seg = s.ip().segments();
			if seg[..5] == [0, 0, 0, 0, 0] && seg[5] == 0xffff {
				"v6_ipv4_mapped".into()
			} else if seg[..6] == [0, 0, 0, 0, 0, 0] {
				"v6_ipv4_compatible".into()
			} else {
				"v6".into()
			}
		}
	}
}

impl Case for PeerAddr {
	fn fam() -> &'static str {
		"PeerAddr"
	}
	fn diff(&self, g: &Self, _v: u32) -> Option<String> {
		if self.0 != g.0 {
			dbg_diff(self, g)
		} else {
			None
		}
	}
	fn val_class(&self) -> String {
		addr_class(self)
	}
}

macro_rules! fields_diff {
	($a:expr, $b:expr, $($f:ident),+) => {{
		let mut d: Option<String> = None;
		$( if d.is_none() && $a.$f != $b.$f { d = Some(format!("field {} differs: {:?} != {:?}", stringify!($f), $a.$f, $b.$f)); } )+
		d
	}};
}

fn addr_strict_ne(a: &PeerAddr, b: &PeerAddr) -> bool {
	a.0 != b.0
}

impl Case for Hand {
	fn fam() -> &'static str {
		"Hand"
	}
	fn diff(&self, g: &Self, _v: u32) -> Option<String> {
		if addr_strict_ne(&self.sender_addr, &g.sender_addr)
			|| addr_strict_ne(&self.receiver_addr, &g.receiver_addr)
		{
			return Some("peer address differs".into());
		}
		fields_diff!(
			self,
			g,
			version,
			capabilities,
			nonce,
			genesis,
			total_difficulty,
			user_agent
		)
	}
}

impl Case for Shake {
	fn fam() -> &'static str {
		"Shake"
	}
	fn diff(&self, g: &Self, _v: u32) -> Option<String> {
		fields_diff!(self, g, version, capabilities, genesis, total_difficulty, user_agent)
	}
}

impl Case for GetPeerAddrs {
	fn fam() -> &'static str {
		"GetPeerAddrs"
	}
	fn diff(&self, g: &Self, _v: u32) -> Option<String> {
		fields_diff!(self, g, capabilities)
	}
}

/// PeerAddrs with strict socket address comparison (PeerAddr's own PartialEq ignores ports).
struct StrictAddrs(PeerAddrs);
impl Writeable for StrictAddrs {
	fn write<W: ser::Writer>(&self, w: &mut W) -> Result<(), ser::Error> {
		self.0.write(w)
	}
}
impl Readable for StrictAddrs {
	fn read<R: Reader>(r: &mut R) -> Result<Self, ser::Error> {
		Ok(StrictAddrs(PeerAddrs::read(r)?))
	}
}
impl Case for StrictAddrs {
	fn fam() -> &'static str {
		"PeerAddrs"
	}
	fn diff(&self, g: &Self, _v: u32) -> Option<String> {
		if self.0.peers.len() != g.0.peers.len()
			|| self
				.0
				.peers
				.iter()
				.zip(g.0.peers.iter())
				.any(|(a, b)| a.0 != b.0)
		{
			dbg_diff(&self.0, &g.0)
		} else {
			None
		}
	}
}

impl Case for PeerError {
	fn fam() -> &'static str {
		"PeerError"
	}
	fn diff(&self, g: &Self, _v: u32) -> Option<String> {
		fields_diff!(self, g, code, message)
	}
}

impl Case for Locator {
	fn fam() -> &'static str {
		"Locator"
	}
	fn diff(&self, g: &Self, _v: u32) -> Option<String> {
		fields_diff!(self, g, hashes)
	}
}

impl Case for Ping {
	fn fam() -> &'static str {
		"Ping"
	}
	fn diff(&self, g: &Self, _v: u32) -> Option<String> {
		fields_diff!(self, g, total_difficulty, height)
	}
}

impl Case for Pong {
	fn fam() -> &'static str {
		"Pong"
	}
	fn diff(&self, g: &Self, _v: u32) -> Option<String> {
		fields_diff!(self, g, total_difficulty, height)
	}
}

impl Case for BanReason {
	fn fam() -> &'static str {
		"BanReason"
	}
	fn diff(&self, g: &Self, _v: u32) -> Option<String> {
		fields_diff!(self, g, ban_reason)
	}
}

impl Case for TxHashSetRequest {
	fn fam() -> &'static str {
		"TxHashSetRequest"
	}
	fn diff(&self, g: &Self, _v: u32) -> Option<String> {
		fields_diff!(self, g, hash, height)
	}
}

impl Case for TxHashSetArchive {
	fn fam() -> &'static str {
		"TxHashSetArchive"
	}
	fn diff(&self, g: &Self, _v: u32) -> Option<String> {
		fields_diff!(self, g, hash, height, bytes)
	}
}

impl Case for SegmentRequest {
	fn fam() -> &'static str {
		"SegmentRequest"
	}
	fn diff(&self, g: &Self, _v: u32) -> Option<String> {
		fields_diff!(self, g, block_hash, identifier)
	}
}

macro_rules! case_segresp {
	($t:ty, $fam:expr) => {
		impl Case for SegmentResponse<$t> {
			fn fam() -> &'static str {
				$fam
			}
			fn diff(&self, g: &Self, _v: u32) -> Option<String> {
				fields_diff!(self, g, block_hash, segment)
			}
			fn enc_class(v: u32) -> &'static str {
				kclass(v)
			}
		}
	};
}
case_segresp!(RangeProof, "SegmentResponse<RangeProof>");
case_segresp!(TxKernel, "SegmentResponse<TxKernel>");
case_segresp!(OutputIdentifier, "SegmentResponse<OutputIdentifier>");

impl Case for OutputSegmentResponse {
	fn fam() -> &'static str {
		"OutputSegmentResponse"
	}
	fn diff(&self, g: &Self, _v: u32) -> Option<String> {
		if self.output_bitmap_root != g.output_bitmap_root {
			return Some("output_bitmap_root differs".into());
		}
		fields_diff!(self.response, g.response, block_hash, segment)
	}
}

impl Case for OutputBitmapSegmentResponse {
	fn fam() -> &'static str {
		"OutputBitmapSegmentResponse"
	}
	fn diff(&self, g: &Self, _v: u32) -> Option<String> {
		fields_diff!(self, g, block_hash, segment, output_root)
	}
}

impl Case for PeerData {
	fn fam() -> &'static str {
		"PeerData"
	}
	fn diff(&self, g: &Self, _v: u32) -> Option<String> {
		if self.addr.0 != g.addr.0 {
			return Some("addr differs".into());
		}
		fields_diff!(
			self,
			g,
			capabilities,
			user_agent,
			flags,
			last_banned,
			ban_reason,
			last_connected,
			last_attempt
		)
	}
}

// ------------------------------------------------------------------ the round-trip monitor

fn replay_of(fam: &str, ct: &str, v: u32, shape: &str, bytes: &[u8], detail: &str) -> Value {
	json!({
		"type": fam, "chain_type": ct, "protocol_version": v, "shape": shape,
		"bytes_hex": hx(bytes), "bytes_len": bytes.len(), "detail": detail,
	})
}

fn rt_sig<T: Case>(x: &T, v: u32, event: &str) -> String {
	let vc = x.val_class();
	if vc.is_empty() {
		format!("type={};phase=roundtrip;enc={};event={}", T::fam(), T::enc_class(v), event)
	} else {
		format!(
			"type={};value={};phase=roundtrip;enc={};event={}",
			T::fam(),
			vc,
			T::enc_class(v),
			event
		)
	}
}

/// Full oracle for one value: every version, both readers, re-encoding, cross-version, hashes.
fn rt<T: Case>(cx: &mut Cx, shape: &str, x: &T) {
	let fam = T::fam();
	let ct = cx.ct;
	cx.first_only_armed = true;
	let mut encs: Vec<Option<Vec<u8>>> = vec![None, None, None, None];
	let mut ys: Vec<Option<T>> = vec![None, None, None, None];
	let h0 = x.id_hash();
	if let (Some(h), Some(r)) = (h0, x.ref_hash()) {
		cx.bump(&format!("idhash_vs_definition.{}", fam));
		if h != r {
			let b = ser::ser_vec(x, pv(1)).unwrap_or_default();
			cx.violation_first(
				&format!("type={};phase=hash;event=identity_hash_is_not_hash_of_v1_definition_bytes", fam),
				&format!("{}: hash() = {:?} but the hash of the version-1 definition bytes is {:?}", fam, h, r),
				replay_of(fam, ct, 1, shape, &b, "identity hash vs reference"),
			);
		}
	}
	for (i, &v) in VERSIONS.iter().enumerate() {
		cx.eval(&format!("rt|{}|{}|v{}|{}", fam, shape, v, ct));
		let enc = match catch(|| ser::ser_vec(x, pv(v))) {
			Err(p) => {
				cx.violation_first(
					&format!("{}@{}", rt_sig(x, v, "encode_panic"), p.location),
					&format!("{}: encoding panicked: {}", fam, p.message),
					replay_of(fam, ct, v, shape, &[], &p.message),
				);
				continue;
			}
			Ok(Err(e)) => {
				if !x.carried(v) {
					cx.bump(&format!("not_carried.encode.{}.v{}", fam, v));
				} else {
					cx.violation_first(
						&rt_sig(x, v, "encode_error"),
						&format!("{}: encoding at v{} failed: {:?}", fam, v, e),
						replay_of(fam, ct, v, shape, &[], &format!("{:?}", e)),
					);
				}
				continue;
			}
			Ok(Ok(b)) => b,
		};
		if let Some(r) = x.ref_bytes(v) {
			cx.bump("refenc.compared");
			if r != enc {
				cx.bump("refenc.mismatch");
				cx.run.inconclusive(&format!(
					"reference encoder disagrees for {} v{} shape {}: ref {} vs ser {}",
					fam,
					v,
					shape,
					hx(&r[..r.len().min(200)]),
					hx(&enc[..enc.len().min(200)])
				));
			}
		}
		if !x.decodable(v) {
			// format limit (e.g. proof shorter than 8 bytes): the decoder must refuse, nothing else to check
			match dec_bin::<T>(&enc, v) {
				Dec::Err(_) => cx.bump(&format!("not_carried.decode.{}.v{}", fam, v)),
				Dec::Ok(..) => cx.bump(&format!("unexpectedly_decodable.{}.v{}", fam, v)),
				Dec::Panic(p) => cx.run.inconclusive(&format!(
					"panic decoding not-carried {} at {}: {}",
					fam, p.location, p.message
				)),
			}
			continue;
		}
		let mut buf = enc.clone();
		buf.extend_from_slice(&SENT);
		let mut ok = true;
		match dec_bin::<T>(&buf, v) {
			Dec::Panic(p) => {
				ok = false;
				cx.violation_first(
					&format!("{}@{}", rt_sig(x, v, "decode_panic"), p.location),
					&format!("{}: decoding its own encoding panicked: {}", fam, p.message),
					replay_of(fam, ct, v, shape, &enc, &p.message),
				);
			}
			Dec::Err(e) => {
				ok = false;
				cx.violation_first(
					&rt_sig(x, v, "decode_error"),
					&format!("{}: its own v{} encoding does not decode: {:?}", fam, v, e),
					replay_of(fam, ct, v, shape, &enc, &format!("{:?}", e)),
				);
			}
			Dec::Ok(y, used) => {
				if used != enc.len() {
					ok = false;
					cx.violation_first(
						&rt_sig(x, v, "consumed_length_mismatch"),
						&format!("{}: decoder consumed {} of {} bytes", fam, used, enc.len()),
						replay_of(fam, ct, v, shape, &enc, "BinReader with sentinel"),
					);
				}
				if let Some(d) = x.diff(&y, v) {
					ok = false;
					cx.violation_first(
						&rt_sig(x, v, "value_mismatch"),
						&format!("{}: decoded value differs after v{} transport: {}", fam, v, d),
						replay_of(fam, ct, v, shape, &enc, &d),
					);
				}
				match catch(|| ser::ser_vec(&y, pv(v))) {
					Ok(Ok(b2)) if b2 == enc => {}
					Ok(Ok(b2)) => {
						ok = false;
						cx.violation_first(
							&rt_sig(x, v, "reencode_differs"),
							&format!(
								"{}: re-encoding at v{} gives {} bytes != original {} bytes",
								fam,
								v,
								b2.len(),
								enc.len()
							),
							replay_of(fam, ct, v, shape, &enc, &format!("reencoded={}", hx(&b2))),
						);
					}
					other => {
						ok = false;
						cx.violation_first(
							&rt_sig(x, v, "reencode_failed"),
							&format!("{}: re-encoding failed: {:?}", fam, other.map(|r| r.err()).map_err(|p| p.message)),
							replay_of(fam, ct, v, shape, &enc, ""),
						);
					}
				}
				if let Some(h) = h0 {
					if y.id_hash() != Some(h) {
						ok = false;
						cx.violation_first(
							&rt_sig(x, v, "identity_hash_changed"),
							&format!("{}: hash {:?} became {:?} after v{} transport", fam, h, y.id_hash(), v),
							replay_of(fam, ct, v, shape, &enc, ""),
						);
					}
				}
				ys[i] = Some(y);
			}
		}
		match dec_buf::<T>(&enc, v) {
			Dec::Ok(y2, used) => {
				let same = matches!(ser::ser_vec(&y2, pv(v)), Ok(ref b) if *b == enc);
				if used != enc.len() || !same || x.diff(&y2, v).is_some() {
					ok = false;
					cx.violation_first(
						&rt_sig(x, v, "bufreader_mismatch"),
						&format!(
							"{}: BufReader decode differs (consumed {} of {}, reencode same: {})",
							fam,
							used,
							enc.len(),
							same
						),
						replay_of(fam, ct, v, shape, &enc, "BufReader"),
					);
				}
			}
			Dec::Err(e) => {
				ok = false;
				cx.violation_first(
					&rt_sig(x, v, "bufreader_decode_error"),
					&format!("{}: BufReader refuses its own v{} encoding: {:?}", fam, v, e),
					replay_of(fam, ct, v, shape, &enc, &format!("{:?}", e)),
				);
			}
			Dec::Panic(p) => {
				ok = false;
				cx.violation_first(
					&format!("{}@{}", rt_sig(x, v, "bufreader_decode_panic"), p.location),
					&format!("{}: BufReader decode panicked: {}", fam, p.message),
					replay_of(fam, ct, v, shape, &enc, &p.message),
				);
			}
		}
		if ok {
			cx.bump(&format!("rt.{}.v{}", fam, v));
		}
		encs[i] = Some(enc);
	}
	// a value transported at version a, re-encoded at version b, must give the bytes of a direct encoding at b
	for i in 0..4 {
		if let Some(y) = &ys[i] {
			for j in 0..4 {
				if i == j || !y.carried(VERSIONS[j]) {
					continue;
				}
				if let Some(ej) = &encs[j] {
					match ser::ser_vec(y, pv(VERSIONS[j])) {
						Ok(b) if b == *ej => cx.bump(&format!("xver.{}", fam)),
						other => {
							cx.violation_first(
								&format!(
									"{};via={}",
									rt_sig(x, VERSIONS[j], "cross_version_bytes_differ"),
									T::enc_class(VERSIONS[i])
								),
								&format!(
									"{}: value transported at v{} re-encodes at v{} differently from a direct encoding ({:?})",
									fam,
									VERSIONS[i],
									VERSIONS[j],
									other.as_ref().map(|b| b.len())
								),
								replay_of(fam, ct, VERSIONS[j], shape, ej, "direct encoding shown"),
							);
						}
					}
				}
			}
		}
	}
}

// ------------------------------------------------------------------ the canonical-form monitor

#[derive(Clone, Copy, PartialEq)]
enum Mode {
	/// any successful decode is an acceptance of a non-canonical encoding
	Strict,
	/// a successful decode that leaves bytes over / runs short is fine (framing catches it)
	CountLike,
}

/// The bytes break a canonical-form rule by construction: the decoder (both readers) must refuse.
fn must_reject<T: Readable + Writeable>(
	cx: &mut Cx,
	fam: &str,
	class: &str,
	sub: &str,
	v: u32,
	bytes: &[u8],
	mode: Mode,
) {
	cx.eval(&format!("pert|{}|{}|{}|v{}|{}", fam, class, sub, v, cx.ct));
	let mut accepted: Option<(usize, Option<Vec<u8>>, &'static str)> = None;
	let mut refused = 0;
	for reader in ["BinReader", "BufReader"] {
		let d = if reader == "BinReader" {
			dec_bin::<T>(bytes, v)
		} else {
			dec_buf::<T>(bytes, v)
		};
		match d {
			Dec::Err(_) => refused += 1,
			Dec::Panic(p) => {
				cx.bump("perturb.panic_seen");
				cx.run.inconclusive(&format!(
					"panic (C11 territory) decoding perturbed {} class {} at {}: {}",
					fam, class, p.location, p.message
				));
			}
			Dec::Ok(y, used) => {
				if mode == Mode::Strict || used == bytes.len() {
					let re = ser::ser_vec(&y, pv(v)).ok();
					accepted = Some((used, re, reader));
				} else {
					cx.bump(&format!("reject_by_length.{}.{}", fam, class));
				}
			}
		}
	}
	if let Some((used, re, reader)) = accepted {
		let normalised = re.as_ref().map(|r| r[..] != bytes[..used.min(bytes.len())]);
		cx.violation(
			&format!("type={};class={};event=noncanonical_encoding_accepted", fam, class),
			&format!(
				"{}: encoding breaking rule '{}' ({}) decodes successfully with {} at v{} (consumed {} of {}, re-encodes differently: {:?})",
				fam,
				class,
				sub,
				reader,
				v,
				used,
				bytes.len(),
				normalised
			),
			replay_of(fam, cx.ct, v, &format!("{}:{}", class, sub), bytes, &format!("reencoded={}", re.map(|r| hx(&r)).unwrap_or_default())),
		);
	} else if refused > 0 {
		cx.bump(&format!("reject.{}.{}", fam, class));
		cx.bump("reject.total");
	}
}

/// Probe of an encoding the format does not define as non-canonical: only recorded.
fn probe<T: Readable + Writeable>(cx: &mut Cx, name: &str, v: u32, bytes: &[u8]) {
	cx.eval(&format!("probe|{}|v{}", name, v));
	match dec_bin::<T>(bytes, v) {
		Dec::Ok(y, used) => {
			let re = ser::ser_vec(&y, pv(v)).ok();
			let norm = used == bytes.len() && re.as_deref() != Some(bytes);
			if norm {
				cx.bump(&format!("info.accepted_and_normalised.{}", name));
			} else {
				cx.bump(&format!("info.accepted.{}", name));
			}
		}
		Dec::Err(_) => cx.bump(&format!("info.refused.{}", name)),
		Dec::Panic(_) => cx.bump(&format!("info.panic.{}", name)),
	}
}

// ------------------------------------------------------------------ pools and generators

struct Pools {
	commits: Vec<Commitment>,
	outs: Vec<Output>,
	cb: Vec<(Output, TxKernel)>,
}

fn make_commits(seed: u64, n: usize) -> Vec<Commitment> {
	let threads = 8;
	let mut all: Vec<Vec<Commitment>> = vec![];
	std::thread::scope(|s| {
		let hs: Vec<_> = (0..threads)
			.map(|t| {
				s.spawn(move || {
					let secp = Secp256k1::with_caps(ContextFlag::Commit);
					let mut p = Prng::new(seed ^ (0xC0_0000 + t as u64));
					let mut v = vec![];
					while v.len() < n / threads + 1 {
						let kb = p.bytes(32);
						if let Ok(sk) = SecretKey::from_slice(&secp, &kb) {
							let value = p.interesting_u64();
							if let Ok(c) = secp.commit(value, sk) {
								v.push(c);
							}
						}
					}
					v
				})
			})
			.collect();
		for h in hs {
			all.push(h.join().expect("commit worker"));
		}
	});
	let mut out: Vec<Commitment> = all.into_iter().flatten().collect();
	out.sort_by(|a, b| a.0.cmp(&b.0));
	out.dedup();
	// deterministic order independent of thread timing
	let mut p = Prng::new(seed ^ 0x5EED);
	p.shuffle(&mut out);
	out
}

fn build_pools(seed: u64, n_plain: usize, n_cb: usize, n_commits: usize) -> Pools {
	let threads = 16usize;
	let total = n_plain + n_cb;
	let mut plain: Vec<(usize, Output)> = vec![];
	let mut cbs: Vec<(usize, (Output, TxKernel))> = vec![];
	std::thread::scope(|s| {
		let hs: Vec<_> = (0..threads)
			.map(|t| {
				s.spawn(move || {
					init_thread(true);
					let w = World::new(seed);
					let mut a = vec![];
					let mut b = vec![];
					let mut i = t;
					while i < total {
						if i < n_plain {
							let value = match i {
								0 => 0,
								1 => 1,
								2 => u64::MAX,
								_ => 1_000_000 + 7919 * i as u64,
							};
							a.push((i, w.output(value, &w.key(1000 + i as u32))));
						} else {
							b.push((i, w.coinbase(&w.key(1000 + i as u32), (i as u64) * 1000)));
						}
						i += threads;
					}
					(a, b)
				})
			})
			.collect();
		for h in hs {
			let (a, b) = h.join().expect("pool worker");
			plain.extend(a);
			cbs.extend(b);
		}
	});
	plain.sort_by_key(|x| x.0);
	cbs.sort_by_key(|x| x.0);
	Pools {
		commits: make_commits(seed, n_commits),
		outs: plain.into_iter().map(|x| x.1).collect(),
		cb: cbs.into_iter().map(|x| x.1).collect(),
	}
}

fn raw_fee(n: u64) -> FeeFields {
	// FeeFields' serde visitor takes any u64 (future-use bits included); independent of the binary reader
	serde_json::from_str::<FeeFields>(&format!("\"{}\"", n)).expect("fee fields from json")
}

const FEE_EDGES: [u64; 9] = [
	1,
	2,
	255,
	256,
	0xffff_ffff,
	0x1_0000_0000,
	FEE_MASK - 1,
	FEE_MASK,
	500_000,
];

fn gen_fee(p: &mut Prng) -> (FeeFields, &'static str) {
	match p.below(8) {
		0 | 1 => (
			FeeFields::new(p.below(16), *p.pick(&FEE_EDGES)).expect("fee"),
			"fee_edge",
		),
		2 => (FeeFields::new(15, FEE_MASK).expect("fee"), "fee_max"),
		3 => (raw_fee(p.interesting_u64()), "fee_raw_u64"),
		4 => (raw_fee(0), "fee_zero"),
		5 => (raw_fee(p.next_u64() | (1u64 << 44)), "fee_future_bits"),
		_ => (
			FeeFields::new(p.below(16), p.range(1, FEE_MASK)).expect("fee"),
			"fee_rand",
		),
	}
}

fn gen_lock(p: &mut Prng) -> (u64, &'static str) {
	match p.below(6) {
		0 => (0, "lock0"),
		1 => (1, "lock1"),
		2 => (u64::MAX, "lockmax"),
		3 => (1 << 32, "lock2p32"),
		_ => (p.interesting_u64(), "lockrand"),
	}
}

const NRD_EDGES: [u64; 8] = [1, 2, 255, 256, 1440, 10079, 10080, 4097];

fn gen_kfeat(p: &mut Prng, variant: u64) -> (KernelFeatures, String) {
	match variant {
		0 => {
			let (fee, c) = gen_fee(p);
			(KernelFeatures::Plain { fee }, format!("plain|{}", c))
		}
		1 => (KernelFeatures::Coinbase, "coinbase".into()),
		2 => {
			let (fee, c) = gen_fee(p);
			let (lock_height, l) = gen_lock(p);
			(
				KernelFeatures::HeightLocked { fee, lock_height },
				format!("heightlocked|{}|{}", c, l),
			)
		}
		_ => {
			let (fee, c) = gen_fee(p);
			let (h, l) = if p.bool() {
				(*p.pick(&NRD_EDGES), "rel_edge")
			} else {
				(p.range(1, consensus::WEEK_HEIGHT), "rel_rand")
			};
			(
				KernelFeatures::NoRecentDuplicate {
					fee,
					relative_height: NRDRelativeHeight::new(h).expect("nrd"),
				},
				format!("nrd|{}|{}", c, l),
			)
		}
	}
}

fn gen_sig(p: &mut Prng) -> Signature {
	let mut b = [0u8; 64];
	match p.below(6) {
		0 => {}
		1 => b = [0xff; 64],
		_ => p.fill(&mut b),
	}
	Signature::from_raw_data(&b).expect("sig")
}

fn gen_kernel(p: &mut Prng, pools: &Pools, variant: u64) -> (TxKernel, String) {
	let (features, s) = gen_kfeat(p, variant);
	(
		TxKernel {
			features,
			excess: *p.pick(&pools.commits),
			excess_sig: gen_sig(p),
		},
		s,
	)
}

fn gen_hash(p: &mut Prng) -> Hash {
	match p.below(8) {
		0 => ZERO_HASH,
		1 => Hash::from_vec(&[0xff; 32]),
		_ => Hash::from_vec(&p.bytes(32)),
	}
}

fn gen_blind(p: &mut Prng) -> BlindingFactor {
	match p.below(6) {
		0 => BlindingFactor::zero(),
		1 => BlindingFactor::from_slice(&[0xff; 32]),
		_ => BlindingFactor::from_slice(&p.bytes(32)),
	}
}

fn distinct_idx(p: &mut Prng, n: usize, k: usize) -> Vec<usize> {
	assert!(k <= n);
	if k * 4 > n {
		let mut v: Vec<usize> = (0..n).collect();
		p.shuffle(&mut v);
		v.truncate(k);
		v
	} else {
		let mut seen = HashSet::new();
		let mut v = vec![];
		while v.len() < k {
			let i = p.usize_below(n);
			if seen.insert(i) {
				v.push(i);
			}
		}
		v
	}
}

#[derive(Clone, Copy, PartialEq)]
enum InVar {
	Features,
	CommitOnly,
}

/// A sorted body (as `TransactionBody::init(.., false)` leaves it) of the requested shape.
fn gen_body(
	p: &mut Prng,
	pools: &Pools,
	n_in: usize,
	n_out: usize,
	n_k: usize,
	var: InVar,
	coinbase_ok: bool,
) -> TransactionBody {
	let idx = distinct_idx(p, pools.commits.len(), n_in + n_k);
	let inputs = if var == InVar::Features {
		let v: Vec<Input> = idx[..n_in]
			.iter()
			.map(|&i| {
				Input::new(
					if p.chance(1, 4) {
						OutputFeatures::Coinbase
					} else {
						OutputFeatures::Plain
					},
					pools.commits[i],
				)
			})
			.collect();
		Inputs::from(&v[..])
	} else {
		let v: Vec<CommitWrapper> = idx[..n_in]
			.iter()
			.map(|&i| CommitWrapper::from(pools.commits[i]))
			.collect();
		Inputs::from(&v[..])
	};
	let mut all_outs: Vec<Output> = pools.outs.clone();
	if coinbase_ok {
		all_outs.extend(pools.cb.iter().map(|c| c.0));
	}
	let n_out = n_out.min(all_outs.len());
	let outs: Vec<Output> = distinct_idx(p, all_outs.len(), n_out)
		.into_iter()
		.map(|i| all_outs[i])
		.collect();
	let mut kernels = vec![];
	for (j, &i) in idx[n_in..].iter().enumerate() {
		if coinbase_ok && j == 0 && !pools.cb.is_empty() && p.bool() {
			kernels.push(p.pick(&pools.cb).1);
			continue;
		}
		let variant = if coinbase_ok { p.below(4) } else { [0, 2, 3][p.usize_below(3)] };
		let (features, _) = gen_kfeat(p, variant);
		kernels.push(TxKernel {
			features,
			excess: pools.commits[i],
			excess_sig: gen_sig(p),
		});
	}
	TransactionBody::init(inputs, &outs, &kernels, false).expect("body init")
}

fn ts_min() -> i64 {
	NaiveDate::MIN.and_hms_opt(0, 0, 0).unwrap().and_utc().timestamp()
}
fn ts_max() -> i64 {
	NaiveDate::MAX.and_hms_opt(0, 0, 0).unwrap().and_utc().timestamp()
}

fn gen_ts(p: &mut Prng) -> (DateTime<Utc>, &'static str) {
	let (s, c) = match p.below(8) {
		0 => (ts_min(), "ts_min"),
		1 => (ts_max(), "ts_max"),
		2 => (0, "ts_epoch"),
		3 => (-1, "ts_neg"),
		4 => (1_547_568_086, "ts_2019"),
		5 => (p.range(0, 1 << 40) as i64 - (1 << 39), "ts_wide"),
		_ => (1_600_000_000 + p.below(400_000_000) as i64, "ts_now"),
	};
	(DateTime::<Utc>::from_timestamp(s, 0).expect("timestamp"), c)
}

fn gen_nonces(p: &mut Prng, eb: u8, n: usize) -> (Vec<u64>, &'static str) {
	let max = if eb >= 64 { u64::MAX } else { (1u64 << eb) - 1 };
	match p.below(7) {
		0 => (vec![0; n], "n_zero"),
		1 => (vec![max; n], "n_max"),
		2 => ((0..n).map(|i| if i % 2 == 0 { 0 } else { max }).collect(), "n_alt"),
		3 => ((0..n).map(|i| 1u64 << (i as u64 % eb as u64)).collect(), "n_onebit"),
		4 => {
			let mut v: Vec<u64> = (0..n).map(|_| p.range(0, max)).collect();
			v.sort_unstable();
			(v, "n_sorted")
		}
		_ => ((0..n).map(|_| p.range(0, max)).collect(), "n_rand"),
	}
}

fn gen_proof(p: &mut Prng, eb: u8) -> (Proof, &'static str) {
	let (nonces, c) = gen_nonces(p, eb, global::proofsize());
	(
		Proof {
			edge_bits: eb,
			nonces,
		},
		c,
	)
}

fn gen_header(p: &mut Prng, eb: u8, hv: u16) -> (BlockHeader, String) {
	let (timestamp, tc) = gen_ts(p);
	let (proof, nc) = gen_proof(p, eb);
	let extreme = p.below(4);
	let u = |p: &mut Prng| match extreme {
		0 => 0,
		1 => u64::MAX,
		_ => p.interesting_u64(),
	};
	let h = BlockHeader {
		version: HeaderVersion(hv),
		height: u(p),
		prev_hash: gen_hash(p),
		prev_root: gen_hash(p),
		timestamp,
		output_root: gen_hash(p),
		range_proof_root: gen_hash(p),
		kernel_root: gen_hash(p),
		total_kernel_offset: gen_blind(p),
		output_mmr_size: u(p),
		kernel_mmr_size: u(p),
		pow: ProofOfWork {
			total_difficulty: if extreme == 0 {
				Difficulty::zero()
			} else {
				Difficulty::from_num(u(p))
			},
			secondary_scaling: match extreme {
				0 => 0,
				1 => u32::MAX,
				_ => p.next_u32(),
			},
			nonce: u(p),
			proof,
		},
	};
	(h, format!("eb{}|hv{}|{}|{}|x{}", eb, hv, tc, nc, extreme.min(2)))
}

// ------------------------------------------------------------------ task: kernels

fn task_kernels(cx: &mut Cx, p: &mut Prng, pools: &Pools, n: usize) {
	// all four variants x field classes
	for variant in 0..4u64 {
		for _ in 0..n {
			if cx.expired() {
				return;
			}
			let (k, shape) = gen_kernel(p, pools, variant);
			rt(cx, &shape, &k);
			rt(cx, &shape, &k.features);
		}
	}
	// every NRD relative height 1..=10080 (exhaustive), every fee_shift, fee boundaries
	for h in 1..=consensus::WEEK_HEIGHT {
		if cx.expired() {
			return;
		}
		let f = KernelFeatures::NoRecentDuplicate {
			fee: FeeFields::new(h % 16, 1 + h).unwrap(),
			relative_height: NRDRelativeHeight::new(h).unwrap(),
		};
		rt(cx, &format!("nrd|rel_exhaustive|{}", h / 1024), &f);
	}
	for shift in 0..16u64 {
		for fee in FEE_EDGES.iter() {
			let fee = FeeFields::new(shift, *fee).unwrap();
			rt(cx, "plain|fee_grid", &KernelFeatures::Plain { fee });
			rt(
				cx,
				"heightlocked|fee_grid",
				&KernelFeatures::HeightLocked {
					fee,
					lock_height: shift << 60 | 1,
				},
			);
		}
	}
	// real signed coinbase kernels
	for (_, k) in pools.cb.iter() {
		rt(cx, "coinbase|real_sig", k);
	}
	perturb_kernels(cx, p, pools);
}

fn sweep_bytes() -> Vec<u8> {
	vec![1, 2, 0x10, 0x7f, 0x80, 0xff]
}

fn perturb_kernels(cx: &mut Cx, p: &mut Prng, pools: &Pools) {
	for variant in 0..4u64 {
		let (k, _) = gen_kernel(p, pools, variant);
		// ---- v1: reserved ("empty") bytes must be zero
		let b1 = ref_kernel(&k, 1);
		let reserved: Vec<usize> = match variant {
			0 => (9..17).collect(),
			1 => (1..17).collect(),
			2 => vec![],
			_ => (9..15).collect(),
		};
		for &pos in &reserved {
			for val in sweep_bytes() {
				let mut b = b1.clone();
				b[pos] = val;
				let sub = format!("variant{}|byte{}|{:02x}", variant, pos, val);
				must_reject::<TxKernel>(cx, "TxKernel", "v1_reserved_bytes_nonzero", &sub, 1, &b, Mode::Strict);
				must_reject::<KernelFeatures>(
					cx,
					"KernelFeatures",
					"v1_reserved_bytes_nonzero",
					&sub,
					1,
					&b[..17],
					Mode::Strict,
				);
			}
		}
		// ---- feature tag sweep: only 0..=3 are defined (both encodings)
		for v in VERSIONS {
			let bv = ref_kernel(&k, v);
			for tag in 4..=255u8 {
				let mut b = bv.clone();
				b[0] = tag;
				// enough trailing bytes for any interpretation
				b.extend_from_slice(&[0u8; 32]);
				let sub = format!("variant{}|tag{}", variant, tag);
				must_reject::<TxKernel>(cx, "TxKernel", &format!("unknown_feature_tag_{}", kclass(v)), &sub, v, &b, Mode::Strict);
				must_reject::<KernelFeatures>(
					cx,
					"KernelFeatures",
					&format!("unknown_feature_tag_{}", kclass(v)),
					&sub,
					v,
					&b,
					Mode::Strict,
				);
			}
		}
	}
	// ---- NRD relative height outside 1..=WEEK_HEIGHT is not a value of the field
	let fee = FeeFields::new(0, 7).unwrap();
	let nrd = TxKernel {
		features: KernelFeatures::NoRecentDuplicate {
			fee,
			relative_height: NRDRelativeHeight::new(5).unwrap(),
		},
		excess: pools.commits[0],
		excess_sig: gen_sig(p),
	};
	for bad in [0u16, 10081, 10082, 0x8000, 0xffff] {
		for v in VERSIONS {
			let mut b = ref_kernel(&nrd, v);
			let at = if v <= 1 { 15 } else { 9 };
			b[at..at + 2].copy_from_slice(&bad.to_be_bytes());
			must_reject::<TxKernel>(
				cx,
				"TxKernel",
				&format!("nrd_relative_height_out_of_range_{}", kclass(v)),
				&format!("h{}", bad),
				v,
				&b,
				Mode::Strict,
			);
		}
	}
	// ---- with the NRD feature flag off (the default on every network today) feature tag 3 is not a defined tag:
	// refused under every protocol version alike, as a bare feature set, as a kernel and inside a transaction
	global::set_local_nrd_enabled(false);
	for rel in [1u16, 5, 1440, 10080] {
		let k3 = TxKernel {
			features: KernelFeatures::NoRecentDuplicate {
				fee,
				relative_height: NRDRelativeHeight::new(rel as u64).unwrap(),
			},
			excess: pools.commits[(rel as usize) % pools.commits.len()],
			excess_sig: gen_sig(p),
		};
		for v in VERSIONS {
			let b = ref_kernel(&k3, v);
			match dec_bin::<TxKernel>(&b, v) {
				Dec::Err(_) => cx.bump("not_carried.nrd_flag_disabled"),
				_ => cx.bump("info.nrd_decoded_with_flag_disabled"),
			}
			let sub = format!("rel{}", rel);
			must_reject::<TxKernel>(cx, "TxKernel", &format!("nrd_tag_with_the_feature_flag_off_{}", kclass(v)), &sub, v, &b, Mode::Strict);
			let flen = if v <= 1 { 17 } else { 11 };
			must_reject::<KernelFeatures>(cx, "KernelFeatures", &format!("nrd_tag_with_the_feature_flag_off_{}", kclass(v)), &sub, v, &b[..flen], Mode::Strict);
			// a transaction body whose only kernel carries the tag: offset, counts (0 inputs, 0 outputs, 1 kernel), kernel
			let mut tb = vec![0u8; 32];
			tb.extend_from_slice(&0u64.to_be_bytes());
			tb.extend_from_slice(&0u64.to_be_bytes());
			tb.extend_from_slice(&1u64.to_be_bytes());
			tb.extend_from_slice(&b);
			must_reject::<Transaction>(cx, "Transaction", &format!("nrd_tag_with_the_feature_flag_off_{}", kclass(v)), &sub, v, &tb, Mode::Strict);
		}
	}
	global::set_local_nrd_enabled(true);
}

// ------------------------------------------------------------------ task: small fixed types

fn gen_addr(p: &mut Prng, class: u64) -> PeerAddr {
	let port = match p.below(4) {
		0 => 0,
		1 => 65535,
		2 => 3414,
		_ => p.below(65536) as u16,
	};
	match class {
		0 => {
			let ip = match p.below(5) {
				0 => Ipv4Addr::new(127, 0, 0, 1),
				1 => Ipv4Addr::new(0, 0, 0, 0),
				2 => Ipv4Addr::new(255, 255, 255, 255),
				_ => Ipv4Addr::from(p.next_u32()),
			};
			PeerAddr(SocketAddr::V4(SocketAddrV4::new(ip, port)))
		}
		1 => {
			// genuine v6 (not convertible to v4)
			let mut seg = [0u16; 8];
			for s in seg.iter_mut() {
				*s = p.below(65536) as u16;
			}
			if seg[..5] == [0, 0, 0, 0, 0] {
				seg[0] = 0x2001;
			}
			if p.chance(1, 6) {
				seg = [0xfe80, 0, 0, 0, 0, 0, 0, 1];
			}
			PeerAddr(SocketAddr::V6(SocketAddrV6::new(Ipv6Addr::from(seg), port, 0, 0)))
		}
		2 => {
			// ::ffff:a.b.c.d
			let ip = Ipv4Addr::from(p.next_u32()).to_ipv6_mapped();
			PeerAddr(SocketAddr::V6(SocketAddrV6::new(ip, port, 0, 0)))
		}
		_ => {
			// ::a.b.c.d (includes ::1 and ::)
			let low = match p.below(4) {
				0 => 1u32,
				1 => 0,
				_ => p.next_u32(),
			};
			let ip = Ipv6Addr::new(0, 0, 0, 0, 0, 0, (low >> 16) as u16, low as u16);
			PeerAddr(SocketAddr::V6(SocketAddrV6::new(ip, port, 0, 0)))
		}
	}
}

fn task_small(cx: &mut Cx, p: &mut Prng, pools: &Pools, n: usize) {
	for i in 0..n {
		if cx.expired() {
			return;
		}
		let c = *p.pick(&pools.commits);
		let feat = if p.bool() {
			OutputFeatures::Plain
		} else {
			OutputFeatures::Coinbase
		};
		rt(cx, &format!("{:?}", feat), &Input::new(feat, c));
		rt(cx, &format!("{:?}", feat), &OutputIdentifier::new(feat, &c));
		rt(cx, "commit", &CommitWrapper::from(c));
		let o = if !pools.cb.is_empty() && i % 5 == 0 {
			pools.cb[i / 5 % pools.cb.len()].0
		} else {
			pools.outs[i % pools.outs.len()]
		};
		rt(cx, &format!("{:?}", o.identifier.features), &o);
		rt(cx, "bulletproof675", &o.proof);
		rt(cx, "bytes6", &ShortId::from_bytes(&p.bytes(6)));
		rt(cx, "h", &gen_hash(p));
		rt(
			cx,
			"tip",
			&Tip {
				height: p.interesting_u64(),
				last_block_h: gen_hash(p),
				prev_block_h: gen_hash(p),
				total_difficulty: Difficulty::from_num(p.interesting_u64()),
			},
		);
		rt(
			cx,
			"cp",
			&CommitPos {
				pos: p.interesting_u64(),
				height: p.interesting_u64(),
			},
		);
		rt(
			cx,
			"sums",
			&BlockSums {
				utxo_sum: *p.pick(&pools.commits),
				kernel_sum: *p.pick(&pools.commits),
			},
		);
		rt(
			cx,
			"segid",
			&SegmentIdentifier {
				height: p.below(256) as u8,
				idx: p.interesting_u64(),
			},
		);
		rt(cx, "diff", &Difficulty::from_num(p.interesting_u64()));
		let plen = p.below(12);
		rt(
			cx,
			&format!("path{}", plen),
			&MerkleProof {
				mmr_size: p.interesting_u64(),
				path: (0..plen).map(|_| gen_hash(p)).collect(),
			},
		);
		let cp = CommitPos {
			pos: p.interesting_u64(),
			height: p.interesting_u64(),
		};
		let (a, b) = (p.interesting_u64(), p.interesting_u64());
		match p.below(5) {
			0 => rt(cx, "single", &ListWrapper::Single { pos: cp }),
			1 => rt(cx, "multi", &ListWrapper::<CommitPos>::Multi { head: a, tail: b }),
			2 => rt(cx, "head", &ListEntry::Head { pos: cp, next: a }),
			3 => rt(cx, "tail", &ListEntry::Tail { pos: cp, prev: a }),
			_ => rt(
				cx,
				"middle",
				&ListEntry::Middle {
					pos: cp,
					next: a,
					prev: b,
				},
			),
		}
	}
	// ---- output feature tags: only 0 and 1 are defined
	let c = pools.commits[1];
	let o = pools.outs[0];
	for tag in 2..=255u8 {
		let sub = format!("tag{}", tag);
		let mut b = ref_outid(OutputFeatures::Plain, &c);
		b[0] = tag;
		for v in [1u32, 1000] {
			must_reject::<Input>(cx, "Input", "unknown_output_feature_tag", &sub, v, &b, Mode::Strict);
			must_reject::<OutputIdentifier>(cx, "OutputIdentifier", "unknown_output_feature_tag", &sub, v, &b, Mode::Strict);
			let mut bo = ref_output(&o);
			bo[0] = tag;
			must_reject::<Output>(cx, "Output", "unknown_output_feature_tag", &sub, v, &bo, Mode::Strict);
		}
	}
	// ---- db list tags
	let cp = CommitPos { pos: 3, height: 4 };
	let lw = ser::ser_vec(&ListWrapper::Single { pos: cp }, pv(1)).unwrap();
	let le = ser::ser_vec(
		&ListEntry::Middle {
			pos: cp,
			next: 1,
			prev: 2,
		},
		pv(1),
	)
	.unwrap();
	for tag in 0..=255u8 {
		let sub = format!("tag{}", tag);
		if tag > 1 {
			let mut b = lw.clone();
			b[0] = tag;
			b.extend_from_slice(&[0; 16]);
			must_reject::<ListWrapper<CommitPos>>(cx, "ListWrapper", "unknown_variant_tag", &sub, 1, &b, Mode::Strict);
		}
		if !(2..=4).contains(&tag) {
			let mut b = le.clone();
			b[0] = tag;
			must_reject::<ListEntry<CommitPos>>(cx, "ListEntry", "unknown_variant_tag", &sub, 1, &b, Mode::Strict);
		}
	}
	// ---- informational: range proof length prefix other than 675 is tolerated and padded (known trap 2.5)
	let mut b = ref_output(&o);
	b[34..42].copy_from_slice(&be64(10));
	b.truncate(42 + 10);
	probe::<Output>(cx, "rangeproof_short_length_prefix", 1, &b);
}

// ------------------------------------------------------------------ task: transactions and bodies

fn max_tx_shapes(max_w: u64) -> Vec<(usize, usize, usize)> {
	// weight = inputs + 21 outputs + 3 kernels
	let mut v = vec![
		(0, 0, 0),
		(1, 0, 0),
		(0, 1, 0),
		(0, 0, 1),
		(1, 1, 1),
		(2, 2, 1),
		(3, 2, 2),
		(5, 3, 4),
		(0, 4, 7),
		(9, 1, 2),
	];
	// maximal bodies for this weight limit
	let o = ((max_w / 21) as usize).min(30);
	let rest = max_w - 21 * o as u64;
	let k = (rest / 3) as usize;
	let i = (rest - 3 * k as u64) as usize;
	v.push((i, o, k));
	let k2 = (max_w / 3).min(400) as usize;
	v.push(((max_w - 3 * k2 as u64).min(600) as usize, 0, k2));
	v.push((max_w.min(1500) as usize, 0, 0));
	v
}

fn task_txs(cx: &mut Cx, p: &mut Prng, pools: &Pools, rounds: usize) {
	let shapes = max_tx_shapes(global::max_tx_weight());
	for r in 0..rounds {
		for &(i, o, k) in &shapes {
			if cx.expired() {
				return;
			}
			if i + k > pools.commits.len() || o > pools.outs.len() {
				continue;
			}
			for var in [InVar::Features, InVar::CommitOnly] {
				let body = gen_body(p, pools, i, o, k, var, false);
				let tx = Transaction {
					offset: gen_blind(p),
					body,
				};
				let shape = format!(
					"i{}o{}k{}|{}",
					i,
					o,
					k,
					if var == InVar::Features { "feat" } else { "commit" }
				);
				rt(cx, &shape, &tx);
				rt(cx, &shape, &tx.body);
				if r == 0 || (i + o + k <= 12 && i + o + k > 0) {
					perturb_body::<Transaction>(cx, p, "Transaction", tx.offset.as_ref(), &tx.body);
					perturb_body::<TransactionBody>(cx, p, "TransactionBody", &[], &tx.body);
				}
			}
		}
	}
}

/// Canonical-form perturbations of a serialized body behind `prefix` (offset or header bytes).
fn perturb_body<T: Readable + Writeable>(
	cx: &mut Cx,
	p: &mut Prng,
	fam: &str,
	prefix: &[u8],
	body: &TransactionBody,
) {
	for v in VERSIONS {
		let parts = match body_parts(body, v) {
			Some(x) => x,
			None => continue,
		};
		if !(strictly_increasing(&parts.ins_key)
			&& strictly_increasing(&parts.outs_key)
			&& strictly_increasing(&parts.kers_key))
		{
			cx.bump("harness.reference_order_disagrees");
			cx.run
				.inconclusive("reference sort order (hash of definition bytes) disagrees with the generated body");
			continue;
		}
		let n = [parts.ins.len(), parts.outs.len(), parts.kers.len()];
		let counts = [n[0] as u64, n[1] as u64, n[2] as u64];
		let names = ["inputs", "outputs", "kernels"];
		let enc = bclass(v);
		for li in 0..3 {
			let lists = [&parts.ins, &parts.outs, &parts.kers];
			// swap two sorted entries -> unsorted
			if n[li] >= 2 {
				let a = p.usize_below(n[li] - 1);
				let b2 = if p.bool() { a + 1 } else { p.range(a as u64 + 1, n[li] as u64 - 1) as usize };
				let mut l = lists[li].clone();
				l.swap(a, b2);
				let mut ls = lists;
				ls[li] = &l;
				let bytes = assemble3(prefix, counts, ls);
				must_reject::<T>(
					cx,
					fam,
					&format!("unsorted_{}_{}", names[li], enc),
					&format!("n{}|adjacent{}", n[li].min(9), b2 == a + 1),
					v,
					&bytes,
					Mode::Strict,
				);
			}
			// duplicate an entry (adjacent keeps the order, elsewhere also breaks it)
			if n[li] >= 1 {
				for adjacent in [true, false] {
					let a = p.usize_below(n[li]);
					let mut l = lists[li].clone();
					let at = if adjacent { a + 1 } else { p.usize_below(n[li] + 1) };
					l.insert(at, lists[li][a].clone());
					let mut ls = lists;
					ls[li] = &l;
					let mut c = counts;
					c[li] += 1;
					let bytes = assemble3(prefix, c, ls);
					must_reject::<T>(
						cx,
						fam,
						&format!("duplicate_{}_{}", names[li], enc),
						&format!("n{}|adjacent{}", n[li].min(9), adjacent),
						v,
						&bytes,
						Mode::Strict,
					);
				}
			}
			// the same OUTPUT (features + commitment: that is its identity) twice, the copies differing in their range
			// proof bytes only: still a duplicate entry
			if li == 1 && n[li] >= 1 {
				let a = p.usize_below(n[li]);
				let mut dup = lists[li][a].clone();
				if dup.len() > 34 + 8 + 16 {
					let k = dup.len() - 1 - p.usize_below(600.min(dup.len() - 34 - 8 - 1));
					dup[k] ^= 1 << p.below(8);
					for after in [true, false] {
						let mut l = lists[li].clone();
						l.insert(if after { a + 1 } else { a }, dup.clone());
						let mut ls = lists;
						ls[li] = &l;
						let mut c = counts;
						c[li] += 1;
						let bytes = assemble3(prefix, c, ls);
						must_reject::<T>(
							cx,
							fam,
							&format!("duplicate_outputs_other_proof_{}", enc),
							&format!("n{}|after{}", n[li].min(9), after),
							v,
							&bytes,
							Mode::Strict,
						);
					}
				}
			}
			// counts inconsistent with the content that follows
			let mut alts: Vec<(u64, &str)> = vec![
				(counts[li] + 1, "plus1"),
				(1 << 16, "2p16"),
				(1 << 32, "2p32"),
				(1 << 59, "2p59"),
				(u64::MAX, "max"),
			];
			if counts[li] > 0 {
				alts.push((counts[li] - 1, "minus1"));
				alts.push((0, "zero"));
			}
			for (c2, name) in alts {
				if c2 == counts[li] {
					continue;
				}
				let mut c = counts;
				c[li] = c2;
				let bytes = assemble3(prefix, c, lists);
				must_reject::<T>(
					cx,
					fam,
					&format!("count_mismatch_{}_{}", names[li], enc),
					&format!("{}|n{}", name, n[li].min(9)),
					v,
					&bytes,
					Mode::CountLike,
				);
			}
		}
	}
}

// ------------------------------------------------------------------ task: headers, proofs, proof of work

fn task_headers(cx: &mut Cx, p: &mut Prng, ebs: &[u8], per_eb: usize) {
	let n = global::proofsize();
	for &eb in ebs {
		for j in 0..per_eb {
			if cx.expired() {
				return;
			}
			let hv = if j < 5 {
				1 + j as u16
			} else {
				*p.pick(&[1u16, 2, 3, 4, 5, 0, 6, 0xffff])
			};
			let (h, shape) = gen_header(p, eb, hv);
			rt(cx, &shape, &h);
			if proof_decodable(&h.pow.proof) {
				rt(cx, &format!("eb{}|{}", eb, j % 7), &<BlockHeader as PMMRable>::as_elmt(&h));
			}
			rt(cx, &format!("eb{}|{}", eb, j % 7), &h.pow);
			rt(cx, &format!("eb{}|{}", eb, j % 7), &h.pow.proof);
			if j == 0 && proof_decodable(&h.pow.proof) {
				perturb_proof(cx, p, &h);
			}
		}
		// a proof whose packed form is under 8 bytes cannot be carried (format limit), counted by rt()
	}
	let _ = n;
}

fn perturb_proof(cx: &mut Cx, p: &mut Prng, h: &BlockHeader) {
	let eb = h.pow.proof.edge_bits;
	let n = global::proofsize();
	let pb = ref_proof(&h.pow.proof);
	let hb = ref_header(h);
	let data_bits = n * eb as usize;
	let pad = pb[1..].len() * 8 - data_bits;
	// every padding bit (and all of them) set
	let mut masks: Vec<u8> = (0..pad).map(|k| 1u8 << (7 - k)).collect();
	if pad > 1 {
		masks.push(!(0xffu8 >> pad));
	}
	for m in masks {
		let sub = format!("eb{}|pad{}|mask{:02x}", eb, pad, m);
		let mut b = pb.clone();
		*b.last_mut().unwrap() |= m;
		must_reject::<Proof>(cx, "Proof", "padding_bits_nonzero", &sub, 1, &b, Mode::Strict);
		let mut b = hb.clone();
		*b.last_mut().unwrap() |= m;
		for v in [1u32, 1000] {
			must_reject::<BlockHeader>(cx, "BlockHeader", "proof_padding_bits_nonzero", &sub, v, &b, Mode::Strict);
		}
	}
	// edge bits outside 1..=63 are not a value of the field
	if eb % 8 == 3 || eb == 63 {
		for bad in (64..=255u16).chain(0..1) {
			let mut b = pb.clone();
			b[0] = bad as u8;
			b.extend_from_slice(&vec![0u8; 42 * 32]);
			must_reject::<Proof>(cx, "Proof", "edge_bits_out_of_range", &format!("eb{}", bad), 1, &b, Mode::Strict);
		}
		let at = hb.len() - pb.len();
		for bad in [0u8, 64, 65, 128, 255] {
			let mut b = hb.clone();
			b[at] = bad;
			b.extend_from_slice(&vec![0u8; 42 * 32]);
			must_reject::<BlockHeader>(cx, "BlockHeader", "edge_bits_out_of_range", &format!("eb{}", bad), 2, &b, Mode::Strict);
		}
	}
	// timestamps outside the representable date range are not a header value
	for (ts, name) in [
		(i64::MIN, "i64min"),
		(ts_min() - 1, "below_min"),
		(ts_max() + 1, "above_max"),
		(ts_max() + 86_400, "max_plus_day"),
		(i64::MAX, "i64max"),
	] {
		let mut b = hb.clone();
		b[10..18].copy_from_slice(&ts.to_be_bytes());
		must_reject::<BlockHeader>(
			cx,
			"BlockHeader",
			"timestamp_out_of_range",
			name,
			*p.pick(&VERSIONS),
			&b,
			Mode::Strict,
		);
	}
}

/// Header values in the last representable day: writable, but beyond the decoder's date check.
fn probe_last_day(cx: &mut Cx, p: &mut Prng) {
	let (mut h, _) = gen_header(p, global::min_edge_bits(), 1);
	if let Some(ts) = DateTime::<Utc>::from_timestamp(ts_max() + 3600, 0) {
		h.timestamp = ts;
		if let Ok(b) = ser::ser_vec(&h, pv(1)) {
			match dec_bin::<BlockHeader>(&b, 1) {
				Dec::Err(_) => cx.bump("not_carried.header_timestamp_in_last_representable_day"),
				_ => cx.bump("info.header_timestamp_last_day_decodes"),
			}
		}
	}
}

// ------------------------------------------------------------------ task: blocks and compact blocks

fn block_shapes(max_w: u64) -> Vec<(usize, usize, usize)> {
	let mut v = vec![(0, 0, 0), (0, 1, 1), (1, 2, 2), (3, 3, 2), (2, 5, 6), (8, 2, 3)];
	let o = ((max_w / 21) as usize).min(36);
	let rest = max_w - 21 * o as u64;
	let k = ((rest / 3) as usize).min(300);
	let i = (rest - 3 * k as u64).min(900) as usize;
	v.push((i, o, k));
	v
}

/// Reference-built compact block for `block` with harness-chosen nonce, decoded once to obtain the value.
fn compact_from_reference(cx: &mut Cx, block: &Block, nonce: u64) -> Option<CompactBlock> {
	let hh = block.header.hash();
	let mut outs: Vec<&Output> = block.outputs().iter().filter(|o| o.is_coinbase()).collect();
	outs.sort_by_key(|o| h_of(&ref_outid(o.identifier.features, &o.identifier.commit)));
	let mut kf: Vec<&TxKernel> = block.kernels().iter().filter(|k| k.is_coinbase()).collect();
	kf.sort_by_key(|k| h_of(&ref_kernel(k, 1)));
	let mut ids: Vec<ShortId> = block
		.kernels()
		.iter()
		.filter(|k| !k.is_coinbase())
		.map(|k| k.short_id(&hh, nonce))
		.collect();
	ids.sort_by_key(|i| h_of(i.as_ref()));
	ids.dedup_by(|a, b| a.as_ref() == b.as_ref());
	let v = 1000;
	let o: Vec<Vec<u8>> = outs.iter().map(|o| ref_output(o)).collect();
	let k: Vec<Vec<u8>> = kf.iter().map(|k| ref_kernel(k, v)).collect();
	let i: Vec<Vec<u8>> = ids.iter().map(|i| i.as_ref().to_vec()).collect();
	let mut pre = ref_header(&block.header);
	pre.extend_from_slice(&be64(nonce));
	let bytes = assemble3(&pre, [o.len() as u64, k.len() as u64, i.len() as u64], [&o, &k, &i]);
	match dec_bin::<CompactBlock>(&bytes, v) {
		Dec::Ok(cb, used) if used == bytes.len() => {
			// the decoded value must hold exactly what the reference encoding was built from
			let ok = cb.header == block.header
				&& cb.nonce == nonce
				&& cb.out_full().len() == outs.len()
				&& cb.kern_full().len() == kf.len()
				&& cb.kern_ids().len() == ids.len()
				&& cb.out_full().iter().zip(outs.iter()).all(|(a, b)| diff_output(a, b).is_none())
				&& cb.kern_full().iter().zip(kf.iter()).all(|(a, b)| diff_kernel(a, b).is_none())
				&& cb.kern_ids().iter().zip(ids.iter()).all(|(a, b)| a.as_ref() == b.as_ref());
			if !ok {
				cx.violation(
					"type=CompactBlock;phase=reference_decode;event=value_mismatch",
					"compact block decoded from its reference encoding does not hold the encoded parts",
					replay_of("CompactBlock", cx.ct, v, "reference", &bytes, ""),
				);
				return None;
			}
			Some(cb)
		}
		Dec::Ok(_, used) => {
			cx.violation(
				"type=CompactBlock;phase=reference_decode;event=consumed_length_mismatch",
				&format!("consumed {} of {}", used, bytes.len()),
				replay_of("CompactBlock", cx.ct, v, "reference", &bytes, ""),
			);
			None
		}
		Dec::Err(e) => {
			cx.violation(
				"type=CompactBlock;phase=reference_decode;event=decode_error",
				&format!("canonical reference encoding of a compact block is refused: {:?}", e),
				replay_of("CompactBlock", cx.ct, v, "reference", &bytes, &format!("{:?}", e)),
			);
			None
		}
		Dec::Panic(pn) => {
			cx.violation(
				&format!("type=CompactBlock;phase=reference_decode;event=decode_panic@{}", pn.location),
				&pn.message,
				replay_of("CompactBlock", cx.ct, v, "reference", &bytes, ""),
			);
			None
		}
	}
}

fn perturb_compact<T: Readable + Writeable>(cx: &mut Cx, p: &mut Prng, fam: &str, cb: &CompactBlock) {
	for v in VERSIONS {
		let outs: Vec<Vec<u8>> = cb.out_full().iter().map(ref_output).collect();
		let kers: Vec<Vec<u8>> = cb.kern_full().iter().map(|k| ref_kernel(k, v)).collect();
		let ids: Vec<Vec<u8>> = cb.kern_ids().iter().map(|i| i.as_ref().to_vec()).collect();
		let mut pre = ref_header(&cb.header);
		pre.extend_from_slice(&be64(cb.nonce));
		let n = [outs.len(), kers.len(), ids.len()];
		let counts = [n[0] as u64, n[1] as u64, n[2] as u64];
		let names = ["out_full", "kern_full", "kern_ids"];
		for li in 0..3 {
			let lists = [&outs, &kers, &ids];
			if n[li] >= 2 {
				let a = p.usize_below(n[li] - 1);
				let mut l = lists[li].clone();
				l.swap(a, a + 1);
				let mut ls = lists;
				ls[li] = &l;
				must_reject::<T>(
					cx,
					fam,
					&format!("unsorted_{}", names[li]),
					&format!("n{}", n[li].min(9)),
					v,
					&assemble3(&pre, counts, ls),
					Mode::Strict,
				);
			}
			if n[li] >= 1 {
				let a = p.usize_below(n[li]);
				let mut l = lists[li].clone();
				l.insert(a + 1, lists[li][a].clone());
				let mut ls = lists;
				ls[li] = &l;
				let mut c = counts;
				c[li] += 1;
				must_reject::<T>(
					cx,
					fam,
					&format!("duplicate_{}", names[li]),
					&format!("n{}", n[li].min(9)),
					v,
					&assemble3(&pre, c, ls),
					Mode::Strict,
				);
			}
			let mut alts: Vec<(u64, &str)> = vec![(counts[li] + 1, "plus1"), (1 << 32, "2p32"), (u64::MAX, "max")];
			if counts[li] > 0 {
				alts.push((counts[li] - 1, "minus1"));
				alts.push((0, "zero"));
			}
			for (c2, name) in alts {
				let mut c = counts;
				c[li] = c2;
				must_reject::<T>(
					cx,
					fam,
					&format!("count_mismatch_{}", names[li]),
					name,
					v,
					&assemble3(&pre, c, lists),
					Mode::CountLike,
				);
			}
		}
	}
}

fn task_blocks(cx: &mut Cx, p: &mut Prng, pools: &Pools, rounds: usize) {
	let shapes = block_shapes(global::max_block_weight());
	let min_eb = global::min_edge_bits();
	for r in 0..rounds {
		for &(i, o, k) in &shapes {
			if cx.expired() {
				return;
			}
			if i + k > pools.commits.len() {
				continue;
			}
			for var in [InVar::Features, InVar::CommitOnly] {
				let eb = if p.bool() { min_eb } else { p.range(10, 63) as u8 };
				let hv = 1 + p.below(5) as u16;
				let (header, hs) = gen_header(p, eb, hv);
				let body = gen_body(p, pools, i, o, k, var, true);
				let block = Block { header, body };
				let shape = format!(
					"i{}o{}k{}|{}|{}",
					i,
					o.min(pools.outs.len() + pools.cb.len()),
					k,
					if var == InVar::Features { "feat" } else { "commit" },
					hs
				);
				rt(cx, &shape, &block);
				if r == 0 || i + o + k <= 12 {
					perturb_body::<Block>(cx, p, "Block", &ref_header(&block.header), &block.body);
				}
				// compact blocks: library conversion (random nonce from the library) and reference-built
				let cshape = format!(
					"cbout{}|kfull{}|ids{}|eb{}",
					block.outputs().iter().filter(|o| o.is_coinbase()).count(),
					block.kernels().iter().filter(|k| k.is_coinbase()).count().min(9),
					block.kernels().iter().filter(|k| !k.is_coinbase()).count().min(20),
					eb
				);
				let cb = CompactBlock::from(block.clone());
				rt(cx, &format!("from_block|{}", cshape), &cb);
				if let Some(cb2) = compact_from_reference(cx, &block, p.next_u64()) {
					rt(cx, &format!("reference|{}", cshape), &cb2);
					if r == 0 || i + o + k <= 12 {
						perturb_compact::<CompactBlock>(cx, p, "CompactBlock", &cb2);
					}
				}
			}
		}
	}
}

// ------------------------------------------------------------------ task: MMR segments

fn build_mmr<T: PMMRable>(items: &[T]) -> VecBackend<T> {
	let mut ba = VecBackend::new();
	{
		let mut m = PMMR::new(&mut ba);
		for it in items {
			m.push(it).expect("mmr push");
		}
	}
	ba
}

fn proof_hashes(pf: &SegmentProof) -> Vec<Hash> {
	let b = ser::ser_vec(pf, pv(1)).expect("segment proof ser");
	b[8..].chunks(32).map(Hash::from_vec).collect()
}

/// Reference encoding of a segment from its parts; returns the bytes and the offsets of the three count fields.
fn ref_segment<T: Clone>(
	seg: &Segment<T>,
	elem: &dyn Fn(&T) -> Vec<u8>,
) -> (Vec<u8>, [usize; 3], (Vec<u64>, Vec<u64>)) {
	let (id, hash_pos, hashes, leaf_pos, leaf_data, proof) = seg.clone().parts();
	let mut o = vec![id.height];
	o.extend_from_slice(&be64(id.idx));
	let c0 = o.len();
	o.extend_from_slice(&be64(hashes.len() as u64));
	for p in &hash_pos {
		o.extend_from_slice(&be64(1 + p));
	}
	for h in &hashes {
		o.extend_from_slice(h.as_bytes());
	}
	let c1 = o.len();
	o.extend_from_slice(&be64(leaf_data.len() as u64));
	for p in &leaf_pos {
		o.extend_from_slice(&be64(1 + p));
	}
	for d in &leaf_data {
		o.extend_from_slice(&elem(d));
	}
	let c2 = o.len();
	let ph = proof_hashes(&proof);
	o.extend_from_slice(&be64(ph.len() as u64));
	for h in &ph {
		o.extend_from_slice(h.as_bytes());
	}
	(o, [c0, c1, c2], (hash_pos, leaf_pos))
}

fn perturb_segment<T: Clone + Readable + Writeable>(
	cx: &mut Cx,
	p: &mut Prng,
	fam: &str,
	seg: &Segment<T>,
	elem: &dyn Fn(&T, u32) -> Vec<u8>,
) where
	Segment<T>: Case,
{
	for v in [1u32, 3] {
		let (bytes, cnt, (hash_pos, leaf_pos)) = ref_segment(seg, &|t| elem(t, v));
		match ser::ser_vec(seg, pv(v)) {
			Ok(b) if b == bytes => cx.bump("refenc.compared"),
			_ => {
				cx.bump("refenc.compared");
				cx.bump("refenc.mismatch");
				cx.run
					.inconclusive(&format!("reference segment encoder disagrees for {}", fam));
				continue;
			}
		}
		// positions must be strictly increasing (and >= 1 on the wire)
		for (which, base, pos) in [("hash_pos", cnt[0] + 8, &hash_pos), ("leaf_pos", cnt[1] + 8, &leaf_pos)] {
			let n = pos.len();
			let at = |i: usize| base + 8 * i;
			if n >= 2 {
				let a = p.usize_below(n - 1);
				let mut b = bytes.clone();
				let (x, y) = (at(a), at(a + 1));
				for k in 0..8 {
					b.swap(x + k, y + k);
				}
				must_reject::<Segment<T>>(cx, fam, &format!("unsorted_{}", which), &format!("n{}", n.min(9)), v, &b, Mode::Strict);
				let mut b = bytes.clone();
				let src: Vec<u8> = b[at(a)..at(a) + 8].to_vec();
				b[at(a + 1)..at(a + 1) + 8].copy_from_slice(&src);
				must_reject::<Segment<T>>(cx, fam, &format!("duplicate_{}", which), &format!("n{}", n.min(9)), v, &b, Mode::Strict);
			}
			if n >= 1 {
				let mut b = bytes.clone();
				b[at(0)..at(0) + 8].copy_from_slice(&be64(0));
				must_reject::<Segment<T>>(cx, fam, &format!("zero_{}", which), &format!("n{}", n.min(9)), v, &b, Mode::Strict);
			}
		}
		for (ci, name) in [(0usize, "n_hashes"), (1, "n_leaves"), (2, "n_proof")] {
			let cur = u64::from_be_bytes(bytes[cnt[ci]..cnt[ci] + 8].try_into().unwrap());
			let mut alts = vec![(cur + 1, "plus1"), (1_000_000, "limit"), (1_000_001, "over_limit"), (u64::MAX, "max")];
			if cur > 0 {
				alts.push((cur - 1, "minus1"));
				alts.push((0, "zero"));
			}
			for (c2, an) in alts {
				let mut b = bytes.clone();
				b[cnt[ci]..cnt[ci] + 8].copy_from_slice(&be64(c2));
				must_reject::<Segment<T>>(cx, fam, &format!("count_mismatch_{}", name), an, v, &b, Mode::CountLike);
			}
		}
	}
}

fn seg_ids(n_leaves: u64, max_h: u8) -> Vec<SegmentIdentifier> {
	let mut v = vec![];
	for height in 0..=max_h {
		let cap = 1u64 << height;
		let n = (n_leaves + cap - 1) / cap;
		for idx in 0..n {
			v.push(SegmentIdentifier { height, idx });
		}
	}
	v
}

fn task_segments(cx: &mut Cx, p: &mut Prng, pools: &Pools, sizes: &[usize], max_ids: usize) {
	for &n in sizes {
		if cx.expired() {
			return;
		}
		// three leaf types with data stored as elements
		let outids: Vec<OutputIdentifier> = (0..n)
			.map(|i| {
				OutputIdentifier::new(
					if i % 3 == 0 {
						OutputFeatures::Coinbase
					} else {
						OutputFeatures::Plain
					},
					&pools.commits[i % pools.commits.len()],
				)
			})
			.collect();
		let proofs: Vec<RangeProof> = (0..n).map(|i| pools.outs[i % pools.outs.len()].proof).collect();
		let kernels: Vec<TxKernel> = (0..n).map(|i| gen_kernel(p, pools, (i % 4) as u64).0).collect();
		let bo = build_mmr(&outids);
		let bp = build_mmr(&proofs);
		let bk = build_mmr(&kernels);
		let mut ids = seg_ids(n as u64, 5);
		p.shuffle(&mut ids);
		ids.truncate(max_ids);
		for id in ids {
			if cx.expired() {
				return;
			}
			for prunable in [false, true] {
				let shape = format!("leaves{}|h{}|last{}|prunable{}", n.min(40), id.height, (id.idx + 1) << id.height >= n as u64, prunable);
				let bh = gen_hash(p);
				if let Ok(s) = Segment::from_pmmr(id, &ReadonlyPMMR::at(&bo, bo.size()), prunable) {
					rt(cx, &shape, &s);
					rt(cx, &shape, s.proof());
					if id.idx == 0 {
						perturb_segment(cx, p, "Segment<OutputIdentifier>", &s, &|t: &OutputIdentifier, _| {
							ref_outid(t.features, &t.commit)
						});
					}
					rt(
						cx,
						&shape,
						&OutputSegmentResponse {
							response: SegmentResponse {
								block_hash: bh,
								segment: s.clone(),
							},
							output_bitmap_root: gen_hash(p),
						},
					);
					rt(cx, &shape, &SegmentResponse { block_hash: bh, segment: s });
				} else {
					cx.bump("harness.segment_from_pmmr_failed");
				}
				if let Ok(s) = Segment::from_pmmr(id, &ReadonlyPMMR::at(&bp, bp.size()), prunable) {
					rt(cx, &shape, &s);
					if id.idx == 0 && id.height <= 2 {
						perturb_segment(cx, p, "Segment<RangeProof>", &s, &|t: &RangeProof, _| {
							let mut o = be64(t.plen as u64).to_vec();
							o.extend_from_slice(&t.proof[..t.plen]);
							o
						});
					}
					rt(cx, &shape, &SegmentResponse { block_hash: bh, segment: s });
				}
				if let Ok(s) = Segment::from_pmmr(id, &ReadonlyPMMR::at(&bk, bk.size()), prunable) {
					rt(cx, &shape, &s);
					if id.idx == 0 {
						perturb_segment(cx, p, "Segment<TxKernel>", &s, &|t: &TxKernel, v| ref_kernel(t, v));
					}
					rt(cx, &shape, &SegmentResponse { block_hash: bh, segment: s });
				}
			}
		}
		// segments assembled from parts: sparse positions, hashes without leaves and vice versa
		for _ in 0..4 {
			let nh = p.usize_below(6);
			let nl = p.usize_below(6).min(n);
			let mut hp: Vec<u64> = distinct_idx(p, 200, nh).into_iter().map(|x| x as u64).collect();
			hp.sort_unstable();
			let mut lp: Vec<u64> = distinct_idx(p, 200, nl).into_iter().map(|x| x as u64 + 1).collect();
			lp.sort_unstable();
			// from_parts asserts "last == 0 || pos > last": keep positions strictly increasing and non-zero after the first
			let proof = Segment::from_pmmr(
				SegmentIdentifier { height: 1, idx: 0 },
				&ReadonlyPMMR::at(&bk, bk.size()),
				false,
			)
			.map(|s| s.proof().clone())
			.unwrap();
			let seg = Segment::from_parts(
				SegmentIdentifier {
					height: p.below(64) as u8,
					idx: p.interesting_u64() >> 8,
				},
				hp.clone(),
				(0..nh).map(|_| gen_hash(p)).collect(),
				lp.clone(),
				kernels[..nl].to_vec(),
				proof,
			);
			rt(cx, &format!("from_parts|h{}|l{}", nh, nl), &seg);
		}
	}
}

// ------------------------------------------------------------------ task: bitmap segments

/// Chunk contents as sorted set-bit indices (0..1024).
fn gen_chunk_bits(p: &mut Prng, class: u64) -> Vec<u16> {
	match class {
		0 => vec![],
		1 => {
			// sparse
			let k = p.range(1, 20) as usize;
			let mut v: Vec<u16> = distinct_idx(p, 1024, k).into_iter().map(|x| x as u16).collect();
			v.sort_unstable();
			v
		}
		2 => {
			// abundant
			let k = p.range(0, 12) as usize;
			let holes: HashSet<usize> = distinct_idx(p, 1024, k).into_iter().collect();
			(0..1024usize).filter(|i| !holes.contains(i)).map(|x| x as u16).collect()
		}
		_ => (0..1024u16).filter(|_| p.bool()).collect(),
	}
}

fn chunk_of(bits: &[u16]) -> BitmapChunk {
	let mut c = BitmapChunk::new();
	for b in bits {
		c.set(*b as u64, true);
	}
	c
}

/// Reference encoding of the blocks of a bitmap segment (64 chunks per block; sparse / abundant / raw by occupancy).
/// Returns the bytes and, per block, (offset of the block, mode, number of listed indices).
fn ref_bitmap_blocks(chunks: &[Vec<u16>]) -> (Vec<u8>, Vec<(usize, u8, usize)>) {
	let mut o = vec![];
	let mut meta = vec![];
	for blk in chunks.chunks(64) {
		let off = o.len();
		let nbits = blk.len() * 1024;
		let mut pos: Vec<u16> = vec![];
		for (ci, c) in blk.iter().enumerate() {
			for b in c {
				pos.push((ci * 1024) as u16 + *b);
			}
		}
		let count_pos = pos.len();
		let count_neg = nbits - count_pos;
		o.push(blk.len() as u8);
		if count_pos < 4096 {
			o.push(1);
			o.extend_from_slice(&(count_pos as u16).to_be_bytes());
			for x in &pos {
				o.extend_from_slice(&x.to_be_bytes());
			}
			meta.push((off, 1, count_pos));
		} else if count_neg < 4096 {
			o.push(2);
			o.extend_from_slice(&(count_neg as u16).to_be_bytes());
			let set: HashSet<u16> = pos.iter().cloned().collect();
			for x in 0..nbits {
				if !set.contains(&(x as u16)) {
					o.extend_from_slice(&(x as u16).to_be_bytes());
				}
			}
			meta.push((off, 2, count_neg));
		} else {
			o.push(0);
			let mut raw = vec![0u8; nbits / 8];
			for x in &pos {
				raw[*x as usize / 8] |= 0x80 >> (*x % 8);
			}
			o.extend_from_slice(&raw);
			meta.push((off, 0, 0));
		}
	}
	(o, meta)
}

fn task_bitmap(cx: &mut Cx, p: &mut Prng, rounds: usize, big: bool) {
	// a proof to attach: taken from an honest accumulator segment
	let mut acc = BitmapAccumulator::new();
	let idx: Vec<u64> = (0..300_000u64).filter(|i| i % 7 != 3 && (i / 1024) % 5 != 4).collect();
	acc.init(idx, 300_000).expect("bitmap accumulator");
	let n_acc = pmmr::n_leaves(acc.readonly_pmmr().unpruned_size());
	// honest segments straight from the accumulator
	for height in [0u8, 3, 6, 7, 9] {
		let cap = 1u64 << height;
		for idx in 0..((n_acc + cap - 1) / cap).min(6) {
			if cx.expired() {
				return;
			}
			let id = SegmentIdentifier { height, idx };
			if let Ok(seg) = Segment::from_pmmr(id, &acc.readonly_pmmr(), false) {
				bitmap_case(cx, p, &format!("accumulator|h{}", height), seg, None);
			}
		}
	}
	let proof = Segment::from_pmmr(SegmentIdentifier { height: 2, idx: 1 }, &acc.readonly_pmmr(), false)
		.expect("segment")
		.proof()
		.clone();
	for r in 0..rounds {
		// (height, number of chunks, density class per block)
		let mut plans: Vec<(u8, usize, u64)> = vec![
			(0, 1, 1),
			(0, 1, 2),
			(0, 1, 3),
			(3, 8, 3),
			(3, 5, 1),
			(6, 64, 1),
			(6, 64, 2),
			(6, 64, 3),
			(7, 128, 3),
			(7, 65, 2),
			(7, 100, 4),
			(8, 200, 4),
			(6, 9, 3),
			// occupancy exactly at / next to the mode thresholds (4096 of 65536 set or unset)
			(6, 64, 5),
			(6, 64, 6),
			(6, 64, 7),
			(6, 64, 8),
		];
		if big && r == 0 {
			plans.push((13, 8192, 4));
			plans.push((10, 1000, 4));
		}
		for (height, n_chunks, class) in plans {
			if cx.expired() {
				return;
			}
			let chunks: Vec<Vec<u16>> = if class >= 5 {
				// exactly 4095 / 4096 bits set (classes 5, 6) or unset (classes 7, 8), spread over the block
				let k = if class % 2 == 1 { 4095 } else { 4096 };
				let chosen: HashSet<usize> = distinct_idx(p, 65536, k).into_iter().collect();
				(0..64usize)
					.map(|ci| {
						(0..1024usize)
							.filter(|b| chosen.contains(&(ci * 1024 + b)) == (class <= 6))
							.map(|b| b as u16)
							.collect()
					})
					.collect()
			} else {
				(0..n_chunks)
					.map(|ci| {
						let c = if class == 4 { ((ci / 64) as u64 + r as u64) % 4 } else { class };
						gen_chunk_bits(p, c)
					})
					.collect()
			};
			let idx = p.below(5);
			let offset = idx << height;
			let seg = Segment::from_parts(
				SegmentIdentifier { height, idx },
				vec![],
				vec![],
				(0..n_chunks as u64).map(|i| pmmr::insertion_to_pmmr_index(offset + i)).collect(),
				chunks.iter().map(|c| chunk_of(c)).collect(),
				proof.clone(),
			);
			bitmap_case(cx, p, &format!("parts|h{}|chunks{}|class{}", height, n_chunks, class), seg, Some(&chunks));
		}
	}
}

fn bitmap_case(cx: &mut Cx, p: &mut Prng, shape: &str, seg: Segment<BitmapChunk>, chunks: Option<&[Vec<u16>]>) {
	let id = seg.identifier();
	let bs = BitmapSegment::from(seg.clone());
	rt(cx, shape, &bs);
	rt(
		cx,
		shape,
		&OutputBitmapSegmentResponse {
			block_hash: gen_hash(p),
			segment: bs.clone(),
			output_root: gen_hash(p),
		},
	);
	// Segment<BitmapChunk> travels as a BitmapSegment: the segment must come back equal
	for v in VERSIONS {
		cx.eval(&format!("rt|Segment<BitmapChunk>|{}|v{}", shape, v));
		let bytes = ser::ser_vec(&bs, pv(v)).expect("bitmap segment ser");
		match dec_bin::<BitmapSegment>(&bytes, v) {
			Dec::Ok(b2, _) => match catch(|| b2.into_segment()) {
				Ok(Ok(s2)) if s2 == seg => cx.bump(&format!("rt.Segment<BitmapChunk>.v{}", v)),
				other => cx.violation(
					"type=Segment<BitmapChunk>;phase=roundtrip;event=value_mismatch",
					&format!(
						"segment of bitmap chunks does not survive transport as BitmapSegment: {}",
						short(format!("{:?}", other.map(|r| r.map(|_| "different segment")).map_err(|p| p.message)))
					),
					replay_of("Segment<BitmapChunk>", cx.ct, v, shape, &bytes, ""),
				),
			},
			_ => {} // reported by rt() above
		}
	}
	let chunks = match chunks {
		Some(c) => c,
		None => return,
	};
	// reference encoding and perturbations
	let (blocks, meta) = ref_bitmap_blocks(chunks);
	let ph = proof_hashes(seg.proof());
	let mut bytes = vec![id.height];
	bytes.extend_from_slice(&be64(id.idx));
	bytes.extend_from_slice(&(meta.len() as u16).to_be_bytes());
	let b0 = bytes.len();
	bytes.extend_from_slice(&blocks);
	bytes.extend_from_slice(&be64(ph.len() as u64));
	for h in &ph {
		bytes.extend_from_slice(h.as_bytes());
	}
	cx.bump("refenc.compared");
	if ser::ser_vec(&bs, pv(1)).ok().as_deref() != Some(&bytes[..]) {
		cx.bump("refenc.mismatch");
		cx.run
			.inconclusive(&format!("reference bitmap segment encoder disagrees for {}", shape));
		return;
	}
	for (off, mode, _) in &meta {
		cx.bump(&format!("bitmap_block_mode.{}", ["raw", "positive", "negative"][*mode as usize]));
		let _ = off;
	}
	let fam = "BitmapSegment";
	let v = 1;
	// block count
	for (c2, name) in [(0u16, "zero"), (meta.len() as u16 + 1, "plus1"), (0xffff, "max")] {
		let mut b = bytes.clone();
		b[9..11].copy_from_slice(&c2.to_be_bytes());
		let mode = if c2 == 0 { Mode::Strict } else { Mode::CountLike };
		must_reject::<BitmapSegment>(cx, fam, "count_mismatch_n_blocks", name, v, &b, mode);
	}
	// identifier height above the served range, or too small for the chunks carried
	for hgt in [14u8, 15, 64, 255] {
		let mut b = bytes.clone();
		b[0] = hgt;
		must_reject::<BitmapSegment>(cx, fam, "height_out_of_range", &format!("h{}", hgt), v, &b, Mode::Strict);
	}
	if chunks.len() > 1 {
		let mut h2 = id.height;
		while (1usize << h2) >= chunks.len() && h2 > 0 {
			h2 -= 1;
		}
		if (1usize << h2) < chunks.len() {
			let mut b = bytes.clone();
			b[0] = h2;
			must_reject::<BitmapSegment>(cx, fam, "more_chunks_than_segment_capacity", &format!("h{}", h2), v, &b, Mode::Strict);
		}
	}
	let (off0, mode0, n0) = meta[0];
	let o = b0 + off0;
	// serialization mode tag: only 0, 1, 2 are defined
	for tag in 3..=255u8 {
		let mut b = bytes.clone();
		b[o + 1] = tag;
		must_reject::<BitmapSegment>(cx, fam, "unknown_block_mode_tag", &format!("tag{}", tag), v, &b, Mode::Strict);
	}
	// chunk count of a block above 64
	for nc in [65u8, 128, 255] {
		let mut b = bytes.clone();
		b[o] = nc;
		must_reject::<BitmapSegment>(cx, fam, "block_chunk_count_out_of_range", &format!("n{}", nc), v, &b, Mode::Strict);
	}
	// a non-final block that is not full / a final block with no chunk
	if meta.len() >= 2 {
		let mut b = bytes.clone();
		b[o] = 63;
		must_reject::<BitmapSegment>(cx, fam, "count_mismatch_nonfinal_block_not_full", "63", v, &b, Mode::CountLike);
	}
	{
		let (offl, _, _) = meta[meta.len() - 1];
		let mut b = bytes.clone();
		b[b0 + offl] = 0;
		must_reject::<BitmapSegment>(cx, fam, "count_mismatch_final_block_empty", "0", v, &b, Mode::CountLike);
	}
	if mode0 != 0 && n0 >= 2 {
		let nbits = (chunks.len().min(64) * 1024) as u32;
		// index outside the block
		if nbits < 65536 {
			let mut b = bytes.clone();
			b[o + 4..o + 6].copy_from_slice(&(nbits as u16).to_be_bytes());
			must_reject::<BitmapSegment>(cx, fam, "index_outside_block", &format!("bits{}", nbits), v, &b, Mode::Strict);
		}
		// listed-index count inconsistent with the list
		for (c2, name) in [(n0 as u16 + 1, "plus1"), (n0 as u16 - 1, "minus1"), (0xffff, "max")] {
			let mut b = bytes.clone();
			b[o + 2..o + 4].copy_from_slice(&c2.to_be_bytes());
			must_reject::<BitmapSegment>(cx, fam, "count_mismatch_block_indices", name, v, &b, Mode::CountLike);
		}
		// informational (the format does not define an order / uniqueness of the listed indices, nor a unique mode)
		let mut b = bytes.clone();
		for k in 0..2 {
			b.swap(o + 4 + k, o + 6 + k);
		}
		probe::<BitmapSegment>(cx, "bitmap_block_indices_unsorted", v, &b);
		let mut b = bytes.clone();
		let first: Vec<u8> = b[o + 4..o + 6].to_vec();
		b[o + 6..o + 8].copy_from_slice(&first);
		probe::<BitmapSegment>(cx, "bitmap_block_indices_duplicate", v, &b);
	}
}

// ------------------------------------------------------------------ task: p2p messages

const ALL_TYPES: [Type; 29] = [
	Type::Error,
	Type::Hand,
	Type::Shake,
	Type::Ping,
	Type::Pong,
	Type::GetPeerAddrs,
	Type::PeerAddrs,
	Type::GetHeaders,
	Type::Header,
	Type::Headers,
	Type::GetBlock,
	Type::Block,
	Type::GetCompactBlock,
	Type::CompactBlock,
	Type::StemTransaction,
	Type::Transaction,
	Type::TxHashSetRequest,
	Type::TxHashSetArchive,
	Type::BanReason,
	Type::GetTransaction,
	Type::TransactionKernel,
	Type::GetOutputBitmapSegment,
	Type::OutputBitmapSegment,
	Type::GetOutputSegment,
	Type::OutputSegment,
	Type::GetRangeProofSegment,
	Type::RangeProofSegment,
	Type::GetKernelSegment,
	Type::KernelSegment,
];

const ALL_BANS: [ReasonForBan; 8] = [
	ReasonForBan::None,
	ReasonForBan::BadBlock,
	ReasonForBan::BadCompactBlock,
	ReasonForBan::BadBlockHeader,
	ReasonForBan::BadTxHashSet,
	ReasonForBan::ManualBan,
	ReasonForBan::FraudHeight,
	ReasonForBan::BadHandshake,
];

fn gen_caps(p: &mut Prng) -> Capabilities {
	match p.below(4) {
		0 => Capabilities::UNKNOWN,
		1 => Capabilities::all(),
		2 => Capabilities::default(),
		_ => Capabilities::from_bits_truncate(p.next_u32()),
	}
}

fn gen_agent(p: &mut Prng) -> String {
	match p.below(6) {
		0 => String::new(),
		1 => "MW/Grin 5.4.0".to_string(),
		2 => "\u{00e9}\u{4e16}\u{1F600} grin".to_string(),
		3 => "x".repeat(p.range(1, 3000) as usize),
		4 => "y".repeat(100_000),
		_ => (0..p.below(40)).map(|_| (b' ' + p.below(95) as u8) as char).collect(),
	}
}

/// Decode a `Headers` message the way the codec does: count, then one header after the other.
fn rt_headers(cx: &mut Cx, shape: &str, hs: &[BlockHeader]) {
	let msg = Headers { headers: hs.to_vec() };
	for v in VERSIONS {
		cx.eval(&format!("rt|Headers|{}|v{}|{}", shape, v, cx.ct));
		let bytes = match ser::ser_vec(&msg, pv(v)) {
			Ok(b) => b,
			Err(e) => {
				cx.violation(
					"type=Headers;phase=roundtrip;event=encode_error",
					&format!("{:?}", e),
					json!({"shape": shape, "protocol_version": v}),
				);
				continue;
			}
		};
		let mut refb = (hs.len() as u16).to_be_bytes().to_vec();
		for h in hs {
			refb.extend_from_slice(&ref_header(h));
		}
		cx.bump("refenc.compared");
		if refb != bytes {
			cx.bump("refenc.mismatch");
			cx.run.inconclusive("reference Headers encoder disagrees");
		}
		let mut b: &[u8] = &bytes;
		let res = catch(|| {
			let mut rd = BufReader::new(&mut b, pv(v));
			let n = rd.read_u16()?;
			let mut out = vec![];
			for _ in 0..n {
				out.push(rd.body::<BlockHeader>()?);
			}
			Ok::<_, ser::Error>((out, rd.bytes_read() as usize))
		});
		match res {
			Ok(Ok((out, used))) => {
				let re = ser::ser_vec(&Headers { headers: out.clone() }, pv(v)).ok();
				let hash_ok = out.iter().zip(hs.iter()).all(|(a, b)| a.hash() == b.hash());
				if used != bytes.len() || out[..] != hs[..] || re.as_deref() != Some(&bytes[..]) || !hash_ok {
					cx.violation(
						"type=Headers;phase=roundtrip;event=value_mismatch",
						&format!(
							"headers message does not round trip (consumed {} of {}, equal {}, hashes {})",
							used,
							bytes.len(),
							out[..] == hs[..],
							hash_ok
						),
						replay_of("Headers", cx.ct, v, shape, &bytes, ""),
					);
				} else {
					cx.bump(&format!("rt.Headers.v{}", v));
				}
			}
			other => cx.violation(
				"type=Headers;phase=roundtrip;event=decode_error",
				&short(format!("{:?}", other.map(|r| r.map(|_| ()).map_err(|e| e)).map_err(|p| p.message))),
				replay_of("Headers", cx.ct, v, shape, &bytes, ""),
			),
		}
		// count inconsistent with the headers that follow
		for (c2, name) in [(hs.len() as u16 + 1, "plus1"), (0xffff, "max")] {
			let mut b = bytes.clone();
			b[0..2].copy_from_slice(&c2.to_be_bytes());
			cx.eval(&format!("pert|Headers|count|{}|v{}", name, v));
			let mut bb: &[u8] = &b;
			let r = catch(|| {
				let mut rd = BufReader::new(&mut bb, pv(v));
				let n = rd.read_u16()?;
				for _ in 0..n {
					rd.body::<BlockHeader>()?;
				}
				Ok::<_, ser::Error>(())
			});
			match r {
				Ok(Err(_)) => {
					cx.bump("reject.Headers.count_mismatch");
					cx.bump("reject.total");
				}
				Ok(Ok(())) => cx.violation(
					"type=Headers;class=count_mismatch;event=noncanonical_encoding_accepted",
					"headers list with a count above its content decodes",
					replay_of("Headers", cx.ct, v, name, &b, ""),
				),
				Err(_) => cx.bump("perturb.panic_seen"),
			}
		}
	}
}

fn task_p2p(cx: &mut Cx, p: &mut Prng, pools: &Pools, n: usize) {
	for i in 0..n {
		if cx.expired() {
			return;
		}
		let a4 = gen_addr(p, 0);
		let a6 = gen_addr(p, 1);
		rt(cx, "v4", &a4);
		rt(cx, "v6", &a6);
		let (s, r) = if p.bool() { (a4, a6) } else { (a6, a4) };
		let ua = gen_agent(p);
		let uac = format!("ua{}", ua.len().min(3001) / 1000);
		rt(
			cx,
			&uac,
			&Hand {
				version: pv(*p.pick(&[1, 2, 3, 1000, 0, u32::MAX])),
				capabilities: gen_caps(p),
				nonce: p.interesting_u64(),
				genesis: gen_hash(p),
				total_difficulty: Difficulty::from_num(p.interesting_u64()),
				sender_addr: s,
				receiver_addr: r,
				user_agent: ua.clone(),
			},
		);
		rt(
			cx,
			&uac,
			&Shake {
				version: pv(*p.pick(&[1, 2, 3, 1000, 0, u32::MAX])),
				capabilities: gen_caps(p),
				genesis: gen_hash(p),
				total_difficulty: Difficulty::from_num(p.interesting_u64()),
				user_agent: ua.clone(),
			},
		);
		rt(cx, "caps", &GetPeerAddrs { capabilities: gen_caps(p) });
		let na = match i % 5 {
			0 => 0,
			1 => 1,
			2 => 256,
			_ => p.below(40) as usize,
		};
		let peers: Vec<PeerAddr> = (0..na)
			.map(|_| {
				let c = p.below(2);
				gen_addr(p, c)
			})
			.collect();
		rt(cx, &format!("n{}", na.min(41)), &StrictAddrs(PeerAddrs { peers }));
		rt(
			cx,
			&uac,
			&PeerError {
				code: p.next_u32(),
				message: ua.clone(),
			},
		);
		let nl = (i % 21).min(20);
		rt(
			cx,
			&format!("n{}", nl),
			&Locator {
				hashes: (0..nl).map(|_| gen_hash(p)).collect(),
			},
		);
		let (td, ht) = (Difficulty::from_num(p.interesting_u64()), p.interesting_u64());
		rt(cx, "ping", &Ping { total_difficulty: td, height: ht });
		rt(cx, "pong", &Pong { total_difficulty: td, height: ht });
		rt(cx, &format!("{}", i % 8), &BanReason { ban_reason: ALL_BANS[i % 8] });
		rt(cx, "req", &TxHashSetRequest { hash: gen_hash(p), height: ht });
		rt(
			cx,
			"arch",
			&TxHashSetArchive {
				hash: gen_hash(p),
				height: ht,
				bytes: p.interesting_u64(),
			},
		);
		rt(
			cx,
			"segreq",
			&SegmentRequest {
				block_hash: gen_hash(p),
				identifier: SegmentIdentifier {
					height: p.below(256) as u8,
					idx: p.interesting_u64(),
				},
			},
		);
		rt(
			cx,
			&format!("{}|{}", uac, i % 4),
			&PeerData {
				addr: {
					let c = p.below(2);
					gen_addr(p, c)
				},
				capabilities: gen_caps(p),
				user_agent: ua,
				flags: [State::Healthy, State::Banned, State::Defunct, State::Unknown][i % 4],
				last_banned: p.next_u64() as i64,
				ban_reason: ALL_BANS[i % 8],
				last_connected: p.next_u64() as i64,
				last_attempt: p.next_u64() as i64,
			},
		);
		// message header of every type
		let t = ALL_TYPES[i % 29];
		let len = p.below(5);
		cx.eval(&format!("rt|MsgHeader|{:?}", t));
		let hb = ser::ser_vec(&MsgHeader::new(t, len), pv(1)).expect("msg header");
		match dec_bin::<MsgHeaderWrapper>(&hb, 1) {
			Dec::Ok(MsgHeaderWrapper::Known(h), used)
				if used == hb.len()
					&& h.msg_type == t && h.msg_len == len
					&& ser::ser_vec(&h, pv(1)).ok().as_deref() == Some(&hb[..]) =>
			{
				cx.bump("rt.MsgHeader.v1")
			}
			_ => {
				if len <= 0 || t != Type::Error {
					cx.violation(
						"type=MsgHeader;phase=roundtrip;event=value_mismatch",
						&format!("message header of type {:?} len {} does not round trip", t, len),
						replay_of("MsgHeader", cx.ct, 1, "hdr", &hb, ""),
					);
				} else {
					// Type::Error has a maximum body length of 0: a non-empty error message is not carried
					cx.bump("not_carried.MsgHeader.error_with_body");
				}
			}
		}
		// headers message
		if i % 8 == 0 {
			let k = [0usize, 1, 3, 32][i / 8 % 4];
			let hs: Vec<BlockHeader> = (0..k)
				.map(|_| {
					let (eb, hv) = (p.range(10, 63) as u8, 1 + p.below(5) as u16);
					gen_header(p, eb, hv).0
				})
				.collect();
			rt_headers(cx, &format!("n{}", k), &hs);
		}
		let _ = pools;
	}
	// the address classes a v6 socket address can fall in: mapped (::ffff:a.b.c.d) and compatible (::a.b.c.d)
	for class in [2u64, 3] {
		for _ in 0..(n / 4).max(8) {
			let a = gen_addr(p, class);
			rt(cx, &addr_class(&a), &a);
		}
	}
	perturb_p2p(cx, p);
}

fn perturb_p2p(cx: &mut Cx, p: &mut Prng) {
	let v = 1000;
	// address family tag: 0 = v4, 1 = v6
	let a6 = ser::ser_vec(&gen_addr(p, 1), pv(v)).unwrap();
	for tag in 2..=255u8 {
		let mut b = a6.clone();
		b[0] = tag;
		must_reject::<PeerAddr>(cx, "PeerAddr", "unknown_address_family_tag", &format!("tag{}", tag), v, &b, Mode::Strict);
	}
	// ban reason codes: 0..=7
	for code in (-3i32..=300).chain([i32::MIN, i32::MAX, 1 << 16].into_iter()) {
		if (0..=7).contains(&code) {
			continue;
		}
		must_reject::<BanReason>(cx, "BanReason", "unknown_reason_code", &format!("{}", code.clamp(-4, 301)), v, &code.to_be_bytes(), Mode::Strict);
	}
	probe::<BanReason>(cx, "banreason_empty_body_reads_as_none", v, &[]);
	// user agent: length prefix vs content, invalid utf-8
	let hand = Hand {
		version: pv(1000),
		capabilities: Capabilities::default(),
		nonce: 7,
		genesis: gen_hash(p),
		total_difficulty: Difficulty::from_num(99),
		sender_addr: gen_addr(p, 0),
		receiver_addr: gen_addr(p, 0),
		user_agent: "MW/Grin 5.4".into(),
	};
	let hb = ser::ser_vec(&hand, pv(v)).unwrap();
	let ua_at = 4 + 4 + 8 + 8 + 7 + 7;
	let shake = Shake {
		version: pv(1000),
		capabilities: Capabilities::default(),
		genesis: gen_hash(p),
		total_difficulty: Difficulty::from_num(99),
		user_agent: "MW/Grin 5.4".into(),
	};
	let sb = ser::ser_vec(&shake, pv(v)).unwrap();
	let sua_at = 4 + 4 + 8;
	for (c2, name) in [(10u64, "minus1"), (12, "plus1"), (100_001, "over_read_limit"), (1 << 32, "2p32"), (u64::MAX, "max")] {
		let mut b = hb.clone();
		b[ua_at..ua_at + 8].copy_from_slice(&be64(c2));
		must_reject::<Hand>(cx, "Hand", "count_mismatch_user_agent_length", name, v, &b, Mode::CountLike);
		let mut b = sb.clone();
		b[sua_at..sua_at + 8].copy_from_slice(&be64(c2));
		must_reject::<Shake>(cx, "Shake", "count_mismatch_user_agent_length", name, v, &b, Mode::CountLike);
	}
	for bad in [0xffu8, 0xc0, 0x80] {
		let mut b = hb.clone();
		b[ua_at + 8 + 3] = bad;
		must_reject::<Hand>(cx, "Hand", "user_agent_not_utf8", &format!("{:02x}", bad), v, &b, Mode::Strict);
		let mut b = sb.clone();
		b[sua_at + 8 + 3] = bad;
		must_reject::<Shake>(cx, "Shake", "user_agent_not_utf8", &format!("{:02x}", bad), v, &b, Mode::Strict);
	}
	// informational: capability bits nobody defines are dropped silently (forward compatibility by design)
	let mut b = hb.clone();
	b[4..8].copy_from_slice(&0xffff_ff80u32.to_be_bytes());
	probe::<Hand>(cx, "hand_undefined_capability_bits", v, &b);
	// counted lists
	let loc = ser::ser_vec(&Locator { hashes: (0..3).map(|_| gen_hash(p)).collect() }, pv(v)).unwrap();
	for (c2, name) in [(2u8, "minus1"), (4, "plus1"), (20, "limit"), (21, "over_limit"), (255, "max")] {
		let mut b = loc.clone();
		b[0] = c2;
		must_reject::<Locator>(cx, "Locator", "count_mismatch_hashes", name, v, &b, Mode::CountLike);
	}
	let pa = ser::ser_vec(&PeerAddrs { peers: (0..3).map(|_| gen_addr(p, 0)).collect() }, pv(v)).unwrap();
	for (c2, name) in [(2u32, "minus1"), (4, "plus1"), (256, "limit"), (257, "over_limit"), (u32::MAX, "max")] {
		let mut b = pa.clone();
		b[0..4].copy_from_slice(&c2.to_be_bytes());
		must_reject::<StrictAddrs>(cx, "PeerAddrs", "count_mismatch_peers", name, v, &b, Mode::CountLike);
	}
	// message header: magic and type tags
	let mh = ser::ser_vec(&MsgHeader::new(Type::Ping, 16), pv(v)).unwrap();
	for (at, name) in [(0usize, "magic0"), (1, "magic1")] {
		for delta in [1u8, 0x80, 0xff] {
			let mut b = mh.clone();
			b[at] = b[at].wrapping_add(delta);
			cx.eval(&format!("pert|MsgHeader|magic|{}|{}", name, delta));
			match dec_bin::<MsgHeaderWrapper>(&b, v) {
				Dec::Err(_) => {
					cx.bump("reject.MsgHeader.wrong_magic");
					cx.bump("reject.total");
				}
				_ => cx.violation(
					"type=MsgHeader;class=wrong_magic;event=noncanonical_encoding_accepted",
					"message header with foreign magic bytes decodes",
					replay_of("MsgHeader", cx.ct, v, name, &b, ""),
				),
			}
		}
	}
	let defined: HashSet<u8> = ALL_TYPES.iter().map(|t| *t as u8).collect();
	for tag in 0..=255u8 {
		let mut b = mh.clone();
		b[2] = tag;
		b[3..11].copy_from_slice(&be64(0));
		cx.eval(&format!("pert|MsgHeader|type_tag|{}", tag));
		let ok = match dec_bin::<MsgHeaderWrapper>(&b, v) {
			Dec::Ok(MsgHeaderWrapper::Known(h), _) => defined.contains(&tag) && h.msg_type as u8 == tag,
			Dec::Ok(MsgHeaderWrapper::Unknown(len, t), _) => !defined.contains(&tag) && t == tag && len == 0,
			_ => false,
		};
		if ok {
			cx.bump("msg_type_tag.classified_correctly");
		} else {
			cx.violation(
				"type=MsgHeader;class=type_tag;event=tag_misclassified",
				&format!("message type tag {} is not classified as {}", tag, if defined.contains(&tag) { "known" } else { "unknown (kept verbatim)" }),
				replay_of("MsgHeader", cx.ct, v, &format!("tag{}", tag), &b, ""),
			);
		}
	}
	// peer store entries: state and ban reason tags
	let pd = PeerData {
		addr: gen_addr(p, 0),
		capabilities: Capabilities::default(),
		user_agent: "ua".into(),
		flags: State::Healthy,
		last_banned: 1,
		ban_reason: ReasonForBan::None,
		last_connected: 2,
		last_attempt: 3,
	};
	let pb = ser::ser_vec(&pd, pv(v)).unwrap();
	let st_at = 7 + 4 + 8 + 2;
	for tag in 4..=255u8 {
		let mut b = pb.clone();
		b[st_at] = tag;
		must_reject::<PeerData>(cx, "PeerData", "unknown_state_tag", &format!("tag{}", tag), v, &b, Mode::Strict);
	}
	for code in [-1i32, 8, 9, 255, 256, i32::MAX] {
		let mut b = pb.clone();
		b[st_at + 9..st_at + 13].copy_from_slice(&code.to_be_bytes());
		must_reject::<PeerData>(cx, "PeerData", "unknown_reason_code", &format!("{}", code), v, &b, Mode::Strict);
	}
}

// ------------------------------------------------------------------ task: mined blocks through the untrusted (network) decoders

fn task_mined(cx: &mut Cx, p: &mut Prng, pools: &Pools, n_blocks: u64) {
	let mut prev_total = Difficulty::from_num(1000);
	let mut mined: Vec<BlockHeader> = vec![];
	for height in 1..=n_blocks {
		if cx.expired() {
			break;
		}
		let var = if height % 2 == 0 { InVar::Features } else { InVar::CommitOnly };
		let (i, o, k) = [(0, 1, 1), (2, 2, 2), (3, 4, 3), (0, 0, 0), (6, 3, 5)][(height % 5) as usize];
		let body = gen_body(p, pools, i, o, k, var, true);
		let mut header = BlockHeader::default();
		header.height = height;
		header.version = consensus::header_version(height);
		header.timestamp = DateTime::<Utc>::from_timestamp(1_700_000_000 + 60 * height as i64, 0).unwrap();
		header.prev_hash = gen_hash(p);
		header.prev_root = gen_hash(p);
		header.output_root = gen_hash(p);
		header.range_proof_root = gen_hash(p);
		header.kernel_root = gen_hash(p);
		header.total_kernel_offset = gen_blind(p);
		header.output_mmr_size = 1 + height;
		header.kernel_mmr_size = 1 + height;
		header.pow.total_difficulty = prev_total + Difficulty::from_num(1);
		header.pow.secondary_scaling = p.next_u32();
		header.pow.nonce = p.next_u64();
		if let Err(e) = vcommon::world::mine(&mut header, prev_total) {
			cx.run.inconclusive(&format!("mining failed: {}", e));
			continue;
		}
		prev_total = header.pow.total_difficulty;
		let block = Block { header: header.clone(), body };
		mined.push(header.clone());
		let shape = format!("h{}|hv{}|i{}o{}k{}", height, header.version.0, i, o, k);
		for v in VERSIONS {
			if !block.carried(v) {
				continue;
			}
			// header
			cx.eval(&format!("rt|UntrustedBlockHeader|{}|v{}", shape, v));
			let hb = ser::ser_vec(&header, pv(v)).unwrap();
			match dec_bin::<UntrustedBlockHeader>(&hb, v) {
				Dec::Ok(u, used) => {
					let y: BlockHeader = u.into();
					if used != hb.len() || y != header || y.hash() != header.hash() || ser::ser_vec(&y, pv(v)).ok().as_deref() != Some(&hb[..]) {
						cx.violation(
							"type=UntrustedBlockHeader;phase=roundtrip;event=value_mismatch",
							"mined header does not survive the untrusted decoder",
							replay_of("UntrustedBlockHeader", cx.ct, v, &shape, &hb, ""),
						);
					} else {
						cx.bump(&format!("rt.UntrustedBlockHeader.v{}", v));
					}
				}
				other => cx.violation(
					"type=UntrustedBlockHeader;phase=roundtrip;event=decode_error",
					&format!("honest mined header refused: {}", match other { Dec::Err(e) => format!("{:?}", e), Dec::Panic(pn) => pn.message, _ => String::new() }),
					replay_of("UntrustedBlockHeader", cx.ct, v, &shape, &hb, ""),
				),
			}
			// block
			cx.eval(&format!("rt|UntrustedBlock|{}|v{}", shape, v));
			let bb = ser::ser_vec(&block, pv(v)).unwrap();
			match dec_bin::<UntrustedBlock>(&bb, v) {
				Dec::Ok(u, used) => {
					let y: Block = u.into();
					if used != bb.len() || block.diff(&y, v).is_some() || y.hash() != block.hash() || ser::ser_vec(&y, pv(v)).ok().as_deref() != Some(&bb[..]) {
						cx.violation(
							"type=UntrustedBlock;phase=roundtrip;event=value_mismatch",
							"mined block does not survive the untrusted decoder",
							replay_of("UntrustedBlock", cx.ct, v, &shape, &bb, ""),
						);
					} else {
						cx.bump(&format!("rt.UntrustedBlock.v{}", v));
					}
				}
				other => cx.violation(
					"type=UntrustedBlock;phase=roundtrip;event=decode_error",
					&format!("honest mined block refused: {}", match other { Dec::Err(e) => format!("{:?}", e), Dec::Panic(pn) => pn.message, _ => String::new() }),
					replay_of("UntrustedBlock", cx.ct, v, &shape, &bb, ""),
				),
			}
			// compact block
			if let Some(cb) = compact_from_reference(cx, &block, p.next_u64()) {
				cx.eval(&format!("rt|UntrustedCompactBlock|{}|v{}", shape, v));
				let cbb = ser::ser_vec(&cb, pv(v)).unwrap();
				match dec_bin::<UntrustedCompactBlock>(&cbb, v) {
					Dec::Ok(u, used) => {
						let y: CompactBlock = u.into();
						if used != cbb.len() || cb.diff(&y, v).is_some() || y.hash() != block.hash() || ser::ser_vec(&y, pv(v)).ok().as_deref() != Some(&cbb[..]) {
							cx.violation(
								"type=UntrustedCompactBlock;phase=roundtrip;event=value_mismatch",
								"compact block of a mined block does not survive the untrusted decoder",
								replay_of("UntrustedCompactBlock", cx.ct, v, &shape, &cbb, ""),
							);
						} else {
							cx.bump(&format!("rt.UntrustedCompactBlock.v{}", v));
						}
					}
					other => cx.violation(
						"type=UntrustedCompactBlock;phase=roundtrip;event=decode_error",
						&format!("honest compact block refused: {}", match other { Dec::Err(e) => format!("{:?}", e), Dec::Panic(pn) => pn.message, _ => String::new() }),
						replay_of("UntrustedCompactBlock", cx.ct, v, &shape, &cbb, ""),
					),
				}
				if v == 1 || v == 1000 {
					perturb_compact::<UCB>(cx, p, "UntrustedCompactBlock", &cb);
				}
			}
		}
		perturb_body::<UB>(cx, p, "UntrustedBlock", &ref_header(&block.header), &block.body);
		rt(cx, &shape, &block);
		rt(cx, &shape, &Tip::from_header(&header));
	}
	if !mined.is_empty() {
		rt_headers(cx, &format!("mined{}", mined.len()), &mined);
	}
}

// ------------------------------------------------------------------ wrappers so the untrusted decoders can go through must_reject

struct UB(Block);
impl Readable for UB {
	fn read<R: Reader>(r: &mut R) -> Result<Self, ser::Error> {
		Ok(UB(UntrustedBlock::read(r)?.into()))
	}
}
impl Writeable for UB {
	fn write<W: ser::Writer>(&self, w: &mut W) -> Result<(), ser::Error> {
		self.0.write(w)
	}
}
struct UCB(CompactBlock);
impl Readable for UCB {
	fn read<R: Reader>(r: &mut R) -> Result<Self, ser::Error> {
		Ok(UCB(UntrustedCompactBlock::read(r)?.into()))
	}
}
impl Writeable for UCB {
	fn write<W: ser::Writer>(&self, w: &mut W) -> Result<(), ser::Error> {
		self.0.write(w)
	}
}

impl Case for grin_core::core::HeaderEntry {
	fn fam() -> &'static str {
		"HeaderEntry"
	}
	fn diff(&self, g: &Self, _v: u32) -> Option<String> {
		let (a, b) = (format!("{:?}", self), format!("{:?}", g));
		if a == b {
			None
		} else {
			Some(short(format!("{} != {}", a, b)))
		}
	}
	fn id_hash(&self) -> Option<Hash> {
		Some(self.hash())
	}
}

// ------------------------------------------------------------------ task: known answers

fn hex_of(h: &Hash) -> String {
	hx(h.as_bytes())
}

fn task_known_answers(cx: &mut Cx, p: &mut Prng) {
	// the hash primitive itself (blake2b-256 test vectors)
	for (input, want) in [
		(&b""[..], "0e5751c026e543b2e8ab2eb06099daa1d1e5df47778f7787faab45cdf12fe3a8"),
		(&b"abc"[..], "bddd813c634239723171ef3fee98579b94964e3bb1cb3e427262c8c068d52319"),
	] {
		cx.eval(&format!("kat|blake2b|{}", input.len()));
		if hex_of(&h_of(input)) == want {
			cx.bump("kat.blake2b_ok");
		} else {
			cx.run.inconclusive("hash primitive does not reproduce the blake2b-256 test vectors");
		}
	}
	for (ct, want_hash, want_bin) in [
		(
			ChainTypes::Mainnet,
			"40adad0aec27797b48840aa9e00472015c21baea118ce7a2ff1a82c0f8f5bf82",
			"6be6f34b657b785e558e85cc3b8bdb5bcbe8c10e7e58524c8027da7727e189ef",
		),
		(
			ChainTypes::Testnet,
			"edc758c1370d43e1d733f70f58cf187c3be8242830429b1676b89fd91ccf2dab",
			"91c638fc019a54e6652bd6bb3d9c5e0c17e889cef34a5c28528e7eb61a884dc4",
		),
	] {
		global::set_local_chain_type(ct);
		let g = if ct == ChainTypes::Mainnet {
			genesis::genesis_main()
		} else {
			genesis::genesis_test()
		};
		let name = ct_name(ct);
		rt(cx, &format!("genesis|{}", name), &g);
		rt(cx, &format!("genesis|{}", name), &g.header);
		rt(cx, &format!("genesis|{}", name), &CompactBlock::from(g.clone()));
		rt(cx, &format!("genesis|{}", name), &Tip::from_header(&g.header));
		rt(cx, &format!("genesis|{}", name), &<BlockHeader as PMMRable>::as_elmt(&g.header));
		for k in g.kernels() {
			rt(cx, &format!("genesis|{}", name), k);
		}
		for o in g.outputs() {
			rt(cx, &format!("genesis|{}", name), o);
		}
		// published identity hash after transport at every version, and published hash of the v1 bytes
		for v in VERSIONS {
			cx.eval(&format!("kat|genesis|{}|v{}", name, v));
			let b = ser::ser_vec(&g, pv(v)).expect("genesis ser");
			let ok = match dec_bin::<Block>(&b, v) {
				Dec::Ok(y, _) => {
					hex_of(&y.hash()) == want_hash
						&& hex_of(&y.header.hash()) == want_hash
						&& ser::ser_vec(&y, pv(1)).map(|b1| hex_of(&h_of(&b1)) == want_bin).unwrap_or(false)
				}
				_ => false,
			};
			if ok {
				cx.bump("kat.genesis_hash_after_transport");
			} else {
				cx.violation(
					&format!("type=Block;value=genesis_{};phase=hash;event=published_hash_not_reproduced", name),
					&format!("{} genesis transported at v{} does not reproduce its published block hash / v1 encoding hash", name, v),
					replay_of("Block", name, v, "genesis", &b, ""),
				);
			}
		}
		// the header commits to the kernel and range proof through an MMR root of one leaf: H(pos 0 || element),
		// which pins the hash of a kernel to its version-1 bytes
		if g.kernels().len() == 1 && g.outputs().len() == 1 {
			cx.eval(&format!("kat|genesis_roots|{}", name));
			let k = &g.kernels()[0];
			let mut kb = be64(0).to_vec();
			kb.extend_from_slice(&ref_kernel(k, 1));
			let mut pb = be64(0).to_vec();
			pb.extend_from_slice(&be64(g.outputs()[0].proof.plen as u64));
			pb.extend_from_slice(&g.outputs()[0].proof.proof[..g.outputs()[0].proof.plen]);
			let lib_k = (0u64, k).hash();
			let lib_p = (0u64, &g.outputs()[0].proof).hash();
			if lib_k == g.header.kernel_root
				&& h_of(&kb) == g.header.kernel_root
				&& lib_p == g.header.range_proof_root
				&& h_of(&pb) == g.header.range_proof_root
			{
				cx.bump("kat.genesis_kernel_and_proof_roots");
			} else {
				cx.violation(
					&format!("type=TxKernel;value=genesis_{};phase=hash;event=kernel_hash_not_v1_bytes", name),
					"the genesis header's kernel / range proof root is not reproduced from the hash over the v1 bytes",
					json!({"chain_type": name, "kernel_root": hex_of(&g.header.kernel_root), "lib": hex_of(&lib_k), "ref": hex_of(&h_of(&kb))}),
				);
			}
		}
	}
	global::set_local_chain_type(ChainTypes::AutomatedTesting);
	probe_last_day(cx, p);
}

// ------------------------------------------------------------------ main

type Task = Box<dyn FnOnce(&Run, Prng, &Pools, Instant, &str) + Send>;

fn main() {
	let run = Run::from_env("C10", "exploration");
	let san = run.args.iter().any(|a| a == "--san");
	init_globals(true);
	vcommon::monitor::install_panic_hook();
	let thorough = run.tier == vcommon::Tier::Thorough;
	// work multiplier: tiers differ in budgets only
	let mult: f64 = if san { 0.4 } else if thorough { 64.0 } else { 8.0 };
	let sc = |base: usize| -> usize { ((base as f64 * mult).round() as usize).max(1) };
	let budget = Duration::from_secs(if san { 60 } else { run.tier.pick(75, 660) });
	let deadline = Instant::now() + budget;

	let t0 = Instant::now();
	let pools = Arc::new(build_pools(
		run.seed,
		if san { 12 } else { run.tier.pick(40, 64) },
		if san { 4 } else { run.tier.pick(8, 16) },
		if san { 600 } else { run.tier.pick(4000, 8000) },
	));
	run.count("pool.outputs_with_real_bulletproofs", (pools.outs.len() + pools.cb.len()) as u64);
	run.count("pool.commitments", pools.commits.len() as u64);
	run.extra("pool_build_s", json!(t0.elapsed().as_secs_f64()));
	{
		// pool sanity: the bulletproofs are real
		let commits: Vec<Commitment> = pools.outs.iter().map(|o| o.commitment()).collect();
		let proofs: Vec<RangeProof> = pools.outs.iter().map(|o| o.proof).collect();
		if Output::batch_verify_proofs(&commits, &proofs).is_err() {
			run.inconclusive("pool bulletproofs do not verify");
		}
	}

	let mut master = Prng::new(run.seed ^ 0xC10);
	let mut tasks: VecDeque<(String, Prng, Task)> = VecDeque::new();
	let mut add = |name: String, t: Task| {
		let p = master.fork(fnv64(name.as_bytes()));
		tasks.push_back((name, p, t));
	};

	// heavy first
	for ct in CHAINS {
		// every edge-bit size 1..=63 on every chain type (1..=9 exercise the "not carried" limit)
		for part in 0..3u8 {
			let ebs: Vec<u8> = (1..=63u8).filter(|e| e % 3 == part).collect();
			let per = sc(6).max(5);
			add(
				format!("headers|{}|{}", ct_name(ct), part),
				Box::new(move |run, mut p, _pools, dl, name| {
					let mut cx = Cx::new(run, ct, dl).named(name);
					task_headers(&mut cx, &mut p, &ebs, per);
				}),
			);
		}
		// one round per task so that the heavy chain types spread over the workers
		for j in 0..sc(1) {
			add(
				format!("blocks|{}|{}", ct_name(ct), j),
				Box::new(move |run, mut p, pools, dl, name| {
					let mut cx = Cx::new(run, ct, dl).named(name);
					task_blocks(&mut cx, &mut p, pools, 1);
				}),
			);
			add(
				format!("txs|{}|{}", ct_name(ct), j),
				Box::new(move |run, mut p, pools, dl, name| {
					let mut cx = Cx::new(run, ct, dl).named(name);
					task_txs(&mut cx, &mut p, pools, 1);
				}),
			);
		}
	}
	for (k, ct) in [ChainTypes::AutomatedTesting, ChainTypes::Mainnet].into_iter().enumerate() {
		let sizes: Vec<usize> = if san {
			vec![1, 5, 17]
		} else if thorough {
			vec![1, 2, 3, 4, 7, 8, 9, 15, 16, 17, 31, 33, 64, 65, 100, 127, 200]
		} else {
			vec![1, 2, 3, 7, 8, 13, 33, 64, 70]
		};
		let max_ids = sc(8);
		for (j, chunk) in sizes.chunks(3).enumerate() {
			let chunk = chunk.to_vec();
			add(
				format!("segments|{}|{}", ct_name(ct), j),
				Box::new(move |run, mut p, pools, dl, name| {
					let mut cx = Cx::new(run, ct, dl).named(name);
					task_segments(&mut cx, &mut p, pools, &chunk, max_ids);
				}),
			);
		}
		let n = sc(300);
		add(
			format!("kernels|{}", ct_name(ct)),
			Box::new(move |run, mut p, pools, dl, name| {
				let mut cx = Cx::new(run, ct, dl).named(name);
				task_kernels(&mut cx, &mut p, pools, n);
			}),
		);
		let n = sc(150);
		add(
			format!("small|{}", ct_name(ct)),
			Box::new(move |run, mut p, pools, dl, name| {
				let mut cx = Cx::new(run, ct, dl).named(name);
				task_small(&mut cx, &mut p, pools, n);
			}),
		);
		let n = sc(120);
		add(
			format!("p2p|{}", ct_name(ct)),
			Box::new(move |run, mut p, pools, dl, name| {
				let mut cx = Cx::new(run, ct, dl).named(name);
				task_p2p(&mut cx, &mut p, pools, n);
			}),
		);
		for j in 0..sc(1) {
			let big = k == 0 && j == 0 && !san;
			add(
				format!("bitmap|{}|{}", ct_name(ct), j),
				Box::new(move |run, mut p, _pools, dl, name| {
					let mut cx = Cx::new(run, ct, dl).named(name);
					task_bitmap(&mut cx, &mut p, 1, big);
				}),
			);
		}
	}
	let nb = if san { 5 } else { run.tier.pick(15, 45) };
	add(
		"mined|AutomatedTesting".into(),
		Box::new(move |run, mut p, pools, dl, name| {
			let mut cx = Cx::new(run, ChainTypes::AutomatedTesting, dl).named(name);
			task_mined(&mut cx, &mut p, pools, nb);
		}),
	);
	add(
		"known_answers".into(),
		Box::new(move |run, mut p, _pools, dl, name| {
			let mut cx = Cx::new(run, ChainTypes::Mainnet, dl).named(name);
			task_known_answers(&mut cx, &mut p);
		}),
	);

	let n_tasks = tasks.len();
	let queue = Mutex::new(tasks);
	let timings: Mutex<Vec<(String, f64)>> = Mutex::new(vec![]);
	let workers = std::thread::available_parallelism().map(|n| n.get()).unwrap_or(8).min(16);
	std::thread::scope(|s| {
		for _ in 0..workers {
			s.spawn(|| loop {
				let next = queue.lock().unwrap().pop_front();
				let (name, p, t) = match next {
					Some(x) => x,
					None => break,
				};
				let t1 = Instant::now();
				let run_ref = &run;
				let pools_ref: &Pools = &pools;
				let nm = name.clone();
				if let Err(pn) = catch(move || t(run_ref, p, pools_ref, deadline, &nm)) {
					run.inconclusive(&format!("harness task {} panicked at {}: {}", name, pn.location, pn.message));
					run.count("harness.task_panics", 1);
				}
				timings.lock().unwrap().push((name, t1.elapsed().as_secs_f64()));
			});
		}
	});
	let mut tm = timings.into_inner().unwrap();
	tm.sort_by(|a, b| b.1.partial_cmp(&a.1).unwrap());
	run.extra(
		"slowest_tasks_s",
		json!(tm.iter().take(6).map(|(n, t)| json!([n, (t * 100.0).round() / 100.0])).collect::<Vec<_>>()),
	);
	run.count("tasks.run", n_tasks as u64);
	for (sig, (_, what, replay)) in std::mem::take(&mut *VIOLS.lock().unwrap()) {
		run.violation(&sig, &what, replay);
	}

	finish(&run, san);
}

fn finish(run: &Run, san: bool) -> ! {
	run.set_rule(
		"Values of every Writeable+Readable consensus / wire / db type are generated from a seeded PRNG \
		 (kernels: 4 variants x fee/fee_shift/lock/relative-height boundaries incl. all 10080 NRD heights; inputs in both encodings; \
		 outputs with real bulletproofs from a pre-built pool; sorted bodies from empty to the chain type's weight limit; headers with field extremes, \
		 versions 1..5 (+0, 6, 65535), every edge-bit size 1..63 on 4 chain types; blocks; compact blocks (library conversion and reference-built); \
		 proofs; segments of 3 leaf types from VecBackend PMMRs (all ids up to height 5, prunable or not) and from parts; bitmap segments with sparse / \
		 abundant / raw blocks; tips, positions, sums, db list entries; all p2p bodies incl. v4/v6 addresses). Each value is encoded at versions 1, 2, 3, 1000, \
		 decoded with BinReader (sentinel appended, exact consumption) and BufReader (byte counter), compared field by field (inputs by commitment when the \
		 version drops features), re-encoded (byte identical), re-encoded at every other version (must equal the direct encoding), identity-hashed before / after \
		 and against the hash of the v1 definition bytes of an independent reference encoder; mainnet / testnet genesis reproduce their published hashes after \
		 transport. Perturbations built on the reference encoder break one canonical-form rule each (unsorted / duplicate entries, non-zero reserved bytes or \
		 padding bits, undefined tags 0..255, counts inconsistent with content, out-of-range fields) and must be refused by both readers. \
		 An evaluation is one (value or perturbed encoding, version); its signature is type|shape|version|chain type, where shape lists variant, \
		 field classes, entry counts, edge bits, perturbed position / tag; distinct signatures are counted as distinct_nontrivial.",
	);
	run.assume("Header timestamps have no sub-second part and lie within the decoder's documented date range (values in the last representable day are counted as not carried).");
	run.assume("Proof nonces are below 2^edge_bits and proofs have global::proofsize() nonces; proofs whose packed form is shorter than 8 bytes are a format limit (not carried).");
	run.assume("Inputs of one body have pairwise distinct commitments; v6 socket addresses carry flowinfo = scope_id = 0 (not part of the encoding).");
	run.assume("Lists stay within the per-message limits the decoders enforce (20 locator hashes, 256 peer addresses, 100000-byte strings, body weight <= max block weight).");
	run.assume("Range proofs are real 675-byte bulletproofs (RangeProof::read pads shorter proofs: DESIGN 2.5 trap, recorded under info.*).");
	run.assume("Not treated as canonical-form rules because the format does not define them (recorded under info.*): order/uniqueness of indices and mode choice inside bitmap blocks, undefined capability bits (dropped by design), BanReason with an empty body, HeaderEntry's bool byte.");

	// minimum observations
	let div: u64 = if san { 10 } else { 1 };
	let per_version: Vec<(&str, u64)> = vec![
		("KernelFeatures", 4000),
		("TxKernel", 1000),
		("Input", 200),
		("CommitWrapper", 200),
		("Output", 200),
		("OutputIdentifier", 200),
		("RangeProof", 200),
		("Transaction", 60),
		("TransactionBody", 60),
		("BlockHeader", 1000),
		("Proof", 1000),
		("ProofOfWork", 1000),
		("Block", 40),
		("CompactBlock", 60),
		("ShortId", 200),
		("Segment<OutputIdentifier>", 60),
		("Segment<RangeProof>", 60),
		("Segment<TxKernel>", 60),
		("Segment<BitmapChunk>", 20),
		("SegmentProof", 60),
		("SegmentIdentifier", 200),
		("BitmapSegment", 20),
		("Tip", 200),
		("CommitPos", 200),
		("BlockSums", 200),
		("MerkleProof", 200),
		("Hand", 150),
		("Shake", 150),
		("GetPeerAddrs", 150),
		("PeerAddrs", 150),
		("PeerAddr", 300),
		("Locator", 150),
		("Ping", 150),
		("Pong", 150),
		("BanReason", 150),
		("TxHashSetRequest", 150),
		("TxHashSetArchive", 150),
		("SegmentRequest", 150),
		("SegmentResponse<TxKernel>", 60),
		("SegmentResponse<RangeProof>", 60),
		("OutputSegmentResponse", 60),
		("OutputBitmapSegmentResponse", 20),
		("Headers", 10),
		("UntrustedBlock", 4),
		("UntrustedBlockHeader", 4),
		("UntrustedCompactBlock", 4),
		("Hash", 200),
		("Difficulty", 200),
		("HeaderEntry", 500),
		("PeerError", 150),
		("PeerData", 150),
		("ListWrapper", 40),
		("ListEntry", 80),
		("SegmentResponse<OutputIdentifier>", 60),
	];
	for (fam, min) in per_version.iter() {
		for v in VERSIONS {
			let name = format!("rt.{}.v{}", fam, v);
			// commit-only bodies are not carried below v3, so mined blocks with them only count at v3+
			let m = if fam.starts_with("Untrusted") && v < 3 { (*min / 2).max(1) } else { *min };
			run.require(&name, run.counter(&name), (m / div).max(1));
		}
	}
	for (name, min) in [
		("reject.total", 20_000u64),
		("reject.TxKernel.v1_reserved_bytes_nonzero", 150),
		("reject.TxKernel.unknown_feature_tag_v1", 900),
		("reject.TxKernel.unknown_feature_tag_v2", 2500),
		("reject.Transaction.unsorted_inputs_v1", 5),
		("reject.Transaction.unsorted_inputs_v3", 5),
		("reject.Transaction.unsorted_outputs_v3", 5),
		("reject.Transaction.unsorted_kernels_v2", 5),
		("reject.Transaction.duplicate_inputs_v3", 5),
		("reject.Transaction.duplicate_outputs_v1", 5),
		("reject.Transaction.duplicate_outputs_other_proof_v1", 5),
		("reject.TransactionBody.duplicate_outputs_other_proof_v3", 5),
		("reject.Transaction.duplicate_kernels_v3", 5),
		("reject.Block.unsorted_kernels_v3", 5),
		("reject.Block.duplicate_inputs_v2", 5),
		("reject.UntrustedBlock.unsorted_outputs_v3", 2),
		("reject.CompactBlock.unsorted_kern_ids", 5),
		("reject.CompactBlock.duplicate_kern_full", 5),
		("reject.UntrustedCompactBlock.unsorted_kern_ids", 2),
		("reject.Proof.padding_bits_nonzero", 100),
		("reject.BlockHeader.proof_padding_bits_nonzero", 200),
		("reject.BlockHeader.timestamp_out_of_range", 300),
		("reject.Proof.edge_bits_out_of_range", 1000),
		("reject.Input.unknown_output_feature_tag", 500),
		("reject.Output.unknown_output_feature_tag", 500),
		("reject.Segment<TxKernel>.unsorted_leaf_pos", 5),
		("reject.Segment<OutputIdentifier>.duplicate_hash_pos", 3),
		("reject.BitmapSegment.unknown_block_mode_tag", 2000),
		("reject.BanReason.unknown_reason_code", 290),
		("reject.Hand.user_agent_not_utf8", 6),
		("msg_type_tag.classified_correctly", 512),
		("rt.MsgHeader.v1", 200),
		("bitmap_block_mode.raw", 2),
		("bitmap_block_mode.positive", 4),
		("bitmap_block_mode.negative", 2),
		("not_carried.encode.Transaction.v1", 10),
		("not_carried.encode.Block.v2", 5),
		("xver.Transaction", 300),
		("xver.TxKernel", 5000),
		("idhash_vs_definition.TxKernel", 1000),
		("idhash_vs_definition.BlockHeader", 1000),
		("kat.genesis_hash_after_transport", 8),
		("kat.genesis_kernel_and_proof_roots", 2),
		("kat.blake2b_ok", 2),
	] {
		run.require(name, run.counter(name), (min / div).max(1));
	}
	// the independent reference encoder must agree everywhere, otherwise the perturbation half is built on sand
	let cmp = run.counter("refenc.compared");
	let mis = run.counter("refenc.mismatch");
	run.require("refenc.agreeing_encodings", cmp - mis, cmp.max(1000 / div));
	run.require("harness.tasks_without_panic", run.counter("tasks.run") - run.counter("harness.task_panics"), run.counter("tasks.run"));

	// literal samples
	global::set_local_chain_type(ChainTypes::AutomatedTesting);
	let k = TxKernel {
		features: KernelFeatures::NoRecentDuplicate {
			fee: FeeFields::new(3, 500_000).unwrap(),
			relative_height: NRDRelativeHeight::new(10080).unwrap(),
		},
		excess: Commitment::from_vec(vec![8; 33]),
		excess_sig: Signature::from_raw_data(&[1; 64]).unwrap(),
	};
	run.sample(json!({"case": "TxKernel NRD fee_shift 3 rel 10080", "v1_hex": hx(&ser::ser_vec(&k, pv(1)).unwrap()), "v2_hex": hx(&ser::ser_vec(&k, pv(2)).unwrap()), "hash": hex_of(&k.hash())}));
	let mut b1 = ref_kernel(&k, 1);
	b1[10] = 1;
	run.sample(json!({"case": "perturbation: NRD kernel v1 with reserved byte 10 = 1 (must be refused)", "hex": hx(&b1)}));
	let pr = Proof { edge_bits: 31, nonces: (0..8).map(|i| (1u64 << 31) - 1 - i).collect() };
	run.sample(json!({"case": "Proof edge_bits 31, 8 nonces (AutomatedTesting), packed little-endian bit order", "hex": hx(&ref_proof(&pr))}));
	run.sample(json!({"case": "PeerAddr [::ffff:1.2.3.4]:3414 encodes with family tag 1 and decodes as 1.2.3.4:3414", "hex": hx(&ser::ser_vec(&PeerAddr(SocketAddr::V6(SocketAddrV6::new(Ipv4Addr::new(1,2,3,4).to_ipv6_mapped(), 3414, 0, 0))), pv(1)).unwrap())}));
	{
		let (c1, c2) = ([8u8; 33], [9u8; 33]);
		let (lo, hi) = if h_of(&c1) < h_of(&c2) { (c1, c2) } else { (c2, c1) };
		let mut b = vec![0u8; 32];
		for c in [2u64, 0, 0] {
			b.extend_from_slice(&be64(c));
		}
		b.extend_from_slice(&hi);
		b.extend_from_slice(&lo);
		let refused = matches!(dec_bin::<Transaction>(&b, 3), Dec::Err(_));
		run.sample(json!({"case": "perturbation: v3 transaction, zero offset, 2 commit-only inputs in descending hash order (must be refused)", "hex": hx(&b), "refused": refused}));
	}
	run.finish()
}
