//! C10 - Encoding round-trips and object hashes are version-independent and canonical.
//!
//! Runtime monitoring of the real (de)serialisers of grin: generators produce
//! values of every consensus / wire type, every value is encoded at protocol
//! versions 1, 2, 3 and 1000 (local; db versions are 1 and 3), decoded with two
//! different reader implementations (BinReader with a sentinel behind the
//! encoding, BufReader with its byte counter), compared field by field with the
//! original, re-encoded (must be byte-identical), carried across versions and
//! hashed (identity hashes must not move and must equal the hash of the v1
//! definition bytes produced by an independent reference encoder).
//! A second half perturbs valid encodings so that they break a canonical-form
//! rule of the format (by construction) and requires the decoders to refuse.

use chrono::{DateTime, NaiveDate, Utc};
use grin_chain::linked_list::{ListEntry, ListWrapper};
use grin_chain::txhashset::{BitmapAccumulator, BitmapChunk, BitmapSegment};
use grin_chain::types::{CommitPos, Tip};
use grin_core::consensus;
use grin_core::core::hash::{Hash, Hashed, ZERO_HASH};
use grin_core::core::id::ShortIdentifiable;
use grin_core::core::merkle_proof::MerkleProof;
use grin_core::core::pmmr::{self, ReadonlyPMMR, VecBackend, PMMR};
use grin_core::core::{
	Block, BlockHeader, BlockSums, CommitWrapper, CompactBlock, FeeFields, HeaderVersion, Input,
	Inputs, KernelFeatures, NRDRelativeHeight, Output, OutputFeatures, OutputIdentifier, Segment,
	SegmentIdentifier, SegmentProof, ShortId, Transaction, TransactionBody, TxKernel,
	UntrustedBlock, UntrustedBlockHeader, UntrustedCompactBlock,
};
use grin_core::genesis;
use grin_core::global::{self, ChainTypes};
use grin_core::pow::{self, Difficulty, Proof, ProofOfWork};
use grin_core::ser::{
	self, BufReader, DeserializationMode, PMMRable, ProtocolVersion, Readable, Reader, Writeable,
};
use grin_keychain::BlindingFactor;
use grin_p2p::msg::{
	BanReason, GetPeerAddrs, Hand, Headers, Locator, MsgHeader, MsgHeaderWrapper,
	OutputBitmapSegmentResponse, OutputSegmentResponse, PeerAddrs, PeerError, Ping, Pong,
	SegmentRequest, SegmentResponse, Shake, TxHashSetArchive, TxHashSetRequest, Type,
};
use grin_p2p::types::{Capabilities, PeerAddr, ReasonForBan};
use grin_p2p::{PeerData, State};
use grin_util::secp::key::SecretKey;
use grin_util::secp::pedersen::{Commitment, RangeProof};
use grin_util::secp::{ContextFlag, Secp256k1, Signature};
use serde_json::{json, Value};
use std::collections::{BTreeMap, HashSet, VecDeque};
use std::net::{Ipv4Addr, Ipv6Addr, SocketAddr, SocketAddrV4, SocketAddrV6};
use std::sync::{Arc, Mutex};
use std::time::{Duration, Instant};
use vcommon::monitor::{catch, PanicReport};
use vcommon::prng::fnv64;
use vcommon::world::{init_globals, init_thread, World};
use vcommon::{Prng, Run};

const VERSIONS: [u32; 4] = [1, 2, 3, 1000];
const SENT: [u8; 7] = [0xA5, 0x5A, 0xC3, 0x3C, 0x96, 0x69, 0xF0];
const FEE_MASK: u64 = (1u64 << 40) - 1;
const CHAINS: [ChainTypes; 4] = [
	ChainTypes::AutomatedTesting,
	ChainTypes::UserTesting,
	ChainTypes::Testnet,
	ChainTypes::Mainnet,
];

fn pv(v: u32) -> ProtocolVersion {
	ProtocolVersion(v)
}

fn ct_name(ct: ChainTypes) -> &'static str {
	match ct {
		ChainTypes::AutomatedTesting => "AutomatedTesting",
		ChainTypes::UserTesting => "UserTesting",
		ChainTypes::Testnet => "Testnet",
		ChainTypes::Mainnet => "Mainnet",
	}
}

fn hx(b: &[u8]) -> String {
	const MAX: usize = 6000;
	let mut s = String::with_capacity(2 * b.len().min(MAX) + 16);
	for x in b.iter().take(MAX) {
		s.push_str(&format!("{:02x}", x));
	}
	if b.len() > MAX {
		s.push_str(&format!("...(+{} bytes)", b.len() - MAX));
	}
	s
}

fn short(s: String) -> String {
	if s.len() > 400 {
		let mut e = 400;
		while !s.is_char_boundary(e) {
			e -= 1;
		}
		format!("{}...", &s[..e])
	} else {
		s
	}
}

fn be64(v: u64) -> [u8; 8] {
	v.to_be_bytes()
}

/// blake2b-256 of raw bytes through the hash primitive of the code base.
fn h_of(bytes: &[u8]) -> Hash {
	bytes.to_vec().hash()
}

// ------------------------------------------------------------------ context

struct Cx<'a> {
	run: &'a Run,
	ct: &'static str,
	counts: BTreeMap<String, u64>,
	evals: u64,
	sigs: HashSet<u64>,
	deadline: Instant,
}

impl<'a> Cx<'a> {
	fn new(run: &'a Run, ct: ChainTypes, deadline: Instant) -> Cx<'a> {
		global::set_local_chain_type(ct);
		global::set_local_nrd_enabled(true);
		Cx {
			run,
			ct: ct_name(ct),
			counts: BTreeMap::new(),
			evals: 0,
			sigs: HashSet::new(),
			deadline,
		}
	}
	fn bump(&mut self, k: &str) {
		self.bump_n(k, 1);
	}
	fn bump_n(&mut self, k: &str, n: u64) {
		*self.counts.entry(k.to_string()).or_insert(0) += n;
	}
	fn eval(&mut self, sig: &str) {
		self.evals += 1;
		self.sigs.insert(fnv64(sig.as_bytes()));
	}
	fn expired(&mut self) -> bool {
		if Instant::now() > self.deadline {
			self.bump("budget.loops_cut_by_time");
			true
		} else {
			false
		}
	}
	fn flush(&mut self) {
		for (k, v) in std::mem::take(&mut self.counts) {
			self.run.count(&k, v);
		}
		let sigs: Vec<u64> = self.sigs.drain().collect();
		self.run.eval_bulk(self.evals, sigs);
		self.evals = 0;
	}
	fn violation(&mut self, sig: &str, what: &str, replay: Value) {
		self.bump("violations.raised");
		self.run.violation(sig, what, replay);
	}
}

impl<'a> Drop for Cx<'a> {
	fn drop(&mut self) {
		self.flush();
	}
}

// ------------------------------------------------------------------ decoding helpers

enum Dec<T> {
	Ok(T, usize),
	Err(ser::Error),
	Panic(PanicReport),
}

/// Decode with the BinReader (`ser::deserialize`); reports how many bytes were consumed.
fn dec_bin<T: Readable>(bytes: &[u8], v: u32) -> Dec<T> {
	let mut cur: &[u8] = bytes;
	let r = catch(|| ser::deserialize::<T, _>(&mut cur, pv(v), DeserializationMode::default()));
	match r {
		Err(p) => Dec::Panic(p),
		Ok(Err(e)) => Dec::Err(e),
		Ok(Ok(y)) => Dec::Ok(y, bytes.len() - cur.len()),
	}
}

/// Decode with the BufReader (the reader of the p2p codec); consumption from its own counter.
fn dec_buf<T: Readable>(bytes: &[u8], v: u32) -> Dec<T> {
	let mut b: &[u8] = bytes;
	let r = catch(|| {
		let mut rd = BufReader::new(&mut b, pv(v));
		let res = rd.body::<T>();
		(res, rd.bytes_read() as usize)
	});
	match r {
		Err(p) => Dec::Panic(p),
		Ok((Err(e), _)) => Dec::Err(e),
		Ok((Ok(y), n)) => Dec::Ok(y, n),
	}
}

// ------------------------------------------------------------------ reference encoders
// Written from the format definition (comments of the code base / RFCs), not from the writers.

fn kfeat_parts(f: &KernelFeatures) -> (u8, Option<u64>, Option<u64>, Option<u16>) {
	match f {
		KernelFeatures::Plain { fee } => (0, Some(u64::from(*fee)), None, None),
		KernelFeatures::Coinbase => (1, None, None, None),
		KernelFeatures::HeightLocked { fee, lock_height } => {
			(2, Some(u64::from(*fee)), Some(*lock_height), None)
		}
		KernelFeatures::NoRecentDuplicate {
			fee,
			relative_height,
		} => (
			3,
			Some(u64::from(*fee)),
			None,
			Some(u64::from(*relative_height) as u16),
		),
	}
}

fn ref_kfeat(f: &KernelFeatures, v: u32) -> Vec<u8> {
	let (tag, fee, lock, rel) = kfeat_parts(f);
	let mut o = vec![tag];
	if v <= 1 {
		// fixed size: tag, 8 bytes fee fields (0 if unused), 8 bytes feature data (0 if unused)
		o.extend_from_slice(&be64(fee.unwrap_or(0)));
		if let Some(l) = lock {
			o.extend_from_slice(&be64(l));
		} else if let Some(r) = rel {
			o.extend_from_slice(&[0u8; 6]);
			o.extend_from_slice(&r.to_be_bytes());
		} else {
			o.extend_from_slice(&[0u8; 8]);
		}
	} else {
		if let Some(f) = fee {
			o.extend_from_slice(&be64(f));
		}
		if let Some(l) = lock {
			o.extend_from_slice(&be64(l));
		}
		if let Some(r) = rel {
			o.extend_from_slice(&r.to_be_bytes());
		}
	}
	o
}

fn ref_kernel(k: &TxKernel, v: u32) -> Vec<u8> {
	let mut o = ref_kfeat(&k.features, v);
	o.extend_from_slice(&k.excess.0);
	o.extend_from_slice(k.excess_sig.as_ref());
	o
}

fn ref_outid(f: OutputFeatures, c: &Commitment) -> Vec<u8> {
	let mut o = vec![f as u8];
	o.extend_from_slice(&c.0);
	o
}

fn ref_output(x: &Output) -> Vec<u8> {
	let mut o = ref_outid(x.identifier.features, &x.identifier.commit);
	o.extend_from_slice(&be64(x.proof.plen as u64));
	o.extend_from_slice(&x.proof.proof[..x.proof.plen]);
	o
}

/// Pack nonces at their exact bit width, little endian bit order, zero padded to a byte.
fn ref_pack(nonces: &[u64], eb: u8) -> Vec<u8> {
	let bits = nonces.len() * eb as usize;
	let mut o = vec![0u8; (bits + 7) / 8];
	for (i, n) in nonces.iter().enumerate() {
		for b in 0..eb as usize {
			if (n >> b) & 1 == 1 {
				let pos = i * eb as usize + b;
				o[pos / 8] |= 1 << (pos % 8);
			}
		}
	}
	o
}

fn ref_proof(p: &Proof) -> Vec<u8> {
	let mut o = vec![p.edge_bits];
	o.extend_from_slice(&ref_pack(&p.nonces, p.edge_bits));
	o
}

fn ref_pow(p: &ProofOfWork) -> Vec<u8> {
	let mut o = vec![];
	o.extend_from_slice(&be64(p.total_difficulty.to_num()));
	o.extend_from_slice(&p.secondary_scaling.to_be_bytes());
	o.extend_from_slice(&be64(p.nonce));
	o.extend_from_slice(&ref_proof(&p.proof));
	o
}

fn ref_header(h: &BlockHeader) -> Vec<u8> {
	let mut o = vec![];
	o.extend_from_slice(&h.version.0.to_be_bytes());
	o.extend_from_slice(&be64(h.height));
	o.extend_from_slice(&h.timestamp.timestamp().to_be_bytes());
	o.extend_from_slice(h.prev_hash.as_bytes());
	o.extend_from_slice(h.prev_root.as_bytes());
	o.extend_from_slice(h.output_root.as_bytes());
	o.extend_from_slice(h.range_proof_root.as_bytes());
	o.extend_from_slice(h.kernel_root.as_bytes());
	o.extend_from_slice(h.total_kernel_offset.as_ref());
	o.extend_from_slice(&be64(h.output_mmr_size));
	o.extend_from_slice(&be64(h.kernel_mmr_size));
	o.extend_from_slice(&ref_pow(&h.pow));
	o
}

/// Element chunks of a body in canonical order for protocol version `v`.
struct BodyParts {
	ins: Vec<Vec<u8>>,
	outs: Vec<Vec<u8>>,
	kers: Vec<Vec<u8>>,
	/// identity hashes (sort keys) of the chunks, from the definition
	ins_key: Vec<Hash>,
	outs_key: Vec<Hash>,
	kers_key: Vec<Hash>,
}

fn body_parts(b: &TransactionBody, v: u32) -> Option<BodyParts> {
	let mut ins: Vec<(Hash, Vec<u8>)> = vec![];
	match &b.inputs {
		Inputs::FeaturesAndCommit(xs) => {
			if v <= 2 {
				for i in xs {
					let c = ref_outid(i.features, &i.commit);
					ins.push((h_of(&c), c));
				}
			} else {
				for i in xs {
					ins.push((h_of(&i.commit.0), i.commit.0.to_vec()));
				}
				// commit-only inputs are ordered by the hash of the commitment
				ins.sort_by(|a, b| a.0.cmp(&b.0));
			}
		}
		Inputs::CommitOnly(xs) => {
			if v <= 2 && !xs.is_empty() {
				return None;
			}
			for c in xs {
				let c = c.commitment();
				ins.push((h_of(&c.0), c.0.to_vec()));
			}
		}
	}
	let mut p = BodyParts {
		ins: vec![],
		outs: vec![],
		kers: vec![],
		ins_key: vec![],
		outs_key: vec![],
		kers_key: vec![],
	};
	for (k, c) in ins {
		p.ins_key.push(k);
		p.ins.push(c);
	}
	for o in &b.outputs {
		p.outs_key
			.push(h_of(&ref_outid(o.identifier.features, &o.identifier.commit)));
		p.outs.push(ref_output(o));
	}
	for k in &b.kernels {
		p.kers_key.push(h_of(&ref_kernel(k, 1)));
		p.kers.push(ref_kernel(k, v));
	}
	Some(p)
}

fn strictly_increasing(k: &[Hash]) -> bool {
	k.windows(2).all(|w| w[0] < w[1])
}

fn assemble3(prefix: &[u8], counts: [u64; 3], lists: [&Vec<Vec<u8>>; 3]) -> Vec<u8> {
	let mut o = prefix.to_vec();
	for c in counts.iter() {
		o.extend_from_slice(&be64(*c));
	}
	for l in lists.iter() {
		for c in l.iter() {
			o.extend_from_slice(c);
		}
	}
	o
}

fn ref_body(b: &TransactionBody, v: u32) -> Option<Vec<u8>> {
	let p = body_parts(b, v)?;
	Some(assemble3(
		&[],
		[p.ins.len() as u64, p.outs.len() as u64, p.kers.len() as u64],
		[&p.ins, &p.outs, &p.kers],
	))
}

// ------------------------------------------------------------------ the Case trait

trait Case: Writeable + Readable + Sized {
	fn fam() -> &'static str;
	/// None when `got` (decoded after transport at version `v`) equals self in the sense of the property.
	fn diff(&self, got: &Self, v: u32) -> Option<String>;
	/// Identity hash that must survive any transport.
	fn id_hash(&self) -> Option<Hash> {
		None
	}
	/// The same hash computed from the definition with the reference encoder.
	fn ref_hash(&self) -> Option<Hash> {
		None
	}
	/// Can version `v` encode this value at all.
	fn carried(&self, _v: u32) -> bool {
		true
	}
	/// Can the decoder of version `v` accept the encoding (format limit, not a defect).
	fn decodable(&self, _v: u32) -> bool {
		true
	}
	fn ref_bytes(&self, _v: u32) -> Option<Vec<u8>> {
		None
	}
	/// Encoding class of version v (part of violation signatures).
	fn enc_class(_v: u32) -> &'static str {
		"any"
	}
	/// Value class (part of violation signatures).
	fn val_class(&self) -> String {
		String::new()
	}
}

fn dbg_diff<T: std::fmt::Debug>(a: &T, b: &T) -> Option<String> {
	Some(short(format!("{:?} != {:?}", a, b)))
}

macro_rules! case_eq {
	($t:ty, $fam:expr) => {
		impl Case for $t {
			fn fam() -> &'static str {
				$fam
			}
			fn diff(&self, g: &Self, _v: u32) -> Option<String> {
				if self == g {
					None
				} else {
					dbg_diff(self, g)
				}
			}
		}
	};
}

fn kclass(v: u32) -> &'static str {
	if v <= 1 {
		"v1"
	} else {
		"v2"
	}
}

fn bclass(v: u32) -> &'static str {
	match v {
		0..=1 => "v1",
		2 => "v2",
		_ => "v3",
	}
}

impl Case for KernelFeatures {
	fn fam() -> &'static str {
		"KernelFeatures"
	}
	fn diff(&self, g: &Self, _v: u32) -> Option<String> {
		if self == g {
			None
		} else {
			dbg_diff(self, g)
		}
	}
	fn ref_bytes(&self, v: u32) -> Option<Vec<u8>> {
		Some(ref_kfeat(self, v))
	}
	fn enc_class(v: u32) -> &'static str {
		kclass(v)
	}
}

fn diff_kernel(a: &TxKernel, b: &TxKernel) -> Option<String> {
	if a.features != b.features || a.excess != b.excess || a.excess_sig != b.excess_sig || a != b {
		dbg_diff(a, b)
	} else {
		None
	}
}

impl Case for TxKernel {
	fn fam() -> &'static str {
		"TxKernel"
	}
	fn diff(&self, g: &Self, _v: u32) -> Option<String> {
		diff_kernel(self, g)
	}
	fn id_hash(&self) -> Option<Hash> {
		Some(self.hash())
	}
	fn ref_hash(&self) -> Option<Hash> {
		Some(h_of(&ref_kernel(self, 1)))
	}
	fn ref_bytes(&self, v: u32) -> Option<Vec<u8>> {
		Some(ref_kernel(self, v))
	}
	fn enc_class(v: u32) -> &'static str {
		kclass(v)
	}
}

impl Case for Input {
	fn fam() -> &'static str {
		"Input"
	}
	fn diff(&self, g: &Self, _v: u32) -> Option<String> {
		if self.features != g.features || self.commit != g.commit {
			dbg_diff(self, g)
		} else {
			None
		}
	}
	fn id_hash(&self) -> Option<Hash> {
		Some(self.hash())
	}
	fn ref_hash(&self) -> Option<Hash> {
		Some(h_of(&ref_outid(self.features, &self.commit)))
	}
	fn ref_bytes(&self, _v: u32) -> Option<Vec<u8>> {
		Some(ref_outid(self.features, &self.commit))
	}
}

impl Case for CommitWrapper {
	fn fam() -> &'static str {
		"CommitWrapper"
	}
	fn diff(&self, g: &Self, _v: u32) -> Option<String> {
		if self.commitment() != g.commitment() {
			dbg_diff(self, g)
		} else {
			None
		}
	}
	fn id_hash(&self) -> Option<Hash> {
		Some(self.hash())
	}
	fn ref_hash(&self) -> Option<Hash> {
		Some(h_of(&self.commitment().0))
	}
	fn ref_bytes(&self, _v: u32) -> Option<Vec<u8>> {
		Some(self.commitment().0.to_vec())
	}
}

impl Case for OutputIdentifier {
	fn fam() -> &'static str {
		"OutputIdentifier"
	}
	fn diff(&self, g: &Self, _v: u32) -> Option<String> {
		if self.features != g.features || self.commit != g.commit {
			dbg_diff(self, g)
		} else {
			None
		}
	}
	fn id_hash(&self) -> Option<Hash> {
		Some(self.hash())
	}
	fn ref_hash(&self) -> Option<Hash> {
		Some(h_of(&ref_outid(self.features, &self.commit)))
	}
	fn ref_bytes(&self, _v: u32) -> Option<Vec<u8>> {
		Some(ref_outid(self.features, &self.commit))
	}
}

fn diff_output(a: &Output, b: &Output) -> Option<String> {
	if a.identifier.features != b.identifier.features
		|| a.identifier.commit != b.identifier.commit
		|| a.proof.plen != b.proof.plen
		|| a.proof.proof[..] != b.proof.proof[..]
	{
		dbg_diff(a, b)
	} else {
		None
	}
}

impl Case for Output {
	fn fam() -> &'static str {
		"Output"
	}
	fn diff(&self, g: &Self, _v: u32) -> Option<String> {
		diff_output(self, g)
	}
	fn id_hash(&self) -> Option<Hash> {
		Some(self.identifier().hash())
	}
	fn ref_hash(&self) -> Option<Hash> {
		Some(h_of(&ref_outid(
			self.identifier.features,
			&self.identifier.commit,
		)))
	}
	fn ref_bytes(&self, _v: u32) -> Option<Vec<u8>> {
		Some(ref_output(self))
	}
}

impl Case for RangeProof {
	fn fam() -> &'static str {
		"RangeProof"
	}
	fn diff(&self, g: &Self, _v: u32) -> Option<String> {
		if self.plen != g.plen || self.proof[..] != g.proof[..] {
			Some("range proof bytes differ".into())
		} else {
			None
		}
	}
}

fn commits_by_hash(xs: &[Input]) -> Vec<Commitment> {
	let mut c: Vec<Commitment> = xs.iter().map(|i| i.commit).collect();
	c.sort_by_key(|c| h_of(&c.0));
	c
}

fn diff_inputs(x: &Inputs, y: &Inputs, v: u32) -> Option<String> {
	if x.len() == 0 {
		return if y.len() == 0 {
			None
		} else {
			Some("decoded inputs not empty".into())
		};
	}
	match (x, y) {
		(Inputs::FeaturesAndCommit(a), Inputs::FeaturesAndCommit(b)) if v <= 2 => {
			if a.len() != b.len()
				|| a.iter()
					.zip(b.iter())
					.any(|(p, q)| p.features != q.features || p.commit != q.commit)
			{
				Some(short(format!("inputs differ: {:?} != {:?}", a, b)))
			} else {
				None
			}
		}
		(Inputs::FeaturesAndCommit(a), Inputs::CommitOnly(b)) if v >= 3 => {
			let want = commits_by_hash(a);
			let got: Vec<Commitment> = b.iter().map(|c| c.commitment()).collect();
			if want != got {
				Some(short(format!(
					"inputs differ by commitment: {:?} != {:?}",
					want, got
				)))
			} else {
				None
			}
		}
		(Inputs::CommitOnly(a), Inputs::CommitOnly(b)) => {
			let p: Vec<Commitment> = a.iter().map(|c| c.commitment()).collect();
			let q: Vec<Commitment> = b.iter().map(|c| c.commitment()).collect();
			if p != q {
				Some(short(format!("commit-only inputs differ: {:?} != {:?}", p, q)))
			} else {
				None
			}
		}
		_ => Some(format!(
			"unexpected inputs variant after transport at v{}: {} -> {}",
			v,
			x.version_str(),
			y.version_str()
		)),
	}
}

fn diff_body(x: &TransactionBody, y: &TransactionBody, v: u32) -> Option<String> {
	if let Some(d) = diff_inputs(&x.inputs, &y.inputs, v) {
		return Some(d);
	}
	if x.outputs.len() != y.outputs.len() {
		return Some("output count differs".into());
	}
	for (a, b) in x.outputs.iter().zip(y.outputs.iter()) {
		if let Some(d) = diff_output(a, b) {
			return Some(d);
		}
	}
	if x.kernels.len() != y.kernels.len() {
		return Some("kernel count differs".into());
	}
	for (a, b) in x.kernels.iter().zip(y.kernels.iter()) {
		if let Some(d) = diff_kernel(a, b) {
			return Some(d);
		}
	}
	None
}

fn body_carried(b: &TransactionBody, v: u32) -> bool {
	match &b.inputs {
		Inputs::CommitOnly(xs) => xs.is_empty() || v >= 3,
		_ => true,
	}
}

fn inputs_class(i: &Inputs) -> &'static str {
	match i {
		_ if i.len() == 0 => "noinputs",
		Inputs::CommitOnly(_) => "commit_only",
		Inputs::FeaturesAndCommit(_) => "features_and_commit",
	}
}

impl Case for TransactionBody {
	fn fam() -> &'static str {
		"TransactionBody"
	}
	fn diff(&self, g: &Self, v: u32) -> Option<String> {
		diff_body(self, g, v)
	}
	fn carried(&self, v: u32) -> bool {
		body_carried(self, v)
	}
	fn ref_bytes(&self, v: u32) -> Option<Vec<u8>> {
		ref_body(self, v)
	}
	fn enc_class(v: u32) -> &'static str {
		bclass(v)
	}
	fn val_class(&self) -> String {
		inputs_class(&self.inputs).into()
	}
}

impl Case for Transaction {
	fn fam() -> &'static str {
		"Transaction"
	}
	fn diff(&self, g: &Self, v: u32) -> Option<String> {
		if self.offset != g.offset {
			return Some("offset differs".into());
		}
		diff_body(&self.body, &g.body, v)
	}
	fn id_hash(&self) -> Option<Hash> {
		// the tx hash covers the inputs as held in memory, so it is only an
		// invariant when the transport cannot change the inputs variant
		match &self.body.inputs {
			Inputs::FeaturesAndCommit(x) if !x.is_empty() => None,
			_ => Some(self.hash()),
		}
	}
	fn carried(&self, v: u32) -> bool {
		body_carried(&self.body, v)
	}
	fn ref_bytes(&self, v: u32) -> Option<Vec<u8>> {
		let mut o = self.offset.as_ref().to_vec();
		o.extend_from_slice(&ref_body(&self.body, v)?);
		Some(o)
	}
	fn enc_class(v: u32) -> &'static str {
		bclass(v)
	}
	fn val_class(&self) -> String {
		inputs_class(&self.body.inputs).into()
	}
}

fn proof_decodable(p: &Proof) -> bool {
	p.edge_bits >= 1 && p.edge_bits <= 63 && Proof::pack_len(p.edge_bits) >= 8
}

impl Case for Proof {
	fn fam() -> &'static str {
		"Proof"
	}
	fn diff(&self, g: &Self, _v: u32) -> Option<String> {
		if self == g {
			None
		} else {
			dbg_diff(self, g)
		}
	}
	fn id_hash(&self) -> Option<Hash> {
		Some(self.hash())
	}
	fn ref_hash(&self) -> Option<Hash> {
		Some(h_of(&ref_pack(&self.nonces, self.edge_bits)))
	}
	fn decodable(&self, _v: u32) -> bool {
		proof_decodable(self)
	}
	fn ref_bytes(&self, _v: u32) -> Option<Vec<u8>> {
		Some(ref_proof(self))
	}
}

impl Case for ProofOfWork {
	fn fam() -> &'static str {
		"ProofOfWork"
	}
	fn diff(&self, g: &Self, _v: u32) -> Option<String> {
		if self == g {
			None
		} else {
			dbg_diff(self, g)
		}
	}
	fn decodable(&self, _v: u32) -> bool {
		proof_decodable(&self.proof)
	}
	fn ref_bytes(&self, _v: u32) -> Option<Vec<u8>> {
		Some(ref_pow(self))
	}
}

impl Case for BlockHeader {
	fn fam() -> &'static str {
		"BlockHeader"
	}
	fn diff(&self, g: &Self, _v: u32) -> Option<String> {
		if self == g {
			None
		} else {
			dbg_diff(self, g)
		}
	}
	fn id_hash(&self) -> Option<Hash> {
		Some(self.hash())
	}
	fn ref_hash(&self) -> Option<Hash> {
		Some(h_of(&ref_pack(&self.pow.proof.nonces, self.pow.proof.edge_bits)))
	}
	fn decodable(&self, _v: u32) -> bool {
		proof_decodable(&self.pow.proof)
	}
	fn ref_bytes(&self, _v: u32) -> Option<Vec<u8>> {
		Some(ref_header(self))
	}
}

impl Case for Block {
	fn fam() -> &'static str {
		"Block"
	}
	fn diff(&self, g: &Self, v: u32) -> Option<String> {
		if self.header != g.header {
			return dbg_diff(&self.header, &g.header);
		}
		diff_body(&self.body, &g.body, v)
	}
	fn id_hash(&self) -> Option<Hash> {
		Some(self.hash())
	}
	fn ref_hash(&self) -> Option<Hash> {
		self.header.ref_hash()
	}
	fn carried(&self, v: u32) -> bool {
		body_carried(&self.body, v)
	}
	fn decodable(&self, _v: u32) -> bool {
		proof_decodable(&self.header.pow.proof)
	}
	fn ref_bytes(&self, v: u32) -> Option<Vec<u8>> {
		let mut o = ref_header(&self.header);
		o.extend_from_slice(&ref_body(&self.body, v)?);
		Some(o)
	}
	fn enc_class(v: u32) -> &'static str {
		bclass(v)
	}
	fn val_class(&self) -> String {
		inputs_class(&self.body.inputs).into()
	}
}

fn ref_compact(cb: &CompactBlock, v: u32) -> Vec<u8> {
	let outs: Vec<Vec<u8>> = cb.out_full().iter().map(ref_output).collect();
	let kers: Vec<Vec<u8>> = cb.kern_full().iter().map(|k| ref_kernel(k, v)).collect();
	let ids: Vec<Vec<u8>> = cb.kern_ids().iter().map(|i| i.as_ref().to_vec()).collect();
	let mut pre = ref_header(&cb.header);
	pre.extend_from_slice(&be64(cb.nonce));
	assemble3(
		&pre,
		[outs.len() as u64, kers.len() as u64, ids.len() as u64],
		[&outs, &kers, &ids],
	)
}

impl Case for CompactBlock {
	fn fam() -> &'static str {
		"CompactBlock"
	}
	fn diff(&self, g: &Self, _v: u32) -> Option<String> {
		if self.header != g.header {
			return dbg_diff(&self.header, &g.header);
		}
		if self.nonce != g.nonce {
			return Some("nonce differs".into());
		}
		if self.out_full().len() != g.out_full().len()
			|| self.kern_full().len() != g.kern_full().len()
			|| self.kern_ids().len() != g.kern_ids().len()
		{
			return Some("compact body lengths differ".into());
		}
		for (a, b) in self.out_full().iter().zip(g.out_full()) {
			if let Some(d) = diff_output(a, b) {
				return Some(d);
			}
		}
		for (a, b) in self.kern_full().iter().zip(g.kern_full()) {
			if let Some(d) = diff_kernel(a, b) {
				return Some(d);
			}
		}
		for (a, b) in self.kern_ids().iter().zip(g.kern_ids()) {
			if a.as_ref() != b.as_ref() {
				return dbg_diff(a, b);
			}
		}
		None
	}
	fn id_hash(&self) -> Option<Hash> {
		Some(self.hash())
	}
	fn ref_hash(&self) -> Option<Hash> {
		self.header.ref_hash()
	}
	fn decodable(&self, _v: u32) -> bool {
		proof_decodable(&self.header.pow.proof)
	}
	fn ref_bytes(&self, v: u32) -> Option<Vec<u8>> {
		Some(ref_compact(self, v))
	}
	fn enc_class(v: u32) -> &'static str {
		kclass(v)
	}
}

impl Case for ShortId {
	fn fam() -> &'static str {
		"ShortId"
	}
	fn diff(&self, g: &Self, _v: u32) -> Option<String> {
		if self.as_ref() != g.as_ref() {
			dbg_diff(self, g)
		} else {
			None
		}
	}
	fn id_hash(&self) -> Option<Hash> {
		Some(self.hash())
	}
	fn ref_hash(&self) -> Option<Hash> {
		Some(h_of(self.as_ref()))
	}
	fn ref_bytes(&self, _v: u32) -> Option<Vec<u8>> {
		Some(self.as_ref().to_vec())
	}
}

case_eq!(Hash, "Hash");
case_eq!(Difficulty, "Difficulty");
case_eq!(SegmentIdentifier, "SegmentIdentifier");
case_eq!(SegmentProof, "SegmentProof");
case_eq!(BitmapSegment, "BitmapSegment");
case_eq!(MerkleProof, "MerkleProof");
case_eq!(CommitPos, "CommitPos");
case_eq!(ListWrapper<CommitPos>, "ListWrapper");

impl Case for Tip {
	fn fam() -> &'static str {
		"Tip"
	}
	fn diff(&self, g: &Self, _v: u32) -> Option<String> {
		if self == g {
			None
		} else {
			dbg_diff(self, g)
		}
	}
	fn id_hash(&self) -> Option<Hash> {
		Some(self.hash())
	}
	fn ref_bytes(&self, _v: u32) -> Option<Vec<u8>> {
		let mut o = be64(self.height).to_vec();
		o.extend_from_slice(self.last_block_h.as_bytes());
		o.extend_from_slice(self.prev_block_h.as_bytes());
		o.extend_from_slice(&be64(self.total_difficulty.to_num()));
		Some(o)
	}
}

impl Case for BlockSums {
	fn fam() -> &'static str {
		"BlockSums"
	}
	fn diff(&self, g: &Self, _v: u32) -> Option<String> {
		if self.utxo_sum != g.utxo_sum || self.kernel_sum != g.kernel_sum {
			dbg_diff(self, g)
		} else {
			None
		}
	}
}

impl Case for ListEntry<CommitPos> {
	fn fam() -> &'static str {
		"ListEntry"
	}
	fn diff(&self, g: &Self, _v: u32) -> Option<String> {
		let same = match (self, g) {
			(ListEntry::Head { pos: a, next: b }, ListEntry::Head { pos: c, next: d }) => {
				a == c && b == d
			}
			(ListEntry::Tail { pos: a, prev: b }, ListEntry::Tail { pos: c, prev: d }) => {
				a == c && b == d
			}
			(
				ListEntry::Middle {
					pos: a,
					next: b,
					prev: c,
				},
				ListEntry::Middle {
					pos: d,
					next: e,
					prev: f,
				},
			) => a == d && b == e && c == f,
			_ => false,
		};
		if same {
			None
		} else {
			Some("list entry differs".into())
		}
	}
}

macro_rules! case_segment {
	($t:ty, $fam:expr, $cls:expr) => {
		impl Case for Segment<$t> {
			fn fam() -> &'static str {
				$fam
			}
			fn diff(&self, g: &Self, _v: u32) -> Option<String> {
				if self == g {
					None
				} else {
					dbg_diff(self, g)
				}
			}
			fn enc_class(v: u32) -> &'static str {
				if $cls {
					kclass(v)
				} else {
					"any"
				}
			}
		}
	};
}
case_segment!(OutputIdentifier, "Segment<OutputIdentifier>", false);
case_segment!(RangeProof, "Segment<RangeProof>", false);
case_segment!(TxKernel, "Segment<TxKernel>", true);

// ---- p2p messages (no PartialEq in the code base: field by field)

fn addr_class(a: &PeerAddr) -> String {
	match a.0 {
		SocketAddr::V4(_) => "v4".into(),
		SocketAddr::V6(s) => {
			let seg = s.ip().segments();
			if seg[..5] == [0, 0, 0, 0, 0] && seg[5] == 0xffff {
				"v6_ipv4_mapped".into()
			} else if seg[..6] == [0, 0, 0, 0, 0, 0] {
				"v6_ipv4_compatible".into()
			} else {
				"v6".into()
			}
		}
	}
}

impl Case for PeerAddr {
	fn fam() -> &'static str {
		"PeerAddr"
	}
	fn diff(&self, g: &Self, _v: u32) -> Option<String> {
		if self.0 != g.0 {
			dbg_diff(self, g)
		} else {
			None
		}
	}
	fn val_class(&self) -> String {
		addr_class(self)
	}
}

macro_rules! fields_diff {
	($a:expr, $b:expr, $($f:ident),+) => {{
		let mut d: Option<String> = None;
		$( if d.is_none() && $a.$f != $b.$f { d = Some(format!("field {} differs: {:?} != {:?}", stringify!($f), $a.$f, $b.$f)); } )+
		d
	}};
}

fn addr_strict_ne(a: &PeerAddr, b: &PeerAddr) -> bool {
	a.0 != b.0
}

impl Case for Hand {
	fn fam() -> &'static str {
		"Hand"
	}
	fn diff(&self, g: &Self, _v: u32) -> Option<String> {
		if addr_strict_ne(&self.sender_addr, &g.sender_addr)
			|| addr_strict_ne(&self.receiver_addr, &g.receiver_addr)
		{
			return Some("peer address differs".into());
		}
		fields_diff!(
			self,
			g,
			version,
			capabilities,
			nonce,
			genesis,
			total_difficulty,
			user_agent
		)
	}
}

impl Case for Shake {
	fn fam() -> &'static str {
		"Shake"
	}
	fn diff(&self, g: &Self, _v: u32) -> Option<String> {
		fields_diff!(self, g, version, capabilities, genesis, total_difficulty, user_agent)
	}
}

impl Case for GetPeerAddrs {
	fn fam() -> &'static str {
		"GetPeerAddrs"
	}
	fn diff(&self, g: &Self, _v: u32) -> Option<String> {
		fields_diff!(self, g, capabilities)
	}
}

/// PeerAddrs with strict socket address comparison (PeerAddr's own PartialEq ignores ports).
struct StrictAddrs(PeerAddrs);
impl Writeable for StrictAddrs {
	fn write<W: ser::Writer>(&self, w: &mut W) -> Result<(), ser::Error> {
		self.0.write(w)
	}
}
impl Readable for StrictAddrs {
	fn read<R: Reader>(r: &mut R) -> Result<Self, ser::Error> {
		Ok(StrictAddrs(PeerAddrs::read(r)?))
	}
}
impl Case for StrictAddrs {
	fn fam() -> &'static str {
		"PeerAddrs"
	}
	fn diff(&self, g: &Self, _v: u32) -> Option<String> {
		if self.0.peers.len() != g.0.peers.len()
			|| self
				.0
				.peers
				.iter()
				.zip(g.0.peers.iter())
				.any(|(a, b)| a.0 != b.0)
		{
			dbg_diff(&self.0, &g.0)
		} else {
			None
		}
	}
}

impl Case for PeerError {
	fn fam() -> &'static str {
		"PeerError"
	}
	fn diff(&self, g: &Self, _v: u32) -> Option<String> {
		fields_diff!(self, g, code, message)
	}
}

impl Case for Locator {
	fn fam() -> &'static str {
		"Locator"
	}
	fn diff(&self, g: &Self, _v: u32) -> Option<String> {
		fields_diff!(self, g, hashes)
	}
}

impl Case for Ping {
	fn fam() -> &'static str {
		"Ping"
	}
	fn diff(&self, g: &Self, _v: u32) -> Option<String> {
		fields_diff!(self, g, total_difficulty, height)
	}
}

impl Case for Pong {
	fn fam() -> &'static str {
		"Pong"
	}
	fn diff(&self, g: &Self, _v: u32) -> Option<String> {
		fields_diff!(self, g, total_difficulty, height)
	}
}

impl Case for BanReason {
	fn fam() -> &'static str {
		"BanReason"
	}
	fn diff(&self, g: &Self, _v: u32) -> Option<String> {
		fields_diff!(self, g, ban_reason)
	}
}

impl Case for TxHashSetRequest {
	fn fam() -> &'static str {
		"TxHashSetRequest"
	}
	fn diff(&self, g: &Self, _v: u32) -> Option<String> {
		fields_diff!(self, g, hash, height)
	}
}

impl Case for TxHashSetArchive {
	fn fam() -> &'static str {
		"TxHashSetArchive"
	}
	fn diff(&self, g: &Self, _v: u32) -> Option<String> {
		fields_diff!(self, g, hash, height, bytes)
	}
}

impl Case for SegmentRequest {
	fn fam() -> &'static str {
		"SegmentRequest"
	}
	fn diff(&self, g: &Self, _v: u32) -> Option<String> {
		fields_diff!(self, g, block_hash, identifier)
	}
}

macro_rules! case_segresp {
	($t:ty, $fam:expr) => {
		impl Case for SegmentResponse<$t> {
			fn fam() -> &'static str {
				$fam
			}
			fn diff(&self, g: &Self, _v: u32) -> Option<String> {
				fields_diff!(self, g, block_hash, segment)
			}
			fn enc_class(v: u32) -> &'static str {
				kclass(v)
			}
		}
	};
}
case_segresp!(RangeProof, "SegmentResponse<RangeProof>");
case_segresp!(TxKernel, "SegmentResponse<TxKernel>");
case_segresp!(OutputIdentifier, "SegmentResponse<OutputIdentifier>");

impl Case for OutputSegmentResponse {
	fn fam() -> &'static str {
		"OutputSegmentResponse"
	}
	fn diff(&self, g: &Self, _v: u32) -> Option<String> {
		if self.output_bitmap_root != g.output_bitmap_root {
			return Some("output_bitmap_root differs".into());
		}
		fields_diff!(self.response, g.response, block_hash, segment)
	}
}

impl Case for OutputBitmapSegmentResponse {
	fn fam() -> &'static str {
		"OutputBitmapSegmentResponse"
	}
	fn diff(&self, g: &Self, _v: u32) -> Option<String> {
		fields_diff!(self, g, block_hash, segment, output_root)
	}
}

impl Case for PeerData {
	fn fam() -> &'static str {
		"PeerData"
	}
	fn diff(&self, g: &Self, _v: u32) -> Option<String> {
		if self.addr.0 != g.addr.0 {
			return Some("addr differs".into());
		}
		fields_diff!(
			self,
			g,
			capabilities,
			user_agent,
			flags,
			last_banned,
			ban_reason,
			last_connected,
			last_attempt
		)
	}
}

// ------------------------------------------------------------------ the round-trip monitor

fn replay_of(fam: &str, ct: &str, v: u32, shape: &str, bytes: &[u8], detail: &str) -> Value {
	json!({
		"type": fam, "chain_type": ct, "protocol_version": v, "shape": shape,
		"bytes_hex": hx(bytes), "bytes_len": bytes.len(), "detail": detail,
	})
}

fn rt_sig<T: Case>(x: &T, v: u32, event: &str) -> String {
	let vc = x.val_class();
	if vc.is_empty() {
		format!("type={};phase=roundtrip;enc={};event={}", T::fam(), T::enc_class(v), event)
	} else {
		format!(
			"type={};value={};phase=roundtrip;enc={};event={}",
			T::fam(),
			vc,
			T::enc_class(v),
			event
		)
	}
}

/// Full oracle for one value: every version, both readers, re-encoding, cross-version, hashes.
fn rt<T: Case>(cx: &mut Cx, shape: &str, x: &T) {
	let fam = T::fam();
	let ct = cx.ct;
	let mut encs: Vec<Option<Vec<u8>>> = vec![None, None, None, None];
	let mut ys: Vec<Option<T>> = vec![None, None, None, None];
	let h0 = x.id_hash();
	if let (Some(h), Some(r)) = (h0, x.ref_hash()) {
		cx.bump(&format!("idhash_vs_definition.{}", fam));
		if h != r {
			let b = ser::ser_vec(x, pv(1)).unwrap_or_default();
			cx.violation(
				&format!("type={};phase=hash;event=identity_hash_is_not_hash_of_v1_definition_bytes", fam),
				&format!("{}: hash() = {:?} but the hash of the version-1 definition bytes is {:?}", fam, h, r),
				replay_of(fam, ct, 1, shape, &b, "identity hash vs reference"),
			);
		}
	}
	for (i, &v) in VERSIONS.iter().enumerate() {
		cx.eval(&format!("rt|{}|{}|v{}|{}", fam, shape, v, ct));
		let enc = match catch(|| ser::ser_vec(x, pv(v))) {
			Err(p) => {
				cx.violation(
					&format!("{}@{}", rt_sig(x, v, "encode_panic"), p.location),
					&format!("{}: encoding panicked: {}", fam, p.message),
					replay_of(fam, ct, v, shape, &[], &p.message),
				);
				continue;
			}
			Ok(Err(e)) => {
				if !x.carried(v) {
					cx.bump(&format!("not_carried.encode.{}.v{}", fam, v));
				} else {
					cx.violation(
						&rt_sig(x, v, "encode_error"),
						&format!("{}: encoding at v{} failed: {:?}", fam, v, e),
						replay_of(fam, ct, v, shape, &[], &format!("{:?}", e)),
					);
				}
				continue;
			}
			Ok(Ok(b)) => b,
		};
		if let Some(r) = x.ref_bytes(v) {
			cx.bump("refenc.compared");
			if r != enc {
				cx.bump("refenc.mismatch");
				cx.run.inconclusive(&format!(
					"reference encoder disagrees for {} v{} shape {}: ref {} vs ser {}",
					fam,
					v,
					shape,
					hx(&r[..r.len().min(200)]),
					hx(&enc[..enc.len().min(200)])
				));
			}
		}
		if !x.decodable(v) {
			// format limit (e.g. proof shorter than 8 bytes): the decoder must refuse, nothing else to check
			match dec_bin::<T>(&enc, v) {
				Dec::Err(_) => cx.bump(&format!("not_carried.decode.{}.v{}", fam, v)),
				Dec::Ok(..) => cx.bump(&format!("unexpectedly_decodable.{}.v{}", fam, v)),
				Dec::Panic(p) => cx.run.inconclusive(&format!(
					"panic decoding not-carried {} at {}: {}",
					fam, p.location, p.message
				)),
			}
			continue;
		}
		let mut buf = enc.clone();
		buf.extend_from_slice(&SENT);
		let mut ok = true;
		match dec_bin::<T>(&buf, v) {
			Dec::Panic(p) => {
				ok = false;
				cx.violation(
					&format!("{}@{}", rt_sig(x, v, "decode_panic"), p.location),
					&format!("{}: decoding its own encoding panicked: {}", fam, p.message),
					replay_of(fam, ct, v, shape, &enc, &p.message),
				);
			}
			Dec::Err(e) => {
				ok = false;
				cx.violation(
					&rt_sig(x, v, "decode_error"),
					&format!("{}: its own v{} encoding does not decode: {:?}", fam, v, e),
					replay_of(fam, ct, v, shape, &enc, &format!("{:?}", e)),
				);
			}
			Dec::Ok(y, used) => {
				if used != enc.len() {
					ok = false;
					cx.violation(
						&rt_sig(x, v, "consumed_length_mismatch"),
						&format!("{}: decoder consumed {} of {} bytes", fam, used, enc.len()),
						replay_of(fam, ct, v, shape, &enc, "BinReader with sentinel"),
					);
				}
				if let Some(d) = x.diff(&y, v) {
					ok = false;
					cx.violation(
						&rt_sig(x, v, "value_mismatch"),
						&format!("{}: decoded value differs after v{} transport: {}", fam, v, d),
						replay_of(fam, ct, v, shape, &enc, &d),
					);
				}
				match catch(|| ser::ser_vec(&y, pv(v))) {
					Ok(Ok(b2)) if b2 == enc => {}
					Ok(Ok(b2)) => {
						ok = false;
						cx.violation(
							&rt_sig(x, v, "reencode_differs"),
							&format!(
								"{}: re-encoding at v{} gives {} bytes != original {} bytes",
								fam,
								v,
								b2.len(),
								enc.len()
							),
							replay_of(fam, ct, v, shape, &enc, &format!("reencoded={}", hx(&b2))),
						);
					}
					other => {
						ok = false;
						cx.violation(
							&rt_sig(x, v, "reencode_failed"),
							&format!("{}: re-encoding failed: {:?}", fam, other.map(|r| r.err()).map_err(|p| p.message)),
							replay_of(fam, ct, v, shape, &enc, ""),
						);
					}
				}
				if let Some(h) = h0 {
					if y.id_hash() != Some(h) {
						ok = false;
						cx.violation(
							&rt_sig(x, v, "identity_hash_changed"),
							&format!("{}: hash {:?} became {:?} after v{} transport", fam, h, y.id_hash(), v),
							replay_of(fam, ct, v, shape, &enc, ""),
						);
					}
				}
				ys[i] = Some(y);
			}
		}
		match dec_buf::<T>(&enc, v) {
			Dec::Ok(y2, used) => {
				let same = matches!(ser::ser_vec(&y2, pv(v)), Ok(ref b) if *b == enc);
				if used != enc.len() || !same || x.diff(&y2, v).is_some() {
					ok = false;
					cx.violation(
						&rt_sig(x, v, "bufreader_mismatch"),
						&format!(
							"{}: BufReader decode differs (consumed {} of {}, reencode same: {})",
							fam,
							used,
							enc.len(),
							same
						),
						replay_of(fam, ct, v, shape, &enc, "BufReader"),
					);
				}
			}
			Dec::Err(e) => {
				ok = false;
				cx.violation(
					&rt_sig(x, v, "bufreader_decode_error"),
					&format!("{}: BufReader refuses its own v{} encoding: {:?}", fam, v, e),
					replay_of(fam, ct, v, shape, &enc, &format!("{:?}", e)),
				);
			}
			Dec::Panic(p) => {
				ok = false;
				cx.violation(
					&format!("{}@{}", rt_sig(x, v, "bufreader_decode_panic"), p.location),
					&format!("{}: BufReader decode panicked: {}", fam, p.message),
					replay_of(fam, ct, v, shape, &enc, &p.message),
				);
			}
		}
		if ok {
			cx.bump(&format!("rt.{}.v{}", fam, v));
		}
		encs[i] = Some(enc);
	}
	// a value transported at version a, re-encoded at version b, must give the bytes of a direct encoding at b
	for i in 0..4 {
		if let Some(y) = &ys[i] {
			for j in 0..4 {
				if i == j || !y.carried(VERSIONS[j]) {
					continue;
				}
				if let Some(ej) = &encs[j] {
					match ser::ser_vec(y, pv(VERSIONS[j])) {
						Ok(b) if b == *ej => cx.bump(&format!("xver.{}", fam)),
						other => {
							cx.violation(
								&format!(
									"{};via={}",
									rt_sig(x, VERSIONS[j], "cross_version_bytes_differ"),
									T::enc_class(VERSIONS[i])
								),
								&format!(
									"{}: value transported at v{} re-encodes at v{} differently from a direct encoding ({:?})",
									fam,
									VERSIONS[i],
									VERSIONS[j],
									other.as_ref().map(|b| b.len())
								),
								replay_of(fam, ct, VERSIONS[j], shape, ej, "direct encoding shown"),
							);
						}
					}
				}
			}
		}
	}
}

// ------------------------------------------------------------------ the canonical-form monitor

#[derive(Clone, Copy, PartialEq)]
enum Mode {
	/// any successful decode is an acceptance of a non-canonical encoding
	Strict,
	/// a successful decode that leaves bytes over / runs short is fine (framing catches it)
	CountLike,
}

/// The bytes break a canonical-form rule by construction: the decoder (both readers) must refuse.
fn must_reject<T: Readable + Writeable>(
	cx: &mut Cx,
	fam: &str,
	class: &str,
	sub: &str,
	v: u32,
	bytes: &[u8],
	mode: Mode,
) {
	cx.eval(&format!("pert|{}|{}|{}|v{}|{}", fam, class, sub, v, cx.ct));
	let mut accepted: Option<(usize, Option<Vec<u8>>, &'static str)> = None;
	let mut refused = 0;
	for reader in ["BinReader", "BufReader"] {
		let d = if reader == "BinReader" {
			dec_bin::<T>(bytes, v)
		} else {
			dec_buf::<T>(bytes, v)
		};
		match d {
			Dec::Err(_) => refused += 1,
			Dec::Panic(p) => {
				cx.bump("perturb.panic_seen");
				cx.run.inconclusive(&format!(
					"panic (C11 territory) decoding perturbed {} class {} at {}: {}",
					fam, class, p.location, p.message
				));
			}
			Dec::Ok(y, used) => {
				if mode == Mode::Strict || used == bytes.len() {
					let re = ser::ser_vec(&y, pv(v)).ok();
					accepted = Some((used, re, reader));
				} else {
					cx.bump(&format!("reject_by_length.{}.{}", fam, class));
				}
			}
		}
	}
	if let Some((used, re, reader)) = accepted {
		let normalised = re.as_ref().map(|r| r[..] != bytes[..used.min(bytes.len())]);
		cx.violation(
			&format!("type={};class={};event=noncanonical_encoding_accepted", fam, class),
			&format!(
				"{}: encoding breaking rule '{}' ({}) decodes successfully with {} at v{} (consumed {} of {}, re-encodes differently: {:?})",
				fam,
				class,
				sub,
				reader,
				v,
				used,
				bytes.len(),
				normalised
			),
			replay_of(fam, cx.ct, v, &format!("{}:{}", class, sub), bytes, &format!("reencoded={}", re.map(|r| hx(&r)).unwrap_or_default())),
		);
	} else if refused > 0 {
		cx.bump(&format!("reject.{}.{}", fam, class));
		cx.bump("reject.total");
	}
}

/// Probe of an encoding the format does not define as non-canonical: only recorded.
fn probe<T: Readable + Writeable>(cx: &mut Cx, name: &str, v: u32, bytes: &[u8]) {
	cx.eval(&format!("probe|{}|v{}", name, v));
	match dec_bin::<T>(bytes, v) {
		Dec::Ok(y, used) => {
			let re = ser::ser_vec(&y, pv(v)).ok();
			let norm = used == bytes.len() && re.as_deref() != Some(bytes);
			if norm {
				cx.bump(&format!("info.accepted_and_normalised.{}", name));
			} else {
				cx.bump(&format!("info.accepted.{}", name));
			}
		}
		Dec::Err(_) => cx.bump(&format!("info.refused.{}", name)),
		Dec::Panic(_) => cx.bump(&format!("info.panic.{}", name)),
	}
}

// ------------------------------------------------------------------ pools and generators

struct Pools {
	commits: Vec<Commitment>,
	outs: Vec<Output>,
	cb: Vec<(Output, TxKernel)>,
}

fn make_commits(seed: u64, n: usize) -> Vec<Commitment> {
	let threads = 8;
	let mut all: Vec<Vec<Commitment>> = vec![];
	std::thread::scope(|s| {
		let hs: Vec<_> = (0..threads)
			.map(|t| {
				s.spawn(move || {
					let secp = Secp256k1::with_caps(ContextFlag::Commit);
					let mut p = Prng::new(seed ^ (0xC0_0000 + t as u64));
					let mut v = vec![];
					while v.len() < n / threads + 1 {
						let kb = p.bytes(32);
						if let Ok(sk) = SecretKey::from_slice(&secp, &kb) {
							let value = p.interesting_u64();
							if let Ok(c) = secp.commit(value, sk) {
								v.push(c);
							}
						}
					}
					v
				})
			})
			.collect();
		for h in hs {
			all.push(h.join().expect("commit worker"));
		}
	});
	let mut out: Vec<Commitment> = all.into_iter().flatten().collect();
	out.sort_by(|a, b| a.0.cmp(&b.0));
	out.dedup();
	// deterministic order independent of thread timing
	let mut p = Prng::new(seed ^ 0x5EED);
	p.shuffle(&mut out);
	out
}

fn build_pools(seed: u64, n_plain: usize, n_cb: usize, n_commits: usize) -> Pools {
	let threads = 16usize;
	let total = n_plain + n_cb;
	let mut plain: Vec<(usize, Output)> = vec![];
	let mut cbs: Vec<(usize, (Output, TxKernel))> = vec![];
	std::thread::scope(|s| {
		let hs: Vec<_> = (0..threads)
			.map(|t| {
				s.spawn(move || {
					init_thread(true);
					let w = World::new(seed);
					let mut a = vec![];
					let mut b = vec![];
					let mut i = t;
					while i < total {
						if i < n_plain {
							let value = match i {
								0 => 0,
								1 => 1,
								2 => u64::MAX,
								_ => 1_000_000 + 7919 * i as u64,
							};
							a.push((i, w.output(value, &w.key(1000 + i as u32))));
						} else {
							b.push((i, w.coinbase(&w.key(1000 + i as u32), (i as u64) * 1000)));
						}
						i += threads;
					}
					(a, b)
				})
			})
			.collect();
		for h in hs {
			let (a, b) = h.join().expect("pool worker");
			plain.extend(a);
			cbs.extend(b);
		}
	});
	plain.sort_by_key(|x| x.0);
	cbs.sort_by_key(|x| x.0);
	Pools {
		commits: make_commits(seed, n_commits),
		outs: plain.into_iter().map(|x| x.1).collect(),
		cb: cbs.into_iter().map(|x| x.1).collect(),
	}
}

fn raw_fee(n: u64) -> FeeFields {
	// FeeFields' serde visitor takes any u64 (future-use bits included); independent of the binary reader
	serde_json::from_str::<FeeFields>(&format!("\"{}\"", n)).expect("fee fields from json")
}

const FEE_EDGES: [u64; 9] = [
	1,
	2,
	255,
	256,
	0xffff_ffff,
	0x1_0000_0000,
	FEE_MASK - 1,
	FEE_MASK,
	500_000,
];

fn gen_fee(p: &mut Prng) -> (FeeFields, &'static str) {
	match p.below(8) {
		0 | 1 => (
			FeeFields::new(p.below(16), *p.pick(&FEE_EDGES)).expect("fee"),
			"fee_edge",
		),
		2 => (FeeFields::new(15, FEE_MASK).expect("fee"), "fee_max"),
		3 => (raw_fee(p.interesting_u64()), "fee_raw_u64"),
		4 => (raw_fee(0), "fee_zero"),
		5 => (raw_fee(p.next_u64() | (1u64 << 44)), "fee_future_bits"),
		_ => (
			FeeFields::new(p.below(16), p.range(1, FEE_MASK)).expect("fee"),
			"fee_rand",
		),
	}
}

fn gen_lock(p: &mut Prng) -> (u64, &'static str) {
	match p.below(6) {
		0 => (0, "lock0"),
		1 => (1, "lock1"),
		2 => (u64::MAX, "lockmax"),
		3 => (1 << 32, "lock2p32"),
		_ => (p.interesting_u64(), "lockrand"),
	}
}

const NRD_EDGES: [u64; 8] = [1, 2, 255, 256, 1440, 10079, 10080, 4097];

fn gen_kfeat(p: &mut Prng, variant: u64) -> (KernelFeatures, String) {
	match variant {
		0 => {
			let (fee, c) = gen_fee(p);
			(KernelFeatures::Plain { fee }, format!("plain|{}", c))
		}
		1 => (KernelFeatures::Coinbase, "coinbase".into()),
		2 => {
			let (fee, c) = gen_fee(p);
			let (lock_height, l) = gen_lock(p);
			(
				KernelFeatures::HeightLocked { fee, lock_height },
				format!("heightlocked|{}|{}", c, l),
			)
		}
		_ => {
			let (fee, c) = gen_fee(p);
			let (h, l) = if p.bool() {
				(*p.pick(&NRD_EDGES), "rel_edge")
			} else {
				(p.range(1, consensus::WEEK_HEIGHT), "rel_rand")
			};
			(
				KernelFeatures::NoRecentDuplicate {
					fee,
					relative_height: NRDRelativeHeight::new(h).expect("nrd"),
				},
				format!("nrd|{}|{}", c, l),
			)
		}
	}
}

fn gen_sig(p: &mut Prng) -> Signature {
	let mut b = [0u8; 64];
	match p.below(6) {
		0 => {}
		1 => b = [0xff; 64],
		_ => p.fill(&mut b),
	}
	Signature::from_raw_data(&b).expect("sig")
}

fn gen_kernel(p: &mut Prng, pools: &Pools, variant: u64) -> (TxKernel, String) {
	let (features, s) = gen_kfeat(p, variant);
	(
		TxKernel {
			features,
			excess: *p.pick(&pools.commits),
			excess_sig: gen_sig(p),
		},
		s,
	)
}

fn gen_hash(p: &mut Prng) -> Hash {
	match p.below(8) {
		0 => ZERO_HASH,
		1 => Hash::from_vec(&[0xff; 32]),
		_ => Hash::from_vec(&p.bytes(32)),
	}
}

fn gen_blind(p: &mut Prng) -> BlindingFactor {
	match p.below(6) {
		0 => BlindingFactor::zero(),
		1 => BlindingFactor::from_slice(&[0xff; 32]),
		_ => BlindingFactor::from_slice(&p.bytes(32)),
	}
}

fn distinct_idx(p: &mut Prng, n: usize, k: usize) -> Vec<usize> {
	assert!(k <= n);
	if k * 4 > n {
		let mut v: Vec<usize> = (0..n).collect();
		p.shuffle(&mut v);
		v.truncate(k);
		v
	} else {
		let mut seen = HashSet::new();
		let mut v = vec![];
		while v.len() < k {
			let i = p.usize_below(n);
			if seen.insert(i) {
				v.push(i);
			}
		}
		v
	}
}

#[derive(Clone, Copy, PartialEq)]
enum InVar {
	Features,
	CommitOnly,
}

/// A sorted body (as `TransactionBody::init(.., false)` leaves it) of the requested shape.
fn gen_body(
	p: &mut Prng,
	pools: &Pools,
	n_in: usize,
	n_out: usize,
	n_k: usize,
	var: InVar,
	coinbase_ok: bool,
) -> TransactionBody {
	let idx = distinct_idx(p, pools.commits.len(), n_in + n_k);
	let inputs = if var == InVar::Features {
		let v: Vec<Input> = idx[..n_in]
			.iter()
			.map(|&i| {
				Input::new(
					if p.chance(1, 4) {
						OutputFeatures::Coinbase
					} else {
						OutputFeatures::Plain
					},
					pools.commits[i],
				)
			})
			.collect();
		Inputs::from(&v[..])
	} else {
		let v: Vec<CommitWrapper> = idx[..n_in]
			.iter()
			.map(|&i| CommitWrapper::from(pools.commits[i]))
			.collect();
		Inputs::from(&v[..])
	};
	let mut all_outs: Vec<Output> = pools.outs.clone();
	if coinbase_ok {
		all_outs.extend(pools.cb.iter().map(|c| c.0));
	}
	let n_out = n_out.min(all_outs.len());
	let outs: Vec<Output> = distinct_idx(p, all_outs.len(), n_out)
		.into_iter()
		.map(|i| all_outs[i])
		.collect();
	let mut kernels = vec![];
	for (j, &i) in idx[n_in..].iter().enumerate() {
		if coinbase_ok && j == 0 && !pools.cb.is_empty() && p.bool() {
			kernels.push(p.pick(&pools.cb).1);
			continue;
		}
		let variant = if coinbase_ok { p.below(4) } else { [0, 2, 3][p.usize_below(3)] };
		let (features, _) = gen_kfeat(p, variant);
		kernels.push(TxKernel {
			features,
			excess: pools.commits[i],
			excess_sig: gen_sig(p),
		});
	}
	TransactionBody::init(inputs, &outs, &kernels, false).expect("body init")
}

fn ts_min() -> i64 {
	NaiveDate::MIN.and_hms_opt(0, 0, 0).unwrap().and_utc().timestamp()
}
fn ts_max() -> i64 {
	NaiveDate::MAX.and_hms_opt(0, 0, 0).unwrap().and_utc().timestamp()
}

fn gen_ts(p: &mut Prng) -> (DateTime<Utc>, &'static str) {
	let (s, c) = match p.below(8) {
		0 => (ts_min(), "ts_min"),
		1 => (ts_max(), "ts_max"),
		2 => (0, "ts_epoch"),
		3 => (-1, "ts_neg"),
		4 => (1_547_568_086, "ts_2019"),
		5 => (p.range(0, 1 << 40) as i64 - (1 << 39), "ts_wide"),
		_ => (1_600_000_000 + p.below(400_000_000) as i64, "ts_now"),
	};
	(DateTime::<Utc>::from_timestamp(s, 0).expect("timestamp"), c)
}

fn gen_nonces(p: &mut Prng, eb: u8, n: usize) -> (Vec<u64>, &'static str) {
	let max = if eb >= 64 { u64::MAX } else { (1u64 << eb) - 1 };
	match p.below(7) {
		0 => (vec![0; n], "n_zero"),
		1 => (vec![max; n], "n_max"),
		2 => ((0..n).map(|i| if i % 2 == 0 { 0 } else { max }).collect(), "n_alt"),
		3 => ((0..n).map(|i| 1u64 << (i as u64 % eb as u64)).collect(), "n_onebit"),
		4 => {
			let mut v: Vec<u64> = (0..n).map(|_| p.range(0, max)).collect();
			v.sort_unstable();
			(v, "n_sorted")
		}
		_ => ((0..n).map(|_| p.range(0, max)).collect(), "n_rand"),
	}
}

fn gen_proof(p: &mut Prng, eb: u8) -> (Proof, &'static str) {
	let (nonces, c) = gen_nonces(p, eb, global::proofsize());
	(
		Proof {
			edge_bits: eb,
			nonces,
		},
		c,
	)
}

fn gen_header(p: &mut Prng, eb: u8, hv: u16) -> (BlockHeader, String) {
	let (timestamp, tc) = gen_ts(p);
	let (proof, nc) = gen_proof(p, eb);
	let extreme = p.below(4);
	let u = |p: &mut Prng| match extreme {
		0 => 0,
		1 => u64::MAX,
		_ => p.interesting_u64(),
	};
	let h = BlockHeader {
		version: HeaderVersion(hv),
		height: u(p),
		prev_hash: gen_hash(p),
		prev_root: gen_hash(p),
		timestamp,
		output_root: gen_hash(p),
		range_proof_root: gen_hash(p),
		kernel_root: gen_hash(p),
		total_kernel_offset: gen_blind(p),
		output_mmr_size: u(p),
		kernel_mmr_size: u(p),
		pow: ProofOfWork {
			total_difficulty: if extreme == 0 {
				Difficulty::zero()
			} else {
				Difficulty::from_num(u(p))
			},
			secondary_scaling: match extreme {
				0 => 0,
				1 => u32::MAX,
				_ => p.next_u32(),
			},
			nonce: u(p),
			proof,
		},
	};
	(h, format!("eb{}|hv{}|{}|{}|x{}", eb, hv, tc, nc, extreme.min(2)))
}
