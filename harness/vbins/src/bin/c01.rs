//! C01 — no value is created: accepted transactions and blocks balance.
//!
//! Oracle: validity by construction. Valid cases are assembled from openings
//! (values, keys) known to the harness and re-checked by plain bookkeeping
//! (integer sums of values; blinding sums through secp used as a scalar/point
//! adder only). Every corruption operator changes exactly one thing and is
//! labelled invalid. Chain part: after every accepted block the stored running
//! sums must equal sums recomputed from the replayed full state, and the
//! full-state equation must hold.

use grin_chain::types::Options;
use grin_core::consensus;
use grin_core::core::hash::{Hash, Hashed};
use grin_core::core::transaction::{self, Weighting};
use grin_core::core::{
	Block, FeeFields, KernelFeatures, Output, OutputFeatures, Transaction, TxKernel,
};
use grin_keychain::{BlindingFactor, Keychain, SwitchCommitmentType};
use grin_util::secp::pedersen::Commitment;
use serde_json::json;
use std::collections::{HashMap, HashSet};
use vcommon::forktree::{gen_history, shape_sig, TreeCfg};
use vcommon::world::{
	fee_fields, height_locked, init_globals, init_thread, nrd, open_chain, Coin, PowMode, World,
};
use vcommon::{Prng, Run, Scratch};

struct Built {
	tx: Transaction,
	inputs: Vec<Coin>,
	outputs: Vec<Coin>,
	fee: u64,
}

/// One single-kernel transaction with known openings.
fn build_tx(w: &World, p: &mut Prng, key: &mut u32, n_in: usize, n_out: usize, variant: u64, zero_offset: bool) -> Built {
	let mut inputs = vec![];
	let mut total = 0u64;
	for _ in 0..n_in {
		let v = 1_000_000_000 + p.below(50_000_000_000);
		let k = w.key(*key);
		*key += 1;
		let cb = p.chance(1, 5);
		inputs.push(w.coin(v, &k, cb));
		total += v;
	}
	let fee_shift = if p.chance(1, 4) { 1 + p.below(3) } else { 0 };
	let fee = 1_000_000 * (1 + p.below(20));
	let ff = FeeFields::new(fee_shift, fee).expect("fee fields");
	let feat = match variant % 3 {
		0 => KernelFeatures::Plain { fee: ff },
		1 => KernelFeatures::HeightLocked {
			fee: ff,
			lock_height: p.below(1000),
		},
		_ => KernelFeatures::NoRecentDuplicate {
			fee: ff,
			relative_height: grin_core::core::NRDRelativeHeight::new(1 + p.below(100)).unwrap(),
		},
	};
	let mut outs = vec![];
	let mut left = total - fee;
	for i in 0..n_out {
		let v = if i + 1 == n_out { left } else { 1 + p.below(left / 2) };
		left -= v;
		outs.push((v, w.key(*key)));
		*key += 1;
	}
	let (tx, coins) = w.tx_opts(p, &inputs, &outs, feat, zero_offset);
	Built {
		tx,
		inputs,
		outputs: coins,
		fee,
	}
}

/// Independent re-check of the balance equation from the openings.
fn bookkeeping_balanced(w: &World, parts: &[&Built], agg: &Transaction) -> bool {
	let vin: u128 = parts.iter().flat_map(|b| b.inputs.iter()).map(|c| c.value as u128).sum();
	let vout: u128 = parts.iter().flat_map(|b| b.outputs.iter()).map(|c| c.value as u128).sum();
	let fee: u128 = parts.iter().map(|b| b.fee as u128).sum();
	if vin != vout + fee || agg.fee() as u128 != fee {
		return false;
	}
	// blinding: sum(out) - sum(in) == sum(kernel keys) + offset, checked on the curve:
	// commit(0, sum_out - sum_in) == sum(kernel excess) + commit(0, offset)
	let secp = w.kc.secp();
	let mut pos = vec![];
	let mut neg = vec![];
	for b in parts {
		for c in &b.outputs {
			pos.push(w.kc.derive_key(c.value, &c.key_id, SwitchCommitmentType::Regular).unwrap());
		}
		for c in &b.inputs {
			neg.push(w.kc.derive_key(c.value, &c.key_id, SwitchCommitmentType::Regular).unwrap());
		}
	}
	let sum = match secp.blind_sum(pos, neg) {
		Ok(s) => s,
		Err(_) => return false,
	};
	let lhs = secp.commit(0, sum).unwrap();
	let mut rhs: Vec<Commitment> = agg.kernels().iter().map(|k| k.excess).collect();
	if agg.offset != BlindingFactor::zero() {
		rhs.push(secp.commit(0, agg.offset.secret_key(secp).unwrap()).unwrap());
	}
	let rhs = secp.commit_sum(rhs, vec![]).unwrap();
	lhs == rhs
}

fn variant_name(dbg: &str) -> String {
	dbg.split(|c: char| !(c.is_alphanumeric() || c == '_')).next().unwrap_or("").to_string()
}

fn body_sorted(mut tx: Transaction) -> Transaction {
	tx.body.sort();
	tx
}

/// Corruption operators on a valid (possibly multi-kernel) transaction.
/// Returns (operator name, corrupted tx).
fn corruptions(w: &World, p: &mut Prng, key: &mut u32, parts: &[Built], agg: &Transaction) -> Vec<(&'static str, Transaction)> {
	let mut v: Vec<(&'static str, Transaction)> = vec![];
	let secp = w.kc.secp();
	// 1. one output's amount +delta / -delta, re-proved: only the sum breaks
	for (name, up) in [("output_amount_plus", true), ("output_amount_minus", false)] {
		let b = &parts[0];
		let c = &b.outputs[0];
		let delta = 1 + p.below(1000);
		let nv = if up { c.value + delta } else { c.value.saturating_sub(delta).max(1) };
		if nv == c.value {
			continue;
		}
		let k = w.key(*key);
		*key += 1;
		let newo = w.output(nv, &k);
		let mut t = agg.clone();
		// replace the output but keep the original blinding contribution unknown to the kernel:
		// use the SAME key so that only the value term differs
		let same_key_out = w.output(nv, &c.key_id);
		let _ = newo;
		if let Some(pos) = t.body.outputs.iter().position(|o| o.commitment() == c.commit) {
			t.body.outputs[pos] = same_key_out;
			v.push((name, body_sorted(t)));
		}
	}
	// 2. fee changed, kernel re-signed for the new fee (only the sum breaks)
	{
		let mut t = agg.clone();
		let k0 = t.body.kernels[0].clone();
		let newfeat = match k0.features {
			KernelFeatures::Plain { fee } => KernelFeatures::Plain {
				fee: FeeFields::new(fee.fee_shift() as u64, fee.fee() + 1).unwrap(),
			},
			KernelFeatures::HeightLocked { fee, lock_height } => KernelFeatures::HeightLocked {
				fee: FeeFields::new(fee.fee_shift() as u64, fee.fee() + 1).unwrap(),
				lock_height,
			},
			KernelFeatures::NoRecentDuplicate { fee, relative_height } => KernelFeatures::NoRecentDuplicate {
				fee: FeeFields::new(fee.fee_shift() as u64, fee.fee() + 1).unwrap(),
				relative_height,
			},
			other => other,
		};
		// fee field changed without re-signing: the signature breaks
		let mut kk = k0.clone();
		kk.features = newfeat;
		t.body.kernels[0] = kk;
		v.push(("fee_field_changed", body_sorted(t)));
	}
	// 3. offset changed
	{
		let mut t = agg.clone();
		let one = BlindingFactor::from_slice(&{
			let mut b = [0u8; 32];
			b[31] = 1;
			b
		});
		t.offset = if t.offset == BlindingFactor::zero() {
			one
		} else {
			let s = secp
				.blind_sum(vec![t.offset.secret_key(secp).unwrap(), one.secret_key(secp).unwrap()], vec![])
				.unwrap();
			BlindingFactor::from_secret_key(s)
		};
		v.push(("offset_changed", t));
	}
	// 3b. offset that is not a scalar at all (at / above the group order): nothing such an "offset" could balance
	for (name, bytes) in [("offset_all_ff", [0xffu8; 32]), ("offset_group_order", GROUP_ORDER), ("offset_group_order_plus_one", {
		let mut b = GROUP_ORDER;
		b[31] += 1;
		b
	})] {
		let mut t = agg.clone();
		t.offset = BlindingFactor::from_slice(&bytes);
		v.push((name, t));
	}
	// 4. kernels: dropped / duplicated / foreign
	if agg.kernels().len() >= 2 {
		let mut t = agg.clone();
		t.body.kernels.remove(0);
		v.push(("kernel_dropped", t));
	}
	{
		let mut t = agg.clone();
		let k = t.body.kernels[0].clone();
		t.body.kernels.push(k);
		v.push(("kernel_duplicated", body_sorted(t)));
	}
	{
		// a valid kernel from an unrelated transaction replaces one of ours
		let other = build_tx(w, p, key, 1, 1, 0, false);
		let mut t = agg.clone();
		t.body.kernels[0] = other.tx.kernels()[0].clone();
		v.push(("kernel_foreign", body_sorted(t)));
	}
	// 5. range proofs swapped between two outputs
	if agg.outputs().len() >= 2 {
		let mut t = agg.clone();
		let p0 = t.body.outputs[0].proof;
		t.body.outputs[0].proof = t.body.outputs[1].proof;
		t.body.outputs[1].proof = p0;
		v.push(("range_proofs_swapped", t));
	}
	// 6. signatures swapped between two kernels
	if agg.kernels().len() >= 2 {
		let mut t = agg.clone();
		let s0 = t.body.kernels[0].excess_sig.clone();
		t.body.kernels[0].excess_sig = t.body.kernels[1].excess_sig.clone();
		t.body.kernels[1].excess_sig = s0;
		v.push(("signatures_swapped", t));
	}
	// 7. input replaced by another coin
	{
		let k = w.key(*key);
		*key += 1;
		let c = w.coin(parts[0].inputs[0].value + 17, &k, false);
		let mut t = Transaction::new(
			{
				let mut ins: Vec<grin_core::core::Input> = parts.iter().flat_map(|b| b.inputs.iter().map(|c| c.input())).collect();
				ins[0] = c.input();
				ins.sort_unstable();
				grin_core::core::Inputs::FeaturesAndCommit(ins)
			},
			agg.outputs(),
			agg.kernels(),
		);
		t.offset = agg.offset.clone();
		v.push(("input_replaced", t));
	}
	// 8. coinbase flag moved onto an output / a kernel of a plain transaction
	{
		let mut t = agg.clone();
		t.body.outputs[0].identifier.features = OutputFeatures::Coinbase;
		v.push(("output_flagged_coinbase", body_sorted(t)));
	}
	{
		let mut t = agg.clone();
		t.body.kernels[0].features = KernelFeatures::Coinbase;
		v.push(("kernel_flagged_coinbase", body_sorted(t)));
	}
	v
}

/// Order of the secp256k1 group: the smallest 32-byte value that is not a scalar.
const GROUP_ORDER: [u8; 32] = [
	0xff, 0xff, 0xff, 0xff, 0xff, 0xff, 0xff, 0xff, 0xff, 0xff, 0xff, 0xff, 0xff, 0xff, 0xff, 0xfe, 0xba, 0xae, 0xdc, 0xe6, 0xaf, 0x48, 0xa0, 0x3b,
	0xbf, 0xd2, 0x5e, 0x8c, 0xd0, 0x36, 0x41, 0x41,
];

/// Block corruptions (name, block, prev header used for validate).
fn block_cases(w: &World, p: &mut Prng, key: &mut u32, prev: &grin_core::core::BlockHeader, txs: &[&Built]) -> (Block, Vec<(&'static str, Block)>) {
	let txv: Vec<Transaction> = txs.iter().map(|b| b.tx.clone()).collect();
	let fees: u64 = txv.iter().map(|t| t.fee()).sum();
	let k = w.key(*key);
	*key += 1;
	let (out, kern) = w.coinbase(&k, fees);
	let valid = Block::from_reward(prev, &txv, out.clone(), kern.clone(), grin_core::pow::Difficulty::from_num(5)).expect("block");
	let mut v: Vec<(&'static str, Block)> = vec![];
	// forged coinbase value with a compensating burn so that the whole-block sum still balances
	{
		let x = 1 + p.below(1_000_000);
		// tx that burns x more than its declared fee
		let cin = w.coin(2_000_000_000 + p.below(1_000_000_000), &w.key(*key), false);
		*key += 1;
		let fee = 2_000_000;
		let ko = w.key(*key);
		*key += 1;
		let (burn_tx, _) = w.tx(p, &[cin.clone()], &[(cin.value - fee - x, ko)], KernelFeatures::Plain { fee: fee_fields(fee) });
		let mut all = txv.clone();
		all.push(burn_tx);
		let fees2: u64 = all.iter().map(|t| t.fee()).sum();
		let (o2, k2) = w.coinbase(&k, fees2 + x);
		if let Ok(b) = Block::from_reward(prev, &all, o2, k2, grin_core::pow::Difficulty::from_num(5)) {
			// sanity: the whole-block equation balances by construction (only verify_coinbase can object)
			v.push(("coinbase_overclaim_with_compensating_burn", b));
		}
	}
	// coinbase value forged upwards without compensation
	{
		let (o2, k2) = w.coinbase(&k, fees + 1);
		if let Ok(b) = Block::from_reward(prev, &txv, o2, k2, grin_core::pow::Difficulty::from_num(5)) {
			v.push(("coinbase_overclaim", b));
		}
	}
	// coinbase flag removed from the output
	{
		let mut b = valid.clone();
		if let Some(i) = b.body.outputs.iter().position(|o| o.is_coinbase()) {
			b.body.outputs[i].identifier.features = OutputFeatures::Plain;
			b.body.sort();
			v.push(("coinbase_flag_removed_from_output", b));
		}
	}
	// coinbase flag removed from the kernel (becomes a zero-fee plain kernel: signature breaks too)
	{
		let mut b = valid.clone();
		if let Some(i) = b.body.kernels.iter().position(|k| k.is_coinbase()) {
			b.body.kernels[i].features = KernelFeatures::Plain { fee: FeeFields::zero() };
			b.body.sort();
			v.push(("coinbase_flag_removed_from_kernel", b));
		}
	}
	// a second coinbase output + kernel claiming a second subsidy
	{
		let k2id = w.key(*key);
		*key += 1;
		let (o2, k2) = w.coinbase(&k2id, 0);
		let mut b = valid.clone();
		b.body.outputs.push(o2);
		b.body.kernels.push(k2);
		b.body.sort();
		v.push(("second_subsidy_claimed", b));
	}
	// plain output flagged coinbase
	if valid.outputs().iter().any(|o| !o.is_coinbase()) {
		let mut b = valid.clone();
		let i = b.body.outputs.iter().position(|o| !o.is_coinbase()).unwrap();
		b.body.outputs[i].identifier.features = OutputFeatures::Coinbase;
		b.body.sort();
		v.push(("plain_output_flagged_coinbase", b));
	}
	// coinbase output carrying the range proof of another output (a valid proof, for the wrong commitment)
	if valid.outputs().iter().any(|o| !o.is_coinbase()) {
		let mut b = valid.clone();
		let ci = b.body.outputs.iter().position(|o| o.is_coinbase()).unwrap();
		let pi = b.body.outputs.iter().position(|o| !o.is_coinbase()).unwrap();
		b.body.outputs[ci].proof = b.body.outputs[pi].proof;
		v.push(("coinbase_output_with_foreign_range_proof", b));
	}
	// the reward split over two coinbase outputs, one committing to REWARD+fees+V with a valid proof and one to
	// -V with a junk proof, coinbase kernel signed with the summed blinds: verify_coinbase and both sum checks
	// balance, only the range proof of the negative output stands between this block and V grin from nothing
	{
		let secp = w.kc.secp();
		let vmint = 1_000_000 * consensus::GRIN_BASE;
		let k1 = w.key(*key);
		*key += 1;
		let big_value = consensus::reward(fees) + vmint;
		let out1 = {
			let o = w.output(big_value, &k1);
			Output::new(OutputFeatures::Coinbase, o.commitment(), o.proof())
		};
		let r1 = w.kc.derive_key(big_value, &k1, SwitchCommitmentType::Regular).unwrap();
		let mut r2b = [0u8; 32];
		p.fill(&mut r2b);
		r2b[0] &= 0x7f;
		r2b[31] |= 1;
		let r2 = grin_util::secp::key::SecretKey::from_slice(secp, &r2b).unwrap();
		let c2 = secp
			.commit_sum(vec![secp.commit(0, r2.clone()).unwrap()], vec![secp.commit_value(vmint).unwrap()])
			.unwrap();
		let out2 = Output::new(OutputFeatures::Coinbase, c2, out1.proof());
		let rsum = secp.blind_sum(vec![r1, r2], vec![]).unwrap();
		let excess = secp.commit(0, rsum.clone()).unwrap();
		let pubkey = excess.to_pubkey(secp).unwrap();
		let mut kern = TxKernel::with_features(KernelFeatures::Coinbase);
		kern.excess = excess;
		let msg = kern.msg_to_sign().unwrap();
		kern.excess_sig = grin_core::libtx::aggsig::sign_single(secp, &msg, &rsum, None, Some(&pubkey)).unwrap();
		if let Ok(mut b) = Block::from_reward(prev, &txv, out1, kern, grin_core::pow::Difficulty::from_num(5)) {
			b.body.outputs.push(out2);
			b.body.sort();
			v.push(("reward_split_with_negative_coinbase_output", b));
		}
	}
	// the coinbase output claims REWARD+fees+V (valid proof) and the coinbase KERNEL's excess carries the V: excess =
	// output - (REWARD+fees)*H = r*G + V*H, under the signature of the honest kernel or a random one. verify_coinbase
	// compares curve points and balances, both sum checks balance; only the kernel signature (an excess with a value
	// component has no signature under it) stands between this block and V grin from nothing
	for junk in [false, true] {
		let secp = w.kc.secp();
		let vmint = (1 + p.below(1_000_000)) * consensus::GRIN_BASE;
		let k1 = w.key(*key);
		*key += 1;
		let honest_value = consensus::reward(fees);
		let out1 = {
			let o = w.output(honest_value + vmint, &k1);
			Output::new(OutputFeatures::Coinbase, o.commitment(), o.proof())
		};
		let excess = secp.commit_sum(vec![out1.commitment()], vec![secp.commit_value(honest_value).unwrap()]).unwrap();
		let mut kern2 = TxKernel::with_features(KernelFeatures::Coinbase);
		kern2.excess = excess;
		kern2.excess_sig = if junk {
			let mut sb = [0u8; 64];
			p.fill(&mut sb);
			grin_util::secp::Signature::from_raw_data(&sb).unwrap_or(kern.excess_sig)
		} else {
			kern.excess_sig
		};
		if let Ok(b) = Block::from_reward(prev, &txv, out1, kern2, grin_core::pow::Difficulty::from_num(5)) {
			v.push((if junk { "coinbase_kernel_excess_carries_created_value_random_signature" } else { "coinbase_kernel_excess_carries_created_value_foreign_signature" }, b));
		}
	}
	// total kernel offset in the header changed
	{
		let mut b = valid.clone();
		let one = BlindingFactor::from_slice(&{
			let mut x = [0u8; 32];
			x[31] = 2;
			x
		});
		b.header.total_kernel_offset = if b.header.total_kernel_offset == BlindingFactor::zero() {
			one
		} else {
			let secp = w.kc.secp();
			let s = secp
				.blind_sum(
					vec![b.header.total_kernel_offset.secret_key(secp).unwrap(), one.secret_key(secp).unwrap()],
					vec![],
				)
				.unwrap();
			BlindingFactor::from_secret_key(s)
		};
		v.push(("header_total_offset_changed", b));
	}
	(valid, v)
}

fn tx_part(run: &Run, shard: usize, n: usize, n_shapes: u64, deadline: f64) {
	let w = World::new(run.seed ^ 0xC01);
	let (gen, _) = w.genesis();
	let mut key = 1_000_000u32 + (shard as u32) * 100_000;
	for s in 0..n_shapes {
		if s as usize % n != shard {
			continue;
		}
		if run.elapsed_s() > deadline {
			run.count("shapes_skipped_by_deadline", 1);
			continue;
		}
		let mut p = Prng::new(run.seed.wrapping_mul(0xC01C01).wrapping_add(s));
		let n_kern = 1 + p.usize_below(3);
		let mut parts = vec![];
		let mut shape = vec![];
		// every fifth shape: the whole blinding sum in the kernels, total offset zero
		let all_zero = s % 5 == 1;
		if all_zero {
			run.count("tx_shapes_with_a_zero_total_offset", 1);
		}
		for k in 0..n_kern {
			let n_in = 1 + p.usize_below(if n_kern == 1 { 4 } else { 2 });
			let n_out = 1 + p.usize_below(if n_kern == 1 { 5 } else { 2 });
			let variant = p.below(3);
			let zero_offset = p.chance(1, 4) || all_zero;
			shape.push(format!("{}i{}o{}{}", n_in, n_out, ["P", "H", "N"][variant as usize], if zero_offset { "z" } else { "" }));
			let _ = k;
			parts.push(build_tx(&w, &mut p, &mut key, n_in, n_out, variant, zero_offset));
		}
		let txs: Vec<Transaction> = parts.iter().map(|b| b.tx.clone()).collect();
		let agg = if txs.len() == 1 { txs[0].clone() } else { transaction::aggregate(&txs).expect("aggregate") };
		let refs: Vec<&Built> = parts.iter().collect();
		let shape_s = shape.join("+");
		// valid by construction
		let book = bookkeeping_balanced(&w, &refs, &agg);
		let res = agg.validate(Weighting::AsTransaction);
		run.eval(&format!("tx;{};valid", shape_s), true);
		run.count("tx_valid_checked", 1);
		if !book {
			run.inconclusive(&format!("harness bookkeeping says a constructed tx does not balance (shape {})", shape_s));
			continue;
		}
		if let Err(e) = &res {
			run.violation(
				&format!("C01;tx;valid_rejected;{}", variant_name(&format!("{:?}", e))),
				&format!("transaction valid by construction (shape {}) rejected: {:?}", shape_s, e),
				json!({"shape_index": s, "shape": shape_s}),
			);
			continue;
		}
		if s < 2 {
			run.sample(json!({"kind": "transaction", "shape": shape_s, "inputs": agg.inputs().len(), "outputs": agg.outputs().len(),
				"kernels": agg.kernels().iter().map(|k| format!("{:?}", k.features)).collect::<Vec<_>>(), "fee": agg.fee(), "validate": "Ok"}));
		}
		for (name, bad) in corruptions(&w, &mut p, &mut key, &parts, &agg) {
			let r = bad.validate(Weighting::AsTransaction);
			run.eval(&format!("tx;{};{}", shape_s, name), true);
			run.count(&format!("tx_corruption.{}", name), 1);
			if r.is_ok() {
				run.violation(
					&format!("C01;tx;corruption_accepted;{}", name),
					&format!("transaction with {} (shape {}) passed validate", name, shape_s),
					json!({"shape_index": s, "shape": shape_s, "operator": name}),
				);
			}
		}
		// fee totals at and above 2^40 (a single kernel's fee field holds 40 bits, the sum over kernels does not)
		if s % 3 == 0 {
			fee_boundary_cases(run, &w, &mut p, &mut key, &gen.header, s);
		}
		// block level (every 2nd shape): same transactions inside a block with a coinbase
		if s % 2 == 0 {
			// a parent high enough that every lock height is reached and NRD kernels are allowed (header v5)
			let mut prev = gen.header.clone();
			prev.height = 5000;
			let (valid, bads) = block_cases(&w, &mut p, &mut key, &prev, &refs);
			run.eval(&format!("block;{};valid", shape_s), true);
			run.count("block_valid_checked", 1);
			if let Err(e) = valid.validate(&prev.total_kernel_offset) {
				run.violation(
					&format!("C01;block;valid_rejected;{}", variant_name(&format!("{:?}", e))),
					&format!("block valid by construction rejected by Block::validate: {:?}", e),
					json!({"shape_index": s, "shape": shape_s}),
				);
			}
			for (name, b) in bads {
				let r = b.validate(&prev.total_kernel_offset);
				run.eval(&format!("block;{};{}", shape_s, name), true);
				run.count(&format!("block_corruption.{}", name), 1);
				if r.is_ok() {
					run.violation(
						&format!("C01;block;corruption_accepted;{}", name),
						&format!("block with {} passed Block::validate", name),
						json!({"shape_index": s, "shape": shape_s, "operator": name}),
					);
				}
			}
		}
	}
}

/// Multi-kernel transactions whose fees add up to 2^40 nanogrin or more. `paying`: every kernel declares
/// what its part really pays (valid, must pass); `not_paying`: the kernels declare 2^39 and 2^39 + f (each
/// signed for its declared fee) but the parts pay 0 and f — 2^40 nanogrin appear from nowhere, must be refused,
/// at transaction level and inside a block whose coinbase claims only what was really paid.
fn fee_boundary_cases(run: &Run, w: &World, p: &mut Prng, key: &mut u32, gen_header: &grin_core::core::BlockHeader, s: u64) {
	let half = 1u64 << 39;
	let f = 1_000_000 + p.below(1_000_000);
	let n_kern = 2 + p.usize_below(2);
	let shift = p.below(3);
	let mut mk = |declared: u64, paid: u64, p: &mut Prng| -> Transaction {
		let kin = w.key(*key);
		let kout = w.key(*key + 1);
		*key += 2;
		let value = (1u64 << 41) + p.below(1 << 30);
		let c = w.coin(value, &kin, false);
		w.tx(p, &[c], &[(value - paid, kout)], KernelFeatures::Plain { fee: FeeFields::new(shift, declared).unwrap() }).0
	};
	// declared fees: [2^39, 2^39 + f, (small ...)]
	let mut declared = vec![half, half + f];
	while declared.len() < n_kern {
		declared.push(1_000_000 + p.below(1000));
	}
	let paying: Vec<Transaction> = declared.iter().map(|d| mk(*d, *d, p)).collect();
	let not_paying: Vec<Transaction> = declared.iter().enumerate().map(|(i, d)| mk(*d, if i < 2 { *d - half } else { *d }, p)).collect();
	let total: u64 = declared.iter().sum();
	let mut prev = gen_header.clone();
	prev.height = 5000;
	for (name, txs, must_pass, claimed) in [
		("fees_sum_above_2^40_really_paid", &paying, true, total),
		("fees_sum_above_2^40_declared_but_not_paid", &not_paying, false, total - (1u64 << 40)),
	] {
		let agg = match transaction::aggregate(txs) {
			Ok(a) => a,
			Err(e) => {
				if must_pass {
					run.violation(&format!("C01;tx;valid_rejected;{};aggregate", name), &format!("aggregate failed: {:?}", e), json!({"shape_index": s, "case": name}));
				}
				continue;
			}
		};
		let r = agg.validate(Weighting::AsTransaction);
		run.eval(&format!("tx;fee_boundary;{};k{};shift{}", name, n_kern, shift), true);
		run.count(&format!("tx_fee_boundary.{}", name), 1);
		if must_pass != r.is_ok() {
			run.violation(
				&format!("C01;tx;{};{}", if must_pass { "valid_rejected" } else { "corruption_accepted" }, name),
				&format!(
					"{}-kernel transaction declaring fees {:?} (sum {}, fee() reports {}) which {}: validate = {:?}",
					n_kern,
					declared,
					total,
					agg.fee(),
					if must_pass { "really pays them" } else { "pays 2^40 nanogrin less than declared" },
					r
				),
				json!({"shape_index": s, "case": name, "declared": declared}),
			);
		}
		// the same inside a block whose coinbase claims `claimed` fees
		let kcb = w.key(*key);
		*key += 1;
		let (o, kn) = w.coinbase(&kcb, claimed);
		if let Ok(b) = Block::from_reward(&prev, &[agg], o, kn, grin_core::pow::Difficulty::from_num(1)) {
			let rb = b.validate(&prev.total_kernel_offset);
			run.eval(&format!("block;fee_boundary;{};k{}", name, n_kern), true);
			run.count(&format!("block_fee_boundary.{}", name), 1);
			if must_pass != rb.is_ok() {
				run.violation(
					&format!("C01;block;{};{}", if must_pass { "valid_rejected" } else { "corruption_accepted" }, name),
					&format!("block with a transaction declaring fees {:?} (sum {}) and a coinbase claiming {} in fees: Block::validate = {:?}", declared, total, claimed, rb),
					json!({"shape_index": s, "case": name, "declared": declared, "coinbase_claims": claimed}),
				);
			}
		}
	}
}

/// Chain part: histories with forks/reorgs; after each accepted block compare the
/// stored running sums with sums recomputed from the replayed state, evaluate the
/// full-state equation, and deliver value-creating blocks that must be refused.
/// A history whose cumulative kernel offset is zero (coinbase-only blocks, then a transaction that keeps its whole
/// blinding sum in the kernel): blocks that are right in every respect except that their header commits to a total
/// offset which is not a scalar at all must be refused by the pipeline; the untouched block is then accepted.
/// (`Block::validate` alone derives the block's own offset leniently and cannot see this; acceptance is the node's.)
fn zero_offset_history(run: &Run, sc: &Scratch, shard: usize) {
	let mut h = vcommon::forktree::Hist::new(run.seed ^ 0x0FF5_E7 ^ ((shard as u64) << 32), false);
	let dir = sc.sub(&format!("zero_offset{}", shard));
	let chain = open_chain(&dir, &h.genesis).expect("open");
	let opts: Options = h.opts();
	let mut tip = h.genesis.hash();
	for height in 1..=6u64 {
		let mut txs = vec![];
		if height >= 5 {
			if let Some(c) = h.spendable(&tip).first().cloned() {
				let ko = h.fresh_key();
				let fee = 1_000_000;
				let w = h.world.clone();
				let mut pf = h.prng.fork(11);
				txs.push(w.tx_opts(&mut pf, &[c.clone()], &[(c.value - fee, ko)], KernelFeatures::Plain { fee: fee_fields(fee) }, true).0);
			}
		}
		let gb = vcommon::scenarios::mk_block_txs(&mut h, &tip, &txs, 10, "honest");
		if gb.verdict.is_err() || gb.block.header.total_kernel_offset != BlindingFactor::zero() {
			run.inconclusive("zero-offset history: the harness could not build a valid block with a zero cumulative offset");
			return;
		}
		if height >= 3 {
			for (name, bytes) in [("all_ff", [0xffu8; 32]), ("group_order", GROUP_ORDER)] {
				let mut b = gb.block.clone();
				b.header.total_kernel_offset = BlindingFactor::from_slice(&bytes);
				let r = chain.process_block(b, opts);
				run.eval(&format!("chain;header_total_offset_not_a_scalar;{};txs={}", name, txs.len()), true);
				run.count("chain_header_total_offset_not_a_scalar.delivered", 1);
				if !txs.is_empty() {
					run.count("chain_header_total_offset_not_a_scalar.delivered_with_a_transaction", 1);
				}
				if let Ok(t) = r {
					run.violation(
						&format!("C01;chain;forged_block_accepted;header_total_offset_{}", name),
						&format!("block at height {} whose header commits to the total kernel offset {} (not a scalar) was accepted: {:?}", height, name, t.map(|t| t.height)),
						json!({"case": "zero_offset_history", "height": height, "offset": name}),
					);
					return;
				}
			}
		}
		match chain.process_block(gb.block.clone(), opts) {
			Ok(Some(_)) => run.count("chain_header_total_offset_not_a_scalar.untouched_block_accepted_afterwards", 1),
			other => {
				run.inconclusive(&format!("zero-offset history: honest block at height {} not accepted as head: {:?}", height, other.map(|t| t.map(|t| t.height)).map_err(|e| format!("{:?}", e))));
				return;
			}
		}
		tip = gb.hash;
	}
}

fn chain_part(run: &Run, shard: usize, n: usize, n_hist: u64, deadline: f64) {
	let sc = Scratch::new("c01");
	zero_offset_history(run, &sc, shard);
	for i in 0..n_hist {
		if i as usize % n != shard {
			continue;
		}
		if run.elapsed_s() > deadline {
			run.count("histories_skipped_by_deadline", 1);
			continue;
		}
		let mut p = Prng::new(run.seed.wrapping_mul(0x1C01).wrapping_add(i));
		let mut cfg = TreeCfg::small();
		cfg.n_invalid = 0;
		cfg.trunk = 4 + p.usize_below(3);
		cfg.branches = 1 + p.usize_below(2);
		cfg.max_depth = 2 + p.usize_below(4);
		cfg.tx_per_mille = 800;
		let mut h = gen_history(p.next_u64(), &cfg);
		let sig = shape_sig(&h);
		let dir = sc.sub(&format!("h{}", i));
		let chain = open_chain(&dir, &h.genesis).expect("open");
		let opts: Options = h.opts();
		let secp_owner = h.world.clone();
		let secp = secp_owner.kc.secp();
		let replay = json!({"history_index": i, "shape": sig});
		let mut delivered: HashSet<Hash> = HashSet::new();
		delivered.insert(h.genesis.hash());
		let mut remaining: Vec<usize> = (0..h.blocks.len()).collect();
		let mut forged = 0u64;
		while !remaining.is_empty() {
			let ready: Vec<usize> = remaining.iter().cloned().filter(|&k| delivered.contains(&h.blocks[k].parent)).collect();
			let pick = *p.pick(&ready);
			remaining.retain(|&x| x != pick);
			let gb = h.blocks[pick].clone();
			delivered.insert(gb.hash);
			// value-creating block on the current head first (must be refused)
			if p.chance(1, 2) {
				let head = chain.head().unwrap().last_block_h;
				let world = h.world.clone();
				let k = h.fresh_key();
				let kind = p.below(5);
				let name = ["chain_coinbase_overclaim", "chain_unbalanced_tx", "chain_coinbase_overclaim_with_burn", "chain_range_proofs_swapped", "chain_kernel_signatures_swapped"][kind as usize];
				let prevh = h.ledger.header(&head).clone();
				let mut pf = h.prng.fork(3);
				let blk: Option<Block> = match kind {
					0 => {
						let (o, kn) = world.coinbase(&k, 777);
						Block::from_reward(&prevh, &[], o, kn, grin_core::pow::Difficulty::from_num(1 + p.below(500))).ok()
					}
					1 => h.spendable(&head).first().cloned().and_then(|c| {
						let ko = h.fresh_key();
						let fee = 1_000_000;
						let (tx, _) = world.tx(&mut pf, &[c.clone()], &[(c.value - fee + 5, ko)], KernelFeatures::Plain { fee: fee_fields(fee) });
						let (o, kn) = world.coinbase(&k, fee);
						Block::from_reward(&prevh, &[tx], o, kn, grin_core::pow::Difficulty::from_num(1 + p.below(500))).ok()
					}),
					3 | 4 => h.spendable(&head).first().cloned().and_then(|c| {
						// a balanced block whose outputs carry each other's range proofs / whose kernels carry each
						// other's signatures: sums, coinbase, roots all right, only proof / signature verification can refuse it
						let ko = h.fresh_key();
						let fee = 1_000_000;
						let (tx, _) = world.tx(&mut pf, &[c.clone()], &[(c.value - fee, ko)], KernelFeatures::Plain { fee: fee_fields(fee) });
						let (o, kn) = world.coinbase(&k, fee);
						Block::from_reward(&prevh, &[tx], o, kn, grin_core::pow::Difficulty::from_num(1 + p.below(500))).ok().and_then(|mut b| {
							if kind == 3 && b.body.outputs.len() >= 2 {
								let x = b.body.outputs[0].proof;
								b.body.outputs[0].proof = b.body.outputs[1].proof;
								b.body.outputs[1].proof = x;
								Some(b)
							} else if kind == 4 && b.body.kernels.len() >= 2 {
								let x = b.body.kernels[0].excess_sig;
								b.body.kernels[0].excess_sig = b.body.kernels[1].excess_sig;
								b.body.kernels[1].excess_sig = x;
								Some(b)
							} else {
								None
							}
						})
					}),
					_ => h.spendable(&head).first().cloned().and_then(|c| {
						let ko = h.fresh_key();
						let fee = 1_000_000;
						let x = 4242;
						let (tx, _) = world.tx(&mut pf, &[c.clone()], &[(c.value - fee - x, ko)], KernelFeatures::Plain { fee: fee_fields(fee) });
						let (o, kn) = world.coinbase(&k, fee + x);
						Block::from_reward(&prevh, &[tx], o, kn, grin_core::pow::Difficulty::from_num(1 + p.below(500))).ok()
					}),
				};
				if let Some(mut b) = blk {
					b.header.timestamp = prevh.timestamp + chrono::Duration::seconds(45);
					b.header.pow.proof.edge_bits = grin_core::global::min_edge_bits();
					h.ledger.commit_header(&mut b);
					vcommon::world::skip_pow_proof(&mut b.header, &mut pf);
					// as received from a peer, as received while syncing, as handed over by the node's own miner
					let (otag, o) = [("", opts), ("+SYNC", opts | Options::SYNC), ("+MINE", opts | Options::MINE)][p.usize_below(3)];
					let r = chain.process_block(b.clone(), o);
					forged += 1;
					run.count(&format!("chain_forged_refused.{}", name), 1);
					run.count(&format!("chain_forged_delivered.options{}", if otag.is_empty() { "_plain" } else { otag }), 1);
					run.eval(&format!("chain;{};{}{}", sig, name, otag), true);
					if r.is_ok() {
						run.violation(
							&format!("C01;chain;value_creating_block_accepted;{}{}", name, otag),
							&format!("block {} ({}) accepted by process_block with options {:?}", b.hash(), name, o),
							replay.clone(),
						);
						break;
					}
				}
			}
			let r = chain.process_block(gb.block.clone(), opts);
			if let Err(e) = &r {
				run.violation(
					"C01;chain;valid_block_rejected",
					&format!("honest block {} rejected: {:?}", gb.hash, e),
					replay.clone(),
				);
				break;
			}
			run.count("chain_blocks_accepted", 1);
			// stored running sums of the head vs sums recomputed from the replayed state
			let head = chain.head().unwrap();
			let st = h.state(&head.last_block_h);
			let utxo_commits: Vec<Commitment> = st.utxo.keys().cloned().collect();
			let supply = consensus::REWARD * (st.height + 1);
			let utxo_sum = secp.commit_sum(utxo_commits.clone(), vec![secp.commit_value(supply).unwrap()]).unwrap();
			let kernels = h.ledger.kernels_of(&head.last_block_h);
			let kernel_sum = secp.commit_sum(kernels.iter().map(|k| k.excess).collect(), vec![]).unwrap();
			match chain.get_block_sums(&head.last_block_h) {
				Ok(s) => {
					if s.utxo_sum != utxo_sum || s.kernel_sum != kernel_sum {
						run.violation(
							&format!("C01;chain;stored_sums_differ;utxo={};kernel={}", s.utxo_sum == utxo_sum, s.kernel_sum == kernel_sum),
							&format!("stored block sums of head {} differ from sums recomputed from the replayed full state", head.last_block_h),
							replay.clone(),
						);
						break;
					}
				}
				Err(e) => {
					run.violation("C01;chain;stored_sums_missing", &format!("get_block_sums(head) failed: {:?}", e), replay.clone());
					break;
				}
			}
			// full-state equation: utxo_sum == kernel_sum + total_offset*G
			let hdr = chain.head_header().unwrap();
			let mut rhs = vec![kernel_sum];
			if hdr.total_kernel_offset != BlindingFactor::zero() {
				rhs.push(secp.commit(0, hdr.total_kernel_offset.secret_key(secp).unwrap()).unwrap());
			}
			let rhs = secp.commit_sum(rhs, vec![]).unwrap();
			run.count("chain_full_state_equations_checked", 1);
			if utxo_sum != rhs {
				run.violation(
					"C01;chain;full_state_equation_broken",
					&format!("at head {} (h {}): unspent - supply != kernels + offset", head.last_block_h, head.height),
					replay.clone(),
				);
				break;
			}
			run.eval(&format!("chain;{};accepted", sig), true);
		}
		if let Err(e) = chain.validate(false) {
			run.violation("C01;chain;final_validate", &format!("validate(false): {:?}", e), replay.clone());
		} else {
			run.count("chain_full_validations", 1);
			// only on a node that is where the reference says it is (a violation above may have left it elsewhere)
			let head_known = chain.head().map(|t| h.ledger.blocks.contains_key(&t.last_block_h)).unwrap_or(false);
			if run.n_violations() == 0 && head_known {
				forged_state_step(run, &chain, &mut h, &mut p, i, &sig, &replay, opts);
			}
		}
		if i < 1 {
			run.sample(json!({"kind": "history", "shape": sig, "blocks": h.blocks.len(), "value_creating_blocks_refused": forged}));
		}
		drop(chain);
		let _ = std::fs::remove_dir_all(&dir);
	}
}

/// Whole-state acceptance. A node also "accepts a history" wholesale: after a state sync, and whenever it
/// validates its own state in full (`Chain::validate(false)`: the same `Extension::validate` call that
/// `txhashset_write` and the desegmenter make). A block that creates value is written into the node's state
/// behind the block pipeline (the way a received state arrives: txhashset extension + block + body head);
/// every header commitment of that block is correct (computed by the reference ledger), so only the
/// balance / signature / range-proof rules can refuse it — and full validation must.
///   unsigned_kernel_hiding_value: an output is inflated by delta and delta*H is added to the kernel excess:
///       all sums balance, but nobody can sign for that excess (the old signature stays);
///   foreign_range_proof: an output inflated by delta carries... no: an honest transaction whose two
///       outputs have their range proofs swapped (sums balance, signatures fine);
///   inflated_output: an output inflated by delta, nothing else (full-state sums do not balance).
/// The forged block holds 1 or 2 transactions, chosen so that the kernel MMR ends with an even / odd
/// number of kernels in turn (signature and proof verification work in batches over the MMR).
fn forged_state_step(
	run: &Run,
	chain: &grin_chain::Chain,
	h: &mut vcommon::forktree::Hist,
	p: &mut Prng,
	i: u64,
	sig: &str,
	replay: &serde_json::Value,
	opts: Options,
) {
	use grin_chain::txhashset;
	let kind = (i % 3) as usize;
	let name = ["unsigned_kernel_hiding_value", "range_proofs_swapped_between_outputs", "inflated_output"][kind];
	let want_even = (i / 3) % 2 == 0;
	let head = match chain.head() {
		Ok(t) => t.last_block_h,
		Err(_) => return,
	};
	let world = h.world.clone();
	let secp = world.kc.secp();
	let prevh = h.ledger.header(&head).clone();
	let k_before = h.ledger.kernels_of(&head).len();
	let coins: Vec<vcommon::world::Coin> = h.spendable(&head).into_iter().filter(|c| c.value > 10_000_000).collect();
	if coins.is_empty() {
		run.count("state_forged.skipped_no_spendable_coin", 1);
		return;
	}
	// kernels after the forged block: k_before + 1 (coinbase) + m
	let mut m = if (k_before + 1 + 1) % 2 == 0 { if want_even { 1 } else { 2 } } else if want_even { 2 } else { 1 };
	if coins.len() < m {
		m = 1;
	}
	let mut pf = h.prng.fork(77);
	let fee = 1_000_000u64;
	let delta = 1 + p.below(1_000_000_000);
	let mut txs = vec![];
	for (j, c) in coins.iter().take(m).enumerate() {
		let forged = j == 0;
		let (ka, kb) = (h.fresh_key(), h.fresh_key());
		let total = c.value - fee;
		let a = total / 2;
		let b = total - a;
		if !forged {
			let (tx, _) = world.tx(&mut pf, &[c.clone()], &[(a, ka), (b, kb)], KernelFeatures::Plain { fee: fee_fields(fee) });
			txs.push(tx);
			continue;
		}
		let mut tx = match kind {
			0 | 2 => world.tx(&mut pf, &[c.clone()], &[(a + delta, ka), (b, kb)], KernelFeatures::Plain { fee: fee_fields(fee) }).0,
			_ => world.tx(&mut pf, &[c.clone()], &[(a, ka), (b, kb)], KernelFeatures::Plain { fee: fee_fields(fee) }).0,
		};
		match kind {
			0 => {
				let dc = secp.commit_value(delta).unwrap();
				let forged_excess = secp.commit_sum(vec![tx.body.kernels[0].excess, dc], vec![]).unwrap();
				tx.body.kernels[0].excess = forged_excess;
			}
			1 => {
				let p0 = tx.body.outputs[0].proof;
				tx.body.outputs[0].proof = tx.body.outputs[1].proof;
				tx.body.outputs[1].proof = p0;
			}
			_ => {}
		}
		txs.push(tx);
	}
	let kcb = h.fresh_key();
	let (o, kn) = world.coinbase(&kcb, fee * m as u64);
	let mut b = match Block::from_reward(&prevh, &txs, o, kn, grin_core::pow::Difficulty::from_num(1 + p.below(500))) {
		Ok(b) => b,
		Err(e) => {
			run.inconclusive(&format!("forged state: block could not be assembled: {:?}", e));
			return;
		}
	};
	b.header.timestamp = prevh.timestamp + chrono::Duration::seconds(45);
	b.header.pow.proof.edge_bits = grin_core::global::min_edge_bits();
	h.ledger.commit_header(&mut b);
	vcommon::world::skip_pow_proof(&mut b.header, &mut pf);
	// the pipeline refuses it
	if chain.process_block(b.clone(), opts).is_ok() {
		run.violation(
			&format!("C01;chain;value_creating_block_accepted;{}", name),
			&format!("block {} ({}) accepted by process_block", b.hash(), name),
			replay.clone(),
		);
		return;
	}
	// the header on its own is acceptable; install the body behind the pipeline
	if let Err(e) = chain.process_block_header(&b.header, opts) {
		run.inconclusive(&format!("forged state: the forged block's header was refused ({:?}); the forged state cannot be installed", e));
		return;
	}
	let installed: Result<(), String> = (|| {
		let store = chain.store();
		let header_pmmr = chain.header_pmmr();
		let txhashset = chain.txhashset();
		let mut header_pmmr = header_pmmr.write();
		let mut txhashset = txhashset.write();
		let mut batch = store.batch().map_err(|e| format!("{:?}", e))?;
		txhashset::extending(&mut header_pmmr, &mut txhashset, &mut batch, |ext, batch| {
			ext.extension.apply_block(&b, ext.header_extension, batch)
		})
		.map_err(|e| format!("apply_block: {:?}", e))?;
		batch.save_block(&b).map_err(|e| format!("{:?}", e))?;
		batch
			.save_body_head(&grin_chain::Tip::from_header(&b.header))
			.map_err(|e| format!("{:?}", e))?;
		batch.commit().map_err(|e| format!("{:?}", e))?;
		Ok(())
	})();
	if let Err(e) = installed {
		run.inconclusive(&format!("forged state ({}) could not be installed: {}", name, e));
		return;
	}
	let n_kernels = k_before + b.kernels().len();
	let parity = if n_kernels % 2 == 0 { "even" } else { "odd" };
	let r = chain.validate(false);
	run.count(&format!("state_forged.{}.kernels_{}", name, parity), 1);
	run.count("state_forged.full_validations", 1);
	run.eval(&format!("state;{};{};{}", sig, name, parity), true);
	if r.is_ok() {
		run.violation(
			&format!("C01;state;forged_state_passes_full_validation;{}", name),
			&format!(
				"a state whose head block {} creates value ({}; {} kernels in the kernel MMR, {} in the forged block) passes Chain::validate(false)",
				b.hash(),
				name,
				n_kernels,
				b.kernels().len()
			),
			replay.clone(),
		);
	}
}

/// Write `b` into the node's state behind the block pipeline, the way a received state arrives: header, txhashset
/// extension, block, the running sums the pipeline would have stored, body head.
fn install_behind_pipeline(chain: &grin_chain::Chain, b: &Block, opts: Options) -> Result<(), String> {
	use grin_chain::txhashset;
	use grin_core::core::committed::Committed;
	chain.process_block_header(&b.header, opts).map_err(|e| format!("header: {:?}", e))?;
	let store = chain.store();
	let header_pmmr = chain.header_pmmr();
	let txhashset = chain.txhashset();
	let mut header_pmmr = header_pmmr.write();
	let mut txhashset = txhashset.write();
	let mut batch = store.batch().map_err(|e| format!("{:?}", e))?;
	let prev_sums = batch.get_block_sums(&b.header.prev_hash).map_err(|e| format!("{:?}", e))?;
	let (utxo_sum, kernel_sum) = (prev_sums, b as &dyn Committed)
		.verify_kernel_sums(b.header.overage(), b.header.total_kernel_offset())
		.map_err(|e| format!("sums: {:?}", e))?;
	txhashset::extending(&mut header_pmmr, &mut txhashset, &mut batch, |ext, batch| {
		ext.extension.apply_block(b, ext.header_extension, batch)
	})
	.map_err(|e| format!("apply_block: {:?}", e))?;
	batch.save_block(b).map_err(|e| format!("{:?}", e))?;
	batch
		.save_block_sums(&b.hash(), grin_core::core::block_sums::BlockSums { utxo_sum, kernel_sum })
		.map_err(|e| format!("{:?}", e))?;
	batch.save_body_head(&grin_chain::Tip::from_header(&b.header)).map_err(|e| format!("{:?}", e))?;
	batch.commit().map_err(|e| format!("{:?}", e))?;
	Ok(())
}

/// A transaction without inputs and outputs: `n` zero-fee kernels with random excess keys, each honestly signed,
/// compensated by the kernel offset (offset = -(k1 + .. + kn)), so it balances. Kernels are cheap; this is how a
/// state gets more kernels than one signature batch (5000) holds.
fn kernels_only_tx(w: &World, p: &mut Prng, n: usize) -> Transaction {
	use grin_core::libtx::aggsig;
	use grin_util::secp::key::SecretKey;
	let secp = w.kc.secp();
	let mut tx = Transaction::empty();
	let mut keys = vec![];
	let mut kernels = vec![];
	for _ in 0..n {
		let sk = loop {
			let mut b = [0u8; 32];
			p.fill(&mut b);
			if let Ok(k) = SecretKey::from_slice(secp, &b) {
				break k;
			}
		};
		let mut kernel = TxKernel::with_features(KernelFeatures::Plain { fee: FeeFields::zero() });
		let msg = kernel.msg_to_sign().expect("msg");
		kernel.excess = secp.commit(0, sk.clone()).expect("excess");
		let pubkey = kernel.excess.to_pubkey(secp).expect("pubkey");
		let bf = BlindingFactor::from_secret_key(sk.clone());
		kernel.excess_sig = aggsig::sign_with_blinding(secp, &msg, &bf, Some(&pubkey)).expect("sign");
		keys.push(sk);
		kernels.push(kernel);
	}
	kernels.sort_unstable();
	tx.body.kernels = kernels;
	let neg = secp.blind_sum(vec![], keys).expect("offset");
	tx.offset = BlindingFactor::from_secret_key(neg);
	tx
}

/// Kernel signatures of a whole state are verified in batches of 5000: a chain with more than 5000 kernels (68
/// blocks carrying 75 kernel-only entries each) in which one block holds an unsigned kernel whose excess hides
/// created value — once early (inside the first full batch), once as the head (in the tail after a full batch).
/// Installed behind the pipeline as in `deep_state_phase`; `Chain::validate(false)` must refuse both states.
fn kernel_scale_phase(run: &Run) {
	init_thread(true);
	let t0 = std::time::Instant::now();
	let sc = Scratch::new("c01kern");
	let n_blocks = 68u64;
	for (name, forged_at) in [("unsigned_kernel_inside_the_first_full_signature_batch", 4u64), ("unsigned_kernel_in_the_tail_after_a_full_signature_batch", n_blocks)] {
		let mut h = vcommon::forktree::Hist::new(run.seed ^ 0xCE41 ^ forged_at, false);
		let opts: Options = h.opts();
		let dir = sc.sub(name);
		let chain = match open_chain(&dir, &h.genesis) {
			Ok(c) => c,
			Err(e) => {
				run.inconclusive(&format!("kernel scale: {}", e));
				return;
			}
		};
		let replay = json!({"phase": "kernel_scale", "case": name, "blocks": n_blocks, "forged_block_height": forged_at, "kernel_only_entries_per_block": 75});
		let world = h.world.clone();
		let mut p = Prng::new(run.seed ^ 0xCE42);
		let mut tip = h.genesis.hash();
		let mut ok = true;
		for i in 1..=n_blocks {
			let forged = i == forged_at;
			let mut txs = vec![];
			if forged {
				let c = match h.spendable(&tip).into_iter().find(|c| c.value > 10_000_000) {
					Some(c) => c,
					None => {
						run.inconclusive("kernel scale: no spendable coin for the forged block");
						ok = false;
						break;
					}
				};
				let fee = 1_000_000u64;
				let delta = 1 + p.below(1_000_000_000);
				let (ka, kb) = (h.fresh_key(), h.fresh_key());
				let total = c.value - fee;
				let mut pf = h.prng.fork(78);
				let mut tx = world.tx(&mut pf, &[c.clone()], &[(total / 2 + delta, ka), (total - total / 2, kb)], KernelFeatures::Plain { fee: fee_fields(fee) }).0;
				let secp = world.kc.secp();
				let dc = secp.commit_value(delta).unwrap();
				tx.body.kernels[0].excess = secp.commit_sum(vec![tx.body.kernels[0].excess, dc], vec![]).unwrap();
				txs.push(tx);
			} else {
				txs.push(kernels_only_tx(&world, &mut p, 75));
			}
			let gb = h.add_block(&tip, &txs, if forged { "forged_unsigned_kernel" } else { "honest" }, vec![]);
			tip = gb.hash;
			let r = chain.process_block(gb.block.clone(), opts);
			if forged {
				if r.is_ok() {
					run.violation(
						"C01;chain;value_creating_block_accepted;kernel_scale_unsigned_kernel",
						&format!("block {} at height {} with an unsigned kernel hiding created value accepted by process_block", gb.hash, i),
						replay.clone(),
					);
					ok = false;
					break;
				}
				if let Err(e) = install_behind_pipeline(&chain, &gb.block, opts) {
					run.inconclusive(&format!("kernel scale: forged block could not be installed: {}", e));
					ok = false;
					break;
				}
			} else if let Err(e) = r {
				run.inconclusive(&format!("kernel scale ({}): honest block at height {} ({} kernels) refused: {:?}", name, i, gb.block.kernels().len(), e));
				ok = false;
				break;
			}
		}
		if !ok {
			continue;
		}
		let n_kernels = h.ledger.kernels_of(&tip).len() as u64;
		run.count(&format!("kernel_scale.{}.kernels", name), n_kernels);
		let r = chain.validate(false);
		run.eval(&format!("kernel_scale;{}", name), true);
		run.count(&format!("kernel_scale.{}.full_validations", name), 1);
		if r.is_ok() {
			run.violation(
				&format!("C01;state;forged_state_passes_full_validation;{}", name),
				&format!("a state with {} kernels whose block at height {} holds an unsigned kernel hiding created value passes Chain::validate(false)", n_kernels, forged_at),
				replay.clone(),
			);
		}
		drop(chain);
		let _ = std::fs::remove_dir_all(&dir);
	}
	run.count("kernel_scale.seconds", t0.elapsed().as_secs());
}

/// Whole-state validation at scale: a chain with more than 1000 unspent outputs (range proofs are verified in
/// batches of 1000 over the unspent outputs, kernels in batches of 5000) in which ONE early block carries two swapped
/// range proofs. The forged block is installed behind the pipeline, every later block (built on it) goes through the
/// pipeline — which judges each block on its own — and the node ends in a state whose first full proof batch holds
/// two invalid proofs while the tail batch is clean. `Chain::validate(false)` must refuse it; the same chain without
/// the swap must pass (control for the harness).
fn deep_state_phase(run: &Run) {
	use vcommon::scenarios::build_multi_chunk_trunk_ex;
	init_thread(true);
	let t0 = std::time::Instant::now();
	let sc = Scratch::new("c01deep");
	let forged_at = 6u64;
	for (name, swap) in [("swapped_range_proofs_in_the_first_full_batch", Some(forged_at)), ("honest_control", None)] {
		let mut h = build_multi_chunk_trunk_ex(run.seed ^ 0xDEE1, 122, 9, swap);
		let opts: Options = h.opts();
		let dir = sc.sub(name);
		let chain = match open_chain(&dir, &h.genesis) {
			Ok(c) => c,
			Err(e) => {
				run.inconclusive(&format!("deep state: {}", e));
				return;
			}
		};
		let replay = json!({"phase": "deep_state", "case": name, "blocks": h.blocks.len(), "forged_block_height": swap});
		let blocks: Vec<Block> = h.blocks.iter().map(|b| b.block.clone()).collect();
		let mut ok = true;
		for b in &blocks {
			let forged = swap == Some(b.header.height);
			let r = chain.process_block(b.clone(), opts);
			if forged {
				if r.is_ok() {
					run.violation(
						"C01;chain;value_creating_block_accepted;deep_state_swapped_range_proofs",
						&format!("block {} at height {} with two swapped range proofs accepted by process_block", b.hash(), b.header.height),
						replay.clone(),
					);
					ok = false;
					break;
				}
				let installed = install_behind_pipeline(&chain, b, opts);
				if let Err(e) = installed {
					run.inconclusive(&format!("deep state: forged block could not be installed: {}", e));
					ok = false;
					break;
				}
			} else if let Err(e) = r {
				run.inconclusive(&format!("deep state ({}): block at height {} refused: {:?}", name, b.header.height, e));
				ok = false;
				break;
			}
		}
		if !ok {
			continue;
		}
		let tip = blocks.last().unwrap().hash();
		let unspent = h.state(&tip).utxo.len() as u64;
		run.count(&format!("deep_state.{}.unspent_outputs", name), unspent);
		let r = chain.validate(false);
		run.eval(&format!("deep_state;{}", name), true);
		run.count(&format!("deep_state.{}.full_validations", name), 1);
		match (swap.is_some(), r) {
			(true, Ok(())) => run.violation(
				"C01;state;forged_state_passes_full_validation;swapped_range_proofs_in_the_first_full_batch",
				&format!("a state with {} unspent outputs in which the block at height {} carries two swapped range proofs passes Chain::validate(false)", unspent, forged_at),
				replay.clone(),
			),
			(false, Err(e)) => run.inconclusive(&format!("deep state: the honest control chain fails full validation: {:?}", e)),
			_ => {}
		}
		drop(chain);
		let _ = std::fs::remove_dir_all(&dir);
	}
	run.count("deep_state.seconds", t0.elapsed().as_secs());
}

fn main() {
	let run = Run::from_env("C01", "exploration");
	init_globals(true);
	let n_shapes: u64 = run.tier.pick(170, 1600);
	let n_hist: u64 = run.tier.pick(24, 200);
	if let Some((shard, n)) = run.worker_shard() {
		init_thread(true);
		let deadline = run.tier.pick(240.0, 900.0);
		chain_part(&run, shard, n, n_hist, deadline * 0.5);
		tx_part(&run, shard, n, n_shapes, deadline);
		run.finish_worker();
	}
	run.set_rule(
		"transactions: 1-3 kernels (aggregated single-kernel parts of 1-4 inputs / 1-5 outputs, kernel variants Plain / HeightLocked / \
		 NRD, fee shifts, zero and non-zero offsets) assembled from openings known to the harness and re-checked by plain bookkeeping \
		 (value sums as integers, blinding sums on the curve); each is then put through every corruption operator (output amount ±δ \
		 re-proved, fee field, offset, dropped / duplicated / foreign kernel, swapped range proofs, swapped signatures, replaced input, \
		 coinbase flag on an output / kernel) — valid must pass Transaction::validate, every corruption must fail. Blocks: the same \
		 transactions + coinbase through Block::validate, corruptions: coinbase over-claim, over-claim with a compensating burn so \
		 the whole-block sum still balances, coinbase flag removed from output / kernel, second subsidy, plain output flagged \
		 coinbase, header total offset changed, coinbase output carrying another output's range proof, reward split over two coinbase outputs one of which commits to a negative value under a junk proof (sums and verify_coinbase balance). Chain: fork-tree histories; before half of the deliveries a value-creating block \
		 with reference-computed header commitments must be refused by process_block; after every accepted block the stored \
		 running sums of the head == sums recomputed from the replayed full state and unspent − supply(height) == kernels + offset; at the end of every history a value-creating block (unsigned kernel \
		 whose excess hides the created value / swapped range proofs / inflated output; all header commitments correct) is installed \
		 behind the pipeline as the node's head, for even and odd kernel counts, and Chain::validate(false) must refuse the state. \
		 Every case counts as non-trivial; distinct by (shape, operator).",
	);
	run.assume("secp256k1-zkp (range proofs, signatures, point addition) is the trusted base; a forged proof that verifies is out of reach");
	std::thread::scope(|s| {
		let deep = s.spawn(|| {
			if let Err(p) = vcommon::monitor::catch(|| deep_state_phase(&run)) {
				run.inconclusive(&format!("deep state phase panicked: {} @ {}", p.message, p.location));
			}
			if let Err(p) = vcommon::monitor::catch(|| kernel_scale_phase(&run)) {
				run.inconclusive(&format!("kernel scale phase panicked: {} @ {}", p.message, p.location));
			}
		});
		run.spawn_workers(16, &[], run.tier.pick(400, 2400));
		let _ = deep.join();
	});
	run.require(
		"deep state (more than 1000 unspent outputs, swapped range proofs in the first full batch): full validations",
		run.counter("deep_state.swapped_range_proofs_in_the_first_full_batch.full_validations"),
		1,
	);
	for k in ["unsigned_kernel_inside_the_first_full_signature_batch", "unsigned_kernel_in_the_tail_after_a_full_signature_batch"] {
		run.require(&format!("kernel scale: {}: kernels (signature batches hold 5000)", k), run.counter(&format!("kernel_scale.{}.kernels", k)), 5001);
		run.require(&format!("kernel scale: {}: full validations", k), run.counter(&format!("kernel_scale.{}.full_validations", k)), 1);
	}
	run.require(
		"deep state: unspent outputs (proof batches hold 1000)",
		run.counter("deep_state.swapped_range_proofs_in_the_first_full_batch.unspent_outputs"),
		1001,
	);
	run.require("tx_valid_checked", run.counter("tx_valid_checked"), run.tier.pick(60, 600));
	run.require("transaction shapes whose total offset is zero", run.counter("tx_shapes_with_a_zero_total_offset"), run.tier.pick(12, 120));
	for op in [
		"output_amount_plus", "output_amount_minus", "fee_field_changed", "offset_changed", "kernel_duplicated", "kernel_foreign",
		"input_replaced", "output_flagged_coinbase", "kernel_flagged_coinbase", "offset_all_ff", "offset_group_order", "offset_group_order_plus_one",
	] {
		run.require(&format!("tx_corruption.{}", op), run.counter(&format!("tx_corruption.{}", op)), run.tier.pick(40, 400));
	}
	for op in ["kernel_dropped", "range_proofs_swapped", "signatures_swapped"] {
		run.require(&format!("tx_corruption.{}", op), run.counter(&format!("tx_corruption.{}", op)), run.tier.pick(15, 150));
	}
	for op in [
		"coinbase_overclaim_with_compensating_burn", "coinbase_overclaim", "coinbase_flag_removed_from_output",
		"coinbase_flag_removed_from_kernel", "second_subsidy_claimed", "header_total_offset_changed",
		"coinbase_output_with_foreign_range_proof", "reward_split_with_negative_coinbase_output",
		"coinbase_kernel_excess_carries_created_value_random_signature", "coinbase_kernel_excess_carries_created_value_foreign_signature",
	] {
		run.require(&format!("block_corruption.{}", op), run.counter(&format!("block_corruption.{}", op)), run.tier.pick(20, 200));
	}
	run.require("chain_blocks_accepted", run.counter("chain_blocks_accepted"), run.tier.pick(100, 1000));
	run.require(
		"blocks whose header commits to a total offset that is not a scalar, delivered on a zero-offset history",
		run.counter("chain_header_total_offset_not_a_scalar.delivered"),
		8,
	);
	run.require(
		"... of which with a transaction",
		run.counter("chain_header_total_offset_not_a_scalar.delivered_with_a_transaction"),
		2,
	);
	run.require(
		"... and the untouched block accepted afterwards",
		run.counter("chain_header_total_offset_not_a_scalar.untouched_block_accepted_afterwards"),
		4,
	);
	run.require("chain_full_state_equations_checked", run.counter("chain_full_state_equations_checked"), run.tier.pick(100, 1000));
	for k in ["fees_sum_above_2^40_really_paid", "fees_sum_above_2^40_declared_but_not_paid"] {
		run.require(&format!("tx_fee_boundary.{}", k), run.counter(&format!("tx_fee_boundary.{}", k)), run.tier.pick(20, 200));
		run.require(&format!("block_fee_boundary.{}", k), run.counter(&format!("block_fee_boundary.{}", k)), run.tier.pick(20, 200));
	}
	for k in ["unsigned_kernel_hiding_value", "range_proofs_swapped_between_outputs", "inflated_output"] {
		for par in ["even", "odd"] {
			let c = format!("state_forged.{}.kernels_{}", k, par);
			run.require(&c, run.counter(&c), run.tier.pick(1, 8));
		}
	}
	run.finish();
}
