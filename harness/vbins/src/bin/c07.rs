//! C07 — MMR roots, positions and Merkle proofs follow the MMR definition.
//!
//! Runtime monitoring of the real `grin_core::core::pmmr` code against an
//! independent reference (`RefMMR`: an explicit node table built by the
//! definition) and, for huge arguments, a closed-form u128 reference.
//!
//! Sections:
//!   R  reference self-checks (table vs brute force, u128 closed form vs table)
//!   A  every pure position function, every position of the explicit tree
//!   B  pure position functions on huge arguments (2^k boundaries .. u64::MAX)
//!   C  PMMR / ReadonlyPMMR / RewindablePMMR over VecBackend: size, peaks, root,
//!      rewind; random large MMRs
//!   D  Merkle proofs: honest proofs verify, equal the reference path, every
//!      single-field corruption is rejected
//!   E  PMMR over the file backend of grin_store (n_unpruned_leaves)

use croaring::Bitmap;
use grin_core::core::hash::{DefaultHashable, Hash, ZERO_HASH};
use grin_core::core::merkle_proof::MerkleProof;
use grin_core::core::pmmr::{self, ReadablePMMR, ReadonlyPMMR, RewindablePMMR, VecBackend, PMMR};
use grin_core::ser::{
	self, PMMRIndexHashable, PMMRable, ProtocolVersion, Readable, Reader, Writeable, Writer,
};
use serde_json::{json, Value};
use std::collections::{HashMap, HashSet};
use std::sync::atomic::{AtomicBool, AtomicUsize, Ordering};
use std::time::{Duration, Instant};
use vcommon::monitor::{self, catch};
use vcommon::{Prng, Run, Scratch};

const NTHREADS: usize = 16;
/// section B (huge arguments) runs in this many single-threaded monitored child processes
const B_WORKERS: usize = 12;
/// a single request above this, or 4x this live, while one huge argument is processed is a runaway
const B_ALLOC_CAP: u64 = 64 << 20;
/// one huge argument (a few dozen pure calls, microseconds) may take this long before the hang monitor fires
const B_HANG_MS: u64 = 20_000;

#[global_allocator]
static ALLOC: monitor::TrackingAlloc = monitor::TrackingAlloc;

/// `--trace`: print the name of every function of the code under test before it is called
/// (used when one argument is re-run alone to attribute a runaway allocation or a hang)
static TRACE: AtomicBool = AtomicBool::new(false);

// ---------------------------------------------------------------- element type

#[derive(Copy, Clone, Debug, PartialEq, Eq)]
struct TestElem([u32; 4]);

impl DefaultHashable for TestElem {}

impl PMMRable for TestElem {
	type E = Self;
	fn as_elmt(&self) -> Self::E {
		*self
	}
	fn elmt_size() -> Option<u16> {
		Some(16)
	}
}

impl Writeable for TestElem {
	fn write<W: Writer>(&self, writer: &mut W) -> Result<(), ser::Error> {
		writer.write_u32(self.0[0])?;
		writer.write_u32(self.0[1])?;
		writer.write_u32(self.0[2])?;
		writer.write_u32(self.0[3])
	}
}

impl Readable for TestElem {
	fn read<R: Reader>(reader: &mut R) -> Result<TestElem, ser::Error> {
		Ok(TestElem([
			reader.read_u32()?,
			reader.read_u32()?,
			reader.read_u32()?,
			reader.read_u32()?,
		]))
	}
}

/// Random elements; about 1/8 are duplicates of an earlier element so that
/// "legitimately equal" substitutions occur and positions alone must bind.
fn gen_elems(prng: &mut Prng, n: usize) -> Vec<TestElem> {
	let mut v: Vec<TestElem> = Vec::with_capacity(n);
	for i in 0..n {
		if i > 0 && prng.chance(1, 8) {
			let j = prng.usize_below(i);
			let e = v[j];
			v.push(e);
		} else {
			v.push(TestElem([
				prng.next_u32(),
				prng.next_u32(),
				prng.next_u32(),
				prng.next_u32(),
			]));
		}
	}
	v
}

// ---------------------------------------------------------------- local bookkeeping

struct Local {
	counts: HashMap<&'static str, u64>,
	evals: u64,
	shapes: HashSet<u64>,
}

impl Local {
	fn new() -> Local {
		Local {
			counts: HashMap::new(),
			evals: 0,
			shapes: HashSet::new(),
		}
	}
	#[inline]
	fn c(&mut self, k: &'static str, n: u64) {
		*self.counts.entry(k).or_insert(0) += n;
	}
	#[inline]
	fn case(&mut self, shape: &[u64]) {
		self.evals += 1;
		let mut h: u64 = 0xcbf2_9ce4_8422_2325;
		for w in shape {
			for b in w.to_le_bytes() {
				h ^= b as u64;
				h = h.wrapping_mul(0x0000_0100_0000_01B3);
			}
		}
		self.shapes.insert(h);
	}
	fn flush(self, run: &Run) {
		for (k, v) in &self.counts {
			run.count(k, *v);
		}
		run.eval_bulk(self.evals, self.shapes.into_iter());
	}
}

fn norm_loc(loc: &str) -> String {
	loc.trim_start_matches("/repo/").to_string()
}

/// Run a call of the code under test under the panic monitor. A panic is a
/// violation (the position functions and the MMR operations are total on the
/// domains we feed them).
fn guarded<T>(
	run: &Run,
	l: &mut Local,
	fname: &'static str,
	class: &str,
	replay: &dyn Fn() -> Value,
	f: impl FnOnce() -> T,
) -> Option<T> {
	l.c(fname, 1);
	if TRACE.load(Ordering::Relaxed) {
		eprintln!("CALL {}", fname);
	}
	match catch(f) {
		Ok(v) => Some(v),
		Err(p) => {
			run.violation(
				&format!(
					"fn={};class={};event=panic@{}",
					fname,
					class,
					norm_loc(&p.location)
				),
				&format!("{} panicked: {}", fname, p.message),
				replay(),
			);
			None
		}
	}
}

/// guarded call + comparison with the expected value.
fn check<T: PartialEq + std::fmt::Debug>(
	run: &Run,
	l: &mut Local,
	fname: &'static str,
	class: &str,
	replay: &dyn Fn() -> Value,
	expected: T,
	f: impl FnOnce() -> T,
) -> bool {
	match guarded(run, l, fname, class, replay, f) {
		Some(a) => {
			if a != expected {
				let es = format!("{:?}", expected);
				let gs = format!("{:?}", a);
				run.violation(
					&format!("fn={};class={};event=mismatch", fname, class),
					&format!(
						"{}: reference says {}, code returned {}",
						fname,
						trunc(&es),
						trunc(&gs)
					),
					replay(),
				);
				false
			} else {
				true
			}
		}
		None => false,
	}
}

fn trunc(s: &str) -> String {
	if s.len() > 400 {
		format!("{}…", &s[..400])
	} else {
		s.to_string()
	}
}

// ---------------------------------------------------------------- RefMMR

const NONE: u32 = u32::MAX;

#[derive(Clone)]
struct RNode {
	hash: Hash,
	parent: u32,
	left: u32,
	right: u32,
	leaf_idx: u32,
	height: u8,
}

/// Explicit MMR built by the definition. Append-only, so every prefix (the
/// MMR after n leaves) is a prefix of the node table.
#[derive(Clone)]
struct RefMMR {
	nodes: Vec<RNode>,
	/// current peaks, left to right
	peaks: Vec<u32>,
	/// position of leaf i
	leaf_pos: Vec<u32>,
	/// size_after[n] = number of nodes of the MMR with n leaves
	size_after: Vec<u32>,
	keep_hist: bool,
	/// peaks of the MMR with n leaves: peaks_hist[peaks_off[n]..peaks_off[n+1]]
	peaks_hist: Vec<u32>,
	peaks_off: Vec<u32>,
}

impl RefMMR {
	fn new(keep_hist: bool) -> RefMMR {
		RefMMR {
			nodes: vec![],
			peaks: vec![],
			leaf_pos: vec![],
			size_after: vec![0],
			keep_hist,
			peaks_hist: vec![],
			peaks_off: vec![0, 0],
		}
	}

	fn from_elems<E: PMMRIndexHashable>(elems: &[E], keep_hist: bool) -> RefMMR {
		let mut r = RefMMR::new(keep_hist);
		for e in elems {
			r.push(e);
		}
		r
	}

	fn size(&self) -> u64 {
		self.nodes.len() as u64
	}

	fn n_leaves(&self) -> u64 {
		self.leaf_pos.len() as u64
	}

	/// Definition: leaf at the next postorder position, hash = H(pos, data);
	/// while the two right-most peaks have equal height add their parent at
	/// the next position, hash = H(parent_pos, left_hash, right_hash).
	fn push<E: PMMRIndexHashable>(&mut self, e: &E) -> u64 {
		let pos = self.nodes.len() as u32;
		self.nodes.push(RNode {
			hash: e.hash_with_index(pos as u64),
			parent: NONE,
			left: NONE,
			right: NONE,
			leaf_idx: self.leaf_pos.len() as u32,
			height: 0,
		});
		self.leaf_pos.push(pos);
		self.peaks.push(pos);
		while self.peaks.len() >= 2 {
			let r = self.peaks[self.peaks.len() - 1];
			let lft = self.peaks[self.peaks.len() - 2];
			if self.nodes[r as usize].height != self.nodes[lft as usize].height {
				break;
			}
			self.peaks.pop();
			self.peaks.pop();
			let ppos = self.nodes.len() as u32;
			let hash = (self.nodes[lft as usize].hash, self.nodes[r as usize].hash)
				.hash_with_index(ppos as u64);
			let height = self.nodes[r as usize].height + 1;
			self.nodes[r as usize].parent = ppos;
			self.nodes[lft as usize].parent = ppos;
			self.nodes.push(RNode {
				hash,
				parent: NONE,
				left: lft,
				right: r,
				leaf_idx: NONE,
				height,
			});
			self.peaks.push(ppos);
		}
		self.size_after.push(self.nodes.len() as u32);
		if self.keep_hist {
			self.peaks_hist.extend_from_slice(&self.peaks);
			self.peaks_off.push(self.peaks_hist.len() as u32);
		}
		pos as u64
	}

	/// Peaks bagged right to left, each step hashed with the MMR size.
	fn bag(&self, peaks: &[u32], size: u64) -> Hash {
		let mut acc: Option<Hash> = None;
		for p in peaks.iter().rev() {
			let ph = self.nodes[*p as usize].hash;
			acc = Some(match acc {
				None => ph,
				Some(a) => (ph, a).hash_with_index(size),
			});
		}
		acc.unwrap_or(ZERO_HASH)
	}

	fn root(&self) -> Hash {
		self.bag(&self.peaks, self.size())
	}

	fn leftmost(&self, mut p: u32) -> u32 {
		while self.nodes[p as usize].left != NONE {
			p = self.nodes[p as usize].left;
		}
		p
	}

	fn rightmost(&self, mut p: u32) -> u32 {
		while self.nodes[p as usize].right != NONE {
			p = self.nodes[p as usize].right;
		}
		p
	}

	fn sibling(&self, p: u32) -> Option<u32> {
		let par = self.nodes[p as usize].parent;
		if par == NONE {
			return None;
		}
		let pn = &self.nodes[par as usize];
		Some(if pn.left == p { pn.right } else { pn.left })
	}

	/// Peaks of the prefix MMR of (valid) size `size`: the nodes below `size`
	/// without a parent below `size`. Found by walking right to left over the
	/// maximal subtrees. Returns None if the walk meets a node whose parent is
	/// below `size` (i.e. `size` is not a valid MMR size).
	fn peaks_of_size(&self, size: u64) -> Option<Vec<u32>> {
		let mut out = vec![];
		if size == 0 {
			return Some(out);
		}
		let mut v = (size - 1) as u32;
		loop {
			let par = self.nodes[v as usize].parent;
			if par != NONE && (par as u64) < size {
				return None;
			}
			// a valid MMR never has two right-most peaks of equal height (they
			// would have been merged), so heights strictly grow to the left
			if let Some(prev) = out.last() {
				if self.nodes[v as usize].height <= self.nodes[*prev as usize].height {
					return None;
				}
			}
			out.push(v);
			let lm = self.leftmost(v);
			if lm == 0 {
				break;
			}
			v = lm - 1;
		}
		out.reverse();
		Some(out)
	}

	fn hist_peaks(&self, n_leaves: usize) -> &[u32] {
		assert!(self.keep_hist);
		if n_leaves == 0 {
			return &[];
		}
		&self.peaks_hist[self.peaks_off[n_leaves] as usize..self.peaks_off[n_leaves + 1] as usize]
	}

	/// Root of the MMR after the first n leaves.
	fn root_of_leaves(&self, n: usize) -> Hash {
		let size = self.size_after[n] as u64;
		if self.keep_hist {
			self.bag(self.hist_peaks(n), size)
		} else {
			let p = self.peaks_of_size(size).expect("valid size");
			self.bag(&p, size)
		}
	}

	fn peak_hashes(&self, peaks: &[u32]) -> Vec<Hash> {
		peaks.iter().map(|p| self.nodes[*p as usize].hash).collect()
	}

	/// Explicit postorder enumeration of the subtree under p.
	fn subtree(&self, p: u32, nodes: &mut Vec<u64>, leaves: &mut Vec<u64>) {
		let n = &self.nodes[p as usize];
		if n.left != NONE {
			self.subtree(n.left, nodes, leaves);
			self.subtree(n.right, nodes, leaves);
		} else {
			leaves.push(p as u64);
		}
		nodes.push(p as u64);
	}

	/// Merkle path for the leaf at `pos` in the prefix MMR of `size`, in the
	/// order the verifier consumes it: siblings up to the peak, then the bagged
	/// peaks to the right (if any), then the peaks to the left, nearest first.
	fn proof_path(&self, size: u64, pos: u64) -> Vec<Hash> {
		let mut path = vec![];
		let mut cur = pos as u32;
		loop {
			let par = self.nodes[cur as usize].parent;
			if par == NONE || par as u64 >= size {
				break;
			}
			let sib = self.sibling(cur).unwrap();
			path.push(self.nodes[sib as usize].hash);
			cur = par;
		}
		let peaks = self.peaks_of_size(size).expect("valid size");
		let k = peaks.iter().position(|p| *p == cur).expect("peak");
		if k + 1 < peaks.len() {
			path.push(self.bag(&peaks[k + 1..], size));
		}
		for j in (0..k).rev() {
			path.push(self.nodes[peaks[j] as usize].hash);
		}
		path
	}

	/// Independent recomputation of the root from a leaf and a path (by the
	/// definition, using the table for left/right). Used to self-check
	/// `proof_path`.
	fn root_from_path<E: PMMRIndexHashable>(
		&self,
		size: u64,
		pos: u64,
		elem: &E,
		path: &[Hash],
	) -> Option<Hash> {
		let mut it = path.iter();
		let mut cur = pos as u32;
		let mut h = elem.hash_with_index(pos);
		loop {
			let par = self.nodes[cur as usize].parent;
			if par == NONE || par as u64 >= size {
				break;
			}
			let s = *it.next()?;
			h = if self.nodes[par as usize].left == cur {
				(h, s).hash_with_index(par as u64)
			} else {
				(s, h).hash_with_index(par as u64)
			};
			cur = par;
		}
		let peaks = self.peaks_of_size(size)?;
		let k = peaks.iter().position(|p| *p == cur)?;
		if k + 1 < peaks.len() {
			let s = *it.next()?;
			h = (h, s).hash_with_index(size);
		}
		for _ in 0..k {
			let s = *it.next()?;
			h = (s, h).hash_with_index(size);
		}
		if it.next().is_some() {
			return None;
		}
		Some(h)
	}

	/// Drop everything after the first n leaves (prefix stability).
	fn truncate_to_leaves(&mut self, n: usize) {
		let size = self.size_after[n] as usize;
		self.nodes.truncate(size);
		for nd in self.nodes.iter_mut() {
			if nd.parent != NONE && nd.parent as usize >= size {
				nd.parent = NONE;
			}
		}
		self.leaf_pos.truncate(n);
		self.size_after.truncate(n + 1);
		self.peaks = self.peaks_of_size(size as u64).expect("valid size");
		if self.keep_hist {
			self.peaks_off.truncate(n + 2);
			self.peaks_hist.truncate(self.peaks_off[n + 1] as usize);
		}
	}

	/// least valid size >= p (valid sizes are the sizes after a push, and 0)
	fn valid_size_at_or_after(&self, p: u64) -> Option<(usize, u64)> {
		let i = self.size_after.partition_point(|s| (*s as u64) < p);
		if i < self.size_after.len() {
			Some((i, self.size_after[i] as u64))
		} else {
			None
		}
	}
}

// ---------------------------------------------------------------- closed-form u128 reference

fn r_bits(x: u128) -> u32 {
	128 - x.leading_zeros()
}

/// Height of the node at 0-based postorder position `pos` ("jump to the left
/// sibling until the 1-based index is all ones").
fn r_height(pos: u128) -> u32 {
	let mut p = pos + 1;
	loop {
		let b = r_bits(p);
		if p == (1u128 << b) - 1 {
			return b - 1;
		}
		p -= (1u128 << (b - 1)) - 1;
	}
}

/// Position of leaf i: all nodes of the perfect trees given by the bits of i
/// come before it.
fn r_leaf_pos(i: u128) -> u128 {
	let mut s = 0u128;
	for b in 0..80 {
		if (i >> b) & 1 == 1 {
			s += (1u128 << (b + 1)) - 1;
		}
	}
	s
}

/// Number of leaves at positions < size (binary search on the monotone r_leaf_pos).
fn r_leaves_below(size: u128) -> u128 {
	let mut lo = 0u128; // r_leaf_pos(lo) >= size may be false
	let mut hi = 1u128 << 66; // r_leaf_pos(hi) >= size true
	while lo < hi {
		let mid = (lo + hi) / 2;
		if r_leaf_pos(mid) >= size {
			hi = mid;
		} else {
			lo = mid + 1;
		}
	}
	lo
}

fn r_is_valid_size(size: u128) -> bool {
	r_leaf_pos(r_leaves_below(size)) == size
}

/// (parent, sibling, is_left_child)
fn r_family(pos: u128) -> (u128, u128, bool) {
	let h = r_height(pos);
	if r_height(pos + 1) == h + 1 {
		(pos + 1, pos + 1 - (1u128 << (h + 1)), false)
	} else {
		let parent = pos + (1u128 << (h + 1));
		(parent, parent - 1, true)
	}
}

fn r_family_branch(pos: u128, size: u128) -> Vec<(u128, u128)> {
	let mut out = vec![];
	let mut cur = pos;
	loop {
		let (p, s, _) = r_family(cur);
		if p >= size {
			break;
		}
		out.push((p, s));
		cur = p;
	}
	out
}

/// Walk down h steps: right child immediately precedes, left child precedes
/// by the size of the right subtree + 1.
fn r_rightmost(pos: u128) -> u128 {
	let mut h = r_height(pos);
	let mut p = pos;
	while h > 0 {
		p -= 1;
		h -= 1;
	}
	p
}

fn r_leftmost(pos: u128) -> u128 {
	let mut h = r_height(pos);
	let mut p = pos;
	while h > 0 {
		p -= 1u128 << h;
		h -= 1;
	}
	p
}

/// peak positions and peak subtree sizes of the MMR with n leaves
fn r_peaks(n: u128) -> (Vec<u128>, Vec<u128>) {
	let mut pos = vec![];
	let mut sizes = vec![];
	let mut acc = 0u128;
	for b in (0..80).rev() {
		if (n >> b) & 1 == 1 {
			let sz = (1u128 << (b + 1)) - 1;
			acc += sz;
			pos.push(acc - 1);
			sizes.push(sz);
		}
	}
	(pos, sizes)
}

fn fits(x: u128) -> bool {
	x <= u64::MAX as u128
}

// ---------------------------------------------------------------- threading helper

/// Run `f(thread_index, &mut Local)` on NTHREADS threads and flush the locals.
fn par<F: Fn(usize, &mut Local) + Sync>(run: &Run, f: F) {
	std::thread::scope(|s| {
		let mut hs = vec![];
		for t in 0..NTHREADS {
			let f = &f;
			hs.push(s.spawn(move || {
				let mut l = Local::new();
				f(t, &mut l);
				l
			}));
		}
		for h in hs {
			match h.join() {
				Ok(l) => l.flush(run),
				Err(_) => inconc(run, "harness worker thread panicked"),
			}
		}
	});
}

struct Deadline {
	end: Instant,
	hit: AtomicBool,
}

impl Deadline {
	fn new(secs: f64) -> Deadline {
		Deadline {
			end: Instant::now() + Duration::from_secs_f64(secs),
			hit: AtomicBool::new(false),
		}
	}
	fn over(&self) -> bool {
		if Instant::now() >= self.end {
			self.hit.store(true, Ordering::Relaxed);
			true
		} else {
			false
		}
	}
	fn was_hit(&self) -> bool {
		self.hit.load(Ordering::Relaxed)
	}
}

// ---------------------------------------------------------------- table with derived lookup arrays

struct Table {
	t: RefMMR,
	/// number of leaves at positions < p, for p in 0..=M
	leaves_below: Vec<u32>,
	/// least leaf position >= p (NONE if none in the table)
	next_leaf: Vec<u32>,
	/// valid[s]: s is the size of the MMR after some number of pushes (or 0)
	valid: Vec<bool>,
}

impl Table {
	fn build(n_leaves: usize, prng: &mut Prng) -> Table {
		let elems = gen_elems(prng, n_leaves);
		let t = RefMMR::from_elems(&elems, true);
		let m = t.nodes.len();
		let mut leaves_below = vec![0u32; m + 1];
		for p in 0..m {
			leaves_below[p + 1] =
				leaves_below[p] + if t.nodes[p].left == NONE { 1 } else { 0 };
		}
		let mut next_leaf = vec![NONE; m + 1];
		for p in (0..m).rev() {
			next_leaf[p] = if t.nodes[p].left == NONE {
				p as u32
			} else {
				next_leaf[p + 1]
			};
		}
		let mut valid = vec![false; m + 1];
		for s in &t.size_after {
			valid[*s as usize] = true;
		}
		Table {
			t,
			leaves_below,
			next_leaf,
			valid,
		}
	}
}

// ---------------------------------------------------------------- section R: reference self-checks

fn section_r(run: &Run, tb: &Table) {
	let t = &tb.t;
	let m = t.nodes.len();
	let mut bad = 0u64;
	let mut n_checks = 0u64;
	// brute-force peaks by the definition for small prefixes
	let lim = t.n_leaves().min(512) as usize;
	for n in 0..=lim {
		let size = t.size_after[n] as usize;
		let brute: Vec<u32> = (0..size as u32)
			.filter(|v| {
				let p = t.nodes[*v as usize].parent;
				p == NONE || p as usize >= size
			})
			.collect();
		let walk = t.peaks_of_size(size as u64);
		if walk.as_deref() != Some(&brute[..]) || t.hist_peaks(n) != &brute[..] {
			bad += 1;
		}
		// heights strictly decreasing left to right
		for w in brute.windows(2) {
			if t.nodes[w[0] as usize].height <= t.nodes[w[1] as usize].height {
				bad += 1;
			}
		}
		n_checks += 1;
	}
	// non-valid sizes are recognised by the walk
	for s in 0..=t.size_after[lim] as usize {
		let w = t.peaks_of_size(s as u64);
		if w.is_some() != tb.valid[s] {
			bad += 1;
		}
		n_checks += 1;
	}
	// u128 closed form vs table, all positions
	let badc = std::sync::atomic::AtomicU64::new(0);
	let cnt = std::sync::atomic::AtomicU64::new(0);
	par(run, |ti, _l| {
		let mut b = 0u64;
		let mut c = 0u64;
		let mut p = ti;
		while p < m {
			let nd = &t.nodes[p];
			let pp = p as u128;
			if r_height(pp) != nd.height as u32 {
				b += 1;
			}
			if r_leaves_below(pp) != tb.leaves_below[p] as u128 {
				b += 1;
			}
			if r_is_valid_size(pp) != tb.valid[p] {
				b += 1;
			}
			if nd.parent != NONE {
				let (par_, sib, isl) = r_family(pp);
				if par_ != nd.parent as u128
					|| sib != t.sibling(p as u32).unwrap() as u128
					|| isl != (t.nodes[nd.parent as usize].left == p as u32)
				{
					b += 1;
				}
			}
			if r_leftmost(pp) != t.leftmost(p as u32) as u128
				|| r_rightmost(pp) != t.rightmost(p as u32) as u128
			{
				b += 1;
			}
			if nd.leaf_idx != NONE && r_leaf_pos(nd.leaf_idx as u128) != pp {
				b += 1;
			}
			{
				let fb = r_family_branch(pp, m as u128);
				let tf = tbl_family_branch(t, p as u32, m as u64);
				if fb.len() != tf.len()
					|| fb
						.iter()
						.zip(tf.iter())
						.any(|(a, b)| a.0 != b.0 as u128 || a.1 != b.1 as u128)
				{
					b += 1;
				}
			}
			if tb.valid[p] {
				let n = tb.leaves_below[p] as usize;
				let (rp, rs) = r_peaks(n as u128);
				let hp = t.hist_peaks(n);
				if rp.len() != hp.len()
					|| rp.iter().zip(hp).any(|(a, b)| *a != *b as u128)
				{
					b += 1;
				}
				for (sz, pk) in rs.iter().zip(hp) {
					if *sz != (*pk - t.leftmost(*pk) + 1) as u128 {
						b += 1;
					}
				}
			}
			c += 1;
			p += NTHREADS;
		}
		badc.fetch_add(b, Ordering::Relaxed);
		cnt.fetch_add(c, Ordering::Relaxed);
	});
	bad += badc.load(Ordering::Relaxed);
	n_checks += cnt.load(Ordering::Relaxed);
	run.count("ref_selfcheck.cases", n_checks);
	run.count("ref_selfcheck.mismatches", bad);
	if bad > 0 {
		inconc(run, &format!(
			"reference self-check failed ({} mismatches between RefMMR table, brute force and u128 closed form): harness error",
			bad
		));
	}
}

// ---------------------------------------------------------------- section A: position functions, exhaustive

fn tbl_family_branch(t: &RefMMR, p: u32, size: u64) -> Vec<(u64, u64)> {
	let mut out = vec![];
	let mut cur = p;
	loop {
		let par = t.nodes[cur as usize].parent;
		if par == NONE || par as u64 >= size {
			break;
		}
		out.push((par as u64, t.sibling(cur).unwrap() as u64));
		cur = par;
	}
	out
}

fn section_a(run: &Run, tb: &Table, seed: u64, budget_s: f64) {
	let t = &tb.t;
	let m = t.nodes.len();
	let dl = Deadline::new(budget_s);
	let done = AtomicUsize::new(0);
	let small_s = t.size_after[(t.n_leaves() as usize).min(256)] as usize;
	const CL: &str = "exhaustive";
	par(run, |ti, l| {
		let mut prng = Prng::new(seed ^ 0xA11 ^ ((ti as u64) << 32));
		let mut nodes_buf: Vec<u64> = vec![];
		let mut leaves_buf: Vec<u64> = vec![];
		let mut p = ti;
		while p <= m {
			if dl.over() {
				break;
			}
			let pu = p as u64;
			// ---- `p` as a size
			let rp = move || json!({"section": "A", "arg": pu});
			check(run, l, "n_leaves", CL, &rp, tb.leaves_below[p] as u64, || {
				pmmr::n_leaves(pu)
			});
			if tb.valid[p] {
				let n = tb.leaves_below[p] as usize;
				let hp = t.hist_peaks(n);
				let exp: Vec<u64> = hp.iter().map(|x| *x as u64).collect();
				check(run, l, "peaks", CL, &rp, exp, || pmmr::peaks(pu));
				let exp_sizes: Vec<u64> = hp
					.iter()
					.map(|x| {
						nodes_buf.clear();
						leaves_buf.clear();
						t.subtree(*x, &mut nodes_buf, &mut leaves_buf);
						nodes_buf.len() as u64
					})
					.collect();
				check(run, l, "peak_sizes_height.sizes", CL, &rp, exp_sizes, || {
					pmmr::peak_sizes_height(pu).0
				});
			} else if let Some(v) =
				guarded(run, l, "peaks(non-valid size, observed only)", CL, &rp, || {
					pmmr::peaks(pu)
				}) {
				if v.is_empty() {
					l.c("observed.peaks_of_non_valid_size_is_empty", 1);
				} else {
					l.c("observed.peaks_of_non_valid_size_is_non_empty", 1);
				}
			}
			if p == m {
				l.case(&[1, 99, 0, 0]);
				p += NTHREADS;
				continue;
			}
			// ---- `p` as a position
			let nd = &t.nodes[p];
			let h = nd.height as u64;
			let exp_map = tb.leaves_below[p] as u64 - if h != 0 { 1 } else { 0 };
			check(run, l, "peak_map_height", CL, &rp, (exp_map, h), || {
				pmmr::peak_map_height(pu)
			});
			check(run, l, "peak_sizes_height.height", CL, &rp, h, || {
				pmmr::peak_sizes_height(pu).1
			});
			check(run, l, "bintree_postorder_height", CL, &rp, h, || {
				pmmr::bintree_postorder_height(pu)
			});
			check(run, l, "is_leaf", CL, &rp, h == 0, || pmmr::is_leaf(pu));
			let exp_idx = if nd.leaf_idx != NONE {
				Some(nd.leaf_idx as u64)
			} else {
				None
			};
			check(run, l, "pmmr_leaf_to_insertion_index", CL, &rp, exp_idx, || {
				pmmr::pmmr_leaf_to_insertion_index(pu)
			});
			if let Some(i) = exp_idx {
				check(run, l, "insertion_to_pmmr_index", CL, &rp, pu, || {
					pmmr::insertion_to_pmmr_index(i)
				});
			}
			if tb.next_leaf[p] != NONE {
				check(
					run,
					l,
					"round_up_to_leaf_pos",
					CL,
					&rp,
					tb.next_leaf[p] as u64,
					|| pmmr::round_up_to_leaf_pos(pu),
				);
			}
			let mut is_left = 2u64;
			if nd.parent != NONE {
				let sib = t.sibling(p as u32).unwrap() as u64;
				check(run, l, "family", CL, &rp, (nd.parent as u64, sib), || {
					pmmr::family(pu)
				});
				let il = t.nodes[nd.parent as usize].left == p as u32;
				is_left = il as u64;
				check(run, l, "is_left_sibling", CL, &rp, il, || {
					pmmr::is_left_sibling(pu)
				});
			}
			let lm = t.leftmost(p as u32) as u64;
			let rm = t.rightmost(p as u32) as u64;
			check(run, l, "bintree_leftmost", CL, &rp, lm, || {
				pmmr::bintree_leftmost(pu)
			});
			check(run, l, "bintree_rightmost", CL, &rp, rm, || {
				pmmr::bintree_rightmost(pu)
			});
			nodes_buf.clear();
			leaves_buf.clear();
			t.subtree(p as u32, &mut nodes_buf, &mut leaves_buf);
			check(run, l, "bintree_range", CL, &rp, true, || {
				let r = pmmr::bintree_range(pu);
				r.clone().eq(nodes_buf.iter().cloned())
			});
			check(run, l, "bintree_pos_iter", CL, &rp, true, || {
				pmmr::bintree_pos_iter(pu).eq(nodes_buf.iter().cloned())
			});
			check(run, l, "bintree_leaf_pos_iter", CL, &rp, true, || {
				pmmr::bintree_leaf_pos_iter(pu).eq(leaves_buf.iter().cloned())
			});
			// ---- family_branch(p, size) for the sizes where its value changes
			let mut sizes: Vec<u64> = vec![pu, pu + 1, pu + 2, m as u64];
			let mut a = nd.parent;
			while a != NONE {
				let au = a as u64;
				sizes.extend_from_slice(&[au - 1, au, au + 1, au + 2]);
				a = t.nodes[a as usize].parent;
			}
			sizes.push(prng.range(0, m as u64));
			sizes.push(prng.range(pu, m as u64));
			if p < small_s {
				sizes.extend(0..=small_s as u64);
			}
			sizes.sort_unstable();
			sizes.dedup();
			for s in sizes {
				if s > m as u64 {
					continue;
				}
				let rp2 = move || json!({"section": "A", "pos": pu, "size": s});
				let exp = tbl_family_branch(t, p as u32, s);
				check(run, l, "family_branch", CL, &rp2, exp, || {
					pmmr::family_branch(pu, s)
				});
			}
			l.case(&[1, h, is_left, tb.valid[p] as u64]);
			done.fetch_add(1, Ordering::Relaxed);
			p += NTHREADS;
		}
	});
	run.count("A.positions_done", done.load(Ordering::Relaxed) as u64);
	run.count("A.positions_total", m as u64);
	if dl.was_hit() {
		inconc(run, "section A: time budget hit before all positions were compared");
	}
}

// ---------------------------------------------------------------- section B: huge arguments

fn huge_args(prng: &mut Prng, n_random: usize) -> Vec<u64> {
	let mut set: HashSet<u64> = HashSet::new();
	let mut add = |v: i128| {
		if v >= 0 && v <= u64::MAX as i128 {
			set.insert(v as u64);
		}
	};
	for k in 0..=64u32 {
		let b = 1i128 << k;
		for d in -70i128..=70 {
			add(b + d); // around 2^k (also sizes 2^k-1 of perfect trees, 2^k-2 their roots)
			add(b - (k as i128) + d); // around the right spine below a perfect root
			add(2 * b - (k as i128) - 2 + d);
		}
		// two-peak / three-peak shapes
		for j in 0..k {
			let c = 1i128 << j;
			for d in -6i128..=6 {
				add(b + c + d);
				add(b + c - 2 + d);
				add(b - c + d);
			}
		}
	}
	for d in 0..3000i128 {
		add(u64::MAX as i128 - d);
		add((1i128 << 63) - 1500 + d);
		add((1i128 << 32) - 1500 + d);
	}
	for _ in 0..n_random {
		let v = match prng.below(6) {
			0 => prng.next_u64(),
			1 => prng.next_u64() | (1 << 63),
			2 => u64::MAX - prng.below(1 << 40),
			3 => prng.interesting_u64(),
			4 => {
				// few set bits: few peaks
				let mut x = 0u64;
				for _ in 0..prng.range(1, 4) {
					x |= 1 << prng.below(64);
				}
				x.wrapping_sub(prng.below(70))
			}
			_ => prng.next_u64() >> prng.below(64),
		};
		add(v as i128);
	}
	let mut v: Vec<u64> = set.into_iter().collect();
	v.sort_unstable();
	v
}

fn to64(v: &[u128]) -> Vec<u64> {
	v.iter().map(|x| *x as u64).collect()
}

/// Section B, child side: shard `shard` of `nshards` of the huge arguments (or the single argument
/// `only`), single-threaded, every argument under the allocation guard and the hang watchdog.
fn section_b(run: &Run, seed: u64, n_random: usize, budget_s: f64, shard: usize, nshards: usize, only: Option<u64>) {
	let mut prng = Prng::new(seed ^ 0xB0B);
	let args = match only {
		Some(v) => vec![v],
		None => huge_args(&mut prng, n_random),
	};
	let dl = Deadline::new(budget_s);
	let done = AtomicUsize::new(0);
	const CL: &str = "huge";
	let args = &args;
	monitor::HARD_CAP.store(B_ALLOC_CAP, Ordering::SeqCst);
	monitor::watchdog_start(B_HANG_MS);
	let mut max_live = 0usize;
	{
		let ti = if only.is_some() { 0 } else { shard };
		let step = if only.is_some() { 1 } else { nshards };
		let mut local = Local::new();
		let l = &mut local;
		let mut prng = Prng::new(seed ^ 0xB1B ^ ((ti as u64) << 32));
		let mut i = ti;
		let mut k = 0usize;
		while i < args.len() {
			k += 1;
			if k % 64 == 0 && dl.over() {
				break;
			}
			let v = args[i];
			monitor::watchdog_enter(v);
			monitor::alloc_guard_on(v);
			let vv = v as u128;
			let rp = move || json!({"section": "B", "arg": v});
			let h = r_height(vv);
			let lb = r_leaves_below(vv);
			let valid = r_leaf_pos(lb) == vv;
			let exp_map = (lb - if h != 0 { 1 } else { 0 }) as u64;
			check(run, l, "peak_map_height", CL, &rp, (exp_map, h as u64), || {
				pmmr::peak_map_height(v)
			});
			check(run, l, "bintree_postorder_height", CL, &rp, h as u64, || {
				pmmr::bintree_postorder_height(v)
			});
			check(run, l, "is_leaf", CL, &rp, h == 0, || pmmr::is_leaf(v));
			check(run, l, "n_leaves", CL, &rp, lb as u64, || pmmr::n_leaves(v));
			check(run, l, "peak_sizes_height.height", CL, &rp, h as u64, || {
				pmmr::peak_sizes_height(v).1
			});
			if valid {
				let (pp, ps) = r_peaks(lb);
				check(run, l, "peaks", CL, &rp, to64(&pp), || pmmr::peaks(v));
				check(run, l, "peak_sizes_height.sizes", CL, &rp, to64(&ps), || {
					pmmr::peak_sizes_height(v).0
				});
			}
			let exp_idx = if h == 0 { Some(lb as u64) } else { None };
			check(run, l, "pmmr_leaf_to_insertion_index", CL, &rp, exp_idx, || {
				pmmr::pmmr_leaf_to_insertion_index(v)
			});
			let nl = r_leaf_pos(lb); // least leaf position >= v
			if fits(nl) {
				check(run, l, "round_up_to_leaf_pos", CL, &rp, nl as u64, || {
					pmmr::round_up_to_leaf_pos(v)
				});
			} else {
				l.c("B.skipped.result_exceeds_u64", 1);
			}
			// v as a leaf index
			let lp = r_leaf_pos(vv);
			if fits(lp) {
				check(run, l, "insertion_to_pmmr_index", CL, &rp, lp as u64, || {
					pmmr::insertion_to_pmmr_index(v)
				});
			} else {
				l.c("B.skipped.result_exceeds_u64", 1);
			}
			let (par_, sib, isl) = r_family(vv);
			if fits(par_) {
				check(run, l, "family", CL, &rp, (par_ as u64, sib as u64), || {
					pmmr::family(v)
				});
			} else {
				l.c("B.skipped.result_exceeds_u64", 1);
			}
			check(run, l, "is_left_sibling", CL, &rp, isl, || {
				pmmr::is_left_sibling(v)
			});
			let lm = r_leftmost(vv);
			let rm = r_rightmost(vv);
			check(run, l, "bintree_leftmost", CL, &rp, lm as u64, || {
				pmmr::bintree_leftmost(v)
			});
			check(run, l, "bintree_rightmost", CL, &rp, rm as u64, || {
				pmmr::bintree_rightmost(v)
			});
			if v < u64::MAX {
				check(run, l, "bintree_range", CL, &rp, (lm as u64, v + 1), || {
					let r = pmmr::bintree_range(v);
					(r.start, r.end)
				});
			} else {
				l.c("B.skipped.result_exceeds_u64", 1);
			}
			// iterators: first elements, and everything for small subtrees
			let first_nodes: Vec<u64> = (0..5u128)
				.map(|k| lm + k)
				.filter(|x| *x <= vv)
				.map(|x| x as u64)
				.collect();
			check(run, l, "bintree_pos_iter", CL, &rp, first_nodes, || {
				pmmr::bintree_pos_iter(v).take(5).collect::<Vec<u64>>()
			});
			let first_leaf_idx = r_leaves_below(lm);
			let n_sub_leaves = 1u128 << h;
			let first_leaves: Vec<u64> = (0..5u128)
				.filter(|k| *k < n_sub_leaves)
				.map(|k| r_leaf_pos(first_leaf_idx + k) as u64)
				.collect();
			check(run, l, "bintree_leaf_pos_iter", CL, &rp, first_leaves, || {
				pmmr::bintree_leaf_pos_iter(v).take(5).collect::<Vec<u64>>()
			});
			if h <= 9 {
				let all_leaves: Vec<u64> = (0..n_sub_leaves)
					.map(|k| r_leaf_pos(first_leaf_idx + k) as u64)
					.collect();
				debug_assert_eq!(*all_leaves.last().unwrap() as u128, rm);
				check(run, l, "bintree_leaf_pos_iter", CL, &rp, all_leaves, || {
					pmmr::bintree_leaf_pos_iter(v).collect::<Vec<u64>>()
				});
				let all: Vec<u64> = (lm..=vv).map(|x| x as u64).collect();
				check(run, l, "bintree_pos_iter", CL, &rp, all, || {
					pmmr::bintree_pos_iter(v).collect::<Vec<u64>>()
				});
			}
			// family_branch(v, size) for v < size (the function's domain)
			let mut sizes: Vec<u128> = vec![vv + 1, vv + 2, u64::MAX as u128];
			let mut chain: Vec<(u128, u128)> = vec![];
			{
				let mut cur = vv;
				for _ in 0..70 {
					let (p, sb, _) = r_family(cur);
					if !fits(p) {
						break;
					}
					chain.push((p, sb));
					sizes.push(p);
					sizes.push(p + 1);
					cur = p;
				}
			}
			if v < u64::MAX {
				sizes.push(prng.range(v + 1, u64::MAX) as u128);
			}
			sizes.sort_unstable();
			sizes.dedup();
			for s in sizes {
				if !fits(s) || s <= vv {
					continue;
				}
				let s64 = s as u64;
				let rp2 = move || json!({"section": "B", "pos": v, "size": s64});
				// ancestors below the size (chain positions grow strictly)
				let exp: Vec<(u64, u64)> = chain
					.iter()
					.take_while(|(a, _)| *a < s)
					.map(|(a, b)| (*a as u64, *b as u64))
					.collect();
				check(run, l, "family_branch", CL, &rp2, exp, || {
					pmmr::family_branch(v, s64)
				});
			}
			l.case(&[
				2,
				h as u64,
				isl as u64,
				valid as u64,
				(64 - v.leading_zeros()) as u64,
				v.count_ones().min(6) as u64,
			]);
			max_live = max_live.max(monitor::alloc_guard_peak());
			monitor::alloc_guard_off();
			monitor::watchdog_leave();
			done.fetch_add(1, Ordering::Relaxed);
			i += step;
		}
		local.flush(run);
	}
	run.count("B.args_done", done.load(Ordering::Relaxed) as u64);
	run.set_max("max_B_live_bytes_per_argument", max_live as u64);
	if dl.was_hit() {
		inconc(run, "section B: time budget hit before all huge arguments were compared");
	}
}

/// Section B, parent side: monitored children; a child stopped by the allocation guard (exit 86)
/// or the hang watchdog (exit 87) names the argument it was processing; that argument is re-run
/// alone with call tracing, and only a reproduced stop is a violation (attributed to the function
/// that was executing), otherwise the run is inconclusive.
fn section_b_parent(run: &Run, seed: u64, n_random: usize, budget_s: f64) {
	use std::sync::Mutex;
	let total = huge_args(&mut Prng::new(seed ^ 0xB0B), n_random).len();
	run.count("B.args_total", total as u64);
	let suspects: Mutex<Vec<(i32, u64)>> = Mutex::new(vec![]);
	let parse = |err: &str, marker: &str| -> Option<u64> {
		err.lines()
			.filter_map(|l| l.trim().strip_prefix(marker))
			.filter_map(|r| r.split_whitespace().next().and_then(|x| x.parse::<u64>().ok()))
			.last()
	};
	let mut extra = vec!["--phase-b".to_string(), "--b-budget".to_string(), format!("{}", budget_s)];
	if run.args.iter().any(|a| a == "--san") {
		extra.push("--san".into());
	}
	run.spawn_workers_ex(B_WORKERS, &extra, budget_s as u64 + 120, &|_, code, err| {
		let hit = match code {
			Some(c) if c == monitor::EXIT_ALLOC_OVER_CAP => parse(err, "ALLOC-OVER-CAP case=").map(|v| (c, v)),
			Some(c) if c == monitor::EXIT_HANG => parse(err, "HANG case=").map(|v| (c, v)),
			_ => None,
		};
		match hit {
			Some(h) => {
				suspects.lock().unwrap().push(h);
				true
			}
			None => false,
		}
	});
	let mut sus = suspects.into_inner().unwrap();
	sus.sort_unstable();
	sus.dedup();
	run.count("B.children_stopped_by_a_monitor", sus.len() as u64);
	for (code, v) in sus.into_iter().take(6) {
		let exe = std::env::current_exe().expect("current_exe");
		let out = std::process::Command::new("timeout")
			.arg("120")
			.arg(&exe)
			.args(["--tier", run.tier.name(), "--seed", &run.seed.to_string(), "--worker", "0", "1", "--phase-b", "--b-budget", "60", "--trace", "--only-arg", &v.to_string()])
			.output();
		let what = if code == monitor::EXIT_HANG { "hang" } else { "over_allocation" };
		match out {
			Ok(o) => {
				let err = String::from_utf8_lossy(&o.stderr).to_string();
				let last_call = err.lines().filter_map(|l| l.strip_prefix("CALL ")).last().unwrap_or("?").to_string();
				if o.status.code() == Some(code) {
					run.violation(
						&format!("fn={};class=huge;event={}", last_call, what),
						&format!(
							"{} on the huge argument {} {} (reproduced when the argument was re-run alone; the function is total and its result is a few words)",
							last_call,
							v,
							if code == monitor::EXIT_HANG {
								format!("did not return within {} s", B_HANG_MS / 1000)
							} else {
								format!("allocated more than {} MiB", B_ALLOC_CAP >> 20)
							}
						),
						json!({"section": "B", "arg": v, "event": what, "function": last_call}),
					);
				} else {
					inconc(run, &format!("section B: a child was stopped by the {} monitor at argument {} but the stop did not reproduce when the argument was re-run alone (exit {:?})", what, v, o.status.code()));
				}
			}
			Err(e) => inconc(run, &format!("section B: re-run of argument {} could not be started: {}", v, e)),
		}
	}
}

// ---------------------------------------------------------------- section C: roots, sizes, peaks, rewind

type VB = VecBackend<TestElem>;

/// Compare size / root / peaks of any readable view with the reference values.
fn cmp_view<P: ReadablePMMR>(
	run: &Run,
	l: &mut Local,
	view: &P,
	names: (&'static str, &'static str, &'static str),
	class: &str,
	rp: &dyn Fn() -> Value,
	exp_size: u64,
	exp_root: Hash,
	exp_peaks: &[Hash],
) -> bool {
	let mut ok = true;
	ok &= check(run, l, names.0, class, rp, exp_size, || view.unpruned_size());
	ok &= check(run, l, names.1, class, rp, Ok(exp_root), || view.root());
	ok &= check(run, l, names.2, class, rp, exp_peaks.to_vec(), || view.peaks());
	ok
}

const PMMR_N: (&str, &str, &str) = ("PMMR::unpruned_size", "PMMR::root", "PMMR::peaks");
const RO_N: (&str, &str, &str) = (
	"ReadonlyPMMR::unpruned_size",
	"ReadonlyPMMR::root",
	"ReadonlyPMMR::peaks",
);
const RW_N: (&str, &str, &str) = (
	"RewindablePMMR::unpruned_size",
	"RewindablePMMR::root",
	"RewindablePMMR::peaks",
);

/// C1: one push at a time, every size up to nl leaves; then every prefix view.
fn section_c1(run: &Run, seed: u64, nl: usize, budget_s: f64) {
	let dl = Deadline::new(budget_s);
	let mut prng = Prng::new(seed ^ 0xC1);
	let elems = gen_elems(&mut prng, nl);
	let mut r = RefMMR::new(true);
	let mut be = VB::new();
	let mut l = Local::new();
	const CL: &str = "incremental";
	{
		let mut pm = PMMR::new(&mut be);
		let rp0 = || json!({"section": "C1", "n_leaves": 0});
		cmp_view(run, &mut l, &pm, PMMR_N, "empty", &rp0, 0, ZERO_HASH, &[]);
		l.case(&[3, 0, 0]);
		for n in 1..=nl {
			let e = elems[n - 1];
			let exp_pos = r.push(&e);
			let rp = move || json!({"section": "C1", "seed": seed, "n_leaves": n});
			check(run, &mut l, "PMMR::push", CL, &rp, Ok(exp_pos), || pm.push(&e));
			let exp_peaks = r.peak_hashes(&r.peaks);
			let ok = cmp_view(
				run,
				&mut l,
				&pm,
				PMMR_N,
				CL,
				&rp,
				r.size(),
				r.root(),
				&exp_peaks,
			);
			{
				let ro = pm.readonly_pmmr();
				cmp_view(
					run,
					&mut l,
					&ro,
					RO_N,
					"readonly_of_pmmr",
					&rp,
					r.size(),
					r.root(),
					&exp_peaks,
				);
			}
			if ok {
				l.c("C.roots_equal_reference", 1);
			}
			if n <= 3 || n == nl {
				run.sample(json!({"section": "C1", "n_leaves": n, "size": r.size(),
					"root": format!("{}", r.root()), "n_peaks": r.peaks.len()}));
			}
			l.case(&[3, r.peaks.len() as u64, (n as u64).trailing_zeros() as u64]);
			if n % 256 == 0 && dl.over() {
				break;
			}
		}
		let rpv = || json!({"section": "C1", "seed": seed, "op": "validate"});
		check(run, &mut l, "PMMR::validate", CL, &rpv, Ok(()), || pm.validate());
	}
	let rph = || json!({"section": "C1", "seed": seed, "op": "backend hashes"});
	let exp_hashes: Vec<Hash> = r.nodes.iter().map(|n| n.hash).collect();
	check(run, &mut l, "VecBackend::hashes", CL, &rph, true, || {
		be.hashes == exp_hashes
	});
	l.flush(run);
	if dl.was_hit() {
		inconc(run, "section C1: time budget hit");
		return;
	}
	// prefix views of every size, rewindable view from every position
	let n_done = r.n_leaves() as usize;
	let total = r.size();
	let (r, be) = (&r, &be);
	par(run, |ti, l| {
		let mut n = ti;
		while n <= n_done {
			if dl.over() {
				break;
			}
			let size = r.size_after[n] as u64;
			let rp = move || json!({"section": "C1", "seed": seed, "view": "ReadonlyPMMR::at", "n_leaves": n});
			let hp = r.peak_hashes(r.hist_peaks(n));
			let ro = if n == 0 {
				ReadonlyPMMR::new(be)
			} else {
				ReadonlyPMMR::at(be, size)
			};
			cmp_view(run, l, &ro, RO_N, "prefix_view", &rp, size, r.root_of_leaves(n), &hp);
			l.case(&[4, hp.len() as u64, (n as u64).trailing_zeros() as u64]);
			n += NTHREADS;
		}
		let mut p = ti as u64;
		while p <= total {
			if dl.over() {
				break;
			}
			let (n, size) = r.valid_size_at_or_after(p).unwrap();
			let rp = move || json!({"section": "C1", "seed": seed, "view": "RewindablePMMR", "rewind_to": p});
			let hp = r.peak_hashes(r.hist_peaks(n));
			let mut rw = RewindablePMMR::at(be, total);
			check(run, l, "RewindablePMMR::rewind", "rewind_view", &rp, Ok(()), || {
				rw.rewind(p)
			});
			let ro = rw.as_readonly();
			cmp_view(run, l, &ro, RW_N, "rewind_view", &rp, size, r.root_of_leaves(n), &hp);
			l.case(&[5, hp.len() as u64, (size - p).min(20)]);
			p += NTHREADS as u64;
		}
		// one view re-positioned again and again, in both directions (the view is a size over a shared
		// append-only backend: a later, larger position within the backend is as good as a smaller one),
		// and a view created empty and positioned by rewind()
		let mut pr = Prng::new(seed ^ 0xC1A1 ^ ((ti as u64) << 20));
		let mut walk = RewindablePMMR::at(be, total);
		let mut prev = total;
		for step in 0..64u64 {
			if dl.over() || total == 0 {
				break;
			}
			let p = match step % 4 {
				0 => pr.below(total + 1),
				1 => prev + pr.below(total - prev + 1),
				2 => pr.below(prev + 1),
				_ => total - pr.below(total.min(4) + 1).min(total),
			};
			let (n, size) = r.valid_size_at_or_after(p).unwrap();
			let from = prev;
			let rp = move || json!({"section": "C1", "seed": seed, "view": "RewindablePMMR (one view, repositioned)", "previous_position": from, "rewind_to": p});
			let hp = r.peak_hashes(r.hist_peaks(n));
			check(run, l, "RewindablePMMR::rewind", "rewind_view_walk", &rp, Ok(()), || walk.rewind(p));
			let ro = walk.as_readonly();
			cmp_view(run, l, &ro, RW_N, "rewind_view_walk", &rp, size, r.root_of_leaves(n), &hp);
			l.case(&[6, (p > from) as u64, (p == from) as u64, hp.len() as u64]);
			prev = size;
			if step % 16 == 7 {
				let mut fresh = RewindablePMMR::new(be);
				let rp = move || json!({"section": "C1", "seed": seed, "view": "RewindablePMMR::new then rewind", "rewind_to": p});
				check(run, l, "RewindablePMMR::rewind", "rewind_view_from_empty", &rp, Ok(()), || fresh.rewind(p));
				let ro = fresh.as_readonly();
				cmp_view(run, l, &ro, RW_N, "rewind_view_from_empty", &rp, size, r.root_of_leaves(n), &hp);
			}
		}
	});
	if dl.was_hit() {
		inconc(run, "section C1: time budget hit in prefix views");
	}
}

fn cmp_backend(
	run: &Run,
	l: &mut Local,
	class: &str,
	rp: &dyn Fn() -> Value,
	be: &VB,
	r: &RefMMR,
	elems: &[TestElem],
) {
	check(run, l, "VecBackend::hashes", class, rp, true, || {
		be.hashes.len() == r.nodes.len()
			&& be.hashes.iter().zip(r.nodes.iter()).all(|(a, b)| *a == b.hash)
	});
	check(run, l, "VecBackend::data", class, rp, true, || {
		be.data.as_ref().map(|d| &d[..]) == Some(elems)
	});
}

/// C4: the hash-only VecBackend (`VecBackend::new_hash_only()`: node hashes kept, leaf data dropped) under random
/// push / rewind programs: size, root and a Merkle proof of a random present leaf after every step, against the
/// MMR built from scratch over the model's leaf list.
fn section_c4(run: &Run, seed: u64, n_programs: usize) {
	let empty = Bitmap::new();
	for pi in 0..n_programs {
		let mut pr = Prng::new(seed ^ 0xC4C4 ^ ((pi as u64) << 24));
		let mut be: VecBackend<TestElem> = VecBackend::new_hash_only();
		let mut cur: Vec<TestElem> = vec![];
		let mut size = 0u64;
		let steps = 8 + pr.usize_below(30);
		let mut trace: Vec<String> = vec![];
		for _ in 0..steps {
			let rewind = !cur.is_empty() && pr.chance(1, 3);
			if rewind {
				// back to the MMR of the first n leaves (any n below the current count, also n == count: a no-op rewind)
				let n = pr.usize_below(cur.len() + 1).max(1);
				let target = RefMMR::from_elems(&cur[..n], false).size();
				let mut pm = PMMR::at(&mut be, size);
				trace.push(format!("rewind to {} leaves (size {})", n, target));
				if let Err(e) = pm.rewind(target, &empty) {
					run.violation("section=C4;backend=hash_only;fn=PMMR::rewind;event=error", &e, json!({"program": pi, "steps": trace}));
					return;
				}
				size = pm.unpruned_size();
				cur.truncate(n);
				run.count("C4.hash_only_rewinds", 1);
			} else {
				let k = 1 + pr.usize_below(4);
				let mut pm = PMMR::at(&mut be, size);
				for _ in 0..k {
					let e = TestElem([pr.next_u32(), pr.next_u32(), pr.next_u32(), pr.next_u32()]);
					if let Err(e) = pm.push(&e) {
						run.violation("section=C4;backend=hash_only;fn=PMMR::push;event=error", &e, json!({"program": pi, "steps": trace}));
						return;
					}
					cur.push(e);
				}
				size = pm.unpruned_size();
				trace.push(format!("push {} (now {} leaves)", k, cur.len()));
			}
			let r = RefMMR::from_elems(&cur, false);
			let pm = PMMR::at(&mut be, size);
			let got_root = pm.root();
			run.eval(&format!("C4:{}:{}", if rewind { "rewind" } else { "push" }, cur.len().min(40)), true);
			run.count("C4.hash_only_states_compared", 1);
			if size != r.size() || got_root.as_ref().ok() != Some(&r.root()) {
				run.violation(
					&format!("section=C4;backend=hash_only;after={};event=root_or_size_mismatch", if rewind { "rewind" } else { "push" }),
					&format!("hash-only VecBackend: size {} root {:?}, the MMR of the same {} leaves by definition has size {} root {}", size, got_root, cur.len(), r.size(), r.root()),
					json!({"program": pi, "seed": seed, "steps": trace}),
				);
				return;
			}
			// a proof of a present leaf must verify for that leaf (and not for another element)
			let li = pr.usize_below(cur.len());
			let pos0 = pmmr::insertion_to_pmmr_index(li as u64);
			match pm.merkle_proof(pos0) {
				Err(e) => {
					run.violation("section=C4;backend=hash_only;fn=merkle_proof;event=error", &e, json!({"program": pi, "steps": trace, "leaf": li}));
					return;
				}
				Ok(proof) => {
					let root = r.root();
					let ok = proof.verify(root, &cur[li], pos0).is_ok();
					let other = TestElem([cur[li].0[0] ^ 1, cur[li].0[1], cur[li].0[2], cur[li].0[3]]);
					let bad = proof.verify(root, &other, pos0).is_ok();
					run.count("C4.hash_only_proofs_checked", 1);
					if !ok || bad {
						run.violation(
							&format!("section=C4;backend=hash_only;fn=merkle_proof;event={}", if !ok { "honest_proof_fails" } else { "proof_verifies_for_another_element" }),
							&format!("leaf {} of {} after {:?}", li, cur.len(), trace.last()),
							json!({"program": pi, "seed": seed, "steps": trace, "leaf": li}),
						);
						return;
					}
				}
			}
		}
	}
}

/// A backend whose next `append` or `rewind` can be made to fail (before anything is changed), as the file backend
/// does on an I/O error; everything else goes to the VecBackend it wraps.
struct FaultCtl {
	/// number of successful appends left before one append fails (None: never)
	fail_append_after: std::cell::Cell<Option<u32>>,
	fail_next_rewind: std::cell::Cell<bool>,
}

struct FaultyBackend {
	inner: VecBackend<TestElem>,
	ctl: std::rc::Rc<FaultCtl>,
}

impl pmmr::Backend<TestElem> for FaultyBackend {
	fn append(&mut self, data: &TestElem, hashes: &[Hash]) -> Result<(), String> {
		if let Some(n) = self.ctl.fail_append_after.get() {
			if n == 0 {
				self.ctl.fail_append_after.set(None);
				return Err("injected: failed to append data to file".into());
			}
			self.ctl.fail_append_after.set(Some(n - 1));
		}
		self.inner.append(data, hashes)
	}
	fn append_pruned_subtree(&mut self, hash: Hash, pos0: u64) -> Result<(), String> {
		self.inner.append_pruned_subtree(hash, pos0)
	}
	fn append_hash(&mut self, hash: Hash) -> Result<(), String> {
		self.inner.append_hash(hash)
	}
	fn rewind(&mut self, pos1: u64, rm: &Bitmap) -> Result<(), String> {
		if self.ctl.fail_next_rewind.get() {
			self.ctl.fail_next_rewind.set(false);
			return Err("injected: failed to rewind".into());
		}
		self.inner.rewind(pos1, rm)
	}
	fn get_hash(&self, pos0: u64) -> Option<Hash> {
		self.inner.get_hash(pos0)
	}
	fn get_data(&self, pos0: u64) -> Option<TestElem> {
		self.inner.get_data(pos0)
	}
	fn get_from_file(&self, pos0: u64) -> Option<Hash> {
		self.inner.get_from_file(pos0)
	}
	fn get_peak_from_file(&self, pos0: u64) -> Option<Hash> {
		self.inner.get_peak_from_file(pos0)
	}
	fn get_data_from_file(&self, pos0: u64) -> Option<TestElem> {
		self.inner.get_data_from_file(pos0)
	}
	fn leaf_pos_iter(&self) -> Box<dyn Iterator<Item = u64> + '_> {
		self.inner.leaf_pos_iter()
	}
	fn n_unpruned_leaves(&self) -> u64 {
		self.inner.n_unpruned_leaves()
	}
	fn n_unpruned_leaves_to_index(&self, to_index: u64) -> u64 {
		self.inner.n_unpruned_leaves_to_index(to_index)
	}
	fn leaf_idx_iter(&self, from_idx: u64) -> Box<dyn Iterator<Item = u64> + '_> {
		self.inner.leaf_idx_iter(from_idx)
	}
	fn remove(&mut self, position: u64) -> Result<(), String> {
		self.inner.remove(position)
	}
	fn remove_from_leaf_set(&mut self, pos0: u64) {
		self.inner.remove_from_leaf_set(pos0)
	}
	fn release_files(&mut self) {
		self.inner.release_files()
	}
	fn reset_prune_list(&mut self) {
		self.inner.reset_prune_list()
	}
	fn snapshot(&self, header: &grin_core::core::BlockHeader) -> Result<(), String> {
		self.inner.snapshot(header)
	}
	fn dump_stats(&self) {
		self.inner.dump_stats()
	}
}

/// C5: ONE long-lived PMMR object over a backend whose append / rewind fails now and then. An element whose push
/// returned an error was not appended, a rewind that returned an error did not happen: after every step the size,
/// peaks and root the object reports, and a Merkle proof of a random present leaf, are those of the MMR of the
/// elements appended so far, and the following pushes land at the positions of that MMR.
fn section_c5(run: &Run, seed: u64, n_programs: usize) {
	let empty = Bitmap::new();
	for pi in 0..n_programs {
		let mut pr = Prng::new(seed ^ 0xC5C5 ^ ((pi as u64) << 24));
		let ctl = std::rc::Rc::new(FaultCtl {
			fail_append_after: std::cell::Cell::new(None),
			fail_next_rewind: std::cell::Cell::new(false),
		});
		let mut be = FaultyBackend {
			inner: VecBackend::new(),
			ctl: ctl.clone(),
		};
		let mut cur: Vec<TestElem> = vec![];
		let steps = 10 + pr.usize_below(30);
		let mut trace: Vec<String> = vec![];
		let mut pm = PMMR::new(&mut be);
		let mut faults_seen = 0u32;
		for _ in 0..steps {
			let rewind = !cur.is_empty() && pr.chance(1, 4);
			let inject = pr.chance(1, 3);
			let mut what = "push";
			if rewind {
				what = "rewind";
				let n = pr.usize_below(cur.len() + 1).max(1);
				let target = RefMMR::from_elems(&cur[..n], false).size();
				if inject {
					ctl.fail_next_rewind.set(true);
				}
				match pm.rewind(target, &empty) {
					Ok(()) => {
						cur.truncate(n);
						trace.push(format!("rewind to {} leaves: ok", n));
					}
					Err(_) if inject => {
						faults_seen += 1;
						what = "failed_rewind";
						trace.push(format!("rewind to {} leaves: backend error (injected)", n));
						run.count("C5.failed_rewinds", 1);
					}
					Err(e) => {
						run.violation("section=C5;fn=PMMR::rewind;event=error_without_fault", &e, json!({"program": pi, "seed": seed, "steps": trace}));
						return;
					}
				}
				ctl.fail_next_rewind.set(false);
			} else {
				let k = 1 + pr.usize_below(5);
				if inject {
					ctl.fail_append_after.set(Some(pr.usize_below(k) as u32));
				}
				for i in 0..k {
					let e = TestElem([pr.next_u32(), pr.next_u32(), pr.next_u32(), pr.next_u32()]);
					let want_pos = pmmr::insertion_to_pmmr_index(cur.len() as u64);
					let armed = ctl.fail_append_after.get() == Some(0);
					match pm.push(&e) {
						Ok(pos) => {
							if pos != want_pos {
								run.violation(
									"section=C5;fn=PMMR::push;event=position_mismatch",
									&format!("push #{} of the step returned position {}, leaf {} of an MMR sits at {}", i, pos, cur.len(), want_pos),
									json!({"program": pi, "seed": seed, "steps": trace}),
								);
								return;
							}
							cur.push(e);
						}
						Err(_) if armed => {
							faults_seen += 1;
							what = "failed_push";
							trace.push(format!("push #{} of {}: backend error (injected) with {} leaves", i, k, cur.len()));
							run.count("C5.failed_pushes", 1);
						}
						Err(err) => {
							run.violation("section=C5;fn=PMMR::push;event=error_without_fault", &err, json!({"program": pi, "seed": seed, "steps": trace}));
							return;
						}
					}
				}
				ctl.fail_append_after.set(None);
				trace.push(format!("pushed up to {} leaves", cur.len()));
			}
			// what the same object reports now
			if cur.is_empty() {
				if pm.unpruned_size() != 0 {
					run.violation(
						&format!("section=C5;after={};event=size_root_or_peaks_mismatch", what),
						&format!("after {} the PMMR reports size {} although nothing was appended", what, pm.unpruned_size()),
						json!({"program": pi, "seed": seed, "steps": trace}),
					);
					return;
				}
				continue;
			}
			let r = RefMMR::from_elems(&cur, false);
			let size = pm.unpruned_size();
			let got_root = pm.root();
			let got_peaks = pm.peaks();
			run.eval(&format!("C5:{}:{}", what, cur.len().min(40)), true);
			run.count("C5.states_compared", 1);
			if what.starts_with("failed") {
				run.count("C5.states_compared_right_after_a_backend_error", 1);
			}
			let ref_peaks: Vec<Hash> = r.peak_hashes(&r.peaks_of_size(r.size()).unwrap_or_default());
			let peaks_ok = got_peaks == ref_peaks;
			if size != r.size() || got_root.as_ref().ok() != Some(&r.root()) || !peaks_ok {
				run.violation(
					&format!("section=C5;after={};event=size_root_or_peaks_mismatch", what),
					&format!(
						"after {} the PMMR reports size {} root {:?} and {} peaks; the MMR of the {} elements appended so far has size {} root {} and {} peaks",
						what, size, got_root, got_peaks.len(), cur.len(), r.size(), r.root(), ref_peaks.len()
					),
					json!({"program": pi, "seed": seed, "steps": trace}),
				);
				return;
			}
			if !cur.is_empty() {
				let li = pr.usize_below(cur.len());
				let pos0 = pmmr::insertion_to_pmmr_index(li as u64);
				match pm.merkle_proof(pos0) {
					Ok(proof) if proof.verify(r.root(), &cur[li], pos0).is_ok() => run.count("C5.proofs_checked", 1),
					other => {
						run.violation(
							&format!("section=C5;after={};fn=merkle_proof;event=honest_proof_fails", what),
							&format!("leaf {} of {}: {:?}", li, cur.len(), other.map(|_| "proof does not verify")),
							json!({"program": pi, "seed": seed, "steps": trace, "leaf": li}),
						);
						return;
					}
				}
			}
		}
		if faults_seen > 0 {
			run.count("C5.programs_with_backend_errors", 1);
		}
	}
}

/// C6: Merkle proofs in MMRs far too tall to build. A proof only touches one branch, so the MMR with 2^k + r leaves is
/// given by definition: a random element at a random leaf of one peak, random hashes for its siblings up to the peak
/// and for the other peaks; positions by the layout of perfect subtrees in postorder (u128 arithmetic), parent hash over
/// (position, left, right), peaks bagged right to left with the size. The path of the definition — siblings, the bag
/// of the peaks to the right, then the peaks to the left nearest first — must verify for exactly that element and
/// position against that root, and none of the corruptions may.
fn section_c6(run: &Run, seed: u64, per_height: usize) {
	let mut pr = Prng::new(seed ^ 0xC6C6);
	let rh = |pr: &mut Prng| -> Hash {
		let mut b = [0u8; 32];
		for c in b.chunks_mut(8) {
			c.copy_from_slice(&pr.next_u64().to_be_bytes());
		}
		Hash::from_vec(&b)
	};
	for k in 1u32..=61 {
		for rep in 0..per_height {
			// leaf counts: exact power of two, just above it, and others with more peaks
			let r: u64 = match rep % 6 {
				0 => 0,
				1 => 1,
				2 => 2 + pr.below(6),
				3 => {
					if k >= 2 {
						1u64 << (k - 1)
					} else {
						1
					}
				}
				4 => ((1u64 << k) - 1) & pr.next_u64(),
				_ => pr.below(1u64 << k.min(20)),
			};
			let r = r.min((1u64 << k) - 1);
			let n_leaves: u64 = (1u64 << k) + r;
			// peaks (left to right): (start position, height), by the binary decomposition of the leaf count
			let mut peaks: Vec<(u128, u32)> = vec![];
			let mut start: u128 = 0;
			for b in (0..=k).rev() {
				if n_leaves & (1u64 << b) != 0 {
					peaks.push((start, b));
					start += (1u128 << (b + 1)) - 1;
				}
			}
			let size = start; // number of nodes
			if size >= (1u128 << 63) {
				continue;
			}
			let size = size as u64;
			// the peak the leaf sits under: the tallest one mostly, any other now and then
			let j = if peaks.len() > 1 && rep % 3 == 2 { pr.usize_below(peaks.len()) } else { 0 };
			let (pstart, ph) = peaks[j];
			let leaf_in_peak: u64 = if ph == 0 { 0 } else { pr.next_u64() & ((1u64 << ph) - 1) };
			// walk down from the peak's root to the leaf, then hash up
			let mut st = pstart;
			let mut sibs_top_down: Vec<(u128, bool)> = vec![]; // (parent position, leaf side is left)
			for h in (1..=ph).rev() {
				let parent = st + (1u128 << (h + 1)) - 2;
				let go_right = (leaf_in_peak >> (h - 1)) & 1 == 1;
				sibs_top_down.push((parent, !go_right));
				if go_right {
					st += (1u128 << h) - 1;
				}
			}
			let leaf_pos = st as u64;
			let elem = TestElem([pr.next_u32(), pr.next_u32(), pr.next_u32(), pr.next_u32()]);
			let mut path: Vec<Hash> = vec![];
			let mut node = elem.hash_with_index(leaf_pos);
			for (parent, node_is_left) in sibs_top_down.iter().rev() {
				let sib = rh(&mut pr);
				path.push(sib);
				node = if *node_is_left { (node, sib).hash_with_index(*parent as u64) } else { (sib, node).hash_with_index(*parent as u64) };
			}
			// peaks to the right, bagged; peaks to the left
			let right: Vec<Hash> = (j + 1..peaks.len()).map(|_| rh(&mut pr)).collect();
			let left: Vec<Hash> = (0..j).map(|_| rh(&mut pr)).collect();
			let mut acc = node;
			if !right.is_empty() {
				let mut bag = *right.last().unwrap();
				for hsh in right.iter().rev().skip(1) {
					bag = (*hsh, bag).hash_with_index(size);
				}
				path.push(bag);
				acc = (acc, bag).hash_with_index(size);
			}
			for hsh in left.iter().rev() {
				path.push(*hsh);
				acc = (*hsh, acc).hash_with_index(size);
			}
			let root = acc;
			let proof = MerkleProof { mmr_size: size, path: path.clone() };
			let cls = format!("C6:k={};peaks={};under={}", k, peaks.len().min(4), if j == 0 { "tallest" } else { "other" });
			run.eval(&cls, true);
			run.count("C6.tall_proofs_by_definition", 1);
			if path.len() as u32 == k + 1 {
				run.count("C6.paths_of_maximal_length_k_plus_1", 1);
			}
			let replay = json!({"section": "C6", "k": k, "n_leaves": n_leaves.to_string(), "size": size.to_string(), "leaf_pos": leaf_pos.to_string(), "peak_index": j, "path_len": path.len(), "seed": seed});
			match catch(|| proof.verify(root, &elem, leaf_pos)) {
				Ok(Ok(())) => {}
				Ok(Err(e)) => {
					run.violation(
						&format!("section=C6;fn=MerkleProof::verify;event=honest_proof_fails;under={}", if j == 0 { "tallest_peak" } else { "other_peak" }),
						&format!("the proof by definition of the leaf at position {} in the MMR with 2^{} + {} leaves (size {}, path of {} hashes) does not verify: {:?}", leaf_pos, k, r, size, path.len(), e),
						replay.clone(),
					);
					return;
				}
				Err(p) => {
					run.violation(&format!("section=C6;fn=MerkleProof::verify;event=panic@{}", p.location), &p.message, replay.clone());
					return;
				}
			}
			// corruptions
			let other = TestElem([elem.0[0] ^ 1, elem.0[1], elem.0[2], elem.0[3]]);
			let mut bad: Vec<(&str, bool)> = vec![("other_element", proof.verify(root, &other, leaf_pos).is_ok())];
			if !path.is_empty() {
				let idx = pr.usize_below(path.len());
				let mut p2 = path.clone();
				p2[idx] = rh(&mut pr);
				bad.push(("path_hash_replaced", MerkleProof { mmr_size: size, path: p2 }.verify(root, &elem, leaf_pos).is_ok()));
				let mut p3 = path.clone();
				p3.pop();
				bad.push(("path_shortened", MerkleProof { mmr_size: size, path: p3 }.verify(root, &elem, leaf_pos).is_ok()));
			}
			let mut p4 = path.clone();
			p4.push(rh(&mut pr));
			bad.push(("path_lengthened", MerkleProof { mmr_size: size, path: p4 }.verify(root, &elem, leaf_pos).is_ok()));
			if ph >= 1 {
				// the sibling leaf's position
				let sib_leaf = if leaf_in_peak & 1 == 0 { leaf_pos + 1 } else { leaf_pos - 1 };
				bad.push(("position_of_the_sibling_leaf", proof.verify(root, &elem, sib_leaf).is_ok()));
			}
			for (name, accepted) in bad {
				run.count("C6.corruptions_checked", 1);
				if accepted {
					run.violation(
						&format!("section=C6;fn=MerkleProof::verify;event=corrupted_proof_verifies;class={}", name),
						&format!("k={} r={} leaf position {}: corruption '{}' verifies", k, r, leaf_pos, name),
						replay.clone(),
					);
					return;
				}
			}
		}
	}
}

/// C2: rewind of the mutable PMMR over VecBackend: from one base MMR to every
/// position, then pushes on top; plus random push/rewind programs.
fn section_c2(run: &Run, seed: u64, rw_leaves: usize, n_programs: usize, budget_s: f64) {
	let dl = Deadline::new(budget_s);
	let mut prng = Prng::new(seed ^ 0xC2);
	let elems = gen_elems(&mut prng, rw_leaves);
	let base_ref = RefMMR::from_elems(&elems, true);
	let mut base_be = VB::new();
	{
		let mut pm = PMMR::new(&mut base_be);
		for e in &elems {
			let _ = pm.push(e);
		}
	}
	let total = base_ref.size();
	let (base_ref, base_be, elems) = (&base_ref, &base_be, &elems);
	let next_prog = AtomicUsize::new(0);
	par(run, |ti, l| {
		let mut prng = Prng::new(seed ^ 0xC22 ^ ((ti as u64) << 32));
		let empty = Bitmap::new();
		// (a) every rewind target
		let mut p = ti as u64;
		while p <= total {
			if dl.over() {
				break;
			}
			let (n, size) = base_ref.valid_size_at_or_after(p).unwrap();
			let rp = move || json!({"section": "C2a", "seed": seed, "base_leaves": rw_leaves, "rewind_to": p});
			let mut be = base_be.clone();
			let mut cur: Vec<TestElem> = elems[..n].to_vec();
			{
				let mut pm = PMMR::at(&mut be, total);
				check(run, l, "PMMR::rewind", "rewind_every_pos", &rp, Ok(()), || {
					pm.rewind(p, &empty)
				});
				let hp = base_ref.peak_hashes(base_ref.hist_peaks(n));
				if cmp_view(
					run,
					l,
					&pm,
					PMMR_N,
					"rewind_every_pos",
					&rp,
					size,
					base_ref.root_of_leaves(n),
					&hp,
				) {
					l.c("C.rewind_roots_equal_reference", 1);
				}
				// push on top of the rewound MMR; the reference is the truncated
				// prefix of the base table (prefix stability) extended by the definition
				let mut r2 = base_ref.clone();
				r2.truncate_to_leaves(n);
				let k = 1 + (p % 3) as usize;
				for _ in 0..k {
					let e = TestElem([
						prng.next_u32(),
						prng.next_u32(),
						prng.next_u32(),
						prng.next_u32(),
					]);
					cur.push(e);
					let exp_pos = r2.push(&e);
					check(
						run,
						l,
						"PMMR::push",
						"push_after_rewind",
						&rp,
						Ok(exp_pos),
						|| pm.push(&e),
					);
					let hp2 = r2.peak_hashes(&r2.peaks);
					cmp_view(
						run,
						l,
						&pm,
						PMMR_N,
						"push_after_rewind",
						&rp,
						r2.size(),
						r2.root(),
						&hp2,
					);
				}
				drop(pm);
				if n <= 64 || p % 61 == 0 {
					// self-check of truncate+push against a from-scratch rebuild
					let r3 = RefMMR::from_elems(&cur, false);
					l.c("ref_selfcheck.cases", 1);
					if r3.root() != r2.root() || r3.size() != r2.size() {
						l.c("ref_selfcheck.mismatches", 1);
						inconc(run, "RefMMR truncate+push differs from rebuild: harness error");
					}
				}
				cmp_backend(run, l, "push_after_rewind", &rp, &be, &r2, &cur);
			}
			l.case(&[6, (size - p).min(20), n.count_ones() as u64]);
			p += NTHREADS as u64;
		}
		// (b) random programs
		loop {
			let pi = next_prog.fetch_add(1, Ordering::Relaxed);
			if pi >= n_programs || dl.over() {
				break;
			}
			let pseed = seed ^ 0xC2B ^ ((pi as u64) << 20);
			let mut pr = Prng::new(pseed);
			let mut be = VB::new();
			let mut cur: Vec<TestElem> = vec![];
			let mut size = 0u64;
			let n_steps = pr.range(20, 60);
			let mut ops: Vec<Value> = vec![];
			for _ in 0..n_steps {
				let do_rewind = size > 0 && pr.chance(2, 5);
				let mut pm = PMMR::at(&mut be, size);
				if do_rewind {
					let to = match pr.below(4) {
						0 => size - pr.below(size.min(8) + 1).min(size),
						1 => 0,
						_ => pr.range(0, size),
					};
					ops.push(json!({"rewind": to}));
					let opsc = ops.clone();
					let rp = move || json!({"section": "C2b", "program_seed": pseed, "ops": opsc});
					check(run, l, "PMMR::rewind", "program", &rp, Ok(()), || {
						pm.rewind(to, &empty)
					});
					// reference: keep the leaves at positions below the rewind target
					let tmp = RefMMR::from_elems(&cur, false);
					let (n, _) = tmp.valid_size_at_or_after(to).unwrap();
					cur.truncate(n);
				} else {
					let k = match pr.below(3) {
						0 => 1,
						1 => pr.range(1, 8),
						_ => pr.range(1, 70),
					};
					ops.push(json!({"push": k}));
					for _ in 0..k {
						let e = if !cur.is_empty() && pr.chance(1, 8) {
							cur[pr.usize_below(cur.len())]
						} else {
							TestElem([pr.next_u32(), pr.next_u32(), pr.next_u32(), pr.next_u32()])
						};
						cur.push(e);
						let _ = pm.push(&e);
					}
				}
				let r2 = RefMMR::from_elems(&cur, false);
				let opsc = ops.clone();
				let rp = move || json!({"section": "C2b", "program_seed": pseed, "ops": opsc});
				let hp = r2.peak_hashes(&r2.peaks);
				if cmp_view(run, l, &pm, PMMR_N, "program", &rp, r2.size(), r2.root(), &hp) {
					l.c("C.rewind_roots_equal_reference", do_rewind as u64);
				}
				size = pm.unpruned_size();
				drop(pm);
				cmp_backend(run, l, "program", &rp, &be, &r2, &cur);
				l.case(&[7, do_rewind as u64, r2.peaks.len() as u64]);
				if size != r2.size() {
					break; // diverged: already reported
				}
			}
		}
		// (c) one long-lived PMMR object, observed only at chosen moments: root() at size S, rewind, push
		// DIFFERENT leaves back to exactly size S (and beyond / short of it) with no observation in
		// between, then observe again. Anything the object remembers about an earlier state of the same
		// size (or forgets to invalidate on rewind / push) shows here and nowhere else.
		let mut ci = ti;
		while ci < 4 * n_programs {
			if dl.over() {
				break;
			}
			let pseed = seed ^ 0xC2C ^ ((ci as u64) << 20);
			let mut pr = Prng::new(pseed);
			let mut be = VB::new();
			let mut pm = PMMR::new(&mut be);
			let mut cur: Vec<TestElem> = vec![];
			let fresh = |pr: &mut Prng| TestElem([pr.next_u32(), pr.next_u32(), pr.next_u32(), pr.next_u32()]);
			let n0 = pr.range(2, 70) as usize;
			for _ in 0..n0 {
				let e = fresh(&mut pr);
				cur.push(e);
				let _ = pm.push(&e);
			}
			let mut ops: Vec<Value> = vec![json!({"push": n0}), json!("observe")];
			let mut ok = {
				let r = RefMMR::from_elems(&cur, false);
				let opsc = ops.clone();
				let rp = move || json!({"section": "C2c", "program_seed": pseed, "ops": opsc});
				cmp_view(run, l, &pm, PMMR_N, "same_object_rewind_repush", &rp, r.size(), r.root(), &r.peak_hashes(&r.peaks))
			};
			let rounds = pr.range(1, 4);
			for _ in 0..rounds {
				if !ok {
					break;
				}
				let n = cur.len();
				let keep = pr.usize_below(n);
				let back = match pr.below(4) {
					0 => n - keep + 1 + pr.usize_below(3), // beyond the old size
					1 if n - keep > 1 => n - keep - 1,     // short of it
					_ => n - keep,                         // exactly the old size
				};
				let tmp = RefMMR::from_elems(&cur, false);
				let to = tmp.size_after[keep] as u64;
				let r = pm.rewind(to, &empty);
				if r.is_err() {
					break;
				}
				cur.truncate(keep);
				for _ in 0..back {
					let e = fresh(&mut pr);
					cur.push(e);
					let _ = pm.push(&e);
				}
				ops.push(json!({"rewind_to_leaves": keep}));
				ops.push(json!({"push_different": back}));
				ops.push(json!("observe"));
				let r = RefMMR::from_elems(&cur, false);
				let opsc = ops.clone();
				let rp = move || json!({"section": "C2c", "program_seed": pseed, "ops": opsc});
				ok = cmp_view(run, l, &pm, PMMR_N, "same_object_rewind_repush", &rp, r.size(), r.root(), &r.peak_hashes(&r.peaks));
				if ok {
					l.c("C.same_object_repush_roots_equal_reference", 1);
					if back == n - keep {
						l.c("C.same_object_repush_to_the_same_size", 1);
					}
				}
				l.case(&[8, (back == n - keep) as u64, r.peaks.len() as u64]);
			}
			ci += NTHREADS;
		}
	});
	if dl.was_hit() {
		inconc(run, "section C2: time budget hit");
	}
}

// ---------------------------------------------------------------- proof checks (used by C3 and D)

fn flip_bit(h: &Hash, bit: usize) -> Hash {
	let mut v = h.to_vec();
	v[(bit / 8) % 32] ^= 1 << (bit % 8);
	Hash::from_vec(&v)
}

fn rand_hash(prng: &mut Prng) -> Hash {
	Hash::from_vec(&prng.bytes(32))
}

/// A corrupted proof / claim must be rejected. Returns true if it was.
fn must_fail(
	run: &Run,
	l: &mut Local,
	corruption: &'static str,
	rp: &dyn Fn() -> Value,
	proof: &MerkleProof,
	root: Hash,
	elem: &TestElem,
	pos: u64,
) -> bool {
	l.c("MerkleProof::verify", 1);
	match catch(|| proof.verify(root, elem, pos)) {
		Ok(Err(_)) => {
			l.c("D.corruptions_rejected", 1);
			l.c(corruption, 1);
			true
		}
		Ok(Ok(())) => {
			run.violation(
				&format!("proof;corruption={};event=verified", &corruption[2..]),
				&format!(
					"a Merkle proof corrupted by '{}' still verifies against the root",
					&corruption[2..]
				),
				rp(),
			);
			false
		}
		Err(p) => {
			run.violation(
				&format!(
					"proof;corruption={};event=panic@{}",
					&corruption[2..],
					norm_loc(&p.location)
				),
				&format!("MerkleProof::verify panicked: {}", p.message),
				rp(),
			);
			false
		}
	}
}

/// All checks for one leaf of one MMR prefix.
/// `other_positions`: leaf positions of the same MMR to try as wrong positions.
#[allow(clippy::too_many_arguments)]
fn check_leaf_proof<P: ReadablePMMR>(
	run: &Run,
	l: &mut Local,
	prng: &mut Prng,
	view: &P,
	view_name: &'static str,
	r: &RefMMR,
	elems: &[TestElem],
	n: usize,
	leaf: usize,
	other_leaves: &[usize],
	ctx: &dyn Fn() -> Value,
) {
	let size = r.size_after[n] as u64;
	let pos = r.leaf_pos[leaf] as u64;
	let elem = elems[leaf];
	let root = r.root_of_leaves(n);
	let rp = || {
		let mut v = ctx();
		v["n_leaves"] = json!(n);
		v["mmr_size"] = json!(size);
		v["leaf_index"] = json!(leaf);
		v["leaf_pos"] = json!(pos);
		v
	};
	let proof = match guarded(run, l, view_name, "honest", &rp, || view.merkle_proof(pos)) {
		Some(Ok(p)) => p,
		Some(Err(e)) => {
			run.violation(
				"proof;honest;event=merkle_proof_error",
				&format!("merkle_proof({}) on an MMR of size {} failed: {}", pos, size, e),
				rp(),
			);
			return;
		}
		None => return,
	};
	// reference path and its self-check
	let ref_path = r.proof_path(size, pos);
	if r.root_from_path(size, pos, &elem, &ref_path) != Some(root) {
		l.c("ref_selfcheck.mismatches", 1);
		inconc(run, "reference proof path does not recompute the reference root: harness error");
		return;
	}
	l.c("ref_selfcheck.cases", 1);
	check(run, l, "proof.path==reference_path", "honest", &rp, &ref_path, || {
		&proof.path
	});
	// honest verification against the reference root
	l.c("MerkleProof::verify", 1);
	match catch(|| proof.verify(root, &elem, pos)) {
		Ok(Ok(())) => l.c("D.honest_proofs_verified", 1),
		Ok(Err(e)) => run.violation(
			"proof;honest;event=rejected",
			&format!(
				"honest Merkle proof does not verify against the reference root: {:?}",
				e
			),
			rp(),
		),
		Err(p) => run.violation(
			&format!("proof;honest;event=panic@{}", norm_loc(&p.location)),
			&format!("MerkleProof::verify panicked: {}", p.message),
			rp(),
		),
	}
	// --- corruptions
	// substituted element (skip legitimately equal elements)
	let mut subs: Vec<TestElem> = vec![TestElem([
		prng.next_u32(),
		prng.next_u32(),
		prng.next_u32(),
		prng.next_u32(),
	])];
	if n > 1 {
		subs.push(elems[(leaf + 1) % n]);
		subs.push(elems[prng.usize_below(n)]);
	}
	let mut e1 = elem;
	e1.0[prng.usize_below(4)] ^= 1 << prng.below(32);
	subs.push(e1);
	for s in subs {
		if s == elem {
			l.c("D.skipped.identical_element", 1);
			continue;
		}
		must_fail(run, l, "D.element_substituted", &|| {
			let mut v = rp();
			v["corruption"] = json!({"element": s.0});
			v
		}, &proof, root, &s, pos);
	}
	// other leaf positions
	for ol in other_leaves {
		if *ol == leaf {
			continue;
		}
		let op = r.leaf_pos[*ol] as u64;
		must_fail(run, l, "D.other_leaf_position", &|| {
			let mut v = rp();
			v["corruption"] = json!({"position": op});
			v
		}, &proof, root, &elem, op);
	}
	// a few non-leaf / outside positions
	let mut others: Vec<u64> = vec![pos + 1, size, size + 1, size + 2];
	let par_ = r.nodes[pos as usize].parent;
	if par_ != NONE {
		others.push(par_ as u64);
	}
	if pos > 0 {
		others.push(pos - 1);
	}
	others.sort_unstable();
	others.dedup();
	for op in others {
		if op == pos {
			continue;
		}
		must_fail(run, l, "D.other_non_leaf_or_outside_position", &|| {
			let mut v = rp();
			v["corruption"] = json!({"position": op});
			v
		}, &proof, root, &elem, op);
	}
	// each path hash altered
	for i in 0..proof.path.len() {
		let mut pr2 = proof.clone();
		let bit = prng.below(256) as usize;
		pr2.path[i] = flip_bit(&pr2.path[i], bit);
		must_fail(run, l, "D.path_hash_flipped", &|| {
			let mut v = rp();
			v["corruption"] = json!({"flip_path_index": i, "bit": bit});
			v
		}, &pr2, root, &elem, pos);
	}
	// shortened
	if !proof.path.is_empty() {
		let mut a = proof.clone();
		a.path.remove(0);
		must_fail(run, l, "D.path_shortened_front", &|| {
			let mut v = rp();
			v["corruption"] = json!("remove first path entry");
			v
		}, &a, root, &elem, pos);
		let mut b = proof.clone();
		b.path.pop();
		must_fail(run, l, "D.path_shortened_back", &|| {
			let mut v = rp();
			v["corruption"] = json!("remove last path entry");
			v
		}, &b, root, &elem, pos);
	} else {
		l.c("D.skipped.empty_path_cannot_be_shortened", 1);
	}
	// lengthened
	{
		let x = rand_hash(prng);
		let mut a = proof.clone();
		a.path.insert(0, x);
		must_fail(run, l, "D.path_lengthened_front", &|| {
			let mut v = rp();
			v["corruption"] = json!({"insert_front": format!("{}", x)});
			v
		}, &a, root, &elem, pos);
		let mut b = proof.clone();
		b.path.push(x);
		must_fail(run, l, "D.path_lengthened_back", &|| {
			let mut v = rp();
			v["corruption"] = json!({"push_back": format!("{}", x)});
			v
		}, &b, root, &elem, pos);
		if let Some(last) = proof.path.last().cloned() {
			let mut c = proof.clone();
			c.path.push(last);
			must_fail(run, l, "D.path_lengthened_duplicate_last", &|| {
				let mut v = rp();
				v["corruption"] = json!("duplicate last path entry");
				v
			}, &c, root, &elem, pos);
			let first = proof.path[0];
			let mut d = proof.clone();
			d.path.insert(0, first);
			must_fail(run, l, "D.path_lengthened_duplicate_first", &|| {
				let mut v = rp();
				v["corruption"] = json!("duplicate first path entry");
				v
			}, &d, root, &elem, pos);
		}
		// the root itself / the leaf hash appended
		let mut e = proof.clone();
		e.path.push(root);
		must_fail(run, l, "D.path_lengthened_back", &|| {
			let mut v = rp();
			v["corruption"] = json!("push root at back");
			v
		}, &e, root, &elem, pos);
	}
	// shape: number of peaks, index of the leaf's peak, branch length
	let peaks = r.peaks_of_size(size).unwrap();
	let branch_len = tbl_family_branch(r, pos as u32, size).len();
	let mut top = pos as u32;
	while r.nodes[top as usize].parent != NONE && (r.nodes[top as usize].parent as u64) < size {
		top = r.nodes[top as usize].parent;
	}
	let k = peaks.iter().position(|p| *p == top).unwrap_or(99);
	l.case(&[8, peaks.len() as u64, k as u64, branch_len as u64]);
}

// ---------------------------------------------------------------- section C3: random large MMRs

fn near_pow2(n: u64) -> bool {
	(n.wrapping_sub(2)..=n + 2).any(|x| x.is_power_of_two())
}

fn section_c3(run: &Run, seed: u64, targets: &[usize], budget_s: f64) {
	let dl = Deadline::new(budget_s);
	let next = AtomicUsize::new(0);
	par(run, |_ti, l| loop {
		let k = next.fetch_add(1, Ordering::Relaxed);
		if k >= targets.len() || dl.over() {
			break;
		}
		let nl = targets[k];
		let tseed = seed ^ 0xC3 ^ ((k as u64) << 24);
		let mut prng = Prng::new(tseed);
		let elems = gen_elems(&mut prng, nl);
		let mut r = RefMMR::new(false);
		let mut be = VB::new();
		let mut timed_out = false;
		const CL: &str = "random_large";
		{
			let mut pm = PMMR::new(&mut be);
			for n in 1..=nl {
				let e = elems[n - 1];
				let exp_pos = r.push(&e);
				let rp = move || json!({"section": "C3", "task_seed": tseed, "target_leaves": nl, "n_leaves": n});
				check(run, l, "PMMR::push", CL, &rp, Ok(exp_pos), || pm.push(&e));
				if pm.size != r.size() {
					check(run, l, "PMMR::unpruned_size", CL, &rp, r.size(), || {
						pm.unpruned_size()
					});
					break;
				}
				let nn = n as u64;
				if nn % 16 == 0 || near_pow2(nn) || n + 32 >= nl || prng.chance(1, 64) {
					let hp = r.peak_hashes(&r.peaks);
					if cmp_view(run, l, &pm, PMMR_N, CL, &rp, r.size(), r.root(), &hp) {
						l.c("C.roots_equal_reference", 1);
					}
					l.case(&[9, r.peaks.len() as u64, nn.trailing_zeros() as u64, r_bits(nn as u128) as u64]);
				}
				if n % 4096 == 0 && dl.over() {
					timed_out = true;
					break;
				}
			}
			if !timed_out {
				let rpv = move || json!({"section": "C3", "task_seed": tseed, "target_leaves": nl, "op": "validate"});
				check(run, l, "PMMR::validate", CL, &rpv, Ok(()), || pm.validate());
			}
		}
		if timed_out {
			continue;
		}
		run.set_max("C3.max_leaves_reached", nl as u64);
		let n_now = r.n_leaves() as usize;
		let rph = move || json!({"section": "C3", "task_seed": tseed, "target_leaves": nl});
		cmp_backend(run, l, CL, &rph, &be, &r, &elems[..n_now]);
		// sampled prefix views and rewindable views
		let total = r.size();
		for j in 0..64 {
			let n = match j % 4 {
				0 => prng.usize_below(n_now + 1),
				1 => n_now - prng.usize_below(n_now.min(40) + 1).min(n_now),
				2 => (1usize << prng.below(r_bits(n_now as u128) as u64)).min(n_now),
				_ => ((1usize << prng.below(r_bits(n_now as u128) as u64)) - 1).min(n_now),
			};
			let size = r.size_after[n] as u64;
			let pk = r.peaks_of_size(size).unwrap();
			let hp = r.peak_hashes(&pk);
			let root = r.bag(&pk, size);
			let rp = move || json!({"section": "C3", "task_seed": tseed, "target_leaves": nl, "view_leaves": n});
			let ro = ReadonlyPMMR::at(&be, size);
			cmp_view(run, l, &ro, RO_N, "prefix_view_large", &rp, size, root, &hp);
			// p lies in (previous valid size, size] so rewinding to p gives `size`
			let p = if n == 0 {
				0
			} else {
				prng.range(r.size_after[n - 1] as u64 + 1, size)
			};
			let mut rw = RewindablePMMR::at(&be, total);
			let rp2 = move || json!({"section": "C3", "task_seed": tseed, "target_leaves": nl, "rewind_to": p});
			check(run, l, "RewindablePMMR::rewind", "rewind_view_large", &rp2, Ok(()), || {
				rw.rewind(p)
			});
			let ro2 = rw.as_readonly();
			cmp_view(run, l, &ro2, RW_N, "rewind_view_large", &rp2, size, root, &hp);
			l.case(&[10, pk.len() as u64, (size - p).min(20)]);
		}
		// sampled Merkle proofs at full size and at a few prefixes
		for j in 0..24 {
			let n = if j < 12 { n_now } else { 1 + prng.usize_below(n_now) };
			let leaf = match j % 3 {
				0 => prng.usize_below(n),
				1 => n - 1 - prng.usize_below(n.min(5)),
				_ => prng.usize_below(n.min(5)),
			};
			let others: Vec<usize> = (0..24)
				.map(|q| match q % 3 {
					0 => prng.usize_below(n),
					1 => (leaf ^ 1).min(n - 1),
					_ => (leaf + 1 + prng.usize_below(4)).min(n - 1),
				})
				.collect();
			let ro = ReadonlyPMMR::at(&be, r.size_after[n] as u64);
			let ctx = move || json!({"section": "C3-proof", "task_seed": tseed, "target_leaves": nl});
			check_leaf_proof(
				run,
				l,
				&mut prng,
				&ro,
				"ReadonlyPMMR::merkle_proof",
				&r,
				&elems,
				n,
				leaf,
				&others,
				&ctx,
			);
		}
		// rewind the real PMMR somewhere into the last quarter, compare, push again
		if n_now >= 8 {
			let empty = Bitmap::new();
			let to = prng.range(total - total / 4, total);
			let (n, size) = r.valid_size_at_or_after(to).unwrap();
			let rp = move || json!({"section": "C3", "task_seed": tseed, "target_leaves": nl, "rewind_to": to});
			let mut pm = PMMR::at(&mut be, total);
			check(run, l, "PMMR::rewind", "rewind_large", &rp, Ok(()), || {
				pm.rewind(to, &empty)
			});
			r.truncate_to_leaves(n);
			let hp = r.peak_hashes(&r.peaks);
			if cmp_view(run, l, &pm, PMMR_N, "rewind_large", &rp, size, r.root(), &hp) {
				l.c("C.rewind_roots_equal_reference", 1);
			}
			let mut cur: Vec<TestElem> = elems[..n].to_vec();
			for _ in 0..100 {
				let e = TestElem([prng.next_u32(), prng.next_u32(), prng.next_u32(), prng.next_u32()]);
				cur.push(e);
				let exp_pos = r.push(&e);
				check(run, l, "PMMR::push", "push_after_rewind_large", &rp, Ok(exp_pos), || {
					pm.push(&e)
				});
				let hp = r.peak_hashes(&r.peaks);
				cmp_view(run, l, &pm, PMMR_N, "push_after_rewind_large", &rp, r.size(), r.root(), &hp);
			}
			drop(pm);
			cmp_backend(run, l, "push_after_rewind_large", &rp, &be, &r, &cur);
			l.case(&[11, (size - to).min(20)]);
		}
	});
	if dl.was_hit() {
		inconc(run, "section C3: time budget hit before all random large MMRs were done");
	}
}

// ---------------------------------------------------------------- section D: Merkle proofs, exhaustive small

fn section_d(run: &Run, seed: u64, ml: usize, sizes: &[usize], budget_s: f64) {
	let dl = Deadline::new(budget_s);
	let mut prng = Prng::new(seed ^ 0xD0);
	let elems = gen_elems(&mut prng, ml);
	let r = RefMMR::from_elems(&elems, true);
	// pass 1: mutable PMMR grown leaf by leaf; every leaf's proof equals the reference path
	let mut l = Local::new();
	{
		let mut be = VB::new();
		let mut pm = PMMR::new(&mut be);
		let mut next_size = 0usize;
		for n in 1..=ml {
			let _ = pm.push(&elems[n - 1]);
			if dl.over() {
				break;
			}
			while next_size < sizes.len() && sizes[next_size] < n {
				next_size += 1;
			}
			if next_size >= sizes.len() || sizes[next_size] != n {
				continue;
			}
			let size = r.size_after[n] as u64;
			let root = r.root_of_leaves(n);
			for leaf in 0..n {
				let pos = r.leaf_pos[leaf] as u64;
				let rp = move || json!({"section": "D1", "seed": seed, "n_leaves": n, "leaf_pos": pos});
				if let Some(res) =
					guarded(run, &mut l, "PMMR::merkle_proof", "honest", &rp, || pm.merkle_proof(pos))
				{
					match res {
						Ok(proof) => {
							let ref_path = r.proof_path(size, pos);
							check(run, &mut l, "proof.path==reference_path", "honest_pmmr", &rp, &ref_path, || &proof.path);
							check(run, &mut l, "MerkleProof::verify(honest)", "honest_pmmr", &rp, Ok(()), || {
								proof.verify(root, &elems[leaf], pos)
							});
						}
						Err(e) => run.violation(
							"proof;honest;event=merkle_proof_error",
							&format!("PMMR::merkle_proof({}) failed on size {}: {}", pos, size, e),
							rp(),
						),
					}
				}
				l.evals += 1;
			}
			// observations outside the claim: proofs for non-leaves / beyond the size
			for p in [size, size + 1, 2u64.min(size)] {
				if let Ok(res) = catch(|| pm.merkle_proof(p)) {
					if res.is_err() {
						l.c("observed.merkle_proof_refused_for_non_leaf_or_absent_pos", 1);
					}
				}
			}
		}
	}
	// pass 1b: the same with leaves removed (spent). A proof of a PRESENT leaf does not depend on which other leaves
	// are spent: the MMR commits to every leaf hash ever appended. For each n up to 40 leaves and several removal
	// patterns (the last leaf — a lone peak when n is odd —, the first leaf, a sibling, every second leaf, random).
	{
		let nmax = ml.min(40);
		for n in 2..=nmax {
			if dl.over() {
				break;
			}
			let size = r.size_after[n] as u64;
			let root = r.root_of_leaves(n);
			let mut patterns: Vec<(&'static str, Vec<usize>)> = vec![("last_leaf", vec![n - 1]), ("first_leaf", vec![0]), ("every_second", (0..n).step_by(2).collect())];
			if n >= 3 {
				patterns.push(("last_two", vec![n - 2, n - 1]));
				patterns.push(("random", (0..n).filter(|_| prng.chance(1, 3)).collect()));
			}
			for (pname, removed) in patterns {
				let mut be = VB::new();
				let mut pm = PMMR::new(&mut be);
				for e in &elems[..n] {
					let _ = pm.push(e);
				}
				for &x in &removed {
					let _ = pm.prune(r.leaf_pos[x] as u64);
				}
				for leaf in (0..n).filter(|x| !removed.contains(x)) {
					let pos = r.leaf_pos[leaf] as u64;
					let rp = move || json!({"section": "D1b", "seed": seed, "n_leaves": n, "leaf_pos": pos, "removed": pname});
					if let Some(Ok(proof)) = guarded(run, &mut l, "PMMR::merkle_proof", "leaves_removed", &rp, || pm.merkle_proof(pos)) {
						let ref_path = r.proof_path(size, pos);
						check(run, &mut l, "proof.path==reference_path", "leaves_removed", &rp, &ref_path, || &proof.path);
						check(run, &mut l, "MerkleProof::verify(honest)", "leaves_removed", &rp, Ok(()), || proof.verify(root, &elems[leaf], pos));
						l.c("D.proofs_of_present_leaves_with_other_leaves_removed", 1);
					} else {
						run.violation(
							"proof;leaves_removed;event=merkle_proof_error",
							&format!("PMMR::merkle_proof({}) of a present leaf failed on an MMR of {} leaves with leaves removed ({})", pos, n, pname),
							rp(),
						);
					}
					l.evals += 1;
				}
			}
		}
	}
	l.flush(run);
	// pass 2: every leaf of every chosen size with every corruption, on prefix views
	let mut be = VB::new();
	{
		let mut pm = PMMR::new(&mut be);
		for e in &elems {
			let _ = pm.push(e);
		}
	}
	let next = AtomicUsize::new(0);
	let done = AtomicUsize::new(0);
	let (r, be, elems) = (&r, &be, &elems);
	par(run, |ti, l| {
		let mut prng = Prng::new(seed ^ 0xD2 ^ ((ti as u64) << 32));
		loop {
			// largest first: the cost of a size is quadratic in it
			let k = next.fetch_add(1, Ordering::Relaxed);
			if k >= sizes.len() || dl.over() {
				break;
			}
			let n = sizes[sizes.len() - 1 - k];
			let all: Vec<usize> = (0..n).collect();
			let ro = ReadonlyPMMR::at(be, r.size_after[n] as u64);
			let ctx = move || json!({"section": "D2", "seed": seed, "built_leaves": ml});
			for leaf in 0..n {
				check_leaf_proof(
					run,
					l,
					&mut prng,
					&ro,
					"ReadonlyPMMR::merkle_proof",
					r,
					elems,
					n,
					leaf,
					&all,
					&ctx,
				);
			}
			done.fetch_add(1, Ordering::Relaxed);
		}
	});
	run.count("D.mmr_sizes_done", done.load(Ordering::Relaxed) as u64);
	run.count("D.mmr_sizes_total", sizes.len() as u64);
	run.sample(json!({"section": "D", "example": "n_leaves=3: leaf 2 at pos 3, path = [peak at pos 2]; leaf 0 at pos 0, path = [hash(1), hash(3)]",
		"ref_root_3_leaves": format!("{}", r.root_of_leaves(3.min(ml)))}));
	if dl.was_hit() {
		inconc(run, "section D: time budget hit before all proof cases were done");
	}
}

// ---------------------------------------------------------------- section E: file backend (n_unpruned_leaves)

fn section_e(run: &Run, seed: u64, nl: usize) {
	use grin_store::pmmr::PMMRBackend;
	let sc = Scratch::new("c07");
	let mut l = Local::new();
	for (vi, prunable) in [true, false].iter().enumerate() {
		let mut prng = Prng::new(seed ^ 0xE0 ^ vi as u64);
		let elems = gen_elems(&mut prng, nl);
		let dir = sc.sub(if *prunable { "prunable" } else { "plain" });
		if std::fs::create_dir_all(&dir).is_err() {
			inconc(run, "section E: cannot create scratch directory");
			continue;
		}
		let mut be = match PMMRBackend::<TestElem>::new(&dir, *prunable, ProtocolVersion(1), None) {
			Ok(b) => b,
			Err(e) => {
				inconc(run, &format!("section E: cannot open file backend: {}", e));
				continue;
			}
		};
		let class: &'static str = if *prunable {
			"store_prunable"
		} else {
			"store_plain"
		};
		let mut r = RefMMR::new(true);
		let mut size = 0u64;
		let mut n = 0usize;
		let empty = Bitmap::new();
		let rewind_at = nl * 2 / 3;
		let mut rewound = false;
		while n < nl {
			let e = elems[n];
			let mut synced = false;
			{
				let mut pm = PMMR::at(&mut be, size);
				let exp_pos = r.push(&e);
				n += 1;
				let nn = n;
				let rp = move || json!({"section": "E", "seed": seed, "prunable": vi == 0, "n_leaves": nn});
				check(run, &mut l, "PMMR::push", class, &rp, Ok(exp_pos), || pm.push(&e));
				let hp = r.peak_hashes(&r.peaks);
				cmp_view(run, &mut l, &pm, PMMR_N, class, &rp, r.size(), r.root(), &hp);
				if *prunable {
					// leaf set is maintained in memory; the non-prunable backend
					// documents that it only reports the fully sync'd size
					check(run, &mut l, "PMMR::n_unpruned_leaves", class, &rp, n as u64, || {
						pm.n_unpruned_leaves()
					});
					let ro = pm.readonly_pmmr();
					check(run, &mut l, "ReadonlyPMMR::n_unpruned_leaves", class, &rp, n as u64, || {
						ro.n_unpruned_leaves()
					});
				}
				size = pm.unpruned_size();
				l.case(&[12, vi as u64, r.peaks.len() as u64]);
			}
			if n % (if *prunable { 97 } else { 5 }) == 0 || n == rewind_at || n == nl {
				if let Err(e) = be.sync() {
					inconc(run, &format!("section E: sync failed: {}", e));
					break;
				}
				synced = true;
				if !*prunable {
					let nn = n;
					let rp = move || json!({"section": "E", "seed": seed, "prunable": false, "n_leaves": nn, "after": "sync"});
					let pm = PMMR::at(&mut be, size);
					check(run, &mut l, "PMMR::n_unpruned_leaves", class, &rp, n as u64, || {
						pm.n_unpruned_leaves()
					});
					let ro = pm.readonly_pmmr();
					check(run, &mut l, "ReadonlyPMMR::n_unpruned_leaves", class, &rp, n as u64, || {
						ro.n_unpruned_leaves()
					});
				}
			}
			if n == rewind_at && !rewound && synced {
				rewound = true;
				let to = prng.range(size / 2, size);
				let (n2, size2) = r.valid_size_at_or_after(to).unwrap();
				let rp = move || json!({"section": "E", "seed": seed, "prunable": vi == 0, "rewind_to": to});
				{
					let mut pm = PMMR::at(&mut be, size);
					check(run, &mut l, "PMMR::rewind", class, &rp, Ok(()), || {
						pm.rewind(to, &empty)
					});
					r.truncate_to_leaves(n2);
					let hp = r.peak_hashes(&r.peaks);
					cmp_view(run, &mut l, &pm, PMMR_N, class, &rp, size2, r.root(), &hp);
					if *prunable {
						check(run, &mut l, "PMMR::n_unpruned_leaves", class, &rp, n2 as u64, || {
							pm.n_unpruned_leaves()
						});
					}
					size = pm.unpruned_size();
				}
				n = n2;
				l.case(&[13, vi as u64]);
				if be.sync().is_err() {
					inconc(run, "section E: sync after rewind failed");
					break;
				}
				{
					let pm = PMMR::at(&mut be, size);
					check(run, &mut l, "PMMR::n_unpruned_leaves", class, &rp, n2 as u64, || {
						pm.n_unpruned_leaves()
					});
				}
			}
		}
	}
	l.flush(run);
}

// ---------------------------------------------------------------- main

static INCONC: std::sync::atomic::AtomicU64 = std::sync::atomic::AtomicU64::new(0);

fn inconc(run: &Run, what: &str) {
	INCONC.fetch_add(1, Ordering::Relaxed);
	run.inconclusive(what);
}

const PURE_FNS: [&str; 20] = [
	"peak_map_height",
	"peak_sizes_height.height",
	"peak_sizes_height.sizes",
	"peaks",
	"n_leaves",
	"round_up_to_leaf_pos",
	"insertion_to_pmmr_index",
	"pmmr_leaf_to_insertion_index",
	"bintree_postorder_height",
	"is_leaf",
	"family",
	"is_left_sibling",
	"family_branch",
	"bintree_rightmost",
	"bintree_leftmost",
	"bintree_leaf_pos_iter",
	"bintree_pos_iter",
	"bintree_range",
	"PMMR::root",
	"ReadonlyPMMR::root",
];

fn log_uniform(prng: &mut Prng, lo_bits: u64, hi_bits: u64) -> usize {
	let b = prng.range(lo_bits, hi_bits - 1);
	let base = 1u64 << b;
	(base + prng.below(base)) as usize
}

fn main() {
	let run = Run::from_env("C07", "exploration");
	let san = run.args.iter().any(|a| a == "--san");
	let seed = run.seed;
	if run.args.iter().any(|a| a == "--trace") {
		TRACE.store(true, Ordering::Relaxed);
	}
	let thorough = run.tier == vcommon::Tier::Thorough;
	let mut prng = Prng::new(seed);

	// bounds per tier (oracles are identical)
	let (nl_bits, b_random, c2_leaves, c2_programs, c3_hi_bits, c3_lo_bits, d_leaves, e_leaves) = if san {
		(8u32, 5_000usize, 64usize, 6usize, 10u64, 6u64, 24usize, 60usize)
	} else if thorough {
		(15, 2_000_000, 4096, 320, 20, 13, 512, 3000)
	} else {
		(11, 250_000, 1024, 48, 17, 10, 128, 300)
	};
	let nl = 1usize << nl_bits;
	let scale = if san { 3.0 } else { 1.0 }; // sanitizer builds are slow; workloads are 1/10
	// per-section caps (against hangs / overload), all bounded by a global cap
	let (bud_a, bud_b, bud_c1, bud_c2, bud_c3, bud_d) = if thorough {
		(200.0, 250.0, 100.0, 100.0, 250.0, 400.0)
	} else {
		(
			30.0 * scale,
			40.0 * scale,
			15.0 * scale,
			15.0 * scale,
			30.0 * scale,
			30.0 * scale,
		)
	};
	let global_cap = if thorough { 640.0 } else { 75.0 * scale };
	let started = Instant::now();
	let cap = move |b: f64| -> f64 { b.min((global_cap - started.elapsed().as_secs_f64()).max(1.0)) };

	if run.args.iter().any(|a| a == "--phase-b") {
		let (shard, nshards) = run.worker_shard().unwrap_or((0, 1));
		let budget = run.arg_value("--b-budget").and_then(|x| x.parse::<f64>().ok()).unwrap_or(bud_b);
		let only = run.arg_value("--only-arg").and_then(|x| x.parse::<u64>().ok());
		section_b(&run, seed, b_random, budget, shard, nshards, only);
		run.finish_worker();
	}

	run.set_rule(
		"R: RefMMR (explicit node table built by the definition) cross-checked against brute force and a u128 closed form. \
		 A: every position p and size s of the explicit tree with 2*NL leaves (NL = 2^11 quick / 2^15 thorough): all 18 pure position \
		 functions of pmmr.rs compared with table lookups; family_branch(p, s) for every s where its value can change (p, p+1, around \
		 every ancestor, table size, 2 random) and all pairs below 512. \
		 B: the same functions on ~26k structured arguments around 2^k (k=0..64), 2^k±2^j, perfect-tree sizes/roots and the top 3000 \
		 values below u64::MAX, 2^63, 2^32, plus random 64-bit values, compared with the u128 closed form when the true result fits in u64 \
		 (family_branch only for pos < size). \
		 C: PMMR over VecBackend: after every push up to NL leaves size, push position, root, peaks (also via readonly_pmmr()); \
		 ReadonlyPMMR::at for every prefix size; RewindablePMMR rewound to every position; PMMR::rewind to every position of a base MMR \
		 followed by pushes; random push/rewind programs; 16 random MMRs up to 2^17 (quick) / 2^20 (thorough) leaves compared at sampled \
		 points with prefix views, rewinds, sampled proofs. \
		 D: every leaf of every MMR with 1..=128 (quick) / 1..=512 (thorough) leaves: honest proof == reference path and verifies against \
		 the reference root; substituted element (identical ones skipped), every other leaf position, neighbouring non-leaf/outside \
		 positions, every path hash flipped, path shortened front/back, lengthened front/back/duplicates must all be rejected. \
		 E: PMMR over the grin_store file backend (prunable and not): size, root, peaks, n_unpruned_leaves after every push and a rewind. \
		 Elements are random 16-byte values, ~1/8 duplicates. A case is one position / argument / push / view / (MMR size, leaf); \
		 distinct = (section, node height, left/right, validity of size, number of peaks, peak index, branch length, bit length) classes.",
	);
	run.assume("blake2b (Hashed / hash_with_index) and the Writeable encoding of (u64, elem) / (u64, Hash, Hash) are trusted: the reference uses the same hash primitive");
	run.assume("rejection of corrupted proofs relies on collision resistance of the 256-bit hash: an accidental acceptance has probability ~2^-256");
	run.assume("VecBackend::n_unpruned_leaves is unimplemented!() in the test backend, so n_unpruned_leaves is observed on the grin_store file backend only");
	run.extra(
		"bounds",
		json!({"table_leaves": 2 * nl, "incremental_leaves": nl, "huge_random_args": b_random,
			"rewind_base_leaves": c2_leaves, "rewind_programs": c2_programs, "random_large_max_leaves": 1u64 << c3_hi_bits,
			"proof_max_leaves": d_leaves, "store_leaves": e_leaves, "sanitizer_mode": san}),
	);

	// ---- R + A
	let t0 = Instant::now();
	let tb = Table::build(2 * nl, &mut prng.fork(1));
	section_r(&run, &tb);
	if INCONC.load(Ordering::Relaxed) == 0 && run.counter("ref_selfcheck.mismatches") == 0 {
		section_a(&run, &tb, seed, cap(bud_a));
	}
	drop(tb);
	eprintln!("[C07] R+A done at {:.1}s", t0.elapsed().as_secs_f64());

	// ---- B
	run.sample(json!({"section": "B", "arg": u64::MAX, "reference": {"height": r_height(u64::MAX as u128),
		"leaves_below": r_leaves_below(u64::MAX as u128).to_string(), "valid_size": r_is_valid_size(u64::MAX as u128)}}));
	section_b_parent(&run, seed, b_random, cap(bud_b));
	eprintln!("[C07] B done at {:.1}s", t0.elapsed().as_secs_f64());

	// ---- C
	section_c1(&run, seed, nl, cap(bud_c1));
	eprintln!("[C07] C1 done at {:.1}s", t0.elapsed().as_secs_f64());
	section_c2(&run, seed, c2_leaves, c2_programs, cap(bud_c2));
	section_c4(&run, seed, run.tier.pick(300, 3000));
	section_c5(&run, seed, if san { 40 } else { run.tier.pick(400, 4000) });
	section_c6(&run, seed, if san { 6 } else { run.tier.pick(30, 300) });
	eprintln!("[C07] C2 done at {:.1}s", t0.elapsed().as_secs_f64());
	let mut targets: Vec<usize> = vec![
		1usize << c3_hi_bits,
		(1usize << c3_hi_bits) - 1,
		(1usize << (c3_hi_bits - 1)) + 1,
	];
	let mut p3 = prng.fork(3);
	let n_targets = if san { 4 } else if thorough { 32 } else { 16 };
	while targets.len() < n_targets {
		targets.push(log_uniform(&mut p3, c3_lo_bits, c3_hi_bits));
	}
	section_c3(&run, seed, &targets, cap(bud_c3));
	eprintln!("[C07] C3 done at {:.1}s", t0.elapsed().as_secs_f64());

	// ---- D
	let d_sizes: Vec<usize> = (1..=d_leaves).collect();
	section_d(&run, seed, d_leaves, &d_sizes, cap(bud_d));
	eprintln!("[C07] D done at {:.1}s", t0.elapsed().as_secs_f64());

	// ---- E
	section_e(&run, seed, e_leaves);
	eprintln!("[C07] E done at {:.1}s", t0.elapsed().as_secs_f64());

	// ---- minimum observations
	for f in PURE_FNS.iter() {
		run.require(&format!("comparisons of {}", f), run.counter(f), 100);
	}
	run.require(
		"positions of the explicit tree compared (all)",
		run.counter("A.positions_done"),
		(4 * nl - 1) as u64,
	);
	run.require("huge arguments compared", run.counter("B.args_done"), 20_000);
	run.require("proofs of present leaves with other leaves removed", run.counter("D.proofs_of_present_leaves_with_other_leaves_removed"), if san { 50 } else { 1000 });
	run.require(
		"same PMMR object: rewind + different leaves back to the same size, observed only afterwards",
		run.counter("C.same_object_repush_to_the_same_size"),
		if san { 2 } else { 50 },
	);
	run.require(
		"roots equal to the reference root after a push",
		run.counter("C.roots_equal_reference"),
		nl as u64,
	);
	run.require(
		"roots equal to the reference root after a rewind",
		run.counter("C.rewind_roots_equal_reference"),
		c2_leaves as u64,
	);
	run.require(
		"largest random MMR (leaves)",
		run.counter("C3.max_leaves_reached"),
		1u64 << c3_hi_bits,
	);
	let n_proofs: u64 = d_sizes.iter().map(|x| *x as u64).sum();
	run.require(
		"honest proofs verified against the reference root",
		run.counter("D.honest_proofs_verified"),
		n_proofs,
	);
	run.require(
		"corrupted proofs rejected",
		run.counter("D.corruptions_rejected"),
		n_proofs * 10,
	);
	for c in [
		"D.element_substituted",
		"D.other_leaf_position",
		"D.other_non_leaf_or_outside_position",
		"D.path_hash_flipped",
		"D.path_shortened_front",
		"D.path_shortened_back",
		"D.path_lengthened_front",
		"D.path_lengthened_back",
		"D.path_lengthened_duplicate_last",
	] {
		run.require(&format!("rejections in class {}", c), run.counter(c), d_leaves as u64);
	}
	run.require(
		"states of one long-lived PMMR compared right after an injected backend error (C5)",
		run.counter("C5.states_compared_right_after_a_backend_error"),
		if san { 50 } else { run.tier.pick(800, 8000) },
	);
	run.require(
		"proofs by definition in MMRs of 2^k + r leaves, k up to 61, with paths of the maximal length k + 1 (C6)",
		run.counter("C6.paths_of_maximal_length_k_plus_1"),
		if san { 60 } else { run.tier.pick(300, 3000) },
	);
	run.require(
		"n_unpruned_leaves comparisons (file backend)",
		run.counter("PMMR::n_unpruned_leaves"),
		e_leaves as u64,
	);
	run.require(
		"reference self-check mismatches == 0 and no section cut short (1 = ok)",
		if INCONC.load(Ordering::Relaxed) == 0 && run.counter("ref_selfcheck.mismatches") == 0 {
			1
		} else {
			0
		},
		1,
	);
	run.finish();
}
