//! C06 — rejected or losing-fork input leaves best-chain state untouched.
//!
//! Oracles: structural snapshot diff around every failing call (head, roots,
//! sizes, full unspent set by both access paths, block sums and spend records of
//! best-chain blocks) + twin-node differential: a twin that never saw the bad
//! input must answer every later delivery the same way and end in the same
//! best-chain state.

use grin_chain::types::Options;
use grin_chain::Chain;
use grin_core::core::hash::{Hash, Hashed};
use grin_core::core::{Block, BlockHeader, HeaderVersion, KernelFeatures, Transaction};
use grin_core::global;
use serde_json::json;
use std::collections::{HashMap, HashSet};
use std::sync::atomic::{AtomicU64, Ordering};
use vcommon::forktree::{gen_history, hist_from_json, hist_to_json, shape_sig, Hist, TreeCfg};
use vcommon::snapshot::{diff, snapshot, Snap};
use vcommon::world::{fee_fields, init_globals, init_thread, nrd, open_chain, Coin, PowMode};
use vcommon::{Prng, Run, Scratch};

/// One hostile input for the subject node.
enum Bad {
	/// block expected to be refused; `header_valid`: its header passes the header rules
	Block {
		class: &'static str,
		block: Block,
		header_valid: bool,
		on_fork: bool,
	},
	/// header batch whose k-th header is bad
	HeaderBatch {
		class: &'static str,
		headers: Vec<BlockHeader>,
		/// hashes of the broken header and of the headers after it
		not_to_be_stored: Vec<Hash>,
	},
	Tx {
		class: &'static str,
		tx: Transaction,
	},
	/// undecodable block bytes for the untrusted reader
	Bytes {
		class: &'static str,
		bytes: Vec<u8>,
	},
	/// VALID blocks of a competing fork whose last block reaches exactly the cumulative difficulty of the head (and
	/// whose content differs from the best chain's): accepted, but the head may only move to strictly more work
	TieFork {
		class: &'static str,
		blocks: Vec<Block>,
	},
}

const BLOCK_CLASSES: &[&str] = &[
	"hdr_timestamp_not_later",
	"hdr_wrong_height",
	"hdr_wrong_version",
	"hdr_bad_prev_root",
	"body_unbalanced_output",
	"body_bad_kernel_signature",
	"body_coinbase_overclaim",
	"immature_coinbase_spend",
	"utxo_double_spend",
	"utxo_never_created",
	"utxo_duplicate_unspent",
	"late_output_root",
	"late_range_proof_root",
	"late_kernel_root",
	"late_output_mmr_size",
	"late_kernel_mmr_size",
];

fn flip(h: &Hash) -> Hash {
	let mut v = h.to_vec();
	v[5] ^= 0x5a;
	Hash::from_vec(&v)
}

/// Unspent coinbase on `parent`'s state that is NOT yet mature for the next block.
fn immature_coin(h: &mut Hist, parent: &Hash) -> Option<Coin> {
	let st = h.ledger.state_at(parent);
	let next = st.height + 1;
	let mat = global::coinbase_maturity();
	let mut v = vec![];
	for (c, &i) in &st.utxo {
		if let Some(coin) = h.coins.get(&c.0.to_vec()) {
			if coin.coinbase && next < st.outs[i].height + mat {
				v.push(coin.clone());
			}
		}
	}
	v.sort_by(|a, b| a.commit.0.cmp(&b.commit.0));
	v.first().cloned()
}

/// Build a block on `parent` that is wrong in exactly the way `class` names.
fn bad_block(h: &mut Hist, parent: &Hash, class: &'static str) -> Option<(Block, bool)> {
	let world = h.world.clone();
	let mut p = h.prng.fork(21);
	let k = h.fresh_key();
	let mode = if h.real_pow {
		PowMode::Real
	} else {
		PowMode::Skip {
			difficulty: 1 + p.below(1000),
		}
	};
	let prev_td = h.ledger.header(parent).total_difficulty();
	// after a header mutation: re-mine (real PoW), or give the header a fresh pseudo-proof
	// (the block hash covers the proof only, so without this the mutant would share the
	// hash of the unmutated block)
	let mut p2 = h.prng.fork(22);
	let mut remine = |b: &mut Block, h: &Hist| {
		if h.real_pow {
			let _ = vcommon::world::mine(&mut b.header, prev_td);
		} else {
			vcommon::world::skip_pow_proof(&mut b.header, &mut p2);
		}
	};
	let ts = 40;
	let mk = |h: &mut Hist, txs: &[Transaction], p: &mut Prng| -> Option<Block> {
		h.ledger.make_block(&world, p, parent, txs, &k, mode, ts).ok()
	};
	match class {
		"hdr_timestamp_not_later" => {
			let mut b = mk(h, &[], &mut p)?;
			b.header.timestamp = h.ledger.header(parent).timestamp;
			remine(&mut b, h);
			Some((b, false))
		}
		"hdr_wrong_height" => {
			let mut b = mk(h, &[], &mut p)?;
			b.header.height += 1;
			remine(&mut b, h);
			Some((b, false))
		}
		"hdr_wrong_version" => {
			let mut b = mk(h, &[], &mut p)?;
			b.header.version = HeaderVersion(b.header.version.0 % 5 + 1 + if b.header.version.0 == 5 { 5 } else { 0 });
			remine(&mut b, h);
			Some((b, false))
		}
		"hdr_bad_prev_root" => {
			let mut b = mk(h, &[], &mut p)?;
			b.header.prev_root = flip(&b.header.prev_root);
			remine(&mut b, h);
			Some((b, false))
		}
		"body_unbalanced_output" => {
			let avail = h.spendable(parent);
			let c = avail.first()?.clone();
			// outputs exceed inputs - fee by 1000 nanogrin
			let fee = 1_000_000;
			let outs = vec![(c.value - fee + 1000, h.fresh_key())];
			let (tx, _) = world.tx(&mut p, &[c], &outs, KernelFeatures::Plain { fee: fee_fields(fee) });
			let b = mk(h, &[tx], &mut p)?;
			Some((b, true))
		}
		"body_bad_kernel_signature" => {
			let avail = h.spendable(parent);
			let c = avail.first()?.clone();
			let tx = h.spend_tx(&[c], 1, None);
			let mut b = mk(h, &[tx], &mut p)?;
			// swap the signatures of the two kernels (coinbase kernel and tx kernel)
			if b.body.kernels.len() < 2 {
				return None;
			}
			let s0 = b.body.kernels[0].excess_sig.clone();
			b.body.kernels[0].excess_sig = b.body.kernels[1].excess_sig.clone();
			b.body.kernels[1].excess_sig = s0;
			h.ledger.commit_header(&mut b);
			remine(&mut b, h);
			Some((b, true))
		}
		"body_coinbase_overclaim" => {
			// coinbase built for fees that the block does not collect
			let (out, kern) = world.coinbase(&k, 12_345_678);
			let prev = h.ledger.header(parent).clone();
			let diff = match mode {
				PowMode::Skip { difficulty } => grin_core::pow::Difficulty::from_num(difficulty),
				PowMode::Real => {
					let win = h.ledger.difficulty_window(parent);
					grin_core::consensus::next_difficulty(prev.height + 1, win).difficulty
				}
			};
			let mut b = Block::from_reward(&prev, &[], out, kern, diff).ok()?;
			b.header.timestamp = prev.timestamp + chrono::Duration::seconds(ts);
			b.header.pow.proof.edge_bits = global::min_edge_bits();
			if h.real_pow {
				let win = h.ledger.difficulty_window(parent);
				b.header.pow.secondary_scaling =
					grin_core::consensus::next_difficulty(prev.height + 1, win).secondary_scaling;
			}
			h.ledger.commit_header(&mut b);
			if h.real_pow {
				remine(&mut b, h);
			} else {
				vcommon::world::skip_pow_proof(&mut b.header, &mut p);
			}
			h.ledger.add(&b);
			Some((b, true))
		}
		"immature_coinbase_spend" => {
			let c = immature_coin(h, parent)?;
			let tx = h.spend_tx(&[c], 1, None);
			let b = mk(h, &[tx], &mut p)?;
			Some((b, true))
		}
		"utxo_double_spend" => {
			let c = h.spent_coins(parent).first()?.clone();
			let tx = h.spend_tx(&[c], 1, None);
			Some((mk(h, &[tx], &mut p)?, true))
		}
		"utxo_never_created" => {
			let kk = h.fresh_key();
			let c = world.coin(5_000_000_000, &kk, false);
			let tx = h.spend_tx(&[c], 1, None);
			Some((mk(h, &[tx], &mut p)?, true))
		}
		"utxo_duplicate_unspent" => {
			let avail = h.spendable(parent);
			if avail.len() < 2 {
				return None;
			}
			let dup = avail[0].clone();
			let input = avail.iter().skip(1).find(|c| c.value > dup.value + 2_000_000)?.clone();
			let tx = h.recreate_tx(&input, &dup)?;
			Some((mk(h, &[tx], &mut p)?, true))
		}
		"late_output_root" | "late_range_proof_root" | "late_kernel_root" | "late_output_mmr_size"
		| "late_kernel_mmr_size" => {
			// a block with a spend so that the working MMRs, leaf set and indexes were all touched
			let avail = h.spendable(parent);
			let txs = match avail.first() {
				Some(c) => vec![h.spend_tx(&[c.clone()], 2, None)],
				None => vec![],
			};
			let mut b = mk(h, &txs, &mut p)?;
			match class {
				"late_output_root" => b.header.output_root = flip(&b.header.output_root),
				"late_range_proof_root" => b.header.range_proof_root = flip(&b.header.range_proof_root),
				"late_kernel_root" => b.header.kernel_root = flip(&b.header.kernel_root),
				"late_output_mmr_size" => {
					// the next valid MMR size (one more leaf): still a plausible header
					b.header.output_mmr_size =
						grin_core::core::pmmr::insertion_to_pmmr_index(grin_core::core::pmmr::n_leaves(b.header.output_mmr_size) + 1)
				}
				_ => {
					b.header.kernel_mmr_size =
						grin_core::core::pmmr::insertion_to_pmmr_index(grin_core::core::pmmr::n_leaves(b.header.kernel_mmr_size) + 1)
				}
			}
			remine(&mut b, h);
			Some((b, true))
		}
		_ => None,
	}
}

struct Stats {
	injected: HashMap<String, u64>,
	fork_blocks_checked: u64,
	twin_steps: u64,
	late_on_fork: u64,
	bad_blocks_on_an_ancestor_of_the_head: u64,
	tie_forks_accepted: u64,
}

fn apply_bad(
	run: &Run,
	subject: &Chain,
	h: &Hist,
	bad: &Bad,
	commits: &[grin_util::secp::pedersen::Commitment],
	replay: &serde_json::Value,
	stats: &mut Stats,
) -> bool {
	let before = match snapshot(subject, commits) {
		Ok(s) => s,
		Err(e) => {
			run.inconclusive(&format!("snapshot before failed: {}", e));
			return true;
		}
	};
	let opts = h.opts();
	let (class, refused, header_valid): (String, bool, bool) = match bad {
		Bad::Block {
			class,
			block,
			header_valid,
			on_fork,
		} => {
			// as received from a peer, while syncing, or from the node's own miner
			let (otag, o) = [("", opts), ("+SYNC", opts | Options::SYNC), ("+MINE", opts | Options::MINE)][(block.hash().as_bytes()[5] % 3) as usize];
			let r = subject.process_block(block.clone(), o);
			*stats.injected.entry(format!("bad_block_delivered_with_options{}", if otag.is_empty() { "_plain" } else { otag })).or_insert(0) += 1;
			if *on_fork {
				stats.late_on_fork += 1;
			}
			(
				format!("{}{}", class, if *on_fork { "@fork" } else { "" }),
				r.is_err(),
				*header_valid,
			)
		}
		Bad::HeaderBatch { class, headers, not_to_be_stored } => {
			let sh = subject.header_head().unwrap();
			let r = subject.sync_block_headers(headers, sh, opts);
			let fork = headers.last().map(|x| x.total_difficulty() <= sh.total_difficulty).unwrap_or(false);
			*stats.injected.entry(format!("{}.{}", class, if fork { "not_overtaking_header_head" } else { "overtaking_header_head" })).or_insert(0) += 1;
			// only a header that is itself valid may be remembered: the broken one and its descendants may not
			if let Some(x) = not_to_be_stored.iter().find(|x| subject.get_block_header(x).is_ok()) {
				run.violation(
					&format!("C06;class={};invalid_header_remembered;{}", class, if r.is_err() { "call_failed" } else { "call_succeeded" }),
					&format!(
						"sync_block_headers returned {:?} for a batch of {} headers whose header #{} is invalid; afterwards header {} of the batch is in the header store",
						r.as_ref().map(|_| ()),
						headers.len(),
						headers.len() - not_to_be_stored.len(),
						x
					),
					replay.clone(),
				);
				return false;
			}
			(class.to_string(), r.is_err(), false)
		}
		Bad::Tx { class, tx } => {
			let r = subject.validate_tx(tx);
			(class.to_string(), r.is_err(), false)
		}
		Bad::TieFork { class, blocks } => {
			// not refused: accepted onto a fork that does not become the head
			*stats.injected.entry(class.to_string()).or_insert(0) += 1;
			run.eval(&format!("tie_fork;class={};head_height_band={}", class, before.head.1 / 3), true);
			for (i, b) in blocks.iter().enumerate() {
				match subject.process_block(b.clone(), opts) {
					Ok(None) => {}
					Ok(Some(t)) => {
						run.violation(
							&format!("C06;class={};head_moved_without_more_work", class),
							&format!("fork block #{} (total difficulty {}) became the head although the head had total difficulty {}", i, t.total_difficulty.to_num(), before.head.2),
							replay.clone(),
						);
						return false;
					}
					Err(e) => {
						// a valid block must not be refused either; but that is not this property's business: count it
						*stats.injected.entry(format!("{}.refused:{:?}", class, e).chars().take(60).collect()).or_insert(0) += 1;
						return true;
					}
				}
			}
			stats.tie_forks_accepted += 1;
			let after = match snapshot(subject, commits) {
				Ok(s) => s,
				Err(e) => {
					run.violation(&format!("C06;class={};state_unreadable_after_fork_block", class), &e, replay.clone());
					return false;
				}
			};
			if let Some(d) = diff(&before, &after, true) {
				run.violation(
					&format!("C06;class={};losing_fork_block_changed_state;{}", class, d.split(' ').next().unwrap_or("")),
					&format!("a valid fork reaching exactly the head's cumulative difficulty did not become the head, but: {}", d),
					replay.clone(),
				);
				return false;
			}
			return true;
		}
		Bad::Bytes { class, bytes } => {
			let r: Result<grin_core::core::UntrustedBlock, _> = grin_core::ser::deserialize(
				&mut &bytes[..],
				grin_core::ser::ProtocolVersion(3),
				grin_core::ser::DeserializationMode::default(),
			);
			(class.to_string(), r.is_err(), false)
		}
	};
	*stats.injected.entry(class.clone()).or_insert(0) += 1;
	run.eval(
		&format!(
			"hostile;class={};header_valid={};head_height_band={}",
			class,
			header_valid,
			before.head.1 / 3
		),
		true,
	);
	if !refused {
		run.violation(
			&format!("C06;class={};invalid_input_accepted", class),
			"input constructed to be invalid was accepted",
			replay.clone(),
		);
		return false;
	}
	let after = match snapshot(subject, commits) {
		Ok(s) => s,
		Err(e) => {
			run.violation(
				&format!("C06;class={};state_unreadable_after_rejection", class),
				&format!("reading the node state after the rejected input failed: {}", e),
				replay.clone(),
			);
			return false;
		}
	};
	// a rejected block with a valid header may leave that header remembered:
	// compare the best-chain state only in that case
	if let Some(d) = diff(&before, &after, header_valid) {
		run.violation(
			&format!(
				"C06;class={};state_changed_by_rejected_input;{}",
				class,
				d.split(' ').next().unwrap_or("")
			),
			&format!("snapshot before != after the rejected call: {}", d),
			replay.clone(),
		);
		return false;
	}
	true
}

fn run_history(run: &Run, idx: u64, h: &mut Hist, sc: &Scratch, stats: &mut Stats) {
	let mut prng = Prng::new(h.world.seed ^ 0xC06 ^ idx);
	let sig = shape_sig(h);
	let dir_a = sc.sub(&format!("a{}", idx));
	let dir_b = sc.sub(&format!("b{}", idx));
	let subject = open_chain(&dir_a, &h.genesis).expect("open subject");
	let twin = open_chain(&dir_b, &h.genesis).expect("open twin");
	let opts: Options = h.opts();
	let n_honest = h.blocks.len();
	// random parent-first order
	let mut delivered: HashSet<Hash> = HashSet::new();
	delivered.insert(h.genesis.hash());
	let mut remaining: Vec<usize> = (0..n_honest).collect();
	let mut delivered_list: Vec<Hash> = vec![];
	let replay0 = json!({"history_index": idx, "history_seed": h.world.seed, "shape": sig, "real_pow": h.real_pow});
	let mut class_cursor = prng.usize_below(BLOCK_CLASSES.len());
	let mut ok = true;
	while !remaining.is_empty() && ok {
		// hostile inputs before this delivery
		if !delivered_list.is_empty() && prng.chance(2, 3) {
			let n_bad = 1 + prng.usize_below(2);
			for _ in 0..n_bad {
				let commits = h.all_commits();
				let head = subject.head().unwrap().last_block_h;
				let kind = prng.below(10);
				let tie = !h.real_pow && prng.chance(1, 4);
				let bad: Option<Bad> = if tie {
					// a competing fork of 1 or 2 valid blocks ending on EXACTLY the head's cumulative difficulty
					let anc: Vec<Hash> = h.ledger.ancestry(&head).into_iter().rev().collect(); // head first
					let depth = if anc.len() >= 3 && prng.chance(1, 2) { 2 } else { 1 };
					if anc.len() > depth {
						let fp = anc[depth];
						let gap = h.ledger.get(&head).total_difficulty - h.ledger.get(&fp).total_difficulty;
						let mut blocks = vec![];
						let mut tip = fp;
						let mut left = gap;
						let mut ok_fork = depth as u64 <= gap;
						for j in 0..depth {
							if !ok_fork {
								break;
							}
							let d = if j + 1 == depth { left } else { 1 + prng.below(left - (depth - j - 1) as u64) };
							left -= d;
							// different content: own coinbase, and a spend where one is possible
							let coins = h.spendable(&tip);
							let txs = match coins.first() {
								Some(c) if prng.chance(2, 3) => vec![h.spend_tx(&[c.clone()], 1, None)],
								_ => vec![],
							};
							let gb = vcommon::scenarios::mk_block_txs(h, &tip, &txs, d, "tie_fork");
							if gb.verdict.is_err() {
								ok_fork = false;
								break;
							}
							tip = gb.hash;
							blocks.push(gb.block);
						}
						if ok_fork && !blocks.is_empty() {
							Some(Bad::TieFork { class: if depth == 1 { "tie_sibling_of_head" } else { "tie_two_block_fork" }, blocks })
						} else {
							None
						}
					} else {
						None
					}
				} else if kind < 7 {
					// bad block on the head or on a fork block
					let class = BLOCK_CLASSES[class_cursor % BLOCK_CLASSES.len()];
					class_cursor += 1;
					let fork_parents: Vec<Hash> = delivered_list
						.iter()
						.cloned()
						.filter(|x| !h.ledger.is_ancestor(x, &head))
						.collect();
					// ... or on a block of the best chain BELOW the head: the node then only rewinds (nothing is
					// re-applied before the bad block is judged), a path of its own through the working state
					let below_head: Vec<Hash> = h.ledger.ancestry(&head).into_iter().rev().skip(1).take(3).filter(|x| *x != h.genesis.hash()).collect();
					let (parent, on_fork) = if !fork_parents.is_empty() && prng.chance(1, 3) {
						(*prng.pick(&fork_parents), true)
					} else if !below_head.is_empty() && prng.chance(1, 2) {
						stats.bad_blocks_on_an_ancestor_of_the_head += 1;
						(*prng.pick(&below_head), true)
					} else {
						(head, false)
					};
					bad_block(h, &parent, class).map(|(block, header_valid)| Bad::Block {
						class,
						block,
						header_valid,
						on_fork,
					})
				} else if kind == 7 {
					// header batch: honest headers of a not yet delivered branch with one broken
					let cand: Vec<usize> = remaining
						.iter()
						.cloned()
						.filter(|&i| delivered.contains(&h.blocks[i].parent))
						.collect();
					if cand.is_empty() {
						None
					} else {
						let first = *prng.pick(&cand);
						let mut hs = vec![h.blocks[first].block.header.clone()];
						// extend along children
						loop {
							let last = hs.last().unwrap().hash();
							match remaining.iter().find(|&&i| h.blocks[i].parent == last) {
								Some(&i) => hs.push(h.blocks[i].block.header.clone()),
								None => break,
							}
						}
						let kbad = prng.usize_below(hs.len());
						let bad_root = prng.bool();
						if bad_root {
							// everything right except the commitment to the header MMR of its ancestors
							let mut v = hs[kbad].prev_root.to_vec();
							v[prng.usize_below(32)] ^= 1 << prng.below(8);
							hs[kbad].prev_root = Hash::from_vec(&v);
						} else {
							hs[kbad].timestamp = if kbad == 0 {
								h.ledger.header(&hs[0].prev_hash).timestamp
							} else {
								hs[kbad - 1].timestamp
							};
						}
						if h.real_pow {
							None // re-mining a chain of headers is not worth it here
						} else {
							// the hash covers the proof only: the broken header gets a proof (= an identity) of its own,
							// and the later headers link to it
							vcommon::world::skip_pow_proof(&mut hs[kbad], &mut prng);
							for j in kbad + 1..hs.len() {
								hs[j].prev_hash = hs[j - 1].hash();
							}
							let not_to_be_stored: Vec<Hash> = hs[kbad..].iter().map(|x| x.hash()).collect();
							Some(Bad::HeaderBatch {
								class: if bad_root { "header_batch_kth_bad_prev_root" } else { "header_batch_kth_bad" },
								headers: hs,
								not_to_be_stored,
							})
						}
					}
				} else if kind == 8 {
					// transaction the chain must refuse
					let spent = h.spent_coins(&head);
					match spent.first() {
						Some(c) => {
							let nrd_tx = prng.bool();
							let tx = if nrd_tx {
								let k = h.fresh_key();
								let mut p = h.prng.fork(5);
								h.world.tx(&mut p, &[c.clone()], &[(c.value - 1_000_000, k)], nrd(1_000_000, 2)).0
							} else {
								h.spend_tx(&[c.clone()], 1, None)
							};
							Some(Bad::Tx {
								class: if nrd_tx { "tx_spends_spent_output_nrd" } else { "tx_spends_spent_output" },
								tx,
							})
						}
						None => None,
					}
				} else if prng.chance(1, 2) {
					// an honest block that is still to come (its parent is there), with its own header but a body that
					// cannot be right: range proofs of two outputs swapped, or the first kernel's signature damaged.
					// Refusing it must not be remembered against the header: the genuine block follows later
					// (the twin node, which never sees this copy, accepts it)
					let cand: Vec<usize> = remaining.iter().cloned().filter(|&i| delivered.contains(&h.blocks[i].parent)).collect();
					if cand.is_empty() {
						None
					} else {
						let i = *prng.pick(&cand);
						let mut b = h.blocks[i].block.clone();
						let swapped = b.body.outputs.len() >= 2 && prng.bool();
						if swapped {
							let x = b.body.outputs[0].proof;
							b.body.outputs[0].proof = b.body.outputs[1].proof;
							b.body.outputs[1].proof = x;
						} else {
							let mut sig = b.body.kernels[0].excess_sig.as_ref().to_vec();
							sig[40] ^= 0x10;
							b.body.kernels[0].excess_sig = grin_util::secp::Signature::from_raw_data(&{
								let mut a = [0u8; 64];
								a.copy_from_slice(&sig);
								a
							})
							.expect("signature bytes");
						}
						let on_fork = h.blocks[i].parent != head;
						Some(Bad::Block {
							class: if swapped { "body_copy_of_a_block_to_come_proofs_swapped" } else { "body_copy_of_a_block_to_come_signature_damaged" },
							block: b,
							header_valid: true,
							on_fork,
						})
					}
				} else {
					// undecodable bytes: an honest block cut short
					let i = prng.usize_below(n_honest);
					let mut bytes = grin_core::ser::ser_vec(&h.blocks[i].block, grin_core::ser::ProtocolVersion(3)).unwrap();
					let cut = 1 + prng.usize_below(bytes.len() - 1);
					bytes.truncate(cut);
					Some(Bad::Bytes {
						class: "read_time_truncated_block",
						bytes,
					})
				};
				if let Some(bad) = bad {
					let mut rp = replay0.clone();
					rp["delivered_so_far"] = json!(delivered_list.len());
					if !apply_bad(run, &subject, h, &bad, &commits, &rp, stats) {
						ok = false;
						break;
					}
				}
			}
			if !ok {
				break;
			}
		}
		// next honest delivery, to both nodes
		let ready: Vec<usize> = remaining
			.iter()
			.cloned()
			.filter(|&i| delivered.contains(&h.blocks[i].parent))
			.collect();
		let pick = *prng.pick(&ready);
		remaining.retain(|&x| x != pick);
		let gb = h.blocks[pick].clone();
		delivered.insert(gb.hash);
		delivered_list.push(gb.hash);
		let commits = h.all_commits();
		let before = snapshot(&subject, &commits).ok();
		let ra = subject.process_block(gb.block.clone(), opts);
		let rb = twin.process_block(gb.block.clone(), opts);
		stats.twin_steps += 1;
		run.eval(
			&format!(
				"lockstep;res={};hband={}",
				match &ra {
					Ok(Some(_)) => "head",
					Ok(None) => "fork",
					Err(_) => "refused",
				},
				gb.block.header.height / 3
			),
			false,
		);
		let ka = ra.as_ref().map(|t| t.as_ref().map(|t| t.last_block_h)).map_err(|e| format!("{:?}", e));
		let kb = rb.as_ref().map(|t| t.as_ref().map(|t| t.last_block_h)).map_err(|e| format!("{:?}", e));
		if ka != kb {
			run.violation(
				"C06;twin_divergence;delivery_result",
				&format!("block {} -> subject {:?} but twin {:?}", gb.hash, ka, kb),
				replay0.clone(),
			);
			break;
		}
		let sa = snapshot(&subject, &commits);
		let sb = snapshot(&twin, &commits);
		match (sa, sb) {
			(Ok(a), Ok(b)) => {
				if let Some(d) = diff(&a, &b, true) {
					run.violation(
						&format!("C06;twin_divergence;state;{}", d.split(' ').next().unwrap_or("")),
						&format!("after block {}: subject vs twin: {}", gb.hash, d),
						replay0.clone(),
					);
					break;
				}
				// valid block accepted onto a fork that did not become the head
				if let (Ok(None), Some(bf)) = (&ra, &before) {
					stats.fork_blocks_checked += 1;
					if let Some(d) = diff(bf, &a, true) {
						run.violation(
							&format!("C06;losing_fork_block_changed_state;{}", d.split(' ').next().unwrap_or("")),
							&format!("valid fork block {} did not become head but: {}", gb.hash, d),
							replay0.clone(),
						);
						break;
					}
				}
			}
			(a, b) => {
				run.violation(
					"C06;state_unreadable",
					&format!("snapshot failed: {:?} / {:?}", a.err(), b.err()),
					replay0.clone(),
				);
				break;
			}
		}
	}
	if ok {
		let va = subject.validate(false).is_ok();
		let vb = twin.validate(false).is_ok();
		if va != vb || !va {
			run.violation(
				"C06;final_validate",
				&format!("validate(false): subject {} twin {}", va, vb),
				replay0.clone(),
			);
		}
	}
	let total_bad: u64 = stats.injected.values().sum();
	run.eval(&format!("{};bad_inputs={}", sig, total_bad.min(40)), total_bad > 0);
	drop(subject);
	drop(twin);
	let _ = std::fs::remove_dir_all(&dir_a);
	let _ = std::fs::remove_dir_all(&dir_b);
}

fn main() {
	let run = Run::from_env("C06", "exploration");
	init_globals(true);
	let n_skip: u64 = run.tier.pick(58, 400);
	let n_real: u64 = run.tier.pick(6, 48);
	let total = n_skip + n_real;
	if let Some((shard, n)) = run.worker_shard() {
		init_thread(true);
		let dir = run.arg_value("--dir").expect("--dir");
		let sc = Scratch::new("c06w");
		let mut stats = Stats {
			injected: HashMap::new(),
			fork_blocks_checked: 0,
			twin_steps: 0,
			late_on_fork: 0,
			bad_blocks_on_an_ancestor_of_the_head: 0,
			tie_forks_accepted: 0,
		};
		let deadline = run.tier.pick(300.0, 1200.0);
		for i in 0..total {
			if i as usize % n != shard {
				continue;
			}
			if run.elapsed_s() > deadline {
				run.count("histories_skipped_by_deadline", 1);
				continue;
			}
			let txt = std::fs::read_to_string(format!("{}/h{}.json", dir, i)).expect("history file");
			let mut h = hist_from_json(&serde_json::from_str(&txt).unwrap());
			let before: u64 = stats.injected.values().sum();
			run_history(&run, i, &mut h, &sc, &mut stats);
			if i < 2 {
				run.sample(json!({
					"history_index": i, "shape": shape_sig(&h), "real_pow": h.real_pow,
					"hostile_inputs_injected": stats.injected.values().sum::<u64>() - before,
					"classes_so_far": stats.injected.keys().collect::<Vec<_>>(),
				}));
			}
		}
		for (k, v) in &stats.injected {
			run.count(&format!("rejected.{}", k), *v);
		}
		run.count("hostile_inputs_total", stats.injected.values().sum());
		run.count("valid_losing_fork_blocks_checked", stats.fork_blocks_checked);
		run.count("twin_lockstep_deliveries", stats.twin_steps);
		run.count("bad_blocks_on_fork_parent", stats.late_on_fork);
		run.count("bad_blocks_on_an_ancestor_of_the_head", stats.bad_blocks_on_an_ancestor_of_the_head);
		run.count("valid_forks_reaching_exactly_the_heads_work_accepted_without_effect", stats.tie_forks_accepted);
		drop(sc);
		run.finish_worker();
	}
	run.set_rule(
		"history = random fork tree of valid blocks (SKIP_POW, and real-PoW ones) delivered parent-first in random order to a subject \
		 node and a twin; before 2/3 of the deliveries 1-2 hostile inputs go to the subject only, cycling through: header-rule \
		 violations (timestamp, height, version, prev_root), body violations (unbalanced re-proved output, swapped kernel signatures, \
		 coinbase over-claim), immature coinbase spend, forged UTXO violations with reference-computed commitments (double spend, \
		 never-created, duplicate unspent), late failures that only show after the block was applied to the working MMRs \
		 (output_root / range_proof_root / kernel_root / output_mmr_size / kernel_mmr_size), each on the head or on a non-best \
		 fork block (rewind_and_apply_fork first), header batches with the k-th header broken, transactions refused by validate_tx \
		 (plain and NRD), truncated block bytes through the untrusted reader. Oracles: snapshot(before) == snapshot(after) for every \
		 refused call (full, or best-chain-only when the refused block's header is itself valid), same for valid blocks that do not \
		 become head, twin lock-step equality of results and best-chain snapshots, final validate(false). One evaluation per \
		 hostile input (distinct by class, on-fork flag, header validity, height band), per lock-step delivery (trivial) and per \
		 history (distinct by tree shape and number of hostile inputs).",
	);
	run.assume("real-PoW histories re-mine mutated headers so only the targeted rule fails; header batches are only broken in SKIP_POW histories");
	let sc = Scratch::new("c06");
	let next = AtomicU64::new(0);
	std::thread::scope(|s| {
		for _ in 0..16 {
			s.spawn(|| {
				init_thread(true);
				loop {
					let i = next.fetch_add(1, Ordering::SeqCst);
					if i >= total {
						break;
					}
					let mut p = Prng::new(run.seed.wrapping_mul(0x51ED_270B).wrapping_add(i));
					let mut cfg = TreeCfg::small();
					cfg.n_invalid = 0;
					cfg.trunk = 4 + p.usize_below(4);
					cfg.branches = 1 + p.usize_below(3);
					cfg.max_depth = 2 + p.usize_below(5);
					cfg.tx_per_mille = 700;
					cfg.real_pow = i >= n_skip;
					if cfg.real_pow {
						cfg.trunk = 5;
						cfg.branches = 1;
						cfg.max_depth = 3;
					}
					let h = gen_history(p.next_u64(), &cfg);
					std::fs::write(
						format!("{}/h{}.json", sc.path.display(), i),
						serde_json::to_string(&hist_to_json(&h)).unwrap(),
					)
					.unwrap();
				}
			});
		}
	});
	run.count("history_generation_seconds", run.elapsed_s() as u64);
	run.spawn_workers(16, &["--dir".to_string(), sc.path.display().to_string()], run.tier.pick(400, 2400));
	drop(sc);
	let total_bad = run.counter("hostile_inputs_total");
	run.require("hostile_inputs_total", total_bad, run.tier.pick(150, 1500));
	run.require("twin_lockstep_deliveries", run.counter("twin_lockstep_deliveries"), run.tier.pick(150, 1500));
	run.require("valid_losing_fork_blocks_checked", run.counter("valid_losing_fork_blocks_checked"), run.tier.pick(30, 300));
	run.require("bad_blocks_on_fork_parent", run.counter("bad_blocks_on_fork_parent"), run.tier.pick(10, 100));
	for c in BLOCK_CLASSES {
		let n = run.counter(&format!("rejected.{}", c)) + run.counter(&format!("rejected.{}@fork", c));
		run.require(&format!("rejected.{}(+@fork)", c), n, run.tier.pick(1, 8));
	}
	for c in ["body_copy_of_a_block_to_come_proofs_swapped", "body_copy_of_a_block_to_come_signature_damaged"] {
		let n = run.counter(&format!("rejected.{}", c)) + run.counter(&format!("rejected.{}@fork", c));
		run.require(&format!("rejected.{}(+@fork), the genuine block delivered afterwards", c), n, run.tier.pick(3, 30));
	}
	run.require("bad blocks on an ancestor of the head (rewind only, nothing re-applied)", run.counter("bad_blocks_on_an_ancestor_of_the_head"), run.tier.pick(20, 200));
	run.require("valid forks reaching exactly the head's cumulative difficulty", run.counter("valid_forks_reaching_exactly_the_heads_work_accepted_without_effect"), run.tier.pick(20, 200));
	for c in ["header_batch_kth_bad", "header_batch_kth_bad_prev_root", "header_batch_kth_bad_prev_root.not_overtaking_header_head", "tx_spends_spent_output", "read_time_truncated_block"] {
		run.require(&format!("rejected.{}", c), run.counter(&format!("rejected.{}", c)), run.tier.pick(2, 20));
	}
	run.finish();
}
